package ledger

import (
	"fmt"

	"0chain.net/chaincore/chain"
	"0chain.net/chaincore/smartcontract"
	sci "0chain.net/chaincore/smartcontractinterface"
	"0chain.net/chaincore/state"
	"0chain.net/chaincore/transaction"
	"0chain.net/core/config"
	"0chain.net/core/encryption"

	"github.com/0chain/common/core/currency"
	"github.com/0chain/common/core/statecache"

	"verif/harness/common"
	"verif/harness/rec"
	"verif/harness/world"
)

// Two input classes that the random histories do not reach.
//
// receiveOnly: every account of the genesis distribution starts with state nonce 1, and every account
// that sends a transaction has its leaf rewritten by the nonce increment. Wallets that only ever RECEIVE
// are different: their leaf is created by an incoming transfer, keeps nonce 0 for ever, and is written
// only by the transfers themselves. Such wallets are what a contract wallet outside the genesis
// distribution and a multi-signature wallet are. The scenario funds such wallets and then pays out of
// them - part of the balance, exactly the balance (down to zero), one more than the balance, and again
// after they were emptied - through the three ways a wallet other than the sender can be debited: as the
// called contract's own wallet, by a signed transfer, and by a plain transfer queued by a contract.
//
// nearMax (C05 only): the trace starts from a block whose state holds balances close to the 64-bit
// maximum (above the token supply - no history reaches that while C01 holds, C05 quantifies over all
// prior balances including near-maximum ones). Credits that fill the remaining room exactly, pass it by
// one or by much, in one transfer or split over two, by sends, queued and signed transfers; debits of
// such balances; transfers between two of them.

// Probe2Address is a second contract wallet served by the probe contract. Unlike the probe contract's
// first wallet it is not part of the genesis distribution.
var Probe2Address = encryption.Hash("verif probe contract, second wallet (ledger driver)")

type probe2 struct{ sci.SmartContractInterface }

func (probe2) GetName() string    { return "probe2sc" }
func (probe2) GetAddress() string { return Probe2Address }

func (g *gen) setupClosing() {
	w := g.w
	if _, ok := smartcontract.ContractMap[Probe2Address]; !ok {
		smartcontract.ContractMap[Probe2Address] = probe2{smartcontract.ContractMap[world.ProbeAddress]}
	}
	w.SetName(Probe2Address, "probe2sc")
	g.ro = nil
	for i := 1; i <= 2; i++ {
		id := encryption.Hash(fmt.Sprintf("verif receive-only wallet %d", i))
		w.SetName(id, fmt.Sprintf("ro%d", i))
		g.ro = append(g.ro, id)
	}
	for i := 1; i <= 3; i++ {
		w.SetName(hiID(i), fmt.Sprintf("hi%d", i))
	}
	g.hiKey = w.NewKey("hk")
}

func hiID(i int) string { return encryption.Hash(fmt.Sprintf("verif near-maximum wallet %d", i)) }

type namedAmt struct {
	A string `json:"a"`
	D int64  `json:"d"`
}

// signedOK declares the signed transfers of a scenario as verified by the contract that queued them
// (attribution for C04, as the TLC behaviours do with sigok).
func (g *gen) signedOK(in world.ProbeInput) []namedAmt {
	out := []namedAmt{}
	for _, s := range in.Signed {
		n := g.w.Name(s.From)
		found := false
		for i := range out {
			if out[i].A == n {
				out[i].D += int64(s.Amt)
				found = true
			}
		}
		if !found {
			out = append(out, namedAmt{n, int64(s.Amt)})
		}
	}
	return out
}

func (g *gen) note(what, kind, acct string) {
	g.rc.Emit(rec.M{"ev": "LedgerNote", "what": what, "kind": kind, "a": acct}, what+"/"+kind, true)
}

func (g *gen) richKey() *world.Key {
	ks := append([]*world.Key{g.w.Owner}, g.w.Clients[:4]...)
	return ks[g.r.Intn(len(ks))]
}

// ---------------------------------------------------------------- receive-only wallets

func (g *gen) receiveOnly(id int, a common.Args) {
	g.reset(id, "receiveonly", map[string]interface{}{"seed": a.Seed, "steps": a.Steps})
	w := g.w
	wallets := append([]string{Probe2Address}, g.ro...)
	call := func(from *world.Key, contract string, in world.ProbeInput, value, fee uint64) world.Result {
		ts := world.TxnSpec{From: from, To: contract, Type: transaction.TxnTypeSmartContract, Fn: "probe", Input: in, Value: value, Fee: fee}
		extra := g.probeExtra(in, ts)
		extra["src"] = "receiveonly"
		extra["signed_ok"] = g.signedOK(in)
		return w.DoRec(g.rc, ts, extra)
	}
	fund := func(to string) {
		from := g.richKey()
		v := g.pick(1, 2, 3, 5)
		if to == Probe2Address && g.r.Intn(2) == 0 {
			// the caller pays into the contract wallet through the contract (what a lock / refill function does)
			call(from, to, world.ProbeInput{Transfers: []world.ProbeTransfer{{From: from.ID, To: to, Amt: v}}}, v, g.pick(0, 1))
			return
		}
		w.DoRec(g.rc, world.TxnSpec{From: from, To: to, Type: transaction.TxnTypeSend, Value: v, Fee: g.pick(0, 1)}, rec.M{"src": "receiveonly"})
	}
	target := func(not string) string {
		for {
			var t string
			switch g.r.Intn(6) {
			case 0:
				t = wallets[g.r.Intn(len(wallets))]
			case 1:
				t = encryption.Hash(fmt.Sprintf("fresh-%d", g.r.Intn(3)))
			case 2:
				t = g.richKey().ID
			default:
				t = w.ByName[fmt.Sprintf("p%d", 1+g.r.Intn(4))].ID
			}
			if t != not || g.r.Intn(12) == 0 { // now and then a transfer to itself
				return t
			}
		}
	}
	pay := func() {
		x := wallets[g.r.Intn(len(wallets))]
		b := w.Balance(x)
		var amt uint64
		switch g.r.Intn(9) {
		case 0, 1, 2, 3:
			amt = b // all of it
		case 4:
			amt = b + 1
		case 5:
			if b > 1 {
				amt = b - 1
			} else {
				amt = b
			}
		case 6:
			amt = 1
		case 7:
			amt = 0
		default:
			amt = g.pick(1, 2, 3)
		}
		to := target(x)
		trs := []world.ProbeTransfer{{From: x, To: to, Amt: amt}}
		if amt > 1 && g.r.Intn(4) == 0 { // the same payout in two consecutive transfers
			trs = []world.ProbeTransfer{{From: x, To: to, Amt: 1}, {From: x, To: to, Amt: amt - 1}}
		}
		var in world.ProbeInput
		contract, kind := world.ProbeAddress, "signed"
		switch {
		case x == Probe2Address:
			contract, kind = Probe2Address, "contract"
			in.Transfers = trs
		case g0prop != "C04" && g.r.Intn(2) == 0:
			kind = "queued" // a contract that debits a third party with a plain transfer (not part of C04's histories)
			in.Transfers = trs
		default:
			in.Signed = trs
		}
		if kind != "contract" && g.r.Intn(3) == 0 {
			contract = Probe2Address
		}
		in.Fail = g.r.Intn(7) == 0
		if g.r.Intn(3) == 0 {
			in.Writes = append(in.Writes, world.ProbeWrite{Key: fmt.Sprintf("k%d", g.r.Intn(3)), Val: int64(g.r.Intn(5)), Cacheable: g.r.Intn(2) == 0})
		}
		res := call(g.richKey(), contract, in, 0, g.pick(0, 0, 1, 2))
		if res.Class == "ok" && amt > 0 && amt == b && to != x {
			g.note("drained", kind, w.Name(x))
		}
	}
	for _, x := range wallets {
		fund(x)
		if g.r.Intn(3) == 0 {
			fund(x)
		}
	}
	n := a.Steps / 2
	if n < 12 {
		n = 12
	}
	for i := 0; i < n; i++ {
		switch x := g.r.Intn(100); {
		case x < 15:
			w.EndBlock()
			w.BeginBlock()
		case x < 35:
			fund(wallets[g.r.Intn(len(wallets))])
		default:
			pay()
		}
	}
	w.EndBlock()
}

// ---------------------------------------------------------------- balances close to the 64-bit maximum

// plant writes client-state leaves into the current block through a real state context (merged like
// Chain.updateState merges a transaction's changes).
func (g *gen) plant(ids []string, bals []uint64) {
	w := g.w
	txn := &transaction.Transaction{ClientID: w.Owner.ID, PublicKey: w.Owner.Pub, ToClientID: ids[0], CreationDate: w.Now}
	txn.ChainID = config.GetServerChainID()
	txn.Hash = encryption.Hash(fmt.Sprintf("verif-plant:%d:%x", w.Now, w.CurState.GetRoot()))
	tc := statecache.NewTransactionCache(w.CurCache)
	ts := chain.CreateTxnMPT(w.CurState, tc)
	sc := w.Chain.NewStateContext(w.Cur, ts, txn, nil)
	for i, id := range ids {
		s := &state.State{Balance: currency.Coin(bals[i])}
		if err := sc.SetStateContext(s); err != nil {
			rec.Fatal("plant: %v", err)
		}
		if _, err := sc.SetClientState(id, s); err != nil {
			rec.Fatal("plant: %v", err)
		}
	}
	w.DirectWrites = true // this block's state is not a function of its transactions: no BlockTwin
	if err := w.CurState.MergeMPTChanges(ts); err != nil {
		rec.Fatal("plant: merge failed: %v", err)
	}
	tc.Commit()
}

func (g *gen) nearMax(id int, a common.Args) {
	w := g.w
	const top = ^uint64(0)
	rooms := []uint64{0, 1, 2, 10, 11, 50, 100, 1000}
	his := []string{hiID(1), hiID(2), g.hiKey.ID}
	mid := hiID(3) // above the supply but far from the top: has room for everything
	ids := append(append([]string{}, his...), mid)
	var bals []uint64
	var planted []namedAmt
	for range his {
		r := rooms[g.r.Intn(len(rooms))]
		bals = append(bals, top-r)
		planted = append(planted, namedAmt{"", int64(r)})
	}
	bals = append(bals, 1<<63)
	for i := range planted {
		planted[i].A = w.Name(ids[i])
	}
	g.reset(id, "nearmax", map[string]interface{}{"seed": a.Seed, "steps": a.Steps, "rooms": planted})
	g.plant(ids, bals)
	w.EndBlock()
	w.BeginBlock()

	room := func(x string) uint64 { return top - w.Balance(x) }
	// exec = what world.ExecRec does, plus the exact count of balances that are above the supply after the
	// transaction and were not before it (the recorder's above_supply is true throughout this scenario)
	exec := func(ts world.TxnSpec, extra rec.M) world.Result {
		t := w.MakeTxn(ts)
		pre := w.Snapshot(w.CurState)
		res := w.Exec(t)
		post := w.Snapshot(w.CurState)
		n := 0
		for lid, l := range post.Leaves {
			if l.Balance > uint64(config.MaxTokenSupply) {
				if p, ok := pre.Leaves[lid]; !ok || p.Balance <= uint64(config.MaxTokenSupply) {
					n++
				}
			}
		}
		extra["hi_new"] = n
		extra["src"] = "nearmax"
		m, shape, nt := w.TxnEvent(res, pre, post, extra)
		g.rc.Emit(m, shape, nt)
		return res
	}
	// an amount chosen against the room of the destination
	against := func(r uint64) uint64 {
		if r >= capAmt {
			return g.pick(1, 50, 1000)
		}
		switch g.r.Intn(8) {
		case 0, 1:
			return r // fills it exactly
		case 2, 3:
			return r + 1
		case 4:
			if r > 0 {
				return r - 1
			}
			return 1
		case 5:
			return r + 40
		case 6:
			return 1
		default:
			return g.pick(0, 2, 50)
		}
	}
	dest := func() string {
		if g.r.Intn(6) == 0 {
			return mid
		}
		return his[g.r.Intn(len(his))]
	}
	// Who pays: the transfer assertion of the real code adds the balances of source and destination, so a
	// credit next to the maximum can only be accepted from a source that holds no more than the room that
	// is left. The poor clients (2, 1, 50, 0 tokens, topped up below by amounts around the room) are such
	// sources; rich ones are used as well (their credits to a balance next to the maximum must change nothing).
	poorKey := func() *world.Key { return w.ByName[fmt.Sprintf("p%d", 1+g.r.Intn(4))] }
	payer := func() *world.Key {
		if g.r.Intn(4) == 0 {
			return g.richKey()
		}
		return poorKey()
	}
	// the amount the payer can afford, half of the time
	afford := func(from string, amt, fee uint64) uint64 {
		if b := w.Balance(from); b < amt+fee && b > fee && g.r.Intn(2) == 0 {
			return b - fee
		}
		return amt
	}
	n := a.Steps
	if n < 20 {
		n = 20
	}
	for i := 0; i < n; i++ {
		if g.r.Intn(8) == 0 {
			w.EndBlock()
			w.BeginBlock()
		}
		to := dest()
		amt := against(room(to))
		rb := room(to)
		var res world.Result
		kind := ""
		switch x := g.r.Intn(100); {
		case x < 12 && rb > 0 && rb < capAmt && w.Balance(w.ByName["p4"].ID) <= rb:
			// p4 is brought to exactly the room that is left and then pays all of it: the credit that ends at
			// exactly the maximum (source + destination = 2^64-1, the largest sum the assertion can hold)
			kind = "fill"
			p4 := w.ByName["p4"]
			if b := w.Balance(p4.ID); b < rb {
				exec(world.TxnSpec{From: g.richKey(), To: p4.ID, Type: transaction.TxnTypeSend, Value: rb - b, Fee: g.pick(0, 1)}, rec.M{})
			}
			amt = rb
			tr := []world.ProbeTransfer{{From: p4.ID, To: to, Amt: amt}}
			switch g.r.Intn(3) {
			case 0:
				ts := world.TxnSpec{From: p4, To: to, Type: transaction.TxnTypeSend, Value: amt}
				extra := g.probeExtra(world.ProbeInput{Transfers: tr}, ts)
				extra["probe"], extra["qknown"] = false, true
				res = exec(ts, extra)
			case 1:
				in := world.ProbeInput{Transfers: tr}
				ts := world.TxnSpec{From: p4, To: world.ProbeAddress, Type: transaction.TxnTypeSmartContract, Fn: "probe", Input: in, Value: amt}
				res = exec(ts, g.probeExtra(in, ts))
			default:
				in := world.ProbeInput{Signed: tr}
				ts := world.TxnSpec{From: g.richKey(), To: world.ProbeAddress, Type: transaction.TxnTypeSmartContract, Fn: "probe", Input: in, Fee: g.pick(0, 1)}
				extra := g.probeExtra(in, ts)
				extra["signed_ok"] = g.signedOK(in)
				res = exec(ts, extra)
			}
		case x < 22: // a poor client is topped up to about the room of the destination
			kind = "topup"
			r := room(to)
			if r >= capAmt || r == 0 {
				r = 3
			}
			v := []uint64{r, r, r + 1, r - 1, 1, 5}[g.r.Intn(6)]
			to = poorKey().ID
			amt, rb = v, room(to)
			res = exec(world.TxnSpec{From: g.richKey(), To: to, Type: transaction.TxnTypeSend, Value: v, Fee: g.pick(0, 1)}, rec.M{})
		case x < 44: // plain send
			kind = "send"
			from := payer()
			fee := g.pick(0, 0, 1)
			amt = afford(from.ID, amt, fee)
			ts := world.TxnSpec{From: from, To: to, Type: transaction.TxnTypeSend, Value: amt, Fee: fee}
			extra := g.probeExtra(world.ProbeInput{Transfers: []world.ProbeTransfer{{From: from.ID, To: to, Amt: amt}}}, ts)
			extra["probe"], extra["qknown"] = false, true
			res = exec(ts, extra)
		case x < 62: // the caller pays through a contract, in one transfer or split over two
			kind = "queued"
			from := payer()
			fee := g.pick(0, 1)
			amt = afford(from.ID, amt, fee)
			trs := []world.ProbeTransfer{{From: from.ID, To: to, Amt: amt}}
			if amt > 1 && g.r.Intn(2) == 0 {
				k := 1 + uint64(g.r.Intn(int(amt-1)))
				trs = []world.ProbeTransfer{{From: from.ID, To: to, Amt: k}, {From: from.ID, To: to, Amt: amt - k}}
			}
			in := world.ProbeInput{Transfers: trs, Fail: g.r.Intn(8) == 0}
			ts := world.TxnSpec{From: from, To: world.ProbeAddress, Type: transaction.TxnTypeSmartContract, Fn: "probe", Input: in, Value: amt, Fee: fee}
			res = exec(ts, g.probeExtra(in, ts))
		case x < 75: // a signed transfer of a poor client
			kind = "signed"
			from := poorKey().ID
			amt = afford(from, amt, 0)
			in := world.ProbeInput{Signed: []world.ProbeTransfer{{From: from, To: to, Amt: amt}}}
			ts := world.TxnSpec{From: g.richKey(), To: world.ProbeAddress, Type: transaction.TxnTypeSmartContract, Fn: "probe", Input: in, Fee: g.pick(0, 1)}
			extra := g.probeExtra(in, ts)
			extra["signed_ok"] = g.signedOK(in)
			res = exec(ts, extra)
		case x < 88: // one near-maximum balance pays into another (a contract debiting a third party)
			kind = "hi2hi"
			from := his[g.r.Intn(len(his))]
			in := world.ProbeInput{Transfers: []world.ProbeTransfer{{From: from, To: to, Amt: amt}}}
			ts := world.TxnSpec{From: g.richKey(), To: world.ProbeAddress, Type: transaction.TxnTypeSmartContract, Fn: "probe", Input: in, Fee: g.pick(0, 1)}
			res = exec(ts, g.probeExtra(in, ts))
		default: // the keyed near-maximum wallet spends
			kind = "hisend"
			to = []string{w.ByName["p1"].ID, w.ByName["p4"].ID, hiID(1), hiID(2), mid}[g.r.Intn(5)]
			v := against(room(to))
			rb = room(to)
			ts := world.TxnSpec{From: g.hiKey, To: to, Type: transaction.TxnTypeSend, Value: v, Fee: g.pick(0, 1, 5)}
			extra := g.probeExtra(world.ProbeInput{Transfers: []world.ProbeTransfer{{From: g.hiKey.ID, To: to, Amt: v}}}, ts)
			extra["probe"], extra["qknown"] = false, true
			amt = v
			res = exec(ts, extra)
		}
		switch {
		case res.Class == "ok" && amt > 0 && amt == rb:
			g.note("filled", kind, w.Name(to)) // a credit that took the balance to exactly the maximum
		case res.Class == "rejected" && amt > rb:
			g.note("refused", kind, w.Name(to)) // a credit beyond the maximum was refused
		}
	}
	w.EndBlock()
}
