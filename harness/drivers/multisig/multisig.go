// Package multisig drives the real multi-signature wallet contract (register / vote) through the real
// Chain.UpdateState with real BLS threshold key shares (C21): valid, duplicate, unauthorised, badly
// signed, incompatible, expired and lagging (created before, included at/after a clock boundary such as the
// expiry) votes on several wallet configurations.  After every transaction it
// logs the stored wallet and proposal, the OBSERVED balance changes of wallet and recipient, and the
// results of re-verifying the vote's share signature and the stored threshold signature with the real
// SignedTransfer.VerifySignature.
package multisig

import (
	"encoding/hex"
	"encoding/json"
	"fmt"
	"math/rand"
	"strings"

	"0chain.net/chaincore/chain"
	"0chain.net/chaincore/state"
	"0chain.net/chaincore/transaction"
	zcommon "0chain.net/core/common"
	"0chain.net/core/encryption"
	"0chain.net/smartcontract/multisigsc"
	"github.com/0chain/common/core/currency"
	"github.com/0chain/common/core/statecache"
	"github.com/0chain/common/core/util"
	"github.com/herumi/bls-go-binary/bls"

	"verif/harness/common"
	"verif/harness/rec"
	"verif/harness/world"
)

const (
	capV      = int64(1) << 29
	baseNow   = 1700000000
	scheme    = "bls0chain"
	walletBal = 5000   // genesis balance of every wallet (model: InitBal = 5, x1000)
	aScale    = 1000   // model amount unit -> token units
	tScale    = 302400 // model time unit -> seconds (Expiry = 2 units = one week)
)

type pair struct {
	A string `json:"a"`
	D int64  `json:"d"`
}

// wallet is one multi-sig wallet configuration with all its secret keys.
type wallet struct {
	name    string
	kind    string // "shares": signer keys are threshold shares of the wallet key; "unrelated": independent keys
	t, n    int
	group   *world.Key
	signers []*world.Key
	thrIDs  []string
}

type drv struct {
	w       *world.World
	rc      *rec.Recorder
	r       *rand.Rand
	t0      int64
	sc      string
	wallets []*wallet
	last    *world.Snap
	lag     int64 // the next vote transaction's own creation date is this many seconds BEFORE its block's (0: equal)
}

// maxLag: a transaction is accepted into a block while its creation date is within the chain's transaction time
// tolerance of the block's (server_chain.transaction.timeout, default 30 s); lagging votes stay inside it.
const maxLag = 29

// lateSecs: how long before its block a `late` vote of a TLC behaviour was created.
const lateSecs = 7

// txnTime is the creation date the next vote transaction declares (consumes d.lag); 0 = the block's.
func (d *drv) txnTime() zcommon.Timestamp {
	lag := d.lag
	d.lag = 0
	if lag <= 0 {
		return 0
	}
	return d.w.Now - zcommon.Timestamp(lag)
}

func init() { common.Register("multisig", Run) }

// ---------------------------------------------------------------- deterministic keys

func secret(label string) bls.SecretKey {
	h := encryption.RawHash("verif-multisig:" + label)
	h[31] &= 0x0f
	var sk bls.SecretKey
	if err := sk.SetLittleEndian(h); err != nil {
		panic(err)
	}
	return sk
}

func keyOf(name string, sk *bls.SecretKey) *world.Key {
	ss := encryption.NewBLS0ChainScheme()
	keys := hex.EncodeToString(sk.GetPublicKey().Serialize()) + "\n" + hex.EncodeToString(sk.GetLittleEndian()) + "\n"
	if err := ss.ReadKeys(strings.NewReader(keys)); err != nil {
		panic(err)
	}
	pub := ss.GetPublicKey()
	pkb, err := hex.DecodeString(pub)
	if err != nil {
		panic(err)
	}
	return &world.Key{Name: name, ID: encryption.Hash(pkb), Pub: pub, Scheme: ss}
}

// newWallet derives the wallet key and its n signer keys.  For kind "shares" the signer keys are the
// Shamir shares of the wallet key over a degree t-1 polynomial evaluated at ids 1..n, exactly as
// encryption.BLS0GenerateThresholdKeyShares does (sk.Set(polynomial, id)), but with polynomial
// coefficients derived from the name instead of the library's random source, so that traces are
// re-executable with the same identities.
func newWallet(name, kind string, t, n int) *wallet {
	gsk := secret(name + ":group")
	wl := &wallet{name: name, kind: kind, t: t, n: n, group: keyOf(name, &gsk)}
	poly := []bls.SecretKey{gsk}
	for i := 1; i < t; i++ {
		poly = append(poly, secret(fmt.Sprintf("%s:coef%d", name, i)))
	}
	for i := 1; i <= n; i++ {
		var id bls.ID
		if err := id.SetDecString(fmt.Sprint(i)); err != nil {
			panic(err)
		}
		var sk bls.SecretKey
		if kind == "shares" {
			if err := sk.Set(poly, &id); err != nil {
				panic(err)
			}
		} else {
			sk = secret(fmt.Sprintf("%s:free%d", name, i))
		}
		wl.signers = append(wl.signers, keyOf(fmt.Sprintf("%ss%d", name, i), &sk))
		wl.thrIDs = append(wl.thrIDs, id.GetHexString())
	}
	return wl
}

func Run(a common.Args) {
	wallets := []*wallet{
		newWallet("W1", "shares", 2, 3),
		newWallet("W2", "shares", 3, 3),
		newWallet("W3", "shares", 2, 4),
		newWallet("W4", "unrelated", 2, 3),
	}
	extra := map[string]uint64{}
	for _, wl := range wallets {
		extra[wl.group.ID] = walletBal
		for _, s := range wl.signers {
			extra[s.ID] = 1000
		}
	}
	w := world.New(world.Options{Clients: 3, ExtraGenesis: extra})
	defer w.Close()
	rc := rec.New(a.Out)
	defer rc.Close()
	d := &drv{w: w, rc: rc, sc: world.Contracts["multisigsc"], wallets: wallets}
	for _, wl := range wallets {
		w.SetName(wl.group.ID, wl.name)
		w.Keys[wl.group.ID] = wl.group
		for _, s := range wl.signers {
			w.SetName(s.ID, s.Name)
			w.Keys[s.ID] = s
		}
	}
	// self-test of the key derivation: t shares of W1 recover a signature that verifies under the wallet key
	d.selfTest(wallets[0])

	id := 0
	for _, b := range common.Behaviours(a.Behav) {
		id++
		if a.Only != 0 && a.Only != id {
			rc.TraceID = id
			continue
		}
		d.behaviour(id, b)
	}
	for i := 0; i < a.N; i++ {
		id++
		if a.Only != 0 && a.Only != id {
			rc.TraceID = id
			continue
		}
		d.r = common.TraceRand(a.Seed, id)
		d.random(id, a)
	}
}

func (d *drv) selfTest(wl *wallet) {
	tr := state.Transfer{ClientID: wl.group.ID, ToClientID: d.w.Clients[0].ID, Amount: 1}
	rcn := encryption.GetReconstructSignatureScheme(scheme, wl.t, wl.n)
	for i := 0; i < wl.t; i++ {
		tss := encryption.GetThresholdSignatureScheme(scheme)
		if err := tss.SetPublicKey(wl.signers[i].Pub); err != nil {
			rec.Fatal("self-test: %v", err)
		}
		if err := tss.SetID(wl.thrIDs[i]); err != nil {
			rec.Fatal("self-test: %v", err)
		}
		if err := rcn.Add(tss, sign(wl.signers[i], tr)); err != nil {
			rec.Fatal("self-test: %v", err)
		}
	}
	sig, err := rcn.Reconstruct()
	if err != nil {
		rec.Fatal("self-test: %v", err)
	}
	st := state.SignedTransfer{Transfer: tr, SchemeName: scheme, PublicKey: wl.group.Pub, Sig: sig}
	if err := st.VerifySignature(true); err != nil {
		rec.Fatal("self-test: threshold shares do not recover the wallet signature: %v", err)
	}
}

func sign(k *world.Key, tr state.Transfer) string {
	st := state.SignedTransfer{Transfer: tr, SchemeName: scheme, PublicKey: k.Pub}
	if err := st.Sign(k.Scheme); err != nil {
		panic(err)
	}
	return st.Sig
}

// ---------------------------------------------------------------- projection

func (d *drv) readWallet(id string) (multisigsc.Wallet, bool) {
	w := d.w
	sctx := w.Chain.NewStateContext(w.Cur, chain.CreateTxnMPT(w.CurState, statecache.NewTransactionCache(w.CurCache)), &transaction.Transaction{}, nil)
	wl, ok, err := multisigsc.VerifWallet(sctx, id)
	if err != nil {
		rec.Fatal("multisig wallet snapshot: %v", err)
	}
	return wl, ok
}

func (d *drv) readProposal(walletID, propID string) multisigsc.VerifProposal {
	w := d.w
	sctx := w.Chain.NewStateContext(w.Cur, chain.CreateTxnMPT(w.CurState, statecache.NewTransactionCache(w.CurCache)), &transaction.Transaction{}, nil)
	p, err := multisigsc.VerifProposalSnapshot(sctx, walletID, propID)
	if err != nil {
		rec.Fatal("multisig proposal snapshot: %v", err)
	}
	return p
}

func (d *drv) reset(id int, kind string, args interface{}) {
	w := d.w
	w.Now = baseNow - 5
	w.BeginBlock(w.Genesis)
	d.t0 = int64(w.Now)
	d.rc.TraceID = id - 1
	d.rc.Reset(rec.M{"family": "multisig", "kind": kind, "id": id, "args": args}, rec.M{"nonces": w.InitNonces(w.CurState)})
}

func (d *drv) at(t int64) {
	w := d.w
	if int64(w.Now)-d.t0 >= t {
		return
	}
	w.EndBlock()
	w.Now = zcommon.Timestamp(d.t0 + t - 5)
	w.BeginBlock()
}

func (d *drv) now() int64 { return int64(d.w.Now) - d.t0 }

func capI(v uint64, over *bool) int64 {
	if v > uint64(capV) {
		*over = true
		return capV
	}
	return int64(v)
}

func (d *drv) emit(res world.Result, op, kind string, wl *wallet, by *world.Key, propID string, tr state.Transfer, sig string,
	pre multisigsc.VerifProposal, wPre, rPre uint64) {
	w := d.w
	over := false
	diff := func(a, b uint64) int64 {
		if a >= b {
			return capI(a-b, &over)
		}
		return -capI(b-a, &over)
	}
	stored, registered := d.readWallet(wl.group.ID)
	signers := []pair{}
	isSigner, voteSigOK := false, false
	if registered {
		for i, sid := range multisigsc.VerifSignerIDs(stored) {
			signers = append(signers, pair{w.Name(sid), 1})
			if sid == by.ID && op == "vote" {
				isSigner = true
				st := state.SignedTransfer{Transfer: tr, SchemeName: stored.SignatureScheme, PublicKey: stored.SignerPublicKeys[i], Sig: sig}
				voteSigOK = st.VerifySignature(false) == nil
			}
		}
	}
	now := int64(w.Cur.CreationDate)
	lag := int64(0)
	if res.Txn != nil {
		lag = now - int64(res.Txn.CreationDate)
	}
	// the vote's own creation date is before the addressed proposal's expiry, its block's is not
	straddle := op == "vote" && pre.Exists && now-lag < pre.Expiration && pre.Expiration <= now
	m := rec.M{"ev": "Msig", "op": op, "kind": kind, "wallet": wl.name, "wkind": wl.kind, "by": w.Name(by.ID), "prop": propID,
		"key": wl.name + "/" + propID, "now": now - d.t0, "class": res.Class,
		"registered": registered, "t": int64(stored.NumRequired), "n": int64(len(stored.SignerPublicKeys)), "signers": signers,
		"is_signer": isSigner, "vote_sig_ok": voteSigOK, "panic": res.Panic != ""}
	post := multisigsc.VerifProposal{}
	if op == "vote" {
		post = d.readProposal(wl.group.ID, propID)
	}
	preLive := pre.Exists && now < pre.Expiration
	compatible := !preLive || (pre.From == tr.ClientID && pre.To == tr.ToClientID && pre.Amount == uint64(tr.Amount))
	voters := []pair{}
	for _, v := range post.Voters {
		voters = append(voters, pair{w.Name(v), 1})
	}
	thrOK := false
	if post.Exists && post.ExecutedInTxnHash != "" && registered {
		st := state.SignedTransfer{Transfer: state.Transfer{ClientID: post.From, ToClientID: post.To, Amount: currency.Coin(post.Amount)},
			SchemeName: stored.SignatureScheme, PublicKey: stored.PublicKey, Sig: post.ClientSignature}
		thrOK = st.VerifySignature(true) == nil
	}
	expiry := int64(0)
	if post.Exists {
		expiry = post.Expiration - d.t0
		if expiry > capV || expiry < -capV {
			over = true
			expiry = 0
		}
	}
	m["compatible"] = compatible
	m["pre_exists"] = pre.Exists
	m["pre_expired"] = pre.Exists && !preLive
	m["exists"] = post.Exists
	m["expiry"] = expiry
	m["voters"] = voters
	m["n_votes"] = int64(len(post.ThresholdIDs))
	m["n_sigs"] = int64(post.NumSignatures)
	m["executed"] = post.Exists && post.ExecutedInTxnHash != ""
	m["executed_here"] = post.Exists && post.ExecutedInTxnHash != "" && post.ExecutedInTxnHash == res.Txn.Hash
	m["amount"] = capI(uint64(tr.Amount), &over)
	m["to"] = w.Name(tr.ToClientID)
	m["wdelta"] = diff(w.Balance(wl.group.ID), wPre)
	m["rdelta"] = diff(w.Balance(tr.ToClientID), rPre)
	m["thr_sig_ok"] = thrOK
	m["overflow"] = over
	m["lag"] = lag
	m["straddle"] = straddle
	shape := op + "/" + kind + "/" + res.Class
	if m["executed_here"].(bool) {
		shape += "/exec"
	}
	if straddle {
		shape += "/lag_over_expiry"
	} else if lag > 0 && op == "vote" {
		shape += "/lag"
	}
	d.rc.Emit(m, shape, res.Class == "ok")
}

// exec does what world.DoRec does (real Chain.UpdateState + the Ledger family's Txn event built by
// world.TxnEvent from two full snapshots of the MPT), with the one field it cannot know filled in: signed_ok,
// the signed transfers of this transaction whose signature the harness re-verified (Ledger C04 authorises the
// debit of a third party only by those).
func (d *drv) exec(ts world.TxnSpec, wl *wallet, propID string) world.Result {
	w := d.w
	txn := w.MakeTxn(ts)
	pre := d.snap()
	res := w.Exec(txn)
	post := d.snap()
	signedOK := []pair{}
	if propID != "" && res.Class == "ok" {
		if p := d.readProposal(wl.group.ID, propID); p.Exists && p.ExecutedInTxnHash == txn.Hash {
			if stored, ok := d.readWallet(wl.group.ID); ok {
				st := state.SignedTransfer{Transfer: state.Transfer{ClientID: p.From, ToClientID: p.To, Amount: currency.Coin(p.Amount)},
					SchemeName: stored.SignatureScheme, PublicKey: stored.PublicKey, Sig: p.ClientSignature}
				if st.VerifySignature(true) == nil {
					over := false
					signedOK = append(signedOK, pair{w.Name(p.From), capI(p.Amount, &over)})
				}
			}
		}
	}
	m, shape, nt := w.TxnEvent(res, pre, post, rec.M{"src": "multisig", "signed_ok": signedOK})
	d.rc.Emit(m, shape, nt)
	return res
}

func (d *drv) snap() *world.Snap {
	root := util.ToHex(d.w.CurState.GetRoot())
	if d.last == nil || d.last.Root != root {
		d.last = d.w.Snapshot(d.w.CurState)
	}
	return d.last
}

func (d *drv) register(wl *wallet, by *world.Key, t int, kind string) world.Result {
	w := d.w
	reg := multisigsc.Wallet{ClientID: wl.group.ID, SignatureScheme: scheme, PublicKey: wl.group.Pub, NumRequired: t}
	for i, s := range wl.signers {
		reg.SignerThresholdIDs = append(reg.SignerThresholdIDs, wl.thrIDs[i])
		reg.SignerPublicKeys = append(reg.SignerPublicKeys, s.Pub)
	}
	wPre := w.Balance(wl.group.ID)
	res := d.exec(world.TxnSpec{From: by, To: d.sc, Type: transaction.TxnTypeSmartContract, Fn: "register", Input: reg}, wl, "")
	d.emit(res, "register", kind, wl, by, "", state.Transfer{ClientID: wl.group.ID, ToClientID: wl.group.ID}, "", multisigsc.VerifProposal{}, wPre, wPre)
	return res
}

// vote sends a vote of `by` on (wl, propID) for the transfer `tr`, signed with signKey's share.
func (d *drv) vote(wl *wallet, by, signKey *world.Key, propID string, tr state.Transfer, kind string) world.Result {
	w := d.w
	sig := sign(signKey, tr)
	v := multisigsc.Vote{ProposalID: propID, Transfer: tr, Signature: sig}
	pre := d.readProposal(wl.group.ID, propID)
	wPre, rPre := w.Balance(wl.group.ID), w.Balance(tr.ToClientID)
	res := d.exec(world.TxnSpec{From: by, To: d.sc, Type: transaction.TxnTypeSmartContract, Fn: "vote", Input: v, Time: d.txnTime()}, wl, propID)
	d.emit(res, "vote", kind, wl, by, propID, tr, sig, pre, wPre, rPre)
	return res
}

// ---------------------------------------------------------------- TLC behaviours

type absStep struct {
	Op string `json:"op"`
	S  string `json:"s"`
	Tr struct {
		To  string `json:"to"`
		Amt uint64 `json:"amt"`
	} `json:"tr"`
	Ok   bool  `json:"ok"`
	Late bool  `json:"late"` // the vote was created a few seconds before its block (model time units are half weeks)
	T    int64 `json:"t"`
}

// behaviour replays one walk of Multisig.tla (T = 2) on wallet W1: s1..s3 = its signers, x = client c3,
// r1, r2 = clients c1, c2.  A model time unit is half a week and the proposal lives exactly two units, so a `late`
// vote at the model time of the expiry is a transaction created before the expiry in a block created at it.
func (d *drv) behaviour(id int, raw json.RawMessage) {
	var steps []absStep
	if err := json.Unmarshal(raw, &steps); err != nil {
		rec.Fatal("behaviour %d: %v", id, err)
	}
	d.reset(id, "tlc", steps)
	w := d.w
	wl := d.wallets[0]
	who := map[string]*world.Key{"s1": wl.signers[0], "s2": wl.signers[1], "s3": wl.signers[2], "x": w.ByName["c3"]}
	rcp := map[string]string{"r1": w.ByName["c1"].ID, "r2": w.ByName["c2"].ID}
	for _, s := range steps {
		d.at(s.T * tScale)
		switch s.Op {
		case "register":
			d.register(wl, wl.group, wl.t, "ok")
		case "vote":
			by := who[s.S]
			tr := state.Transfer{ClientID: wl.group.ID, ToClientID: rcp[s.Tr.To], Amount: currency.Coin(s.Tr.Amt * aScale)}
			signKey, kind := by, "own_sig"
			if !s.Ok { // a signature that does not verify under the sender's registered key
				signKey, kind = wl.signers[(indexOf(wl, by)+1)%wl.n], "other_sig"
			}
			if s.Late {
				d.lag = lateSecs
			}
			d.vote(wl, by, signKey, "p1", tr, kind)
		default:
			rec.Fatal("behaviour %d: unknown op %q", id, s.Op)
		}
	}
	w.EndBlock()
}

func indexOf(wl *wallet, k *world.Key) int {
	for i, s := range wl.signers {
		if s.ID == k.ID {
			return i
		}
	}
	return 0
}

// ---------------------------------------------------------------- random histories

func (d *drv) pick(xs ...int64) int64 { return xs[d.r.Intn(len(xs))] }

func (d *drv) random(id int, a common.Args) {
	d.reset(id, "random", map[string]interface{}{"seed": a.Seed, "steps": a.Steps})
	w, r := d.w, d.r
	const week = 7 * 24 * 3600
	// one or two wallets per trace
	wls := []*wallet{d.wallets[r.Intn(len(d.wallets))]}
	if r.Intn(3) == 0 {
		wls = append(wls, d.wallets[r.Intn(len(d.wallets))])
	}
	for _, wl := range wls {
		switch r.Intn(12) {
		case 0: // not registered at all
		case 1:
			d.register(wl, wl.group, 1, "t_too_small")
		case 2:
			d.register(wl, wl.group, wl.n+1, "t_too_large")
		case 3:
			d.register(wl, wl.signers[0], wl.t, "not_the_wallet")
		default:
			d.register(wl, wl.group, wl.t, "ok")
			if r.Intn(6) == 0 {
				d.register(wl, wl.group, wl.t, "again")
			}
		}
	}
	props := []string{"p1", "p1", "p2", "p3"}
	rcps := []string{w.Clients[0].ID, w.Clients[1].ID}
	for i := 0; i < a.Steps; i++ {
		var lateWl *wallet // a vote created just before this wallet's proposal expires lands in a block at/after the expiry
		latePr, lateBy := "", int64(0)
		if x := r.Intn(100); x < 25 {
			d.at(d.now() + d.pick(1, 60, 3600, week/2, week-10, week-5, week, week+1, 2*week))
		} else if x < 35 {
			// the next block is created at / a few seconds after the expiry of a live proposal
			type lp struct {
				wl *wallet
				id string
				e  int64
			}
			var lives []lp
			for _, wl := range wls {
				for _, id := range props[1:] {
					if p := d.readProposal(wl.group.ID, id); p.Exists && int64(w.Cur.CreationDate) < p.Expiration {
						lives = append(lives, lp{wl, id, p.Expiration - d.t0})
					}
				}
			}
			if len(lives) > 0 {
				c := lives[r.Intn(len(lives))]
				lateBy = d.pick(0, 0, 1, 3, 10)
				d.at(c.e + lateBy)
				lateWl, latePr = c.wl, c.id
			}
		}
		wl := wls[r.Intn(len(wls))]
		if r.Intn(40) == 0 {
			d.register(wl, wl.group, wl.t, "late")
			continue
		}
		propID := props[r.Intn(len(props))]
		// transaction clock: mostly the block's; sometimes the vote was created up to maxLag seconds before its block
		// (within the chain's transaction time tolerance)
		d.lag = 0
		if lateWl != nil && r.Intn(4) != 0 {
			wl, propID = lateWl, latePr
			d.lag = lateBy + d.pick(1, 2, 5, 15)
		} else if r.Intn(100) < 12 {
			d.lag = d.pick(1, 5, 10, maxLag)
		}
		if d.lag > maxLag {
			d.lag = maxLag
		}
		cur := d.readProposal(wl.group.ID, propID)
		tr := state.Transfer{ClientID: wl.group.ID, ToClientID: rcps[r.Intn(len(rcps))], Amount: currency.Coin(d.pick(1, 500, 2000, 2000, 2000))}
		live := cur.Exists && int64(w.Cur.CreationDate)-d.lag < cur.Expiration // as the voter saw it when he created the vote
		if live && r.Intn(100) < 85 { // mostly agree with the live proposal
			tr = state.Transfer{ClientID: cur.From, ToClientID: cur.To, Amount: currency.Coin(cur.Amount)}
		}
		signer := wl.signers[r.Intn(wl.n)]
		switch x := r.Intn(100); {
		case x < 62:
			d.vote(wl, signer, signer, propID, tr, "own_sig")
		case x < 70: // a signature made with another share
			d.vote(wl, signer, wl.signers[(indexOf(wl, signer)+1)%wl.n], propID, tr, "other_sig")
		case x < 76: // the share signed a different transfer
			other := tr
			other.Amount++
			sig := sign(signer, other)
			v := multisigsc.Vote{ProposalID: propID, Transfer: tr, Signature: sig}
			pre := d.readProposal(wl.group.ID, propID)
			wPre, rPre := w.Balance(wl.group.ID), w.Balance(tr.ToClientID)
			res := d.exec(world.TxnSpec{From: signer, To: d.sc, Type: transaction.TxnTypeSmartContract, Fn: "vote", Input: v, Time: d.txnTime()}, wl, propID)
			d.emit(res, "vote", "sig_of_other_transfer", wl, signer, propID, tr, sig, pre, wPre, rPre)
		case x < 84: // a stranger, signing with his own key
			st := w.Clients[r.Intn(len(w.Clients))]
			d.vote(wl, st, st, propID, tr, "stranger")
		case x < 88: // a stranger presenting a registered signer's valid share signature
			st := w.Clients[r.Intn(len(w.Clients))]
			d.vote(wl, st, signer, propID, tr, "stranger_with_share_sig")
		case x < 92: // a signer of ANOTHER wallet
			o := d.wallets[r.Intn(len(d.wallets))]
			if o != wl {
				d.vote(wl, o.signers[0], o.signers[0], propID, tr, "foreign_signer")
			} else {
				d.vote(wl, signer, signer, propID, tr, "own_sig")
			}
		case x < 95: // more than the wallet holds
			big := tr
			big.Amount = currency.Coin(walletBal + d.pick(1, 1000))
			d.vote(wl, signer, signer, props[2+r.Intn(2)], big, "too_much")
		case x < 97:
			zero := tr
			zero.Amount = 0
			d.vote(wl, signer, signer, propID, zero, "zero_amount")
		default: // the wallet itself votes
			d.vote(wl, wl.group, wl.group, propID, tr, "wallet_votes")
		}
	}
	w.EndBlock()
}
