package state

import (
	vc "verif/harness/common"
	"verif/harness/rec"
)

func init() { vc.Register("state", Run) }

// Run dispatches on the property: C07 = cache.go, C08 = codec.go.
func Run(a vc.Args) {
	switch a.Prop {
	case "C07":
		RunCache(a)
	case "C08":
		RunCodec(a)
	default:
		rec.Fatal("state: unknown prop %q", a.Prop)
	}
}
