package state

// C08: every class vector enumerated by TLC from spec/Codec.tla is instantiated on every stored type
// (registry.go) with seeded random values inside each class; the real MarshalMsg -> UnmarshalMsg ->
// MarshalMsg is run and compared; for the entitywrapper types additionally every registered
// migration step MigrateFrom(v_i) -> v_{i+1} and the version dispatch of the decoder.

import (
	"bytes"
	"encoding/json"
	"fmt"
	"reflect"
	"sort"
	"strings"

	"0chain.net/chaincore/node"
	"0chain.net/core/encryption"
	"0chain.net/core/util/entitywrapper"
	"github.com/0chain/common/core/util"

	vc "verif/harness/common"
	"verif/harness/rec"
	"verif/harness/world"
)

type codecBeh struct {
	Vec   []string `json:"vec"`
	Round int      `json:"round"`
}

func safeMarshal(x util.MPTSerializable) (b []byte, err error) {
	defer func() {
		if r := recover(); r != nil {
			err = fmt.Errorf("panic: %v", r)
		}
	}()
	return x.MarshalMsg(nil)
}

func safeUnmarshal(x util.MPTSerializable, b []byte) (err error) {
	defer func() {
		if r := recover(); r != nil {
			err = fmt.Errorf("panic: %v", r)
		}
	}()
	_, err = x.UnmarshalMsg(b)
	return err
}

func short(s string, n int) string {
	if len(s) > n {
		return s[:n]
	}
	return s
}

func keyRing(w *world.World) KeyRing {
	var ks []*world.Key
	for i := 0; i < 40; i++ {
		ks = append(ks, w.NewKey(fmt.Sprintf("poolnode%d", i)))
	}
	return func(i int) (string, string) { k := ks[i%len(ks)]; return k.ID, k.Pub }
}

func classes(names []string) []Class {
	out := make([]Class, len(names))
	for i, n := range names {
		out[i] = ClassOf(n)
	}
	return out
}

func uniform(vec []Class) bool {
	for _, c := range vec {
		if c != vec[0] {
			return false
		}
	}
	return true
}

// instantiate builds one value of entry e for the class vector; returns the value and the number of leaves.
func instantiate(g *Gen, e Entry, vec []Class, round int) (util.MPTSerializable, int) {
	x := e.New()
	if p, ok := x.(*node.Pool); ok {
		fillPoolRoot(g, p, vec[0])
		return x, 1
	}
	tv := e.Target(x)
	if uniform(vec) && round == 0 {
		// the whole value in one class, embedded pointers included (class nil => nil embedded pointer)
		g.Fill(tv, vec[0], 0)
		var ls []Leaf
		g.Leaves(tv, "", &ls)
		return x, len(ls)
	}
	names := g.FillVector(tv, vec, round)
	return x, len(names)
}

func RunCodec(a vc.Args) {
	w := world.New(world.Options{Clients: 2})
	defer w.Close()
	rc := rec.New(a.Out)
	defer rc.Close()
	keys := keyRing(w)
	reg := Registry()
	per := a.N
	if per <= 0 {
		per = 1
	}
	evals, nontrivial := 0, 0
	types := map[string]bool{}
	id := 0
	for _, raw := range vc.Behaviours(a.Behav) {
		id++
		if a.Only != 0 && a.Only != id {
			rc.TraceID = id
			continue
		}
		var b codecBeh
		if err := json.Unmarshal(raw, &b); err != nil {
			rec.Fatal("behaviour: %v", err)
		}
		vec := classes(b.Vec)
		g := NewGen(a.Seed, id, keys)
		g.R = vc.TraceRand(a.Seed, id)
		rc.TraceID = id - 1
		rc.Reset(rec.M{"family": "state", "prop": "C08", "id": id, "vec": b.Vec, "round": b.Round}, nil)
		div := 1
		for j := 0; j < b.Round; j++ {
			div *= len(vec)
		}
		for _, e := range reg {
			for rep := 0; rep < per; rep++ {
				x, leaves := instantiate(g, e, vec, b.Round)
				if b.Round > 0 && leaves <= div {
					break // this round assigns every field of the type to slot 1: nothing new
				}
				evals++
				types[e.Name+"/"+e.Version] = true
				roundTrip(g, rc, e, x, b, leaves)
				if e.Wrapper != "" {
					migrate(g, rc, e, x, b)
				}
				if reflect.DeepEqual(vec, []Class{CZero, CZero, CZero, CZero}) {
					break // no randomness in the all-zero vector
				}
				nontrivial++
			}
		}
	}
	rc.Extra["x_roundtrips"] = evals
	rc.Extra["x_stored_types"] = len(types)
	names := []string{}
	for k := range types {
		names = append(names, k)
	}
	sort.Strings(names)
	rc.Extra["x_types"] = names
}

func roundTrip(g *Gen, rc *rec.Recorder, e Entry, x util.MPTSerializable, b codecBeh, leaves int) {
	m := rec.M{"ev": "RT", "type": e.Name, "version": e.Version, "vec": b.Vec, "round": b.Round, "leaves": leaves,
		"encode_ok": true, "decode_ok": true, "eq_value": true, "eq_bytes": true, "stable": true, "field": "", "unit": "", "err": "", "size": 0, "h": ""}
	enc, err := safeMarshal(x)
	if err != nil {
		m["encode_ok"], m["decode_ok"], m["eq_value"], m["eq_bytes"], m["err"] = false, false, false, false, short("encode: "+err.Error(), 160)
		rc.Emit(m, "RT/"+e.Name+e.Version+"/encfail/"+strings.Join(b.Vec, ""), true)
		return
	}
	m["size"] = len(enc)
	m["h"] = encryption.Hash(enc)[:12]
	// Go's map iteration order must not reach the bytes
	for i := 0; i < 3; i++ {
		enc2, err2 := safeMarshal(x)
		if err2 != nil || !bytes.Equal(enc, enc2) {
			m["stable"] = false
		}
	}
	y := e.New()
	if e.Wrapper != "" {
		// the decoder must pick the entity by the stored tag: start from a wrapper that holds no entity
		y = reflect.New(reflect.TypeOf(x).Elem()).Interface().(util.MPTSerializable)
	}
	if err := safeUnmarshal(y, enc); err != nil {
		m["decode_ok"], m["eq_value"], m["eq_bytes"], m["err"] = false, false, false, short("decode: "+err.Error(), 160)
		rc.Emit(m, "RT/"+e.Name+e.Version+"/decfail/"+strings.Join(b.Vec, ""), true)
		return
	}
	xv, yv := e.Target(x), e.Target(y)
	g.Unit = ""
	if !yv.IsValid() {
		m["eq_value"], m["field"], m["unit"] = false, "(entity)", e.Name
	} else if ok, p := g.DeepEq(xv, yv, ""); !ok {
		if g.Unit == "" {
			g.Unit = e.Name
		}
		m["eq_value"], m["field"], m["unit"] = false, short(p, 80), g.Unit
	}
	re, err := safeMarshal(y)
	if err != nil || !bytes.Equal(re, enc) {
		m["eq_bytes"] = false
		if m["unit"] == "" {
			m["unit"] = e.Name
		}
		if err != nil {
			m["err"] = short("re-encode: "+err.Error(), 160)
		}
	}
	shape := "ok"
	if m["eq_value"] == false || m["eq_bytes"] == false || m["stable"] == false {
		shape = "diff"
	}
	rc.Emit(m, "RT/"+e.Name+e.Version+"/"+shape+"/"+strings.Join(b.Vec, ""), true)
}

// migrate: x is a value of schema version e.Version; if a next version is registered, the real
// MigrateFrom is applied (as entitywrapper.Wrapper.Update does), the common fields are compared,
// and the migrated entity is stored and read back: the decoder must dispatch to the new version.
func migrate(g *Gen, rc *rec.Recorder, e Entry, x util.MPTSerializable, b codecBeh) {
	fs, _ := entitywrapper.GetEntityVersionFuncs(e.Wrapper)
	var n int
	if _, err := fmt.Sscanf(e.Version, "v%d", &n); err != nil {
		return
	}
	to := fmt.Sprintf("v%d", n+1)
	mk, ok := fs[to]
	if !ok {
		return
	}
	m := rec.M{"ev": "Mig", "type": e.Name, "from": e.Version, "to": to, "vec": b.Vec, "round": b.Round,
		"ok": true, "common_ok": true, "common": 0, "version_ok": true, "rt_ok": true, "field": "", "err": ""}
	// the stored form of the old version, read back (what the code migrates is what it decoded)
	enc, err := safeMarshal(x)
	old := reflect.New(reflect.TypeOf(x).Elem()).Interface().(util.MPTSerializable)
	if err == nil {
		err = safeUnmarshal(old, enc)
	}
	if err != nil {
		m["ok"], m["common_ok"], m["version_ok"], m["rt_ok"], m["err"] = false, false, false, false, short(err.Error(), 160)
		rc.Emit(m, "Mig/"+e.Name+e.Version+"/fail", true)
		return
	}
	prior := old.(entityHolder).Entity()
	next := mk()
	func() {
		defer func() {
			if r := recover(); r != nil {
				err = fmt.Errorf("panic: %v", r)
			}
		}()
		err = next.MigrateFrom(prior)
	}()
	if err != nil {
		m["ok"], m["common_ok"], m["version_ok"], m["rt_ok"], m["err"] = false, false, false, false, short("migrate: "+err.Error(), 160)
		rc.Emit(m, "Mig/"+e.Name+e.Version+"/fail", true)
		return
	}
	okc, p, cnt := g.CommonFieldsEq(e.Target(x), reflect.ValueOf(next).Elem())
	m["common"] = cnt
	if !okc {
		m["common_ok"], m["field"] = false, short(p, 80)
	}
	if next.GetVersion() != to {
		m["version_ok"] = false
	}
	// store the migrated entity and read it back
	nw := reflect.New(reflect.TypeOf(x).Elem()).Interface().(util.MPTSerializable)
	nw.(entityHolder).SetEntity(next)
	enc2, err := safeMarshal(nw)
	back := reflect.New(reflect.TypeOf(x).Elem()).Interface().(util.MPTSerializable)
	if err == nil {
		err = safeUnmarshal(back, enc2)
	}
	if err != nil {
		m["rt_ok"], m["version_ok"], m["err"] = false, false, short("store migrated: "+err.Error(), 160)
	} else {
		be := back.(entityHolder).Entity()
		if be == nil || be.GetVersion() != to || reflect.TypeOf(be) != reflect.TypeOf(next) {
			m["version_ok"] = false
		} else if ok, p := g.DeepEq(reflect.ValueOf(next).Elem(), reflect.ValueOf(be).Elem(), ""); !ok {
			m["rt_ok"] = false
			if m["field"] == "" {
				m["field"] = short(p, 80)
			}
		}
	}
	shape := "ok"
	if m["common_ok"] == false || m["version_ok"] == false || m["rt_ok"] == false {
		shape = "diff"
	}
	rc.Emit(m, "Mig/"+e.Name+e.Version+"/"+shape, true)
}
