// Package state holds the drivers of C07 (state cache vs state trie) and C08 (lossless, canonical
// serialization of stored entities).  reflgen.go: building, mutating and comparing values of ANY
// stored type by reflection (all exported serialized fields, nested structs, slices, maps, pointers).
package state

import (
	"bytes"
	"fmt"
	"math"
	"math/rand"
	"reflect"
	"sort"
	"strings"
	"time"

	"0chain.net/core/util/entitywrapper"
)

// wrapperI is implemented by (pointers to) the entitywrapper-based versioned types, also where they
// are nested in other stored types (BlobberAllocation.LastWriteMarker).
type wrapperI interface {
	TypeName() string
	SetEntity(entitywrapper.EntityI)
	Entity() entitywrapper.EntityI
}

func asWrapper(v reflect.Value) (wrapperI, bool) {
	if v.Kind() != reflect.Struct {
		return nil, false
	}
	if !v.CanAddr() {
		c := reflect.New(v.Type())
		c.Elem().Set(v)
		v = c.Elem()
	}
	w, ok := v.Addr().Interface().(wrapperI)
	return w, ok
}

// fillWrapper gives a nested versioned value an entity of one of its registered versions and fills it.
func (g *Gen) fillWrapper(w wrapperI, c Class, depth int) {
	fs, ok := entitywrapper.GetEntityVersionFuncs(w.TypeName())
	if !ok {
		return
	}
	vs := make([]string, 0, len(fs))
	for k := range fs {
		vs = append(vs, k)
	}
	sort.Strings(vs)
	pick := vs[len(vs)-1]
	switch c {
	case CZero, COne, CMin:
		pick = vs[0]
	case CTypical:
		pick = vs[g.R.Intn(len(vs))]
	}
	e := fs[pick]()
	g.Fill(reflect.ValueOf(e).Elem(), c, depth+1)
	w.SetEntity(e)
}

// Class is one element of Codec.tla's per-field value-class lattice.
type Class int

const (
	CZero Class = iota
	COne
	CTypical
	CMax
	CMin
	CEmpty
	CNil
)

var ClassNames = []string{"zero", "one", "typical", "max", "min", "empty", "nil"}

func ClassOf(name string) Class {
	for i, n := range ClassNames {
		if n == name {
			return Class(i)
		}
	}
	panic("unknown class " + name)
}

// Gen builds values. Overrides take precedence over the generic rules (types with invariants the
// codec relies on: valid public keys in node pools, 32-byte txn hash in client states, ...).
type Gen struct {
	R         *rand.Rand
	Overrides map[reflect.Type]func(g *Gen, c Class, depth int) reflect.Value
	Equals    map[reflect.Type]func(a, b reflect.Value) bool
	// Skip(structType, field) == true: the field is left alone (not filled, not poked, not compared)
	Skip func(t reflect.Type, f reflect.StructField) bool
	Unit string
	// PokeNoInsert: maps Poke must not add an entry to (maps with an invariant between key and value)
	PokeNoInsert func(t reflect.Type) bool
	// PokeSkip: fields Poke must leave alone
	PokeSkip func(t reflect.Type, f reflect.StructField) bool
}

const maxDepth = 7

func skipField(g *Gen, t reflect.Type, f reflect.StructField) bool {
	if f.PkgPath != "" && !f.Anonymous { // unexported
		return true
	}
	if f.PkgPath != "" && f.Anonymous { // embedded unexported type: its exported fields are promoted but not settable through reflection
		return true
	}
	if tag, ok := f.Tag.Lookup("msg"); ok && strings.Split(tag, ",")[0] == "-" {
		return true
	}
	if g != nil && g.Skip != nil && g.Skip(t, f) {
		return true
	}
	return false
}

func (g *Gen) str(n int) string {
	const al = "abcdefghijklmnopqrstuvwxyz0123456789"
	b := make([]byte, n)
	for i := range b {
		b[i] = al[g.R.Intn(len(al))]
	}
	return string(b)
}

// elems: number of elements of a container of the class at the given depth
func (g *Gen) elems(c Class, depth int) int {
	switch c {
	case COne:
		return 1
	case CTypical:
		return 2 + g.R.Intn(2)
	case CMax:
		if depth <= 1 {
			return 17 // beyond msgpack's fixarray / fixmap limit of 15
		}
		return 3
	}
	return 0
}

// elemClass: class used for the elements of a container of class c
func elemClass(c Class) Class {
	if c == CMax || c == COne {
		return c
	}
	return CTypical
}

// Fill sets v (settable) to a value of class c.
func (g *Gen) Fill(v reflect.Value, c Class, depth int) {
	t := v.Type()
	if f, ok := g.Overrides[t]; ok {
		nv := f(g, c, depth)
		if nv.IsValid() {
			v.Set(nv)
		} else {
			v.Set(reflect.Zero(t))
		}
		return
	}
	if depth > maxDepth {
		return
	}
	if v.Kind() == reflect.Struct && v.CanAddr() {
		if w, ok := v.Addr().Interface().(wrapperI); ok {
			g.fillWrapper(w, c, depth)
			return
		}
	}
	switch v.Kind() {
	case reflect.Bool:
		switch c {
		case COne, CMax:
			v.SetBool(true)
		case CTypical:
			v.SetBool(g.R.Intn(2) == 0)
		default:
			v.SetBool(false)
		}
	case reflect.Int, reflect.Int8, reflect.Int16, reflect.Int32, reflect.Int64:
		bits := t.Bits()
		var x int64
		switch c {
		case COne:
			x = 1
		case CTypical:
			x = 2 + g.R.Int63n(1<<uint(minInt(bits-2, 40)))
			if g.R.Intn(4) == 0 {
				x = -x
			}
		case CMax:
			x = int64(1)<<uint(bits-1) - 1
		case CMin:
			x = -(int64(1) << uint(bits-1))
		}
		v.SetInt(x)
	case reflect.Uint, reflect.Uint8, reflect.Uint16, reflect.Uint32, reflect.Uint64, reflect.Uintptr:
		bits := t.Bits()
		var x uint64
		switch c {
		case COne:
			x = 1
		case CTypical:
			x = 2 + uint64(g.R.Int63n(1<<uint(minInt(bits-1, 40))))
		case CMax:
			if bits == 64 {
				x = math.MaxUint64
			} else {
				x = uint64(1)<<uint(bits) - 1
			}
		}
		v.SetUint(x)
	case reflect.Float32, reflect.Float64:
		var x float64
		switch c {
		case COne:
			x = 1
		case CTypical:
			x = float64(g.R.Intn(1000000)) / 1024.0
			if g.R.Intn(4) == 0 {
				x = g.R.NormFloat64() * 1e6
			}
		case CMax:
			x = math.MaxFloat64
			if t.Bits() == 32 {
				x = math.MaxFloat32
			}
		case CMin:
			x = -math.MaxFloat64
			if t.Bits() == 32 {
				x = -math.MaxFloat32
			}
		}
		v.SetFloat(x)
	case reflect.String:
		switch c {
		case COne:
			v.SetString("a")
		case CTypical:
			v.SetString(g.str(3 + g.R.Intn(10)))
		case CMax:
			n := 40
			if depth <= 1 {
				n = 300
			}
			v.SetString(strings.Repeat("é世", 3) + g.str(n)) // multi-byte runes + beyond str8's 255
		default:
			v.SetString("")
		}
	case reflect.Slice:
		if c == CNil {
			v.Set(reflect.Zero(t))
			return
		}
		if t.Elem().Kind() == reflect.Uint8 {
			var b []byte
			switch c {
			case COne:
				b = []byte{1}
			case CTypical:
				b = make([]byte, 8+g.R.Intn(25))
				g.R.Read(b)
			case CMax:
				b = bytes.Repeat([]byte{0xff}, 300)
			default:
				b = []byte{}
			}
			v.Set(reflect.ValueOf(b).Convert(t))
			return
		}
		n := g.elems(c, depth)
		s := reflect.MakeSlice(t, n, n)
		for i := 0; i < n; i++ {
			g.Fill(s.Index(i), elemClass(c), depth+1)
		}
		v.Set(s)
	case reflect.Array:
		for i := 0; i < v.Len(); i++ {
			g.Fill(v.Index(i), c, depth+1)
		}
	case reflect.Map:
		if c == CNil {
			v.Set(reflect.Zero(t))
			return
		}
		n := g.elems(c, depth)
		m := reflect.MakeMapWithSize(t, n)
		for i := 0; i < n; i++ {
			k := reflect.New(t.Key()).Elem()
			g.mapKey(k, i, c)
			e := reflect.New(t.Elem()).Elem()
			g.Fill(e, elemClass(c), depth+1)
			m.SetMapIndex(k, e)
		}
		v.Set(m)
	case reflect.Ptr:
		if c == CNil {
			v.Set(reflect.Zero(t))
			return
		}
		p := reflect.New(t.Elem())
		g.Fill(p.Elem(), c, depth+1)
		v.Set(p)
	case reflect.Struct:
		for i := 0; i < t.NumField(); i++ {
			f := t.Field(i)
			if skipField(g, t, f) {
				continue
			}
			g.Fill(v.Field(i), c, depth+1)
		}
	}
}

func (g *Gen) mapKey(k reflect.Value, i int, c Class) {
	switch k.Kind() {
	case reflect.String:
		if c == COne {
			k.SetString("a")
		} else {
			k.SetString(fmt.Sprintf("%s%02d", g.str(4), i))
		}
	case reflect.Int, reflect.Int8, reflect.Int16, reflect.Int32, reflect.Int64:
		k.SetInt(int64(i + 1))
	case reflect.Uint, reflect.Uint8, reflect.Uint16, reflect.Uint32, reflect.Uint64:
		k.SetUint(uint64(i + 1))
	default:
		g.Fill(k, CTypical, maxDepth-1)
	}
}

func minInt(a, b int) int {
	if a < b {
		return a
	}
	return b
}

// Leaf is one "field" of a stored type for the class vectors: the exported serialized fields of the
// root struct, embedded (anonymous) structs flattened.
type Leaf struct {
	Path string
	V    reflect.Value
}

// Leaves flattens root (addressable struct value). Embedded pointers are allocated.
func (g *Gen) Leaves(root reflect.Value, prefix string, out *[]Leaf) {
	t := root.Type()
	if _, ok := g.Overrides[t]; ok || root.Kind() != reflect.Struct {
		*out = append(*out, Leaf{Path: strings.TrimSuffix(prefix, "."), V: root})
		return
	}
	for i := 0; i < t.NumField(); i++ {
		f := t.Field(i)
		if skipField(g, t, f) {
			continue
		}
		fv := root.Field(i)
		if f.Anonymous {
			if _, ok := g.Overrides[f.Type]; !ok {
				if f.Type.Kind() == reflect.Ptr && f.Type.Elem().Kind() == reflect.Struct {
					if fv.IsNil() {
						fv.Set(reflect.New(f.Type.Elem()))
					}
					g.Leaves(fv.Elem(), prefix+f.Name+".", out)
					continue
				}
				if f.Type.Kind() == reflect.Struct {
					g.Leaves(fv, prefix+f.Name+".", out)
					continue
				}
			}
		}
		*out = append(*out, Leaf{Path: prefix + f.Name, V: fv})
	}
}

// FillVector fills root field-wise: leaf i gets class vec[slot(i)], slot(i) = digit `round` of i in base len(vec).
// Returns the class name given to every leaf.
func (g *Gen) FillVector(root reflect.Value, vec []Class, round int) []string {
	var ls []Leaf
	g.Leaves(root, "", &ls)
	names := make([]string, len(ls))
	div := 1
	for j := 0; j < round; j++ {
		div *= len(vec)
	}
	for i, l := range ls {
		c := vec[(i/div)%len(vec)]
		g.Fill(l.V, c, 1)
		names[i] = l.Path + "=" + ClassNames[c]
	}
	return names
}

// ---------------------------------------------------------------- Poke (C07 Mutate)

// Poke changes, in place, every exported serialized field reachable from v (recursively; slice
// elements, map values and pointees are changed where they are, a new key is added to every map).
func (g *Gen) Poke(v reflect.Value, seen map[uintptr]bool, depth int) {
	if depth > maxDepth+2 {
		return
	}
	switch v.Kind() {
	case reflect.Bool:
		if v.CanSet() {
			v.SetBool(!v.Bool())
		}
	case reflect.Int, reflect.Int8, reflect.Int16, reflect.Int32, reflect.Int64:
		if v.CanSet() {
			v.SetInt(v.Int() + 1)
		}
	case reflect.Uint, reflect.Uint8, reflect.Uint16, reflect.Uint32, reflect.Uint64, reflect.Uintptr:
		if v.CanSet() {
			v.SetUint(v.Uint() + 1)
		}
	case reflect.Float32, reflect.Float64:
		if v.CanSet() {
			f := v.Float()
			if math.Abs(f) > 1e300 {
				f = 0
			}
			v.SetFloat(f + 1.5)
		}
	case reflect.String:
		if v.CanSet() {
			v.SetString(v.String() + "~")
		}
	case reflect.Slice:
		if v.IsNil() || v.Len() == 0 {
			return
		}
		p := v.Pointer()
		if seen[p] {
			return
		}
		seen[p] = true
		for i := 0; i < v.Len(); i++ {
			g.Poke(v.Index(i), seen, depth+1) // elements of a slice are addressable: the backing array is written
		}
	case reflect.Array:
		for i := 0; i < v.Len(); i++ {
			g.Poke(v.Index(i), seen, depth+1)
		}
	case reflect.Map:
		if v.IsNil() {
			return
		}
		p := v.Pointer()
		if seen[p] {
			return
		}
		seen[p] = true
		keys := v.MapKeys()
		for _, k := range keys {
			e := v.MapIndex(k)
			if e.Kind() == reflect.Ptr {
				g.Poke(e, seen, depth+1) // pointee changed in place
				continue
			}
			c := reflect.New(e.Type()).Elem()
			c.Set(e)
			g.Poke(c, seen, depth+1)
			v.SetMapIndex(k, c)
		}
		// a new entry: visible to everybody sharing the map
		if g.PokeNoInsert != nil && g.PokeNoInsert(v.Type()) {
			return
		}
		k := reflect.New(v.Type().Key()).Elem()
		g.mapKey(k, 90+len(keys), CTypical)
		e := reflect.New(v.Type().Elem()).Elem()
		g.Fill(e, CTypical, maxDepth-2)
		v.SetMapIndex(k, e)
	case reflect.Ptr:
		if v.IsNil() {
			return
		}
		p := v.Pointer()
		if seen[p] {
			return
		}
		seen[p] = true
		g.Poke(v.Elem(), seen, depth+1)
	case reflect.Struct:
		t := v.Type()
		if t == reflect.TypeOf(time.Time{}) {
			if v.CanSet() {
				v.Set(reflect.ValueOf(v.Interface().(time.Time).Add(time.Second)))
			}
			return
		}
		if v.CanAddr() {
			if w, ok := v.Addr().Interface().(wrapperI); ok {
				if e := w.Entity(); e != nil {
					g.Poke(reflect.ValueOf(e), seen, depth+1)
				}
				return
			}
		}
		for i := 0; i < t.NumField(); i++ {
			f := t.Field(i)
			// unlike Fill / DeepEq, Poke also changes exported fields that are not serialized (msg:"-"):
			// they may hold objects the cache handed out (Partitions.Partitions)
			if f.PkgPath != "" || (g.PokeSkip != nil && g.PokeSkip(t, f)) {
				continue
			}
			g.Poke(v.Field(i), seen, depth+1)
		}
	}
}

// ---------------------------------------------------------------- equality

// DeepEq compares two values field by field over the exported serialized fields.
// Allowed normalisations (each one is something msgpack, as used by the generated codecs, cannot
// represent, so a lossless codec cannot preserve it):
//   - a nil slice / nil []byte and an empty one are the same value (both are written as a
//     zero-length array / bin; the decoder yields nil for slices);
//   - a nil map and an empty map are the same value (both are written as a zero-length map; the
//     decoder always allocates);
//   - time.Time values are compared with Equal (the msgpack time extension carries seconds and
//     nanoseconds, not the *Location nor the monotonic reading).
//
// A nil pointer and a pointer to a zero value are DIFFERENT (msgpack nil vs. a map), and so are
// fields tagged msg:"-" ignored (declared not to be part of the stored value).
func (g *Gen) DeepEq(a, b reflect.Value, path string) (bool, string) {
	ok, p := g.deepEq(a, b, path)
	return ok, p
}

// Unit is set by a failing DeepEq to the innermost named struct type that owns the differing field
// ("node.Pool"): the unit whose codec loses the value.
func (g *Gen) deepEq(a, b reflect.Value, path string) (bool, string) {
	if a.IsValid() != b.IsValid() {
		return false, path
	}
	if !a.IsValid() {
		return true, ""
	}
	if a.Type() != b.Type() {
		return false, path + "(type)"
	}
	if f, ok := g.Equals[a.Type()]; ok {
		if f(a, b) {
			return true, ""
		}
		return false, path
	}
	switch a.Kind() {
	case reflect.Bool:
		return ret(a.Bool() == b.Bool(), path)
	case reflect.Int, reflect.Int8, reflect.Int16, reflect.Int32, reflect.Int64:
		return ret(a.Int() == b.Int(), path)
	case reflect.Uint, reflect.Uint8, reflect.Uint16, reflect.Uint32, reflect.Uint64, reflect.Uintptr:
		return ret(a.Uint() == b.Uint(), path)
	case reflect.Float32, reflect.Float64:
		x, y := a.Float(), b.Float()
		return ret(x == y || (math.IsNaN(x) && math.IsNaN(y)), path)
	case reflect.String:
		return ret(a.String() == b.String(), path)
	case reflect.Slice, reflect.Array:
		if a.Len() != b.Len() {
			return false, path + "(len)"
		}
		for i := 0; i < a.Len(); i++ {
			if ok, p := g.DeepEq(a.Index(i), b.Index(i), fmt.Sprintf("%s[%d]", path, i)); !ok {
				return false, p
			}
		}
		return true, ""
	case reflect.Map:
		if a.Len() != b.Len() {
			return false, path + "(len)"
		}
		for _, k := range a.MapKeys() {
			bv := b.MapIndex(k)
			ks := short(fmt.Sprint(k.Interface()), 8)
			if !bv.IsValid() {
				return false, fmt.Sprintf("%s[%s]", path, ks)
			}
			if ok, p := g.DeepEq(a.MapIndex(k), bv, fmt.Sprintf("%s[%s]", path, ks)); !ok {
				return false, p
			}
		}
		return true, ""
	case reflect.Ptr, reflect.Interface:
		if a.IsNil() != b.IsNil() {
			return false, path + "(nil)"
		}
		if a.IsNil() {
			return true, ""
		}
		return g.DeepEq(a.Elem(), b.Elem(), path)
	case reflect.Struct:
		t := a.Type()
		if t == reflect.TypeOf(time.Time{}) {
			return ret(a.Interface().(time.Time).Equal(b.Interface().(time.Time)), path)
		}
		if wa, ok := asWrapper(a); ok {
			wb, _ := asWrapper(b)
			ea, eb := wa.Entity(), wb.Entity()
			if (ea == nil) != (eb == nil) {
				return false, path + "(entity)"
			}
			if ea == nil {
				return true, ""
			}
			return g.DeepEq(reflect.ValueOf(ea), reflect.ValueOf(eb), path)
		}
		for i := 0; i < t.NumField(); i++ {
			f := t.Field(i)
			if skipField(g, t, f) {
				continue
			}
			p := path + "." + f.Name
			if path == "" {
				p = f.Name
			}
			if ok, q := g.DeepEq(a.Field(i), b.Field(i), p); !ok {
				if g.Unit == "" {
					g.Unit = shortType(t)
				}
				return false, q
			}
		}
		return true, ""
	}
	return true, ""
}

func shortType(t reflect.Type) string {
	p := t.PkgPath()
	if i := strings.LastIndex(p, "/"); i >= 0 {
		p = p[i+1:]
	}
	return p + "." + t.Name()
}

func ret(ok bool, path string) (bool, string) {
	if ok {
		return true, ""
	}
	return false, path
}

// CommonFieldsEq compares the fields two struct types have in common (same name and type): the
// fields a schema migration must carry over.
func (g *Gen) CommonFieldsEq(a, b reflect.Value) (bool, string, int) {
	n := 0
	ta, tb := a.Type(), b.Type()
	names := []string{}
	for i := 0; i < ta.NumField(); i++ {
		names = append(names, ta.Field(i).Name)
	}
	sort.Strings(names)
	for _, nm := range names {
		fa, _ := ta.FieldByName(nm)
		fb, ok := tb.FieldByName(nm)
		if !ok || fa.Type != fb.Type || skipField(g, ta, fa) || nm == "Version" {
			continue
		}
		n++
		if ok, p := g.DeepEq(a.FieldByName(nm), b.FieldByName(nm), nm); !ok {
			return false, p, n
		}
	}
	return true, "", n
}
