package state

import (
	"encoding/hex"
	"fmt"
	"reflect"
	"sort"
	"time"

	"0chain.net/chaincore/block"
	cstate "0chain.net/chaincore/chain/state"
	"0chain.net/chaincore/node"
	bstate "0chain.net/chaincore/state"
	"0chain.net/chaincore/threshold/bls"
	"0chain.net/chaincore/tokenpool"
	cconfig "0chain.net/core/config"
	"0chain.net/core/datastore"
	"0chain.net/core/util/entitywrapper"
	"0chain.net/smartcontract/faucetsc"
	"0chain.net/smartcontract/minersc"
	"0chain.net/smartcontract/multisigsc"
	"0chain.net/smartcontract/partitions"
	"0chain.net/smartcontract/provider"
	"0chain.net/smartcontract/stakepool"
	"0chain.net/smartcontract/storagesc"
	"0chain.net/smartcontract/vestingsc"
	"0chain.net/smartcontract/zcnsc"

	"github.com/0chain/common/core/util"
)

// Entry describes one stored type (one registered schema version of it).
type Entry struct {
	Name    string // package.Type
	Version string // "" for unversioned types, "v1".. for entitywrapper types
	Wrapper string // entitywrapper TypeName ("" if none)
	New     func() util.MPTSerializable
	// Target: the (addressable) value that holds the fields (for wrappers: the versioned entity struct)
	Target func(x util.MPTSerializable) reflect.Value
}

func plain(name string, f func() util.MPTSerializable) Entry {
	return Entry{Name: name, New: f, Target: func(x util.MPTSerializable) reflect.Value { return reflect.ValueOf(x).Elem() }}
}

type entityHolder interface {
	Entity() entitywrapper.EntityI
	SetEntity(entitywrapper.EntityI)
}

func versioned(name, typeName string, mk func() util.MPTSerializable) []Entry {
	fs, ok := entitywrapper.GetEntityVersionFuncs(typeName)
	if !ok {
		panic("entity not registered: " + typeName)
	}
	vs := make([]string, 0, len(fs))
	for v := range fs {
		vs = append(vs, v)
	}
	sort.Strings(vs)
	var out []Entry
	for _, v := range vs {
		v := v
		out = append(out, Entry{Name: name, Version: v, Wrapper: typeName,
			New: func() util.MPTSerializable {
				x := mk()
				x.(entityHolder).SetEntity(fs[v]())
				return x
			},
			Target: func(x util.MPTSerializable) reflect.Value {
				e := x.(entityHolder).Entity()
				if e == nil {
					return reflect.Value{}
				}
				return reflect.ValueOf(e).Elem()
			}})
	}
	return out
}

func typeName(x interface{}) string {
	t := reflect.TypeOf(x)
	for t.Kind() == reflect.Ptr {
		t = t.Elem()
	}
	p := t.PkgPath()
	for i := len(p) - 1; i >= 0; i-- {
		if p[i] == '/' {
			p = p[i+1:]
			break
		}
	}
	return p + "." + t.Name()
}

func hooked(fs []func() util.MPTSerializable) []Entry {
	var out []Entry
	for _, f := range fs {
		out = append(out, plain(typeName(f()), f))
	}
	return out
}

// Registry lists every stored type the driver can reach.
func Registry() []Entry {
	var es []Entry
	add := func(f func() util.MPTSerializable) { es = append(es, plain(typeName(f()), f)) }
	// client balances
	add(func() util.MPTSerializable { return &bstate.State{} })
	add(func() util.MPTSerializable { return &bstate.Transfer{} })
	add(func() util.MPTSerializable { return &cstate.HardFork{} })
	// magic blocks and DKG records
	add(func() util.MPTSerializable { return &block.MagicBlock{} })
	add(func() util.MPTSerializable { return &block.GroupSharesOrSigns{} })
	add(func() util.MPTSerializable { return &block.ShareOrSigns{} })
	add(func() util.MPTSerializable { return &block.Mpks{} })
	add(func() util.MPTSerializable { return &block.MPK{} })
	add(func() util.MPTSerializable { return &bls.DKGKeyShare{} })
	add(func() util.MPTSerializable { return &node.Pool{} })
	// miner SC
	add(func() util.MPTSerializable { return &minersc.GlobalNode{} })
	add(func() util.MPTSerializable { return &minersc.MinerNode{} })
	add(func() util.MPTSerializable { return &minersc.SimpleNode{} })
	add(func() util.MPTSerializable { return &minersc.SimpleNodes{} })
	add(func() util.MPTSerializable { return &minersc.MinerNodes{} })
	add(func() util.MPTSerializable { return &minersc.NodeIDs{} })
	add(func() util.MPTSerializable { return &minersc.DKGMinerNodes{} })
	add(func() util.MPTSerializable { return &minersc.PhaseNode{} })
	add(func() util.MPTSerializable { return &minersc.GlobalSettings{} })
	add(func() util.MPTSerializable { return &datastore.NOIDField{} })
	// stake pools
	add(func() util.MPTSerializable { return &stakepool.StakePool{} })
	add(func() util.MPTSerializable { return &stakepool.DelegatePool{} })
	add(func() util.MPTSerializable { return &stakepool.Settings{} })
	add(func() util.MPTSerializable { return &provider.Provider{} })
	add(func() util.MPTSerializable { return &tokenpool.ZcnPool{} })
	// storage SC
	es = append(es, versioned("storagesc.StorageAllocation", "storage_allocation", func() util.MPTSerializable { return &storagesc.StorageAllocation{} })...)
	es = append(es, versioned("storagesc.StorageNode", "storage_node", func() util.MPTSerializable { return &storagesc.StorageNode{} })...)
	es = append(es, versioned("storagesc.WriteMarker", "write_marker", func() util.MPTSerializable { return &storagesc.WriteMarker{} })...)
	add(func() util.MPTSerializable { return &storagesc.BlobberAllocation{} })
	add(func() util.MPTSerializable { return &storagesc.StorageAllocationStats{} })
	add(func() util.MPTSerializable { return &storagesc.Terms{} })
	add(func() util.MPTSerializable { return &storagesc.AllocationChallenges{} })
	add(func() util.MPTSerializable { return &storagesc.AllocOpenChallenge{} })
	add(func() util.MPTSerializable { return &storagesc.StorageChallenge{} })
	add(func() util.MPTSerializable { return &storagesc.ValidationNode{} })
	add(func() util.MPTSerializable { return &storagesc.ReadConnection{} })
	add(func() util.MPTSerializable { return &storagesc.ReadMarker{} })
	add(func() util.MPTSerializable { return &storagesc.Config{} })
	add(func() util.MPTSerializable { return &cconfig.StringMap{} })
	add(func() util.MPTSerializable { return &storagesc.PartitionsWeights{} })
	add(func() util.MPTSerializable { return &storagesc.BlobberAllocationNode{} })
	add(func() util.MPTSerializable { return &storagesc.BlobberRewardNode{} })
	add(func() util.MPTSerializable { return &storagesc.ChallengeReadyBlobber{} })
	add(func() util.MPTSerializable { return &storagesc.ValidationPartitionNode{} })
	add(func() util.MPTSerializable { return &storagesc.BlobberNode{} })
	es = append(es, hooked(storagesc.VerifCodecTypes())...)
	// partitions
	add(func() util.MPTSerializable { return &partitions.Partitions{} })
	es = append(es, hooked(partitions.VerifCodecTypes())...)
	// bridge
	add(func() util.MPTSerializable { return &zcnsc.GlobalNode{} })
	add(func() util.MPTSerializable { return &zcnsc.ZCNSConfig{} })
	add(func() util.MPTSerializable { return &zcnsc.AuthorizerNode{} })
	add(func() util.MPTSerializable { return &zcnsc.AuthorizerConfig{} })
	add(func() util.MPTSerializable { return &zcnsc.UserNode{} })
	add(func() util.MPTSerializable { return &zcnsc.StakePool{} })
	add(func() util.MPTSerializable { return &zcnsc.AuthCount{} })
	add(func() util.MPTSerializable { return &zcnsc.WZCNMintedNonce{} })
	// vesting, faucet, multisig
	es = append(es, hooked(vestingsc.VerifCodecTypes())...)
	add(func() util.MPTSerializable { return &faucetsc.GlobalNode{} })
	add(func() util.MPTSerializable { return &faucetsc.FaucetConfig{} })
	add(func() util.MPTSerializable { return &faucetsc.UserNode{} })
	add(func() util.MPTSerializable { return &multisigsc.Wallet{} })
	es = append(es, hooked(multisigsc.VerifCodecTypes())...)
	return es
}

// KeyRing provides valid (id, public key) pairs for node pools.
type KeyRing func(i int) (id, pub string)

// NewGen builds the generator with the overrides the stored types need.
func NewGen(seed int64, trace int, keys KeyRing) *Gen {
	g := &Gen{Overrides: map[reflect.Type]func(*Gen, Class, int) reflect.Value{}, Equals: map[reflect.Type]func(a, b reflect.Value) bool{}}
	// time.Time: any instant (the msgpack time extension keeps seconds + nanoseconds)
	g.Overrides[reflect.TypeOf(time.Time{})] = func(g *Gen, c Class, depth int) reflect.Value {
		var t time.Time
		switch c {
		case COne:
			t = time.Unix(1, 1)
		case CTypical:
			t = time.Unix(1600000000+g.R.Int63n(1e8), g.R.Int63n(1e9))
		case CMax:
			t = time.Unix(1<<40, 999999999)
		case CMin:
			t = time.Unix(-(1 << 33), 0)
		}
		return reflect.ValueOf(t)
	}
	// client state: TxnHashBytes is a 32-byte transaction hash (State.Decode reads exactly 32 bytes;
	// SetTxnHash stores the decoded hex hash of the transaction); TxnHash is derived from it
	g.Overrides[reflect.TypeOf(bstate.State{})] = func(g *Gen, c Class, depth int) reflect.Value {
		s := bstate.State{}
		h := make([]byte, 32)
		switch c {
		case CZero, CEmpty, CNil, CMin:
		case CMax:
			for i := range h {
				h[i] = 0xff
			}
		case COne:
			h[31] = 1
		default:
			g.R.Read(h)
		}
		s.TxnHashBytes = h
		s.TxnHash = hex.EncodeToString(h)
		rv := reflect.ValueOf(&s).Elem()
		g.Fill(rv.FieldByName("Round"), c, depth+1)
		g.Fill(rv.FieldByName("Balance"), c, depth+1)
		g.Fill(rv.FieldByName("Nonce"), c, depth+1)
		return rv
	}
	g.Equals[reflect.TypeOf(bstate.State{})] = func(a, b reflect.Value) bool {
		x, y := a.Interface().(bstate.State), b.Interface().(bstate.State)
		_ = y.ComputeProperties() // TxnHash is derived (hex of TxnHashBytes), recomputed by the readers
		return x.TxnHash == y.TxnHash && string(x.TxnHashBytes) == string(y.TxnHashBytes) && x.Round == y.Round && x.Balance == y.Balance && x.Nonce == y.Nonce
	}
	// HardFork has unexported serialized fields: built with its constructor, compared with reflect.DeepEqual
	g.Overrides[reflect.TypeOf(cstate.HardFork{})] = func(g *Gen, c Class, depth int) reflect.Value {
		var name string
		var round int64
		g.Fill(reflect.ValueOf(&name).Elem(), c, depth+1)
		g.Fill(reflect.ValueOf(&round).Elem(), c, depth+1)
		return reflect.ValueOf(cstate.NewHardFork(name, round)).Elem()
	}
	g.Equals[reflect.TypeOf(cstate.HardFork{})] = func(a, b reflect.Value) bool {
		return reflect.DeepEqual(a.Interface(), b.Interface())
	}
	// node pools: every node needs a public key that is valid for the configured signature scheme
	// (Pool.UnmarshalMsg calls SetPublicKey on every node) and is stored under its id
	mkPool := func(g *Gen, c Class, depth int) *node.Pool {
		p := node.NewPool(node.NodeTypeMiner)
		if c == CMax || (c == CTypical && g.R.Intn(2) == 0) {
			p.Type = node.NodeTypeSharder
		}
		n := 0
		switch c {
		case COne:
			n = 1
		case CTypical:
			n = 2
		case CMax:
			n = 4
		}
		for i := 0; i < n; i++ {
			nd := node.Provider()
			g.Fill(reflect.ValueOf(nd).Elem(), elemClass(c), depth+2)
			id, pub := keys(g.R.Intn(8)*4 + i)
			nd.ID, nd.PublicKey = id, pub
			nd.Type = p.Type
			p.NodesMap[nd.ID] = nd
		}
		// pool invariant kept by Pool.AddNode / ComputeProperties (and re-established by the decoder):
		// SetIndex = rank of the node's id in the pool
		ids := make([]string, 0, len(p.NodesMap))
		for id := range p.NodesMap {
			ids = append(ids, id)
		}
		sort.Strings(ids)
		for i, id := range ids {
			p.NodesMap[id].SetIndex = i
		}
		return p
	}
	// a node on its own (a new entry of a pool's map): a valid key as well
	g.Overrides[reflect.TypeOf(&node.Node{})] = func(g *Gen, c Class, depth int) reflect.Value {
		if c == CNil {
			return reflect.Zero(reflect.TypeOf(&node.Node{}))
		}
		nd := node.Provider()
		g.Fill(reflect.ValueOf(nd).Elem(), elemClass(c), depth+2)
		nd.ID, nd.PublicKey = keys(32 + g.R.Intn(8))
		return reflect.ValueOf(nd)
	}
	g.Overrides[reflect.TypeOf(&node.Pool{})] = func(g *Gen, c Class, depth int) reflect.Value {
		if c == CNil {
			return reflect.Zero(reflect.TypeOf(&node.Pool{}))
		}
		return reflect.ValueOf(mkPool(g, c, depth))
	}
	// Skip: the unexported / non-serialized parts of node.Pool are rebuilt by its decoder
	g.R = nil
	_ = fmt.Sprint
	return g
}

// FillPoolRoot fills a root *node.Pool (registry entry node.Pool) in place.
func fillPoolRoot(g *Gen, x *node.Pool, c Class) {
	p := g.Overrides[reflect.TypeOf(&node.Pool{})](g, c, 1)
	if p.IsNil() {
		p = g.Overrides[reflect.TypeOf(&node.Pool{})](g, CEmpty, 1)
	}
	src := p.Interface().(*node.Pool)
	x.Type = src.Type
	x.NodesMap = src.NodesMap
}
