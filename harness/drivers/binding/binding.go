// Package binding replays the tamper sequences enumerated by TLC from spec/Binding.tla (C29, C30)
// and the decision table of spec/SigSchemes.tla (C47) on real transactions, blocks and signature schemes.
package binding

import (
	"context"
	"encoding/hex"
	"encoding/json"
	"fmt"
	"math/rand"
	"sort"
	"strings"
	"time"

	"0chain.net/chaincore/block"
	"0chain.net/chaincore/client"
	"0chain.net/chaincore/transaction"
	"0chain.net/core/common"
	"0chain.net/core/datastore"
	"0chain.net/core/encryption"

	"github.com/0chain/common/core/currency"

	vc "verif/harness/common"
	"verif/harness/minerworld"
	"verif/harness/rec"
	"verif/harness/world"
)

func init() { vc.Register("binding", Run) }

type drv struct {
	w  *world.World
	mw *minerworld.MinerWorld
	rc *rec.Recorder
	r  *rand.Rand
}

func Run(a vc.Args) {
	// a real miner chain: transactions are also validated on the block path (miner.ValidateTransactions)
	mw := minerworld.New(world.Options{Clients: 4})
	defer mw.Close()
	w := mw.World
	rc := rec.New(a.Out)
	defer rc.Close()
	d := &drv{w: w, mw: mw, rc: rc}
	id := 0
	per := a.N // objects per behaviour
	if per <= 0 {
		per = 1
	}
	for _, raw := range vc.Behaviours(a.Behav) {
		id++
		if a.Only != 0 && a.Only != id {
			rc.TraceID = id
			continue
		}
		d.r = vc.TraceRand(a.Seed, id)
		rc.TraceID = id - 1
		switch a.Prop {
		case "C30":
			var steps []string
			must(json.Unmarshal(raw, &steps))
			rc.Reset(rec.M{"family": "binding", "kind": "txn", "id": id, "steps": steps}, nil)
			for i := 0; i < per; i++ {
				d.txn(steps)
			}
		case "C29":
			var steps []string
			must(json.Unmarshal(raw, &steps))
			rc.Reset(rec.M{"family": "binding", "kind": "block", "id": id, "steps": steps}, nil)
			for i := 0; i < per; i++ {
				d.block(steps)
			}
		case "C47":
			var e sigCase
			must(json.Unmarshal(raw, &e))
			rc.Reset(rec.M{"family": "binding", "kind": "sig", "id": id, "case": e}, nil)
			for i := 0; i < per; i++ {
				d.sig(e)
			}
		default:
			rec.Fatal("binding: unknown prop %q", a.Prop)
		}
	}
}

func must(err error) {
	if err != nil {
		rec.Fatal("%v", err)
	}
}

func sorted(m map[string]bool) []string {
	out := []string{}
	for k := range m {
		out = append(out, k)
	}
	sort.Strings(out)
	return out
}

func flipHex(s string, r *rand.Rand) string {
	if len(s) == 0 {
		return "00"
	}
	b := []byte(s)
	i := r.Intn(len(b))
	if b[i] == '0' {
		b[i] = '1'
	} else {
		b[i] = '0'
	}
	return string(b)
}

// ---------------------------------------------------------------- C30

func (d *drv) genuineTxn() (*transaction.Transaction, *world.Key, *world.Key) {
	w := d.w
	victim := w.Clients[d.r.Intn(2)]
	attacker := w.Clients[2+d.r.Intn(2)]
	ts := world.TxnSpec{From: victim, To: w.Clients[(d.r.Intn(3)+1)%4].ID, Value: uint64(1 + d.r.Intn(1000)),
		Fee: uint64(d.r.Intn(50)), Nonce: int64(1 + d.r.Intn(100)), Time: common.Now()}
	if ts.To == victim.ID {
		ts.To = attacker.ID
	}
	switch d.r.Intn(3) {
	case 0:
		ts.Type = transaction.TxnTypeSend
	case 1:
		ts.Type = transaction.TxnTypeSmartContract
		ts.To = world.Contracts["faucetsc"]
		ts.Fn = "pour"
	default:
		ts.Type = transaction.TxnTypeData
		ts.Raw = []byte(fmt.Sprintf("payload-%d", d.r.Intn(1000)))
	}
	t := w.MakeTxn(ts)
	return t, victim, attacker
}

func (d *drv) txn(steps []string) {
	t, victim, attacker := d.genuineTxn()
	orig := t.Clone()
	origHash := t.Hash
	alt := map[string]bool{}
	for _, st := range steps {
		switch st {
		case "time":
			t.CreationDate += common.Timestamp(1 + d.r.Intn(3))
		case "nonce":
			t.Nonce += int64(1 + d.r.Intn(3))
		case "recipient":
			if t.ToClientID == attacker.ID {
				t.ToClientID = d.w.Owner.ID
			} else {
				t.ToClientID = attacker.ID
			}
		case "value":
			t.Value += currency.Coin(1 + d.r.Intn(1000))
		case "data":
			if t.TransactionType == transaction.TxnTypeSmartContract {
				t.TransactionData = `{"name":"refill","input":{}}`
			} else {
				t.TransactionData += "x"
			}
		case "fee":
			t.Fee += currency.Coin(1 + d.r.Intn(1000))
		case "type":
			if t.TransactionType == transaction.TxnTypeData {
				t.TransactionType = transaction.TxnTypeSend
			} else if t.TransactionType == transaction.TxnTypeSend {
				t.TransactionType = transaction.TxnTypeData
			} else {
				t.TransactionType = transaction.TxnTypeData
			}
		case "SetSender":
			t.ClientID = attacker.ID
		case "SetPub":
			t.PublicKey = attacker.Pub
		case "Rehash":
			t.Hash = t.ComputeHash()
		case "Resign":
			t.Signature = attacker.Sign(t.Hash)
		case "BreakSig":
			t.Signature = flipHex(t.Signature, d.r)
		default:
			rec.Fatal("unknown txn step %q", st)
		}
		if st != "Rehash" && st != "Resign" && st != "BreakSig" && st != "SetPub" {
			if st == "SetSender" {
				alt["sender"] = true
			} else {
				alt[st] = true
			}
		}
	}
	// the real receive path: ComputeProperties, then validation w.r.t. time
	accepted, why := true, ""
	if err := t.ComputeProperties(); err != nil {
		accepted, why = false, "props:"+err.Error()
	} else if err := t.ValidateWrtTime(context.Background(), common.Now()); err != nil {
		accepted, why = false, err.Error()
	}
	_ = orig
	_ = victim
	if len(why) > 80 {
		why = why[:80]
	}
	vf := violFields(alt)
	d.rc.Emit(rec.M{"ev": "Validate", "kind": "txn", "path": "submit", "steps": steps, "alt": sorted(alt), "accepted": accepted,
		"hash_changed": t.ComputeHash() != origHash, "why": why, "viol_fields": vf, "unbound": unboundFields(steps, "txn"), "ttype": t.TransactionType,
		"ntx": 0, "dup_n": 0, "dup_i": 0, "dup_neutral": false},
		fmt.Sprintf("txn/submit/%v/%v", steps, accepted), accepted)

	// the block path: the same object inside a block received by a verifier (miner.ValidateTransactions:
	// per-transaction checks without the individual signature check + aggregate signature verification)
	mc := d.mw.MC
	b := block.NewBlock(d.w.Chain.GetKey(), mc.GetCurrentRound()+1)
	b.CreationDate = common.Now()
	b.Hash = encryption.Hash(fmt.Sprintf("binding-block-%d", d.r.Int63()))
	other, _, _ := d.genuineTxn()
	for _, x := range []*transaction.Transaction{t, other} {
		x.TransactionOutput = "out"
		x.OutputHash = x.ComputeOutputHash()
	}
	b.Txns = []*transaction.Transaction{other, t}
	baccepted, bwhy := true, ""
	if err := t.ComputeProperties(); err != nil {
		baccepted, bwhy = false, "props:"+err.Error()
	} else {
		ctx, cancel := context.WithTimeout(context.Background(), 20*time.Second)
		if err := mc.ValidateTransactions(ctx, b); err != nil {
			baccepted, bwhy = false, err.Error()
		}
		cancel()
	}
	if len(bwhy) > 80 {
		bwhy = bwhy[:80]
	}
	d.rc.Emit(rec.M{"ev": "Validate", "kind": "txn", "path": "block", "steps": steps, "alt": sorted(alt), "accepted": baccepted,
		"hash_changed": t.ComputeHash() != origHash, "why": bwhy, "viol_fields": vf, "unbound": unboundFields(steps, "txn"), "ttype": t.TransactionType,
		"ntx": 0, "dup_n": 0, "dup_i": 0, "dup_neutral": false},
		fmt.Sprintf("txn/block/%v/%v", steps, baccepted), baccepted)
}

// unboundFields replays the tamper steps on the abstract object of Binding.tla (the same fold as
// Trace_Binding!ApplyAll) and names what keeps the result from being valid under the intended binding: the
// must-bind fields whose alteration the hash / the signature does not cover, plus "+other" when something
// else is wrong too (signature broken or by a key that is not the declared one, sender/key mismatch, duplicate).
// Known findings are identified by it: "state" = nothing is wrong except that the state root is not covered.
func unboundFields(steps []string, kind string) string {
	must := map[string]bool{}
	names := []string{"time", "nonce", "sender", "recipient", "value", "data", "fee", "type"}
	if kind == "block" {
		names = []string{"sender", "parent", "round", "seed", "txns", "outputs", "state", "magicblock"}
	}
	for _, n := range names {
		must[n] = true
	}
	alt, hashed, sigHash := map[string]bool{}, map[string]bool{}, map[string]bool{}
	cid, pub, sigKey, sigBroken, dup := "victim", "victim", "victim", false, false
	altered := func() map[string]bool {
		o := map[string]bool{}
		for k := range alt {
			if must[k] {
				o[k] = true
			}
		}
		if cid != "victim" {
			o["sender"] = true
		}
		return o
	}
	for _, st := range steps {
		switch st {
		case "SetSender":
			cid = "attacker"
			if kind != "txn" {
				pub = "attacker"
			}
		case "SetPub":
			pub = "attacker"
		case "Rehash":
			hashed = altered()
		case "Resign":
			sigKey, sigBroken = "attacker", false
			sigHash = map[string]bool{}
			for k := range hashed {
				sigHash[k] = true
			}
		case "BreakSig":
			sigBroken = true
		default:
			if n, i, ok := dupShape(st); ok {
				dup = true
				if !merkleNeutral(n, i) {
					alt["txns"] = true
				}
			} else {
				alt[st] = true
			}
		}
	}
	diff := map[string]bool{}
	a := altered()
	for k := range a {
		if !hashed[k] {
			diff[k] = true
		}
	}
	for k := range hashed {
		if !a[k] || !sigHash[k] {
			diff[k] = true
		}
	}
	for k := range sigHash {
		if !hashed[k] {
			diff[k] = true
		}
	}
	out := violFields(diff)
	if sigBroken || sigKey != pub || (kind == "txn" && pub != cid) || dup {
		out += "+other"
	}
	return out
}

func violFields(alt map[string]bool) string {
	s := ""
	for i, f := range sorted(alt) {
		if i > 0 {
			s += ","
		}
		s += f
	}
	return s
}

// ---------------------------------------------------------------- C29

// dupShape parses the step name of Binding!Duplicate(n, i) ("Duplicate:n:i": the block carries n transactions
// and the i-th one is appended once more).
func dupShape(st string) (n, i int, ok bool) {
	if !strings.HasPrefix(st, "Duplicate:") {
		return 0, 0, false
	}
	if _, err := fmt.Sscanf(st, "Duplicate:%d:%d", &n, &i); err != nil || n < 1 || i < 1 || i > n {
		rec.Fatal("bad duplicate step %q", st)
	}
	return n, i, true
}

// merkleNeutral = Binding!MerkleNeutral: the Merkle tree pads a level of odd length with its last node, so the
// last transaction of an odd-sized block appended once more gives the same transaction and receipt roots.
func merkleNeutral(n, i int) bool { return i == n && n%2 == 1 }

// genuineBlock: a block of ntx transactions, generated and signed by a registered miner.
func (d *drv) genuineBlock(ntx int) *block.Block {
	w := d.w
	b := block.NewBlock(datastore.ToKey(w.Chain.GetKey()), int64(10+d.r.Intn(1000)))
	b.MinerID = w.Miners[0].ID
	b.PrevHash = encryption.Hash(fmt.Sprintf("prev-%d", d.r.Int63()))
	b.CreationDate = common.Now()
	b.SetRoundRandomSeed(d.r.Int63())
	for i := 0; i < ntx; i++ {
		t, _, _ := d.genuineTxn()
		t.TransactionOutput = fmt.Sprintf("out-%d", d.r.Intn(100))
		t.OutputHash = t.ComputeOutputHash()
		t.Status = transaction.TxnSuccess
		b.Txns = append(b.Txns, t)
	}
	b.ClientStateHash = encryption.RawHash(fmt.Sprintf("state-%d", d.r.Int63()))
	b.StateChangesCount = 1 + d.r.Intn(20)
	if d.r.Intn(2) == 0 {
		mb := block.NewMagicBlock()
		mb.MagicBlockNumber = int64(2 + d.r.Intn(5))
		mb.StartingRound = b.Round
		mb.Miners = w.Chain.GetCurrentMagicBlock().Miners
		mb.Sharders = w.Chain.GetCurrentMagicBlock().Sharders
		mb.Hash = mb.GetHash()
		b.MagicBlock = mb
	}
	b.HashBlock()
	b.Signature = w.Miners[0].Sign(b.Hash)
	return b
}

func (d *drv) block(steps []string) {
	w := d.w
	// the shape of the genuine block: the number of transactions it carries is the environment's choice (1, 2, 3+:
	// the Merkle root of the transactions treats a single leaf and odd levels specially).  A behaviour that repeats a
	// transaction (Duplicate:n:i) fixes it: the block must carry n transactions at that moment, so the genuine block
	// has n minus what a "txns" tamper step appended before; behaviours without a repetition get 1..4 at random.
	appendTxn := d.r.Intn(2) == 1 // whether the "txns" tamper step appends a transaction or replaces one
	ntx, dupN, dupI := 1+d.r.Intn(4), 0, 0
	for k, st := range steps {
		if n, i, ok := dupShape(st); ok {
			dupN, dupI, ntx = n, i, n
			for _, before := range steps[:k] {
				if before == "txns" && appendTxn {
					if n == 1 {
						appendTxn = false
					} else {
						ntx = n - 1
					}
				}
			}
		}
	}
	b := d.genuineBlock(ntx)
	origHash := b.Hash
	attacker := w.Miners[1]
	alt := map[string]bool{}
	for _, st := range steps {
		if n, i, ok := dupShape(st); ok {
			if len(b.Txns) != n {
				rec.Fatal("binding: block carries %d transactions at %s", len(b.Txns), st)
			}
			b.Txns = append(b.Txns, b.Txns[i-1])
			if !merkleNeutral(n, i) {
				alt["txns"] = true
			}
			continue
		}
		switch st {
		case "parent":
			b.PrevHash = encryption.Hash(fmt.Sprintf("other-prev-%d", d.r.Int63()))
		case "round":
			b.Round += int64(1 + d.r.Intn(3))
		case "seed":
			b.SetRoundRandomSeed(b.GetRoundRandomSeed() + int64(1+d.r.Intn(9)))
		case "txns":
			t, _, _ := d.genuineTxn()
			t.OutputHash = t.ComputeOutputHash()
			if appendTxn {
				b.Txns = append(b.Txns, t)
			} else {
				b.Txns[d.r.Intn(len(b.Txns))] = t
			}
		case "outputs":
			t := b.Txns[d.r.Intn(len(b.Txns))]
			t.TransactionOutput += "-tampered"
			t.OutputHash = t.ComputeOutputHash()
		case "state":
			b.ClientStateHash = encryption.RawHash(fmt.Sprintf("other-state-%d", d.r.Int63()))
		case "magicblock":
			mb := block.NewMagicBlock()
			mb.MagicBlockNumber = int64(20 + d.r.Intn(50))
			mb.StartingRound = b.Round + 7
			mb.Miners = w.Chain.GetCurrentMagicBlock().Miners
			mb.Sharders = w.Chain.GetCurrentMagicBlock().Sharders
			mb.Hash = mb.GetHash()
			b.MagicBlock = mb
		case "SetSender":
			b.MinerID = attacker.ID
		case "Rehash":
			b.HashBlock()
		case "Resign":
			b.Signature = attacker.Sign(b.Hash)
		case "BreakSig":
			b.Signature = flipHex(b.Signature, d.r)
		default:
			rec.Fatal("unknown block step %q", st)
		}
		switch st {
		case "Rehash", "Resign", "BreakSig":
		case "SetSender":
			alt["sender"] = true
		default:
			alt[st] = true
		}
	}
	// the real receive path: the block travels as JSON, is decoded, ComputeProperties, Validate
	accepted, why := true, ""
	enc, err := json.Marshal(b)
	must(err)
	rb := block.NewBlock("", 0)
	if err := rb.Decode(enc); err != nil {
		accepted, why = false, "decode:"+err.Error()
	} else if err := rb.ComputeProperties(); err != nil {
		accepted, why = false, "props:"+err.Error()
	} else if err := rb.Validate(context.Background()); err != nil {
		accepted, why = false, err.Error()
	}
	if len(why) > 80 {
		why = why[:80]
	}
	d.rc.Emit(rec.M{"ev": "Validate", "kind": "block", "path": "receive", "steps": steps, "alt": sorted(alt), "accepted": accepted,
		"hash_changed": b.ComputeHash() != origHash, "why": why, "viol_fields": violFields(alt), "unbound": unboundFields(steps, "block"), "ttype": 0,
		"ntx": len(b.Txns), "dup_n": dupN, "dup_i": dupI, "dup_neutral": dupN > 0 && dupI == dupN && dupN%2 == 1},
		fmt.Sprintf("block/%v/%v", steps, accepted), accepted)
}

// ---------------------------------------------------------------- C47

type sigCase struct {
	Scheme  string `json:"scheme"`
	Sk      string `json:"sk"`
	Sh      string `json:"sh"`
	Vk      string `json:"vk"`
	Vh      string `json:"vh"`
	Mg      string `json:"mg"`
	IdKey   string `json:"idkey"`
	IdClaim string `json:"idclaim"`
	Way     string `json:"way"` // how the long-lived verifying client object comes to hold vk (SigSchemes.tla Way)
	Pk      string `json:"pk"`  // the key that object held before
}

func (d *drv) sig(c sigCase) {
	keys := map[string]encryption.SignatureScheme{}
	for _, k := range []string{"k1", "k2"} {
		ss := encryption.GetSignatureScheme(c.Scheme)
		must(ss.GenerateKeys())
		keys[k] = ss
	}
	hashes := map[string]string{}
	for _, h := range []string{"h1", "h2"} {
		hashes[h] = encryption.Hash(fmt.Sprintf("msg-%d-%s", d.r.Int63(), h))
	}
	sig, err := keys[c.Sk].Sign(hashes[c.Sh])
	must(err)
	switch c.Mg {
	case "flipbit":
		sig = flipHex(sig, d.r)
	case "truncate":
		sig = sig[:len(sig)-2]
	case "empty":
		sig = ""
	case "othersig":
		// a valid signature, but of another (key, hash) pair
		o := encryption.GetSignatureScheme(c.Scheme)
		must(o.GenerateKeys())
		sig, err = o.Sign(encryption.Hash("other"))
		must(err)
	}
	// verification is done by a fresh scheme object that only knows the public key (as a receiver would)
	ver := encryption.GetSignatureScheme(c.Scheme)
	must(ver.SetPublicKey(keys[c.Vk].GetPublicKey()))
	ok, verr := ver.Verify(sig, hashes[c.Vh])
	if verr != nil {
		ok = false
	}
	// ... and after the genuine triple has verified once (whatever the scheme remembers about it), the same
	// signature under RELATED keys and hashes: the signer's key with one bit of its last byte flipped (for
	// bls0chain the top bit gives the negated key), the signed hash with a byte appended / cut off
	genuine, err := keys[c.Sk].Sign(hashes[c.Sh])
	must(err)
	vfy := func(pub, h string) bool {
		v := encryption.GetSignatureScheme(c.Scheme)
		if v.SetPublicKey(pub) != nil {
			return false
		}
		ok, err := v.Verify(genuine, h)
		return err == nil && ok
	}
	spub := keys[c.Sk].GetPublicKey()
	flipLast := func(mask byte) string {
		b, _ := hex.DecodeString(spub)
		b[len(b)-1] ^= mask
		return hex.EncodeToString(b)
	}
	warm := vfy(spub, hashes[c.Sh])
	related := vfy(flipLast(0x80), hashes[c.Sh]) || vfy(flipLast(0x01), hashes[c.Sh]) ||
		vfy(spub, hashes[c.Sh]+"00") || vfy(spub, hashes[c.Sh][:len(hashes[c.Sh])-2]) || vfy(spub, hashes[c.Sh]+hashes[c.Vh])
	again := vfy(spub, hashes[c.Sh])
	// client id = hash(public key)
	cl := client.NewClient(client.SignatureScheme(c.Scheme))
	must(cl.SetPublicKey(keys[c.IdKey].GetPublicKey()))
	pkb, _ := hex.DecodeString(keys[c.IdClaim].GetPublicKey())
	claimed := encryption.Hash(pkb)
	idIsHash := cl.ID == encryption.Hash(cl.PublicKeyBytes)
	cl.ID = claimed
	idOK := cl.Validate(context.Background()) == nil
	if id2, err := client.GetIDFromPublicKey(keys[c.IdKey].GetPublicKey()); err != nil || (id2 == claimed) != (c.IdKey == c.IdClaim) {
		idIsHash = false
	}
	if (encryption.VerifyPublicKeyClientID(keys[c.IdKey].GetPublicKey(), claimed) == nil) != idOK {
		idIsHash = false
	}
	// the verifier as a long-lived object: a Client that already holds (and has verified with) the key pk, then
	// becomes the vk client in the enumerated way and verifies the same signature again
	prevOK, objOK, objBound := d.clientObject(c, keys, sig, hashes[c.Vh])
	d.rc.Emit(rec.M{"ev": "Sig", "scheme": c.Scheme, "sk": c.Sk, "sh": c.Sh, "vk": c.Vk, "vh": c.Vh, "mg": c.Mg,
		"idkey": c.IdKey, "idclaim": c.IdClaim, "verified": ok, "id_ok": idOK, "id_is_hash": idIsHash,
		"genuine_ok": warm && again, "related_ok": related,
		"way": c.Way, "pk": c.Pk, "obj_prev_verified": prevOK, "obj_verified": objOK, "obj_bound": objBound},
		fmt.Sprintf("sig/%s/%v/%v/%v/%s/%s/%v", c.Scheme, c.Sk == c.Vk, c.Sh == c.Vh, ok, c.Mg, c.Way, objOK), ok)
}

// clientObject: one client.Client object with a history. (1) it holds key pk and verifies sig over h with it;
// (2) it becomes the vk client: "set" SetPublicKey, "scheme" SetSignatureScheme, "copy" Copy from the vk client,
// "decode" the serialized record of the vk client decoded into the SAME object + ComputeProperties (what the
// datastore does when an entity is read into an existing object), "assign" direct assignment of the exported
// field - the last two followed by the repository's refresh idiom c.SetPublicKey(c.PublicKey) (node.Pool.AddNode);
// (3) it verifies sig over h again. Returns the two verdicts and whether the object ended up bound to vk
// (public key field, key bytes, id = hash of the key).
func (d *drv) clientObject(c sigCase, keys map[string]encryption.SignatureScheme, sig, h string) (prevOK, objOK, bound bool) {
	verify := func(cl *client.Client) bool {
		ok, err := cl.Verify(sig, h)
		return err == nil && ok
	}
	vpub := keys[c.Vk].GetPublicKey()
	cl := client.NewClient(client.SignatureScheme(c.Scheme))
	must(cl.SetPublicKey(keys[c.Pk].GetPublicKey()))
	prevOK = verify(cl)
	switch c.Way {
	case "set":
		must(cl.SetPublicKey(vpub))
	case "scheme":
		ss := encryption.GetSignatureScheme(c.Scheme)
		must(ss.SetPublicKey(vpub))
		must(cl.SetSignatureScheme(ss))
	case "copy":
		src := client.NewClient(client.SignatureScheme(c.Scheme))
		must(src.SetPublicKey(vpub))
		cl.Copy(src)
	case "decode":
		vid, err := client.GetIDFromPublicKey(vpub)
		must(err)
		record, err := json.Marshal(map[string]interface{}{"id": vid, "public_key": vpub})
		must(err)
		must(json.Unmarshal(record, cl))
		must(cl.ComputeProperties())
		must(cl.SetPublicKey(cl.PublicKey))
	case "assign":
		cl.PublicKey = vpub
		must(cl.SetPublicKey(cl.PublicKey))
	default:
		rec.Fatal("binding: unknown way %q", c.Way)
	}
	objOK = verify(cl)
	bound = cl.PublicKey == vpub && cl.ID == encryption.Hash(cl.PublicKeyBytes) && hex.EncodeToString(cl.PublicKeyBytes) == vpub
	return
}
