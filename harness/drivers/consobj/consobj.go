// Package consobj holds helpers shared by the consensus-object drivers (roundfsm, rank, replic,
// activation): deterministic node keys and real node.Node / node.Pool construction without a chain.
package consobj

import (
	"encoding/hex"
	"strings"
	"sync"

	"0chain.net/chaincore/node"
	"0chain.net/core/encryption"

	"github.com/0chain/common/core/logging"
	"github.com/herumi/bls-go-binary/bls"
	"go.uber.org/zap"
)

var once sync.Once

// Init silences the repository's loggers (they are nil until initialised).
func Init() {
	once.Do(func() {
		logging.Logger = zap.NewNop()
		logging.N2n = zap.NewNop()
		logging.MemUsage = zap.NewNop()
	})
}

// Key is a deterministic BLS identity derived from a name.
type Key struct {
	Name string
	ID   string
	Pub  string
}

// NewKey derives a key from (salt, name) only, so ids are reproducible.
func NewKey(salt, name string) Key {
	h := encryption.RawHash("verif-consobj:" + salt + ":" + name)
	h[31] &= 0x0f
	var sk bls.SecretKey
	if err := sk.SetLittleEndian(h); err != nil {
		panic(err)
	}
	ss := encryption.NewBLS0ChainScheme()
	keys := hex.EncodeToString(sk.GetPublicKey().Serialize()) + "\n" + hex.EncodeToString(sk.GetLittleEndian()) + "\n"
	if err := ss.ReadKeys(strings.NewReader(keys)); err != nil {
		panic(err)
	}
	pub := ss.GetPublicKey()
	pkb, err := hex.DecodeString(pub)
	if err != nil {
		panic(err)
	}
	return Key{Name: name, ID: encryption.Hash(pkb), Pub: pub}
}

// NewNode builds a fresh real node.Node object for the key (a NEW object on every call, so that two
// pools never share node objects: SetIndex is a field of the node).
func NewNode(k Key, tp node.NodeType) *node.Node {
	n := node.Provider()
	n.Type = tp
	n.Host = "localhost"
	n.N2NHost = "localhost"
	n.Port = 7000
	n.Status = node.NodeStatusActive
	n.SetSignatureSchemeType(encryption.SignatureSchemeBls0chain)
	if err := n.SetPublicKey(k.Pub); err != nil {
		panic(err)
	}
	if err := n.SetID(k.ID); err != nil { // also fills the id bytes used by the hash scorer
		panic(err)
	}
	return n
}

// NewPool builds a real node.Pool by adding fresh nodes for the keys in the given order.
func NewPool(tp node.NodeType, keys []Key) (*node.Pool, []*node.Node) {
	p := node.NewPool(tp)
	ns := make([]*node.Node, 0, len(keys))
	for _, k := range keys {
		n := NewNode(k, tp)
		if err := p.AddNode(n); err != nil {
			panic(err)
		}
		ns = append(ns, n)
	}
	return p, ns
}
