// Package activation drives the REAL hard-fork switch for C43:
// forks are recorded through the real minersc add_hardfork transaction (Chain.UpdateState), and
// cstate.WithActivation / GetRoundByName are called on real state contexts whose block carries the
// probed round; one real gated behaviour (stakepool getRandPools, fork "demeter") is observed as well.
// Behaviours (fork round or none, re-recording, non-owner attempts, probe rounds) come from TLC
// (Gen_Activation.tla).  Trace_Activation.tla judges.
package activation

import (
	"encoding/json"
	"fmt"
	"math/rand"
	"sort"
	"strconv"

	"0chain.net/chaincore/block"
	"0chain.net/chaincore/chain"
	cstate "0chain.net/chaincore/chain/state"
	"0chain.net/chaincore/transaction"
	"0chain.net/smartcontract/stakepool"

	"github.com/0chain/common/core/statecache"

	"verif/harness/common"
	"verif/harness/rec"
	"verif/harness/world"
)

func init() { common.Register("activation", Run) }

type op struct {
	T    string `json:"t"` // "rec" | "probe" | "cold"
	Name string `json:"name"`
	R    int64  `json:"r"`
	By   string `json:"by"`
	// probe: "same" = looked up in the state context of the previous probe (several gated decisions of one
	// transaction, as storagesc makes for demeter and electra), otherwise a new transaction's context
	Ctx string `json:"ctx"`
}

type behaviour struct {
	K   string `json:"k"`
	Ops []op   `json:"ops"`
}

// real fork names: f1 is a fork that gates real code, f2 is never recorded, f3 is a second real fork
// (recorded at another round than f1)
var realName = map[string]string{"f1": "demeter", "f2": "verif_never_recorded", "f3": "electra"}

func permEq(a, b []int) bool { return fmt.Sprint(a) == fmt.Sprint(b) }

// Run replays every behaviour (trace id = line number).
func Run(a common.Args) {
	w := world.New(world.Options{Clients: 2})
	defer w.Close()
	rc := rec.New(a.Out)
	defer rc.Close()
	raw := common.Behaviours(a.Behav)
	if len(raw) == 0 {
		rec.Fatal("activation: no behaviours")
	}
	// the stake pool of the gated behaviour: 4 delegates, 2 to be selected
	sp := stakepool.NewStakePool()
	var dids []string
	for i := 0; i < 4; i++ {
		id := fmt.Sprintf("d%d", i)
		dids = append(dids, id)
		sp.Pools[id] = &stakepool.DelegatePool{DelegateID: id, Balance: 10}
	}
	sort.Strings(dids)
	for i, r := range raw {
		id := i + 1
		if a.Only != 0 && a.Only != id {
			rc.TraceID = id
			continue
		}
		var b behaviour
		if err := json.Unmarshal(r, &b); err != nil {
			rec.Fatal("behaviour %d: %v", id, err)
		}
		rnd := common.TraceRand(a.Seed, id)
		// rounds are base + r; logged relative to base
		base := []int64{0, 1000, 1 << 40}[rnd.Intn(3)]
		// a selection seed for which the two formulas of getRandPools differ
		var selSeed int64
		var before, after []int
		for {
			selSeed = rnd.Int63()
			before = rand.New(rand.NewSource(selSeed)).Perm(2)
			after = rand.New(rand.NewSource(selSeed)).Perm(4)[:2]
			if !permEq(before, after) {
				break
			}
		}
		w.BeginBlock(w.Genesis)
		rc.TraceID = id - 1
		rc.Reset(rec.M{"family": "activation", "id": id, "seed": a.Seed, "behaviour": b, "base": strconv.FormatInt(base, 10)},
			rec.M{"base_class": map[int64]string{0: "zero", 1000: "small", 1 << 40: "large"}[base]})
		// the state context of the running "transaction" of probes, its cache and its round
		var pctx cstate.StateContextI
		var ptc *statecache.TransactionCache
		var pround int64
		endTxn := func() {
			if ptc != nil {
				ptc.Commit() // the transaction succeeded: what it cached goes to the block's cache
			}
			pctx, ptc = nil, nil
		}
		for _, o := range b.Ops {
			if o.T == "cold" {
				// the block is sealed and the node restarts: the next block is executed on an EMPTY state
				// cache, every lookup goes down to the MPT
				endTxn()
				w.EndBlock()
				w.ColdCache()
				w.BeginBlock()
				rc.Emit(rec.M{"ev": "Cold"}, "cold", false)
				continue
			}
			name := realName[o.Name]
			if name == "" {
				rec.Fatal("activation: unknown fork name %q", o.Name)
			}
			switch o.T {
			case "rec":
				endTxn()
				from := w.Owner
				if o.By != "owner" {
					from = w.Clients[0]
				}
				in := map[string]interface{}{"fields": map[string]string{name: strconv.FormatInt(base+o.R, 10)}}
				res := w.SC(from, "minersc", "add_hardfork", in, 0, 0)
				cls := "rejected"
				if res.Class == "ok" {
					cls = "ok"
				}
				rc.Emit(rec.M{"ev": "Record", "name": o.Name, "round": o.R, "by": o.By, "res": cls, "class": res.Class},
					"rec/"+o.By+"/"+cls, cls == "ok")
			case "probe":
				ctxKind := "new"
				if o.Ctx == "same" && pctx != nil && pround == o.R {
					ctxKind = "same"
				} else {
					endTxn()
					blk := block.Provider().(*block.Block)
					blk.Round = base + o.R
					blk.MinerID = w.Miners[0].ID
					txn := &transaction.Transaction{}
					ptc = statecache.NewTransactionCache(w.CurCache)
					pctx = w.Chain.NewStateContext(blk, chain.CreateTxnMPT(w.CurState, ptc), txn, nil)
					pround = o.R
				}
				ctx := pctx
				branch := "none"
				err := cstate.WithActivation(ctx, name,
					func() error { branch = "before"; return nil },
					func() error {
						if branch == "before" {
							branch = "both"
						} else {
							branch = "after"
						}
						return nil
					})
				if err != nil {
					branch = "error"
				}
				_, gerr := cstate.GetRoundByName(ctx, name)
				gated := "same"
				if o.Name == "f1" {
					got := stakepool.VerifRandPoolIDs(sp, ctx, selSeed, 2)
					ids := func(p []int) string { return dids[p[0]] + "," + dids[p[1]] }
					switch {
					case len(got) != 2:
						gated = "other"
					case got[0]+","+got[1] == ids(before):
						gated = "before"
					case got[0]+","+got[1] == ids(after):
						gated = "after"
					default:
						gated = "other"
					}
				}
				rc.Emit(rec.M{"ev": "Probe", "name": o.Name, "round": o.R, "branch": branch, "known": gerr == nil, "gated": gated, "ctx": ctxKind},
					fmt.Sprintf("probe/%s/known=%v/gated=%s", branch, gerr == nil, gated), true)
			default:
				rec.Fatal("activation: unknown op %q", o.T)
			}
		}
		endTxn()
		w.EndBlock()
	}
}
