// Package mbstore drives the real magic-block store (property C40):
// round.NewRoundStartingStorage() owned by a real chain.Chain value, used through
// Chain.SetMagicBlock / GetMagicBlock / GetMagicBlockNoOffset / GetLatestMagicBlock /
// GetPrevMagicBlock / PruneRoundStorage and through the store's own Put / Get / GetLatest /
// FindRoundIndex / Prune / GetRounds / Count.
//
//	(1) every non-empty subset of the start universe, every insertion order, then either the full
//	    query sweep, or one prune point (every stored start, one absent round) followed by the
//	    full sweep, a later Put and another sweep;
//	(2) seeded random histories (arbitrary starts, re-puts, prunes through the chain and the store).
package mbstore

import (
	"sort"
	"strconv"
	"strings"

	"0chain.net/chaincore/block"
	"0chain.net/chaincore/chain"
	"0chain.net/chaincore/round"
	"github.com/0chain/common/core/logging"
	"go.uber.org/zap"

	"verif/harness/common"
	"verif/harness/rec"
)

func init() { common.Register("mbstore", Run) }

type sys struct {
	rc       *rec.Recorder
	c        *chain.Chain
	st       round.RoundStorage
	ids      map[*block.MagicBlock]int
	next     int
	sentinel *block.MagicBlock
	pruned   int64 // highest successfully pruned point, -1 if none
	dead     bool  // Chain.GetMagicBlock panicked: it holds its read lock for ever, the chain value is unusable
}

func newSys(rc *rec.Recorder) *sys {
	s := &sys{rc: rc, ids: map[*block.MagicBlock]int{}, pruned: -1}
	s.c = &chain.Chain{}
	s.c.MagicBlockStorage = round.NewRoundStartingStorage()
	s.st = s.c.MagicBlockStorage
	s.sentinel = &block.MagicBlock{MagicBlockNumber: -1, StartingRound: -1}
	s.c.PreviousMagicBlock = s.sentinel
	return s
}

func (s *sys) idOf(x interface{}) int {
	if x == nil {
		return 0
	}
	mb, ok := x.(*block.MagicBlock)
	if !ok {
		return -2
	}
	if mb == nil {
		return 0
	}
	if mb == s.sentinel {
		return -1
	}
	if id, ok := s.ids[mb]; ok {
		return id
	}
	return -2
}

func guard(f func()) (panicked bool) {
	defer func() {
		if r := recover(); r != nil {
			panicked = true
		}
	}()
	f()
	return
}

func (s *sys) rounds() []int64 {
	r := s.st.GetRounds()
	if r == nil {
		r = []int64{}
	}
	return r
}

func (s *sys) put(start int64, viaChain bool) {
	if s.dead {
		return
	}
	s.next++
	mb := &block.MagicBlock{MagicBlockNumber: int64(s.next), StartingRound: start}
	s.ids[mb] = s.next
	var err error
	via := "store"
	pan := guard(func() {
		if viaChain {
			via = "chain"
			s.c.SetMagicBlock(mb)
		} else {
			err = s.st.Put(mb, start)
		}
	})
	s.rc.Emit(rec.M{"ev": "Put", "r": start, "e": s.next, "via": via, "err": err != nil, "panic": pan,
		"rounds": s.rounds(), "count": s.st.Count()}, via, true)
}

// pruneStore calls the store's Prune(p).
func (s *sys) pruneStore(p int64) {
	if s.dead {
		return
	}
	var err error
	before := len(s.rounds())
	pan := guard(func() { err = s.st.Prune(p) })
	if err == nil && !pan && p > s.pruned {
		s.pruned = p
	}
	shape := "store/ok"
	if err != nil {
		shape = "store/notfound"
	}
	after := s.rounds()
	s.rc.Emit(rec.M{"ev": "Prune", "p": p, "via": "store", "target": 0, "err": err != nil, "panic": pan,
		"rounds": after, "count": s.st.Count()}, shape, len(after) != before)
}

// pruneChain calls Chain.PruneRoundStorage keeping `target` entries; the pruned point is the one the
// chain computes: rounds[count-target-1].
func (s *sys) pruneChain(target int) {
	if s.dead {
		return
	}
	rs := s.rounds()
	p := int64(-1)
	if target > 0 && len(rs) > target {
		p = rs[len(rs)-target-1]
	}
	pan := guard(func() {
		s.c.PruneRoundStorage(func(round.RoundStorage) int { return target }, s.st)
	})
	after := s.rounds()
	if len(after) != len(rs) && p > s.pruned {
		s.pruned = p
	}
	shape := "chain/ok"
	if p == -1 {
		shape = "chain/nothing"
	}
	s.rc.Emit(rec.M{"ev": "Prune", "p": p, "via": "chain", "target": target, "err": false, "panic": pan,
		"rounds": after, "count": s.st.Count()}, shape, len(after) != len(rs))
}

func cls(e int) string {
	switch {
	case e == 0:
		return "nil"
	case e == -1:
		return "prev"
	case e < 0:
		return "unknown"
	}
	return "mb"
}

func (s *sys) query(kind string, q int64) {
	if s.dead {
		return
	}
	var e int
	var idx int
	var pan bool
	switch kind {
	case "Get":
		pan = guard(func() { e = s.idOf(s.st.Get(q)) })
	case "Latest":
		pan = guard(func() { e = s.idOf(s.st.GetLatest()) })
	case "Find":
		pan = guard(func() { idx = s.st.FindRoundIndex(q) })
		s.rc.Emit(rec.M{"ev": "Find", "q": q, "idx": idx, "panic": pan}, "idx", false)
		return
	case "GMB":
		if s.st.Count() == 0 {
			return // GetMagicBlock panics on an empty store while holding its read lock: outside the property
		}
		pan = guard(func() { e = s.idOf(s.c.GetMagicBlock(q)) })
		s.dead = pan // the event is logged (and rejected by C40_Floor); the rest of the trace is skipped
	case "GMBNoOff":
		pan = guard(func() { e = s.idOf(s.c.GetMagicBlockNoOffset(q)) })
	case "GLMB":
		pan = guard(func() { e = s.idOf(s.c.GetLatestMagicBlock()) })
	case "GPMB":
		pan = guard(func() { e = s.idOf(s.c.GetPrevMagicBlock(q)) })
	}
	s.rc.Emit(rec.M{"ev": kind, "q": q, "e": e, "panic": pan}, cls(e), false)
}

func (s *sys) sweep(hi int64, full bool) {
	for q := int64(0); q <= hi; q++ {
		s.query("Get", q)
		s.query("GMB", q)
		s.query("GPMB", q)
		if full {
			s.query("Find", q)
			s.query("GMBNoOff", q)
		}
	}
	s.query("Latest", 0)
	s.query("GLMB", 0)
}

func (s *sys) mini(start int64) {
	v := int64(chain.ViewChangeOffset)
	for _, q := range []int64{start - 1, start, start + 1, start + v - 1, start + v, start + v + 1} {
		if q < 0 {
			continue
		}
		s.query("Get", q)
		s.query("Find", q)
		s.query("GMB", q)
		s.query("GPMB", q)
	}
}

func permutations(xs []int64) [][]int64 {
	if len(xs) <= 1 {
		return [][]int64{append([]int64{}, xs...)}
	}
	var out [][]int64
	for i := range xs {
		rest := append(append([]int64{}, xs[:i]...), xs[i+1:]...)
		for _, p := range permutations(rest) {
			out = append(out, append([]int64{xs[i]}, p...))
		}
	}
	return out
}

func parseStarts(extra string) []int64 {
	u := []int64{0, 5, 10, 15}
	for _, kv := range strings.Split(extra, ",") {
		if strings.HasPrefix(kv, "starts=") {
			u = nil
			for _, x := range strings.Split(strings.TrimPrefix(kv, "starts="), "/") {
				n, err := strconv.ParseInt(x, 10, 64)
				if err != nil {
					rec.Fatal("mbstore: bad starts %q", kv)
				}
				u = append(u, n)
			}
		} else if kv != "" {
			rec.Fatal("mbstore: unknown --extra item %q", kv)
		}
	}
	sort.Slice(u, func(i, j int) bool { return u[i] < u[j] })
	return u
}

// Run is the driver entry point.
func Run(a common.Args) {
	if logging.Logger == nil {
		logging.Logger = zap.NewNop()
	}
	rc := rec.New(a.Out)
	defer rc.Close()
	u := parseStarts(a.Extra)
	vco := int64(chain.ViewChangeOffset)
	hi := u[len(u)-1] + vco + 3
	absent := int64(7)
	for _, x := range u {
		if x == absent {
			absent = u[len(u)-1] + 1
		}
	}

	id := 0
	begin := func(kind string, sc rec.M) *sys {
		rc.TraceID = id - 1
		sc["family"], sc["kind"], sc["id"], sc["seed"] = "mbstore", kind, id, a.Seed
		rc.Reset(sc, rec.M{"vco": vco})
		return newSys(rc)
	}

	// (1) every subset, every insertion order, every prune point
	for mask := 1; mask < 1<<len(u); mask++ {
		var sub []int64
		for i, x := range u {
			if mask&(1<<i) != 0 {
				sub = append(sub, x)
			}
		}
		for _, order := range permutations(sub) {
			// prune points: none (-1), every stored start, one absent round
			pts := append([]int64{-1}, sub...)
			pts = append(pts, absent)
			for _, p := range pts {
				id++
				if a.Only != 0 && a.Only != id {
					rc.TraceID = id
					continue
				}
				s := begin("exhaustive", rec.M{"order": order, "prune": p})
				for i, st := range order {
					s.put(st, (i+id)%2 == 0)
					if i < len(order)-1 {
						s.mini(st)
					}
				}
				if p == -1 {
					s.sweep(hi, true)
					s.put(order[0], true) // replace the entity of an existing start
					s.mini(order[0])
					continue
				}
				newer := 0
				for _, x := range sub {
					if x > p {
						newer++
					}
				}
				stored := false
				for _, x := range sub {
					stored = stored || x == p
				}
				if stored && newer >= 1 && (id%3 != 0) {
					s.pruneChain(newer) // the chain keeps the `newer` newest entries = prunes up to p
				} else {
					s.pruneStore(p)
				}
				s.sweep(hi, id%4 == 0)
				// a later magic block (and, while the newest entry is still there, an older one again)
				s.put(u[len(u)-1]+5, true)
				s.mini(u[len(u)-1] + 5)
				if s.st.Count() > 1 && p >= 1 {
					s.put(p-1, false)
					s.mini(p - 1)
				}
			}
		}
	}
	rc.Extra["x_exhaustive_traces"] = id

	// (2) seeded random histories
	for i := 0; i < a.N; i++ {
		id++
		if a.Only != 0 && a.Only != id {
			rc.TraceID = id
			continue
		}
		r := common.TraceRand(a.Seed, id)
		s := begin("random", rec.M{"steps": a.Steps})
		span := int64(10 + r.Intn(50))
		for k := 0; k < a.Steps; k++ {
			rs := s.rounds()
			switch x := r.Intn(100); {
			case x < 30 || len(rs) == 0:
				st := r.Int63n(span)
				if len(rs) > 0 && r.Intn(4) == 0 {
					st = rs[r.Intn(len(rs))] // re-put
				}
				if len(rs) == 0 && st <= s.pruned {
					st = s.pruned + 1 + r.Int63n(5) // assumption: nothing is stored at or below the point the newest entry was pruned at
				}
				s.put(st, r.Intn(2) == 0)
			case x < 36:
				s.pruneStore(rs[r.Intn(len(rs))])
			case x < 38:
				s.pruneStore(r.Int63n(span))
			case x < 46:
				s.pruneChain(r.Intn(len(rs) + 2))
			default:
				q := r.Int63n(span + 12)
				if r.Intn(3) == 0 && len(rs) > 0 {
					q = rs[r.Intn(len(rs))] + int64(r.Intn(7)) - 1
					if q < 0 {
						q = 0
					}
				}
				kinds := []string{"Get", "Find", "GMB", "GMBNoOff", "GPMB", "Latest", "GLMB"}
				s.query(kinds[r.Intn(len(kinds))], q)
			}
		}
		s.sweep(span+8, true)
	}
}
