// Package blockdb drives the real sharder/blockdb.BlockDB and the real sharder/blockstore (property C26).
//
// (a) block database: for every subset (size <= maxn) of a 6-element ordered key set (+ seeded random
// bigger ones) a real database is built (NewBlockDB, Create, WriteData, Save), reopened and EVERY key of
// the universe is read: the written ones and the absent ones below / between / above them.  The files
// are also copied the way a process crash would have left them (the .dat cut at every write boundary and
// at midpoints with no .idx; the complete .dat with the .idx cut at every write boundary and at
// midpoints) and opened / read again.  Every Open and Read runs in a CHILD PROCESS under a 2 s watchdog:
// a call that does not return is logged as "hang" and the child is killed.
//
// (b) block store: blocks produced by a real chain (world) are written to and read from the real
// blockstore.BlockStore, without and with the uncompressed cache; digests of the whole block, header,
// transactions, outputs and magic block are logged.
package blockdb

import (
	"encoding/json"
	"fmt"
	"hash/crc32"
	"io"
	"math/rand"
	"os"
	"os/exec"
	"path/filepath"
	"sort"
	"strconv"
	"strings"
	"sync"
	"time"

	"0chain.net/core/common"
	bdb "0chain.net/sharder/blockdb"

	hc "verif/harness/common"
	"verif/harness/rec"
)

func init() { hc.Register("blockdb", Run) }

const keyLen = 4

// universe: index 0 = below every stored key, 1..6 = the keys that may be written, 7 = above
func keyOf(i int) bdb.Key { return bdb.Key(fmt.Sprintf("k%02d0", i)) }
func indexOf(k bdb.Key) int {
	s := string(k)
	if len(s) != keyLen || s[0] != 'k' {
		return -1
	}
	n, err := strconv.Atoi(s[1:3])
	if err != nil {
		return -1
	}
	return n
}

// Rec is the record type (msgpack through the repository's codec).
type Rec struct {
	ID      string `json:"id"`
	Ver     int    `json:"ver"`
	Payload []byte `json:"payload"`
}

func (r *Rec) GetKey() bdb.Key { return bdb.Key(r.ID) }
func (r *Rec) Encode(w io.Writer) error {
	_, err := common.ToMsgpack(r).WriteTo(w)
	return err
}
func (r *Rec) Decode(rd io.Reader) error { return common.FromMsgpack(rd, r) }

// Hdr is the db header.
type Hdr struct {
	Note  string `json:"note"`
	Count int    `json:"count"`
}

func (h *Hdr) Encode(w io.Writer) error {
	_, err := common.ToMsgpack(h).WriteTo(w)
	return err
}
func (h *Hdr) Decode(rd io.Reader) error { return common.FromMsgpack(rd, h) }

func sum(b []byte) int { return int(crc32.ChecksumIEEE(b) & 0xFFFFFFF) }

// ---------------------------------------------------------------- child process: Open / Read under a watchdog

type task struct {
	ID       int    `json:"id"`
	File     string `json:"file"` // db file name without extension
	Compress bool   `json:"compress"`
	Hdr      bool   `json:"hdr"`
	Read     bool   `json:"read"` // false: Open only
	Key      string `json:"key"`
}

type result struct {
	ID   int    `json:"id"`
	Open string `json:"open"` // ok | error | panic
	Res  string `json:"res"`  // ok | notfound | error | panic   ("" for Open only)
	RK   int    `json:"rk"`
	RVer int    `json:"rver"`
	RSum int    `json:"rsum"`
	Done bool   `json:"done"`
}

func runTask(t task) (res result) {
	res.ID = t.ID
	res.RK = -1
	defer func() {
		if r := recover(); r != nil {
			if res.Open == "" {
				res.Open = "panic"
			} else {
				res.Res = "panic"
			}
		}
		res.Done = true
	}()
	db, err := bdb.NewBlockDB(t.File, keyLen, t.Compress)
	if err != nil {
		res.Open = "error"
		return
	}
	if t.Hdr {
		db.SetDBHeader(&Hdr{})
	}
	if err := db.Open(); err != nil {
		res.Open = "error"
		return
	}
	res.Open = "ok"
	defer db.Close()
	if !t.Read {
		return
	}
	var r Rec
	switch err := db.Read(bdb.Key(t.Key), &r); {
	case err == nil:
		res.Res, res.RK, res.RVer, res.RSum = "ok", indexOf(bdb.Key(r.ID)), r.Ver, sum(r.Payload)
	case err == bdb.ErrKeyNotFound:
		res.Res = "notfound"
	default:
		res.Res = "error"
	}
	return
}

type jobFile struct {
	Control string `json:"control"` // a small healthy database: the watchdog's yardstick
	Tasks   []task `json:"tasks"`
}

// probeChild: executes the tasks of a job file concurrently under the watchdog: a task is reported
// with done=false if it has not returned after 2 s AND after 300 complete Open+Read cycles of a healthy
// control database performed by a goroutine of the same process since the tasks were started (so that an
// overloaded machine is not mistaken for a hang).  The process then exits, which ends spinning goroutines.
func probeChild(jobPath string, watchdog time.Duration) {
	raw, err := os.ReadFile(jobPath)
	if err != nil {
		rec.Fatal("probe: %v", err)
	}
	var jf jobFile
	if err := json.Unmarshal(raw, &jf); err != nil {
		rec.Fatal("probe: %v", err)
	}
	tasks := jf.Tasks
	results := make([]result, len(tasks))
	var mu sync.Mutex
	var wg sync.WaitGroup
	for i, t := range tasks {
		results[i] = result{ID: t.ID, RK: -1}
		wg.Add(1)
		go func(i int, t task) {
			defer wg.Done()
			r := runTask(t)
			mu.Lock()
			results[i] = r
			mu.Unlock()
		}(i, t)
	}
	done := make(chan struct{})
	go func() { wg.Wait(); close(done) }()
	control := make(chan struct{})
	go func() {
		ok := 0
		for ok < 300 {
			r := runTask(task{File: jf.Control, Read: true, Key: string(keyOf(1))})
			if r.Res != "ok" {
				rec.Fatal("probe: control database unreadable: %+v", r)
			}
			ok++
		}
		close(control)
	}()
	hard := time.After(120 * time.Second)
	timer := time.After(watchdog)
	select {
	case <-done:
	case <-timer:
		select {
		case <-done:
		case <-control:
		case <-hard:
		}
	}
	mu.Lock()
	out, _ := json.Marshal(results)
	mu.Unlock()
	if err := os.WriteFile(jobPath+".out", out, 0o644); err != nil {
		rec.Fatal("probe: %v", err)
	}
	os.Exit(0)
}

// probe runs the tasks in child processes (batches, a few in parallel) and returns the results by task id.
func probe(scratch string, tasks []task) map[int]result {
	// phase 1: everything, big batches.  phase 2: whatever did not return gets a second chance in small
	// batches (few spinning goroutines per child), so that a slow machine is not mistaken for a hang.
	out := probeOnce(scratch, "p1", tasks, 200, 5)
	var again []task
	for _, t := range tasks {
		if !out[t.ID].Done {
			again = append(again, t)
		}
	}
	if len(again) > 0 {
		for id, r := range probeOnce(scratch, "p2", again, 60, 4) {
			out[id] = r
		}
	}
	return out
}

// controlDB builds (once) a one-record database used as the watchdog's yardstick.
func controlDB(scratch string) string {
	file := filepath.Join(scratch, "control", "db")
	if fileSize(file+".idx") > 0 {
		return file
	}
	must := func(err error) {
		if err != nil {
			rec.Fatal("blockdb: control database: %v", err)
		}
	}
	must(os.MkdirAll(filepath.Dir(file), 0o755))
	db, err := bdb.NewBlockDB(file, keyLen, false)
	must(err)
	must(db.Create())
	must(db.WriteData(&Rec{ID: string(keyOf(1)), Ver: 1, Payload: []byte("control")}))
	must(db.Save())
	return file
}

func probeOnce(scratch, tag string, tasks []task, batch, parallel int) map[int]result {
	type job struct {
		file  string
		tasks []task
	}
	var jobs []job
	// spread the tasks so that the ones that may spin are not all in one child
	for i := 0; i < len(tasks); i += batch {
		j := i + batch
		if j > len(tasks) {
			j = len(tasks)
		}
		f := filepath.Join(scratch, fmt.Sprintf("job-%s-%d.json", tag, len(jobs)))
		raw, _ := json.Marshal(jobFile{Control: controlDB(scratch), Tasks: tasks[i:j]})
		if err := os.WriteFile(f, raw, 0o644); err != nil {
			rec.Fatal("probe: %v", err)
		}
		jobs = append(jobs, job{f, tasks[i:j]})
	}
	out := map[int]result{}
	var mu sync.Mutex
	sem := make(chan struct{}, parallel)
	var wg sync.WaitGroup
	for _, j := range jobs {
		wg.Add(1)
		sem <- struct{}{}
		go func(j job) {
			defer wg.Done()
			defer func() { <-sem }()
			cmd := exec.Command(os.Args[0], "blockdb", "--out", filepath.Join(scratch, "child"), "--extra", "probe="+j.file)
			cmd.Stdout, cmd.Stderr = io.Discard, io.Discard
			if err := cmd.Start(); err != nil {
				rec.Fatal("probe: cannot start child: %v", err)
			}
			ch := make(chan error, 1)
			go func() { ch <- cmd.Wait() }()
			select {
			case <-ch:
			case <-time.After(150 * time.Second): // the child ends by itself; this is for a wedged child
				_ = cmd.Process.Kill()
				<-ch
			}
			var rs []result
			if raw, err := os.ReadFile(j.file + ".out"); err == nil {
				_ = json.Unmarshal(raw, &rs)
			}
			mu.Lock()
			for _, t := range j.tasks {
				out[t.ID] = result{ID: t.ID, RK: -1}
			}
			for _, r := range rs {
				out[r.ID] = r
			}
			mu.Unlock()
		}(j)
	}
	wg.Wait()
	return out
}

// ---------------------------------------------------------------- building databases and crash copies

type wrec struct {
	k, ver, sum int
	res         string
}

type scenario struct {
	id       int
	kind     string
	keys     []int // write order (indexes 1..6, may repeat)
	compress bool
	hdr      bool
	absent   bool // only the lookups of never-written keys (no crash copies)
	dir      string
	writes   []wrec
	saveRes  string
	datEnds  []int64 // size of the .dat after every write call boundary (len write, data write)
	opens    []*open
}

type open struct {
	crash string // none | dat | idx
	cut   int64
	of    int64
	file  string
	openT int   // task id of the Open-only task
	reads []int // key indexes to read
	readT []int // their task ids
}

func guardS(f func() error) string {
	res := "ok"
	func() {
		defer func() {
			if r := recover(); r != nil {
				res = "panic"
			}
		}()
		if err := f(); err != nil {
			res = "error"
		}
	}()
	return res
}

func copyPrefix(src, dst string, n int64) {
	b, err := os.ReadFile(src)
	if err != nil {
		rec.Fatal("copy %s: %v", src, err)
	}
	if n > int64(len(b)) {
		n = int64(len(b))
	}
	if err := os.WriteFile(dst, b[:n], 0o644); err != nil {
		rec.Fatal("copy: %v", err)
	}
}

func (s *scenario) build(r *rand.Rand) {
	must := func(err error) {
		if err != nil {
			rec.Fatal("blockdb scenario %d: %v", s.id, err)
		}
	}
	must(os.MkdirAll(s.dir, 0o755))
	file := filepath.Join(s.dir, "db")
	db, err := bdb.NewBlockDB(file, keyLen, s.compress)
	must(err)
	must(db.Create())
	if s.hdr {
		db.SetDBHeader(&Hdr{Note: "verif", Count: len(s.keys)})
	}
	vers := map[int]int{}
	for _, k := range s.keys {
		vers[k]++
		n := []int{0, 1, 7, 100, 1500}[r.Intn(5)] + r.Intn(20)
		p := make([]byte, n)
		if r.Intn(2) == 0 {
			r.Read(p)
		} else {
			for i := range p {
				p[i] = byte('a' + i%3) // compressible
			}
		}
		rc := &Rec{ID: string(keyOf(k)), Ver: vers[k], Payload: p}
		before := fileSize(file + ".dat")
		res := guardS(func() error { return db.WriteData(rc) })
		after := fileSize(file + ".dat")
		s.writes = append(s.writes, wrec{k, vers[k], sum(p), res})
		if after > before+4 {
			s.datEnds = append(s.datEnds, before+4, after)
		} else {
			s.datEnds = append(s.datEnds, after)
		}
	}
	if s.absent {
		s.saveRes = guardS(func() error { return db.Save() })
		var abs []int
		for k := 0; k <= 7; k++ {
			if vers[k] == 0 {
				abs = append(abs, k)
			}
		}
		s.opens = []*open{{crash: "none", cut: fileSize(file + ".idx"), of: fileSize(file + ".idx"), file: file, reads: abs}}
		return
	}
	// the files as a crash during the writes left them: copied before Save creates the .idx
	datFull := fileSize(file + ".dat")
	cuts := map[int64]bool{0: true}
	prev := int64(0)
	for _, e := range s.datEnds {
		cuts[e] = true
		cuts[(prev+e)/2] = true
		prev = e
	}
	delete(cuts, datFull) // = "crash between the last write and Save", kept as the cut at full size below
	var cs []int64
	for c := range cuts {
		cs = append(cs, c)
	}
	cs = append(cs, datFull)
	sort.Slice(cs, func(i, j int) bool { return cs[i] < cs[j] })
	for i, c := range cs {
		f := filepath.Join(s.dir, fmt.Sprintf("crash-dat-%d", i))
		copyPrefix(file+".dat", f+".dat", c)
		s.opens = append(s.opens, &open{crash: "dat", cut: c, of: datFull, file: f})
	}
	s.saveRes = guardS(func() error { return db.Save() })
	// normal reopen: every written key (the never-written ones are looked up in the "absent" traces)
	var pres []int
	for k := 0; k <= 7; k++ {
		if vers[k] > 0 {
			pres = append(pres, k)
		}
	}
	s.opens = append([]*open{{crash: "none", cut: fileSize(file + ".idx"), of: fileSize(file + ".idx"), file: file, reads: pres}}, s.opens...)
	// the files as a crash during Save left them: complete .dat, .idx cut at every write boundary + midpoints
	idxFull := fileSize(file + ".idx")
	nkeys := len(vers)
	entry := int64(1 + keyLen + 8)
	bounds := []int64{0, 4}
	for i := 1; i <= nkeys; i++ {
		bounds = append(bounds, 4+entry*int64(i)) // the index entries are one write; entry ends are interesting cuts all the same
	}
	icuts := map[int64]bool{}
	prev = 0
	for _, b := range bounds {
		if b < idxFull {
			icuts[b] = true
		}
		if m := (prev + b) / 2; m < idxFull {
			icuts[m] = true
		}
		prev = b
	}
	if s.hdr && idxFull > prev {
		icuts[(prev+idxFull)/2] = true
		icuts[idxFull-1] = true
	}
	cs = cs[:0]
	for c := range icuts {
		cs = append(cs, c)
	}
	sort.Slice(cs, func(i, j int) bool { return cs[i] < cs[j] })
	written := []int{}
	for k := range vers {
		written = append(written, k)
	}
	sort.Ints(written)
	for i, c := range cs {
		f := filepath.Join(s.dir, fmt.Sprintf("crash-idx-%d", i))
		copyPrefix(file+".dat", f+".dat", datFull)
		copyPrefix(file+".idx", f+".idx", c)
		s.opens = append(s.opens, &open{crash: "idx", cut: c, of: idxFull, file: f, reads: written})
	}
}

func fileSize(p string) int64 {
	st, err := os.Stat(p)
	if err != nil {
		return 0
	}
	return st.Size()
}

func shapeOfRead(written map[int]bool, k int, res string) string {
	pos := "present"
	if !written[k] {
		lo, hi := 99, -1
		for w := range written {
			if w < lo {
				lo = w
			}
			if w > hi {
				hi = w
			}
		}
		switch {
		case k < lo:
			pos = "absent-below"
		case k > hi:
			pos = "absent-above"
		default:
			pos = "absent-between"
		}
	}
	return pos + "/" + res
}

func extraInt(extra, k string, def int) int {
	for _, kv := range strings.Split(extra, ",") {
		if strings.HasPrefix(kv, k+"=") {
			n, err := strconv.Atoi(strings.TrimPrefix(kv, k+"="))
			if err != nil {
				rec.Fatal("blockdb: bad --extra %q", kv)
			}
			return n
		}
	}
	return def
}

func extraStr(extra, k string) string {
	for _, kv := range strings.Split(extra, ",") {
		if strings.HasPrefix(kv, k+"=") {
			return strings.TrimPrefix(kv, k+"=")
		}
	}
	return ""
}

// Run is the driver entry point.
func Run(a hc.Args) {
	if jf := extraStr(a.Extra, "probe"); jf != "" {
		probeChild(jf, 2*time.Second)
		return
	}
	rc := rec.New(a.Out)
	defer rc.Close()
	base := os.Getenv("VERIF_TMP")
	if base == "" {
		base = os.TempDir()
	}
	scratch, err := os.MkdirTemp(base, "vblockdb-")
	if err != nil {
		rec.Fatal("blockdb: %v", err)
	}
	defer os.RemoveAll(scratch)
	maxn := extraInt(a.Extra, "maxn", 3)

	// ------------------------------------------------------------ (a) scenarios
	// traces 1..nA: one database each: written keys read back, every crash copy.
	// traces nA+1..nA+3 ("absent" groups): the same databases again, each followed by the lookups of every
	// key that was never written (below / between / above the stored keys).
	type keyset struct {
		kind string
		keys []int
	}
	var sets []keyset
	for mask := 1; mask < 1<<6; mask++ {
		var sub []int
		for i := 0; i < 6; i++ {
			if mask&(1<<i) != 0 {
				sub = append(sub, i+1)
			}
		}
		if len(sub) > maxn {
			continue
		}
		// write order: ascending, descending or rotated, by scenario
		switch mask % 3 {
		case 1:
			sort.Sort(sort.Reverse(sort.IntSlice(sub)))
		case 2:
			sub = append(sub[len(sub)/2:], sub[:len(sub)/2]...)
		}
		sets = append(sets, keyset{"subset", sub})
	}
	nSubset := len(sets)
	for i := 0; i < a.N; i++ { // seeded random: more records, repeated keys
		r := hc.TraceRand(a.Seed, len(sets)+1)
		n := 1 + r.Intn(8)
		keys := make([]int, n)
		for j := range keys {
			keys[j] = 1 + r.Intn(6)
		}
		sets = append(sets, keyset{"random", keys})
	}
	nA := len(sets)
	mk := func(id, n int, ks keyset, absent bool) *scenario {
		return &scenario{id: id, kind: ks.kind, keys: ks.keys, compress: n%3 == 1, hdr: n%3 != 2, absent: absent,
			dir: filepath.Join(scratch, fmt.Sprintf("s%d-%d", id, n))}
	}
	var scs []*scenario // in trace order
	for i, ks := range sets {
		if a.Only == 0 || a.Only == i+1 {
			scs = append(scs, mk(i+1, i+1, ks, false))
		}
	}
	groupOf := func(ks keyset) int { // 1: subsets of <= 2 keys, 2: bigger subsets, 3: random
		switch {
		case ks.kind == "random":
			return 3
		case len(ks.keys) <= 2:
			return 1
		}
		return 2
	}
	for g := 1; g <= 3; g++ {
		if a.Only != 0 && a.Only != nA+g {
			continue
		}
		for i, ks := range sets {
			if groupOf(ks) == g {
				scs = append(scs, mk(nA+g, i+1, ks, true))
			}
		}
	}
	nDB := nA + 3
	var tasks []task
	for _, s := range scs {
		s.build(hc.TraceRand(a.Seed, len(s.dir)*7919+s.id))
		for _, o := range s.opens {
			o.openT = len(tasks)
			tasks = append(tasks, task{ID: o.openT, File: o.file, Compress: s.compress, Hdr: s.hdr})
			for _, k := range o.reads {
				o.readT = append(o.readT, len(tasks))
				tasks = append(tasks, task{ID: len(tasks), File: o.file, Compress: s.compress, Hdr: s.hdr, Read: true, Key: string(keyOf(k))})
			}
		}
	}
	// interleave so that each child gets a mix of scenarios
	order := rand.New(rand.NewSource(a.Seed)).Perm(len(tasks))
	shuffled := make([]task, len(tasks))
	for i, j := range order {
		shuffled[i] = tasks[j]
	}
	results := probe(scratch, shuffled)

	cls := func(r result, read bool) string {
		if !r.Done {
			return "hang"
		}
		if !read || r.Open != "ok" {
			return r.Open
		}
		return r.Res
	}
	cur := 0
	for _, s := range scs {
		if s.id != cur {
			cur = s.id
			rc.TraceID = s.id - 1
			sc := rec.M{"family": "blockdb", "kind": s.kind, "id": s.id, "seed": a.Seed, "keys": s.keys, "compress": s.compress, "hdr": s.hdr}
			if s.absent {
				sc = rec.M{"family": "blockdb", "kind": "absent-keys", "id": s.id, "seed": a.Seed, "group": s.id - nA}
			}
			rc.Reset(sc, rec.M{"mode": "blockdb"})
		}
		rc.Emit(rec.M{"ev": "BNew", "keys": s.keys, "compress": s.compress, "hdr": s.hdr}, "db", false)
		written := map[int]bool{}
		for _, w := range s.writes {
			rc.Emit(rec.M{"ev": "BWrite", "k": w.k, "ver": w.ver, "sum": w.sum, "res": w.res}, w.res, true)
			written[w.k] = true
		}
		rc.Emit(rec.M{"ev": "BSave", "res": s.saveRes}, s.saveRes, true)
		for _, o := range s.opens {
			or := cls(results[o.openT], false)
			rc.Emit(rec.M{"ev": "BOpen", "crash": o.crash, "cut": o.cut, "of": o.of, "res": or}, o.crash+"/"+or, false)
			if or != "ok" {
				continue
			}
			for i, k := range o.reads {
				r := results[o.readT[i]]
				res := cls(r, true)
				rc.Emit(rec.M{"ev": "BRead", "k": k, "res": res, "rk": r.RK, "rver": r.RVer, "rsum": r.RSum},
					o.crash+"/"+shapeOfRead(written, k, res), false)
			}
		}
	}
	rc.TraceID = nDB
	rc.Extra["x_subset_scenarios"] = nSubset
	rc.Extra["x_probe_tasks"] = len(tasks)

	// ------------------------------------------------------------ (b) block store
	runBlockStore(a, rc, scratch, nDB)

	// ------------------------------------------------------------ (c) large databases
	runLarge(a, rc, scratch)
}

// runLarge: databases whose index is larger than common buffer sizes (several hundred records): every
// written key is read back after reopening, and absent keys below / between / above are looked up.
// Keys are the integers 1000 + 3*i (4 characters); the trace uses the integer as `k`.
func runLarge(a hc.Args, rc *rec.Recorder, scratch string) {
	sizes := []int{330, 700}
	if a.Tier == "thorough" {
		sizes = append(sizes, 57, 1500, 2500)
	}
	for j, n := range sizes {
		id := rc.TraceID + 1
		if a.Only != 0 && a.Only != id {
			rc.TraceID = id
			continue
		}
		r := hc.TraceRand(a.Seed, 900000+id)
		compress, hdr := j%2 == 1, j%3 != 2
		rc.Reset(rec.M{"family": "blockdb", "kind": "large", "id": id, "seed": a.Seed, "n": n}, rec.M{"mode": "blockdb"})
		rc.Emit(rec.M{"ev": "BNew", "keys": []int{n}, "compress": compress, "hdr": hdr}, "db-large", false)
		file := filepath.Join(scratch, fmt.Sprintf("large-%d", id))
		db, err := bdb.NewBlockDB(file, keyLen, compress)
		if err != nil {
			rec.Fatal("large: %v", err)
		}
		if err := db.Create(); err != nil {
			rec.Fatal("large: %v", err)
		}
		if hdr {
			db.SetDBHeader(&Hdr{Note: "verif-large", Count: n})
		}
		keyS := func(k int) string { return fmt.Sprintf("%04d", k) }
		var keys []int
		for i := 0; i < n; i++ {
			keys = append(keys, 1000+3*i)
		}
		r.Shuffle(len(keys), func(x, y int) { keys[x], keys[y] = keys[y], keys[x] })
		for _, k := range keys {
			pl := make([]byte, r.Intn(40))
			r.Read(pl)
			res := guardS(func() error { return db.WriteData(&Rec{ID: keyS(k), Ver: 1, Payload: pl}) })
			rc.Emit(rec.M{"ev": "BWrite", "k": k, "ver": 1, "sum": sum(pl), "res": res}, "large/"+res, true)
		}
		sres := guardS(func() error { return db.Save() })
		rc.Emit(rec.M{"ev": "BSave", "res": sres}, "large/"+sres, true)
		// reopen with a fresh object, as a restarted sharder would
		db2, err := bdb.NewBlockDB(file, keyLen, compress)
		if err != nil {
			rec.Fatal("large: %v", err)
		}
		if hdr {
			db2.SetDBHeader(&Hdr{})
		}
		ores := guardS(func() error { return db2.Open() })
		rc.Emit(rec.M{"ev": "BOpen", "crash": "none", "cut": 0, "of": 0, "res": ores}, "large/none/"+ores, false)
		if ores != "ok" {
			continue
		}
		look := append([]int{}, keys...)
		look = append(look, 999, 1001, 1002, 1000+3*n, 9999, 1000+3*(n/2)+1)
		for _, k := range look {
			type rr struct {
				res        string
				rk, rv, rs int
			}
			ch := make(chan rr, 1)
			go func(k int) {
				var rcd Rec
				out := rr{rk: -1}
				defer func() {
					if p := recover(); p != nil {
						out.res = "panic"
					}
					ch <- out
				}()
				switch err := db2.Read(bdb.Key(keyS(k)), &rcd); {
				case err == nil:
					n, _ := strconv.Atoi(rcd.ID)
					out = rr{"ok", n, rcd.Ver, sum(rcd.Payload)}
				case err == bdb.ErrKeyNotFound:
					out.res = "notfound"
				default:
					out.res = "error"
				}
			}(k)
			var got rr
			select {
			case got = <-ch:
			case <-time.After(20 * time.Second):
				got = rr{res: "hang", rk: -1}
			}
			rc.Emit(rec.M{"ev": "BRead", "k": k, "res": got.res, "rk": got.rk, "rver": got.rv, "rsum": got.rs}, "large/read/"+got.res, false)
			if got.res == "hang" {
				break
			}
		}
		db2.Close()
	}
}
