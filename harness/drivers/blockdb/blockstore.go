package blockdb

import (
	"encoding/json"
	"fmt"
	"os"
	"path/filepath"
	"time"

	"0chain.net/chaincore/block"
	"0chain.net/chaincore/transaction"
	"0chain.net/core/viper"
	"0chain.net/sharder/blockstore"

	hc "verif/harness/common"
	"verif/harness/rec"
	"verif/harness/world"
)

type digests struct{ all, hdr, txn, out, mb int }

func jsonOf(v interface{}) []byte {
	b, err := json.Marshal(v)
	if err != nil {
		return []byte("marshal-error:" + err.Error())
	}
	return b
}

// digest projects a block on the components C26 names: the whole block, its header, its transactions,
// their outputs, its magic block (small integers for TLC).
func digest(b *block.Block) digests {
	var d digests
	d.all = sum(jsonOf(b))
	hdr := fmt.Sprintf("%v|%v|%v|%v|%v|%v|%v|%v|%v|%v|%x|%v|%v|%v|%v|%v|%d|%d",
		b.Version, b.CreationDate, b.LatestFinalizedMagicBlockHash, b.LatestFinalizedMagicBlockRound, b.PrevHash,
		b.MinerID, b.Round, b.RoundRandomSeed, b.RoundTimeoutCount, b.Hash, []byte(b.ClientStateHash), b.Signature,
		b.ChainID, b.RunningTxnCount, b.StateChangesCount, len(b.Txns), len(b.PrevBlockVerificationTickets), len(b.VerificationTickets))
	hdr += string(jsonOf(b.PrevBlockVerificationTickets)) + string(jsonOf(b.VerificationTickets))
	d.hdr = sum([]byte(hdr))
	var txn, out string
	for _, t := range b.Txns {
		txn += fmt.Sprintf("%v|%v|%v|%v|%v|%v|%v|%v|%v|%v|%v|%v;", t.Hash, t.Version, t.ClientID, t.PublicKey, t.ToClientID, t.ChainID,
			t.TransactionData, t.Value, t.Signature, t.CreationDate, t.Fee, t.Nonce) + fmt.Sprint(t.TransactionType)
		out += fmt.Sprintf("%v|%v|%v;", t.TransactionOutput, t.OutputHash, t.Status)
	}
	d.txn, d.out = sum([]byte(txn)), sum([]byte(out))
	if b.MagicBlock != nil {
		d.mb = sum(jsonOf(b.MagicBlock))
	}
	return d
}

// runBlockStore: (b) of C26.
func runBlockStore(a hc.Args, rc *rec.Recorder, scratch string, firstID int) {
	nBlocks := extraInt(a.Extra, "blocks", 6)
	if nBlocks == 0 {
		return
	}
	id := firstID
	ids := []int{id + 1, id + 2}
	if a.Only != 0 && a.Only != ids[0] && a.Only != ids[1] {
		rc.TraceID = ids[1]
		return
	}
	w := world.New(world.Options{Clients: 4, PoorBalances: []uint64{5, 0}})
	defer w.Close()
	r := hc.TraceRand(a.Seed, ids[0])

	// blocks produced by the real chain
	blocks := []*block.Block{w.Genesis}
	keys := append([]*world.Key{}, w.Clients...)
	for n := 1; n < nBlocks; n++ {
		w.BeginBlock()
		ntx := []int{0, 1, 3, 8, 25}[n%5]
		for i := 0; i < ntx; i++ {
			from := keys[r.Intn(len(keys))]
			ts := world.TxnSpec{From: from, Fee: uint64(r.Intn(3))}
			switch r.Intn(5) {
			case 0:
				ts.Type, ts.To, ts.Value = transaction.TxnTypeSend, keys[r.Intn(len(keys))].ID, uint64(r.Intn(50))
			case 1:
				ts.Type, ts.To, ts.Raw = transaction.TxnTypeData, keys[r.Intn(len(keys))].ID, []byte(fmt.Sprintf("note %d", r.Intn(1000)))
			case 2:
				ts.Type, ts.To, ts.Fn, ts.Value = transaction.TxnTypeSmartContract, world.Contracts["faucetsc"], "pour", uint64(1+r.Intn(5))
			case 3:
				ts.Type, ts.To, ts.Fn = transaction.TxnTypeSmartContract, world.Contracts["faucetsc"], "no_such_function"
			default:
				ts.Type, ts.To, ts.Fn, ts.Value = transaction.TxnTypeSmartContract, world.Contracts["faucetsc"], "refill", uint64(r.Intn(4))
			}
			w.Do(ts)
		}
		b := w.EndBlock()
		// populate every header field the way a notarized block carries them (the world leaves them empty)
		b.Signature = w.Miners[0].Sign(b.Hash)
		b.LatestFinalizedMagicBlockHash = w.Genesis.MagicBlock.Hash
		b.LatestFinalizedMagicBlockRound = w.Genesis.Round
		b.RoundTimeoutCount = n % 3
		b.RunningTxnCount = int64(10*n + len(b.Txns))
		b.StateChangesCount = 1 + len(b.Txns)
		for _, m := range w.Miners {
			b.VerificationTickets = append(b.VerificationTickets, &block.VerificationTicket{VerifierID: m.ID, Signature: m.Sign(b.Hash)})
		}
		if prev := blocks[len(blocks)-1]; len(prev.VerificationTickets) > 0 {
			b.PrevBlockVerificationTickets = prev.VerificationTickets
		}
		blocks = append(blocks, b)
	}

	for v, cache := range []bool{false, true} {
		tid := ids[v]
		if a.Only != 0 && a.Only != tid {
			rc.TraceID = tid
			continue
		}
		rc.TraceID = tid - 1
		rc.Reset(rec.M{"family": "blockdb", "kind": "blockstore", "id": tid, "seed": a.Seed, "cache": cache, "blocks": len(blocks)},
			rec.M{"mode": "blockstore", "compress": !cache, "hdr": false})
		dir := filepath.Join(scratch, fmt.Sprintf("bs%d", v))
		if err := os.MkdirAll(dir, 0o755); err != nil {
			rec.Fatal("blockstore: %v", err)
		}
		var sv *viper.Viper
		if cache {
			sv = viper.New()
			sv.Set("cache.path", filepath.Join(dir, "cache"))
			sv.Set("cache.total_blocks", 100)
		}
		blockstore.Init(dir, sv)
		st := blockstore.GetStore()
		for i, b := range blocks {
			d := digest(b)
			res := guardS(func() error { return st.Write(b) })
			shape := "plain"
			if b.MagicBlock != nil {
				shape = "with-magic-block"
			}
			rc.Emit(rec.M{"ev": "SWrite", "b": i, "cache": cache, "res": res, "ntx": len(b.Txns), "hasmb": b.MagicBlock != nil,
				"d_all": d.all, "d_hdr": d.hdr, "d_txn": d.txn, "d_out": d.out, "d_mb": d.mb}, shape, true)
		}
		if cache {
			// the cache is filled by goroutines: wait until the uncompressed copies are there
			deadline := time.Now().Add(3 * time.Second)
			for time.Now().Before(deadline) {
				n := 0
				for _, b := range blocks {
					if fileSize(filepath.Join(dir, "cache", b.Hash)) > 0 {
						n++
					}
				}
				if n == len(blocks) {
					break
				}
				time.Sleep(20 * time.Millisecond)
			}
		}
		read := func(i int, by, hash string) {
			orig := blocks[i]
			var got *block.Block
			res := "hang"
			done := make(chan struct{})
			go func() {
				defer close(done)
				res = guardS(func() error {
					var err error
					got, err = st.Read(hash)
					return err
				})
			}()
			select {
			case <-done:
			case <-time.After(20 * time.Second): // generous: C26 names hangs for the database lookups only
				rc.Emit(rec.M{"ev": "SRead", "b": i, "by": by, "res": "hang", "hash_same": false, "rehash_same": false,
					"d_all": 0, "d_hdr": 0, "d_txn": 0, "d_out": 0, "d_mb": 0}, by+"/hang", false)
				return
			}
			m := rec.M{"ev": "SRead", "b": i, "by": by, "res": res, "hash_same": false, "rehash_same": false,
				"d_all": 0, "d_hdr": 0, "d_txn": 0, "d_out": 0, "d_mb": 0}
			if res == "ok" && got != nil {
				d := digest(got)
				m["hash_same"] = got.Hash == orig.Hash
				m["rehash_same"] = got.ComputeHash() == orig.ComputeHash()
				m["d_all"], m["d_hdr"], m["d_txn"], m["d_out"], m["d_mb"] = d.all, d.hdr, d.txn, d.out, d.mb
			}
			rc.Emit(m, by+"/"+res, false)
		}
		for pass := 0; pass < 2; pass++ { // the second pass reads what the first one put into the cache
			for i, b := range blocks {
				read(i, "hash", b.Hash)
				if b.MagicBlock != nil && b.Round == b.MagicBlock.StartingRound {
					read(i, "mbhash", b.MagicBlock.Hash)
				}
			}
			time.Sleep(50 * time.Millisecond)
		}
	}
}
