package crypto

type vrfScen struct{}

func (d *drv) vrf(s vrfScen, i int) {}
