package crypto

type thrScen struct{}
type vrfScen struct{}

func (d *drv) thr(s thrScen, i int) {}
func (d *drv) vrf(s vrfScen, i int) {}
