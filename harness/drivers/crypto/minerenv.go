package crypto

import (
	"0chain.net/chaincore/chain"
	"0chain.net/core/viper"
	"0chain.net/miner"

	"verif/harness/rec"
	"verif/harness/world"
)

// minerEnv is the real miner chain (miner.Chain) set up on top of the world's real chain.Chain.
type minerEnv struct {
	w  *world.World
	mc *miner.Chain
}

func newMinerEnv(w *world.World) *minerEnv {
	miner.SetupMinerChain(w.Chain)
	mc := miner.GetMinerChain()
	if mc.Chain != w.Chain {
		rec.Fatal("miner chain not bound to the world chain")
	}
	return &minerEnv{w: w, mc: mc}
}

// setBatchSize sets server_chain.block.validation.batch_size the way the node reads it (viper -> ConfigImpl).
func (m *minerEnv) setBatchSize(bs int) {
	viper.Set("server_chain.block.validation.batch_size", bs)
	ci, ok := m.w.Chain.ChainConfig.(*chain.ConfigImpl)
	if !ok {
		rec.Fatal("unexpected chain config type %T", m.w.Chain.ChainConfig)
	}
	if err := ci.FromViper(); err != nil {
		rec.Fatal("config reload: %v", err)
	}
	if m.mc.ValidationBatchSize() != bs {
		rec.Fatal("batch size not applied: %d != %d", m.mc.ValidationBatchSize(), bs)
	}
}
