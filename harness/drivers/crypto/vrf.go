package crypto

import (
	"context"
	"fmt"
	"sort"
	"time"

	"0chain.net/chaincore/round"
	tbls "0chain.net/chaincore/threshold/bls"
	"0chain.net/miner"

	"github.com/herumi/bls-go-binary/bls"

	"verif/harness/rec"
)

// ---------------------------------------------------------------- C33

// vrfScen is one maximal arrival history of spec/VRFSeed.tla (see MC_VRFSeed!GPrint).
type vrfScen struct {
	T        int `json:"t"`
	N        int `json:"n"`
	Arrivals []struct {
		J int    `json:"j"`
		K string `json:"k"`
	} `json:"arrivals"`
}

// realDKG: a real DKG among the first n miners of the magic block, one bls.DKG object per miner, built with
// bls.SetDKG from deterministic polynomials (so the group secret is known to the harness only through the
// library's own key arithmetic).
type realDKG struct {
	dkgs []*tbls.DKG
}

func (d *drv) makeDKG(t, n int) *realDKG {
	w := d.w
	msk := make([][]bls.SecretKey, n)
	mskHex := make([][]string, n)
	mpks := map[tbls.PartyID][]tbls.PublicKey{}
	pid := make([]tbls.PartyID, n)
	for i := 0; i < n; i++ {
		pid[i] = tbls.ComputeIDdkg(w.Miners[i].ID)
		for k := 0; k < t; k++ {
			msk[i] = append(msk[i], detKey(d.r).sec)
			mskHex[i] = append(mskHex[i], msk[i][k].GetHexString())
		}
		mpks[pid[i]] = bls.GetMasterPublicKey(msk[i])
	}
	x := &realDKG{}
	for j := 0; j < n; j++ {
		shares := map[string]string{}
		for i := 0; i < n; i++ {
			var s bls.SecretKey
			must(s.Set(msk[i], &pid[j])) // f_i(id_j), what ComputeDKGKeyShare evaluates
			shares[w.Miners[i].ID] = s.GetHexString()
		}
		// validates every share against the dealers' mpks, aggregates the secret and the public key shares
		x.dkgs = append(x.dkgs, tbls.SetDKG(t, n, shares, mskHex[j], mpks, w.Miners[j].ID))
	}
	return x
}

func (d *drv) vrf(s vrfScen, rep int) {
	mc := d.mc.mc
	w := d.w
	mc.SetCurrentRound(1 << 40) // the miner never proposes / generates for the rounds used here
	x := d.makeDKG(s.T, s.N)
	// round parameters of this trace: previous round with a known seed, the round itself with a timeout count
	rn := int64(1000 + 4*(d.id*8+rep))
	prevSeed := d.r.Int63()
	if prevSeed == 0 {
		prevSeed = 7
	}
	// the timeout count the round really takes (SetTimeoutCount saturates at server_chain.round_timeouts.timeout_cap)
	probe := mc.CreateRound(round.NewRound(rn))
	probe.SetTimeoutCount(d.r.Intn(3))
	toc := probe.GetTimeoutCount()
	pr := mc.CreateRound(round.NewRound(rn - 1))
	pr.SetRandomSeed(prevSeed, len(w.Miners))
	mc.AddRound(pr)

	seeds := map[int64]int{}
	seedID := func(v int64) int {
		if v == 0 {
			return 0
		}
		if seeds[v] == 0 {
			seeds[v] = len(seeds) + 1
		}
		return seeds[v]
	}
	type arrival struct {
		j int
		k string
	}
	view := func(name string, self int, arr []arrival) {
		// the viewing miner's DKG for every round (starting round 0)
		must(mc.SetDKG(x.dkgs[self], 0))
		mr := mc.CreateRound(round.NewRound(rn))
		mr.SetTimeoutCount(toc)
		if mr.GetTimeoutCount() != toc {
			rec.Fatal("timeout count not set")
		}
		msg, err := mc.GetBlsMessageForRound(mr.Round)
		must(err)
		d.rc.Emit(rec.M{"ev": "VrfView", "view": name, "t": s.T, "n": s.N, "round": 0, "toc": toc, "prev": 1},
			"view/"+name, false)
		for _, a := range arr {
			party := w.MinerNodes[a.j-1]
			var share string
			rtc := toc
			switch a.k {
			case "ok":
				share = x.dkgs[a.j-1].Sign(msg).GetHexString()
			case "stale": // a genuine share of the next timeout count
				share = x.dkgs[a.j-1].Sign(fmt.Sprintf("%v%v%x", rn, toc+1, prevSeed)).GetHexString()
				rtc = toc + 1
			case "bad": // altered share
				sg := x.dkgs[a.j-1].Sign(msg)
				var out bls.G1
				bls.G1Add(&out, bls.CastFromSign(sg), randG1(d.r))
				share = bls.CastToSign(&out).GetHexString()
			case "wrongmsg": // j's genuine share of another message, presented for this (round, timeout count)
				share = x.dkgs[a.j-1].Sign(fmt.Sprintf("%v%v%x", rn, toc+1, prevSeed)).GetHexString()
			case "other": // another party's genuine share presented as j's
				share = x.dkgs[a.j%s.N].Sign(msg).GetHexString()
			default:
				rec.Fatal("unknown arrival kind %q", a.k)
			}
			vrfs := &round.VRFShare{Round: rn, Share: share, RoundTimeoutCount: rtc}
			vrfs.SetParty(party)
			ctx, cancel := context.WithTimeout(context.Background(), 20*time.Second)
			accepted := mc.AddVRFShare(ctx, mr, vrfs)
			cancel()
			stored := []int{}
			for id := range mr.GetVRFShares() {
				for k := range w.MinerNodes {
					if w.MinerNodes[k].GetKey() == id {
						stored = append(stored, k+1)
					}
				}
			}
			sort.Ints(stored)
			d.rc.Emit(rec.M{"ev": "VrfAdd", "view": name, "t": s.T, "n": s.N, "j": a.j, "kind": a.k, "accepted": accepted,
				"stored": stored, "has_seed": mr.HasRandomSeed(), "seed_id": seedID(mr.GetRandomSeed()),
				"vrf_output_set": mr.GetVRFOutput() != ""},
				fmt.Sprintf("%s/%s/%v/seed%v", name, a.k, accepted, mr.HasRandomSeed()), accepted)
		}
		mr.CancelVerification()
	}
	var arr []arrival
	for _, a := range s.Arrivals {
		arr = append(arr, arrival{a.J, a.K})
	}
	// view A: the history enumerated by TLC, seen by miner 1
	view("A", 0, arr)
	// view B: another miner (its own DKG object) receives genuine shares of all parties in reverse order
	var rev []arrival
	for j := s.N; j >= 1; j-- {
		rev = append(rev, arrival{j, "ok"})
	}
	view("B", s.N-1, rev)
}

var _ = miner.GetMinerChain
