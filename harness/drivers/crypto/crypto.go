// Package crypto replays the scenarios enumerated by TLC from spec/AggSig.tla (C32),
// spec/ThresholdSig.tla (C34) and spec/VRFSeed.tla (C33) on the real BLS code of /repo:
// core/encryption (aggregate, threshold and split-key schemes), chaincore/threshold/bls (DKG),
// chaincore/block (ShareOrSigns), chaincore/round + miner (VRF shares, round random seed).
package crypto

import (
	"encoding/hex"
	"encoding/json"
	"fmt"
	"math/rand"
	"strings"

	"0chain.net/core/encryption"

	"github.com/0chain/common/core/logging"
	"github.com/herumi/bls-go-binary/bls"
	"go.uber.org/zap"

	vc "verif/harness/common"
	"verif/harness/rec"
	"verif/harness/world"
)

func init() { vc.Register("crypto", Run) }

type drv struct {
	a  vc.Args
	w  *world.World
	rc *rec.Recorder
	r  *rand.Rand
	id int // current trace id
	mc *minerEnv
}

func Run(a vc.Args) {
	rc := rec.New(a.Out)
	defer rc.Close()
	d := &drv{a: a, rc: rc}
	per := a.N
	if per <= 0 {
		per = 1
	}
	switch a.Prop {
	case "C32", "C33":
		// the real chain (miners of the magic block, client cache, miner chain) is needed
		d.w = world.New(world.Options{Clients: 6, Miners: 4, Sharders: 1})
		defer d.w.Close()
		d.mc = newMinerEnv(d.w)
	case "C34":
		// no chain needed; the library code logs through the global logger
		logging.Logger = zap.NewNop()
	default:
		rec.Fatal("crypto: unknown prop %q", a.Prop)
	}
	id := 0
	for _, raw := range vc.Behaviours(a.Behav) {
		id++
		if a.Only != 0 && a.Only != id {
			rc.TraceID = id
			continue
		}
		d.r = vc.TraceRand(a.Seed, id)
		d.id = id
		rc.TraceID = id - 1
		switch a.Prop {
		case "C32":
			var s aggScen
			must(json.Unmarshal(raw, &s))
			rc.Reset(rec.M{"family": "crypto", "kind": "agg", "id": id, "scenario": s}, nil)
			for i := 0; i < per; i++ {
				d.agg(s, i)
			}
		case "C34":
			var s thrScen
			must(json.Unmarshal(raw, &s))
			rc.Reset(rec.M{"family": "crypto", "kind": "thr", "id": id, "scenario": s}, nil)
			for i := 0; i < per; i++ {
				d.thr(s, i)
			}
		case "C33":
			var s vrfScen
			must(json.Unmarshal(raw, &s))
			rc.Reset(rec.M{"family": "crypto", "kind": "vrf", "id": id, "scenario": s}, nil)
			for i := 0; i < per; i++ {
				d.vrf(s, i)
			}
		}
	}
}

func must(err error) {
	if err != nil {
		rec.Fatal("%v", err)
	}
}

// ---------------------------------------------------------------- real keys / group elements

type blsKey struct {
	sec    bls.SecretKey
	scheme *encryption.BLS0ChainScheme // with the private key (signer)
	pub    string
	keys   string // public + private key in the format of ReadKeys / WriteKeys
}

// detKey derives a real BLS key pair from the trace RNG (reproducible traces).
func detKey(r *rand.Rand) *blsKey {
	b := make([]byte, 32)
	r.Read(b)
	b[31] &= 0x0f
	k := &blsKey{}
	must(k.sec.SetLittleEndian(b))
	k.scheme = encryption.NewBLS0ChainScheme()
	keys := hex.EncodeToString(k.sec.GetPublicKey().Serialize()) + "\n" + hex.EncodeToString(k.sec.GetLittleEndian()) + "\n"
	must(k.scheme.ReadKeys(strings.NewReader(keys)))
	k.keys = keys
	k.pub = k.scheme.GetPublicKey()
	return k
}

// verifier returns a scheme object that only knows the public key, as a receiver has it.
func verifier(pub string) *encryption.BLS0ChainScheme {
	v := encryption.NewBLS0ChainScheme()
	must(v.SetPublicKey(pub))
	return v
}

func randHash(r *rand.Rand) string {
	return encryption.Hash(fmt.Sprintf("verif-crypto-msg-%d-%d", r.Int63(), r.Int63()))
}

func randG1(r *rand.Rand) *bls.G1 {
	b := make([]byte, 32)
	r.Read(b)
	var g bls.G1
	must(g.HashAndMapTo(b))
	return &g
}

// addMultiple returns sig + c*D computed with the real group operations.
func addMultiple(sigHex string, c int, D *bls.G1) string {
	if c == 0 {
		return sigHex
	}
	var s bls.Sign
	must(s.DeserializeHexStr(sigHex))
	g := bls.CastFromSign(&s)
	var cd bls.G1
	var k bls.Fr
	if c > 0 {
		k.SetInt64(int64(c))
		bls.G1Mul(&cd, D, &k)
	} else {
		k.SetInt64(int64(-c))
		bls.G1Mul(&cd, D, &k)
		bls.G1Neg(&cd, &cd)
	}
	var out bls.G1
	bls.G1Add(&out, g, &cd)
	return bls.CastToSign(&out).SerializeToHexStr()
}

func bools(n int, v bool) []bool {
	o := make([]bool, n)
	for i := range o {
		o[i] = v
	}
	return o
}
