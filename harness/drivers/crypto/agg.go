package crypto

import (
	"context"
	"fmt"
	"hash/fnv"
	"sort"
	"strings"
	"sync"
	"time"

	"0chain.net/chaincore/block"
	"0chain.net/chaincore/transaction"
	"0chain.net/core/common"
	"0chain.net/core/encryption"

	"github.com/herumi/bls-go-binary/bls"

	"verif/harness/rec"
	"verif/harness/world"
)

// ---------------------------------------------------------------- C32

// aggScen is one reachable scenario of spec/AggSig.tla (see MC_AggSig!GPrint).
type aggScen struct {
	P    int   `json:"p"`
	N    int   `json:"n"`
	Same bool  `json:"same"`
	Bs   int   `json:"bs"`
	Ck   []int `json:"ck"` // claimed key of each position
	Cm   []int `json:"cm"` // claimed message
	Sk   []int `json:"sk"` // key that really signed
	Sm   []int `json:"sm"` // message really signed
	Dl   []int `json:"dl"` // additive error (toy scalar)
}

// lift maps the additive errors in Z_p to integer multiples of one real G1 point so that
// (a) c[i] = dl[i] mod p, c[i] = 0 iff dl[i] = 0, (b) sum(c) = 0 over the integers iff sum(dl) = 0 mod p.
func lift(dl []int, p int) []int {
	c := make([]int, len(dl))
	sum := 0
	for i, d := range dl {
		c[i] = d
		if 2*d > p {
			c[i] = d - p // signed representative: p-1 becomes -1 (sigma_1 + D, sigma_2 - D)
		}
		sum += c[i]
	}
	if sum != 0 && sum%p == 0 {
		for i := range c {
			if c[i] != 0 {
				c[i] -= sum
				break
			}
		}
	}
	return c
}

// pattern names the structural class of the scenario in the REAL group: "valid", "invalid",
// or one of the classes whose errors cancel in the sum of all signatures ("cancel", "swap", "cancel+swap").
func (s aggScen) pattern(c []int) string {
	allok, nd, np, csum := true, 0, 0, 0
	carried, claimed := []string{}, []string{}
	for i := 0; i < s.N; i++ {
		if s.Dl[i] != 0 {
			nd++
		}
		if s.Sk[i] != s.Ck[i] || s.Sm[i] != s.Cm[i] {
			np++
		}
		if s.Dl[i] != 0 || s.Sk[i] != s.Ck[i] || s.Sm[i] != s.Cm[i] {
			allok = false
		}
		csum += c[i]
		carried = append(carried, fmt.Sprintf("%d/%d", s.Sk[i], s.Sm[i]))
		claimed = append(claimed, fmt.Sprintf("%d/%d", s.Ck[i], s.Cm[i]))
	}
	if allok {
		return "valid"
	}
	sort.Strings(carried)
	sort.Strings(claimed)
	if csum != 0 || fmt.Sprint(carried) != fmt.Sprint(claimed) {
		return "invalid"
	}
	switch {
	case np == 0:
		return "cancel" // additive errors that sum to zero (sigma_1 + D, sigma_2 - D, ...)
	case nd == 0:
		return "swap" // genuine signatures attached to each other's positions
	default:
		return "cancel+swap"
	}
}

func (d *drv) agg(s aggScen, rep int) {
	r := d.r
	// real material of this execution: one real key per key scalar, one real hash per message scalar
	keys := map[int]*blsKey{}
	key := func(v int) *blsKey {
		if keys[v] == nil {
			keys[v] = detKey(r)
		}
		return keys[v]
	}
	msgs := map[int]string{}
	msg := func(v int) string {
		if msgs[v] == "" {
			msgs[v] = randHash(r)
		}
		return msgs[v]
	}
	for i := 0; i < s.N; i++ { // fixed creation order
		key(s.Ck[i])
		msg(s.Cm[i])
	}
	for i := 0; i < s.N; i++ {
		key(s.Sk[i])
		msg(s.Sm[i])
	}
	D := randG1(r)
	c := lift(s.Dl, s.P)
	sigs := make([]string, s.N)
	for i := 0; i < s.N; i++ {
		sg, err := key(s.Sk[i]).scheme.Sign(msg(s.Sm[i]))
		must(err)
		sigs[i] = addMultiple(sg, c[i], D)
	}
	// emitFor records the verdicts of one aggregate check of scenario sc (s itself, or s with the keys that the
	// verifier's scheme objects hold in one step of the re-keying sequence); step 0 = a one-shot check
	emitFor := func(sc aggScen, step int) func(via string, aggOK bool, stage string, ind []bool) {
		pat := sc.pattern(c)
		return func(via string, aggOK bool, stage string, ind []bool) {
			m := rec.M{"ev": "AggCheck", "p": sc.P, "n": sc.N, "same": sc.Same, "bs": sc.Bs, "ck": sc.Ck, "cm": sc.Cm,
				"sk": sc.Sk, "sm": sc.Sm, "dl": sc.Dl, "c": c, "pattern": pat, "step": step,
				"via": via, "agg": aggOK, "stage": stage, "ind": ind}
			d.rc.Emit(m, fmt.Sprintf("%s/%s/%v", via, pat, aggOK), aggOK)
		}
	}
	emit := emitFor(s, 0)

	// (1) the scheme, driven exactly as ValidateTransactions drives it
	ind := make([]bool, s.N)
	for i := 0; i < s.N; i++ {
		ok, err := verifier(key(s.Ck[i]).pub).Verify(sigs[i], msg(s.Cm[i]))
		ind[i] = ok && err == nil
	}
	aggOK, stage := aggregateLikeValidateTransactions(s.N, s.Bs, func(i int) (encryption.SignatureScheme, string, string) {
		return verifier(key(s.Ck[i]).pub), sigs[i], msg(s.Cm[i])
	})
	emit("scheme", aggOK, stage, ind)

	// (2) chain.VerifyTickets: one block hash, signers = miners of the magic block (one batch of n)
	if s.Same && s.Bs == s.N && distinct(s.Ck) && d.w != nil && s.N <= len(d.w.Miners) {
		d.tickets(s, c, D, emit)
	}
	// (3) miner.ValidateTransactions: one real transaction per position, batch size from the chain config
	if !s.Same && d.mc != nil {
		d.txns(s, c, D, emit)
	}
	// (4) long-lived scheme objects: one BLS0ChainScheme object per position is aggregated for the position's hash,
	// re-keyed (SetPublicKey / ReadKeys) and aggregated again for the same hash and the same signatures. The keys
	// held in the successive steps: an outsider's key, the key that really signed (sk), the claimed key (ck) - so
	// every object changes identity wherever the scenario has a foreign signer, and at least once in any case.
	// Each step is the scenario with that step's keys as claims: its verdict must equal its own individual verdicts.
	// Quick tier: the sequence runs for one batch size per structural scenario (picked by the seed); thorough: all.
	if d.a.Tier != "thorough" && s.Bs != 1+int((s.structKey()+uint64(d.a.Seed))%uint64(s.N)) {
		return
	}
	objs := make([]*encryption.BLS0ChainScheme, s.N)
	for i := range objs {
		objs[i] = encryption.NewBLS0ChainScheme()
	}
	var steps [][]int
	if q := freeScalar(s); q != 0 {
		steps = append(steps, constants(s.N, q))
	}
	steps = append(steps, s.Sk)
	if len(steps) == 1 || fmt.Sprint(s.Ck) != fmt.Sprint(s.Sk) { // (with no foreign signer the last step changes no key)
		steps = append(steps, s.Ck)
	}
	for k, held := range steps {
		sc := s
		sc.Ck = held
		ind := make([]bool, s.N)
		for i := 0; i < s.N; i++ {
			hk := key(held[i])
			// (an object that holds a private key refuses any further key: ReadKeys only as the last re-keying)
			if k < len(steps)-1 || r.Intn(2) == 0 {
				must(objs[i].SetPublicKey(hk.pub))
			} else {
				must(objs[i].ReadKeys(strings.NewReader(hk.keys)))
			}
			ok, err := verifier(hk.pub).Verify(sigs[i], msg(s.Cm[i]))
			ind[i] = ok && err == nil
		}
		aggOK, stage := aggregateLikeValidateTransactions(s.N, s.Bs, func(i int) (encryption.SignatureScheme, string, string) {
			return objs[i], sigs[i], msg(s.Cm[i])
		})
		emitFor(sc, k+1)("rekey", aggOK, stage, ind)
	}
}

// structKey: a hash of everything in the scenario but the batch size.
func (s aggScen) structKey() uint64 {
	h := fnv.New64a()
	fmt.Fprint(h, s.P, s.N, s.Same, s.Ck, s.Cm, s.Sk, s.Sm, s.Dl)
	return h.Sum64()
}

// freeScalar: a key scalar of the toy group that no position of the scenario uses (0 if there is none).
func freeScalar(s aggScen) int {
	for q := s.P - 1; q >= 1; q-- {
		if !contains(s.Ck, q) && !contains(s.Sk, q) {
			return q
		}
	}
	return 0
}

func constants(n, v int) []int {
	o := make([]int, n)
	for i := range o {
		o[i] = v
	}
	return o
}

func distinct(a []int) bool {
	m := map[int]bool{}
	for _, x := range a {
		if m[x] {
			return false
		}
		m[x] = true
	}
	return true
}

// aggregateLikeValidateTransactions: GetAggregateSignatureScheme(scheme, total, batchSize), one goroutine per
// batch calling Aggregate(sigScheme, start+i, signature, hash) in order, any failure => invalid, then Verify().
func aggregateLikeValidateTransactions(n, bs int, at func(i int) (encryption.SignatureScheme, string, string)) (bool, string) {
	ag := encryption.GetAggregateSignatureScheme(encryption.SignatureSchemeBls0chain, n, bs)
	if ag == nil {
		return false, "no_scheme"
	}
	var wg sync.WaitGroup
	var mu sync.Mutex
	failed := false
	for start := 0; start < n; start += bs {
		end := start + bs
		if end > n {
			end = n
		}
		wg.Add(1)
		go func(start, end int) {
			defer wg.Done()
			for i := start; i < end; i++ {
				ss, sig, h := at(i)
				if err := ag.Aggregate(ss, i, sig, h); err != nil {
					mu.Lock()
					failed = true
					mu.Unlock()
					return
				}
			}
		}(start, end)
	}
	wg.Wait()
	if failed {
		return false, "aggregate"
	}
	if ok, err := ag.Verify(); err != nil || !ok {
		return false, "verify"
	}
	return true, "ok"
}

// world identities standing for the key scalars: claimed signers are miners m1.. (tickets) or
// per-trace clients (transactions); any other scalar is an outsider key.
func (d *drv) tickets(s aggScen, c []int, D *bls.G1, emit func(string, bool, string, []bool)) {
	w := d.w
	signer := func(v int) *world.Key {
		if v >= 1 && v <= len(w.Miners) && contains(s.Ck, v) {
			return w.Miners[v-1]
		}
		return w.NewKey(fmt.Sprintf("agg-out-%d-%d", d.id, v))
	}
	hashes := map[int]string{}
	hash := func(v int) string {
		if hashes[v] == "" {
			hashes[v] = randHash(d.r)
		}
		return hashes[v]
	}
	blockHash := hash(s.Cm[0])
	bvts := make([]*block.VerificationTicket, s.N)
	ind := make([]bool, s.N)
	mb := w.Chain.GetCurrentMagicBlock()
	for i := 0; i < s.N; i++ {
		sg := addMultiple(signer(s.Sk[i]).Sign(hash(s.Sm[i])), c[i], D)
		claimed := signer(s.Ck[i])
		bvts[i] = &block.VerificationTicket{VerifierID: claimed.ID, Signature: sg}
		n := mb.Miners.GetNode(claimed.ID)
		if n == nil {
			rec.Fatal("miner %s not in the magic block", claimed.Name)
		}
		ok, err := n.Verify(sg, blockHash)
		ind[i] = ok && err == nil
	}
	ctx, cancel := context.WithTimeout(context.Background(), 20*time.Second)
	defer cancel()
	err := w.Chain.VerifyTickets(ctx, blockHash, bvts, w.Head.Round+1)
	stage := "ok"
	if err != nil {
		stage = "verify_tickets"
	}
	emit("tickets", err == nil, stage, ind)
}

func contains(a []int, v int) bool {
	for _, x := range a {
		if x == v {
			return true
		}
	}
	return false
}

func (d *drv) txns(s aggScen, c []int, D *bls.G1, emit func(string, bool, string, []bool)) {
	w, mc := d.w, d.mc.mc
	d.mc.setBatchSize(s.Bs)
	clients := map[int]*world.Key{}
	client := func(v int) *world.Key {
		if clients[v] == nil {
			clients[v] = w.NewKey(fmt.Sprintf("agg-c-%d-%d-%d", d.a.Seed, d.id, v))
		}
		return clients[v]
	}
	now := common.Now()
	b := block.NewBlock(w.Chain.GetKey(), mc.GetCurrentRound()+1)
	b.CreationDate = now
	b.Hash = randHash(d.r)
	// one transaction per message scalar (claimed and forged ones), made by the claimed signer of the position
	mk := func(from *world.Key, salt int) *transaction.Transaction {
		t := w.MakeTxn(world.TxnSpec{From: from, To: w.Owner.ID, Type: transaction.TxnTypeSend, Value: uint64(1 + d.r.Intn(1000)),
			Nonce: int64(1 + salt), Time: now})
		t.TransactionOutput = fmt.Sprintf("out-%d", salt)
		t.OutputHash = t.ComputeOutputHash()
		return t
	}
	txOf := map[int]*transaction.Transaction{} // message scalar -> the transaction whose hash stands for it
	for i := 0; i < s.N; i++ {
		txOf[s.Cm[i]] = mk(client(s.Ck[i]), s.Cm[i])
	}
	hashOf := func(v int) string {
		if t, ok := txOf[v]; ok {
			return t.Hash
		}
		t := mk(client(1000+v), v) // a transaction that is not in the block
		txOf[v] = t
		return t.Hash
	}
	ind := make([]bool, s.N)
	for i := 0; i < s.N; i++ {
		t := txOf[s.Cm[i]]
		t.Signature = addMultiple(client(s.Sk[i]).Sign(hashOf(s.Sm[i])), c[i], D)
		b.Txns = append(b.Txns, t)
		// the individual check of the same node: Transaction.VerifySignature
		ind[i] = t.VerifySignature(context.Background()) == nil
	}
	ctx, cancel := context.WithTimeout(context.Background(), 20*time.Second)
	defer cancel()
	err := mc.ValidateTransactions(ctx, b)
	stage := "ok"
	if err != nil {
		stage = "validate_transactions"
	}
	emit("txns", err == nil, stage, ind)
}
