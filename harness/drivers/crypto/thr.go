package crypto

import (
	"fmt"
	"math/rand"
	"sort"

	"0chain.net/chaincore/block"
	tbls "0chain.net/chaincore/threshold/bls"
	"0chain.net/core/encryption"

	"github.com/herumi/bls-go-binary/bls"

	"verif/harness/rec"
)

// ---------------------------------------------------------------- C34

// thrScen is one terminal scenario of spec/ThresholdSig.tla (see MC_ThresholdSig!GPrint). Only the
// structure is replayed; every secret is a real random scalar of the real group.
type thrScen struct {
	Kind string   `json:"kind"` // dkg | client | split | sos
	T    int      `json:"t"`
	N    int      `json:"n"`
	Ids  []int    `json:"ids"` // toy party ids
	Tam  []int    `json:"tam"` // [] or [dealer, receiver, delta]
	Seq  []int    `json:"seq"` // parties whose signature shares are combined, in this order
	Ent  []string `json:"ent"` // sos entries
}

func (d *drv) thr(s thrScen, rep int) {
	// the library's "CSPRNG" (MakeDKG, GetMasterSecretKey, GenerateKeys) reads the trace RNG: reproducible traces
	bls.SetRandFunc(d.r)
	defer bls.SetRandFunc(nil)
	switch s.Kind {
	case "dkg":
		d.dkg(s, "small")
		d.dkg(s, "hash")
	case "client":
		d.client(s)
	case "split":
		d.split(s)
	case "sos":
		d.sos(s)
	default:
		rec.Fatal("unknown C34 scenario kind %q", s.Kind)
	}
}

func randMinerID(r *rand.Rand) string {
	return encryption.Hash(fmt.Sprintf("verif-miner-%d-%d", r.Int63(), r.Int63()))
}

// dealtDKG is a completed real DKG among n parties.
type dealtDKG struct {
	minerID []string
	pid     []tbls.PartyID
	dkgs    []*tbls.DKG
	mpks    map[tbls.PartyID][]tbls.PublicKey
	shares  [][]tbls.Key // shares[i][j]: dealer i -> party j
	gpk     tbls.PublicKey
}

// deal runs the real protocol functions: MakeDKG, ComputeDKGKeyShare, GetMPKs; idmap "small" gives party j the
// id ids[j] (a small integer, as the client threshold scheme does), "hash" the id ComputeIDdkg(miner id).
func (d *drv) deal(t, n int, ids []int, idmap string) *dealtDKG {
	x := &dealtDKG{mpks: map[tbls.PartyID][]tbls.PublicKey{}}
	byToy := map[int]string{}
	for j := 0; j < n; j++ {
		if byToy[ids[j]] == "" {
			byToy[ids[j]] = randMinerID(d.r)
		}
		mid := byToy[ids[j]]
		g := tbls.MakeDKG(t, n, mid)
		if idmap == "small" {
			var id tbls.PartyID
			must(id.SetDecString(fmt.Sprint(ids[j])))
			g.ID = id
		}
		x.minerID = append(x.minerID, mid)
		x.pid = append(x.pid, g.ID)
		x.dkgs = append(x.dkgs, g)
	}
	for i := 0; i < n; i++ {
		x.mpks[x.pid[i]] = x.dkgs[i].GetMPKs()
		x.gpk.Add(&x.dkgs[i].GetMPKs()[0])
		row := make([]tbls.Key, n)
		for j := 0; j < n; j++ {
			sh, err := x.dkgs[i].ComputeDKGKeyShare(x.pid[j])
			must(err)
			row[j] = sh
		}
		x.shares = append(x.shares, row)
	}
	return x
}

// complete: every party stores the shares it received and aggregates (AddSecretShare, Aggregate*).
func (x *dealtDKG) complete() {
	n := len(x.dkgs)
	for j := 0; j < n; j++ {
		for i := 0; i < n; i++ {
			must(x.dkgs[j].AddSecretShare(x.pid[i], x.shares[i][j].GetHexString(), false))
		}
		x.dkgs[j].AggregateSecretKeyShares()
		must(x.dkgs[j].AggregatePublicKeyShares(x.mpks))
	}
}

func addOne(k tbls.Key, delta int) tbls.Key {
	var d bls.SecretKey
	must(d.SetDecString(fmt.Sprint(delta)))
	k.Add(&d)
	return k
}

func (d *drv) dkg(s thrScen, idmap string) {
	x := d.deal(s.T, s.N, s.Ids, idmap)
	msg := randHash(d.r)
	base := rec.M{"kind": "dkg", "idmap": idmap, "t": s.T, "n": s.N, "ids": s.Ids, "tam": s.Tam, "seq": s.Seq}
	if len(s.Seq) == 0 {
		// receiver j validates the share of dealer i against i's published polynomial
		valid := make([][]bool, s.N)
		for i := 0; i < s.N; i++ {
			valid[i] = make([]bool, s.N)
			for j := 0; j < s.N; j++ {
				sh := x.shares[i][j]
				if len(s.Tam) == 3 && s.Tam[0] == i+1 && s.Tam[1] == j+1 {
					sh = addOne(sh, s.Tam[2])
				}
				v1 := x.dkgs[j].ValidateShare(x.mpks[x.pid[i]], sh)
				v2 := tbls.ValidateShare(x.mpks[x.pid[i]], sh, x.pid[j])
				valid[i][j] = v1 && v2
				if v1 != v2 {
					rec.Fatal("DKG.ValidateShare and ValidateShare disagree")
				}
			}
		}
		x.complete()
		// each party signs with its aggregated key; every other party verifies with the key derived from the mpks
		partyOK := make([]bool, s.N)
		for j := 0; j < s.N; j++ {
			sg := x.dkgs[j].Sign(msg)
			ok := true
			for k := 0; k < s.N; k++ {
				ok = ok && x.dkgs[k].VerifySignature(sg, msg, x.pid[j])
			}
			partyOK[j] = ok
		}
		// a second aggregation pass over a smaller qualified set on the SAME DKG objects (a retried view-change
		// "wait" phase: DeleteFromSet + AggregateSecretKeyShares + AggregatePublicKeyShares): the keys the
		// remaining parties then hold must again verify under the keys every party derives for them
		reagg := []bool{}
		distinct := map[string]bool{}
		for _, p := range x.pid {
			distinct[p.GetHexString()] = true
		}
		if idmap == "hash" && s.N >= 2 && len(distinct) == s.N {
			drop := s.N - 1
			mpks2 := map[tbls.PartyID][]tbls.PublicKey{}
			for i := 0; i < s.N; i++ {
				if i != drop {
					mpks2[x.pid[i]] = x.mpks[x.pid[i]]
				}
			}
			for j := 0; j < s.N; j++ {
				x.dkgs[j].DeleteFromSet([]string{x.minerID[drop]})
				x.dkgs[j].AggregateSecretKeyShares()
				must(x.dkgs[j].AggregatePublicKeyShares(mpks2))
			}
			for j := 0; j < s.N; j++ {
				ok := true
				if j != drop {
					sg := x.dkgs[j].Sign(msg)
					for k := 0; k < s.N; k++ {
						ok = ok && x.dkgs[k].VerifySignature(sg, msg, x.pid[j])
					}
				}
				reagg = append(reagg, ok)
			}
		}
		base["ev"], base["valid"], base["party_ok"], base["reagg_ok"] = "ThrDeal", valid, partyOK, reagg
		d.rc.Emit(base, fmt.Sprintf("dkg/%s/t%dn%d/tam%v", idmap, s.T, s.N, len(s.Tam) > 0), true)
		return
	}
	x.complete()
	recover := func(seq []int, viaStrings bool) (tbls.Sign, bool) {
		var from []tbls.PartyID
		var sigs []tbls.Sign
		var fromS, sigS []string
		for _, p := range seq {
			sg := x.dkgs[p-1].Sign(msg)
			from, sigs = append(from, x.pid[p-1]), append(sigs, *sg)
			fromS, sigS = append(fromS, x.pid[p-1].GetHexString()), append(sigS, sg.GetHexString())
		}
		var out tbls.Sign
		var err error
		if viaStrings {
			out, err = x.dkgs[seq[0]-1].CalBlsGpSign(sigS, fromS) // what the miner calls
		} else {
			out, err = x.dkgs[seq[0]-1].RecoverGroupSig(from, sigs)
		}
		return out, err == nil
	}
	ref, refOK := recover(seqTo(s.T), false)
	got, ok := recover(s.Seq, false)
	got2, ok2 := recover(s.Seq, true)
	base["ev"] = "ThrCombine"
	base["k"] = len(s.Seq)
	base["err"] = !ok || !ok2 || !refOK
	base["verifies"] = ok && got.Verify(&x.gpk, msg)
	base["same_as_ref"] = ok && refOK && got.IsEqual(&ref)
	base["api_agree"] = ok == ok2 && got.IsEqual(&got2)
	d.rc.Emit(base, fmt.Sprintf("dkg/%s/t%dn%d/k%d/%v", idmap, s.T, s.N, len(s.Seq), base["verifies"]), base["verifies"].(bool))
}

func seqTo(t int) []int {
	o := make([]int, t)
	for i := range o {
		o[i] = i + 1
	}
	return o
}

// client: BLS0GenerateThresholdKeyShares + BLS0ChainReconstruction (client-side threshold keys, ids 1..n)
func (d *drv) client(s thrScen) {
	orig := detKey(d.r)
	msg := randHash(d.r)
	shares, err := encryption.BLS0GenerateThresholdKeyShares(s.T, s.N, orig.scheme)
	must(err)
	recon := func(seq []int) (string, bool) {
		rc := encryption.NewBLS0ChainReconstruction(s.T, s.N)
		for _, p := range seq {
			sg, err := shares[p-1].Sign(msg)
			must(err)
			if err := rc.Add(shares[p-1], sg); err != nil {
				return "", false
			}
		}
		out, err := rc.Reconstruct()
		return out, err == nil
	}
	ref, refOK := recon(seqTo(s.T))
	got, ok := recon(s.Seq)
	ver := false
	if ok {
		v, err := verifier(orig.pub).Verify(got, msg)
		ver = v && err == nil
	}
	// the directly signed message is the reference
	direct, err := orig.scheme.Sign(msg)
	must(err)
	m := rec.M{"ev": "ThrCombine", "kind": "client", "idmap": "small", "t": s.T, "n": s.N, "ids": s.Ids, "tam": s.Tam, "seq": s.Seq,
		"k": len(s.Seq), "err": !ok || !refOK, "verifies": ver, "same_as_ref": ok && refOK && got == ref, "api_agree": !refOK || ref == direct}
	d.rc.Emit(m, fmt.Sprintf("client/t%dn%d/k%d/%v", s.T, s.N, len(s.Seq), ver), ver)
}

// split: GenerateSplitKeys + AggregateSignatures
func (d *drv) split(s thrScen) {
	prim := detKey(d.r)
	msg := randHash(d.r)
	parts, err := prim.scheme.GenerateSplitKeys(s.N)
	must(err)
	agg := func(seq []int) (string, bool) {
		var sigs []string
		for _, p := range seq {
			sg, err := parts[p-1].Sign(msg)
			must(err)
			sigs = append(sigs, sg)
		}
		out, err := prim.scheme.AggregateSignatures(sigs)
		return out, err == nil
	}
	ref, refOK := agg(seqTo(s.N))
	got, ok := agg(s.Seq)
	ver := false
	if ok {
		v, err := verifier(prim.pub).Verify(got, msg)
		ver = v && err == nil
	}
	direct, err := prim.scheme.Sign(msg)
	must(err)
	m := rec.M{"ev": "ThrCombine", "kind": "split", "idmap": "small", "t": s.T, "n": s.N, "ids": s.Ids, "tam": s.Tam, "seq": s.Seq,
		"k": len(s.Seq), "err": !ok || !refOK, "verifies": ver, "same_as_ref": ok && refOK && got == ref, "api_agree": !refOK || ref == direct}
	d.rc.Emit(m, fmt.Sprintf("split/n%d/k%d/%v", s.N, len(s.Seq), ver), ver)
}

// sos: the dealer (party 1) reveals, per receiver, the share or the receiver's signature; ShareOrSigns.Validate
func (d *drv) sos(s thrScen) {
	x := d.deal(s.T, s.N, s.Ids, "hash")
	dealer := x.minerID[0]
	sos := block.NewShareOrSigns()
	sos.ID = dealer
	mpks := block.NewMpks()
	var mpkHex []string
	for _, pk := range x.dkgs[0].GetMPKs() {
		mpkHex = append(mpkHex, pk.GetHexString())
	}
	mpks.Mpks[dealer] = &block.MPK{ID: dealer, Mpk: mpkHex}
	pubs := map[string]string{}
	idx := map[string]int{}
	msg := randHash(d.r)
	for j := 0; j < s.N; j++ {
		k := detKey(d.r)
		other := detKey(d.r)
		mid := x.minerID[j]
		idx[mid] = j + 1
		pubs[mid] = k.pub
		switch s.Ent[j] {
		case "share_ok":
			sos.ShareOrSigns[mid] = &tbls.DKGKeyShare{Share: x.shares[0][j].GetHexString()}
		case "share_bad":
			bad := addOne(x.shares[0][j], 1)
			sos.ShareOrSigns[mid] = &tbls.DKGKeyShare{Share: bad.GetHexString()}
		case "sign_ok":
			sg, err := k.scheme.Sign(msg)
			must(err)
			sos.ShareOrSigns[mid] = &tbls.DKGKeyShare{Message: msg, Sign: sg}
		case "sign_bad":
			sg, err := other.scheme.Sign(msg)
			must(err)
			sos.ShareOrSigns[mid] = &tbls.DKGKeyShare{Message: msg, Sign: sg}
		case "nil":
			sos.ShareOrSigns[mid] = nil
		default:
			rec.Fatal("unknown sos entry %q", s.Ent[j])
		}
	}
	keys, ok := sos.Validate(mpks, pubs, encryption.NewBLS0ChainScheme())
	got := []int{}
	for _, k := range keys {
		got = append(got, idx[k])
	}
	sort.Ints(got)
	m := rec.M{"ev": "ThrSos", "kind": "sos", "idmap": "hash", "t": s.T, "n": s.N, "ids": s.Ids, "ent": s.Ent, "ok": ok, "keys": got}
	d.rc.Emit(m, fmt.Sprintf("sos/%v", ok), ok)
}
