// Package storage drives seeded random histories of the storage contract through the real
// Chain.UpdateState (real MPT) and projects the contract's own state after every transaction.
//
// Layout of one run: a deterministic base block (hard forks, blobbers, validators, stakes, free-storage
// assigners, one allocation with written data) is built once; every trace forks from it, with block hashes
// that depend on (seed, trace id) only, so a single trace can be re-executed in isolation.
package storage

import (
	"fmt"
	"math/big"
	"math/rand"
	"strconv"
	"strings"

	"0chain.net/chaincore/block"
	"0chain.net/chaincore/chain"
	cstate "0chain.net/chaincore/chain/state"
	"0chain.net/chaincore/transaction"
	zcommon "0chain.net/core/common"
	"0chain.net/core/encryption"
	"0chain.net/smartcontract/storagesc"

	"github.com/0chain/common/core/statecache"

	"verif/harness/common"
	"verif/harness/rec"
	"verif/harness/world"
)

const (
	KB = int64(1024)
	MB = 1024 * KB
	GB = 1024 * MB

	timeUnit = 3600 // seconds; sc override time_unit = 1h
)

type prov struct {
	name     string
	key      *world.Key
	delegate *world.Key
}

type allocInfo struct {
	id    string
	name  string
	owner *world.Key
}

type assigner struct {
	name string // assigner id registered in the contract
	key  *world.Key
}

type gen struct {
	w   *world.World
	rc  *rec.Recorder
	r   *rand.Rand
	a   common.Args
	dbg bool

	base    *block.Block
	baseNow zcommon.Timestamp

	blobbers   []*prov
	eblobbers  []*prov // enterprise blobbers (serve enterprise allocations only)
	validators []*prov
	clients    []*world.Key // c1..c4
	assigners  []*assigner
	byID       map[string]*prov

	baseAllocs []*allocInfo

	// per trace
	traceID    int
	allocs     []*allocInfo
	readKeys   [][3]string
	readKeySet map[string]bool
	// signature and timestamp of the last read marker accepted per (blobber, client, allocation)
	lastRM   map[string]lastMarker
	nonceSeq int64
	killOK   bool
	t0       zcommon.Timestamp
	round0   int64
	w0       uint64   // storagesc wallet at trace start
	l0       *big.Int // liabilities at trace start
	prev     *storagesc.VerifStorageSnap
	lastRes  world.Result
	// free-storage markers accepted in this trace, exactly as they were sent (the driver's own memory: what it
	// replays must not depend on what the contract still remembers)
	fmDone []doneMarker
	reregd map[string]bool // assigners re-registered (add_free_storage_assigner for an existing name) in this trace

	spareKey *world.Key // second signing key an assigner can be re-registered with (key rotation)
}

type doneMarker struct {
	from   *world.Key
	signer *world.Key
	in     interface{}
	op     opInfo
}

func init() { common.Register("storage", Run) }

func scOverrides() map[string]interface{} {
	p := "smart_contracts.storagesc."
	return map[string]interface{}{
		p + "time_unit":                                      "1h",
		p + "min_write_price":                                0.00001,
		p + "min_blobber_capacity":                           32 * MB,
		p + "min_alloc_size":                                 1 * MB,
		p + "max_challenge_completion_rounds":                6,
		p + "validators_per_challenge":                       2,
		p + "free_allocation_settings.data_shards":           2,
		p + "free_allocation_settings.parity_shards":         1,
		p + "free_allocation_settings.size":                  6 * MB,
		p + "free_allocation_settings.read_price_range.max":  1,
		p + "free_allocation_settings.write_price_range.max": 1,
	}
}

func extraInt(extra, key string, def int) int {
	for _, kv := range strings.Split(extra, ",") {
		p := strings.SplitN(kv, "=", 2)
		if len(p) == 2 && p[0] == key {
			if v, err := strconv.Atoi(p[1]); err == nil {
				return v
			}
		}
	}
	return def
}

// Run is the driver entry point.
func Run(a common.Args) {
	w := world.New(world.Options{Clients: 4, SCOverrides: scOverrides()})
	defer w.Close()
	rc := rec.New(a.Out)
	defer rc.Close()
	g := &gen{w: w, rc: rc, a: a, byID: map[string]*prov{}, dbg: strings.Contains(a.Extra, "debug")}
	g.clients = w.Clients[:4]
	g.buildBase()
	killEvery := extraInt(a.Extra, "killevery", 7)
	id := 0
	for i := 0; i < a.N; i++ {
		id++
		if a.Only != 0 && a.Only != id {
			rc.TraceID = id
			continue
		}
		g.r = common.TraceRand(a.Seed, id)
		g.traceID = id
		g.killOK = killEvery > 0 && id%killEvery == 0
		g.random(id)
	}
	// directed scenarios (after the random traces, so that their ids do not move the random ones): the
	// histories behind the suspected defects DESIGN §7 #18 and #6 and the repeated kill, played to the end
	{
		// scenarios 4-8 always run; scenarios 1-3 with scen=1
		ks := []int{4, 5, 6, 7, 8}
		if extraInt(a.Extra, "scen", 0) > 0 {
			ks = []int{1, 2, 3, 4, 5, 6, 7, 8}
		}
		for _, k := range ks {
			id++
			if a.Only != 0 && a.Only != id {
				rc.TraceID = id
				continue
			}
			g.r = common.TraceRand(a.Seed, id)
			g.traceID = id
			g.scenario(id, k)
		}
	}
}

// ---------------------------------------------------------------- blocks

// beginBlock = world.BeginBlock with a block hash that is unique per (seed, trace): forks of the same parent
// at the same round and time would otherwise share a hash, and with it the committed state-cache entries.
func (g *gen) beginBlock(prev *block.Block, rounds int64) {
	w := g.w
	if rounds < 1 {
		rounds = 1
	}
	b := block.NewBlock(w.Chain.GetKey(), prev.Round+rounds)
	b.MinerID = w.Miners[0].ID
	b.SetPreviousBlock(prev)
	b.Round = prev.Round + rounds // SetPreviousBlock resets the round to prev+1
	b.CreationDate = w.Now
	b.Hash = encryption.Hash(fmt.Sprintf("sblk:%d:%d:%s:%d:%d", g.a.Seed, g.traceID, prev.Hash, b.Round, w.Now))
	b.SetRoundRandomSeed(int64(b.Round)*7919 + 13)
	w.Cur = b
	w.CurState = block.CreateStateWithPreviousBlock(prev, w.Chain.GetStateDB(), b.Round)
	w.CurCache = statecache.NewBlockCache(w.Chain.GetStateCache(), statecache.Block{Round: b.Round, Hash: b.Hash, PrevHash: b.PrevHash})
	b.Events = nil
}

// nextBlock seals the current block and opens the next one dt seconds and `rounds` rounds later.
func (g *gen) nextBlock(dt int64, rounds int64) {
	w := g.w
	prev := w.EndBlock()
	w.Now += zcommon.Timestamp(dt)
	g.beginBlock(prev, rounds)
}

func (g *gen) sctx() cstate.StateContextI {
	w := g.w
	t := &transaction.Transaction{}
	t.CreationDate = w.Now
	return w.Chain.NewStateContext(w.Cur, chain.CreateTxnMPT(w.CurState, statecache.NewTransactionCache(w.CurCache)), t, nil)
}

// ---------------------------------------------------------------- base block

func (g *gen) must(res world.Result, what string) world.Result {
	if res.Class != "ok" {
		rec.Fatal("base block: %s failed: class=%s err=%s panic=%s", what, res.Class, res.Err, res.Panic)
	}
	return res
}

var blobberPlan = []struct {
	wp, rp uint64 // per GB
	capMB  int64
	stake  uint64
	charge float64
}{
	{4000000, 16384 * 5, 512, 6000000, 0.1},
	{4000000, 16384 * 20, 384, 4000000, 0.0},
	{2000000, 0, 512, 3000000, 0.3},
	{8000000, 16384 * 5, 1024, 9000000, 0.1},
	{4000000, 16384 * 10, 256, 2000000, 0.2},
	{2000000, 16384 * 5, 512, 1500000, 0.0},
	{4000000, 0, 320, 5000000, 0.5},
}

func (g *gen) sc(from *world.Key, fn string, input interface{}, value uint64) world.Result {
	return g.w.Do(world.TxnSpec{From: from, To: world.Contracts["storagesc"], Type: transaction.TxnTypeSmartContract, Fn: fn, Input: input, Value: value})
}

func (g *gen) buildBase() {
	w := g.w
	g.traceID = 0
	// start well above round 0: reward rounds are multiples of the trigger period and round 0 is also the
	// zero value of a blobber's RewardRound (an artefact of tiny round numbers, never met on a live chain)
	g.beginBlock(w.Genesis, 1000)
	// hard forks: the newest code paths (demeter, electra) are active from round 0
	g.must(w.Do(world.TxnSpec{From: w.Owner, To: world.Contracts["minersc"], Type: transaction.TxnTypeSmartContract, Fn: "add_hardfork",
		Input: map[string]interface{}{"fields": map[string]string{"demeter": "0", "electra": "0"}}}), "add_hardfork")
	rich := g.clients[3] // c4 funds everybody
	fund := func(k *world.Key, v uint64) {
		g.must(w.Do(world.TxnSpec{From: rich, To: k.ID, Type: transaction.TxnTypeSend, Value: v}), "fund "+k.Name)
	}
	for i, p := range blobberPlan {
		b := &prov{name: fmt.Sprintf("b%d", i+1)}
		b.key = w.NewKey(b.name)
		b.delegate = w.NewKey(fmt.Sprintf("bd%d", i+1))
		fund(b.key, 1000)
		fund(b.delegate, 100000000)
		g.blobbers = append(g.blobbers, b)
		g.byID[b.key.ID] = b
		g.must(g.sc(b.key, "add_blobber", map[string]interface{}{
			"version": "v3", "url": "https://" + b.name + ".example.org",
			"terms":               map[string]interface{}{"read_price": p.rp, "write_price": p.wp},
			"capacity":            p.capMB * MB,
			"stake_pool_settings": map[string]interface{}{"delegate_wallet": b.delegate.ID, "num_delegates": 5, "service_charge": p.charge},
		}, 0), "add_blobber "+b.name)
		g.must(g.sc(b.delegate, "stake_pool_lock", map[string]interface{}{"provider_type": 3, "provider_id": b.key.ID}, p.stake), "stake "+b.name)
	}
	// three enterprise blobbers: paid from the write pool for the time used, no challenge pool
	for i := 0; i < 3; i++ {
		b := &prov{name: fmt.Sprintf("e%d", i+1)}
		b.key = w.NewKey(b.name)
		b.delegate = w.NewKey(fmt.Sprintf("ed%d", i+1))
		fund(b.key, 1000)
		fund(b.delegate, 100000000)
		g.eblobbers = append(g.eblobbers, b)
		g.byID[b.key.ID] = b
		g.must(g.sc(b.key, "add_blobber", map[string]interface{}{
			"version": "v3", "url": "https://" + b.name + ".example.org", "is_enterprise": true,
			"terms":               map[string]interface{}{"read_price": 16384 * 5, "write_price": 3000000 + 1000000*uint64(i)},
			"capacity":            512 * MB,
			"stake_pool_settings": map[string]interface{}{"delegate_wallet": b.delegate.ID, "num_delegates": 5, "service_charge": 0.1},
		}, 0), "add_blobber "+b.name)
		g.must(g.sc(b.delegate, "stake_pool_lock", map[string]interface{}{"provider_type": 3, "provider_id": b.key.ID}, 5000000), "stake "+b.name)
	}
	for i := 0; i < 4; i++ {
		v := &prov{name: fmt.Sprintf("v%d", i+1)}
		v.key = w.NewKey(v.name)
		v.delegate = w.NewKey(fmt.Sprintf("vd%d", i+1))
		fund(v.key, 1000)
		fund(v.delegate, 10000000)
		g.validators = append(g.validators, v)
		g.byID[v.key.ID] = v
		g.must(g.sc(v.key, "add_validator", map[string]interface{}{
			"url":                 "https://" + v.name + ".example.org",
			"stake_pool_settings": map[string]interface{}{"delegate_wallet": v.delegate.ID, "num_delegates": 5, "service_charge": 0.1 * float64(i)},
		}, 0), "add_validator "+v.name)
		g.must(g.sc(v.delegate, "stake_pool_lock", map[string]interface{}{"provider_type": 4, "provider_id": v.key.ID}, 1000+uint64(i)*500), "stake "+v.name)
	}
	// free-storage assigners (the assigner id is a free-form name; its public key signs markers)
	for i, lim := range [][2]float64{{0.00003, 0.00007}, {0.00002, 0.00002}} {
		as := &assigner{name: fmt.Sprintf("fa%d", i+1)}
		as.key = w.NewKey(as.name)
		g.assigners = append(g.assigners, as)
		g.must(g.sc(w.Owner, "add_free_storage_assigner", map[string]interface{}{
			"name": as.name, "public_key": as.key.Pub, "individual_limit": lim[0], "total_limit": lim[1]}, 0), "add assigner "+as.name)
	}
	// fa3 is known to the driver (and to the snapshot query) but not registered in the base block: traces register
	// it for the first time; fa1x is a second signing key for re-registrations that rotate an assigner's key
	fa3 := &assigner{name: "fa3"}
	fa3.key = w.NewKey(fa3.name)
	g.assigners = append(g.assigners, fa3)
	g.spareKey = w.NewKey("fa1x")
	g.nextBlock(5, 1)
	// allocation A1: owner c1 on b1,b2,b3 (2 data + 1 parity), 128 MB per blobber, with some data written
	g.allocs = nil
	res := g.must(g.sc(g.clients[0], "new_allocation_request", g.newAllocInput(g.clients[0], 2, 1, 256*MB, []*prov{g.blobbers[0], g.blobbers[1], g.blobbers[2]}), 3000000), "new_allocation A1")
	a1 := &allocInfo{id: res.Txn.Hash, name: "A1", owner: g.clients[0]}
	w.SetName(a1.id, a1.name)
	g.allocs = append(g.allocs, a1)
	g.nextBlock(5, 1)
	snap := g.snapshot()
	for i := 0; i < 2; i++ {
		in, _ := g.writeMarkerInput(snap, a1, g.blobbers[i], 8*MB, int64(w.Now), a1.owner, "")
		g.must(g.sc(g.blobbers[i].key, "commit_connection", in, 0), "commit "+g.blobbers[i].name)
	}
	g.base = w.EndBlock()
	g.baseNow = w.Now
	g.baseAllocs = append([]*allocInfo{}, g.allocs...)
}

type lastMarker struct {
	sig string
	ts  int64
}
