package storage

import (
	"math/big"
	"sort"

	"0chain.net/chaincore/transaction"
	"0chain.net/smartcontract/storagesc"

	"verif/harness/rec"
	"verif/harness/world"
)

const capInt = int64(1) << 29

type pair struct {
	A string `json:"a"`
	D int64  `json:"d"`
}

// opInfo = the abstract arguments of the transaction just executed (what the trace spec binds).
type opInfo struct {
	variant string // input class, part of the action shape
	target  string // allocation id ("" if none)
	tblob   string // blobber id ("" if none)
	// read marker
	rmClient, rmBlobber, rmAlloc string
	rmCtr                        int64
	rmSig                        bool
	// free-storage marker
	fmAssigner, fmRecipient string
	fmTokens                uint64 // units
	fmNonce                 int64
	fmSig                   bool
	fmSigner                *world.Key // who signed the marker (driver bookkeeping, not logged)
	accrued                 uint64
}

type projector struct {
	g       *gen
	big     bool // some number did not fit TLC's integers
	inexact bool // some size is not a multiple of 1 KB
}

func (p *projector) u(v uint64) int64 {
	if v > uint64(capInt) {
		p.big = true
		return capInt
	}
	return int64(v)
}

func (p *projector) kb(v int64) int64 {
	if v%KB != 0 {
		p.inexact = true
	}
	k := v / KB
	if k > capInt || k < -capInt {
		p.big = true
		return capInt
	}
	return k
}

func (g *gen) query() storagesc.VerifStorageQuery {
	q := storagesc.VerifStorageQuery{}
	for _, a := range g.allocs {
		q.Allocations = append(q.Allocations, a.id)
	}
	for _, b := range g.blobbers {
		q.Blobbers = append(q.Blobbers, b.key.ID)
	}
	for _, b := range g.eblobbers {
		q.Blobbers = append(q.Blobbers, b.key.ID)
	}
	for _, v := range g.validators {
		q.Validators = append(q.Validators, v.key.ID)
	}
	for _, c := range g.clients {
		q.Clients = append(q.Clients, c.ID)
	}
	for _, a := range g.assigners {
		q.Assigners = append(q.Assigners, a.name)
	}
	q.ReadKeys = append(q.ReadKeys, g.readKeys...)
	// stake pool nodes saved under an id that is not a provider (clients, delegate wallets, the sc owner)
	prov := map[string]bool{}
	for _, id := range q.Blobbers {
		prov[id] = true
	}
	for _, id := range q.Validators {
		prov[id] = true
	}
	ids := make([]string, 0, len(g.w.Keys))
	for id := range g.w.Keys {
		if !prov[id] {
			ids = append(ids, id)
		}
	}
	sort.Strings(ids)
	q.StakePoolAt = ids
	return q
}

func (g *gen) snapshot() *storagesc.VerifStorageSnap {
	s, err := storagesc.VerifStorageSnapshot(g.sctx(), g.query())
	if err != nil {
		rec.Fatal("snapshot: %v", err)
	}
	return s
}

type liab struct{ w, c, r, s, total *big.Int }

func add(x *big.Int, v uint64) { x.Add(x, new(big.Int).SetUint64(v)) }

// liabilities of the storage contract: everything it records as owed to somebody.
func liabilities(s *storagesc.VerifStorageSnap) liab {
	l := liab{new(big.Int), new(big.Int), new(big.Int), new(big.Int), new(big.Int)}
	for _, a := range s.Allocations {
		if a.Present {
			add(l.w, a.WritePool)
		}
		if a.HasChallengePool {
			add(l.c, a.ChallengePool)
		}
	}
	for _, r := range s.ReadPools {
		if r.Present {
			add(l.r, r.Balance)
		}
	}
	sp := func(ps []storagesc.VerifStorageProvider) {
		for _, p := range ps {
			if !p.StakePool.Present {
				continue
			}
			add(l.s, p.StakePool.Reward)
			for _, d := range p.StakePool.Delegates {
				add(l.s, d.Balance)
				add(l.s, d.Reward)
			}
		}
	}
	sp(s.Blobbers)
	sp(s.Validators)
	for _, e := range s.ExtraPools {
		sp([]storagesc.VerifStorageProvider{{StakePool: e.StakePool}})
	}
	l.total.Add(l.total, l.w).Add(l.total, l.c).Add(l.total, l.r).Add(l.total, l.s)
	return l
}

func (p *projector) rel(x, base *big.Int) int64 {
	d := new(big.Int).Sub(x, base)
	if !d.IsInt64() || d.Int64() > capInt || d.Int64() < -capInt {
		p.big = true
		return capInt
	}
	return d.Int64()
}

func (g *gen) name(id string) string {
	if id == "" {
		return ""
	}
	return g.w.Name(id)
}

func (g *gen) balances() map[string]uint64 {
	out := map[string]uint64{}
	for id := range g.w.Keys {
		out[id] = g.w.Balance(id)
	}
	return out
}

func stakeOf(sp storagesc.VerifStorageStakePool) (stake, rew uint64) {
	rew = sp.Reward
	for _, d := range sp.Delegates {
		stake += d.Balance
		rew += d.Reward
	}
	return
}

// project builds the Storage event: the contract's state after the step, all numbers small.
func (g *gen) project(fn string, from *world.Key, class string, value uint64, op opInfo, snap *storagesc.VerifStorageSnap, pre, post map[string]uint64, panicked bool) rec.M {
	p := &projector{g: g}
	w := g.w
	relT := func(t int64) int64 {
		d := t - int64(g.t0)
		if d > capInt || d < -capInt {
			p.big = true
			return capInt
		}
		return d
	}
	allocs := []rec.M{}
	for _, a := range snap.Allocations {
		bas := []rec.M{}
		cost := new(big.Int)
		// a value above 2^62 can only be a wrapped uint64: reported to the property (C12), not as a harness limit
		wrap := a.ChallengePool > 1<<62
		uw := func(v uint64) int64 {
			if v > 1<<62 {
				wrap = true
				return capInt
			}
			return p.u(v)
		}
		for _, b := range a.Blobbers {
			c := new(big.Int).Mul(new(big.Int).SetUint64(b.WritePrice), big.NewInt(b.Size))
			c.Div(c, big.NewInt(GB))
			cost.Add(cost, c)
			bas = append(bas, rec.M{"a": g.name(b.BlobberID), "size": p.kb(b.Size), "offer": p.u(b.Offer), "iv": uw(b.ChallengeValue),
				"wprice": p.u(b.WritePrice), "rprice": p.u(b.ReadPrice), "used": b.UsedSize / KB})
		}
		owner := ""
		if a.Present {
			owner = g.name(a.Owner)
		}
		exp := int64(0)
		if a.Present {
			exp = relT(a.Expiration)
		}
		allocs = append(allocs, rec.M{"a": g.name(a.ID), "present": a.Present, "ent": a.Enterprise, "owner": owner,
			"cp_present": a.HasChallengePool, "cp": uw(a.ChallengePool), "wp": p.u(a.WritePool), "exp": exp, "wrap": wrap,
			"ccap": p.u(cost.Uint64()/5 + uint64(len(a.Blobbers)) + 1),
			"fin":  a.Finalized, "canc": a.Canceled, "bas": bas, "cost": p.u(cost.Uint64()),
			"mtc": p.u(a.MovedToChallenge), "mb": p.u(a.MovedBack), "nopen": len(a.OpenChallenges)})
	}
	blobs := []rec.M{}
	for _, b := range snap.Blobbers {
		st, rw := stakeOf(b.StakePool)
		blobs = append(blobs, rec.M{"a": g.name(b.ID), "present": b.Present, "cap": p.kb(b.Capacity), "alloc": p.kb(b.Allocated),
			"killed": b.Killed, "shut": b.ShutDown, "sp_present": b.StakePool.Present, "offers": p.u(b.StakePool.TotalOffers),
			"stake": p.u(st), "rew": p.u(rw), "wprice": p.u(b.WritePrice), "rprice": p.u(b.ReadPrice)})
	}
	vals := []rec.M{}
	for _, v := range snap.Validators {
		st, rw := stakeOf(v.StakePool)
		vals = append(vals, rec.M{"a": g.name(v.ID), "present": v.Present, "sp_present": v.StakePool.Present, "stake": p.u(st), "rew": p.u(rw)})
	}
	rpools := []pair{}
	for _, r := range snap.ReadPools {
		rpools = append(rpools, pair{g.name(r.Client), p.u(r.Balance)})
	}
	rctrs := []rec.M{}
	for _, c := range snap.ReadCtrs {
		ctr := c.Counter
		if ctr > capInt || ctr < -capInt {
			p.big = true
			ctr = capInt
		}
		rctrs = append(rctrs, rec.M{"b": g.name(c.Blobber), "c": g.name(c.Client), "al": g.name(c.Allocation), "d": ctr})
	}
	assigners := []rec.M{}
	for _, a := range snap.Assigners {
		nonces := []int64{}
		for _, n := range a.Nonces {
			if n > capInt || n < -capInt {
				p.big = true
				n = capInt
			}
			nonces = append(nonces, n)
		}
		assigners = append(assigners, rec.M{"a": a.ID, "present": a.Present, "ind": p.u(a.IndLimit), "tot": p.u(a.TotLimit), "red": p.u(a.Redeemed), "nonces": nonces})
	}
	xpools := []rec.M{}
	for _, e := range snap.ExtraPools {
		st, rw := stakeOf(e.StakePool)
		xpools = append(xpools, rec.M{"a": g.name(e.ID), "validator": e.Validator, "stake": p.u(st), "rew": p.u(rw), "offers": p.u(e.StakePool.TotalOffers)})
	}
	l := liabilities(snap)
	wNow := new(big.Int).SetUint64(w.Balance(world.Contracts["storagesc"]))
	dbal := []pair{}
	ids := make([]string, 0, len(post))
	for id := range post {
		ids = append(ids, id)
	}
	sort.Strings(ids)
	for _, id := range ids {
		if post[id] != pre[id] {
			d := new(big.Int).Sub(new(big.Int).SetUint64(post[id]), new(big.Int).SetUint64(pre[id]))
			dv := capInt
			if d.IsInt64() && d.Int64() <= capInt && d.Int64() >= -capInt {
				dv = d.Int64()
			} else {
				p.big = true
			}
			dbal = append(dbal, pair{g.name(id), dv})
		}
	}
	rctr := op.rmCtr
	if rctr > capInt || rctr < -capInt {
		rctr = capInt // an out-of-range counter in the INPUT is fine: it is only compared with the state
	}
	fnonce := op.fmNonce
	if fnonce > capInt || fnonce < -capInt {
		fnonce = capInt
	}
	m := rec.M{
		"ev": "Storage", "fn": fn, "from": g.name(from.ID), "class": class, "variant": op.variant,
		"target": g.name(op.target), "tblob": g.name(op.tblob),
		"now": relT(int64(w.Now)), "round": w.Cur.Round - g.round0, "value": p.u(value),
		"allocs": allocs, "blobs": blobs, "vals": vals, "rpools": rpools, "rctrs": rctrs, "assigners": assigners,
		"L": p.rel(l.total, g.l0), "W": p.rel(wNow, new(big.Int).SetUint64(g.w0)),
		"Lw": p.u(l.w.Uint64()), "Lc": p.u(l.c.Uint64()), "Lr": p.u(l.r.Uint64()), "Ls": p.u(l.s.Uint64()),
		"accrued": p.u(op.accrued), "dbal": dbal, "xpools": xpools,
		"rm_client": g.name(op.rmClient), "rm_blobber": g.name(op.rmBlobber), "rm_alloc": g.name(op.rmAlloc), "rm_ctr": rctr, "rm_sig": op.rmSig,
		"fm_assigner": op.fmAssigner, "fm_recipient": g.name(op.fmRecipient), "fm_tokens": p.u(op.fmTokens), "fm_nonce": fnonce, "fm_sig": op.fmSig,
		"panic": panicked,
	}
	// a close (or blobber replacement) of an allocation one of whose blobbers is killed or shut down: stake-pool
	// reward distribution to such a provider is a silent no-op (recorded finding), so its share is credited to nobody
	closeDead := false
	if sa := findAlloc(g.prev, op.target); sa != nil {
		for _, ba := range sa.Blobbers {
			if pb := findBlobber(g.prev, ba.BlobberID); pb != nil && (pb.Killed || pb.ShutDown) {
				closeDead = true
			}
		}
	}
	m["dead_blobber"] = closeDead && (fn == "finalize_allocation" || fn == "cancel_allocation")
	m["harness_big"] = p.big
	m["harness_inexact"] = p.inexact
	return m
}

// do executes one storage-contract transaction through the real Chain.UpdateState, records the Ledger Txn
// event and the Storage projection event.
func (g *gen) do(from *world.Key, fn string, input interface{}, value uint64, op opInfo) world.Result {
	w := g.w
	pre := g.balances()
	extra := rec.M{"src": "storage"}
	if fn == "free_allocation_request" {
		// cross-family fields for C04 (Ledger): under which marker the sc owner may be debited by this transaction
		ft := op.fmTokens
		if ft > uint64(capInt) {
			ft = uint64(capInt)
		}
		fnonce := op.fmNonce
		if fnonce > capInt || fnonce < -capInt {
			fnonce = capInt
		}
		within := false
		for _, a := range g.prev.Assigners {
			if a.ID == op.fmAssigner && a.Present && op.fmTokens <= a.IndLimit {
				within = true
			}
		}
		extra["free_tokens"] = ft
		extra["free_assigner"] = op.fmAssigner
		extra["free_nonce"] = fnonce
		extra["free_marker_ok"] = op.fmSig && op.fmRecipient == from.ID && within
	}
	res := w.DoRec(g.rc, world.TxnSpec{From: from, To: world.Contracts["storagesc"], Type: transaction.TxnTypeSmartContract, Fn: fn, Input: input, Value: value}, extra)
	if res.Class == "ok" && (fn == "new_allocation_request" || fn == "free_allocation_request") {
		al := &allocInfo{id: res.Txn.Hash, name: "A" + itoa(len(g.allocs)+1)}
		al.owner = from
		w.SetName(al.id, al.name)
		g.allocs = append(g.allocs, al)
	}
	if res.Class == "ok" && fn == "free_allocation_request" {
		g.fmDone = append(g.fmDone, doneMarker{from: from, signer: op.fmSigner, in: input, op: op})
	}
	snap := g.snapshot()
	post := g.balances()
	m := g.project(fn, from, res.Class, value, op, snap, pre, post, res.Panic != "")
	g.rc.Emit(m, fn+"/"+res.Class+"/"+op.variant, res.Class == "ok")
	g.prev = snap
	g.lastRes = res
	if g.dbg {
		println("   ", fn, op.variant, "from", from.Name, "->", res.Class, res.Err)
	}
	return res
}

func itoa(i int) string {
	if i == 0 {
		return "0"
	}
	s := ""
	for i > 0 {
		s = string(rune('0'+i%10)) + s
		i /= 10
	}
	return s
}
