package storage

import (
	"encoding/hex"
	"encoding/json"
	"fmt"

	"0chain.net/core/encryption"
	"0chain.net/smartcontract/storagesc"

	"verif/harness/world"
)

func (g *gen) newAllocInput(owner *world.Key, data, parity int, size int64, bs []*prov) map[string]interface{} {
	ids := make([]string, 0, len(bs))
	tickets := make([]string, 0, len(bs))
	for _, b := range bs {
		ids = append(ids, b.key.ID)
		tickets = append(tickets, "")
	}
	return map[string]interface{}{
		"data_shards": data, "parity_shards": parity, "size": size,
		"owner_id": owner.ID, "owner_public_key": owner.Pub,
		"blobbers": ids, "blobber_auth_tickets": tickets,
		"read_price_range":  map[string]uint64{"min": 0, "max": 10000000000},
		"write_price_range": map[string]uint64{"min": 0, "max": 10000000000},
	}
}

// newEntAllocInput: an enterprise allocation on enterprise blobbers; each blobber's auth ticket is its signature
// of the owner's id.
func (g *gen) newEntAllocInput(owner *world.Key, data, parity int, size int64, bs []*prov, goodTickets bool) map[string]interface{} {
	in := g.newAllocInput(owner, data, parity, size, bs)
	tickets := make([]string, 0, len(bs))
	for _, b := range bs {
		if goodTickets {
			tickets = append(tickets, b.key.Sign(owner.ID))
		} else {
			tickets = append(tickets, g.clients[3].Sign(owner.ID))
		}
	}
	in["blobber_auth_tickets"] = tickets
	in["is_enterprise"] = true
	return in
}

func findAlloc(s *storagesc.VerifStorageSnap, id string) *storagesc.VerifStorageAlloc {
	for i := range s.Allocations {
		if s.Allocations[i].ID == id {
			return &s.Allocations[i]
		}
	}
	return nil
}

func findBA(a *storagesc.VerifStorageAlloc, blobber string) *storagesc.VerifStorageBlobberAlloc {
	if a == nil {
		return nil
	}
	for i := range a.Blobbers {
		if a.Blobbers[i].BlobberID == blobber {
			return &a.Blobbers[i]
		}
	}
	return nil
}

func findBlobber(s *storagesc.VerifStorageSnap, id string) *storagesc.VerifStorageProvider {
	for i := range s.Blobbers {
		if s.Blobbers[i].ID == id {
			return &s.Blobbers[i]
		}
	}
	return nil
}

// writeMarkerInput builds a commit_connection input with a version-1 write marker chained on the blobber's
// current allocation root. signer signs the marker (the allocation owner for a well-formed one).
// tamper: "" | "prevroot" (does not chain) .
func (g *gen) writeMarkerInput(snap *storagesc.VerifStorageSnap, al *allocInfo, b *prov, size int64, ts int64, signer *world.Key, tamper string) (map[string]interface{}, string) {
	cur := ""
	if ba := findBA(findAlloc(snap, al.id), b.key.ID); ba != nil {
		cur = ba.AllocationRoot
	}
	g.nonceSeq++
	root := encryption.Hash(fmt.Sprintf("root:%s:%s:%d:%d", al.id, b.key.ID, g.nonceSeq, ts))
	prev := cur
	if tamper == "prevroot" {
		prev = encryption.Hash("not the current root")
	}
	hashData := fmt.Sprintf("%s:%s:%s:%s:%s:%s:%d:%d", root, prev, "", al.id, b.key.ID, al.owner.ID, size, ts)
	sig := signer.Sign(encryption.Hash(hashData))
	wm := map[string]interface{}{
		"allocation_root": root, "prev_allocation_root": prev, "file_meta_root": "",
		"allocation_id": al.id, "size": size, "blobber_id": b.key.ID, "timestamp": ts,
		"client_id": al.owner.ID, "signature": sig,
	}
	return map[string]interface{}{"allocation_root": root, "prev_allocation_root": prev, "write_marker": wm}, root
}

// readMarkerInput builds a read_redeem input for the reading client `client`. signer signs; pub is the public
// key written into the marker (the client's own for a well-formed one).
func (g *gen) readMarkerInput(al *allocInfo, b *prov, client *world.Key, signer *world.Key, pub string, ctr int64, ts int64) map[string]interface{} {
	hashData := fmt.Sprintf("%v:%v:%v:%v:%v:%v:%v", al.id, b.key.ID, client.ID, pub, al.owner.ID, ctr, ts)
	sig := signer.Sign(encryption.Hash(hashData))
	rm := map[string]interface{}{
		"client_id": client.ID, "client_public_key": pub, "blobber_id": b.key.ID, "allocation_id": al.id,
		"owner_id": al.owner.ID, "timestamp": ts, "counter": ctr, "signature": sig,
	}
	return map[string]interface{}{"read_marker": rm}
}

// challengeResponseInput signs validation tickets of the challenge's validators with the given verdicts.
func (g *gen) challengeResponseInput(ch *storagesc.VerifStorageOpenChallenge, verdicts []bool, ts int64, forge bool) map[string]interface{} {
	var tickets []map[string]interface{}
	for i, vid := range ch.Validators {
		if i >= len(verdicts) {
			break
		}
		v := g.byID[vid]
		if v == nil {
			continue
		}
		signer := v.key
		if forge && i == 0 {
			signer = g.clients[2]
		}
		hashData := fmt.Sprintf("%v:%v:%v:%v:%v:%v", ch.ID, ch.BlobberID, v.key.ID, v.key.Pub, verdicts[i], ts)
		tickets = append(tickets, map[string]interface{}{
			"challenge_id": ch.ID, "blobber_id": ch.BlobberID, "validator_id": v.key.ID, "validator_key": v.key.Pub,
			"success": verdicts[i], "message": "", "message_code": "", "timestamp": ts,
			"signature": signer.Sign(encryption.Hash(hashData)),
		})
	}
	return map[string]interface{}{"challenge_id": ch.ID, "validation_tickets": tickets}
}

// freeMarkerInput builds a free_allocation_request input. tokens in ZCN (float, as the contract expects).
func (g *gen) freeMarkerInput(as *assigner, signer *world.Key, recipient *world.Key, tokens float64, nonce int64, bs []*prov, tamperAfterSign bool) map[string]interface{} {
	ids := make([]string, 0, len(bs))
	concat := ""
	for _, b := range bs {
		ids = append(ids, b.key.ID)
		concat += b.key.ID
	}
	msg := fmt.Sprintf("%s:%f:%d:%s", recipient.ID, tokens, nonce, concat)
	sig := signer.Sign(hex.EncodeToString([]byte(msg)))
	mt := tokens
	if tamperAfterSign {
		mt = tokens * 2
	}
	marker := map[string]interface{}{"assigner": as.name, "recipient": recipient.ID, "free_tokens": mt, "nonce": nonce, "signature": sig, "blobbers": ids}
	mb, _ := json.Marshal(marker)
	return map[string]interface{}{"recipient_public_key": recipient.Pub, "marker": string(mb), "blobbers": ids}
}
