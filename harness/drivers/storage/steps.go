package storage

import (
	"math/big"

	zcommon "0chain.net/core/common"
	"0chain.net/smartcontract/storagesc"

	"verif/harness/rec"
	"verif/harness/world"
)

func (g *gen) pickU(xs ...uint64) uint64 { return xs[g.r.Intn(len(xs))] }
func (g *gen) pickI(xs ...int64) int64   { return xs[g.r.Intn(len(xs))] }
func (g *gen) chance(pct int) bool       { return g.r.Intn(100) < pct }

func (g *gen) anyAlloc() *allocInfo { return g.allocs[g.r.Intn(len(g.allocs))] }

// openAllocs lists allocations whose node is present in the last snapshot.
func (g *gen) openAllocs() []*allocInfo {
	var out []*allocInfo
	for _, a := range g.allocs {
		if sa := findAlloc(g.prev, a.id); sa != nil && sa.Present {
			out = append(out, a)
		}
	}
	return out
}

// someAlloc prefers open allocations (85 %), otherwise any allocation ever created (closed ones included).
func (g *gen) someAlloc() *allocInfo {
	open := g.openAllocs()
	if len(open) > 0 && g.chance(85) {
		return open[g.r.Intn(len(open))]
	}
	return g.anyAlloc()
}

func (g *gen) allocBlobbers(a *allocInfo) []*prov {
	var out []*prov
	if sa := findAlloc(g.prev, a.id); sa != nil {
		for _, b := range sa.Blobbers {
			if p := g.byID[b.BlobberID]; p != nil {
				out = append(out, p)
			}
		}
	}
	return out
}

func (g *gen) blobberOf(a *allocInfo) *prov {
	bs := g.allocBlobbers(a)
	if len(bs) == 0 || g.chance(5) {
		return g.blobbers[g.r.Intn(len(g.blobbers))]
	}
	return bs[g.r.Intn(len(bs))]
}

func (g *gen) outsideBlobbers(a *allocInfo) []*prov {
	in := map[string]bool{}
	for _, b := range g.allocBlobbers(a) {
		in[b.key.ID] = true
	}
	pool := g.blobbers
	if g.isEnt(a) {
		pool = g.eblobbers
	}
	var out []*prov
	for _, b := range pool {
		if !in[b.key.ID] {
			out = append(out, b)
		}
	}
	return out
}

func (g *gen) isEnt(a *allocInfo) bool {
	sa := findAlloc(g.prev, a.id)
	return sa != nil && sa.Present && sa.Enterprise
}

// entTicket: an enterprise (or restricted) blobber authorises an owner by signing the owner's id.
func (g *gen) entTicket(a *allocInfo, nb *prov) string {
	if g.chance(8) {
		return g.clients[3].Sign(g.ownerOf(a).ID) // not the blobber's signature
	}
	return nb.key.Sign(g.ownerOf(a).ID)
}

func (g *gen) ownerOf(a *allocInfo) *world.Key {
	if sa := findAlloc(g.prev, a.id); sa != nil && sa.Present {
		if k := g.w.Keys[sa.Owner]; k != nil {
			return k
		}
	}
	return a.owner
}

// caller returns (key, class) for finalize/cancel/update: owner, one of the blobbers, or a stranger.
func (g *gen) caller(a *allocInfo, pOwner, pBlobber int) (*world.Key, string) {
	x := g.r.Intn(100)
	switch {
	case x < pOwner:
		return g.ownerOf(a), "owner"
	case x < pOwner+pBlobber:
		bs := g.allocBlobbers(a)
		if len(bs) > 0 {
			return bs[g.r.Intn(len(bs))].key, "blobber"
		}
		return g.blobbers[0].key, "blobber"
	default:
		o := g.ownerOf(a)
		for _, c := range g.clients[:3] {
			if c.ID != o.ID {
				return c, "stranger"
			}
		}
		return g.clients[2], "stranger"
	}
}

// ---------------------------------------------------------------- one trace

func (g *gen) random(id int) {
	g.start(id, "random")
	w := g.w
	// reads need a funded read pool: most traces start with one
	if g.chance(70) {
		g.do(g.clients[g.r.Intn(3)], "read_pool_lock", map[string]interface{}{}, g.pickU(20000, 200000), opInfo{variant: "lock"})
	}
	for i := 0; i < g.a.Steps; i++ {
		if i == g.a.Steps-5 && g.chance(45) {
			g.nextBlock(g.pickI(3600, 4000), g.pickI(1, 8)) // end game after every expiration
		} else {
			g.maybeAdvance()
		}
		g.step()
	}
	w.EndBlock()
}

// scenario k: 1 = kill a blobber that holds data, replace it, close after expiry; 2 = kill a blobber twice, try
// to close after expiry; 3 = the delegate shuts its blobber down and empties both stake pool nodes; 4 = free-storage
// markers out of nonce order; 5 = exactly funded tiny writes; 6 = assigner re-registrations between redemptions;
// 7 = challenges passed after failed / expired ones under different blobber_slash settings.
func (g *gen) scenario(id, k int) {
	g.start(id, "scenario-"+itoa(k))
	w := g.w
	a1 := g.allocs[0]
	owner := g.ownerOf(a1)
	kill := func(b *prov, v string) {
		g.do(w.Owner, "kill_blobber", map[string]interface{}{"provider_id": b.key.ID}, 0, opInfo{variant: v, tblob: b.key.ID})
	}
	closeAll := func() {
		g.nextBlock(4000, 2)
		g.do(owner, "finalize_allocation", map[string]interface{}{"allocation_id": a1.id}, 0, opInfo{variant: "owner", target: a1.id})
		g.do(owner, "cancel_allocation", map[string]interface{}{"allocation_id": a1.id}, 0, opInfo{variant: "owner", target: a1.id})
		g.do(g.blobbers[2].key, "finalize_allocation", map[string]interface{}{"allocation_id": a1.id}, 0, opInfo{variant: "blobber", target: a1.id})
	}
	switch k {
	case 1:
		kill(g.blobbers[1], "owner")
		g.nextBlock(60, 1)
		g.do(g.blobbers[5].key, "blobber_health_check", map[string]interface{}{}, 0, opInfo{variant: "one"})
		g.do(owner, "update_allocation_request", map[string]interface{}{"id": a1.id, "add_blobber_id": g.blobbers[5].key.ID, "remove_blobber_id": g.blobbers[1].key.ID}, 0,
			opInfo{variant: "replace-killed-owner", target: a1.id, tblob: g.blobbers[1].key.ID})
		closeAll()
	case 2:
		kill(g.blobbers[0], "owner")
		g.nextBlock(60, 1)
		kill(g.blobbers[0], "again")
		g.do(owner, "update_allocation_request", map[string]interface{}{"id": a1.id, "extend": true}, 0, opInfo{variant: "extend-owner", target: a1.id})
		closeAll()
	case 4:
		// free-storage markers redeemed out of nonce order, then every one of them presented again
		as := g.assigners[0]
		rcp := g.clients[1]
		free := func(nonce int64, variant string) {
			perm := g.r.Perm(len(g.blobbers))
			bs := []*prov{g.blobbers[perm[0]], g.blobbers[perm[1]], g.blobbers[perm[2]]}
			in := g.freeMarkerInput(as, as.key, rcp, 0.00001, nonce, bs, false)
			g.do(rcp, "free_allocation_request", in, 0, opInfo{variant: variant, fmAssigner: as.name, fmRecipient: rcp.ID, fmTokens: 100000, fmNonce: nonce, fmSig: true, fmSigner: as.key})
		}
		base := int64(g.traceID) * 1000
		order := []int64{base + 5, base + 3, base + 9, base + 1}
		for _, n := range order {
			free(n, "valid")
			g.nextBlock(10, 1)
		}
		for _, n := range []int64{base + 3, base + 1, base + 5, base + 9} {
			free(n, "replay")
		}
	case 5:
		// a 1+1 allocation of the minimal size whose write pool holds exactly its cost, then many writes far
		// below the 64 KB chunk (each charged as a whole chunk): the write pool runs dry long before the
		// allocation is full, and every upload after that must move (and book) only what the pool still has
		bs := []*prov{g.blobbers[0], g.blobbers[1]}
		cost := uint64(0)
		for _, b := range bs {
			g.do(b.key, "blobber_health_check", map[string]interface{}{}, 0, opInfo{variant: "one"})
			for _, sb := range g.prev.Blobbers {
				if sb.ID == b.key.ID {
					cost += uint64(float64(sb.WritePrice) * (float64(MB) / float64(1024*MB)))
				}
			}
		}
		own := g.clients[0]
		var al *allocInfo
		for extra := uint64(0); extra < 4 && al == nil; extra++ {
			n := len(g.allocs)
			g.do(own, "new_allocation_request", g.newAllocInput(own, 1, 1, MB, bs), cost+extra, opInfo{variant: "new-exact"})
			if len(g.allocs) > n {
				al = g.allocs[n]
			}
		}
		if al == nil {
			break
		}
		for i := 0; i < 44; i++ {
			b := bs[i%2]
			in, _ := g.writeMarkerInput(g.prev, al, b, g.pickI(1, 1, 1000), int64(w.Now), own, "")
			g.do(b.key, "commit_connection", in, 0, opInfo{variant: "upload-tiny", target: al.id, tblob: b.key.ID})
			if i%8 == 7 {
				g.nextBlock(1, 1)
			}
		}
	case 6:
		// an assigner is re-registered (add_free_storage_assigner for an existing name) between redemptions:
		// limits raised, then lowered below what is already redeemed, then the signing key rotated. What was
		// redeemed before a re-registration stays redeemed (replays), and a total limit below the redeemed
		// amount admits no further grant.
		as := g.assigners[0]
		rcp := g.clients[1]
		base := int64(g.traceID) * 1000
		free := func(signer *world.Key, tokens float64, nonce int64, variant string, sigOK bool) {
			perm := g.r.Perm(len(g.blobbers))
			bs := []*prov{g.blobbers[perm[0]], g.blobbers[perm[1]], g.blobbers[perm[2]]}
			in := g.freeMarkerInput(as, signer, rcp, tokens, nonce, bs, false)
			g.do(rcp, "free_allocation_request", in, 0, opInfo{variant: variant, fmAssigner: as.name, fmRecipient: rcp.ID,
				fmTokens: uint64(tokens*1e10 + 0.5), fmNonce: nonce, fmSig: sigOK, fmSigner: signer})
		}
		replayAll := func(variant string) {
			for _, d := range append([]doneMarker{}, g.fmDone...) {
				op := d.op
				op.variant = variant
				op.fmSig = d.signer == g.registeredKey(as)
				g.do(d.from, "free_allocation_request", d.in, 0, op)
			}
		}
		free(as.key, 0.00001, base+7, "valid", true)
		g.nextBlock(10, 1)
		free(as.key, 0.00002, base+2, "valid", true)
		g.nextBlock(10, 1)
		g.reassign(w.Owner, as, 0.00003, 0.00009, as.key, "raise")
		replayAll("replay-same-rereg")
		g.nextBlock(10, 1)
		free(as.key, 0.00001, base+7, "replay-rereg", true) // new marker, nonce already used
		free(as.key, 0.00001, base+3, "valid", true)
		g.nextBlock(10, 1)
		g.reassign(w.Owner, as, 0.00003, 0.00002, as.key, "lower-below-redeemed")
		free(as.key, 0.00001, base+4, "valid-lowered", true)
		free(as.key, 0.00002, base+5, "valid-lowered", true)
		replayAll("replay-same-rereg")
		g.nextBlock(10, 1)
		g.reassign(g.clients[2], as, 0.00003, 0.0001, as.key, "raise-stranger")
		g.reassign(w.Owner, as, 0.00003, 0.0001, g.spareKey, "raise-rotate")
		free(as.key, 0.00001, base+6, "valid-otherkey", false) // signed with the key that is no longer registered
		free(g.spareKey, 0.00001, base+6, "valid", true)
		free(g.spareKey, 0.00001, base+2, "replay-rereg", true)
		replayAll("replay-same-rereg")
	case 7:
		// a challenge that passes after the same blobber failed one (by its tickets, then by letting one expire) is
		// penalised first: value back to the write pool, the blobber's stake slashed. Played with stake slashing
		// switched off (blobber_slash 0), with a slash that rounds to zero, and with the default.
		for _, slash := range []string{"0", "0.000001", "0.1"} {
			g.do(w.Owner, "update_settings", map[string]interface{}{"fields": map[string]string{"blobber_slash": slash}}, 0, opInfo{variant: "slash-" + slash})
			g.do(g.clients[2], "commit_settings_changes", map[string]interface{}{}, 0, opInfo{variant: "commit"})
			for _, how := range []string{"fail", "expire"} {
				oc := g.challengeOn(a1, nil, 12)
				if oc == nil {
					break
				}
				b := g.byID[oc.ch.BlobberID]
				if how == "fail" {
					g.respond(oc, false, "fail")
				} else {
					g.nextBlock(30, 7) // past max_challenge_completion_rounds
				}
				if oc = g.challengeOn(a1, b, 16); oc == nil {
					break
				}
				g.respond(oc, true, "pass-after-"+how)
				g.nextBlock(20, 1)
			}
		}
	case 8:
		// read markers of one client on one (blobber, allocation) pair, played to the end: genuine reads, a read
		// dearer than what is left in a non-empty read pool, a never-signed higher counter carrying the stored
		// signature of the last redeemed marker, an older counter, a replay, and a read on an emptied pool
		var rb *prov
		perRead := uint64(0)
		for _, b := range g.allocBlobbers(a1) {
			if ba := findBA(findAlloc(g.prev, a1.id), b.key.ID); ba != nil && ba.ReadPrice >= 16384 {
				rb, perRead = b, ba.ReadPrice/16384
				break
			}
		}
		if rb == nil {
			break
		}
		client := g.clients[2]
		key := [3]string{rb.key.ID, client.ID, a1.id}
		if ks := key[0] + key[1] + key[2]; !g.readKeySet[ks] { // the snapshot reads the counters of the registered keys
			g.readKeySet[ks] = true
			g.readKeys = append(g.readKeys, key)
		}
		g.do(client, "read_pool_unlock", map[string]interface{}{}, 0, opInfo{variant: "unlock"})
		g.do(client, "read_pool_lock", map[string]interface{}{}, perRead*7+1, opInfo{variant: "lock"})
		last := int64(0)
		for _, c := range g.prev.ReadCtrs {
			if c.Blobber == rb.key.ID && c.Client == client.ID && c.Allocation == a1.id && c.Present {
				last = c.Counter
			}
		}
		lastSig, lastTS := "", int64(0)
		read := func(ctr int64, variant, reuse string) {
			ts := int64(w.Now)
			in := g.readMarkerInput(a1, rb, client, client, client.Pub, ctr, ts)
			rm := in["read_marker"].(map[string]interface{})
			sigOK := true
			if reuse != "" {
				rm["signature"], sigOK = reuse, false
				if g.chance(50) {
					rm["timestamp"] = lastTS
				}
			}
			res := g.do(rb.key, "read_redeem", in, 0, opInfo{variant: variant, target: a1.id, tblob: rb.key.ID,
				rmClient: client.ID, rmBlobber: rb.key.ID, rmAlloc: a1.id, rmCtr: ctr, rmSig: sigOK})
			if res.Class == "ok" && sigOK {
				lastSig, lastTS = rm["signature"].(string), ts
			}
		}
		read(last+2, "scen-fresh", "") // 2 reads: pool 7p+1 -> 5p+1
		read(last+5, "scen-fresh", "") // 3 more: -> 2p+1
		g.nextBlock(5, 1)
		if lastSig != "" {
			read(last+6, "scen-reusedsig", lastSig) // never signed by the client
		}
		read(last+9, "scen-short", "") // 4 reads, dearer than what is left (2p+1 > 0): refused, nothing credited
		read(last+3, "scen-older", "")
		read(last+5, "scen-replay", "")
		read(last+7, "scen-fresh", "") // 2 more: -> 1
		g.nextBlock(5, 1)
		read(last+8, "scen-short", "") // 1 read against a pool holding 1 token
		g.do(client, "read_pool_unlock", map[string]interface{}{}, 0, opInfo{variant: "unlock"})
		read(last+8, "scen-empty", "")
	case 3:
		b := g.blobbers[3] // serves no allocation
		g.do(b.delegate, "shutdown_blobber", map[string]interface{}{"provider_id": b.key.ID}, 0, opInfo{variant: "delegate", tblob: b.key.ID})
		g.nextBlock(60, 1)
		g.do(b.delegate, "stake_pool_unlock", map[string]interface{}{"provider_type": 3, "provider_id": b.delegate.ID}, 0, opInfo{variant: "unlock-extra", tblob: b.key.ID})
		g.do(b.delegate, "stake_pool_unlock", map[string]interface{}{"provider_type": 3, "provider_id": b.key.ID}, 0, opInfo{variant: "unlock", tblob: b.key.ID})
	}
	w.EndBlock()
}

// challengeOn generates challenges (a new block for each attempt) until allocation a has an open, unexpired
// challenge (for blobber b, if given); nil if none came up within max attempts.
func (g *gen) challengeOn(a *allocInfo, b *prov, max int) *openCh {
	for i := 0; i < max; i++ {
		g.nextBlock(5, 1)
		g.do(g.w.Miners[0], "generate_challenge", map[string]interface{}{"round": g.w.Cur.Round}, 0, opInfo{variant: "gen"})
		var best *openCh
		for _, oc := range g.openChallenges() {
			oc := oc
			if oc.a.id != a.id || oc.ch.Round+6 <= g.w.Cur.Round || (b != nil && oc.ch.BlobberID != b.key.ID) {
				continue
			}
			if best == nil || oc.ch.Created > best.ch.Created {
				best = &oc
			}
		}
		if best != nil {
			return best
		}
	}
	return nil
}

// respond answers an open challenge with all tickets passing or all failing.
func (g *gen) respond(oc *openCh, pass bool, variant string) {
	b := g.byID[oc.ch.BlobberID]
	if b == nil {
		return
	}
	verdicts := make([]bool, len(oc.ch.Validators))
	for i := range verdicts {
		verdicts[i] = pass
	}
	in := g.challengeResponseInput(&oc.ch, verdicts, int64(g.w.Now), false)
	g.do(b.key, "challenge_response", in, 0, opInfo{variant: variant, target: oc.a.id, tblob: b.key.ID})
}

// start forks the base block and opens trace `id`.
func (g *gen) start(id int, kind string) {
	w := g.w
	w.Now = g.baseNow + 5
	w.ColdCache() // see world.ColdCache: no cache contents inherited from sibling forks
	g.beginBlock(g.base, 1)
	g.allocs = append([]*allocInfo{}, g.baseAllocs...)
	g.readKeys, g.readKeySet = nil, map[string]bool{}
	g.lastRM = map[string]lastMarker{}
	g.nonceSeq = 0
	g.fmDone, g.reregd = nil, map[string]bool{}
	g.t0 = w.Now
	g.round0 = w.Cur.Round
	g.rc.TraceID = id - 1
	g.rc.Reset(rec.M{"family": "storage", "kind": kind, "id": id, "seed": g.a.Seed, "steps": g.a.Steps, "extra": g.a.Extra},
		rec.M{"nonces": w.InitNonces(w.CurState)})
	snap := g.snapshot()
	g.w0 = w.Balance(world.Contracts["storagesc"])
	g.l0 = new(big.Int).Set(liabilities(snap).total)
	bal := g.balances()
	g.prev = snap
	m := g.project("init", w.Owner, "init", 0, opInfo{variant: "init"}, snap, bal, bal, false)
	g.rc.Emit(m, "init", false)
}

// maybeAdvance moves block time and rounds forward.
func (g *gen) maybeAdvance() {
	x := g.r.Intn(100)
	switch {
	case x < 50:
		return
	case x < 74:
		g.nextBlock(g.pickI(1, 5, 30), 1)
	case x < 88:
		g.nextBlock(g.pickI(60, 300, 600), g.pickI(1, 2, 3))
	case x < 94:
		g.nextBlock(g.pickI(5, 60), g.pickI(4, 7, 9)) // lets challenges expire
	case x < 98:
		g.nextBlock(g.pickI(900, 1500, 2400), 1)
	default:
		g.nextBlock(g.pickI(3600, 4000, 7300), g.pickI(1, 8)) // past every expiration
	}
}

func (g *gen) step() {
	type act struct {
		w int
		f func()
	}
	acts := []act{
		{14, g.stepWrite}, {9, g.stepGenChallenge}, {12, g.stepChallengeResponse},
		{9, g.stepUpdate}, {7, g.stepFinalize}, {6, g.stepCancel},
		{8, g.stepRead}, {4, g.stepReadPool}, {4, g.stepWritePoolLock},
		{5, g.stepNewAlloc}, {7, g.stepFree}, {4, g.stepHealth}, {4, g.stepFreshLife},
		{4, g.stepBlobberSettings}, {3, g.stepCollect}, {3, g.stepStake}, {3, g.stepReprice},
		{4, g.stepReassign}, {2, g.stepSlashSetting},
	}
	if g.killOK {
		acts = append(acts, act{6, g.stepKill})
	}
	for _, a := range g.openAllocs() {
		if sa := findAlloc(g.prev, a.id); sa != nil && sa.Expiration <= int64(g.w.Now) {
			acts = append(acts, act{25, g.stepFinalize})
			break
		}
	}
	tot := 0
	for _, a := range acts {
		tot += a.w
	}
	x := g.r.Intn(tot)
	for _, a := range acts {
		if x < a.w {
			a.f()
			return
		}
		x -= a.w
	}
}

// ---------------------------------------------------------------- actions

func (g *gen) stepWrite() {
	a := g.someAlloc()
	b := g.blobberOf(a)
	ba := findBA(findAlloc(g.prev, a.id), b.key.ID)
	size := g.pickI(1, 1000, 64*KB, 1*MB, 4*MB, 16*MB, 48*MB, 200*MB)
	if ba != nil && ba.UsedSize+size > ba.Size && g.chance(85) { // mostly stay within the blobber's share
		size = g.pickI(64*KB, 1*MB, 3*MB)
		if free := ba.Size - ba.UsedSize; free > 0 && free < size {
			size = free
		}
	}
	variant := "upload"
	if ba != nil && ba.UsedSize > 0 && g.chance(35) {
		variant = "delete"
		size = -g.pickI(64*KB, 1*MB, ba.UsedSize, ba.UsedSize/2+KB-(ba.UsedSize/2)%KB)
		if -size > ba.UsedSize {
			size = -ba.UsedSize
		}
	}
	ts := int64(g.w.Now)
	signer := g.ownerOf(a)
	tamper := ""
	switch x := g.r.Intn(100); {
	case x < 4: // signed by somebody who is not the owner
		for _, c := range g.clients {
			if c.ID != signer.ID {
				signer = c
				break
			}
		}
		variant += "-badsig"
	case x < 8:
		tamper, variant = "prevroot", variant+"-badroot"
	case x < 12:
		ts -= g.pickI(1, 100, 4000)
		variant += "-oldts"
	case x < 15:
		ts += g.pickI(100, 4000)
		variant += "-futurets"
	}
	in, _ := g.writeMarkerInput(g.prev, a, b, size, ts, signer, tamper)
	from := b.key
	if g.chance(3) {
		from, variant = g.clients[2], variant+"-notblobber"
	}
	g.do(from, "commit_connection", in, 0, opInfo{variant: variant, target: a.id, tblob: b.key.ID})
}

func (g *gen) stepGenChallenge() {
	from := g.w.Miners[0]
	round := g.w.Cur.Round
	variant := "gen"
	if g.chance(5) {
		round--
		variant = "gen-badround"
	}
	g.do(from, "generate_challenge", map[string]interface{}{"round": round}, 0, opInfo{variant: variant})
}

type openCh struct {
	a  *allocInfo
	ch storagesc.VerifStorageOpenChallenge
}

func (g *gen) openChallenges() []openCh {
	var out []openCh
	for _, a := range g.allocs {
		if sa := findAlloc(g.prev, a.id); sa != nil {
			for _, c := range sa.OpenChallenges {
				out = append(out, openCh{a, c})
			}
		}
	}
	return out
}

func (g *gen) stepChallengeResponse() {
	ocs := g.openChallenges()
	if len(ocs) == 0 {
		g.stepGenChallenge()
		return
	}
	// prefer challenges that have not expired (max_challenge_completion_rounds = 6)
	var fresh []openCh
	for _, o := range ocs {
		if o.ch.Round+6 > g.w.Cur.Round {
			fresh = append(fresh, o)
		}
	}
	late := ""
	if len(fresh) > 0 && g.chance(88) {
		ocs = fresh
	} else if len(fresh) == 0 {
		late = "-late"
	}
	oc := ocs[g.r.Intn(len(ocs))]
	if oc.ch.Round+6 <= g.w.Cur.Round {
		late = "-late"
	} else {
		late = ""
	}
	b := g.byID[oc.ch.BlobberID]
	if b == nil {
		return
	}
	n := len(oc.ch.Validators)
	verdicts := make([]bool, n)
	variant := "pass"
	switch x := g.r.Intn(100); {
	case x < 55:
		for i := range verdicts {
			verdicts[i] = true
		}
	case x < 80:
		variant = "fail"
	case x < 88:
		variant = "mixed"
		verdicts[0] = true
	default:
		variant = "fewtickets"
		verdicts = []bool{true}
	}
	forge := false
	if g.chance(5) {
		forge, variant = true, variant+"-forged"
	}
	from := b.key
	if g.chance(5) {
		from, variant = g.blobbers[g.r.Intn(len(g.blobbers))].key, variant+"-otherblobber"
	}
	in := g.challengeResponseInput(&oc.ch, verdicts, int64(g.w.Now), forge)
	g.do(from, "challenge_response", in, 0, opInfo{variant: variant + late, target: oc.a.id, tblob: b.key.ID})
}

func (g *gen) stepUpdate() {
	a := g.someAlloc()
	from, who := g.caller(a, 80, 5)
	in := map[string]interface{}{"id": a.id}
	variant := ""
	value := uint64(0)
	sa := findAlloc(g.prev, a.id)
	data := int64(2)
	if sa != nil && sa.Present && sa.DataShards > 0 {
		data = int64(sa.DataShards)
	}
	switch x := g.r.Intn(100); {
	case x < 25:
		variant = "extend"
		in["extend"] = true
		value = g.pickU(0, 0, 100000, 2000000, 5000000)
	case x < 45:
		variant = "grow"
		in["size"] = g.pickI(2, 16, 64, 300) * MB * data
		value = g.pickU(0, 500000, 3000000, 8000000)
	case x < 60:
		variant = "addblobber"
		out := g.outsideBlobbers(a)
		if len(out) == 0 {
			return
		}
		nb := out[g.r.Intn(len(out))]
		in["add_blobber_id"] = nb.key.ID
		if g.isEnt(a) {
			in["add_blobber_auth_ticket"] = g.entTicket(a, nb)
		}
		value = g.pickU(0, 500000, 3000000)
	case x < 88:
		variant = "replace"
		out := g.outsideBlobbers(a)
		bs := g.allocBlobbers(a)
		if len(out) == 0 || len(bs) == 0 {
			return
		}
		rm := bs[g.r.Intn(len(bs))]
		// prefer to remove a killed blobber when there is one
		for _, b := range bs {
			if pb := findBlobber(g.prev, b.key.ID); pb != nil && (pb.Killed || pb.ShutDown) && g.chance(80) {
				rm = b
				variant = "replace-killed"
			}
		}
		nb := out[g.r.Intn(len(out))]
		in["add_blobber_id"] = nb.key.ID
		if g.isEnt(a) {
			in["add_blobber_auth_ticket"] = g.entTicket(a, nb)
		}
		in["remove_blobber_id"] = rm.key.ID
		value = g.pickU(0, 500000, 3000000)
	case x < 94:
		variant = "thirdparty"
		in["set_third_party_extendable"] = true
	default:
		variant = "reduce"
		in["size"] = -g.pickI(1, 16) * MB * data
	}
	if g.chance(4) {
		in["remove_blobber_id"] = g.blobberOf(a).key.ID
	}
	// the input class is named after what the request finally contains: add + remove = replace (of a live or of a
	// killed / shut-down blobber), remove alone is refused by the contract
	tb := ""
	_, hasAdd := in["add_blobber_id"]
	if id, ok := in["remove_blobber_id"].(string); ok {
		tb = id
		if hasAdd {
			variant = "replace"
			if pb := findBlobber(g.prev, id); pb != nil && (pb.Killed || pb.ShutDown) {
				variant = "replace-killed"
			}
		} else {
			variant += "-removeonly"
		}
	}
	if g.isEnt(a) {
		variant = "ent-" + variant
	}
	g.do(from, "update_allocation_request", in, value, opInfo{variant: variant + "-" + who, target: a.id, tblob: tb})
}

// stepFreshLife: the short life of a brand-new allocation: created, written to one or both of its blobbers
// (sometimes everything deleted again), and then - in the same second as the last write, or after a pause -
// cancelled, or a blobber that holds data replaced. Closing / replacing at the very moment of the last write is
// the case in which no pass payment is due to anybody.
func (g *gen) stepFreshLife() {
	if len(g.allocs) >= 5 {
		g.stepWrite()
		return
	}
	owner := g.clients[g.r.Intn(2)]
	perm := g.r.Perm(len(g.blobbers))
	bs := []*prov{g.blobbers[perm[0]], g.blobbers[perm[1]]}
	for _, b := range bs {
		g.do(b.key, "blobber_health_check", map[string]interface{}{}, 0, opInfo{variant: "one"})
	}
	n := len(g.allocs)
	g.do(owner, "new_allocation_request", g.newAllocInput(owner, 1, 1, g.pickI(8, 64)*MB, bs), g.pickU(800000, 3000000), opInfo{variant: "new-fresh"})
	if len(g.allocs) == n {
		return
	}
	al := g.allocs[n]
	wr := bs[:1+g.r.Intn(2)]
	write := func(b *prov, size int64, variant string) {
		in, _ := g.writeMarkerInput(g.prev, al, b, size, int64(g.w.Now), owner, "")
		g.do(b.key, "commit_connection", in, 0, opInfo{variant: variant, target: al.id, tblob: b.key.ID})
	}
	for _, b := range wr {
		write(b, g.pickI(64*KB, 1*MB, 4*MB), "upload-fresh")
	}
	if g.chance(30) {
		for _, b := range wr {
			if ba := findBA(findAlloc(g.prev, al.id), b.key.ID); ba != nil && ba.UsedSize > 0 {
				write(b, -ba.UsedSize, "delete-fresh")
			}
		}
	}
	pause := "sametime"
	if g.chance(40) {
		g.nextBlock(g.pickI(1, 30, 600), 1)
		pause = "later"
	}
	switch g.r.Intn(3) {
	case 0:
		g.do(owner, "cancel_allocation", map[string]interface{}{"allocation_id": al.id}, 0, opInfo{variant: "fresh-" + pause + "-owner", target: al.id})
	case 1:
		g.do(owner, "cancel_allocation", map[string]interface{}{"allocation_id": al.id}, 0, opInfo{variant: "fresh-" + pause + "-owner", target: al.id})
		g.closeAgain(al)
	default:
		out := g.outsideBlobbers(al)
		if len(out) == 0 {
			return
		}
		nb := out[g.r.Intn(len(out))]
		g.do(nb.key, "blobber_health_check", map[string]interface{}{}, 0, opInfo{variant: "one"})
		g.do(owner, "update_allocation_request", map[string]interface{}{"id": al.id, "add_blobber_id": nb.key.ID, "remove_blobber_id": wr[0].key.ID},
			g.pickU(0, 500000), opInfo{variant: "replace-fresh-" + pause + "-owner", target: al.id, tblob: wr[0].key.ID})
	}
}

func (g *gen) stepFinalize() {
	a := g.someAlloc()
	from, who := g.caller(a, 50, 30)
	g.do(from, "finalize_allocation", map[string]interface{}{"allocation_id": a.id}, 0, opInfo{variant: who, target: a.id})
	if g.lastRes.Class == "ok" && g.chance(50) { // immediate second close attempt
		g.closeAgain(a)
	}
}

func (g *gen) stepCancel() {
	a := g.someAlloc()
	from, who := g.caller(a, 60, 20)
	if who == "owner" && !g.chance(35) && len(g.openAllocs()) <= 1 {
		// keep the only open allocation alive most of the time
		g.stepWrite()
		return
	}
	g.do(from, "cancel_allocation", map[string]interface{}{"allocation_id": a.id}, 0, opInfo{variant: who, target: a.id})
	if g.lastRes.Class == "ok" && g.chance(50) {
		g.closeAgain(a)
	}
}

func (g *gen) closeAgain(a *allocInfo) {
	from, who := g.caller(a, 60, 30)
	switch g.r.Intn(3) {
	case 0:
		g.do(from, "finalize_allocation", map[string]interface{}{"allocation_id": a.id}, 0, opInfo{variant: "again-" + who, target: a.id})
	case 1:
		g.do(from, "cancel_allocation", map[string]interface{}{"allocation_id": a.id}, 0, opInfo{variant: "again-" + who, target: a.id})
	default:
		g.do(from, "write_pool_lock", map[string]interface{}{"allocation_id": a.id}, g.pickU(100, 50000), opInfo{variant: "closed", target: a.id})
	}
}

func (g *gen) stepRead() {
	a := g.someAlloc()
	b := g.blobberOf(a)
	client := g.clients[g.r.Intn(3)]
	// concentrate on few (blobber, client, allocation) keys so that counters really advance: replays, older
	// counters and deltas need a history on the same key
	if len(g.readKeys) > 0 && g.chance(65) {
		k := g.readKeys[g.r.Intn(len(g.readKeys))]
		for _, al := range g.allocs {
			if al.id == k[2] && g.byID[k[0]] != nil && g.w.Keys[k[1]] != nil {
				a, b, client = al, g.byID[k[0]], g.w.Keys[k[1]]
			}
		}
	}
	key := [3]string{b.key.ID, client.ID, a.id}
	ks := key[0] + key[1] + key[2]
	if !g.readKeySet[ks] {
		g.readKeySet[ks] = true
		g.readKeys = append(g.readKeys, key)
	}
	// one read in five goes for an OLDER marker of a key whose counter has already advanced
	forceOlder := false
	if g.chance(20) {
		var adv []storagesc.VerifStorageReadCounter
		for _, c := range g.prev.ReadCtrs {
			if c.Present && c.Counter >= 2 {
				adv = append(adv, c)
			}
		}
		if len(adv) > 0 {
			c := adv[g.r.Intn(len(adv))]
			for _, al := range g.allocs {
				if al.id == c.Allocation && g.byID[c.Blobber] != nil && g.w.Keys[c.Client] != nil {
					a, b, client, forceOlder = al, g.byID[c.Blobber], g.w.Keys[c.Client], true
					key = [3]string{b.key.ID, client.ID, a.id}
				}
			}
		}
	}
	ks = key[0] + key[1] + key[2]
	last := int64(0)
	for _, c := range g.prev.ReadCtrs {
		if c.Blobber == key[0] && c.Client == key[1] && c.Allocation == key[2] && c.Present {
			last = c.Counter
		}
	}
	ctr := last + g.pickI(2, 3, 5, 40)
	variant := "fresh"
	switch x := g.r.Intn(100); {
	case forceOlder:
		ctr, variant = last-g.pickI(1, 1, 3), "older"
		if ctr < 1 {
			ctr = 1
		}
	case x < 14:
		ctr, variant = last, "replay"
	case x < 32 && last > 1: // an older marker of the same key
		ctr, variant = last-g.pickI(1, 3), "older"
		if ctr < 1 {
			ctr = 1
		}
	case x < 35:
		ctr, variant = last-g.pickI(1, 3), "older"
	case x < 38:
		ctr, variant = 0, "zero"
	case x < 41:
		ctr, variant = last+g.pickI(1500, 2000), "huge"
	}
	signer, sigOK, pub := client, true, client.Pub
	switch x := g.r.Intn(100); {
	case x < 7: // signed by somebody else, the client's key in the marker
		signer, sigOK, variant = g.clients[3], false, variant+"-wrongsigner"
	case x < 12: // somebody else's key in the marker under the client's id, consistently signed with it
		signer, sigOK, pub, variant = g.clients[3], false, g.clients[3].Pub, variant+"-wrongkey"
	}
	ts := int64(g.w.Now) - g.pickI(0, 0, 3, 500)
	if rp := readPoolOf(g.prev, client.ID); rp == 0 && g.chance(60) {
		g.do(client, "read_pool_lock", map[string]interface{}{}, g.pickU(5000, 200000), opInfo{variant: "lock"})
	}
	if g.chance(4) {
		ts += g.pickI(4000, 8000)
		variant += "-late"
	}
	from := b.key
	if g.chance(10) {
		from = client
	}
	in := g.readMarkerInput(a, b, client, signer, pub, ctr, ts)
	sig := in["read_marker"].(map[string]interface{})["signature"].(string)
	// a marker the client never signed: higher counter, but signature, key (and timestamp) of the last marker
	// that was redeemed for this key (what the contract keeps in its state and a blobber can read there)
	if lm, ok := g.lastRM[ks]; ok && sigOK && ctr > last && g.chance(12) {
		rm := in["read_marker"].(map[string]interface{})
		rm["signature"] = lm.sig
		if g.chance(50) {
			rm["timestamp"] = lm.ts
		}
		sigOK, variant = false, variant+"-reusedsig"
	}
	res := g.do(from, "read_redeem", in, 0, opInfo{variant: variant, target: a.id, tblob: b.key.ID,
		rmClient: client.ID, rmBlobber: b.key.ID, rmAlloc: a.id, rmCtr: ctr, rmSig: sigOK})
	if res.Class == "ok" && sigOK {
		g.lastRM[ks] = lastMarker{sig, ts}
	}
}

func readPoolOf(s *storagesc.VerifStorageSnap, client string) uint64 {
	for _, r := range s.ReadPools {
		if r.Client == client && r.Present {
			return r.Balance
		}
	}
	return 0
}

func (g *gen) stepReadPool() {
	c := g.clients[g.r.Intn(3)]
	if g.chance(70) {
		in := map[string]interface{}{}
		variant := "lock"
		if g.chance(20) {
			in["target_id"] = g.clients[g.r.Intn(3)].ID
			variant = "lock-for"
		}
		g.do(c, "read_pool_lock", in, g.pickU(0, 100, 5000, 200000), opInfo{variant: variant})
	} else {
		g.do(c, "read_pool_unlock", map[string]interface{}{}, 0, opInfo{variant: "unlock"})
	}
}

func (g *gen) stepWritePoolLock() {
	a := g.someAlloc()
	from := g.clients[g.r.Intn(3)]
	variant := "open"
	if sa := findAlloc(g.prev, a.id); sa == nil || !sa.Present {
		variant = "closed"
	}
	g.do(from, "write_pool_lock", map[string]interface{}{"allocation_id": a.id}, g.pickU(0, 100, 50000, 1500000), opInfo{variant: variant, target: a.id})
}

func (g *gen) stepNewAlloc() {
	if len(g.allocs) >= 4 {
		g.stepWrite()
		return
	}
	owner := g.clients[g.r.Intn(2)]
	if g.chance(28) { // enterprise allocation: 1 data + 1 parity of the three enterprise blobbers
		perm := g.r.Perm(len(g.eblobbers))
		bs := []*prov{g.eblobbers[perm[0]], g.eblobbers[perm[1]]}
		variant, good := "ent", true
		switch x := g.r.Intn(100); {
		case x < 10:
			variant, good = "ent-badticket", false
		case x < 20:
			bs[1] = g.blobbers[g.r.Intn(len(g.blobbers))]
			variant = "ent-mixed"
		}
		for _, b := range bs { // enterprise blobbers must be healthy too
			g.do(b.key, "blobber_health_check", map[string]interface{}{}, 0, opInfo{variant: "one"})
		}
		size := g.pickI(8, 64, 128) * MB
		g.do(owner, "new_allocation_request", g.newEntAllocInput(owner, 1, 1, size, bs, good), g.pickU(100, 800000, 3000000), opInfo{variant: variant})
		return
	}
	data := int(g.pickI(1, 2, 2))
	parity := 1
	n := data + parity
	perm := g.r.Perm(len(g.blobbers))
	var bs []*prov
	for _, i := range perm[:n] {
		bs = append(bs, g.blobbers[i])
	}
	variant := "new"
	if g.chance(15) && n < len(perm) {
		bs = append(bs, g.blobbers[perm[n]]) // one spare
		variant = "new-spare"
	} else if g.chance(15) {
		bs[1] = bs[0] // the same blobber named twice
		variant = "new-dup"
	}
	size := g.pickI(8, 64, 128, 256, 600) * MB * int64(data)
	value := g.pickU(100, 800000, 3000000, 6000000)
	if variant == "new-dup" {
		size, value = g.pickI(8, 64)*MB*int64(data), g.pickU(3000000, 6000000)
	}
	g.do(owner, "new_allocation_request", g.newAllocInput(owner, data, parity, size, bs), value, opInfo{variant: variant})
}

// assignerState: the assigner's node in the last snapshot (nil if the driver does not know the name).
func (g *gen) assignerState(name string) *storagesc.VerifStorageAssigner {
	for i := range g.prev.Assigners {
		if g.prev.Assigners[i].ID == name {
			return &g.prev.Assigners[i]
		}
	}
	return nil
}

// registeredKey: the signing key the contract holds for the assigner right now (nil: not registered).
func (g *gen) registeredKey(as *assigner) *world.Key {
	sa := g.assignerState(as.name)
	if sa == nil || !sa.Present {
		return nil
	}
	for _, k := range []*world.Key{as.key, g.spareKey} {
		if k.Pub == sa.PublicKey {
			return k
		}
	}
	return nil
}

// otherKey: the assigner key that is NOT k (base key <-> spare key).
func (g *gen) otherKey(as *assigner, k *world.Key) *world.Key {
	if k == as.key {
		return g.spareKey
	}
	return as.key
}

func (g *gen) stepFree() {
	as := g.assigners[g.r.Intn(len(g.assigners))]
	if g.registeredKey(as) == nil && !g.chance(15) {
		as = g.assigners[g.r.Intn(2)] // the two assigners of the base block
	}
	recipient := g.clients[g.r.Intn(3)]
	from := recipient
	reg := g.registeredKey(as)
	signer := reg
	if signer == nil {
		signer = as.key
	}
	tokens := []float64{0.00001, 0.00001, 0.00002, 0.00003, 0.00004, 0.000004}[g.r.Intn(6)]
	g.nonceSeq++
	nonce := int64(g.traceID)*1000 + g.nonceSeq
	if g.chance(40) {
		// a second, descending series: markers are then redeemed out of nonce order
		nonce = int64(g.traceID)*1000 + 999 - g.nonceSeq
	}
	variant := "valid"
	sigOK := reg != nil
	if reg == nil {
		variant = "unregistered"
	}
	tamper := false
	// replay a marker this trace has already redeemed with this assigner. The driver remembers them itself: what
	// it presents again must not depend on what the contract still remembers (after a re-registration, say)
	var done []doneMarker
	for _, d := range g.fmDone {
		if d.op.fmAssigner == as.name {
			done = append(done, d)
		}
	}
	if len(done) > 0 && g.chance(25+20*b2i(g.reregd[as.name])) {
		d := done[g.r.Intn(len(done))]
		sfx := ""
		if g.reregd[as.name] {
			sfx = "-rereg"
		}
		if g.chance(50) { // the very same marker, bit by bit, from the same caller
			op := d.op
			op.variant = "replay-same" + sfx
			op.fmSig = reg != nil && d.signer == reg
			g.do(d.from, "free_allocation_request", d.in, 0, op)
			return
		}
		nonce, variant = d.op.fmNonce, "replay"+sfx // a freshly signed marker that reuses the nonce
	}
	if sa := g.assignerState(as.name); variant == "valid" && sa != nil && sa.Redeemed > sa.TotLimit {
		variant = "valid-lowered" // the total limit was lowered below what is already redeemed
	}
	switch x := g.r.Intn(100); {
	case x < 8:
		from, variant = g.clients[(g.r.Intn(2)+1+indexOf(g.clients, recipient))%3], variant+"-wrongcaller"
	case x < 14:
		signer, sigOK, variant = g.clients[3], false, variant+"-forged"
	case x < 18:
		signer, sigOK, variant = g.assigners[(indexOfA(g.assigners, as)+1)%2].key, false, variant+"-otherassigner"
	case x < 22:
		tamper, sigOK, variant = true, false, variant+"-tampered"
	case x < 30 && reg != nil && g.reregd[as.name]:
		// the assigner's other key: the one it was registered with before a key rotation (or never)
		signer, sigOK, variant = g.otherKey(as, reg), false, variant+"-otherkey"
	}
	if len(g.allocs) >= 5 { // keep the projection small: only failing requests from now on
		if sigOK && from == recipient && (variant == "valid" || variant == "valid-lowered") {
			signer, sigOK, variant = g.clients[3], false, "valid-forged"
		}
	}
	perm := g.r.Perm(len(g.blobbers))
	bs := []*prov{g.blobbers[perm[0]], g.blobbers[perm[1]], g.blobbers[perm[2]]}
	in := g.freeMarkerInput(as, signer, recipient, tokens, nonce, bs, tamper)
	units := uint64(tokens*1e10 + 0.5)
	if tamper {
		units *= 2
	}
	g.do(from, "free_allocation_request", in, 0, opInfo{variant: variant, fmAssigner: as.name, fmRecipient: recipient.ID, fmTokens: units, fmNonce: nonce, fmSig: sigOK, fmSigner: signer})
}

func b2i(b bool) int {
	if b {
		return 1
	}
	return 0
}

// reassign: add_free_storage_assigner for assigner `as` with the given limits (ZCN) and signing key.
func (g *gen) reassign(from *world.Key, as *assigner, ind, tot float64, key *world.Key, variant string) world.Result {
	existed := g.registeredKey(as) != nil || (g.assignerState(as.name) != nil && g.assignerState(as.name).Present)
	res := g.do(from, "add_free_storage_assigner", map[string]interface{}{
		"name": as.name, "public_key": key.Pub, "individual_limit": ind, "total_limit": tot}, 0,
		opInfo{variant: variant, fmAssigner: as.name})
	if res.Class == "ok" && existed {
		g.reregd[as.name] = true
	}
	return res
}

// stepReassign: the contract owner (or, rarely, somebody else) calls add_free_storage_assigner for an assigner
// that is already registered - other limits (raised, lowered, lowered below what is already redeemed), sometimes
// another signing key - or registers fa3 for the first time. Redemptions and replays go on around it (stepFree).
func (g *gen) stepReassign() {
	as := g.assigners[g.r.Intn(len(g.assigners))]
	sa := g.assignerState(as.name)
	ind := []float64{0.00001, 0.00002, 0.00003, 0.00005}[g.r.Intn(4)]
	tot := []float64{0.00002, 0.00004, 0.00007, 0.0001}[g.r.Intn(4)]
	variant := "limits"
	key := g.registeredKey(as)
	if key == nil {
		key, variant = as.key, "new"
	}
	if sa != nil && sa.Present && sa.Redeemed > 0 && g.chance(45) {
		// wind the assigner down: a total limit below what it has already redeemed
		d := g.pickU(1, 100000, sa.Redeemed/2, sa.Redeemed)
		if d > sa.Redeemed {
			d = sa.Redeemed
		}
		low := sa.Redeemed - d
		tot, variant = float64(low)/1e10, "lower-below-redeemed"
	} else if g.chance(10) {
		tot, variant = 20000, variant+"-abovemax" // above max_total_free_allocation
	}
	if variant != "new" && g.chance(15) {
		key, variant = g.otherKey(as, key), variant+"-rotate"
	}
	from := g.w.Owner
	if g.chance(12) {
		from, variant = g.clients[2], variant+"-stranger"
	}
	g.reassign(from, as, ind, tot, key, variant)
	if g.chance(50) {
		g.stepFree()
	}
}

// stepSlashSetting: the contract owner changes storagesc.blobber_slash (0 = stake slashing off, tiny, default) and
// the recorded change is committed; challenges that pass after a failed / expired one are then penalised with
// no, a rounded-to-zero or an ordinary stake slash.
func (g *gen) stepSlashSetting() {
	v := []string{"0", "0", "0.000001", "0.1", "0.5"}[g.r.Intn(5)]
	from, variant := g.w.Owner, "slash-"+v
	if g.chance(10) {
		from, variant = g.clients[2], variant+"-stranger"
	}
	g.do(from, "update_settings", map[string]interface{}{"fields": map[string]string{"blobber_slash": v}}, 0, opInfo{variant: variant})
	g.do(g.clients[g.r.Intn(3)], "commit_settings_changes", map[string]interface{}{}, 0, opInfo{variant: "commit"})
}

func indexOf(ks []*world.Key, k *world.Key) int {
	for i := range ks {
		if ks[i] == k {
			return i
		}
	}
	return 0
}

func indexOfA(as []*assigner, a *assigner) int {
	for i := range as {
		if as[i] == a {
			return i
		}
	}
	return 0
}

func (g *gen) stepHealth() {
	if g.chance(35) { // everybody
		for _, b := range append(append([]*prov{}, g.blobbers...), g.eblobbers...) {
			g.do(b.key, "blobber_health_check", map[string]interface{}{}, 0, opInfo{variant: "all"})
		}
		for _, v := range g.validators {
			g.do(v.key, "validator_health_check", map[string]interface{}{}, 0, opInfo{variant: "all"})
		}
		return
	}
	b := g.blobbers[g.r.Intn(len(g.blobbers))]
	g.do(b.key, "blobber_health_check", map[string]interface{}{}, 0, opInfo{variant: "one"})
}

func (g *gen) anyBlobber() *prov {
	if g.chance(20) {
		return g.eblobbers[g.r.Intn(len(g.eblobbers))]
	}
	return g.blobbers[g.r.Intn(len(g.blobbers))]
}

func (g *gen) stepBlobberSettings() {
	b := g.anyBlobber()
	in := map[string]interface{}{"id": b.key.ID}
	variant := ""
	switch g.r.Intn(4) {
	case 0:
		variant = "wprice"
		in["terms"] = map[string]interface{}{"write_price": g.pickU(100000, 1000000, 2000000, 4000000, 8000000, 30000000)}
	case 1:
		variant = "rprice"
		in["terms"] = map[string]interface{}{"read_price": g.pickU(0, 16384*5, 16384*40)}
	case 2:
		variant = "capacity"
		in["capacity"] = g.pickI(40, 128, 256, 512, 2048) * MB
	default:
		variant = "notavailable"
		in["not_available"] = g.chance(50)
	}
	from := b.delegate
	if g.chance(10) {
		from, variant = b.key, variant+"-notdelegate"
	}
	g.do(from, "update_blobber_settings", in, 0, opInfo{variant: variant, tblob: b.key.ID})
}

// stepReprice: a blobber that stores data of an open allocation changes its write price (often to the minimum),
// then the owner extends the allocation: adjustChallengePool moves value out of / into the challenge pool with
// the new terms (DESIGN §7 #19: the per-blobber value is adjusted with unchecked arithmetic).
func (g *gen) stepReprice() {
	type cand struct {
		a *allocInfo
		b *prov
	}
	var cs []cand
	for _, a := range g.openAllocs() {
		sa := findAlloc(g.prev, a.id)
		for _, ba := range sa.Blobbers {
			if ba.UsedSize > 0 && g.byID[ba.BlobberID] != nil {
				cs = append(cs, cand{a, g.byID[ba.BlobberID]})
			}
		}
	}
	if len(cs) == 0 {
		g.stepWrite()
		return
	}
	c := cs[g.r.Intn(len(cs))]
	price := g.pickU(100000, 100000, 500000, 1000000, 16000000)
	g.do(c.b.delegate, "update_blobber_settings", map[string]interface{}{"id": c.b.key.ID, "terms": map[string]interface{}{"write_price": price}}, 0,
		opInfo{variant: "wprice", tblob: c.b.key.ID})
	if g.chance(30) {
		g.nextBlock(g.pickI(5, 300, 1200), 1)
	}
	g.do(g.ownerOf(c.a), "update_allocation_request", map[string]interface{}{"id": c.a.id, "extend": true}, g.pickU(0, 2000000, 6000000),
		opInfo{variant: "extend-owner", target: c.a.id})
}

func (g *gen) stepCollect() {
	ps := append(append(append([]*prov{}, g.blobbers...), g.eblobbers...), g.validators...)
	p := ps[g.r.Intn(len(ps))]
	pt := 3
	if p.name[0] == 'v' {
		pt = 4
	}
	g.do(p.delegate, "collect_reward", map[string]interface{}{"provider_id": p.key.ID, "provider_type": pt}, 0, opInfo{variant: "delegate", tblob: p.key.ID})
}

func (g *gen) stepStake() {
	b := g.anyBlobber()
	if g.chance(65) {
		from := b.delegate
		if g.chance(30) {
			from = g.clients[2]
		}
		g.do(from, "stake_pool_lock", map[string]interface{}{"provider_type": 3, "provider_id": b.key.ID}, g.pickU(0, 1000, 500000, 3000000), opInfo{variant: "lock", tblob: b.key.ID})
	} else {
		from := b.delegate
		if g.chance(30) {
			from = g.clients[2]
		}
		pid, variant := b.key.ID, "unlock"
		if len(g.prev.ExtraPools) > 0 && g.chance(60) { // a stake pool node saved under a non-provider id: try to empty it
			x := g.prev.ExtraPools[g.r.Intn(len(g.prev.ExtraPools))]
			if k := g.w.Keys[x.ID]; k != nil {
				from, pid, variant = k, x.ID, "unlock-extra"
			}
		}
		g.do(from, "stake_pool_unlock", map[string]interface{}{"provider_type": 3, "provider_id": pid}, 0, opInfo{variant: variant, tblob: b.key.ID})
	}
}

func (g *gen) stepKill() {
	// kill (or shut down) a blobber; prefer one that serves an open allocation
	var cands []*prov
	serves := map[string]*allocInfo{}
	for _, a := range g.openAllocs() {
		for _, b := range g.allocBlobbers(a) {
			cands = append(cands, b)
			serves[b.key.ID] = a
		}
	}
	if len(cands) == 0 || g.chance(20) {
		cands = g.blobbers
	}
	b := cands[g.r.Intn(len(cands))]
	// "again" = the blobber is already killed or shut down (the contract then only "refreshes" it)
	v := func(who string) string {
		if pb := findBlobber(g.prev, b.key.ID); pb != nil && (pb.Killed || pb.ShutDown) {
			return "again"
		}
		return who
	}
	switch x := g.r.Intn(100); {
	case x < 50:
		g.do(g.w.Owner, "kill_blobber", map[string]interface{}{"provider_id": b.key.ID}, 0, opInfo{variant: v("owner"), tblob: b.key.ID})
	case x < 60:
		g.do(g.clients[2], "kill_blobber", map[string]interface{}{"provider_id": b.key.ID}, 0, opInfo{variant: "stranger", tblob: b.key.ID})
	case x < 80:
		g.do(b.delegate, "shutdown_blobber", map[string]interface{}{"provider_id": b.key.ID}, 0, opInfo{variant: v("delegate"), tblob: b.key.ID})
	case x < 92:
		g.do(g.w.Owner, "shutdown_blobber", map[string]interface{}{"provider_id": b.key.ID}, 0, opInfo{variant: v("owner"), tblob: b.key.ID})
	default:
		g.do(g.clients[2], "shutdown_blobber", map[string]interface{}{"provider_id": b.key.ID}, 0, opInfo{variant: v("stranger"), tblob: b.key.ID})
	}
	// the owner of an allocation served by a dead blobber replaces it right away, half of the time
	if a := serves[b.key.ID]; a != nil && g.chance(50) {
		if pb := findBlobber(g.prev, b.key.ID); pb != nil && (pb.Killed || pb.ShutDown) {
			g.replace(a, b)
		}
	}
}

// replace asks the owner to swap blobber rm of allocation a for a live blobber outside the allocation.
func (g *gen) replace(a *allocInfo, rm *prov) {
	var out []*prov
	for _, b := range g.outsideBlobbers(a) {
		if pb := findBlobber(g.prev, b.key.ID); pb != nil && pb.Present && !pb.Killed && !pb.ShutDown {
			out = append(out, b)
		}
	}
	if len(out) == 0 {
		return
	}
	// the incoming blobber must be healthy
	nb := out[g.r.Intn(len(out))]
	g.do(nb.key, "blobber_health_check", map[string]interface{}{}, 0, opInfo{variant: "one"})
	in := map[string]interface{}{"id": a.id, "add_blobber_id": nb.key.ID, "remove_blobber_id": rm.key.ID}
	variant := "replace-killed-owner"
	if g.isEnt(a) {
		in["add_blobber_auth_ticket"] = nb.key.Sign(g.ownerOf(a).ID)
		variant = "ent-replace-killed-owner"
	}
	g.do(g.ownerOf(a), "update_allocation_request", in, g.pickU(0, 500000, 3000000), opInfo{variant: variant, target: a.id, tblob: rm.key.ID})
}

var _ = zcommon.Timestamp(0)
