// Package lfbticket drives the REAL LFB-ticket machinery of chain.Chain (property C41): the real
// worker goroutine StartLFBTicketWorker runs on a real chain whose own node is a sharder; tickets
// are delivered through the real HTTP handler LFBTicketHandler (httptest request with the JSON
// body a peer would post), local finalizations through BroadcastLFBTicket, unsigned bumps through
// AddReceivedLFBTicket; after every input (or short burst of inputs) the worker is allowed to
// drain its queues and GetLatestLFBTicket is read.
//
// The worker can be started once per process and its `latest` only grows, so every trace works in
// the rounds above the ticket it finds at its start and logs rounds relative to that.
package lfbticket

import (
	"bytes"
	"context"
	"encoding/json"
	"fmt"
	"math/rand"
	"net/http"
	"net/http/httptest"
	"runtime"
	"time"

	"0chain.net/chaincore/block"
	"0chain.net/chaincore/chain"
	"0chain.net/chaincore/node"
	"0chain.net/core/encryption"

	"verif/harness/common"
	"verif/harness/rec"
	"verif/harness/world"
)

func init() { common.Register("lfbticket", Run) }

type drv struct {
	w    *world.World
	c    *chain.Chain
	rc   *rec.Recorder
	r    *rand.Rand
	ctx  context.Context
	keys map[string]*world.Key // signer class -> key
	base int64
	sent map[string]int // signature -> ticket number within the trace
	n    int
}

// Run is the driver entry point.
func Run(a common.Args) {
	w := world.New(world.Options{Clients: 2, Miners: 2, Sharders: 2})
	defer w.Close()
	rc := rec.New(a.Out)
	defer rc.Close()
	ctx, cancel := context.WithCancel(context.Background())
	defer cancel()
	c := w.Chain

	// this node is sharder s1 of the magic block (only sharders broadcast tickets)
	node.Self.Node = w.SharderNodes[0]
	if err := node.Self.SetSignatureScheme(w.Sharders[0].Scheme); err != nil {
		rec.Fatal("self scheme: %v", err)
	}
	// a registered sharder that is NOT in the magic block (e.g. left with the previous view change)
	xs := w.NewKey("xs1")
	xn := node.Provider()
	xn.ID, xn.PublicKey, xn.Type = xs.ID, xs.Pub, node.NodeTypeSharder
	xn.Host, xn.N2NHost, xn.Port = "localhost", "localhost", 7199
	xn.SetSignatureSchemeType(encryption.SignatureSchemeBls0chain)
	if err := xn.SetPublicKey(xs.Pub); err != nil {
		rec.Fatal("xs key: %v", err)
	}
	node.RegisterNode(xn)
	unknown := w.NewKey("u1") // has keys, is not a registered node

	chain.SetupLFBTicketSender()
	go c.StartLFBTicketWorker(ctx, w.Genesis)

	d := &drv{w: w, c: c, rc: rc, ctx: ctx, keys: map[string]*world.Key{
		"self": w.Sharders[0], "sharder": w.Sharders[1], "miner": w.Miners[0], "exsharder": xs, "unknown": unknown,
	}}
	id := 0
	for i := 0; i < a.N; i++ {
		id++
		if a.Only != 0 && a.Only != id {
			rc.TraceID = id
			continue
		}
		d.r = common.TraceRand(a.Seed, id)
		d.trace(id, a)
	}
}

type tkt struct {
	Round  int64  // relative
	Signer string // class claimed in SharderID
	Sig    string // ok | otherkey | otherround | garbage | empty
}

func (d *drv) makeTicket(t tkt) *chain.LFBTicket {
	k := d.keys[t.Signer]
	tk := &chain.LFBTicket{Round: d.base + t.Round, SharderID: k.ID,
		LFBHash: encryption.Hash(fmt.Sprintf("lfb:%d:%d", d.base+t.Round, d.r.Intn(3)))}
	switch t.Sig {
	case "ok":
		tk.Sign = k.Sign(tk.Hash())
	case "otherkey": // signed by somebody else than the claimed sender
		o := d.keys["miner"]
		if t.Signer == "miner" {
			o = d.keys["sharder"]
		}
		tk.Sign = o.Sign(tk.Hash())
	case "otherround": // a genuine signature of the sender, for another round
		tk.Round++
		tk.Sign = k.Sign(tk.Hash())
		tk.Round--
	case "garbage":
		tk.Sign = encryption.Hash("garbage")
	case "empty":
		tk.Sign = ""
	}
	return tk
}

// submit posts the ticket to the real handler.
func (d *drv) submit(t tkt) {
	tk := d.makeTicket(t)
	d.n++
	if tk.Sign != "" {
		d.sent[tk.Sign] = d.n
	}
	body, _ := json.Marshal(tk)
	req := httptest.NewRequest(http.MethodPost, "/v1/block/get/latest_finalized_ticket", bytes.NewReader(body))
	_, err := chain.LFBTicketHandler(d.ctx, req)
	direct := d.c.VerifVerifyLFBTicket(tk)
	d.rc.Emit(rec.M{"ev": "Submit", "tid": d.n, "round": t.Round, "signer": t.Signer, "sig": t.Sig,
		"handler_ok": err == nil, "verify": direct}, fmt.Sprintf("%s/%s/%v", t.Signer, t.Sig, err == nil), false)
}

func (d *drv) broadcast(r int64) {
	b := block.NewBlock(d.c.GetKey(), d.base+r)
	b.Hash = encryption.Hash(fmt.Sprintf("own:%d", d.base+r))
	d.c.BroadcastLFBTicket(d.ctx, b)
	d.rc.Emit(rec.M{"ev": "Broadcast", "round": r}, "broadcast", false)
}

func (d *drv) kick(r int64) {
	d.c.AddReceivedLFBTicket(d.ctx, &chain.LFBTicket{Round: d.base + r})
	d.rc.Emit(rec.M{"ev": "Kick", "round": r}, "kick", false)
}

// latest lets the worker drain its queues, then reads the ticket the node reports.
func (d *drv) latest(prev int64) int64 {
	deadline := time.Now().Add(5 * time.Second)
	for d.c.VerifLFBTicketPending() > 0 && time.Now().Before(deadline) {
		time.Sleep(50 * time.Microsecond)
	}
	stuck := d.c.VerifLFBTicketPending() > 0
	ctx, cancel := context.WithTimeout(d.ctx, 5*time.Second)
	defer cancel()
	tk := d.c.GetLatestLFBTicket(ctx)
	if tk == nil {
		d.rc.Emit(rec.M{"ev": "Latest", "round": -1, "src": "none", "signer": "none", "registered": false, "in_mb_sharders": false,
			"sig_ok": false, "tid": 0, "stuck": true}, "none", false)
		return prev
	}
	src, signer, registered, inMB, sigOK, tid := "recv", "unknown", false, false, false, 0
	switch {
	case tk.IsOwn:
		src, signer = "own", "self"
	case tk.Sign == "":
		src, signer = "kick", "none"
	default:
		for cls, k := range d.keys {
			if k.ID == tk.SharderID {
				signer = cls
				if ok, err := k.Scheme.Verify(tk.Sign, tk.Hash()); err == nil && ok {
					sigOK = true
				}
			}
		}
		tid = d.sent[tk.Sign]
	}
	if src == "recv" {
		registered = node.GetNode(tk.SharderID) != nil
		mb := d.c.GetMagicBlock(tk.Round)
		inMB = mb != nil && mb.Sharders.GetNode(tk.SharderID) != nil
	}
	rel := tk.Round - d.base
	shape := "same"
	if rel > prev {
		shape = "adopt/" + src + "/" + signer
	} else if rel < prev {
		shape = "BACKWARDS"
	}
	d.rc.Emit(rec.M{"ev": "Latest", "round": rel, "src": src, "signer": signer, "registered": registered, "in_mb_sharders": inMB,
		"sig_ok": sigOK, "tid": tid, "stuck": stuck}, shape, rel != prev)
	return rel
}

// burst delivers several inputs so that the worker finds them queued TOGETHER (its drain loops pick one of a
// batch). The handler's two steps are taken apart for that: every ticket is first checked with the real
// verifyLFBTicket (what LFBTicketHandler does before enqueuing; BLS verification is a cgo call during which the
// worker would run), then all accepted tickets are enqueued back to back with the real AddReceivedLFBTicket /
// BroadcastLFBTicket while the process runs on a single P, so the worker cannot take the first before the last
// is queued. Half of the bursts are "newest first, stale last".
func (d *drv) burst(cur int64, n int) {
	signers := []string{"sharder", "sharder", "self", "miner", "exsharder", "unknown"}
	type input struct {
		kind string
		t    tkt
		r    int64
		tk   *chain.LFBTicket
		b    *block.Block
		ok   bool
	}
	var ins []input
	if d.r.Intn(2) == 0 {
		up := cur + 1 + int64(d.r.Intn(2))
		down := cur - 1 - int64(d.r.Intn(2))
		if down < 1 {
			down = 1
		}
		ins = append(ins, input{kind: "submit", t: tkt{Round: up, Signer: "sharder", Sig: "ok"}},
			input{kind: "submit", t: tkt{Round: down, Signer: "sharder", Sig: "ok"}})
		if n > 2 {
			ins = append(ins, input{kind: "submit", t: tkt{Round: down, Signer: "sharder", Sig: "ok"}})
		}
	} else {
		for j := 0; j < n; j++ {
			r := cur + int64(d.r.Intn(5)) - 2
			if r < 1 {
				r = 1
			}
			switch x := d.r.Intn(10); {
			case x < 7:
				ins = append(ins, input{kind: "submit", t: tkt{Round: r, Signer: signers[d.r.Intn(len(signers))], Sig: sigKinds[d.r.Intn(len(sigKinds))]}})
			case x < 9:
				ins = append(ins, input{kind: "broadcast", r: r})
			default:
				ins = append(ins, input{kind: "kick", r: r})
			}
		}
	}
	for i := range ins {
		in := &ins[i]
		switch in.kind {
		case "submit":
			in.tk = d.makeTicket(in.t)
			in.ok = d.c.VerifVerifyLFBTicket(in.tk)
		case "broadcast":
			in.b = block.NewBlock(d.c.GetKey(), d.base+in.r)
			in.b.Hash = encryption.Hash(fmt.Sprintf("own:%d", d.base+in.r))
		case "kick":
			in.tk = &chain.LFBTicket{Round: d.base + in.r}
		}
	}
	procs := runtime.GOMAXPROCS(1)
	for i := range ins {
		in := &ins[i]
		switch {
		case in.kind == "submit" && in.ok, in.kind == "kick":
			d.c.AddReceivedLFBTicket(d.ctx, in.tk)
		case in.kind == "broadcast":
			d.c.BroadcastLFBTicket(d.ctx, in.b)
		}
	}
	runtime.GOMAXPROCS(procs)
	for _, in := range ins {
		switch in.kind {
		case "submit":
			d.n++
			if in.tk.Sign != "" {
				d.sent[in.tk.Sign] = d.n
			}
			d.rc.Emit(rec.M{"ev": "Submit", "tid": d.n, "round": in.t.Round, "signer": in.t.Signer, "sig": in.t.Sig,
				"handler_ok": in.ok, "verify": in.ok}, fmt.Sprintf("%s/%s/%v/burst", in.t.Signer, in.t.Sig, in.ok), false)
		case "broadcast":
			d.rc.Emit(rec.M{"ev": "Broadcast", "round": in.r}, "broadcast", false)
		case "kick":
			d.rc.Emit(rec.M{"ev": "Kick", "round": in.r}, "kick", false)
		}
	}
}

var sigKinds = []string{"ok", "ok", "ok", "otherkey", "otherround", "garbage", "empty"}

func (d *drv) trace(id int, a common.Args) {
	ctx, cancel := context.WithTimeout(d.ctx, 5*time.Second)
	tk := d.c.GetLatestLFBTicket(ctx)
	cancel()
	if tk == nil {
		rec.Fatal("LFB ticket worker does not answer")
	}
	// start from an own ticket one round up, whatever the previous trace left in the worker
	nb := block.NewBlock(d.c.GetKey(), tk.Round+1)
	nb.Hash = encryption.Hash(fmt.Sprintf("base:%d", tk.Round+1))
	d.c.BroadcastLFBTicket(d.ctx, nb)
	for d.c.VerifLFBTicketPending() > 0 {
		time.Sleep(50 * time.Microsecond)
	}
	d.base = tk.Round + 1
	d.sent, d.n = map[string]int{}, 0
	d.rc.TraceID = id - 1
	d.rc.Reset(rec.M{"family": "lfbticket", "id": id, "seed": a.Seed, "steps": a.Steps}, rec.M{"round": 0})
	cur := d.latest(0)
	signers := []string{"sharder", "sharder", "self", "miner", "exsharder", "unknown"}
	for i := 0; i < a.Steps; i++ {
		burst := 1
		if id%3 == 0 && d.r.Intn(3) == 0 {
			// every third trace: several inputs before the worker is observed (exercises the drain
			// loops; how the worker batches them is up to the scheduler). The other traces are
			// strictly one input per observation, hence fully deterministic.
			burst = 2 + d.r.Intn(2)
		}
		if burst > 1 {
			d.burst(cur, burst)
			cur = d.latest(cur)
			continue
		}
		for j := 0; j < burst; j++ {
			// rounds around the current one: below, equal, above
			r := cur + int64(d.r.Intn(5)) - 2
			if r < 1 {
				r = 1
			}
			switch x := d.r.Intn(10); {
			case x < 7:
				t := tkt{Round: r, Signer: signers[d.r.Intn(len(signers))], Sig: sigKinds[d.r.Intn(len(sigKinds))]}
				d.submit(t)
			case x < 9:
				d.broadcast(r)
			default:
				d.kick(r)
			}
		}
		cur = d.latest(cur)
	}
}
