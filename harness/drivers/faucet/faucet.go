// Package faucet drives the real faucet contract (pour / refill / update-settings) through the real
// Chain.UpdateState with arbitrary requested values, several clients and block times that cross the
// individual and global reset windows (C17).  After every transaction it logs what was REALLY
// transferred (balance deltas read back from the MPT) and the contract's stored nodes.
package faucet

import (
	"encoding/json"
	"fmt"
	"math/rand"
	"strconv"
	"time"

	"0chain.net/chaincore/chain"
	"0chain.net/chaincore/transaction"
	zcommon "0chain.net/core/common"
	"0chain.net/core/config"
	"0chain.net/core/encryption"
	"0chain.net/smartcontract/faucetsc"
	"github.com/0chain/common/core/statecache"

	"verif/harness/common"
	"verif/harness/rec"
	"verif/harness/world"
)

const (
	noneT   = -(int64(1) << 29)
	capV    = int64(1) << 29
	scale   = 100 // model amount unit -> token units
	tick    = 100 // model time unit -> seconds
	baseNow = 1700000000
	initBal = 7 * scale // faucet wallet at genesis (model: InitBal = 7)
)

// cfg is a faucet configuration in token units / seconds.
type cfg struct {
	Pour, MaxPour, Periodic, Global uint64
	Ind, G                          int64
}

var genesisCfg = cfg{2 * scale, 4 * scale, 6 * scale, 9 * scale, 1 * tick, 2 * tick} // = MC_Faucet!CfgA

// configurations the random histories install with real update-settings transactions
var cfgs = []cfg{
	genesisCfg,
	{1 * scale, 3 * scale, 3 * scale, 5 * scale, 2 * tick, 2 * tick}, // CfgB
	{500, 2000, 5000, 20000, 3 * 3600, 48 * 3600},                    // harness/config/sc.yaml
	{2 * scale, 4 * scale, 6 * scale, 9 * scale, 2 * tick, 4 * tick}, // CfgC
	{1, 2, 2, 2, 1, 1},
	{500, 501, 1000, 1500, 60, 3600},
	{300, 1000, 1000, 1000, 50, 50},
}

func zcn(units uint64) string { return strconv.FormatFloat(float64(units)/1e10, 'f', 10, 64) }

func (c cfg) fields() map[string]string {
	return map[string]string{
		"pour_amount": zcn(c.Pour), "max_pour_amount": zcn(c.MaxPour), "periodic_limit": zcn(c.Periodic),
		"global_limit": zcn(c.Global), "individual_reset": fmt.Sprintf("%ds", c.Ind), "global_rest": fmt.Sprintf("%ds", c.G),
	}
}

type drv struct {
	w       *world.World
	rc      *rec.Recorder
	r       *rand.Rand
	t0      int64
	clients []*world.Key
	faucet  string
}

func init() { common.Register("faucet", Run) }

func Run(a common.Args) {
	const nClients, nMiners, nSharders = 3, 2, 1
	const tokens = uint64(1e15)
	total := uint64(config.MaxTokenSupply)
	share := total - 3*(total/10)
	sink := share - tokens*(1+nClients+nMiners+nSharders) - initBal
	w := world.New(world.Options{
		Clients: nClients, Miners: nMiners, Sharders: nSharders, ClientTokens: tokens,
		ExtraGenesis: map[string]uint64{encryption.Hash("verif faucet sink"): sink},
		SCOverrides: map[string]interface{}{
			"smart_contracts.faucetsc.pour_amount":      float64(genesisCfg.Pour) / 1e10,
			"smart_contracts.faucetsc.max_pour_amount":  float64(genesisCfg.MaxPour) / 1e10,
			"smart_contracts.faucetsc.periodic_limit":   float64(genesisCfg.Periodic) / 1e10,
			"smart_contracts.faucetsc.global_limit":     float64(genesisCfg.Global) / 1e10,
			"smart_contracts.faucetsc.individual_reset": fmt.Sprintf("%ds", genesisCfg.Ind),
			"smart_contracts.faucetsc.global_reset":     fmt.Sprintf("%ds", genesisCfg.G),
		},
	})
	defer w.Close()
	rc := rec.New(a.Out)
	defer rc.Close()
	d := &drv{w: w, rc: rc, clients: w.Clients, faucet: world.Contracts["faucetsc"]}
	w.BeginBlock(w.Genesis)
	if b := w.Balance(d.faucet); b != initBal {
		rec.Fatal("faucet genesis balance is %d, expected %d", b, initBal)
	}
	if g := d.snapshot(nil).g; g.PourAmount != genesisCfg.Pour || int64(g.GlobalReset/time.Second) != genesisCfg.G {
		rec.Fatal("faucet genesis config not as overridden: %+v", g)
	}

	id := 0
	for _, b := range common.Behaviours(a.Behav) {
		id++
		if a.Only != 0 && a.Only != id {
			rc.TraceID = id
			continue
		}
		d.behaviour(id, b)
	}
	for i := 0; i < a.N; i++ {
		id++
		if a.Only != 0 && a.Only != id {
			rc.TraceID = id
			continue
		}
		d.r = common.TraceRand(a.Seed, id)
		d.random(id, a)
	}
}

// ---------------------------------------------------------------- projection

type snap struct {
	g faucetsc.VerifGlobal
	u map[string]faucetsc.VerifUser
}

func (d *drv) snapshot(ids []string) snap {
	w := d.w
	sctx := w.Chain.NewStateContext(w.Cur, chain.CreateTxnMPT(w.CurState, statecache.NewTransactionCache(w.CurCache)), &transaction.Transaction{}, nil)
	g, u, err := faucetsc.VerifSnapshot(sctx, ids)
	if err != nil {
		rec.Fatal("faucet snapshot: %v", err)
	}
	return snap{g, u}
}

func (d *drv) rel(t time.Time) int64 {
	if t.IsZero() || t.Unix() < d.t0-(1<<28) {
		return noneT
	}
	return t.Unix() - d.t0
}

func capI(v uint64, over *bool) int64 {
	if v > uint64(capV) {
		*over = true
		return capV
	}
	return int64(v)
}

func capBal(v uint64) int64 { // balances larger than the cap only make `got <= fbal_pre` trivially true
	if v > uint64(capV) {
		return capV
	}
	return int64(v)
}

func (d *drv) cfgFields(g faucetsc.VerifGlobal, over *bool) rec.M {
	ind, gr := int64(g.IndividualReset/time.Second), int64(g.GlobalReset/time.Second)
	if g.IndividualReset%time.Second != 0 || g.GlobalReset%time.Second != 0 || ind > capV || gr > capV {
		*over = true
	}
	return rec.M{"pour": capI(g.PourAmount, over), "max_pour": capI(g.MaxPourAmount, over), "periodic": capI(g.PeriodicLimit, over),
		"global": capI(g.GlobalLimit, over), "ind_reset": ind, "g_reset": gr}
}

func (d *drv) reset(id int, kind string, args interface{}) {
	w := d.w
	w.Now = baseNow - 5
	w.BeginBlock(w.Genesis)
	d.t0 = int64(w.Now)
	d.rc.TraceID = id - 1
	ids := make([]string, 0, len(d.clients)+1)
	for _, k := range d.clients {
		ids = append(ids, k.ID)
	}
	ids = append(ids, w.Owner.ID)
	s := d.snapshot(ids)
	over := false
	type pair struct {
		A string `json:"a"`
		D int64  `json:"d"`
	}
	uu, us := []pair{}, []pair{}
	for _, id := range ids {
		if u := s.u[id]; u.Present {
			uu = append(uu, pair{w.Name(id), capI(u.Used, &over)})
			us = append(us, pair{w.Name(id), d.rel(u.Start)})
		}
	}
	f := rec.M{"nonces": w.InitNonces(w.CurState), "u_used": uu, "u_start": us, "g_used": capI(s.g.Used, &over), "g_start": d.rel(s.g.Start),
		"fbal": capBal(w.Balance(d.faucet))}
	for k, v := range d.cfgFields(s.g, &over) {
		f[k] = v
	}
	f["overflow"] = over
	d.rc.Reset(rec.M{"family": "faucet", "kind": kind, "id": id, "args": args}, f)
}

// at moves the block clock to t seconds after the trace start (never backwards).
func (d *drv) at(t int64) {
	w := d.w
	if int64(w.Now)-d.t0 >= t {
		return
	}
	w.EndBlock()
	w.Now = zcommon.Timestamp(d.t0 + t - 5)
	w.BeginBlock()
}

func vclass(v uint64, c faucetsc.VerifGlobal) string {
	switch {
	case v == 0:
		return "zero"
	case v < c.PourAmount:
		return "lt_pour"
	case v == c.PourAmount:
		return "eq_pour"
	case v < c.MaxPourAmount:
		return "mid"
	default:
		return "ge_max"
	}
}

// do executes one faucet transaction (recorded as a Ledger Txn event) and emits the projection.
func (d *drv) do(from *world.Key, op, fn string, input interface{}, value uint64) world.Result {
	w := d.w
	pre := d.snapshot(nil)
	cpre, fpre := w.Balance(from.ID), w.Balance(d.faucet)
	ts := world.TxnSpec{From: from, To: d.faucet, Type: transaction.TxnTypeSmartContract, Fn: fn, Input: input, Value: value}
	res := w.DoRec(d.rc, ts, rec.M{"src": "faucet"})
	post := d.snapshot([]string{from.ID})
	cpost, fpost := w.Balance(from.ID), w.Balance(d.faucet)
	over := false
	diff := func(a, b uint64) int64 {
		if a >= b {
			return capI(a-b, &over)
		}
		return -capI(b-a, &over)
	}
	u := post.u[from.ID]
	ustart, uused := noneT, int64(0)
	if u.Present {
		ustart, uused = d.rel(u.Start), capI(u.Used, &over)
	}
	m := rec.M{"ev": "Faucet", "op": op, "c": w.Name(from.ID), "now": int64(res.Txn.CreationDate) - d.t0,
		"value": capBal(value), "vclass": vclass(value, pre.g), "class": res.Class,
		"got": diff(cpost, cpre), "fdelta": diff(fpost, fpre), "fbal_pre": capBal(fpre),
		"u_present": u.Present, "u_used": uused, "u_start": ustart,
		"g_used": capI(post.g.Used, &over), "g_start": d.rel(post.g.Start), "panic": res.Panic != ""}
	for k, v := range d.cfgFields(post.g, &over) {
		m[k] = v
	}
	m["overflow"] = over
	shape := op + "/" + res.Class
	if op == "pour" {
		shape = op + "/" + m["vclass"].(string) + "/" + res.Class
	}
	d.rc.Emit(m, shape, res.Class == "ok")
	return res
}

func (d *drv) update(from *world.Key, c cfg) world.Result {
	return d.do(from, "update", "update-settings", map[string]interface{}{"fields": c.fields()}, 0)
}

// ---------------------------------------------------------------- TLC behaviours

type absStep struct {
	Op  string `json:"op"`
	C   string `json:"c"`
	V   uint64 `json:"v"`
	T   int64  `json:"t"`
	Cfg struct {
		Pour, MaxPour, Periodic, Global uint64
		IndReset, GReset                int64
	} `json:"cfg"`
}

func (d *drv) behaviour(id int, raw json.RawMessage) {
	var steps []absStep
	if err := json.Unmarshal(raw, &steps); err != nil {
		rec.Fatal("behaviour %d: %v", id, err)
	}
	d.reset(id, "tlc", steps)
	w := d.w
	for _, s := range steps {
		d.at(s.T * tick)
		switch s.Op {
		case "pour":
			d.do(w.ByName[s.C], "pour", "pour", nil, s.V*scale)
		case "refill":
			d.do(w.ByName[s.C], "refill", "refill", nil, s.V*scale)
		case "update":
			d.update(w.Owner, cfg{s.Cfg.Pour * scale, s.Cfg.MaxPour * scale, s.Cfg.Periodic * scale, s.Cfg.Global * scale, s.Cfg.IndReset * tick, s.Cfg.GReset * tick})
		default:
			rec.Fatal("behaviour %d: unknown op %q", id, s.Op)
		}
	}
	w.EndBlock()
}

// ---------------------------------------------------------------- random histories

func (d *drv) pick(xs ...int64) int64 { return xs[d.r.Intn(len(xs))] }

func (d *drv) random(id int, a common.Args) {
	d.reset(id, "random", map[string]interface{}{"seed": a.Seed, "steps": a.Steps})
	w, r := d.w, d.r
	now := int64(0)
	if r.Intn(10) < 7 {
		d.update(w.Owner, cfgs[r.Intn(len(cfgs))])
	}
	if r.Intn(10) < 7 {
		d.do(d.clients[r.Intn(len(d.clients))], "refill", "refill", nil, uint64(d.pick(100, 700, 3000, 30000, 100000)))
	}
	for i := 0; i < a.Steps; i++ {
		g := d.snapshot(nil).g
		ind, gr := int64(g.IndividualReset/time.Second), int64(g.GlobalReset/time.Second)
		if r.Intn(100) < 45 {
			now += d.pick(1, 1, ind/2, ind-1, ind, ind+1, gr-ind, gr-1, gr, gr+1, 5)
			d.at(now)
			now = int64(w.Now) - d.t0
		}
		from := d.clients[r.Intn(len(d.clients))]
		switch x := r.Intn(100); {
		case x < 78:
			p, mx := int64(g.PourAmount), int64(g.MaxPourAmount)
			v := d.pick(0, 0, 1, p-1, p, p, p+1, (p+mx)/2, mx-1, mx-1, mx, mx+1, 1000000)
			if v < 0 {
				v = 0
			}
			d.do(from, "pour", "pour", nil, uint64(v))
		case x < 87:
			d.do(from, "refill", "refill", nil, uint64(d.pick(0, 1, 100, 500, 2000, 20000)))
		case x < 93:
			d.update(w.Owner, cfgs[r.Intn(len(cfgs))])
		case x < 96: // not the owner
			d.update(from, cfgs[r.Intn(len(cfgs))])
		case x < 98: // invalid configuration (max_pour > periodic): must not be installed
			c := cfgs[r.Intn(len(cfgs))]
			c.MaxPour = c.Periodic + 1
			d.update(w.Owner, c)
		default:
			d.do(from, "other", "no_such_function", nil, uint64(d.pick(0, 5)))
		}
	}
	w.EndBlock()
}
