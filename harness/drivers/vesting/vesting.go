// Package vesting drives the real vesting contract (add / trigger / unlock / stop / delete) through the
// real Chain.UpdateState with controlled block times (C16).  After every transaction it logs the stored
// pool (per destination amount, vested, last; balance; start/expire) and what was REALLY transferred
// (balance deltas of destinations, owner, sender and of the contract wallet read back from the MPT).
package vesting

import (
	"encoding/json"
	"fmt"
	"math/rand"
	"sort"
	"time"

	"0chain.net/chaincore/chain"
	"0chain.net/chaincore/transaction"
	zcommon "0chain.net/core/common"
	"0chain.net/core/encryption"
	"0chain.net/smartcontract/vestingsc"
	"github.com/0chain/common/core/statecache"

	"verif/harness/common"
	"verif/harness/rec"
	"verif/harness/world"
)

const (
	capV    = int64(1) << 29
	baseNow = 1700000000
	aScale  = 333 // model amount unit -> token units
	xScale  = 50  // model extra unit -> token units
	tScale  = 60  // model time unit -> seconds
)

type pair struct {
	A string `json:"a"`
	D int64  `json:"d"`
}

type pool struct {
	name string
	id   string
}

type drv struct {
	w       *world.World
	rc      *rec.Recorder
	r       *rand.Rand
	t0      int64
	clients []*world.Key
	sc      string
	pools   []*pool
}

func init() { common.Register("vesting", Run) }

func Run(a common.Args) {
	w := world.New(world.Options{Clients: 5})
	defer w.Close()
	rc := rec.New(a.Out)
	defer rc.Close()
	d := &drv{w: w, rc: rc, clients: w.Clients, sc: world.Contracts["vestingsc"]}
	w.SetName(encryption.Hash("verif vesting stranger"), "x1")
	id := 0
	for _, b := range common.Behaviours(a.Behav) {
		id++
		if a.Only != 0 && a.Only != id {
			rc.TraceID = id
			continue
		}
		d.behaviour(id, b)
	}
	for i := 0; i < a.N; i++ {
		id++
		if a.Only != 0 && a.Only != id {
			rc.TraceID = id
			continue
		}
		d.r = common.TraceRand(a.Seed, id)
		if i%6 == 5 {
			d.dust(id, a)
		} else if i%6 == 2 {
			d.drip(id, a)
		} else {
			d.random(id, a)
		}
	}
}

// dust: a pool with a dust destination (amount 1..3) next to a large one, triggered / unlocked several
// times at increasing fractions of the period, so that some triggers vest nothing for the dust
// destination (amount x elapsed < duration) while time and the other destination move on.
func (d *drv) dust(id int, a common.Args) {
	d.reset(id, "dust", map[string]interface{}{"seed": a.Seed})
	w, r := d.w, d.r
	owner := d.clients[0]
	dustDest, bigDest := d.clients[1], d.clients[2]
	dur := d.pick(600, 1000, 3600)
	dustAmt := uint64(d.pick(1, 1, 2, 3))
	big := uint64(d.pick(1000, 9999, 50000))
	d.add(owner, []destSpec{{dustDest.ID, dustAmt}, {bigDest.ID, big}}, dustAmt+big+uint64(d.pick(0, 50)), d.now(), dur)
	if len(d.pools) == 0 {
		w.EndBlock()
		return
	}
	p := d.pools[len(d.pools)-1]
	start := d.now()
	fr := []int64{30, 55, 60, 90, 95, 99}
	for _, f := range fr {
		if r.Intn(4) == 0 {
			continue
		}
		d.at(start + dur*f/100)
		switch r.Intn(4) {
		case 0:
			d.poolOp(dustDest, "unlock", p)
		case 1:
			d.poolOp(bigDest, "unlock", p)
		default:
			d.poolOp(owner, "trigger", p)
		}
		if r.Intn(3) == 0 {
			d.poolOp(owner, "trigger", p) // again at the same block time
		}
	}
	d.at(start + dur + 1)
	d.poolOp(owner, "trigger", p)
	w.EndBlock()
}

// drip: destinations that are owed a FRACTION of a token per second (amount / duration not an integer:
// 0.1 .. 2.5 tokens per second) are paid very often: a run of consecutive one-second block times, each with
// an owner's trigger or a destination's own unlock (some seconds skipped, some with two payments).  Every
// payment re-anchors the schedule at the last non-zero payment, so whatever a payment gives beyond the
// straight line (rounding up, a wrong anchor ...) adds up over the run instead of staying below one unit.
// The run starts at the pool's start, inside the period, or so that it ends at the expiry; a final trigger
// after the expiry pays the rest.
func (d *drv) drip(id int, a common.Args) {
	d.reset(id, "drip", map[string]interface{}{"seed": a.Seed, "steps": a.Steps})
	w, r := d.w, d.r
	owner := d.clients[0]
	dur := d.pick(600, 1000, 3600)
	frac := []int64{10, 25, 40, 50, 60, 75, 90, 110, 150, 250} // hundredths of a token per second
	nd := 1 + r.Intn(2)
	var ds []destSpec
	var keys []*world.Key
	sum := uint64(0)
	for i := 0; i < nd; i++ {
		am := uint64(dur*frac[r.Intn(len(frac))]/100 + d.pick(0, 0, 1, 7))
		k := d.clients[1+i]
		keys = append(keys, k)
		ds = append(ds, destSpec{k.ID, am})
		sum += am
	}
	value := sum + uint64(d.pick(0, 0, 50))
	if value < 100 { // vestingsc min_lock (sc.yaml); the surplus is the owner's excess
		value = 100
	}
	d.add(owner, ds, value, d.now()+d.pick(0, 0, 30), dur)
	if len(d.pools) == 0 {
		w.EndBlock()
		return
	}
	p := d.pools[len(d.pools)-1]
	st := d.snapshot(p.id)
	start := st.Start - d.t0
	n := int64(a.Steps)
	if n < 8 {
		n = 8
	}
	if n > dur/4 {
		n = dur / 4
	}
	var from int64
	switch r.Intn(4) {
	case 0:
		from = start // from the very first second
	case 1:
		from = start + dur - n + d.pick(0, 2) // into / across the expiry
	default:
		from = start + 1 + r.Int63n(dur-n-1)
	}
	for t := from; t < from+n; t++ {
		if r.Intn(10) == 0 {
			continue
		}
		d.at(t)
		k := keys[r.Intn(len(keys))]
		switch r.Intn(10) {
		case 0, 1, 2:
			d.poolOp(k, "unlock", p)
		case 3:
			d.poolOp(k, "unlock", p)
			d.poolOp(owner, "trigger", p) // a second payment at the same block time
		default:
			d.poolOp(owner, "trigger", p)
		}
	}
	d.at(start + dur + d.pick(0, 1, 60))
	d.poolOp(owner, "trigger", p)
	w.EndBlock()
}

// ---------------------------------------------------------------- projection

func (d *drv) snapshot(poolID string) vestingsc.VerifPool {
	w := d.w
	sctx := w.Chain.NewStateContext(w.Cur, chain.CreateTxnMPT(w.CurState, statecache.NewTransactionCache(w.CurCache)), &transaction.Transaction{}, nil)
	p, err := vestingsc.VerifSnapshot(sctx, poolID)
	if err != nil {
		rec.Fatal("vesting snapshot: %v", err)
	}
	return p
}

func capI(v uint64, over *bool) int64 {
	if v > uint64(capV) {
		*over = true
		return capV
	}
	return int64(v)
}

func (d *drv) reset(id int, kind string, args interface{}) {
	w := d.w
	w.Now = baseNow - 5
	w.BeginBlock(w.Genesis)
	d.t0 = int64(w.Now)
	d.pools = nil
	d.rc.TraceID = id - 1
	d.rc.Reset(rec.M{"family": "vesting", "kind": kind, "id": id, "args": args}, rec.M{"nonces": w.InitNonces(w.CurState)})
}

// at moves the block clock to t seconds after the trace start (never backwards).
func (d *drv) at(t int64) {
	w := d.w
	if int64(w.Now)-d.t0 >= t {
		return
	}
	w.EndBlock()
	w.Now = zcommon.Timestamp(d.t0 + t - 5)
	w.BeginBlock()
}

func (d *drv) now() int64 { return int64(d.w.Now) - d.t0 }

// aggregate the destination entries of a pool by destination id
func agg(w *world.World, p vestingsc.VerifPool, t0 int64, over *bool) (amount, vested, last []pair, ids []string) {
	am, ve, la := map[string]uint64{}, map[string]uint64{}, map[string]int64{}
	for _, x := range p.Dests {
		if _, ok := am[x.ID]; !ok {
			ids = append(ids, x.ID)
		}
		am[x.ID] += x.Amount
		ve[x.ID] += x.Vested
		if x.Last-t0 > la[x.ID] || la[x.ID] == 0 {
			la[x.ID] = x.Last - t0
		}
	}
	sort.Strings(ids)
	amount, vested, last = []pair{}, []pair{}, []pair{}
	for _, id := range ids {
		amount = append(amount, pair{w.Name(id), capI(am[id], over)})
		vested = append(vested, pair{w.Name(id), capI(ve[id], over)})
		last = append(last, pair{w.Name(id), la[id]})
	}
	return
}

// hasDup: one destination id appears in several entries of the pool
func hasDup(p vestingsc.VerifPool) bool {
	seen := map[string]bool{}
	for _, x := range p.Dests {
		if seen[x.ID] {
			return true
		}
		seen[x.ID] = true
	}
	return false
}

// do executes one vesting transaction (recorded as a Ledger Txn event) and emits the projection of pool p
// (nil: the call does not address an existing pool).
func (d *drv) do(from *world.Key, op, fn string, input interface{}, value uint64, p *pool, target string) world.Result {
	w := d.w
	var pre vestingsc.VerifPool
	if p != nil {
		pre = d.snapshot(p.id)
	}
	ts := world.TxnSpec{From: from, To: d.sc, Type: transaction.TxnTypeSmartContract, Fn: fn, Input: input, Value: value}
	txn := w.MakeTxn(ts)
	newPool := false
	if op == "add" {
		p = &pool{name: fmt.Sprintf("p%d", len(d.pools)+1), id: vestingsc.VerifPoolID(txn.Hash)}
		newPool = true
	}
	// accounts whose balances are observed: destinations before, owner, sender (+ destinations after, below)
	watch := map[string]bool{from.ID: true}
	if pre.Exists {
		watch[pre.ClientID] = true
		for _, x := range pre.Dests {
			watch[x.ID] = true
		}
	}
	if op == "add" {
		var ar struct {
			Destinations []struct {
				ID string `json:"id"`
			} `json:"destinations"`
		}
		b, _ := json.Marshal(input)
		_ = json.Unmarshal(b, &ar)
		for _, x := range ar.Destinations {
			watch[x.ID] = true
		}
	}
	before := map[string]uint64{}
	for id := range watch {
		before[id] = w.Balance(id)
	}
	scPre := w.Balance(d.sc)
	res := w.ExecRec(d.rc, txn, rec.M{"src": "vesting"})
	var post vestingsc.VerifPool
	if p != nil {
		post = d.snapshot(p.id)
	}
	if newPool && post.Exists {
		d.pools = append(d.pools, p)
	}
	over := false
	diff := func(a, b uint64) int64 {
		if a >= b {
			return capI(a-b, &over)
		}
		return -capI(b-a, &over)
	}
	ids := make([]string, 0, len(watch))
	for id := range watch {
		ids = append(ids, id)
	}
	sort.Strings(ids)
	got := []pair{}
	for _, id := range ids {
		if dl := diff(w.Balance(id), before[id]); dl != 0 {
			got = append(got, pair{w.Name(id), dl})
		}
	}
	amount, vested, last, _ := agg(w, post, d.t0, &over)
	dup := hasDup(pre) || hasDup(post)
	pname, owner, byOwner := "none", "none", false
	var start, expire, bal int64
	if p != nil && (pre.Exists || post.Exists) {
		pname = p.name
		ref := post
		if !post.Exists {
			ref = pre
		}
		owner = w.Name(ref.ClientID)
		byOwner = ref.ClientID == from.ID
		start, expire = ref.Start-d.t0, ref.Expire-d.t0
		if start > capV || start < -capV || expire > capV || expire < -capV {
			over = true
			start, expire = 0, 0
		}
		if post.Exists {
			bal = capI(post.Balance, &over)
		}
	}
	m := rec.M{"ev": "Vest", "op": op, "pool": pname, "by": w.Name(from.ID), "by_owner": byOwner, "target": target,
		"now": int64(txn.CreationDate) - d.t0, "class": res.Class, "value": capI(value, &over),
		"existed": pre.Exists, "exists": post.Exists, "owner": owner, "start": start, "expire": expire, "bal": bal,
		"amount": amount, "vested": vested, "last": last, "got": got, "sc_delta": diff(w.Balance(d.sc), scPre), "dup": dup,
		"panic": res.Panic != ""}
	m["overflow"] = over
	who := "other"
	if byOwner {
		who = "owner"
	}
	d.rc.Emit(m, op+"/"+who+"/"+res.Class, res.Class == "ok")
	return res
}

type destSpec struct {
	ID     string `json:"id"`
	Amount uint64 `json:"amount"`
}

func (d *drv) add(from *world.Key, dests []destSpec, value uint64, start, durSec int64) world.Result {
	in := map[string]interface{}{"description": "v", "duration": durSec * int64(time.Second), "destinations": dests}
	if start >= 0 {
		in["start_time"] = d.t0 + start
	} else {
		in["start_time"] = 0
	}
	return d.do(from, "add", "add", in, value, nil, "")
}

func (d *drv) poolOp(from *world.Key, op string, p *pool) world.Result {
	return d.do(from, op, op, map[string]string{"pool_id": p.id}, 0, p, "")
}

func (d *drv) stop(from *world.Key, p *pool, dest string) world.Result {
	return d.do(from, "stop", "stop", map[string]string{"pool_id": p.id, "destination": dest}, 0, p, d.w.Name(dest))
}

// ---------------------------------------------------------------- TLC behaviours

type absStep struct {
	Op    string            `json:"op"`
	D     string            `json:"d"`
	T     int64             `json:"t"`
	Ds    []string          `json:"ds"`
	Am    map[string]uint64 `json:"am"`
	Extra uint64            `json:"extra"`
	Delay int64             `json:"delay"`
	Dur   int64             `json:"dur"`
}

// behaviour replays one walk of Vesting.tla: owner = c1, d1 = c2, d2 = c3.
func (d *drv) behaviour(id int, raw json.RawMessage) {
	var steps []absStep
	if err := json.Unmarshal(raw, &steps); err != nil {
		rec.Fatal("behaviour %d: %v", id, err)
	}
	d.reset(id, "tlc", steps)
	w := d.w
	owner := w.ByName["c1"]
	key := map[string]*world.Key{"d1": w.ByName["c2"], "d2": w.ByName["c3"]}
	var p *pool
	for _, s := range steps {
		d.at(s.T * tScale)
		switch s.Op {
		case "add":
			var ds []destSpec
			sum := uint64(0)
			sort.Strings(s.Ds)
			for _, n := range s.Ds {
				ds = append(ds, destSpec{key[n].ID, s.Am[n] * aScale})
				sum += s.Am[n] * aScale
			}
			d.add(owner, ds, sum+s.Extra*xScale, d.now()+s.Delay*tScale, s.Dur*tScale)
			if len(d.pools) > 0 {
				p = d.pools[len(d.pools)-1]
			}
		case "trigger", "delete":
			if p != nil {
				d.poolOp(owner, s.Op, p)
			}
		case "unlock_owner":
			if p != nil {
				d.poolOp(owner, "unlock", p)
			}
		case "unlock_dest":
			if p != nil {
				d.poolOp(key[s.D], "unlock", p)
			}
		case "stop":
			if p != nil {
				d.stop(owner, p, key[s.D].ID)
			}
		default:
			rec.Fatal("behaviour %d: unknown op %q", id, s.Op)
		}
	}
	w.EndBlock()
}

// ---------------------------------------------------------------- random histories

func (d *drv) pick(xs ...int64) int64 { return xs[d.r.Intn(len(xs))] }

func (d *drv) randomAdd() {
	w, r := d.w, d.r
	owner := d.clients[r.Intn(len(d.clients))]
	n := 1 + r.Intn(3)
	if r.Intn(25) == 0 {
		n = r.Intn(6) // 0 or too many destinations
	}
	var ds []destSpec
	sum := uint64(0)
	for i := 0; i < n; i++ {
		var id string
		switch x := r.Intn(20); {
		case x == 0:
			id = owner.ID // the owner as a destination
		case x == 1:
			id = encryption.Hash("verif vesting stranger") // an account without a key
		case x == 2 && len(ds) > 0:
			id = ds[0].ID // the same destination twice
		default:
			id = d.clients[r.Intn(len(d.clients))].ID
		}
		am := uint64(d.pick(0, 1, 2, 3, 7, 10, 100, 333, 1000, 9999, 50000))
		ds = append(ds, destSpec{id, am})
		sum += am
	}
	value := sum + uint64(d.pick(0, 0, 0, 1, 50, 1000))
	if r.Intn(12) == 0 && sum > 0 {
		value = sum - 1 // not enough
	}
	start := d.now() + d.pick(0, 0, 0, 1, 30, 120)
	switch r.Intn(15) {
	case 0:
		start = -1 // start_time 0 = now
	case 1:
		start = d.now() - 1 // in the past
	}
	dur := d.pick(120, 120, 121, 180, 600, 600, 3600, 7200, 60, 7201)
	d.add(owner, ds, value, start, dur)
	_ = w
}

func (d *drv) random(id int, a common.Args) {
	d.reset(id, "random", map[string]interface{}{"seed": a.Seed, "steps": a.Steps})
	w, r := d.w, d.r
	d.randomAdd()
	for i := 0; i < a.Steps; i++ {
		if len(d.pools) == 0 {
			d.randomAdd()
			continue
		}
		p := d.pools[r.Intn(len(d.pools))]
		st := d.snapshot(p.id)
		if !st.Exists { // prefer a live pool; with none left, mostly create a new one
			for _, q := range d.pools {
				if qs := d.snapshot(q.id); qs.Exists {
					p, st = q, qs
					break
				}
			}
			if !st.Exists && r.Intn(10) < 7 {
				d.randomAdd()
				continue
			}
		}
		if r.Intn(100) < 70 {
			now := d.now()
			start, expire := st.Start-d.t0, st.Expire-d.t0
			dur := expire - start
			if !st.Exists {
				start, expire, dur = now, now+600, 600
			}
			next := now + d.pick(1, 1, 7, dur/10, dur/7, dur/3, dur/2)
			switch r.Intn(12) {
			case 0:
				next = start
			case 1:
				next = expire - 1
			case 2:
				next = expire
			case 3:
				next = expire + d.pick(1, 100)
			}
			d.at(next)
		}
		var owner *world.Key
		if st.Exists {
			owner = w.Keys[st.ClientID]
		} else {
			owner = d.clients[r.Intn(len(d.clients))]
		}
		anyone := d.clients[r.Intn(len(d.clients))]
		var dest string
		if len(st.Dests) > 0 {
			dest = st.Dests[r.Intn(len(st.Dests))].ID
		} else {
			dest = anyone.ID
		}
		switch x := r.Intn(100); {
		case x < 30:
			d.poolOp(owner, "trigger", p)
		case x < 34:
			d.poolOp(anyone, "trigger", p)
		case x < 58:
			if k := w.Keys[dest]; k != nil {
				d.poolOp(k, "unlock", p)
			} else {
				d.poolOp(anyone, "unlock", p)
			}
		case x < 70:
			d.poolOp(owner, "unlock", p)
		case x < 74:
			d.poolOp(anyone, "unlock", p)
		case x < 82:
			d.stop(owner, p, dest)
		case x < 85:
			d.stop(anyone, p, dest)
		case x < 87:
			d.stop(owner, p, anyone.ID)
		case x < 91:
			d.poolOp(owner, "delete", p)
		case x < 93:
			d.poolOp(anyone, "delete", p)
		case x < 98:
			if len(d.pools) < 3 {
				d.randomAdd()
			} else {
				d.poolOp(owner, "trigger", p)
			}
		default:
			d.do(anyone, "other", "no_such_function", map[string]string{"pool_id": p.id}, 0, p, "")
		}
	}
	w.EndBlock()
}
