// Package rank drives the REAL ranking / notarized-block-list / replicator-choice code:
//
//	C35 (a) two independently built node.Pools (fresh node objects, different insertion orders) and two
//	        round.Rounds with the same seed: GetMinerRank per miner, GetMinersByRank;
//	    (b) AddNotarizedBlock / UpdateNotarizedBlock sequences on a real round.Round, list read back
//	        with the identity (pointer) of every stored block object;
//	C42     two chain.Chain objects whose magic blocks hold sharder pools built in different orders:
//	        CanShardBlockWithReplicators, IsBlockSharder, IsBlockSharderFromHash per sharder.
//	        Behaviours of kind "replh" give the second node a pool HISTORY: after its pool was built,
//	        some of the very same *node.Node objects are also added to the sharder pool of another
//	        magic block (node objects are shared between pools, SetIndex is a field of the node), and
//	        then known sharders are announced again to the first pool (AddNode of an existing key,
//	        with the same or with a fresh node object).
//
// Every behaviour (insertion orders, seeds, operation sequences, replicator counts) is enumerated by
// TLC (Gen_Rank_C35.tla / Gen_Rank_C42.tla); block hashes are seeded.  Trace_Rank.tla judges.
package rank

import (
	"encoding/hex"
	"encoding/json"
	"fmt"
	"math/rand"
	"sort"

	"0chain.net/chaincore/block"
	"0chain.net/chaincore/chain"
	"0chain.net/chaincore/node"
	"0chain.net/chaincore/round"
	"0chain.net/core/encryption"
	"0chain.net/core/viper"

	"verif/harness/common"
	"verif/harness/drivers/consobj"
	"verif/harness/rec"
)

func init() { common.Register("rank", Run) }

type pair struct {
	A string `json:"a"`
	D int    `json:"d"`
}

type blockObj struct {
	ID   int    `json:"id"`
	Hash string `json:"hash"`
	Rank int    `json:"rank"`
}

type behaviour struct {
	K    string   `json:"k"` // "rank" | "nb" | "repl"
	Seed int      `json:"seed"`
	O1   []string `json:"o1"`
	O2   []string `json:"o2"`
	Ops  []struct {
		Op string   `json:"op"`
		B  blockObj `json:"b"`
	} `json:"ops"`
	N10 int `json:"n10"`
	// kind "replh" only: pool history of the second node
	Ob   []string `json:"ob"`   // sharders also added (same node objects) to the pool of another magic block
	Re   []pair   `json:"re"`   // then added again to the pool: a = sharder, d = 1 a fresh node object, 0 the same one
	N10s []int    `json:"n10s"` // replicator counts (+10) to observe on the pools built once
}

type driver struct {
	a    common.Args
	rc   *rec.Recorder
	salt string
	kc   map[string]consobj.Key
}

func (d *driver) key(name string) consobj.Key {
	if k, ok := d.kc[name]; ok {
		return k
	}
	k := consobj.NewKey(d.salt, name)
	d.kc[name] = k
	return k
}

func (d *driver) keys(names []string) []consobj.Key {
	ks := make([]consobj.Key, len(names))
	for i, n := range names {
		ks[i] = d.key(n)
	}
	return ks
}

func strs(x []string) []string {
	if x == nil {
		return []string{}
	}
	return x
}

// Run replays every behaviour of the behaviours file (trace id = line number).
func Run(a common.Args) {
	consobj.Init()
	rc := rec.New(a.Out)
	defer rc.Close()
	d := &driver{a: a, rc: rc, salt: fmt.Sprintf("rank-%d", a.Seed), kc: map[string]consobj.Key{}} // ids (hence id order) vary with the seed
	raw := common.Behaviours(a.Behav)
	if len(raw) == 0 {
		rec.Fatal("rank: no behaviours (this driver only replays TLC-enumerated behaviours)")
	}
	for i, r := range raw {
		id := i + 1
		if a.Only != 0 && a.Only != id {
			rc.TraceID = id
			continue
		}
		var b behaviour
		if err := json.Unmarshal(r, &b); err != nil {
			rec.Fatal("behaviour %d: %v", id, err)
		}
		rc.TraceID = id - 1
		rc.Reset(rec.M{"family": "rank", "id": id, "seed": a.Seed, "behaviour": b}, rec.M{"kind": b.K})
		rnd := common.TraceRand(a.Seed, id)
		switch {
		case b.K == "rank" && a.Prop == "C35":
			d.ranking(b)
		case b.K == "nb" && a.Prop == "C35":
			d.notarized(b)
		case (b.K == "repl" || b.K == "replh") && a.Prop == "C42":
			d.replicators(b, rnd)
		default:
			rec.Fatal("rank: behaviour kind %q does not belong to %s", b.K, a.Prop)
		}
	}
}

// ------------------------------------------------------------------ C35 (a)

// one "node" of the network: its own pool (own node objects), its own round object
func (d *driver) rankOn(order []string, seed int64) (ranks []pair, byRank []string) {
	pool, _ := consobj.NewPool(node.NodeTypeMiner, d.keys(order))
	name := map[string]string{}
	for _, n := range order {
		name[d.key(n).ID] = n
	}
	r := round.Provider().(*round.Round)
	r.Number = 5
	r.SetRandomSeed(seed, pool.Size())
	ranks = []pair{}
	for _, n := range pool.CopyNodes() {
		ranks = append(ranks, pair{name[n.GetKey()], r.GetMinerRank(n)})
	}
	sort.Slice(ranks, func(i, j int) bool { return ranks[i].A < ranks[j].A })
	byRank = []string{}
	for _, n := range r.GetMinersByRank(pool.CopyNodes()) {
		byRank = append(byRank, name[n.GetKey()])
	}
	return
}

func (d *driver) ranking(b behaviour) {
	// the real seed: a function of (VERIF_SEED, abstract seed id) only
	seed := rand.New(rand.NewSource(d.a.Seed*7919 + int64(b.Seed)*104729)).Int63()
	if seed == 0 {
		seed = 1
	}
	r1, by1 := d.rankOn(b.O1, seed)
	r2, by2 := d.rankOn(b.O2, seed)
	distinct := map[string]bool{}
	for _, n := range b.O1 {
		distinct[n] = true
	}
	same := "same-order"
	if fmt.Sprint(b.O1) != fmt.Sprint(b.O2) {
		same = "other-order"
	}
	if len(b.O2) != len(distinct) {
		same = "re-added"
	}
	d.rc.Emit(rec.M{"ev": "Rank", "seed": b.Seed, "n": len(distinct), "o1": strs(b.O1), "o2": strs(b.O2),
		"r1": r1, "r2": r2, "by1": by1, "by2": by2}, fmt.Sprintf("n%d/%s", len(distinct), same), true)
}

// ------------------------------------------------------------------ C35 (b)

func (d *driver) notarized(b behaviour) {
	r := round.Provider().(*round.Round)
	r.Number = 5
	objs := map[int]*block.Block{}
	idOf := map[*block.Block]int{}
	get := func(o blockObj) *block.Block {
		if x, ok := objs[o.ID]; ok {
			return x
		}
		x := block.Provider().(*block.Block)
		x.Round = 5
		x.Hash = o.Hash
		x.RoundRank = o.Rank
		objs[o.ID] = x
		idOf[x] = o.ID
		return x
	}
	for _, op := range b.Ops {
		x := get(op.B)
		before := len(r.GetNotarizedBlocks())
		switch op.Op {
		case "add":
			r.AddNotarizedBlock(x)
		case "update":
			r.UpdateNotarizedBlock(x)
		default:
			rec.Fatal("rank: unknown nb operation %q", op.Op)
		}
		list := []pair{}
		ranks := []int{}
		stored := "absent"
		for _, nb := range r.GetNotarizedBlocks() {
			list = append(list, pair{nb.Hash, idOf[nb]}) // an object the driver never handed in has id 0
			ranks = append(ranks, nb.RoundRank)
			if nb.Hash == x.Hash {
				stored = "other-object"
				if nb == x {
					stored = "this-object"
				}
			}
		}
		d.rc.Emit(rec.M{"ev": "Nb", "op": op.Op, "hash": op.B.Hash, "rank": op.B.Rank, "id": op.B.ID,
			"list": list, "ranks": ranks}, fmt.Sprintf("%s/%s/%d->%d", op.Op, stored, before, len(list)), true)
	}
}

// ------------------------------------------------------------------ C42

// sharderPool builds one node's sharder pool: fresh node objects added in the given order; then the
// pool history (second node of "replh" behaviours): the SAME node objects are also added to the sharder
// pool of another magic block (a sharder unknown to the first pool gets its own object there), and
// finally already known sharders are added to the first pool again (replace path of Pool.AddNode).
func (d *driver) sharderPool(order, ob []string, re []pair) (*node.Pool, map[string]string) {
	pool, objs := consobj.NewPool(node.NodeTypeSharder, d.keys(order))
	obj := map[string]*node.Node{}
	name := map[string]string{}
	for i, s := range order {
		obj[s] = objs[i]
		name[d.key(s).ID] = s
	}
	if len(ob) > 0 {
		other := node.NewPool(node.NodeTypeSharder) // mb.Sharders of another magic block
		for _, s := range ob {
			if obj[s] == nil {
				obj[s] = consobj.NewNode(d.key(s), node.NodeTypeSharder)
				name[d.key(s).ID] = s
			}
			if err := other.AddNode(obj[s]); err != nil {
				rec.Fatal("rank: AddNode(other pool, %s): %v", s, err)
			}
		}
	}
	for _, r := range re {
		if r.D == 1 || obj[r.A] == nil {
			obj[r.A] = consobj.NewNode(d.key(r.A), node.NodeTypeSharder)
			name[d.key(r.A).ID] = r.A
		}
		if err := pool.AddNode(obj[r.A]); err != nil {
			rec.Fatal("rank: AddNode(again, %s): %v", r.A, err)
		}
	}
	return pool, name
}

func (d *driver) chainOn(pool *node.Pool, n int) *chain.Chain {
	viper.Set("server_chain.block.replicators", n)
	c := chain.Provider().(*chain.Chain)
	if c.NumReplicators() != n {
		rec.Fatal("rank: chain reports %d replicators, configured %d", c.NumReplicators(), n)
	}
	mb := block.NewMagicBlock()
	mb.Miners = node.NewPool(node.NodeTypeMiner)
	mb.Sharders = pool
	mb.StartingRound = 0
	mb.MagicBlockNumber = 1
	c.SetMagicBlock(mb)
	return c
}

// score as the real scorer computes it (only used to SEARCH for hashes that tie at the cut)
func score(idHex, hashHex string) int32 {
	a, _ := hex.DecodeString(idHex)
	b, _ := hex.DecodeString(hashHex)
	return encryption.NewXORHashScorer().Score(a, b)
}

// pickHash returns a block hash; for every second behaviour it searches for one whose n-th and
// (n+1)-th scores are equal (a tie at the cut), the case in which a tie-break could matter.
func (d *driver) pickHash(order []string, n int, rnd *rand.Rand, wantTie bool) (string, bool) {
	var h string
	for try := 0; try < 4000; try++ {
		h = encryption.Hash(fmt.Sprintf("block-%d-%d", rnd.Int63(), try))
		if !wantTie || n <= 0 || n >= len(order) {
			return h, false
		}
		var sc []int
		for _, s := range order {
			sc = append(sc, int(score(d.key(s).ID, h)))
		}
		sort.Sort(sort.Reverse(sort.IntSlice(sc)))
		if sc[n-1] == sc[n] {
			return h, true
		}
	}
	return h, false
}

func (d *driver) replicators(b behaviour, rnd *rand.Rand) {
	// the two nodes: each its own sharder pool (own node objects), the second one possibly with a history
	type nodeSide struct {
		pool  *node.Pool
		name  map[string]string
		names []string // the sharders this node was told about (sorted)
	}
	var sides []nodeSide
	for i, order := range [][]string{b.O1, b.O2} {
		var ob []string
		var re []pair
		if i == 1 {
			ob, re = b.Ob, b.Re
		}
		pool, name := d.sharderPool(order, ob, re)
		names := append([]string{}, order...)
		sort.Strings(names)
		sides = append(sides, nodeSide{pool, name, names})
	}
	ns, hashes := []int{b.N10 - 10}, 4
	if b.K == "replh" {
		ns, hashes = nil, 2
		for _, n10 := range b.N10s {
			ns = append(ns, n10-10)
		}
	}
	ob := strs(b.Ob)
	re := b.Re
	if re == nil {
		re = []pair{}
	}
	hist := "plain"
	if b.K == "replh" {
		hist = "shared-readd"
	}
	for _, n := range ns {
		// each node its own chain object, configured with n replicators
		chains := []*chain.Chain{d.chainOn(sides[0].pool, n), d.chainOn(sides[1].pool, n)}
		for k := 0; k < hashes; k++ { // every second block hash with a tie at the cut
			hash, tie := d.pickHash(b.O1, n, rnd, k%2 == 1)
			res := map[int]rec.M{}
			for side := range sides {
				c, pool, name := chains[side], sides[side].pool, sides[side].name
				blk := block.Provider().(*block.Block)
				blk.Round = 5
				blk.Hash = hash
				set := []string{}
				in := []pair{}
				ok := []pair{}
				// every sharder the node knows (pool map) asks
				for _, sn := range sides[side].names {
					s := pool.GetNode(d.key(sn).ID)
					if s == nil {
						in = append(in, pair{sn, -1})
						ok = append(ok, pair{sn, -1})
						continue
					}
					can, nodes := c.CanShardBlockWithReplicators(5, hash, s)
					if len(set) == 0 {
						for _, x := range nodes {
							set = append(set, name[x.GetKey()])
						}
						sort.Strings(set)
					}
					is := c.IsBlockSharder(blk, s)
					if c.IsBlockSharderFromHash(5, hash, s) != is {
						is = !is // disagreement between the two entry points shows up as in != ok below
					}
					in = append(in, pair{sn, b2i(is)})
					ok = append(ok, pair{sn, b2i(can)})
				}
				res[side] = rec.M{"set": set, "in": in, "ok": ok}
			}
			cls := "n<=0"
			if n > 0 {
				cls = "n<=size"
				if n > len(b.O1) {
					cls = "n>size"
				}
			}
			shape := fmt.Sprintf("%s/tie=%v/|set|=%d", cls, tie, len(res[0]["set"].([]string)))
			if b.K == "replh" {
				shape = hist + "/" + shape
			}
			d.rc.Emit(rec.M{"ev": "Repl", "n": n, "size": len(b.O1), "o1": strs(b.O1), "o2": strs(b.O2),
				"ob": ob, "re": re,
				"set1": res[0]["set"], "set2": res[1]["set"], "in1": res[0]["in"], "in2": res[1]["in"],
				"ok1": res[0]["ok"], "ok2": res[1]["ok"], "tie": tie}, shape, true)
		}
	}
}

func b2i(b bool) int {
	if b {
		return 1
	}
	return 0
}
