// Package rank drives the REAL ranking / notarized-block-list / replicator-choice code:
//
//	C35 (a) two independently built node.Pools (fresh node objects, different insertion orders) and two
//	        round.Rounds with the same seed: GetMinerRank per miner, GetMinersByRank;
//	    (b) AddNotarizedBlock / UpdateNotarizedBlock sequences on a real round.Round, list read back
//	        with the identity (pointer) of every stored block object;
//	C42     two chain.Chain objects whose magic blocks hold sharder pools built in different orders:
//	        CanShardBlockWithReplicators, IsBlockSharder, IsBlockSharderFromHash per sharder.
//
// Every behaviour (insertion orders, seeds, operation sequences, replicator counts) is enumerated by
// TLC (Gen_Rank_C35.tla / Gen_Rank_C42.tla); block hashes are seeded.  Trace_Rank.tla judges.
package rank

import (
	"encoding/hex"
	"encoding/json"
	"fmt"
	"math/rand"
	"sort"

	"0chain.net/chaincore/block"
	"0chain.net/chaincore/chain"
	"0chain.net/chaincore/node"
	"0chain.net/chaincore/round"
	"0chain.net/core/encryption"
	"0chain.net/core/viper"

	"verif/harness/common"
	"verif/harness/drivers/consobj"
	"verif/harness/rec"
)

func init() { common.Register("rank", Run) }

type pair struct {
	A string `json:"a"`
	D int    `json:"d"`
}

type blockObj struct {
	ID   int    `json:"id"`
	Hash string `json:"hash"`
	Rank int    `json:"rank"`
}

type behaviour struct {
	K    string   `json:"k"` // "rank" | "nb" | "repl"
	Seed int      `json:"seed"`
	O1   []string `json:"o1"`
	O2   []string `json:"o2"`
	Ops  []struct {
		Op string   `json:"op"`
		B  blockObj `json:"b"`
	} `json:"ops"`
	N10 int `json:"n10"`
}

type driver struct {
	a    common.Args
	rc   *rec.Recorder
	salt string
}

func (d *driver) keys(names []string) []consobj.Key {
	ks := make([]consobj.Key, len(names))
	for i, n := range names {
		ks[i] = consobj.NewKey(d.salt, n)
	}
	return ks
}

func strs(x []string) []string {
	if x == nil {
		return []string{}
	}
	return x
}

// Run replays every behaviour of the behaviours file (trace id = line number).
func Run(a common.Args) {
	consobj.Init()
	rc := rec.New(a.Out)
	defer rc.Close()
	d := &driver{a: a, rc: rc, salt: fmt.Sprintf("rank-%d", a.Seed)} // ids (hence id order) vary with the seed
	raw := common.Behaviours(a.Behav)
	if len(raw) == 0 {
		rec.Fatal("rank: no behaviours (this driver only replays TLC-enumerated behaviours)")
	}
	for i, r := range raw {
		id := i + 1
		if a.Only != 0 && a.Only != id {
			rc.TraceID = id
			continue
		}
		var b behaviour
		if err := json.Unmarshal(r, &b); err != nil {
			rec.Fatal("behaviour %d: %v", id, err)
		}
		rc.TraceID = id - 1
		rc.Reset(rec.M{"family": "rank", "id": id, "seed": a.Seed, "behaviour": b}, rec.M{"kind": b.K})
		rnd := common.TraceRand(a.Seed, id)
		switch {
		case b.K == "rank" && a.Prop == "C35":
			d.ranking(b)
		case b.K == "nb" && a.Prop == "C35":
			d.notarized(b)
		case b.K == "repl" && a.Prop == "C42":
			d.replicators(b, rnd)
		default:
			rec.Fatal("rank: behaviour kind %q does not belong to %s", b.K, a.Prop)
		}
	}
}

// ------------------------------------------------------------------ C35 (a)

// one "node" of the network: its own pool (own node objects), its own round object
func (d *driver) rankOn(order []string, seed int64) (ranks []pair, byRank []string) {
	pool, _ := consobj.NewPool(node.NodeTypeMiner, d.keys(order))
	name := map[string]string{}
	for _, n := range order {
		name[consobj.NewKey(d.salt, n).ID] = n
	}
	r := round.Provider().(*round.Round)
	r.Number = 5
	r.SetRandomSeed(seed, pool.Size())
	ranks = []pair{}
	for _, n := range pool.CopyNodes() {
		ranks = append(ranks, pair{name[n.GetKey()], r.GetMinerRank(n)})
	}
	sort.Slice(ranks, func(i, j int) bool { return ranks[i].A < ranks[j].A })
	byRank = []string{}
	for _, n := range r.GetMinersByRank(pool.CopyNodes()) {
		byRank = append(byRank, name[n.GetKey()])
	}
	return
}

func (d *driver) ranking(b behaviour) {
	// the real seed: a function of (VERIF_SEED, abstract seed id) only
	seed := rand.New(rand.NewSource(d.a.Seed*7919 + int64(b.Seed)*104729)).Int63()
	if seed == 0 {
		seed = 1
	}
	r1, by1 := d.rankOn(b.O1, seed)
	r2, by2 := d.rankOn(b.O2, seed)
	distinct := map[string]bool{}
	for _, n := range b.O1 {
		distinct[n] = true
	}
	same := "same-order"
	if fmt.Sprint(b.O1) != fmt.Sprint(b.O2) {
		same = "other-order"
	}
	if len(b.O2) != len(distinct) {
		same = "re-added"
	}
	d.rc.Emit(rec.M{"ev": "Rank", "seed": b.Seed, "n": len(distinct), "o1": strs(b.O1), "o2": strs(b.O2),
		"r1": r1, "r2": r2, "by1": by1, "by2": by2}, fmt.Sprintf("n%d/%s", len(distinct), same), true)
}

// ------------------------------------------------------------------ C35 (b)

func (d *driver) notarized(b behaviour) {
	r := round.Provider().(*round.Round)
	r.Number = 5
	objs := map[int]*block.Block{}
	idOf := map[*block.Block]int{}
	get := func(o blockObj) *block.Block {
		if x, ok := objs[o.ID]; ok {
			return x
		}
		x := block.Provider().(*block.Block)
		x.Round = 5
		x.Hash = o.Hash
		x.RoundRank = o.Rank
		objs[o.ID] = x
		idOf[x] = o.ID
		return x
	}
	for _, op := range b.Ops {
		x := get(op.B)
		before := len(r.GetNotarizedBlocks())
		switch op.Op {
		case "add":
			r.AddNotarizedBlock(x)
		case "update":
			r.UpdateNotarizedBlock(x)
		default:
			rec.Fatal("rank: unknown nb operation %q", op.Op)
		}
		list := []pair{}
		ranks := []int{}
		stored := "absent"
		for _, nb := range r.GetNotarizedBlocks() {
			list = append(list, pair{nb.Hash, idOf[nb]}) // an object the driver never handed in has id 0
			ranks = append(ranks, nb.RoundRank)
			if nb.Hash == x.Hash {
				stored = "other-object"
				if nb == x {
					stored = "this-object"
				}
			}
		}
		d.rc.Emit(rec.M{"ev": "Nb", "op": op.Op, "hash": op.B.Hash, "rank": op.B.Rank, "id": op.B.ID,
			"list": list, "ranks": ranks}, fmt.Sprintf("%s/%s/%d->%d", op.Op, stored, before, len(list)), true)
	}
}

// ------------------------------------------------------------------ C42

func (d *driver) chainWith(order []string, n int) (*chain.Chain, *node.Pool, map[string]string) {
	viper.Set("server_chain.block.replicators", n)
	c := chain.Provider().(*chain.Chain)
	if c.NumReplicators() != n {
		rec.Fatal("rank: chain reports %d replicators, configured %d", c.NumReplicators(), n)
	}
	pool, _ := consobj.NewPool(node.NodeTypeSharder, d.keys(order))
	mb := block.NewMagicBlock()
	mb.Miners = node.NewPool(node.NodeTypeMiner)
	mb.Sharders = pool
	mb.StartingRound = 0
	mb.MagicBlockNumber = 1
	c.SetMagicBlock(mb)
	name := map[string]string{}
	for _, s := range order {
		name[consobj.NewKey(d.salt, s).ID] = s
	}
	return c, pool, name
}

// score as the real scorer computes it (only used to SEARCH for hashes that tie at the cut)
func score(idHex, hashHex string) int32 {
	a, _ := hex.DecodeString(idHex)
	b, _ := hex.DecodeString(hashHex)
	return encryption.NewXORHashScorer().Score(a, b)
}

// pickHash returns a block hash; for every second behaviour it searches for one whose n-th and
// (n+1)-th scores are equal (a tie at the cut), the case in which a tie-break could matter.
func (d *driver) pickHash(order []string, n int, rnd *rand.Rand, wantTie bool) (string, bool) {
	var h string
	for try := 0; try < 4000; try++ {
		h = encryption.Hash(fmt.Sprintf("block-%d-%d", rnd.Int63(), try))
		if !wantTie || n <= 0 || n >= len(order) {
			return h, false
		}
		var sc []int
		for _, s := range order {
			sc = append(sc, int(score(consobj.NewKey(d.salt, s).ID, h)))
		}
		sort.Sort(sort.Reverse(sort.IntSlice(sc)))
		if sc[n-1] == sc[n] {
			return h, true
		}
	}
	return h, false
}

func (d *driver) replicators(b behaviour, rnd *rand.Rand) {
	n := b.N10 - 10
	// the two nodes: each its own chain object and its own sharder pool (own node objects)
	type nodeSide struct {
		c    *chain.Chain
		pool *node.Pool
		name map[string]string
	}
	var sides []nodeSide
	for _, order := range [][]string{b.O1, b.O2} {
		c, pool, name := d.chainWith(order, n)
		sides = append(sides, nodeSide{c, pool, name})
	}
	for k := 0; k < 4; k++ { // four block hashes per behaviour, every second one with a tie at the cut
		hash, tie := d.pickHash(b.O1, n, rnd, k%2 == 1)
		res := map[int]rec.M{}
		for side := range sides {
			c, pool, name := sides[side].c, sides[side].pool, sides[side].name
			blk := block.Provider().(*block.Block)
			blk.Round = 5
			blk.Hash = hash
			set := []string{}
			in := []pair{}
			ok := []pair{}
			for _, s := range pool.CopyNodes() {
				can, nodes := c.CanShardBlockWithReplicators(5, hash, s)
				if len(set) == 0 {
					for _, x := range nodes {
						set = append(set, name[x.GetKey()])
					}
					sort.Strings(set)
				}
				is := c.IsBlockSharder(blk, s)
				if c.IsBlockSharderFromHash(5, hash, s) != is {
					is = !is // disagreement between the two entry points shows up as in != ok below
				}
				in = append(in, pair{name[s.GetKey()], b2i(is)})
				ok = append(ok, pair{name[s.GetKey()], b2i(can)})
			}
			sort.Slice(in, func(i, j int) bool { return in[i].A < in[j].A })
			sort.Slice(ok, func(i, j int) bool { return ok[i].A < ok[j].A })
			res[side] = rec.M{"set": set, "in": in, "ok": ok}
		}
		cls := "n<=0"
		if n > 0 {
			cls = "n<=size"
			if n > len(b.O1) {
				cls = "n>size"
			}
		}
		d.rc.Emit(rec.M{"ev": "Repl", "n": n, "size": len(b.O1), "o1": strs(b.O1), "o2": strs(b.O2),
			"set1": res[0]["set"], "set2": res[1]["set"], "in1": res[0]["in"], "in2": res[1]["in"],
			"ok1": res[0]["ok"], "ok2": res[1]["ok"], "tie": tie},
			fmt.Sprintf("%s/tie=%v/|set|=%d", cls, tie, len(res[0]["set"].([]string))), true)
	}
}

func b2i(b bool) int {
	if b {
		return 1
	}
	return 0
}
