// Package statesync checks C28 on the real code: blocks are executed on the real chain (world),
// their state changes are published with the real block.NewBlockStateChange, tampered in one of the
// classes of StateSync.tla, sent through the real codec (datastore.ToMsgpack/FromMsgpack or JSON,
// which runs PartialState.ComputeProperties as on receipt from a peer) and applied with the real
// Chain.ApplyBlockStateChange to a fresh copy of the block that only has the previous state.
package statesync

import (
	"bytes"
	"context"
	"fmt"
	"math/rand"
	"sort"

	"0chain.net/chaincore/block"
	"0chain.net/chaincore/transaction"
	"0chain.net/core/datastore"
	"0chain.net/core/encryption"

	"github.com/0chain/common/core/util"

	"verif/harness/common"
	"verif/harness/rec"
	"verif/harness/world"
)

func init() { common.Register("statesync", Run) }

var classes = []string{"none", "drop", "extra", "alter", "alterinner", "wrongroot", "wronghash", "replay", "swap", "dup", "relabel"}

type drv struct {
	w  *world.World
	rc *rec.Recorder
	r  *rand.Rand
	// specs of the transactions of the block being built (makeBlock), for competing executions
	specs []world.TxnSpec
	// rivals[block hash]: the self-consistent change set of a competing execution of that block on the same
	// previous block (nil if none could be built)
	rivals map[string]*block.StateChange
	// post, when set by tamper, changes the set AFTER receipt (codec + ComputeProperties), i.e. while
	// it carries the root and node db computed for what was received
	post func(recv *block.StateChange) string
	// counters reported in the evidence
	incomplete int
	acceptedBy map[string]int
}

// Run is the driver entry point.
func Run(a common.Args) {
	w := world.New(world.Options{Clients: 4, PoorBalances: []uint64{50, 3}})
	defer w.Close()
	rc := rec.New(a.Out)
	defer rc.Close()
	d := &drv{w: w, rc: rc, acceptedBy: map[string]int{}}
	id := 0
	for i := 0; i < a.N; i++ {
		id++
		if a.Only != 0 && a.Only != id {
			rc.TraceID = id
			continue
		}
		d.r = common.TraceRand(a.Seed, id)
		d.trace(id, a)
	}
	rc.Extra["x_incomplete_accepted"] = d.incomplete
	rc.Extra["x_accepted_by_class"] = d.acceptedBy
}

// someTxns executes 1..n transactions of mixed kinds in the current block.
func (d *drv) someTxns(n int) {
	w := d.w
	keys := append([]*world.Key{}, w.Clients...)
	for i := 0; i < n; i++ {
		from := keys[d.r.Intn(len(keys))]
		ts := world.TxnSpec{From: from, Fee: uint64(d.r.Intn(3))}
		switch d.r.Intn(6) {
		case 0, 1, 2:
			ts.Type = transaction.TxnTypeSend
			ts.To = keys[d.r.Intn(len(keys))].ID
			if d.r.Intn(4) == 0 {
				ts.To = encryption.Hash(fmt.Sprintf("fresh-%d", d.r.Intn(1000)))
			}
			ts.Value = uint64(1 + d.r.Intn(20))
		case 3:
			ts.Type = transaction.TxnTypeSmartContract
			ts.To, ts.Fn = world.Contracts["faucetsc"], "pour"
			ts.Value = uint64(1 + d.r.Intn(5))
		case 4:
			ts.Type = transaction.TxnTypeSmartContract
			ts.To, ts.Fn, ts.Input = world.Contracts["storagesc"], "read_pool_lock", map[string]string{}
			ts.Value = uint64(1 + d.r.Intn(100))
		default:
			ts.Type = transaction.TxnTypeSmartContract
			ts.To, ts.Fn = world.Contracts["faucetsc"], "no_such_function"
		}
		d.specs = append(d.specs, ts)
		w.DoRec(d.rc, ts, rec.M{"src": "statesync"})
	}
}

func (d *drv) makeBlock(on *block.Block, n int) *block.Block {
	w := d.w
	w.BeginBlock(on)
	d.specs = nil
	d.someTxns(n)
	for i := 0; w.CurState.GetChangeCount() == 0 && i < 5; i++ {
		// every transaction was rejected: a block without changes publishes no change set
		// (NewBlockStateChange refuses it); add a plain send that applies
		ts := world.TxnSpec{From: w.Clients[0], To: w.Clients[1].ID, Type: transaction.TxnTypeSend, Value: 1}
		d.specs = append(d.specs, ts)
		w.DoRec(d.rc, ts, rec.M{"src": "statesync"})
	}
	b := w.EndBlock()
	b.SetStateChangesCount(b.ClientState) // as the generator does (miner/protocol_block.go)
	return b
}

// rival executes a competing block on the same previous block: the same transactions with the value of
// one of them changed (not recorded: it is not part of the history, only a source of a valid change set
// of another execution). Preferred: a different root with the same number of changed nodes, so that
// only the comparison of the merged root can tell it from the published set; otherwise any different root.
func (d *drv) rival(of *block.Block, specs []world.TxnSpec) *block.StateChange {
	w := d.w
	head := w.Head
	defer func() { w.Head = head }()
	var fallback *block.StateChange
	for k := 0; k <= len(specs); k++ {
		w.BeginBlock(of.PrevBlock)
		for i, ts := range specs {
			if i == k {
				ts.Value++
			}
			w.Do(ts)
		}
		if k == len(specs) { // one more transfer
			w.Do(world.TxnSpec{From: w.Clients[0], To: w.Clients[1].ID, Type: transaction.TxnTypeSend, Value: 1})
		}
		if w.CurState.GetChangeCount() == 0 {
			w.EndBlock()
			continue
		}
		rb := w.EndBlock()
		rb.SetStateChangesCount(rb.ClientState)
		if bytes.Equal(rb.ClientStateHash, of.ClientStateHash) {
			continue
		}
		s, err := block.NewBlockStateChange(rb)
		if err != nil {
			continue
		}
		sortSet(s)
		if rb.StateChangesCount == of.StateChangesCount {
			return s
		}
		if fallback == nil {
			fallback = s
		}
	}
	return fallback
}

func cloneNodes(ns []util.Node) []util.Node {
	out := make([]util.Node, len(ns))
	for i, n := range ns {
		if n != nil {
			out[i] = n.CloneNode()
		}
	}
	return out
}

// copySet builds an independent change set with the same content.
func copySet(s *block.StateChange) *block.StateChange {
	t := block.StateChangeProvider().(*block.StateChange)
	t.Version = s.Version
	t.Block = s.Block
	t.Hash = append(util.Key{}, s.Hash...)
	t.StartRoot = append(util.Key{}, s.StartRoot...)
	t.Nodes = cloneNodes(s.Nodes)
	t.DeadNodes = cloneNodes(s.DeadNodes)
	return t
}

// sortSet orders the nodes (and their dead counterparts) by hash.
func sortSet(s *block.StateChange) {
	idx := make([]int, len(s.Nodes))
	for i := range idx {
		idx[i] = i
	}
	sort.Slice(idx, func(a, b int) bool { return s.Nodes[idx[a]].GetHash() < s.Nodes[idx[b]].GetHash() })
	nodes, dead := make([]util.Node, len(idx)), make([]util.Node, len(idx))
	for k, i := range idx {
		nodes[k] = s.Nodes[i]
		if i < len(s.DeadNodes) {
			dead[k] = s.DeadNodes[i]
		}
	}
	s.Nodes, s.DeadNodes = nodes, dead
}

func indexOfType(ns []util.Node, r *rand.Rand, want func(util.Node) bool) int {
	var idx []int
	for i, n := range ns {
		if want(n) {
			idx = append(idx, i)
		}
	}
	if len(idx) == 0 {
		return -1
	}
	return idx[r.Intn(len(idx))]
}

func isLeaf(n util.Node) bool  { _, ok := n.(*util.LeafNode); return ok }
func isFull(n util.Node) bool  { _, ok := n.(*util.FullNode); return ok }
func anyNode(n util.Node) bool { return true }

func remove(ns []util.Node, i int) []util.Node {
	return append(append([]util.Node{}, ns[:i]...), ns[i+1:]...)
}

// tamper applies one tampering of the class; returns the variant label, or "" if the class is not
// applicable to this set (then the honest set is used and the class is logged as "none").
func (d *drv) tamper(class string, t *block.StateChange, target, other *block.Block, otherSet *block.StateChange) string {
	r := d.r
	inSet := map[string]bool{}
	for _, n := range t.Nodes {
		inSet[n.GetHash()] = true
	}
	switch class {
	case "none":
		return "honest"
	case "drop":
		i := r.Intn(len(t.Nodes))
		v := fmt.Sprintf("drop-%T", t.Nodes[i])
		t.Nodes = remove(t.Nodes, i)
		if i < len(t.DeadNodes) {
			t.DeadNodes = remove(t.DeadNodes, i)
		}
		return v
	case "extra":
		switch r.Intn(3) {
		case 0: // an unrelated leaf
			t.Nodes = append(t.Nodes, util.NewLeafNode(util.Path("ab"), util.Path("cdef0123"), util.Sequence(target.Round),
				&util.SecureSerializableValue{Buffer: []byte(fmt.Sprintf("extra-%d", r.Intn(1000)))}))
			return "extra-unrelated-leaf"
		case 1: // an old node of the previous state
			for _, dn := range t.DeadNodes {
				if dn != nil && !inSet[dn.GetHash()] {
					t.Nodes = append(t.Nodes, dn.CloneNode())
					return "extra-old-node"
				}
			}
			fallthrough
		default: // a node of another block's set
			for _, n := range otherSet.Nodes {
				if !inSet[n.GetHash()] {
					t.Nodes = append(t.Nodes, n.CloneNode())
					return "extra-foreign-node"
				}
			}
		}
		return ""
	case "alter":
		i := indexOfType(t.Nodes, r, isLeaf)
		if i < 0 {
			return ""
		}
		ln := t.Nodes[i].(*util.LeafNode)
		ln.SetValue(&util.SecureSerializableValue{Buffer: append([]byte("tampered:"), ln.GetValueBytes()...)})
		return "alter-leaf-value"
	case "alterinner":
		i := indexOfType(t.Nodes, r, isFull)
		if i < 0 {
			return ""
		}
		fn := t.Nodes[i].(*util.FullNode)
		for c := 0; c < 16; c++ {
			if fn.Children[c] != nil {
				fn.Children[c] = encryption.RawHash(fmt.Sprintf("bogus-%d", r.Intn(1000)))
				return "alter-inner-child"
			}
		}
		return ""
	case "wrongroot":
		switch r.Intn(3) {
		case 0:
			t.Hash = append(util.Key{}, target.PrevBlock.ClientStateHash...)
			return "declared-root=prev-root"
		case 1:
			t.Hash = encryption.RawHash(fmt.Sprintf("root-%d", r.Intn(1000)))
			return "declared-root=random"
		default: // a consistent set of another execution, presented for this block
			o := copySet(otherSet)
			o.Block = target.Hash
			*t = *o
			return "other-execution-under-this-hash"
		}
	case "wronghash":
		if r.Intn(2) == 0 {
			t.Block = other.Hash
			return "block=other-block"
		}
		t.Block = encryption.Hash(fmt.Sprintf("nohash-%d", r.Intn(1000)))
		return "block=random"
	case "replay":
		*t = *copySet(otherSet)
		return "other-block-set-verbatim"
	case "swap":
		// drop a changed leaf, fill the count with an unchanged node that a node of the set refers to
		li := indexOfType(t.Nodes, r, isLeaf)
		if li < 0 {
			return ""
		}
		db := target.ClientState.GetNodeDB()
		for _, n := range t.Nodes {
			fn, ok := n.(*util.FullNode)
			if !ok {
				continue
			}
			for c := 0; c < 16; c++ {
				ck := fn.Children[c]
				if ck == nil || inSet[util.ToHex(ck)] {
					continue
				}
				filler, err := db.GetNode(ck)
				if err != nil || filler == nil {
					continue
				}
				t.Nodes = append(remove(t.Nodes, li), filler.CloneNode())
				return "swap-leaf-for-unchanged-sibling"
			}
		}
		return ""
	case "relabel":
		// a set that is consistent when it is received (its nodes compute to its declared root) and
		// is relabelled for the target block afterwards: the cached computed root differs from the
		// declared one, only the merged root can tell
		src, v := otherSet, "other-block-set-relabelled-after-receipt"
		if rv := d.rivals[target.Hash]; rv != nil && r.Intn(4) != 0 {
			src, v = rv, "competing-execution-relabelled-after-receipt"
		}
		*t = *copySet(src)
		full := r.Intn(4) != 0
		if !full {
			v += "-root-only"
		}
		d.post = func(recv *block.StateChange) string {
			recv.Hash = append(util.Key{}, target.ClientStateHash...)
			if full {
				recv.Block = target.Hash
			}
			return v
		}
		return v
	case "dup":
		i := r.Intn(len(t.Nodes))
		if len(t.Nodes) > 1 && r.Intn(2) == 0 { // keep the count: duplicate one, drop another
			j := (i + 1 + r.Intn(len(t.Nodes)-1)) % len(t.Nodes)
			t.Nodes[j] = t.Nodes[i].CloneNode()
			return "dup-replacing-another"
		}
		t.Nodes = append(t.Nodes, t.Nodes[i].CloneNode())
		return "dup-appended"
	}
	return ""
}

// freshCopy is the block as a syncing node has it: header fields only, linked to the previous block.
func (d *drv) freshCopy(b *block.Block, prevComputed bool) *block.Block {
	fb := block.NewBlock(d.w.Chain.GetKey(), b.Round)
	fb.Hash = b.Hash
	fb.MinerID = b.MinerID
	fb.CreationDate = b.CreationDate
	fb.ClientStateHash = append(util.Key{}, b.ClientStateHash...)
	fb.StateChangesCount = b.StateChangesCount
	fb.SetRoundRandomSeed(b.GetRoundRandomSeed())
	if prevComputed {
		fb.SetPreviousBlock(b.PrevBlock)
	} else {
		// the previous block is known by hash only; its state is in the persistent store
		fb.PrevHash = b.PrevHash
	}
	return fb
}

type walk struct {
	values  map[string]string // path -> hash of value bytes
	missing int
}

func walkState(s util.MerklePatriciaTrieI) walk {
	wk := walk{values: map[string]string{}}
	_ = s.Iterate(context.Background(), func(ctx context.Context, path util.Path, key util.Key, n util.Node) error {
		if n == nil {
			wk.missing++
			return nil
		}
		if vn, ok := n.(*util.ValueNode); ok {
			wk.values[string(path)] = encryption.Hash(vn.GetValueBytes())
		}
		return nil
	}, util.NodeTypeValueNode|util.NodeTypeLeafNode|util.NodeTypeFullNode|util.NodeTypeExtensionNode)
	return wk
}

func (d *drv) trace(id int, a common.Args) {
	w := d.w
	w.Now = 1700000000 // same block times (hence the same node hashes) whether or not other traces ran before
	d.rc.TraceID = id - 1
	d.rc.Reset(rec.M{"family": "statesync", "id": id, "seed": a.Seed, "steps": a.Steps}, rec.M{"nonces": w.InitNonces(w.Genesis.ClientState)})
	// two consecutive executed blocks on genesis
	b1 := d.makeBlock(w.Genesis, 1+d.r.Intn(4))
	specs1 := d.specs
	b2 := d.makeBlock(b1, 1+d.r.Intn(4))
	specs2 := d.specs
	d.rivals = map[string]*block.StateChange{b1.Hash: d.rival(b1, specs1), b2.Hash: d.rival(b2, specs2)}
	// the previous states are persisted, as after finalization (needed when the syncing node has
	// the previous block by hash only)
	ctx := context.Background()
	if err := w.Chain.SaveChanges(ctx, b1); err != nil {
		rec.Fatal("save b1: %v", err)
	}
	blocks := []*block.Block{b1, b2}
	sets := make([]*block.StateChange, 2)
	for i, b := range blocks {
		s, err := block.NewBlockStateChange(b)
		if err != nil {
			rec.Fatal("NewBlockStateChange: %v", err)
		}
		sortSet(s) // GetChanges lists the nodes in map order: fix an order so that the seeded choices repeat
		sets[i] = s
	}
	for step := 0; step < a.Steps; step++ {
		ti := d.r.Intn(2)
		target, other := blocks[ti], blocks[1-ti]
		class := classes[d.r.Intn(len(classes))]
		if step < len(classes) {
			class = classes[step] // every class at least once per trace
		}
		d.sync(class, target, other, sets[ti], sets[1-ti])
	}
}

func (d *drv) sync(class string, target, other *block.Block, honest, otherSet *block.StateChange) {
	w := d.w
	t := copySet(honest)
	d.post = nil
	variant := d.tamper(class, t, target, other, otherSet)
	if variant == "" {
		class, variant = "none", "honest"
		t = copySet(honest)
		d.post = nil
	}
	hashMatch := t.Block == target.Hash
	rootMatch := bytes.Equal(t.Hash, target.ClientStateHash)
	countMatch := len(t.Nodes) == target.StateChangesCount

	// nodes of the tampered set that the persistent store does not have yet
	sdb := w.Chain.GetStateDB()
	var fresh []util.Key
	for _, n := range t.Nodes {
		if _, err := sdb.GetNode(n.GetHashBytes()); err != nil {
			fresh = append(fresh, n.GetHashBytes())
		}
	}
	prevRoot := util.ToHex(target.PrevBlock.ClientState.GetRoot())
	prevWalk := walkState(target.PrevBlock.ClientState)

	// the wire: what the sender serialises is what the receiver decodes + ComputeProperties
	codec := "msgpack"
	recv := block.StateChangeProvider().(*block.StateChange)
	var rerr error
	if d.r.Intn(3) == 0 {
		codec = "json"
		rerr = datastore.FromJSON(datastore.ToJSON(t).Bytes(), recv)
	} else {
		rerr = datastore.FromMsgpack(datastore.ToMsgpack(t).Bytes(), recv)
	}

	if rerr == nil && d.post != nil {
		// what ApplyBlockStateChange is given is the received set with its labels changed
		variant = d.post(recv)
		hashMatch = recv.Block == target.Hash
		rootMatch = bytes.Equal(recv.Hash, target.ClientStateHash)
		countMatch = len(recv.Nodes) == target.StateChangesCount
	}
	// the root that the nodes of the set compute to (cached by ComputeProperties on receipt)
	crootMatch := false
	if rerr == nil && recv.GetRoot() != nil {
		crootMatch = bytes.Equal(recv.GetRoot().GetHashBytes(), target.ClientStateHash)
	}
	prevComputed := d.r.Intn(3) != 0
	fb := d.freshCopy(target, prevComputed)
	status0 := fb.GetStateStatus()
	stage, accepted, panicked := "", false, false
	if rerr != nil {
		stage = "receive"
	} else {
		func() {
			defer func() {
				if r := recover(); r != nil {
					panicked = true
				}
			}()
			if err := w.Chain.ApplyBlockStateChange(fb, recv); err != nil {
				stage = "apply"
			} else {
				accepted = true
			}
		}()
	}
	stateSet := fb.ClientState != nil && fb.IsStateComputed()
	rootEqual, missing, wrong, absent := false, 0, 0, 0
	if stateSet {
		rootEqual = bytes.Equal(fb.ClientState.GetRoot(), target.ClientState.GetRoot())
		got := walkState(fb.ClientState)
		want := walkState(target.ClientState)
		missing = got.missing
		for p, h := range got.values {
			if want.values[p] != h {
				wrong++
			}
		}
		for p := range want.values {
			if _, ok := got.values[p]; !ok {
				absent++
			}
		}
	}
	// untouched: the copy has no state, its status did not move, the previous block's state reads
	// the same, and none of the set's new nodes reached the persistent store
	after := walkState(target.PrevBlock.ClientState)
	samePrev := util.ToHex(target.PrevBlock.ClientState.GetRoot()) == prevRoot && after.missing == prevWalk.missing && len(after.values) == len(prevWalk.values)
	if samePrev {
		for p, h := range prevWalk.values {
			if after.values[p] != h {
				samePrev = false
				break
			}
		}
	}
	leaked := 0
	if !accepted {
		for _, k := range fresh {
			if _, err := sdb.GetNode(k); err == nil {
				leaked++
			}
		}
	}
	headerSame := bytes.Equal(fb.ClientStateHash, target.ClientStateHash) && fb.StateChangesCount == target.StateChangesCount && fb.Hash == target.Hash
	untouched := fb.ClientState == nil && fb.GetStateStatus() == status0 && samePrev && headerSame
	if accepted {
		d.acceptedBy[class]++
		if missing > 0 || absent > 0 {
			d.incomplete++
		}
	}
	shapeClass := class
	if class == "relabel" && hashMatch && rootMatch && countMatch {
		// only the merged root differs from what the block declares
		shapeClass = "relabel/samecount"
	}
	out := "rejected@" + stage
	if accepted {
		out = "accepted"
		if missing > 0 {
			out = "accepted-incomplete"
		}
	}
	prevMode := "computed"
	if !prevComputed {
		prevMode = "persisted"
	}
	d.rc.Emit(rec.M{"ev": "Sync", "tamper": class, "variant": variant, "codec": codec, "prev": prevMode, "block_round": target.Round,
		"n_nodes": len(t.Nodes), "count": target.StateChangesCount,
		"hash_match": hashMatch, "root_match": rootMatch, "count_match": countMatch, "croot_match": crootMatch, "header_same": headerSame,
		"stage": stage, "accepted": accepted, "state_set": stateSet, "root_equal": rootEqual,
		"missing": missing, "wrong": wrong, "absent": absent, "untouched": untouched, "prev_same": samePrev, "leaked": leaked, "panic": panicked},
		shapeClass+"/"+out, accepted)
}
