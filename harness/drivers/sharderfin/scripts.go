package sharderfin

import "fmt"

// scripts are fixed histories run before the random ones: each walks one path of the model end to end
// (they also keep the required driver actions of the check from depending on the luck of a seed).
func scripts() []behaviour {
	pd := func(from, to int, deliver bool) []op { // the miners produce rounds from..to (3 - r%3 transactions)
		var o []op
		for r := from; r <= to; r++ {
			o = append(o, op{Op: "produce", R: r, N: r % 3})
			if deliver {
				o = append(o, op{Op: "deliver", B: fmt.Sprintf("b%d", r)})
			}
		}
		return o
	}
	dl := func(from, to int) []op {
		var o []op
		for r := from; r <= to; r++ {
			o = append(o, op{Op: "deliver", B: fmt.Sprintf("b%d", r)})
		}
		return o
	}
	rd := func(kind, arg string) op { return op{Op: "read", Kind: kind, Arg: arg} }
	cat := func(xs ...[]op) []op {
		var o []op
		for _, x := range xs {
			o = append(o, x...)
		}
		return o
	}
	return []behaviour{
		// finalization, reads from memory, restart, the same reads from the stores, finalization goes on
		{R: 8, K: 0, Batch: 2, Ops: cat(pd(1, 7, true), []op{{Op: "finround", R: 4}, {Op: "finround", R: 6}, {Op: "finround", R: 7},
			rd("block_round", "2"), rd("confirm", "b1t1"), rd("confirm", "b2t2"), rd("s2s_block", "3"), rd("header_round", "4"),
			{Op: "restart"},
			rd("block_round", "2"), rd("confirm", "b1t1"), rd("confirm", "b2t2"), rd("s2s_block", "3"), rd("header_round", "4"), rd("block_hash", "b1")},
			pd(8, 8, false), dl(5, 8), []op{{Op: "finround", R: 8}, rd("block_round", "5"), rd("lfb", "")})},
		// crash inside UpdateFinalizedBlock, restart, the block is finalized again, health check
		{R: 6, K: 0, Batch: 1, Ops: cat(pd(1, 5, true), []op{{Op: "partial", B: "b1", Steps: []string{"txns", "block"}}, {Op: "restart"}},
			dl(1, 5), []op{{Op: "finround", R: 5}, {Op: "hccycle", Mode: "deep"}, {Op: "hc", R: 1, Mode: "proximity"}, {Op: "hc", R: 1, Mode: "proximity"}})},
		// the whole UpdateFinalizedBlock ran but the LFB was not moved: restart, finalized again
		{R: 6, K: 2, Batch: 2, Ops: cat(pd(1, 5, true), []op{{Op: "ufbdirect", B: "b1"}, {Op: "restart"}},
			dl(1, 5), []op{{Op: "finround", R: 5}, rd("confirm", "b1t1"), {Op: "hc", R: 1, Mode: "deep"}})},
		// a sharder that missed the rounds: the health check fills them from the other sharders; peers down; lost file
		{R: 8, K: 2, Batch: 3, Ops: cat(pd(1, 8, false), []op{{Op: "hc", R: 8, Mode: "deep"}, {Op: "hc", R: 5, Mode: "deep"}, {Op: "hc", R: 4, Mode: "deep"},
			{Op: "hc", R: 2, Mode: "deep"}, {Op: "hc", R: 1, Mode: "deep"}, {Op: "hc", R: 0, Mode: "deep"},
			rd("s2s_round", "5"), rd("s2s_summary", "b5"), rd("confirm", "b5t1"),
			{Op: "peers", Up: false}, {Op: "hc", R: 7, Mode: "proximity"}, {Op: "losefile", B: "b2"}, {Op: "hc", R: 2, Mode: "proximity"},
			{Op: "peers", Up: true}, {Op: "hc", R: 2, Mode: "proximity"}, {Op: "hc", R: 7, Mode: "proximity"}, {Op: "hc", R: 6, Mode: "proximity"}})},
		// the other sharders lag behind this one: the health check must keep what this sharder has
		{R: 8, K: 0, Batch: 3, Ops: cat(pd(1, 7, true), []op{{Op: "finround", R: 5}, {Op: "finround", R: 7}, {Op: "peerlag", N: 5},
			{Op: "hc", R: 4, Mode: "deep"}, {Op: "hc", R: 3, Mode: "deep"}, {Op: "losefile", B: "b3"}, {Op: "hc", R: 3, Mode: "deep"}, {Op: "hc", R: 6, Mode: "deep"},
			{Op: "peerlag", N: 0}, {Op: "hc", R: 3, Mode: "deep"}, {Op: "hc", R: 6, Mode: "deep"}})},
		// replication disabled and a fork block: only the canonical chain is stored
		{R: 7, K: 0, Batch: 1, Ops: cat(pd(1, 4, true), []op{{Op: "produce", R: 2, N: 1, Fork: true}, {Op: "deliver", B: "f2"},
			{Op: "produce", R: 4, N: 2, Fork: true}, {Op: "deliver", B: "f4"}}, pd(5, 7, true),
			[]op{{Op: "finround", R: 6}, {Op: "finround", R: 7}, rd("block_hash", "f2"), rd("block_round", "2"), rd("s2s_block_round", "4")})},
	}
}
