package sharderfin

import (
	"bytes"
	"context"
	"encoding/json"
	"fmt"
	"hash/crc32"
	"math/rand"
	"os"
	"path/filepath"
	"runtime/debug"
	"sort"
	"strings"
	"sync"
	"time"

	"0chain.net/chaincore/block"
	"0chain.net/chaincore/chain"
	"0chain.net/chaincore/node"
	"0chain.net/chaincore/round"
	"0chain.net/chaincore/transaction"
	"0chain.net/core/config"
	"0chain.net/core/datastore"
	"0chain.net/core/viper"
	"0chain.net/sharder"

	"verif/harness/common"
	"verif/harness/rec"
	"verif/harness/world"
)

func init() { common.Register("sharderfin", Run) }

type drv struct {
	w   *world.World
	c   *chain.Chain
	sc  *sharder.Chain
	rc  *rec.Recorder
	r   *rand.Rand
	ctx context.Context

	storeDir string
	traceDir string
	nDirs    int

	ufbMu    sync.Mutex
	ufbCalls []ufbCall

	peers    []*peer
	peerMu   sync.Mutex
	peerUp   [nSharders]bool
	peerLfb  int64
	peerLag  int64 // the other sharders are that many rounds behind the miners
	peerReqs map[string]int

	// per trace: the environment's view (what the miners produced)
	maxR     int
	repl     int
	batch    int
	canon    []*block.Block          // canon[r] = canonical block of round r (canon[0] = genesis)
	blocks   map[string]*block.Block // abstract name -> block ("g", "b3", "f3")
	names    map[string]string       // hash -> abstract name
	order    []string                // block names in creation order
	txnOf    map[string]string       // txn hash -> abstract txn name
	txnName  map[string]string       // abstract txn name -> hash
	txnBlk   map[string]string       // abstract txn name -> block name
	dig      map[string]digests      // block name -> digests at production
	txdig    map[string]int          // txn name -> digest
	rounds   map[int]round.RoundI    // rounds registered in the chain in this trace
	deliv    map[string]bool         // block is in the sharder's memory
	fileSeen map[string]fileState    // block name -> block file as last decoded by the projection
	mbN      int64                   // magic block number of the genesis magic block (1)
	mbNums   []int64                 // real magic block numbers of this trace, in order (mbNums[0] = genesis)
}

type digests struct{ all, hdr, txn, out, mb int }

type fileState struct {
	size int64
	mod  time.Time
	bad  string
}

func (d *drv) blockFile(h string) string {
	return filepath.Join(d.storeDir, "data", "blocks", string(h[0]), string(h[1]), string(h[2]), string(h[3]), string(h[4]), h[5:]+".dat.zlib")
}

func sum(b []byte) int { return int(crc32.ChecksumIEEE(b) & 0xFFFFFFF) }

func jsonOf(v interface{}) []byte {
	b, err := json.Marshal(v)
	if err != nil {
		return []byte("marshal-error:" + err.Error())
	}
	// an absent list and an empty list are the same content (decoding turns one into the other)
	return bytes.ReplaceAll(b, []byte("null"), []byte("[]"))
}

func txnDigest(t *transaction.Transaction) string {
	return fmt.Sprintf("%v|%v|%v|%v|%v|%v|%v|%v|%v|%v|%v|%v|%v|%v|%v|%v;", t.Hash, t.Version, t.ClientID, t.PublicKey, t.ToClientID, t.ChainID,
		t.TransactionData, t.Value, t.Signature, t.CreationDate, t.Fee, t.Nonce, t.TransactionType, t.TransactionOutput, t.OutputHash, t.Status)
}

// digest projects a block on the components C26 names: the whole block, its header, its transactions,
// their outputs, its magic block (small integers for TLC).
func digest(b *block.Block) digests {
	var d digests
	// the whole block as JSON, without the magic block (its node pools carry volatile statistics of the
	// running process; the magic block has its own digest below)
	var whole map[string]interface{}
	if err := json.Unmarshal(jsonOf(b), &whole); err == nil {
		delete(whole, "magic_block")
		delete(whole, "miners")
		delete(whole, "sharders")
		delete(whole, "mpks")
		delete(whole, "share_or_signs")
		d.all = sum(jsonOf(whole))
	} else {
		d.all = sum(jsonOf(b))
	}
	hdr := fmt.Sprintf("%v|%v|%v|%v|%v|%v|%v|%v|%v|%v|%x|%v|%v|%v|%v|%v|%d|%d",
		b.Version, b.CreationDate, b.LatestFinalizedMagicBlockHash, b.LatestFinalizedMagicBlockRound, b.PrevHash,
		b.MinerID, b.Round, b.RoundRandomSeed, b.RoundTimeoutCount, b.Hash, []byte(b.ClientStateHash), b.Signature,
		b.ChainID, b.RunningTxnCount, b.StateChangesCount, len(b.Txns), len(b.PrevBlockVerificationTickets), len(b.VerificationTickets))
	hdr += string(jsonOf(b.PrevBlockVerificationTickets)) + string(jsonOf(b.VerificationTickets))
	d.hdr = sum([]byte(hdr))
	_ = hdrOf
	var txn, out string
	for _, t := range b.Txns {
		txn += fmt.Sprintf("%v|%v|%v|%v|%v|%v|%v|%v|%v|%v|%v|%v;", t.Hash, t.Version, t.ClientID, t.PublicKey, t.ToClientID, t.ChainID,
			t.TransactionData, t.Value, t.Signature, t.CreationDate, t.Fee, t.Nonce) + fmt.Sprint(t.TransactionType)
		out += fmt.Sprintf("%v|%v|%v;", t.TransactionOutput, t.OutputHash, t.Status)
	}
	d.txn, d.out = sum([]byte(txn)), sum([]byte(out))
	if mb := b.MagicBlock; mb != nil {
		mk, sk := mb.Miners.Keys(), mb.Sharders.Keys()
		sort.Strings(mk)
		sort.Strings(sk)
		d.mb = sum([]byte(fmt.Sprintf("%v|%v|%v|%v|%v|%v|%v|%v|%v|%v", mb.Hash, mb.GetHash(), mb.MagicBlockNumber, mb.PreviousMagicBlockHash,
			mb.StartingRound, mb.T, mb.K, mb.N, mk, sk)))
	}
	return d
}

func hdrOf(b *block.Block) string {
	hdr := fmt.Sprintf("%v|%v|%v|%v|%v|%v|%v|%v|%v|%v|%x|%v|%v|%v|%v|%v|%d|%d",
		b.Version, b.CreationDate, b.LatestFinalizedMagicBlockHash, b.LatestFinalizedMagicBlockRound, b.PrevHash,
		b.MinerID, b.Round, b.RoundRandomSeed, b.RoundTimeoutCount, b.Hash, []byte(b.ClientStateHash), b.Signature,
		b.ChainID, b.RunningTxnCount, b.StateChangesCount, len(b.Txns), len(b.PrevBlockVerificationTickets), len(b.VerificationTickets))
	return hdr + string(jsonOf(b.PrevBlockVerificationTickets)) + string(jsonOf(b.VerificationTickets))
}

// Run is the driver entry point.
func Run(a common.Args) {
	w := world.New(world.Options{Clients: 4, Miners: nMiners, Sharders: nSharders, Overrides: map[string]interface{}{
		"server_chain.block.min_generators": nMiners,
	}})
	defer w.Close()
	rc := rec.New(a.Out)
	defer rc.Close()
	ctx, cancel := context.WithCancel(node.GetNodeContext()) // the workers of a node run on the node context (GetSelfNode)
	defer cancel()
	d := &drv{w: w, c: w.Chain, rc: rc, ctx: ctx, peerReqs: map[string]int{}}
	d.setup()

	id := 0
	// (1) behaviours generated by TLC from SharderFin.tla
	for _, b := range common.Behaviours(a.Behav) {
		id++
		if a.Only != 0 && a.Only != id {
			rc.TraceID = id
			continue
		}
		var beh behaviour
		if err := json.Unmarshal(b, &beh); err != nil {
			rec.Fatal("behaviour %d: %v", id, err)
		}
		d.r = common.TraceRand(a.Seed, id)
		if beh.K < 0 { // the model leaves the number of replicators to the rank function: any configuration
			beh.K = []int{0, 0, 1, 2, 3}[d.r.Intn(5)]
		}
		d.reset(id, "tlc", beh.R, beh.K, beh.Batch, rec.M{"ops": beh.Ops})
		for _, o := range beh.Ops {
			d.play(o)
		}
		d.closing()
	}
	// (2) fixed histories
	for _, beh := range scripts() {
		id++
		if a.Only != 0 && a.Only != id {
			rc.TraceID = id
			continue
		}
		d.r = common.TraceRand(a.Seed, id)
		d.reset(id, "script", beh.R, beh.K, beh.Batch, rec.M{"ops": beh.Ops})
		for _, o := range beh.Ops {
			d.play(o)
		}
		d.closing()
	}
	// (3) seeded random histories
	for i := 0; i < a.N; i++ {
		id++
		if a.Only != 0 && a.Only != id {
			rc.TraceID = id
			continue
		}
		d.r = common.TraceRand(a.Seed, id)
		d.random(id, a)
	}
}

type behaviour struct {
	R     int  `json:"r"`
	K     int  `json:"k"`
	Batch int  `json:"batch"`
	Ops   []op `json:"ops"`
}

// op is one abstract step (the same vocabulary as the actions of SharderFin.tla).
type op struct {
	Op    string   `json:"op"`
	B     string   `json:"b,omitempty"`
	R     int      `json:"r,omitempty"`
	N     int      `json:"n,omitempty"`
	Fork  bool     `json:"fork,omitempty"`
	MB    bool     `json:"mb,omitempty"`
	Steps []string `json:"steps,omitempty"`
	Kind  string   `json:"kind,omitempty"`
	Arg   string   `json:"arg,omitempty"`
	Up    bool     `json:"up,omitempty"`
	Mode  string   `json:"mode,omitempty"`
}

// ---------------------------------------------------------------- trace reset

func (d *drv) reset(id int, kind string, maxR, repl, batch int, args rec.M) {
	c := d.c
	// forget the previous trace: memory of the chain, stores, caches
	var old []*block.Block
	for n, b := range d.blocks {
		if n != "g" {
			old = append(old, b)
		}
	}
	c.DeleteBlocks(old)
	for _, r := range d.rounds {
		c.DeleteRound(d.ctx, r)
	}
	g := d.w.Genesis
	c.LatestDeterministicBlock = g
	c.SetLatestOwnFinalizedBlockRound(0)
	c.SetLatestFinalizedBlock(g)
	c.SetCurrentRound(0)
	if err := c.StoreLFBRound(0, g.Hash); err != nil {
		rec.Fatal("reset lfb round: %v", err)
	}
	d.w.Head = g
	viper.Set("server_chain.lfb_ticket.ahead", 5)
	cd := c.ChainConfig.(*chain.ConfigImpl).ConfDataForTest()
	cd.NumReplicators = repl
	cd.HCCycleScan[sharder.DeepScan].BatchSize = int64(batch)
	cd.HCCycleScan[sharder.ProximityScan].BatchSize = int64(batch)
	if c.NumReplicators() != repl {
		rec.Fatal("replicators not set")
	}
	if d.traceDir != "" {
		os.RemoveAll(d.traceDir)
	}
	d.nDirs++
	d.traceDir = filepath.Join(d.w.Dir, fmt.Sprintf("t%d", d.nDirs))
	d.storeDir = filepath.Join(d.traceDir, "s1")
	d.openStores()
	d.freshCaches()
	d.sc.VerifResetSyncStats()
	d.sc.SharderStats = sharder.Stats{}

	d.maxR, d.repl, d.batch = maxR, repl, batch
	d.canon = []*block.Block{g}
	d.blocks = map[string]*block.Block{"g": g}
	d.names = map[string]string{g.Hash: "g"}
	d.order = []string{"g"}
	d.txnOf, d.txnName, d.txnBlk = map[string]string{}, map[string]string{}, map[string]string{}
	d.dig = map[string]digests{"g": digest(g)}
	d.txdig = map[string]int{}
	d.rounds = map[int]round.RoundI{}
	d.deliv = map[string]bool{"g": true}
	d.fileSeen = map[string]fileState{}
	d.peerMu.Lock()
	for i := range d.peerUp {
		d.peerUp[i] = true
	}
	d.peerLfb, d.peerLag = 0, 0
	d.peerMu.Unlock()
	d.ufbMu.Lock()
	d.ufbCalls = nil
	d.ufbMu.Unlock()
	// (round objects are created when a block of the round arrives, as processBlock does)
	d.rc.TraceID = id - 1
	sc := rec.M{"family": "sharderfin", "kind": kind, "id": id, "rounds": maxR, "replicators": repl, "batch": batch}
	for k, v := range args {
		sc[k] = v
	}
	gd := d.dig["g"]
	d.rc.Reset(sc, rec.M{"rounds": maxR, "replicators": repl, "sharders": nSharders, "batch": batch,
		"g_all": gd.all, "g_hdr": gd.hdr, "g_txn": gd.txn, "g_out": gd.out, "g_mb": gd.mb})
	// the boot of a sharder (sharder.Chain.SetupGenesisBlock): the genesis round, block and magic block map
	d.boot()
}

func (d *drv) addRound(q int) {
	r := round.NewRound(int64(q))
	if got := d.c.AddRound(r); got != round.RoundI(r) {
		rec.Fatal("round %d already present in the chain", q)
	}
	d.rounds[q] = r
}

func (d *drv) name(hash string) string {
	if hash == "" {
		return "none"
	}
	if n, ok := d.names[hash]; ok {
		return n
	}
	return "unknown"
}

// boot stores what SetupGenesisBlock stores (it cannot be called itself: it would generate a second genesis block).
func (d *drv) boot() {
	g := d.w.Genesis
	res := guardS(func() error {
		gr := round.NewRound(0)
		gr.Finalize(g)
		gr.Block = nil
		if err := d.sc.StoreRound(gr); err != nil {
			return err
		}
		if err := d.sc.VerifStoreBlock(g); err != nil {
			return err
		}
		return d.sc.StoreMagicBlockMapFromBlock(g.GetSummary().GetMagicBlockMap())
	})
	d.mbN = g.MagicBlock.MagicBlockNumber
	d.mbNums = []int64{d.mbN}
	d.emit(rec.M{"ev": "Boot", "res": res}, "boot/"+res, true)
}

func guardS(f func() error) string {
	res := "ok"
	func() {
		defer func() {
			if r := recover(); r != nil {
				res = "panic"
				if os.Getenv("VERIF_LOG_PANIC") != "" {
					fmt.Fprintf(os.Stderr, "panic: %v\n%s\n", r, debug.Stack())
				}
			}
		}()
		if err := f(); err != nil {
			res = "error"
			if os.Getenv("VERIF_LOG_PANIC") != "" {
				fmt.Fprintf(os.Stderr, "error: %v\n", err)
			}
		}
	}()
	return res
}

// emit records the event followed by the projection of the real stores and memory.
func (d *drv) emit(m rec.M, shape string, nontrivial bool) {
	if os.Getenv("VERIF_DBG_REPL") != "" {
		m["dbg_repl"] = d.c.NumReplicators()
	}
	d.rc.Emit(m, shape, nontrivial)
	d.proj()
}

// ---------------------------------------------------------------- environment: miners produce blocks

// produce makes the next canonical block (or, fork = true, a sibling of the canonical block of round q that is
// never finalized) on the real chain: real transactions through Chain.UpdateState, real block hash, the
// generator's signature and the miners' verification tickets.
func (d *drv) produce(q int, ntx int, fork bool, mb ...bool) string {
	w := d.w
	name := fmt.Sprintf("b%d", q)
	if fork {
		name = fmt.Sprintf("f%d", q)
	}
	if q < 1 || q > d.maxR || d.blocks[name] != nil || (fork && q >= len(d.canon)) || (!fork && q != len(d.canon)) {
		return ""
	}
	parent := d.canon[q-1]
	b := w.BeginBlock(parent)
	mi := (q + 1) % nMiners
	if fork {
		mi = (q + 2) % nMiners
	}
	b.MinerID = w.Miners[mi].ID
	keys := w.Clients
	for i := 0; i < ntx; i++ {
		from := keys[d.r.Intn(len(keys))]
		ts := world.TxnSpec{From: from, Fee: uint64(d.r.Intn(3))}
		switch d.r.Intn(5) {
		case 0:
			ts.Type, ts.To, ts.Value = transaction.TxnTypeSend, keys[d.r.Intn(len(keys))].ID, uint64(1+d.r.Intn(50))
		case 1:
			ts.Type, ts.To, ts.Raw = transaction.TxnTypeData, keys[d.r.Intn(len(keys))].ID, []byte(fmt.Sprintf("note %d", d.r.Intn(1000)))
		case 2:
			ts.Type, ts.To, ts.Fn, ts.Value = transaction.TxnTypeSmartContract, world.Contracts["faucetsc"], "pour", uint64(1+d.r.Intn(5))
		case 3:
			ts.Type, ts.To, ts.Fn = transaction.TxnTypeSmartContract, world.Contracts["faucetsc"], "no_such_function"
		default:
			ts.Type, ts.To, ts.Fn, ts.Value = transaction.TxnTypeSmartContract, world.Contracts["faucetsc"], "refill", uint64(1+d.r.Intn(4))
		}
		res := w.Do(ts)
		if res.Class == "rejected" || res.Class == "panic" {
			// keep the number of transactions of the block exact: retry with a plain transfer
			ts = world.TxnSpec{From: from, Type: transaction.TxnTypeData, To: keys[0].ID, Raw: []byte(fmt.Sprintf("fill %d %d", q, i))}
			if r2 := w.Do(ts); r2.Class == "rejected" || r2.Class == "panic" {
				rec.Fatal("produce: cannot fill block %s: %s / %s", name, res.Err, r2.Err)
			}
		}
	}
	b = w.EndBlock()
	b.Clear() // a block reaches a sharder without a link to its parent; Chain.addBlock links it at delivery
	w.Head = d.canon[len(d.canon)-1]
	b.LatestFinalizedMagicBlockHash = w.Genesis.Hash
	b.LatestFinalizedMagicBlockRound = w.Genesis.Round
	b.RoundTimeoutCount = 0
	b.ChainID = datastore.ToKey(config.GetServerChainID()) // the world leaves it empty
	b.RunningTxnCount = parent.RunningTxnCount + int64(len(b.Txns))
	b.StateChangesCount = b.ClientState.GetChangeCount()
	if len(mb) > 0 && mb[0] && !fork && len(d.mbNums) == 1 {
		// the block carries the next magic block: same nodes, next number, linked to the latest finalized one
		// (numbers grow over the life of the process; traces name them by their position: 1 = genesis)
		lfmb := d.c.GetLatestFinalizedMagicBlock(d.ctx)
		nmb := lfmb.MagicBlock.Clone()
		nmb.MagicBlockNumber = lfmb.MagicBlock.MagicBlockNumber + 1
		nmb.PreviousMagicBlockHash = lfmb.MagicBlock.Hash
		nmb.StartingRound = b.Round
		nmb.Hash = nmb.GetHash()
		b.MagicBlock = nmb
		d.mbNums = append(d.mbNums, nmb.MagicBlockNumber)
	}
	b.ComputeTxnMap()
	b.HashBlock()
	b.Signature = w.Miners[mi].Sign(b.Hash)
	for _, m := range w.Miners {
		b.VerificationTickets = append(b.VerificationTickets, &block.VerificationTicket{VerifierID: m.ID, Signature: m.Sign(b.Hash)})
	}
	b.PrevBlockVerificationTickets = []*block.VerificationTicket{} // (decoding yields an empty list, never nil)
	if len(parent.VerificationTickets) > 0 {
		b.PrevBlockVerificationTickets = parent.VerificationTickets
	}
	if err := b.Validate(d.ctx); err != nil {
		rec.Fatal("produced block %s is not valid: %v", name, err)
	}
	d.blocks[name], d.names[b.Hash] = b, name
	d.order = append(d.order, name)
	d.dig[name] = digest(b)
	var txns []string
	for i, t := range b.Txns {
		tn := fmt.Sprintf("%st%d", name, i+1)
		d.txnOf[t.Hash], d.txnName[tn], d.txnBlk[tn] = tn, t.Hash, name
		d.txdig[tn] = sum([]byte(txnDigest(t)))
		txns = append(txns, tn)
	}
	if !fork {
		d.canon = append(d.canon, b)
		w.Head = b
		d.peerMu.Lock()
		d.peerLfb = int64(len(d.canon)-1) - d.peerLag // what the other sharders have finalized
		if d.peerLfb < 0 {
			d.peerLfb = 0
		}
		d.peerMu.Unlock()
	}
	self := d.w.SharderNodes[0]
	// the nodes requestForBlock would ask for this block: its replicators other than this node
	_, repl := d.c.CanShardBlockWithReplicators(b.Round, b.Hash, self)
	others := 0
	for _, n := range repl {
		if n.ID != self.ID {
			others++
		}
	}
	dg := d.dig[name]
	if txns == nil {
		txns = []string{}
	}
	d.rc.Emit(rec.M{"ev": "Produce", "b": name, "r": q, "p": d.name(b.PrevHash), "fork": fork, "ntx": len(b.Txns), "txns": txns,
		"hasmb": b.MagicBlock != nil, "resp": d.c.IsBlockSharder(b, self), "resp_hash": d.c.IsBlockSharderFromHash(b.Round, b.Hash, self), "others": others,
		"d_all": dg.all, "d_hdr": dg.hdr, "d_txn": dg.txn, "d_out": dg.out, "d_mb": dg.mb},
		fmt.Sprintf("%s/ntx%d", map[bool]string{false: "canon", true: "fork"}[fork], min(len(b.Txns), 2)), true)
	return name
}

func min(a, b int) int {
	if a < b {
		return a
	}
	return b
}

// deliver: the notarized block reaches the sharder's memory (what processBlock does after validation:
// AddNotarizedBlockToRound, and the current round follows).
func (d *drv) deliver(name string) {
	b := d.blocks[name]
	if b == nil || name == "g" || d.deliv[name] {
		return
	}
	if b.Round <= d.c.GetLatestFinalizedBlock().Round {
		return // NotarizedBlockHandler: "doesn't need a not. block for the round"
	}
	q := int(b.Round)
	if d.rounds[q] == nil {
		d.addRound(q)
	}
	if _, err := d.c.GetBlock(d.ctx, b.PrevHash); err != nil {
		b.Clear()
	}
	d.c.AddNotarizedBlockToRound(d.rounds[q], b)
	if d.c.GetCurrentRound() < b.Round {
		d.c.SetCurrentRound(b.Round)
	}
	d.deliv[name] = true
	d.emit(rec.M{"ev": "Deliver", "b": name, "r": q}, "deliver", true)
}

// finround runs the real finalizeRound on round q; the blocks it decides are finalized by the real
// FinalizedBlockWorker, whose UpdateFinalizedBlock calls go to the real sharder chain.
func (d *drv) finround(q int) {
	if d.rounds[q] == nil {
		return
	}
	before := d.c.GetLatestFinalizedBlock()
	d.ufbMu.Lock()
	d.ufbCalls = nil
	d.ufbMu.Unlock()
	res := guardS(func() error {
		ctx, cancel := context.WithTimeout(d.ctx, 30*time.Second)
		defer cancel()
		d.c.VerifFinalizeRound(ctx, d.rounds[q])
		return nil
	})
	after := d.c.GetLatestFinalizedBlock()
	d.ufbMu.Lock()
	calls := d.ufbCalls
	d.ufbCalls = nil
	d.ufbMu.Unlock()
	ufb := []rec.M{}
	for _, cl := range calls {
		ufb = append(ufb, rec.M{"b": d.name(cl.hash), "res": cl.res})
	}
	shape := fmt.Sprintf("forward/%d", min(int(after.Round-before.Round), 3))
	if after.Hash == before.Hash {
		shape = "same"
	}
	d.emit(rec.M{"ev": "FinRound", "r": q, "res": res, "before": d.name(before.Hash), "after": d.name(after.Hash), "ufb": ufb},
		shape, after.Hash != before.Hash)
}

// ---------------------------------------------------------------- projection of the real stores

func (d *drv) storedRound(q int64) (string, bool) {
	r, err := d.sc.GetRoundFromStore(d.ctx, q)
	if err != nil || r == nil {
		return "none", false
	}
	if r.BlockHash == "" {
		return "empty", true
	}
	return d.name(r.BlockHash), true
}

// proj reads back, through the sharder's own read functions, everything the model tracks.
func (d *drv) proj() {
	sc := d.sc
	rdb := []rec.M{}
	cnt := []rec.M{}
	for q := 0; q <= d.maxR; q++ {
		if n, ok := d.storedRound(int64(q)); ok {
			rdb = append(rdb, rec.M{"r": q, "b": n})
		}
		if c, err := sc.VerifTxnCountForRound(d.ctx, int64(q)); err == nil && c != 0 {
			cnt = append(cnt, rec.M{"r": q, "n": c})
		}
	}
	sums, blks, bad := []string{}, []string{}, []string{}
	for _, n := range d.order {
		b := d.blocks[n]
		if _, ok := d.hasSummary(b.Hash); ok {
			sums = append(sums, n)
		}
		// the block file is decoded and compared again only when the file changed since the last projection
		fi, ferr := os.Stat(d.blockFile(b.Hash))
		if ferr != nil {
			delete(d.fileSeen, n)
		} else if seen, ok := d.fileSeen[n]; ok && seen.size == fi.Size() && seen.mod.Equal(fi.ModTime()) {
			blks = append(blks, n)
			if seen.bad != "" {
				bad = append(bad, seen.bad)
			}
			continue
		}
		if sb, err := sc.GetBlockFromStore(b.Hash, b.Round); err == nil && sb != nil {
			blks = append(blks, n)
			fs := fileState{}
			if g := digest(sb); g != d.dig[n] {
				fs.bad = fmt.Sprintf("%s:%v%v%v%v%v", n, g.all == d.dig[n].all, g.hdr == d.dig[n].hdr, g.txn == d.dig[n].txn, g.out == d.dig[n].out, g.mb == d.dig[n].mb)
				bad = append(bad, fs.bad)
				if os.Getenv("VERIF_DBG_HDR") != "" {
					fmt.Fprintf(os.Stderr, "HDR %s\n stored: %s\n orig:   %s\n", n, hdrOf(sb), hdrOf(b))
				}
			}
			if ferr == nil {
				fs.size, fs.mod = fi.Size(), fi.ModTime()
				d.fileSeen[n] = fs
			}
		}
	}
	txs := []rec.M{}
	tnames := make([]string, 0, len(d.txnName))
	for tn := range d.txnName {
		tnames = append(tnames, tn)
	}
	sort.Strings(tnames)
	for _, tn := range tnames {
		if ts, err := d.txnSummary(d.txnName[tn]); err == nil {
			txs = append(txs, rec.M{"t": tn, "r": ts.Round})
		}
	}
	mbm := []rec.M{}
	for i, n := range d.mbNums {
		if m, err := sc.GetMagicBlockMap(d.ctx, fmt.Sprint(n)); err == nil && m != nil {
			mbm = append(mbm, rec.M{"n": i + 1, "b": d.name(m.Hash), "r": m.BlockRound})
		}
	}
	lfb := d.c.GetLatestFinalizedBlock()
	mem := []string{}
	for _, n := range d.order {
		if _, err := d.c.GetBlock(d.ctx, d.blocks[n].Hash); err == nil {
			mem = append(mem, n)
		}
	}
	d.rc.Emit(rec.M{"ev": "Proj", "rdb": rdb, "sums": sums, "blks": blks, "blks_bad": bad, "txs": txs, "cnt": cnt, "mbm": mbm,
		"lfb": d.name(lfb.Hash), "lfbr": lfb.Round, "cur": d.c.GetCurrentRound(), "mem": mem,
		"sharded": d.sc.SharderStats.ShardedBlocksCount, "repaired": d.sc.SharderStats.RepairBlocksCount}, "proj", false)
}

var _ = strings.Join
