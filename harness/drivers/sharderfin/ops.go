package sharderfin

import (
	"context"
	"fmt"
	"net/http"
	"net/http/httptest"
	"net/url"
	"os"
	"strings"
	"time"

	"0chain.net/chaincore/block"
	"0chain.net/chaincore/chain"
	"0chain.net/chaincore/round"
	"0chain.net/chaincore/transaction"
	"0chain.net/core/datastore"
	"0chain.net/core/ememorystore"
	"0chain.net/sharder"
	"0chain.net/sharder/blockstore"

	"verif/harness/common"
	"verif/harness/rec"
)

func (d *drv) hasSummary(hash string) (*block.BlockSummary, bool) {
	md := datastore.GetEntityMetadata("block_summary")
	ctx := ememorystore.WithEntityConnection(d.ctx, md)
	defer ememorystore.Close(ctx)
	bs, err := d.sc.GetBlockSummary(ctx, hash)
	if err != nil || bs == nil {
		return nil, false
	}
	return bs, true
}

func (d *drv) txnSummary(hash string) (*transaction.TransactionSummary, error) {
	md := datastore.GetEntityMetadata("txn_summary")
	ctx := ememorystore.WithEntityConnection(d.ctx, md)
	defer ememorystore.Close(ctx)
	return d.sc.GetTransactionSummary(ctx, hash)
}

// play executes one abstract step.
func (d *drv) play(o op) {
	switch o.Op {
	case "produce":
		d.produce(o.R, o.N, o.Fork, o.MB)
	case "deliver":
		d.deliver(o.B)
	case "finround":
		d.finround(o.R)
	case "ufbdirect":
		d.ufbDirect(o.B)
	case "partial":
		d.partial(o.B, o.Steps)
	case "restart":
		d.restart()
	case "peers":
		d.setPeers(o.Up)
	case "peerlag":
		d.setPeerLag(o.N)
	case "hc":
		d.hc(o.R, o.Mode)
	case "hccycle":
		d.hcCycle(o.Mode)
	case "losefile":
		d.loseFile(o.B)
	case "read":
		if o.Kind == "any" {
			d.randomRead()
		} else {
			d.read(o.Kind, o.Arg)
		}
	default:
		rec.Fatal("unknown op %q", o.Op)
	}
}

// ---------------------------------------------------------------- crashes

// ufbDirect: the whole real UpdateFinalizedBlock ran for the block, and the process stops before the rest of
// chain.finalizeBlock (round finalized in memory, LFB moved and persisted) happens: followed by a restart.
func (d *drv) ufbDirect(name string) {
	b := d.blocks[name]
	if b == nil || name == "g" || !d.deliv[name] {
		return
	}
	res := guardS(func() error { return d.sc.UpdateFinalizedBlock(d.ctx, b) })
	d.emit(rec.M{"ev": "UFB", "b": name, "res": res}, "direct/"+res, true)
}

// partial: a crash inside UpdateFinalizedBlock. Its four stores run as parallel goroutines, each committing on
// its own, and StoreRound only runs after all four returned: a crash leaves any subset of the four and never
// the round. The subset is executed with the very functions UpdateFinalizedBlock calls.
func (d *drv) partial(name string, steps []string) {
	b := d.blocks[name]
	if b == nil || name == "g" || !d.deliv[name] {
		return
	}
	done := []string{}
	res := guardS(func() error {
		cb := b.Clone()
		for _, s := range steps {
			switch s {
			case "txns":
				if err := d.sc.StoreTransactions(cb); err != nil {
					return err
				}
			case "summary":
				if err := d.sc.StoreBlockSummaryFromBlock(cb); err != nil {
					return err
				}
			case "mbmap":
				if cb.MagicBlock == nil {
					continue
				}
				if err := d.sc.StoreMagicBlockMapFromBlock(cb.GetSummary().GetMagicBlockMap()); err != nil {
					return err
				}
			case "block":
				if !d.c.IsBlockSharder(cb, d.w.SharderNodes[0]) {
					continue
				}
				if err := blockstore.GetStore().Write(cb); err != nil {
					return err
				}
			default:
				rec.Fatal("partial: unknown step %q", s)
			}
			done = append(done, s)
		}
		return nil
	})
	d.emit(rec.M{"ev": "Partial", "b": name, "steps": done, "res": res}, fmt.Sprintf("partial/%d", len(done)), len(done) > 0)
}

// restart: the process stops and starts again. Volatile state (caches, blocks and rounds in memory) is lost,
// the RocksDB stores are closed and reopened, and the LFB is loaded the way LoadLatestBlocksFromStore /
// setupLatestBlocks do it: the persisted LFB round (state DB), its round from the round store, Finalize,
// AddLoadedFinalizedBlocks. The block itself comes back from the environment (the object with computed state).
func (d *drv) restart() {
	c := d.c
	var old []*block.Block
	for n, b := range d.blocks {
		if n != "g" {
			old = append(old, b)
		}
	}
	c.DeleteBlocks(old)
	// (DeleteBlocks cut the PrevBlock links, as for blocks that come back from the network: a block is linked
	// again by Chain.addBlock when it is delivered and its parent is in memory)
	for _, r := range d.rounds {
		c.DeleteRound(d.ctx, r)
	}
	d.rounds = map[int]round.RoundI{}
	d.deliv = map[string]bool{"g": true}
	d.openStores()
	d.freshCaches()
	d.sc.VerifResetSyncStats()

	lfbName, stored := "g", "none"
	res := guardS(func() error {
		lr, err := c.LoadLFBRound()
		if err != nil {
			return err
		}
		lfbName = d.name(lr.Hash)
		if lr.Round == 0 {
			c.LatestDeterministicBlock = d.w.Genesis
			c.SetLatestOwnFinalizedBlockRound(0)
			c.SetLatestFinalizedBlock(d.w.Genesis)
			c.SetCurrentRound(0)
			stored, _ = d.storedRound(0)
			return nil
		}
		r, err := d.sc.GetRoundFromStore(d.ctx, lr.Round)
		if err != nil {
			return fmt.Errorf("load_lfb - could not load round from store: %v", err)
		}
		stored = d.name(r.BlockHash)
		if r.BlockHash != lr.Hash {
			return fmt.Errorf("load_lfb - block hash does not match")
		}
		lfb := d.blocks[lfbName]
		if lfb == nil {
			return fmt.Errorf("unknown lfb")
		}
		r.SetRandomSeedForNotarizedBlock(lfb.GetRoundRandomSeed(), nMiners)
		r.Finalize(lfb)
		c.LatestDeterministicBlock = lfb
		c.SetLatestOwnFinalizedBlockRound(lfb.Round)
		d.sc.AddLoadedFinalizedBlocks(lfb, d.w.Genesis, r)
		c.SetCurrentRound(lfb.Round)
		d.rounds[int(lfb.Round)] = r
		d.deliv[lfbName] = true
		return nil
	})
	d.emit(rec.M{"ev": "Restart", "res": res, "lfb": lfbName, "stored": stored}, "restart/"+res, true)
}

// loseFile: the block's file disappears from the block store (disk damage, operator error).
func (d *drv) loseFile(name string) {
	b := d.blocks[name]
	if b == nil {
		return
	}
	err := os.Remove(d.blockFile(b.Hash))
	d.emit(rec.M{"ev": "LoseFile", "b": name, "was": err == nil}, fmt.Sprintf("losefile/%v", err == nil), err == nil)
}

// ---------------------------------------------------------------- health check (repair)

func (d *drv) setPeers(up bool) {
	d.peerMu.Lock()
	for i := range d.peerUp {
		d.peerUp[i] = up
	}
	d.peerMu.Unlock()
	d.rc.Emit(rec.M{"ev": "Peers", "up": up, "lag": d.peerLag, "peer_lfb": d.peerLfb}, fmt.Sprintf("peers/%v", up), false)
}

// setPeerLag: the other sharders have finalized up to `lag` rounds less than the miners produced.
func (d *drv) setPeerLag(lag int) {
	d.peerMu.Lock()
	d.peerLag = int64(lag)
	d.peerLfb = int64(len(d.canon)-1) - d.peerLag
	if d.peerLfb < 0 {
		d.peerLfb = 0
	}
	plfb := d.peerLfb
	d.peerMu.Unlock()
	d.rc.Emit(rec.M{"ev": "Peers", "up": d.peerUp[1], "lag": lag, "peer_lfb": plfb}, fmt.Sprintf("peerlag/%d", min(lag, 2)), false)
}

func scanMode(m string) sharder.HealthCheckScan {
	if m == "deep" {
		return sharder.DeepScan
	}
	return sharder.ProximityScan
}

// hc runs the real healthCheck for one round (one iteration of HealthCheckWorker's loop).
func (d *drv) hc(q int, mode string) {
	if mode == "" {
		mode = "proximity"
	}
	sm := scanMode(mode)
	before := d.sc.VerifHealthCounters(sm)
	d.peerMu.Lock()
	up, plfb := d.peerUp[1], d.peerLfb
	d.peerReqs = map[string]int{}
	d.peerMu.Unlock()
	res := guardS(func() error {
		ctx, cancel := context.WithTimeout(d.ctx, 60*time.Second)
		defer cancel()
		d.sc.VerifHealthCheck(ctx, int64(q), sm)
		return nil
	})
	a := d.sc.VerifHealthCounters(sm)
	d.peerMu.Lock()
	reqs := 0
	for _, n := range d.peerReqs {
		reqs += n
	}
	d.peerMu.Unlock()
	m := rec.M{"ev": "HC", "r": q, "mode": mode, "res": res, "peers_up": up, "peer_lfb": plfb, "peer_reqs": reqs,
		"ok": int(a.Success - before.Success), "fail": int(a.Failure - before.Failure),
		"round_missing": int(a.RoundMissing - before.RoundMissing), "round_repaired": int(a.RoundRepaired - before.RoundRepaired),
		"sum_missing": int(a.SummaryMissing - before.SummaryMissing), "sum_repaired": int(a.SummaryRepaired - before.SummaryRepaired),
		"block_missing": int(a.BlockMissing - before.BlockMissing), "block_repaired": int(a.BlockRepaired - before.BlockRepaired),
		"txn_missing": int(a.TxnMissing - before.TxnMissing), "txn_repaired": int(a.TxnRepaired - before.TxnRepaired)}
	shape := "clean"
	switch {
	case res != "ok":
		shape = res
	case a.Failure > before.Failure:
		shape = "failed"
	case a.RoundRepaired+a.SummaryRepaired+a.BlockRepaired+a.TxnRepaired > before.RoundRepaired+before.SummaryRepaired+before.BlockRepaired+before.TxnRepaired:
		shape = "repaired"
	}
	d.emit(m, "hc/"+shape, shape == "repaired")
}

// hcCycle: one cycle of HealthCheckWorker: the real setCycleBounds, then healthCheck from the high round down.
func (d *drv) hcCycle(mode string) {
	if mode == "" {
		mode = "proximity"
	}
	lo, hi := d.sc.VerifSetCycleBounds(d.ctx, scanMode(mode))
	d.rc.Emit(rec.M{"ev": "HCCycle", "mode": mode, "lo": lo, "hi": hi, "lfbr": d.c.GetLatestFinalizedBlock().Round}, "cycle", false)
	for q := hi; q >= lo; q-- {
		d.hc(int(q), mode)
	}
}

// ---------------------------------------------------------------- reads

func get(path string, q url.Values) *http.Request {
	return httptest.NewRequest(http.MethodGet, path+"?"+q.Encode(), nil)
}

func (d *drv) blockFields(m rec.M, b *block.Block) {
	m["b"] = "none"
	m["same_all"], m["same_hdr"], m["same_txn"], m["same_out"], m["same_mb"] = false, false, false, false, false
	if b == nil {
		return
	}
	n := d.name(b.Hash)
	m["b"] = n
	if want, ok := d.dig[n]; ok {
		got := digest(b)
		m["same_all"], m["same_hdr"], m["same_txn"], m["same_out"], m["same_mb"] = got.all == want.all, got.hdr == want.hdr, got.txn == want.txn, got.out == want.out, got.mb == want.mb
	}
}

// read issues one request to a real read handler of the sharder and records what was served.
func (d *drv) read(kind, arg string) {
	ctx, cancel := context.WithTimeout(d.ctx, 20*time.Second)
	defer cancel()
	lfb := d.c.GetLatestFinalizedBlock()
	argn := -1
	if _, err := fmt.Sscanf(arg, "%d", &argn); err != nil {
		argn = -1
	}
	m := rec.M{"ev": "Read", "kind": kind, "arg": arg, "argn": argn, "lfbr": lfb.Round}
	var out interface{}
	var err error
	var served *block.Block
	res := guardS(func() error {
		switch kind {
		case "block_round": // arg = round
			out, err = sharder.BlockHandler(ctx, get("/v1/block/get", url.Values{"round": {arg}, "content": {"full"}}))
		case "block_hash": // arg = block name
			out, err = sharder.BlockHandler(ctx, get("/v1/block/get", url.Values{"block": {d.hashOf(arg)}, "content": {"full"}}))
		case "header_round":
			out, err = sharder.BlockHandler(ctx, get("/v1/block/get", url.Values{"round": {arg}}))
		case "mb": // arg = relative magic block number (1 = genesis)
			out, err = sharder.MagicBlockHandler(ctx, get("/v1/block/magic/get", url.Values{"magic_block_number": {d.mbNumber(atoi(arg))}}))
		case "lfb":
			out, err = sharder.LatestFinalizedBlockHandler(d.sc)(ctx, get("/v1/_m2s/block/latest_finalized/get", url.Values{}))
		case "s2s_round":
			out, err = sharder.RoundRequestHandler(ctx, get("/v1/_s2s/round/get", url.Values{"round": {arg}}))
		case "s2s_block": // arg = round: the request a repairing peer sends (round + hash of the canonical block)
			q := atoi(arg)
			h := ""
			if q >= 0 && q < len(d.canon) {
				h = d.canon[q].Hash
			}
			out, err = sharder.RoundBlockRequestHandler(ctx, get("/v1/_s2s/block/get", url.Values{"round": {arg}, "hash": {h}}))
		case "s2s_block_round": // by round only
			out, err = sharder.RoundBlockRequestHandler(ctx, get("/v1/_s2s/block/get", url.Values{"round": {arg}}))
		case "s2s_summary": // arg = block name
			out, err = sharder.BlockSummaryRequestHandler(ctx, get("/v1/_s2s/blocksummary/get", url.Values{"hash": {d.hashOf(arg)}}))
		case "afterfetch": // arg = block name: the hook the LFB-ticket block fetcher calls for a fetched block
			if b := d.blocks[arg]; b != nil {
				err = d.sc.AfterFetch(ctx, b)
				out = b
			} else {
				err = fmt.Errorf("no such block")
			}
		case "confirm": // arg = txn name
			out, err = sharder.TransactionConfirmationHandler(ctx, get("/v1/transaction/get/confirmation", url.Values{"hash": {d.txnHash(arg)}}))
		default:
			rec.Fatal("read: unknown kind %q", kind)
		}
		return err
	})
	m["res"] = res
	m["round"] = int64(-1)
	m["ntx"] = -1
	m["has_txn"], m["txn_same"], m["txn_in_block"] = false, false, false
	m["prev"] = "none"
	if res == "ok" {
		switch v := out.(type) {
		case map[string]interface{}:
			if b, ok := v["block"].(*block.Block); ok {
				served = b
			}
			if h, ok := v["header"].(*block.BlockSummary); ok && h != nil {
				m["b_hdr"] = d.name(h.Hash)
				m["round"], m["ntx"] = h.Round, h.NumTxns
			}
		case *block.Block:
			served = v
		case *round.Round:
			if v != nil {
				m["b_hdr"] = d.name(v.BlockHash)
				m["round"] = v.Number
			}
		case *block.BlockSummary:
			if v != nil {
				m["b_hdr"] = d.name(v.Hash)
				m["round"], m["ntx"] = v.Round, v.NumTxns
			}
		case *transaction.Confirmation:
			if v != nil {
				m["b_hdr"] = d.name(v.BlockHash)
				m["round"] = v.Round
				m["prev"] = d.name(v.PreviousBlockHash)
				if v.Transaction != nil {
					m["has_txn"] = true
					m["txn_same"] = v.Transaction.Hash == d.txnHash(arg) && sum([]byte(txnDigest(v.Transaction))) == d.txdig[arg]
					if cb := d.blocks[d.name(v.BlockHash)]; cb != nil {
						m["txn_in_block"] = cb.GetTransaction(v.Transaction.Hash) != nil
					}
				}
			}
		}
	}
	if _, ok := m["b_hdr"]; !ok {
		m["b_hdr"] = "none"
	}
	if res == "ok" && served == nil && m["b_hdr"] == "none" {
		// the handler answered without error and without content (BlockHandler with a block that is neither in
		// memory nor looked up in the store because the LFB round is 0 answers {"block": null})
		res = "nil"
		m["res"] = res
	}
	d.blockFields(m, served)
	if served != nil {
		m["round"], m["ntx"] = served.Round, len(served.Txns)
		m["b_hdr"] = d.name(served.Hash)
	}
	shape := kind + "/" + res
	if res == "ok" {
		shape += "/" + map[bool]string{true: "mem", false: "store"}[d.inMemory(m["b_hdr"].(string))]
	}
	d.rc.Emit(m, shape, false)
}

func (d *drv) inMemory(name string) bool {
	b := d.blocks[name]
	if b == nil {
		return false
	}
	_, err := d.c.GetBlock(d.ctx, b.Hash)
	return err == nil
}

// mbNumber: the real number of the i-th magic block of the trace (1 = genesis); an unused number otherwise
func (d *drv) mbNumber(i int) string {
	if i >= 1 && i <= len(d.mbNums) {
		return fmt.Sprint(d.mbNums[i-1])
	}
	return "999999"
}

func atoi(s string) int {
	n := 0
	fmt.Sscanf(s, "%d", &n)
	return n
}

func (d *drv) hashOf(name string) string {
	if b := d.blocks[name]; b != nil {
		return b.Hash
	}
	return strings.Repeat("0", 64)
}

func (d *drv) txnHash(name string) string {
	if h, ok := d.txnName[name]; ok {
		return h
	}
	return strings.Repeat("1", 64)
}

// ---------------------------------------------------------------- closing sweep and random histories

// closing: every trace ends with a sweep of reads over all rounds, blocks and transactions.
func (d *drv) closing() {
	for q := 0; q <= d.maxR; q++ {
		d.read("block_round", fmt.Sprint(q))
		d.read("s2s_round", fmt.Sprint(q))
	}
	for _, n := range d.order {
		d.read("block_hash", n)
		d.read("s2s_summary", n)
	}
	for tn := range d.txnName {
		_ = tn
	}
	for _, n := range d.order {
		for i := range d.blocks[n].Txns {
			d.read("confirm", fmt.Sprintf("%st%d", n, i+1))
		}
	}
	d.read("mb", "1")
	d.read("lfb", "")
}

func (d *drv) randomRead() {
	known := d.order
	switch d.r.Intn(10) {
	case 0, 1:
		d.read("block_round", fmt.Sprint(d.r.Intn(d.maxR+2)))
	case 2:
		d.read("block_hash", known[d.r.Intn(len(known))])
	case 3:
		d.read("header_round", fmt.Sprint(d.r.Intn(d.maxR+1)))
	case 4:
		d.read("s2s_block", fmt.Sprint(d.r.Intn(len(d.canon))))
	case 5:
		d.read("s2s_block_round", fmt.Sprint(d.r.Intn(d.maxR+1)))
	case 6:
		d.read("s2s_round", fmt.Sprint(d.r.Intn(d.maxR+1)))
	case 7:
		if d.r.Intn(3) == 0 {
			d.read("afterfetch", known[d.r.Intn(len(known))])
		} else {
			d.read("mb", fmt.Sprint(1+d.r.Intn(2)))
		}
	default:
		n := known[d.r.Intn(len(known))]
		if k := len(d.blocks[n].Txns); k > 0 {
			d.read("confirm", fmt.Sprintf("%st%d", n, 1+d.r.Intn(k)))
		} else {
			d.read("confirm", "nosuch")
		}
	}
}

func (d *drv) random(id int, a common.Args) {
	maxR := 6 + d.r.Intn(5)
	repl := []int{0, 0, 1, 2, 3}[d.r.Intn(5)]
	batch := 1 + d.r.Intn(3)
	d.reset(id, "random", maxR, repl, batch, rec.M{"seed": a.Seed, "steps": a.Steps})
	// blocks that carry a magic block change process-wide node objects when they are finalized (SetupNodes), which
	// leaks from one trace into the next: only on request
	withMB := d.r.Intn(2) == 0 && os.Getenv("VERIF_SF_MB") != ""
	faulty := d.r.Intn(3)        // 0: plain finalization and reads, 1: crashes, 2: crashes + losses + repair
	missing := func() []string { // blocks above the LFB that are not in memory, lowest round first
		lfbr := d.c.GetLatestFinalizedBlock().Round
		var miss []string
		for q := 1; q < len(d.canon); q++ {
			if n := fmt.Sprintf("b%d", q); !d.deliv[n] && d.canon[q].Round > lfbr {
				miss = append(miss, n)
			}
		}
		for _, n := range d.order {
			if n[0] == 'f' && !d.deliv[n] && d.blocks[n].Round > lfbr {
				miss = append(miss, n)
			}
		}
		return miss
	}
	for i := 0; i < a.Steps; i++ {
		tip := len(d.canon) - 1
		lfbr := int(d.c.GetLatestFinalizedBlock().Round)
		x := d.r.Intn(100)
		switch {
		case x < 28: // the miners go on
			if tip < maxR {
				if n := d.produce(tip+1, []int{0, 1, 1, 2, 3}[d.r.Intn(5)], false, withMB && d.r.Intn(4) == 0); n != "" && d.r.Intn(7) > 0 {
					d.deliver(n)
				}
			} else {
				d.randomRead()
			}
		case x < 32:
			if tip >= 1 {
				q := lfbr + 1 + d.r.Intn(tip-lfbr+1)
				if q > tip {
					q = tip
				}
				if n := d.produce(q, d.r.Intn(3), true); n != "" && d.r.Intn(2) == 0 {
					d.deliver(n)
				}
			}
		case x < 42: // blocks that are still missing in memory arrive (in round order)
			miss := missing()
			if len(miss) > 0 {
				k := 1
				if d.r.Intn(2) == 0 {
					k = len(miss)
				}
				for _, n := range miss[:k] {
					d.deliver(n)
				}
			}
		case x < 60:
			// finalizeRound(q) finalizes the blocks up to round q-3 ("at least 3 confirmations") if the chain from
			// round q-1 back to the LFB is at most 5 blocks long (lfb_ticket.ahead): q in lfb+4 .. lfb+6 makes progress
			if tip >= 1 {
				q := lfbr + 4 + d.r.Intn(3)
				if d.r.Intn(5) == 0 {
					q = lfbr + 1 + d.r.Intn(tip-lfbr+1)
				}
				if q > tip {
					q = tip
				}
				d.finround(q)
			}
		case x < 64 && faulty >= 1:
			// crash around UpdateFinalizedBlock of the next block to finalize
			if nb := fmt.Sprintf("b%d", lfbr+1); d.deliv[nb] {
				if d.r.Intn(3) == 0 {
					d.ufbDirect(nb)
				} else {
					all := []string{"txns", "summary", "mbmap", "block"}
					d.r.Shuffle(len(all), func(i, j int) { all[i], all[j] = all[j], all[i] })
					d.partial(nb, all[:d.r.Intn(len(all)+1)])
				}
				d.restart()
			}
		case x < 66 && faulty >= 1:
			d.restart()
		case x < 68 && faulty >= 2:
			d.setPeers(d.r.Intn(3) > 0)
		case x < 69 && faulty >= 2:
			d.setPeerLag(d.r.Intn(4))
		case x < 71 && faulty >= 2:
			d.loseFile(d.order[d.r.Intn(len(d.order))])
		case x < 78 && faulty >= 2:
			d.hc(min(d.r.Intn(tip+2), maxR), []string{"proximity", "deep"}[d.r.Intn(2)])
		case x < 81 && faulty >= 2:
			d.hcCycle([]string{"proximity", "deep"}[d.r.Intn(2)])
		default:
			d.randomRead()
		}
	}
	d.closing()
}

var _ = chain.FINALIZED
