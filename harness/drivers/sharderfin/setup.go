// Package sharderfin drives the REAL sharder side of finalization and block serving (growth family
// "sharderfin", spec/SharderFin.tla): sharder.Chain.UpdateFinalizedBlock reached through the real
// chain.finalizeRound -> FinalizedBlockWorker -> finalizeBlockProcess -> finalizeBlock pipeline, the real
// RocksDB-backed round / block-summary / transaction-summary / magic-block-map stores and the real file
// block store, the real read handlers (block by hash or round, transaction confirmation, magic block,
// latest finalized block, the sharder-to-sharder responders) and the real healthCheck repair step with
// peers reached over the real node-to-node HTTP request path.
//
// One world per process; this node is sharder s1 of a magic block with 3 miners and 4 sharders. Every trace
// gets fresh stores (new directories) and a chain reset to the genesis block, so it can be re-executed alone.
package sharderfin

import (
	"context"
	"fmt"
	"net"
	"net/http"
	"os"
	"path/filepath"
	"runtime/debug"
	"strconv"
	"sync"
	"time"

	"0chain.net/chaincore/block"
	"0chain.net/chaincore/chain"
	"0chain.net/chaincore/node"
	"0chain.net/chaincore/round"
	"0chain.net/chaincore/transaction"
	"0chain.net/core/cache"
	"0chain.net/core/datastore"
	"0chain.net/core/ememorystore"
	"0chain.net/sharder"
	"0chain.net/sharder/blockstore"

	"github.com/0chain/common/core/logging"
	"go.uber.org/zap"

	"verif/harness/rec"
	"verif/harness/world"
)

const (
	nMiners   = 3
	nSharders = 4
)

var storePools = []string{"roundsummarydb", "blocksummarydb", "magicblockmapdb", "txnsummarydb"}

// ufbHook wraps the sharder chain as the BlockStateHandler given to the real FinalizedBlockWorker: it
// delegates to the real methods and records the return of every UpdateFinalizedBlock call.
type ufbHook struct {
	d *drv
}

func (h ufbHook) SaveMagicBlock() chain.MagicBlockSaveFunc { return h.d.sc.SaveMagicBlock() }
func (h ufbHook) UpdatePendingBlock(ctx context.Context, b *block.Block, txns []datastore.Entity) {
	h.d.sc.UpdatePendingBlock(ctx, b, txns)
}
func (h ufbHook) UpdateFinalizedBlock(ctx context.Context, b *block.Block) (err error) {
	res := "ok"
	func() {
		defer func() {
			if r := recover(); r != nil {
				res = "panic"
				err = fmt.Errorf("panic in UpdateFinalizedBlock: %v", r)
				if os.Getenv("VERIF_LOG_PANIC") != "" {
					fmt.Fprintf(os.Stderr, "UFB panic: %v\n%s\n", r, debug.Stack())
				}
			}
		}()
		err = h.d.sc.UpdateFinalizedBlock(ctx, b)
		if err != nil {
			res = "error"
		}
	}()
	h.d.ufbMu.Lock()
	h.d.ufbCalls = append(h.d.ufbCalls, ufbCall{hash: b.Hash, res: res})
	h.d.ufbMu.Unlock()
	return err
}

type ufbCall struct{ hash, res string }

// setup makes the process a sharder: persistent entity stores, block store, sharder chain, workers, peers.
func (d *drv) setup() {
	w, c := d.w, d.w.Chain
	if logging.HCLogger == nil {
		logging.HCLogger = zap.NewNop() // the world silences the other loggers; the health check has its own
	}
	// the world registers its nodes without SetID: without id bytes every sharder has the same hash score for
	// every block and all of them are replicators of everything
	for _, n := range append(append([]*node.Node{}, w.SharderNodes...), w.MinerNodes...) {
		if err := n.SetID(n.ID); err != nil {
			rec.Fatal("node id: %v", err)
		}
	}
	// this node is sharder s1 of the magic block
	node.Self.Node = w.SharderNodes[0]
	if err := node.Self.SetSignatureScheme(w.Sharders[0].Scheme); err != nil {
		rec.Fatal("self scheme: %v", err)
	}
	// the sharder's persistent entities (sharder/sharder/sharder.go initEntities); the databases behind them
	// are opened per trace by openStores
	d.storeDir = filepath.Join(w.Dir, "boot")
	d.openStores()
	es := ememorystore.GetStorageProvider()
	block.SetupBlockSummaryEntity(es)
	round.SetupEntity(es)
	transaction.SetupTxnSummaryEntity(es)
	block.SetupMagicBlockMapEntity(es)
	sharder.SetupBlockSummaries()
	sharder.SetupRoundSummaries()

	sharder.SetupSharderChain(c)
	d.sc = sharder.GetSharderChain()
	sharder.SetupS2SRequestors()
	d.sc.VerifResetSyncStats()
	c.InitializeMinerPool(c.GetCurrentMagicBlock())

	chain.SetupLFBTicketSender()
	go c.StartLFBTicketWorker(d.ctx, w.Genesis) // SetLatestFinalizedBlock hands every LFB to this worker on a sharder
	go c.FinalizedBlockWorker(d.ctx, ufbHook{d})
	go c.VerifOfflineBlockFetcher(d.ctx)
	d.startPeers()
}

// openStores opens the four RocksDB stores and the file block store under d.storeDir (closing the ones
// that are open): a fresh directory = a new sharder, the same directory = a process restart.
func (d *drv) openStores() {
	for _, p := range storePools {
		ememorystore.VerifClosePool(p)
	}
	if err := os.MkdirAll(filepath.Join(d.storeDir, "data", "rocksdb"), 0o755); err != nil {
		rec.Fatal("stores: %v", err)
	}
	round.SetupRoundSummaryDB(d.storeDir)
	block.SetupBlockSummaryDB(d.storeDir)
	block.SetupMagicBlockMapDB(d.storeDir)
	transaction.SetupTxnSummaryDB(d.storeDir)
	blockstore.Init(d.storeDir, nil)
}

func (d *drv) freshCaches() {
	d.sc.BlockCache = cache.NewLRUCache[string, *block.Block](100)
	d.sc.BlockTxnCache = cache.NewLRUCache[string, *transaction.TransactionSummary](500)
}

// ---------------------------------------------------------------- peers (environment)

// A peer sharder is part of the environment: it answers the sharder-to-sharder requests of the node under
// test over the real request path (node.RequestEntityHandler -> HTTP -> node.ToN2NSendEntityHandler) with the
// canonical chain up to d.peerLfb, the way the real responders of s_handler.go answer from a complete store
// (a round it does not have is answered with an empty round object, a summary it does not have with nil).
type peer struct {
	idx int
	n   *node.Node
	ln  net.Listener
}

func (d *drv) startPeers() {
	for i := 1; i < nSharders; i++ {
		p := &peer{idx: i, n: d.w.SharderNodes[i]}
		ln, err := net.Listen("tcp", "127.0.0.1:0")
		if err != nil {
			rec.Fatal("peer listen: %v", err)
		}
		p.ln = ln
		p.n.Host, p.n.N2NHost, p.n.Port = "127.0.0.1", "127.0.0.1", ln.Addr().(*net.TCPAddr).Port
		mux := http.NewServeMux()
		reg := func(path string, h func(p *peer, r *http.Request) (interface{}, error)) {
			mux.HandleFunc(path, node.ToN2NSendEntityHandler(func(ctx context.Context, r *http.Request) (interface{}, error) {
				d.peerMu.Lock()
				defer d.peerMu.Unlock()
				if !d.peerUp[p.idx] {
					return nil, fmt.Errorf("peer is down")
				}
				d.peerReqs[path]++
				return h(p, r)
			}))
		}
		reg("/v1/_s2s/roundsummaries/get", d.peerRoundSummaries)
		reg("/v1/_s2s/round/get", d.peerRound)
		reg("/v1/_s2s/blocksummaries/get", d.peerBlockSummaries)
		reg("/v1/_s2s/blocksummary/get", d.peerBlockSummary)
		reg("/v1/_s2s/block/get", d.peerBlock)
		srv := &http.Server{Handler: mux}
		go srv.Serve(ln) //nolint:errcheck
		d.peers = append(d.peers, p)
	}
	// the miners are not reachable (nothing listens on their ports)
	for i, m := range d.w.MinerNodes {
		m.Host, m.N2NHost, m.Port = "127.0.0.1", "127.0.0.1", 1+i
	}
}

func (d *drv) canonRound(n int64) *round.Round {
	r := round.NewRound(n)
	if n >= 0 && int(n) < len(d.canon) && n <= d.peerLfb {
		b := d.canon[n]
		r.SetRandomSeedForNotarizedBlock(b.GetRoundRandomSeed(), nMiners)
		r.Finalize(b)
		r.Block = nil
	}
	return r
}

func rangeOf(r *http.Request) (lo, hi int64, err error) {
	edge, err := strconv.ParseInt(r.FormValue("round"), 10, 64)
	if err != nil {
		return 0, 0, err
	}
	rng, err := strconv.ParseInt(r.FormValue("range"), 10, 64)
	if err != nil {
		return 0, 0, err
	}
	// sharder.GetRangeBounds
	if rng > 0 {
		lo, hi = edge, edge+rng
	} else {
		hi, lo = edge, edge+rng
	}
	if hi <= 0 {
		hi = 1
	}
	if lo <= 0 {
		lo = 1
	}
	return lo, hi, nil
}

func (d *drv) peerRoundSummaries(p *peer, r *http.Request) (interface{}, error) {
	lo, hi, err := rangeOf(r)
	if err != nil {
		return nil, err
	}
	rs := &sharder.RoundSummaries{}
	for n := lo; n <= hi; n++ {
		rs.RSummaryList = append(rs.RSummaryList, d.canonRound(n))
	}
	rs.RSummaryList = append(rs.RSummaryList, nil) // the real responder allocates range+1 entries
	return rs, nil
}

func (d *drv) peerRound(p *peer, r *http.Request) (interface{}, error) {
	n, err := strconv.ParseInt(r.FormValue("round"), 10, 64)
	if err != nil {
		return nil, err
	}
	if n > d.peerLfb || int(n) >= len(d.canon) {
		return nil, fmt.Errorf("round %d not found", n)
	}
	return d.canonRound(n), nil
}

func (d *drv) peerBlockSummaries(p *peer, r *http.Request) (interface{}, error) {
	lo, hi, err := rangeOf(r)
	if err != nil {
		return nil, err
	}
	bs := &sharder.BlockSummaries{}
	for n := lo; n <= hi; n++ {
		if n <= d.peerLfb && int(n) < len(d.canon) {
			bs.BSummaryList = append(bs.BSummaryList, d.canon[n].GetSummary())
		} else {
			bs.BSummaryList = append(bs.BSummaryList, nil)
		}
	}
	bs.BSummaryList = append(bs.BSummaryList, nil)
	return bs, nil
}

func (d *drv) peerBlockSummary(p *peer, r *http.Request) (interface{}, error) {
	h := r.FormValue("hash")
	for n, b := range d.canon {
		if b.Hash == h && int64(n) <= d.peerLfb {
			return b.GetSummary(), nil
		}
	}
	return nil, fmt.Errorf("block summary not found")
}

func (d *drv) peerBlock(p *peer, r *http.Request) (interface{}, error) {
	h := r.FormValue("hash")
	for n, b := range d.canon {
		if b.Hash == h && int64(n) <= d.peerLfb {
			return b, nil
		}
	}
	return nil, fmt.Errorf("block not found")
}

var _ = sync.Mutex{}
var _ = time.Second
var _ = world.Contracts
