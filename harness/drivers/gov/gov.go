// Package gov holds the drivers of the governance / view-change family:
// C39 (node selection, spec/Reduce.tla), C48 (settings, spec/Governance.tla),
// C38 (view-change phase machine, spec/ViewChange.tla).
package gov

import (
	"sort"

	vc "verif/harness/common"
	"verif/harness/rec"
)

func init() { vc.Register("gov", Run) }

func Run(a vc.Args) {
	switch a.Prop {
	case "C39":
		runReduce(a)
	case "C38":
		runViewChange(a)
	case "C48":
		runSettings(a)
	default:
		rec.Fatal("gov: unknown prop %q", a.Prop)
	}
}

func must(err error) {
	if err != nil {
		rec.Fatal("%v", err)
	}
}

func sortedKeys(m map[string]bool) []string {
	out := make([]string, 0, len(m))
	for k, v := range m {
		if v {
			out = append(out, k)
		}
	}
	sort.Strings(out)
	return out
}
