package gov

import (
	"encoding/hex"
	"encoding/json"
	"fmt"
	"math/rand"
	"sort"

	"0chain.net/smartcontract/minersc"

	vc "verif/harness/common"
	"verif/harness/rec"
)

// C39: every layout enumerated by TLC from spec/MC_Reduce.tla is run on the real
// SimpleNodes.reduce (through minersc.VerifGovReduce) for a family of seeds, under two id
// assignments and twice each.

type layout struct {
	Stake map[string]uint64 `json:"stake"`
	Prev  []string          `json:"prev"`
	Limit int               `json:"limit"`
	Pct   int               `json:"pct"`
}

type pair struct {
	A string `json:"a"`
	D int64  `json:"d"`
}

var allNames = []string{"a", "b", "c", "d", "e"}

func nameBit(n string) int {
	for i, x := range allNames {
		if x == n {
			return 1 << uint(i)
		}
	}
	rec.Fatal("reduce: unknown candidate name %q", n)
	return 0
}

// two permutations of the names: the ascending order of their real ids under assignment 1 / 2
var relabel = [2][]string{{"a", "b", "c", "d", "e"}, {"c", "e", "a", "d", "b"}}

func randomIDs(r *rand.Rand, n int) []string {
	seen := map[string]bool{}
	var out []string
	for len(out) < n {
		b := make([]byte, 32)
		r.Read(b)
		s := hex.EncodeToString(b)
		if !seen[s] {
			seen[s] = true
			out = append(out, s)
		}
	}
	sort.Strings(out)
	return out
}

func runReduce(a vc.Args) {
	rc := rec.New(a.Out)
	defer rc.Close()
	nSeeds := a.N
	if nSeeds < 8 {
		nSeeds = 8
	}
	// one trace = a group of consecutive layouts (fewer Reset events to validate); a trace is
	// re-executable in isolation: its randomness is a function of (seed, group id) only
	const group = 16
	behs := vc.Behaviours(a.Behav)
	id := 0
	for g := 0; g < len(behs); g += group {
		id++
		if a.Only != 0 && a.Only != id {
			rc.TraceID = id
			continue
		}
		end := g + group
		if end > len(behs) {
			end = len(behs)
		}
		var lays []layout
		for _, raw := range behs[g:end] {
			var lay layout
			must(json.Unmarshal(raw, &lay))
			lays = append(lays, lay)
		}
		r := vc.TraceRand(a.Seed, id)
		rc.TraceID = id - 1
		rc.Reset(rec.M{"family": "gov", "kind": "reduce", "id": id, "layouts": lays, "seeds": nSeeds}, nil)
		for i, lay := range lays {
			// the companion of a layout = its neighbour in the group: the other selection of the same
			// view change (sharders, then miners), made in the same process with the same seed
			comp := lays[(i+len(lays)-1)%len(lays)]
			reduceLayout(rc, r, lay, comp, nSeeds)
		}
	}
}

func reduceLayout(rc *rec.Recorder, r *rand.Rand, lay, comp layout, nSeeds int) {
	names := make([]string, 0, len(lay.Stake))
	for n := range lay.Stake {
		names = append(names, n)
	}
	sort.Strings(names)
	seeds := make([]int64, nSeeds)
	for i := range seeds {
		seeds[i] = r.Int63()
		if r.Intn(4) == 0 {
			seeds[i] = -seeds[i]
		}
	}
	var ords [2][]string
	var runs [2][2][]int
	// sess[lab][k]: the "one view change in one process" pass - per seed the companion layout and
	// then this layout TWICE (DKG restart / block replay on the same previous magic block) are
	// reduced back to back with the same seed; k = first / second call on this layout
	var sess [2][2][]int
	mxSeen := map[int]bool{}
	for lab := 0; lab < 2; lab++ {
		// fresh random ids; name relabel[lab][i] gets the i-th smallest id
		ids := randomIDs(r, len(allNames))
		idOf := map[string]string{}
		nameOf := map[string]string{}
		for i, n := range relabel[lab] {
			idOf[n] = ids[i]
			nameOf[ids[i]] = n
		}
		for _, n := range relabel[lab] {
			if _, ok := lay.Stake[n]; ok {
				ords[lab] = append(ords[lab], n)
			}
		}
		prev := map[string]bool{}
		for _, n := range lay.Prev {
			prev[idOf[n]] = true
		}
		// one call of the real reduce on layout l (candidates handed over in a random order:
		// insertion order must not matter); result as a bit mask over the names
		call := func(l layout, lnames []string, lprev map[string]bool, seed int64) (int, int) {
			order := r.Perm(len(lnames))
			cids := make([]string, len(lnames))
			stakes := make([]uint64, len(lnames))
			for i, j := range order {
				cids[i] = idOf[lnames[j]]
				stakes[i] = l.Stake[lnames[j]]
			}
			mx, sel := safeReduce(cids, stakes, lprev, l.Limit, float64(l.Pct)/100, seed)
			mask := 0
			for _, sid := range sel {
				n, ok := nameOf[sid]
				if !ok {
					rec.Fatal("reduce returned an id that was not a candidate: %s", sid)
				}
				mask |= nameBit(n)
			}
			return mx, mask
		}
		for run := 0; run < 2; run++ {
			for _, seed := range seeds {
				mx, mask := call(lay, names, prev, seed)
				mxSeen[mx] = true
				runs[lab][run] = append(runs[lab][run], mask)
			}
		}
		cnames := make([]string, 0, len(comp.Stake))
		for n := range comp.Stake {
			cnames = append(cnames, n)
		}
		sort.Strings(cnames)
		cprev := map[string]bool{}
		for _, n := range comp.Prev {
			cprev[idOf[n]] = true
		}
		for _, seed := range seeds {
			call(comp, cnames, cprev, seed)
			for k := 0; k < 2; k++ {
				mx, mask := call(lay, names, prev, seed)
				mxSeen[mx] = true
				sess[lab][k] = append(sess[lab][k], mask)
			}
		}
	}
	var st []pair
	for _, n := range names {
		st = append(st, pair{n, int64(lay.Stake[n])})
	}
	prevNames := append([]string{}, lay.Prev...)
	sort.Strings(prevNames)
	var mx []int
	for v := range mxSeen {
		mx = append(mx, v)
	}
	sort.Ints(mx)
	cls := classify(lay, names)
	rc.Emit(rec.M{"ev": "Reduce", "stake": st, "prev": prevNames, "limit": lay.Limit, "pct": lay.Pct,
		"ord1": ords[0], "ord2": ords[1], "r1a": runs[0][0], "r1b": runs[0][1], "r2a": runs[1][0], "r2b": runs[1][1],
		"s1a": sess[0][0], "s1b": sess[0][1], "s2a": sess[1][0], "s2b": sess[1][1],
		"mx": mx, "tie": cls.tie, "tie_head": cls.head},
		fmt.Sprintf("x%d/y%d/tie=%v/head=%v", cls.x, cls.y, cls.tie, cls.head), cls.tie)
}

// safeReduce: a panic of the code under test is recorded as "nothing selected, -1 returned"
// (rejected by C39_Exact) instead of killing the driver.
func safeReduce(ids []string, stakes []uint64, prev map[string]bool, limit int, pct float64, seed int64) (mx int, sel []string) {
	defer func() {
		if r := recover(); r != nil {
			mx, sel = -1, nil
		}
	}()
	return minersc.VerifGovReduce(ids, stakes, prev, limit, pct, seed)
}

type rclass struct {
	x, y      int
	tie, head bool
}

// classify describes the layout for the evidence (and for the signature of known findings): whether the
// fill has a real tie at the cut, and whether that tie starts at the first place of the fill.
// It only looks at the multiset of stakes, never at the code under test.
func classify(lay layout, names []string) rclass {
	mx := lay.Limit
	if len(names) < mx {
		mx = len(names)
	}
	var prevStakes, rest []int
	isPrev := map[string]bool{}
	for _, n := range lay.Prev {
		isPrev[n] = true
	}
	for _, n := range names {
		if isPrev[n] {
			prevStakes = append(prevStakes, int(lay.Stake[n]))
		} else {
			rest = append(rest, int(lay.Stake[n]))
		}
	}
	x := (lay.Pct*mx + 99) / 100
	if len(prevStakes) < x {
		x = len(prevStakes)
	}
	sort.Sort(sort.Reverse(sort.IntSlice(prevStakes)))
	pool := append(rest, prevStakes[x:]...)
	sort.Sort(sort.Reverse(sort.IntSlice(pool)))
	y := mx - x
	c := rclass{x: x, y: y}
	if y == 0 || len(pool) <= y {
		return c
	}
	cut := pool[y-1]
	sure, tied := 0, 0
	for _, s := range pool {
		if s > cut {
			sure++
		} else if s == cut {
			tied++
		}
	}
	k := y - sure
	c.tie = k > 0 && k < tied
	c.head = c.tie && sure == 0
	return c
}
