// Package blockexec (C06): one real block is executed N times through the real Block.ComputeState on
// the same prior state under different environments (cold / warm state cache, GOMAXPROCS 1 / 16,
// repeated runs so that Go's randomised map iteration varies); every run logs its result tuple.
//
// The prior state is a real predecessor block P (built once: a transfer, a pour and successful settings
// updates of the faucet, miner (settings and globals) and storage contracts, so that the accounts and the
// configuration objects the state cache keeps have been read and written).
//
//	warm  the global state cache of a node that has executed P itself: P is re-executed through
//	      Block.ComputeState on a fresh cache, which commits P's values, then the block under test runs
//	      (the first two runs continue on the cache the generator produced the block with)
//	cold  a node that starts with an empty state cache and reads everything from the trie (restart, gap)
//	used  the cache as the previous runs of the same block left it (a node executing the block again)
//
// A block built directly on genesis never sees a warm cache: nothing is cached under the genesis hash.
package blockexec

import (
	"context"
	"encoding/json"
	"fmt"
	"os"
	"runtime"
	"time"

	"0chain.net/chaincore/block"
	"0chain.net/chaincore/transaction"
	"0chain.net/core/common"
	"0chain.net/core/encryption"

	"github.com/0chain/common/core/util"

	vc "verif/harness/common"
	"verif/harness/rec"
	"verif/harness/world"
)

func init() { vc.Register("blockexec", Run) }

type drv struct {
	w       *world.World
	rc      *rec.Recorder
	prior   *block.Block // P: the executed predecessor of every block under test
	baseNow int64
}

func Run(a vc.Args) {
	w := world.New(world.Options{Clients: 4})
	defer w.Close()
	rc := rec.New(a.Out)
	defer rc.Close()
	d := &drv{w: w, rc: rc}
	d.buildPrior()
	if os.Getenv("VERIF_DEBUG") != "" {
		defer func() { fmt.Fprintf(os.Stderr, "DEBUG times: warm=%v generator=%v runs=%v\n", tWarm, tGen, tRun) }()
	}
	runs := a.N
	if runs < 3 {
		runs = 3
	}
	id := 0
	for _, raw := range vc.Behaviours(a.Behav) {
		id++
		if a.Only != 0 && a.Only != id {
			rc.TraceID = id
			continue
		}
		var kinds []string
		if err := json.Unmarshal(raw, &kinds); err != nil {
			rec.Fatal("behaviour: %v", err)
		}
		rc.TraceID = id - 1
		rc.Reset(rec.M{"family": "blockexec", "id": id, "kinds": kinds, "runs": runs}, nil)
		// block time (and with it the block hash) is a function of the trace id, not of how many traces ran before
		w.Now = common.Timestamp(d.baseNow + 10*int64(id))
		d.block(kinds, runs, int64(id))
	}
}

// badMap builds a settings-update payload with two invalid entries (both fail; which error is
// reported first must not depend on map iteration order) plus one valid entry.
func badMap(keys ...string) map[string]interface{} {
	f := map[string]string{}
	for _, k := range keys {
		f[k] = "not-a-number-" + k
	}
	return map[string]interface{}{"fields": f}
}

// fields builds a settings-update payload from key, value pairs.
func fields(kv ...string) map[string]interface{} {
	f := map[string]string{}
	for i := 0; i+1 < len(kv); i += 2 {
		f[kv[i]] = kv[i+1]
	}
	return map[string]interface{}{"fields": f}
}

// buildPrior builds the predecessor block P on genesis (once per process, deterministic): a transfer, a
// pour and one successful settings update per configuration object, so that the executing node's state
// cache holds the accounts and the configuration objects (P is re-executed for every warm phase: kept short).
func (d *drv) buildPrior() {
	w := d.w
	w.BeginBlock(w.Genesis)
	for i, k := range []string{"send", "pour", "govok", "govok_miner", "prior_storage", "prior_globals"} {
		var ts world.TxnSpec
		switch k {
		case "prior_storage":
			ts = d.spec("gov2_storage", i)
			ts.Input = fields("max_charge", "0.4")
		case "prior_globals":
			ts = d.spec("gov2_globals", i)
			ts.Input = fields("server_chain.block.max_block_cost", "9000")
		default:
			ts = d.spec(k, i)
		}
		res := w.Do(ts)
		if os.Getenv("VERIF_DEBUG") != "" {
			fmt.Fprintf(os.Stderr, "DEBUG prior %s -> %s %s\n", k, res.Class, res.Err)
		}
		if res.Class == "rejected" || res.Class == "panic" {
			rec.Fatal("blockexec: prior block: %s: %s %s %s", k, res.Class, res.Err, res.Panic)
		}
	}
	d.prior = w.EndBlock()
	d.baseNow = int64(w.Now)
}

// twin returns a fresh, unexecuted block object with the identity and the transactions of b on top of prev.
func (d *drv) twin(b *block.Block, prev *block.Block, root util.Key, txns []*transaction.Transaction) *block.Block {
	t := block.NewBlock(d.w.Chain.GetKey(), b.Round)
	t.MinerID = b.MinerID
	t.CreationDate = b.CreationDate
	t.SetPreviousBlock(prev)
	t.SetRoundRandomSeed(b.GetRoundRandomSeed())
	t.Hash = b.Hash
	t.ClientStateHash = root
	for _, x := range txns {
		c := x.Clone()
		c.Status, c.TransactionOutput, c.OutputHash = 0, "", ""
		_ = c.ComputeProperties()
		t.Txns = append(t.Txns, c)
	}
	return t
}

// wall time spent per stage (printed with VERIF_DEBUG)
var tWarm, tGen, tRun time.Duration

// warm gives the chain the state cache of a node that has just executed P: a fresh cache, then P through
// the real Block.ComputeState (which commits P's values to the global cache).
func (d *drv) warm() {
	t0 := time.Now()
	defer func() { tWarm += time.Since(t0) }()
	w := d.w
	w.Chain.SetupStateCache()
	p := d.twin(d.prior, w.Genesis, d.prior.ClientStateHash, d.prior.Txns)
	ctx, cancel := context.WithTimeout(context.Background(), 30*time.Second)
	defer cancel()
	if err := p.ComputeState(ctx, w.Chain); err != nil {
		rec.Fatal("blockexec: re-execution of the prior block failed: %v", err)
	}
}

func (d *drv) spec(kind string, i int) world.TxnSpec {
	w := d.w
	c := w.Clients[i%len(w.Clients)]
	sc := func(from *world.Key, scn, fn string, in interface{}, v uint64) world.TxnSpec {
		return world.TxnSpec{From: from, To: world.Contracts[scn], Type: transaction.TxnTypeSmartContract, Fn: fn, Input: in, Value: v, Fee: 3}
	}
	switch kind {
	case "send":
		return world.TxnSpec{From: c, To: w.Clients[(i+1)%len(w.Clients)].ID, Type: transaction.TxnTypeSend, Value: 17, Fee: 2}
	case "data":
		return world.TxnSpec{From: c, To: w.Clients[(i+1)%len(w.Clients)].ID, Type: transaction.TxnTypeData, Raw: []byte("d"), Fee: 1}
	case "pour":
		return sc(c, "faucetsc", "pour", nil, 10)
	case "fail":
		return sc(c, "storagesc", "no_such_function", nil, 0)
	case "vest":
		return sc(c, "vestingsc", "add", map[string]interface{}{"description": "v", "start_time": int64(w.Now) + 100,
			"duration": int64(10 * time.Minute), "destinations": []map[string]interface{}{
				{"id": w.Clients[0].ID, "amount": 100}, {"id": w.Clients[1].ID, "amount": 200}, {"id": w.Clients[2].ID, "amount": 300}}}, 1000)
	case "stake":
		return sc(c, "minersc", "addToDelegatePool", map[string]interface{}{"provider_id": w.Miners[0].ID, "provider_type": 1}, 500)
	case "burn":
		return sc(c, "zcnsc", "burn", map[string]string{"ethereum_address": "0xabc"}, 200)
	case "gov2_globals":
		return sc(w.Owner, "minersc", "update_globals", badMap("server_chain.block.max_block_cost", "server_chain.block.max_byte_size", "server_chain.block.min_block_size"), 0)
	case "gov2_miner":
		return sc(w.Owner, "minersc", "update_settings", badMap("max_n", "min_n", "max_s", "min_s"), 0)
	case "gov2_storage":
		return sc(w.Owner, "storagesc", "update_settings", badMap("max_mint", "min_alloc_size", "max_challenge_completion_rounds", "min_blobber_capacity"), 0)
	case "gov2_vesting":
		return sc(w.Owner, "vestingsc", "vestingsc-update-settings", badMap("min_lock", "min_duration", "max_duration", "max_destinations"), 0)
	case "gov2_zcn":
		return sc(w.Owner, "zcnsc", "update-global-config", badMap("min_mint", "min_burn", "percent_authorizers", "min_authorizers"), 0)
	case "gov2_faucet":
		return sc(w.Owner, "faucetsc", "update-settings", badMap("pour_amount", "max_pour_amount", "periodic_limit", "global_limit"), 0)
	case "govok":
		return sc(w.Owner, "faucetsc", "update-settings", map[string]interface{}{"fields": map[string]string{"pour_amount": "0.00000006"}}, 0)
	// a settings update that is applied PARTIALLY and then fails: the entries are applied in key order to the
	// transaction's working copy of the configuration object (a map-typed cost entry and a scalar first), a
	// later entry is invalid; nothing of it may survive the transaction - neither in the trie nor in a cache
	case "govpart_miner":
		return sc(w.Owner, "minersc", "update_settings", fields("cost.add_miner", "777", "cost.wait", "778", "max_delegates", "177", "max_n", "not-a-number"), 0)
	case "govpart_storage":
		return sc(w.Owner, "storagesc", "update_settings", fields("cost.new_allocation_request", "777", "max_blobbers_per_allocation", "37", "max_stake", "not-a-number"), 0)
	// a successful settings update of the same contracts (reads the configuration object and saves it)
	case "govok_miner":
		return sc(w.Owner, "minersc", "update_settings", fields("max_charge", "0.4"), 0)
	// the storage contract saves its configuration object in two steps: update_settings records the changes,
	// commit_settings_changes applies the recorded changes (P has recorded one) and saves the object
	case "govcommit_storage":
		return sc(w.Owner, "storagesc", "commit_settings_changes", nil, 0)
	}
	rec.Fatal("unknown kind %q", kind)
	return world.TxnSpec{}
}

func (d *drv) block(kinds []string, runs int, salt int64) {
	w := d.w
	// the generator's own execution (through UpdateState directly) on top of P, with the state cache of a
	// node that executed P (a generator always has)
	d.warm()
	tg := time.Now()
	gen := w.BeginBlock(d.prior)
	var txns []*transaction.Transaction
	nonce := map[string]int64{}
	for i, k := range kinds {
		ts := d.spec(k, i)
		if n, ok := nonce[ts.From.ID]; ok {
			ts.Nonce = n + 1
		} else {
			ts.Nonce = w.StateNonce(ts.From.ID) + 1
		}
		nonce[ts.From.ID] = ts.Nonce
		t := w.MakeTxn(ts)
		res := w.ExecRec(d.rc, t, rec.M{"src": "blockexec", "kind": k})
		if os.Getenv("VERIF_DEBUG") != "" {
			fmt.Fprintf(os.Stderr, "DEBUG %s -> %s %s\n", k, res.Class, res.Err)
		}
		if res.Class == "rejected" {
			rec.Fatal("blockexec: kind %s was rejected by UpdateState: %s", k, res.Err)
		}
		txns = append(txns, t)
	}
	root := w.CurState.GetRoot()
	changes := w.CurState.GetChangeCount()
	d.emit("generator", "warm", runtime.GOMAXPROCS(0), util.ToHex(root), changes, txns, gen.Events, "")
	tGen += time.Since(tg)
	w.Cur = nil // abandon the generator's block object; verifiers recompute from P

	for r := 0; r < runs; r++ {
		procs := 16
		if r%2 == 1 {
			procs = 1
		}
		// per six runs: warm, warm, cold, used, cold, used.  The first two runs continue on the generator's
		// cache (a node that executed P and has already seen the block's transactions once, as every
		// generator and every re-executing verifier has); later warm phases start from a re-executed P
		cache := "used"
		switch r % 6 {
		case 0:
			if r > 0 {
				d.warm()
			}
			cache = "warm"
		case 1:
			cache = "warm"
		case 2, 4:
			// a fresh global state cache: every value is read from the trie
			w.Chain.SetupStateCache()
			cache = "cold"
		}
		old := runtime.GOMAXPROCS(procs)
		b := d.twin(gen, d.prior, root, txns)
		ctx, cancel := context.WithTimeout(context.Background(), 30*time.Second)
		tr := time.Now()
		err := b.ComputeState(ctx, w.Chain)
		tRun += time.Since(tr)
		cancel()
		runtime.GOMAXPROCS(old)
		es := ""
		got, ch := "", 0
		if err != nil {
			es = err.Error()
		}
		if b.ClientState != nil {
			got, ch = util.ToHex(b.ClientState.GetRoot()), b.ClientState.GetChangeCount()
		}
		// a state-hash mismatch is itself a divergence from the generator: report it through the tuple
		if es == block.ErrStateMismatch.Error() {
			es, got = "", "MISMATCH"
		}
		d.emit("verifier", cache, procs, got, ch, b.Txns, b.Events, es)
	}
}

func (d *drv) emit(role, cache string, procs int, root string, changes int, txns []*transaction.Transaction, evs interface{}, errS string) {
	var st []int
	var outs []string
	for _, t := range txns {
		st = append(st, t.Status)
		outs = append(outs, encryption.Hash(t.TransactionOutput))
	}
	// the generator path (UpdateState) does not add the per-txn bookkeeping events ComputeState adds,
	// so the event list is compared among ComputeState runs only
	evd := "generator"
	if role != "generator" {
		j, err := json.Marshal(evs)
		if err != nil {
			evd = "unmarshalable:" + err.Error()
		} else {
			evd = encryption.Hash(j)
		}
	}
	if len(errS) > 120 {
		errS = errS[:120]
	}
	if st == nil {
		st = []int{}
		outs = []string{}
	}
	m := rec.M{"ev": "Run", "role": role, "cache": cache, "procs": procs, "root": root, "changes": changes,
		"statuses": st, "outputs": outs, "events": evd, "err": errS}
	d.rc.Emit(m, role+"/"+cache, true)
}
