// Package blockexec (C06): one real block is executed N times through the real Block.ComputeState on
// the same prior state under different environments (cold / warm state cache, GOMAXPROCS 1 / 16,
// repeated runs so that Go's randomised map iteration varies); every run logs its result tuple.
package blockexec

import (
	"context"
	"encoding/json"
	"fmt"
	"os"
	"runtime"
	"time"

	"0chain.net/chaincore/block"
	"0chain.net/chaincore/transaction"
	"0chain.net/core/encryption"

	"github.com/0chain/common/core/util"

	vc "verif/harness/common"
	"verif/harness/rec"
	"verif/harness/world"
)

func init() { vc.Register("blockexec", Run) }

type drv struct {
	w  *world.World
	rc *rec.Recorder
}

func Run(a vc.Args) {
	w := world.New(world.Options{Clients: 4})
	defer w.Close()
	rc := rec.New(a.Out)
	defer rc.Close()
	d := &drv{w: w, rc: rc}
	runs := a.N
	if runs < 3 {
		runs = 3
	}
	id := 0
	for _, raw := range vc.Behaviours(a.Behav) {
		id++
		if a.Only != 0 && a.Only != id {
			rc.TraceID = id
			continue
		}
		var kinds []string
		if err := json.Unmarshal(raw, &kinds); err != nil {
			rec.Fatal("behaviour: %v", err)
		}
		rc.TraceID = id - 1
		rc.Reset(rec.M{"family": "blockexec", "id": id, "kinds": kinds, "runs": runs}, nil)
		d.block(kinds, runs, int64(id))
	}
}

// badMap builds a settings-update payload with two invalid entries (both fail; which error is
// reported first must not depend on map iteration order) plus one valid entry.
func badMap(keys ...string) map[string]interface{} {
	f := map[string]string{}
	for _, k := range keys {
		f[k] = "not-a-number-" + k
	}
	return map[string]interface{}{"fields": f}
}

func (d *drv) spec(kind string, i int) world.TxnSpec {
	w := d.w
	c := w.Clients[i%len(w.Clients)]
	sc := func(from *world.Key, scn, fn string, in interface{}, v uint64) world.TxnSpec {
		return world.TxnSpec{From: from, To: world.Contracts[scn], Type: transaction.TxnTypeSmartContract, Fn: fn, Input: in, Value: v, Fee: 3}
	}
	switch kind {
	case "send":
		return world.TxnSpec{From: c, To: w.Clients[(i+1)%len(w.Clients)].ID, Type: transaction.TxnTypeSend, Value: 17, Fee: 2}
	case "data":
		return world.TxnSpec{From: c, To: w.Clients[(i+1)%len(w.Clients)].ID, Type: transaction.TxnTypeData, Raw: []byte("d"), Fee: 1}
	case "pour":
		return sc(c, "faucetsc", "pour", nil, 10)
	case "fail":
		return sc(c, "storagesc", "no_such_function", nil, 0)
	case "vest":
		return sc(c, "vestingsc", "add", map[string]interface{}{"description": "v", "start_time": int64(w.Now) + 100,
			"duration": int64(10 * time.Minute), "destinations": []map[string]interface{}{
				{"id": w.Clients[0].ID, "amount": 100}, {"id": w.Clients[1].ID, "amount": 200}, {"id": w.Clients[2].ID, "amount": 300}}}, 1000)
	case "stake":
		return sc(c, "minersc", "addToDelegatePool", map[string]interface{}{"provider_id": w.Miners[0].ID, "provider_type": 1}, 500)
	case "burn":
		return sc(c, "zcnsc", "burn", map[string]string{"ethereum_address": "0xabc"}, 200)
	case "gov2_globals":
		return sc(w.Owner, "minersc", "update_globals", badMap("server_chain.block.max_block_cost", "server_chain.block.max_byte_size", "server_chain.block.min_block_size"), 0)
	case "gov2_miner":
		return sc(w.Owner, "minersc", "update_settings", badMap("max_n", "min_n", "max_s", "min_s"), 0)
	case "gov2_storage":
		return sc(w.Owner, "storagesc", "update_settings", badMap("max_mint", "min_alloc_size", "max_challenge_completion_rounds", "min_blobber_capacity"), 0)
	case "gov2_vesting":
		return sc(w.Owner, "vestingsc", "vestingsc-update-settings", badMap("min_lock", "min_duration", "max_duration", "max_destinations"), 0)
	case "gov2_zcn":
		return sc(w.Owner, "zcnsc", "update-global-config", badMap("min_mint", "min_burn", "percent_authorizers", "min_authorizers"), 0)
	case "gov2_faucet":
		return sc(w.Owner, "faucetsc", "update-settings", badMap("pour_amount", "max_pour_amount", "periodic_limit", "global_limit"), 0)
	case "govok":
		return sc(w.Owner, "faucetsc", "update-settings", map[string]interface{}{"fields": map[string]string{"pour_amount": "0.00000006"}}, 0)
	}
	rec.Fatal("unknown kind %q", kind)
	return world.TxnSpec{}
}

func (d *drv) block(kinds []string, runs int, salt int64) {
	w := d.w
	// the generator's own execution (through UpdateState directly), on a fork from genesis
	gen := w.BeginBlock(w.Genesis)
	var txns []*transaction.Transaction
	nonce := map[string]int64{}
	for i, k := range kinds {
		ts := d.spec(k, i)
		if n, ok := nonce[ts.From.ID]; ok {
			ts.Nonce = n + 1
		} else {
			ts.Nonce = w.StateNonce(ts.From.ID) + 1
		}
		nonce[ts.From.ID] = ts.Nonce
		t := w.MakeTxn(ts)
		res := w.ExecRec(d.rc, t, rec.M{"src": "blockexec", "kind": k})
		if os.Getenv("VERIF_DEBUG") != "" {
			fmt.Fprintf(os.Stderr, "DEBUG %s -> %s %s\n", k, res.Class, res.Err)
		}
		if res.Class == "rejected" {
			rec.Fatal("blockexec: kind %s was rejected by UpdateState: %s", k, res.Err)
		}
		txns = append(txns, t)
	}
	root := w.CurState.GetRoot()
	changes := w.CurState.GetChangeCount()
	d.emit("generator", "cold", runtime.GOMAXPROCS(0), util.ToHex(root), changes, txns, gen.Events, "")
	w.Cur = nil // abandon the generator's block object; verifiers recompute from genesis

	for r := 0; r < runs; r++ {
		procs := 16
		if r%2 == 1 {
			procs = 1
		}
		old := runtime.GOMAXPROCS(procs)
		cache := "warm"
		b := block.NewBlock(w.Chain.GetKey(), gen.Round)
		b.MinerID = gen.MinerID
		b.CreationDate = gen.CreationDate
		b.SetPreviousBlock(w.Genesis)
		b.SetRoundRandomSeed(gen.GetRoundRandomSeed())
		b.Hash = gen.Hash
		if r%3 == 0 {
			// a fresh global state cache: every value is read from the trie
			w.Chain.SetupStateCache()
			cache = "cold"
		}
		b.ClientStateHash = root
		for _, t := range txns {
			c := t.Clone()
			c.Status, c.TransactionOutput, c.OutputHash = 0, "", ""
			_ = c.ComputeProperties()
			b.Txns = append(b.Txns, c)
		}
		ctx, cancel := context.WithTimeout(context.Background(), 30*time.Second)
		err := b.ComputeState(ctx, w.Chain)
		cancel()
		runtime.GOMAXPROCS(old)
		es := ""
		got, ch := "", 0
		if err != nil {
			es = err.Error()
		}
		if b.ClientState != nil {
			got, ch = util.ToHex(b.ClientState.GetRoot()), b.ClientState.GetChangeCount()
		}
		// a state-hash mismatch is itself a divergence from the generator: report it through the tuple
		if es == block.ErrStateMismatch.Error() {
			es, got = "", "MISMATCH"
		}
		d.emit("verifier", cache, procs, got, ch, b.Txns, b.Events, es)
	}
}

func (d *drv) emit(role, cache string, procs int, root string, changes int, txns []*transaction.Transaction, evs interface{}, errS string) {
	var st []int
	var outs []string
	for _, t := range txns {
		st = append(st, t.Status)
		outs = append(outs, encryption.Hash(t.TransactionOutput))
	}
	// the generator path (UpdateState) does not add the per-txn bookkeeping events ComputeState adds,
	// so the event list is compared among ComputeState runs only
	evd := "generator"
	if role != "generator" {
		j, err := json.Marshal(evs)
		if err != nil {
			evd = "unmarshalable:" + err.Error()
		} else {
			evd = encryption.Hash(j)
		}
	}
	if len(errS) > 120 {
		errS = errS[:120]
	}
	if st == nil {
		st = []int{}
		outs = []string{}
	}
	m := rec.M{"ev": "Run", "role": role, "cache": cache, "procs": procs, "root": root, "changes": changes,
		"statuses": st, "outputs": outs, "events": evd, "err": errS}
	d.rc.Emit(m, role+"/"+cache, true)
}
