package roundtrace

import (
	"context"
	"encoding/json"
	"fmt"
	"math/rand"
	"sort"
	"strconv"
	"time"

	"0chain.net/chaincore/block"
	"0chain.net/chaincore/chain"
	"0chain.net/chaincore/node"
	"0chain.net/chaincore/round"
	"0chain.net/core/common"
	"0chain.net/core/encryption"
	"0chain.net/miner"

	"verif/harness/rec"
)

// blk is one block of the trace, under its abstract name.
type blk struct {
	name    string
	hash    string
	r       int    // round relative to the trace's base round
	gen     int    // generator (0-based miner index)
	seed    []int  // name (path) of the round random seed the block carries
	prev    string // name of the previous block
	variant int
	pforged bool         // the previous-block tickets attached to the block are forged
	badsig  bool         // the generator's signature on the block is not valid
	sent    bool         // delivered to the node at least once
	src     *block.Block // an object of the block with its state computed (generator side / the node's own)
}

type pair struct {
	A string `json:"a"`
	D int    `json:"d"`
}

// trace is the state of the harness for one trace.
type trace struct {
	id       int
	base     int64
	r        *rand.Rand
	ctx      context.Context
	done     func()
	blocks   map[string]*blk
	byHash   map[string]*blk
	order    []string
	seeds    map[int64][]int  // seed value -> its path (timeout counts from the base block; base = [9])
	seedOf   map[string]int64 // key "r/toc/prev value" -> seed computed by the harness from the other miners' shares
	maxRound int
	steps    int
	lastObs  string
	collSeen map[string]time.Time // first time a verification collector (round/seed) was seen running
	seenSeed map[string]bool
	seenNb   map[int]int
	lastCur  int
	lastLfb  string
	lastTocs int
	pend     []*pending
	hist     []func() // messages sent so far (late re-delivery)
}

// seedName: the abstract name of a seed value = the path of timeout counts that leads to it from the base
// block's seed, as established by the harness' own reference computations (refSeedAt). A value that no
// reference computation has produced is [-1]; no seed is [].
func (t *trace) seedName(v int64) []int {
	if v == 0 {
		return []int{}
	}
	if n, ok := t.seeds[v]; ok {
		return n
	}
	return []int{-1}
}

func pathKey(p []int) string { return fmt.Sprint(p) }

func (d *drv) minerName(id string) string {
	for i, k := range d.mw.Miners {
		if k.ID == id {
			return fmt.Sprintf("m%d", i+1)
		}
	}
	return "?" + d.mw.Name(id)
}

func (d *drv) minerIdx(id string) int {
	for i, k := range d.mw.Miners {
		if k.ID == id {
			return i
		}
	}
	return -1
}

// refSeed: the round random seed for (round, timeout count, previous seed) computed by the harness with the
// real library from the shares of the three OTHER miners (the node never holds exactly this share set when its
// own share is among its shares): the reference value of C33.
func (d *drv) refSeed(rn int64, toc int, prev int64) int64 {
	msg := fmt.Sprintf("%v%v%v", rn, toc, strconv.FormatInt(prev, 16))
	var sigs, ids []string
	for j := 1; j < nMiners; j++ {
		sigs = append(sigs, d.dkg.dkgs[j].Sign(msg).GetHexString())
		ids = append(ids, miner.ComputeBlsID(d.mw.Miners[j].ID))
	}
	gs, err := d.dkg.dkgs[1].CalBlsGpSign(sigs, ids)
	must(err)
	rbo := encryption.Hash(gs.GetHexString())
	u, err := strconv.ParseUint(rbo[0:16], 16, 64)
	must(err)
	return int64(u)
}

// refSeedAt: refSeed for relative round q, memoised; records the path of the result when the path of prev is known.
func (d *drv) refSeedAt(q, toc int, prev int64) int64 {
	t := d.t
	key := fmt.Sprintf("%d/%d/%d", q, toc, prev)
	if v, ok := t.seedOf[key]; ok {
		return v
	}
	v := d.refSeed(t.base+int64(q), toc, prev)
	t.seedOf[key] = v
	if pp, ok := t.seeds[prev]; ok {
		if _, known := t.seeds[v]; !known {
			t.seeds[v] = append(append([]int{}, pp...), toc)
		}
	}
	return v
}

// ranksOf: rank of every miner for a seed, computed with a scratch round.Round (real computeMinerRanks).
func (d *drv) ranksOf(seed int64) []int {
	rr := round.NewRound(1)
	rr.SetRandomSeed(seed, nMiners)
	out := make([]int, nMiners)
	for i, n := range d.mw.MinerNodes {
		out[i] = rr.GetMinerRank(n)
	}
	return out
}

// ---------------------------------------------------------------- trace start

func (d *drv) newBlockName(t *trace, b *block.Block, r, gen int, seed []int, prev string, variant int, src *block.Block) *blk {
	x := &blk{name: fmt.Sprintf("b%d", len(t.order)), hash: b.Hash, r: r, gen: gen, seed: seed, prev: prev, variant: variant, src: src}
	if len(t.order) == 0 {
		x.name = "g"
	}
	t.blocks[x.name] = x
	t.byHash[x.hash] = x
	t.order = append(t.order, x.name)
	return x
}

// startTrace: the node (re)starts on a latest finalized block at round `base`, as StartProtocol does with the
// LFB it loaded (startProtocolOnLFB): LFB ticket bumped to it, block state initialised, SetLatestFinalizedBlock.
func (d *drv) startTrace(id int, r *rand.Rand) *trace {
	mw, mc := d.mw, d.mc
	t := &trace{id: id, base: int64(baseStep * id), r: r, blocks: map[string]*blk{}, byHash: map[string]*blk{},
		seeds: map[int64][]int{}, seedOf: map[string]int64{}, collSeen: map[string]time.Time{},
		seenSeed: map[string]bool{}, seenNb: map[int]int{}}
	d.t = t
	t.ctx, t.done = mw.Ctx()
	// process-level state that a previous trace may have left behind
	mw.Redis.FlushAll()
	mc.SetupStateCache()
	mc.ResetRoundTimeoutCount()
	for _, n := range mw.MinerNodes[1:] {
		n.SetStatus(node.NodeStatusInactive)
	}
	d.setSelf(0)
	// a fresh DKG per trace: other seeds, other generator ranks
	d.dkg = makeDKG(mw.World, mw.MagicBlock.T, nMiners, rand.New(rand.NewSource(r.Int63())))
	must(mc.SetDKG(d.dkg.dkgs[0], 0))

	g := mw.Genesis
	b := block.NewBlock(mc.GetKey(), t.base)
	b.MinerID = mw.Miners[1+r.Intn(nMiners-1)].ID
	b.PrevHash = g.Hash
	b.PrevBlock = g
	b.Round = t.base
	b.CreationDate = common.Now() - 2
	baseSeed := r.Int63()
	t.seeds[baseSeed] = []int{9}
	b.SetRoundRandomSeed(baseSeed)
	b.ClientStateHash = g.ClientStateHash
	b.LatestFinalizedMagicBlockHash = g.Hash
	b.LatestFinalizedMagicBlockRound = 0
	b.HashBlock()
	b.Signature = mw.ByName[d.minerName(b.MinerID)].Sign(b.Hash)
	for j := 1; j < nMiners; j++ {
		b.AddVerificationTicket(&block.VerificationTicket{VerifierID: mw.Miners[j].ID, Signature: mw.Miners[j].Sign(b.Hash)})
	}
	b.SetBlockNotarized()
	must(mc.InitBlockState(b))
	d.newBlockName(t, b, 0, d.minerIdx(b.MinerID), t.seedName(baseSeed), "", 0, b)

	mc.AddReceivedLFBTicket(t.ctx, &chain.LFBTicket{Round: t.base})
	mc.SetLatestFinalizedBlock(t.ctx, b)
	mc.LatestDeterministicBlock = b
	mr := mc.GetMinerRound(t.base)
	if mr == nil {
		rec.Fatal("no round for the base block")
	}
	d.rc.Reset(rec.M{"family": "roundtrace", "id": id, "seed": d.a.Seed, "steps": d.a.Steps},
		rec.M{"miners": nMiners, "T": 3, "NT": 3, "gens": 2, "restart_mult": restartMult, "toc_cap": tocCap, "ahead": ahead,
			"base_seed": t.seedName(baseSeed), "base_gen": d.minerName(b.MinerID), "self": "m1"})
	nr := mc.StartNextRound(t.ctx, mr)
	if nr == nil {
		rec.Fatal("StartNextRound returned nil")
	}
	d.emit(rec.M{"ev": "Start"}, "Start", true)
	return t
}

// endTrace lets everything come to rest and closes the trace's connection.
func (d *drv) endTrace() {
	t := d.t
	d.settle()
	// goroutines of this history that still wait in waitNotAhead must not wake up in the next one
	d.mc.VerifRTRestartRoundEvent(t.ctx)
	d.settle()
	t.done()
}

// ---------------------------------------------------------------- projection

func (d *drv) rel(rn int64) int { return int(rn - d.t.base) }

func (d *drv) blockName(b *block.Block) string {
	if b == nil {
		return ""
	}
	if x, ok := d.t.byHash[b.Hash]; ok {
		return x.name
	}
	// a block the harness did not make: the node's own proposal
	if b.MinerID == d.mw.Miners[0].ID {
		prev := ""
		if p, ok := d.t.byHash[b.PrevHash]; ok {
			prev = p.name
		}
		// the harness keeps its own object of the block (the simulated miners' copy): never the node's
		x := d.newBlockName(d.t, b, d.rel(b.Round), 0, d.t.seedName(b.GetRoundRandomSeed()), prev, 0, d.copyOf(b))
		return x.name
	}
	return "?" + b.Hash[:8]
}

// attrs: what a block carries (facts the node cannot choose).
func (d *drv) attrs(x *blk) rec.M {
	ptk := []string{}
	for _, vt := range x.src.PrevBlockVerificationTickets {
		ptk = append(ptk, d.minerName(vt.VerifierID))
	}
	sort.Strings(ptk)
	return rec.M{"b": x.name, "r": x.r, "gen": fmt.Sprintf("m%d", x.gen+1), "seed": x.seed, "prev": x.prev, "ptk": ptk,
		"variant": x.variant, "valid": !x.badsig, "pvalid": !x.pforged}
}

// copyOf: an independent object of a block of the node (as another miner holds it after receiving it), with the
// computed state attached so that the simulated miners can build on it.
func (d *drv) copyOf(b *block.Block) *block.Block {
	enc, err := json.Marshal(b)
	must(err)
	cp := block.NewBlock(d.mc.GetKey(), b.Round)
	must(cp.Decode(enc))
	must(cp.ComputeProperties())
	cp.VerificationTickets = nil
	if p, ok := d.t.byHash[b.PrevHash]; ok && p.src != nil {
		cp.PrevBlock = p.src
	}
	cp.RoundRank = b.RoundRank
	if b.IsStateComputed() && b.ClientState != nil {
		cp.SetClientState(b.ClientState)
		cp.SetStateStatus(block.StateSuccessful)
	}
	return cp
}

func (d *drv) ticketNames(b *block.Block) (names []string, good int) {
	seen := map[string]bool{}
	for _, vt := range b.GetVerificationTickets() {
		names = append(names, d.minerName(vt.VerifierID))
		n := d.mw.MagicBlock.Miners.GetNode(vt.VerifierID)
		if n == nil || seen[vt.VerifierID] {
			continue
		}
		if ok, err := n.Verify(vt.Signature, b.Hash); err == nil && ok {
			seen[vt.VerifierID] = true
			good++
		}
	}
	sort.Strings(names)
	if names == nil {
		names = []string{}
	}
	return
}

// project reads the node's state back. Rounds and timeout counts relative to the trace; seeds, blocks and
// miners under their abstract names.
func (d *drv) project() rec.M {
	t, mc, mw := d.t, d.mc, d.mw
	lfb := mc.GetLatestFinalizedBlock()
	tctx, cancel := context.WithTimeout(context.Background(), 5*time.Second)
	tk := mc.GetLatestLFBTicket(tctx)
	cancel()
	tkr := -1
	if tk != nil {
		tkr = d.rel(tk.Round)
	}
	rounds := []rec.M{}
	maxR := d.rel(mc.GetCurrentRound()) + 2
	if maxR < t.maxRound {
		maxR = t.maxRound
	}
	for q := 1; q <= maxR; q++ {
		mr := mc.GetMinerRound(t.base + int64(q))
		if mr == nil {
			continue
		}
		if q > t.maxRound {
			t.maxRound = q
		}
		v := mr.VerifRTView()
		seed := mr.GetRandomSeed()
		ranks := []int{}
		if seed != 0 && mr.IsRanksComputed() {
			for _, n := range mw.MinerNodes {
				ranks = append(ranks, mr.GetMinerRank(n))
			}
		}
		shares := []string{}
		sharesValid := 0
		msg, merr := mc.GetBlsMessageForRound(mr.Round)
		for id, sh := range mr.GetVRFShares() {
			shares = append(shares, d.minerName(id))
			if merr == nil {
				var sg tblsSign
				if sg.SetHexString(sh.Share) == nil && d.dkg.dkgs[0].VerifySignature(&sg, msg, tblsID(id)) {
					sharesValid++
				}
			}
		}
		sort.Strings(shares)
		cache := []pair{}
		for i, p := range v.CacheParties {
			cache = append(cache, pair{d.minerName(p), v.CacheTocs[i]})
		}
		rtk := []pair{}
		for i, bh := range v.TicketBlocks {
			bn := "?" + bh[:8]
			if x, ok := t.byHash[bh]; ok {
				bn = x.name
			}
			rtk = append(rtk, pair{bn, d.minerIdx(v.TicketFrom[i]) + 1})
		}
		proposed := []string{}
		for _, pb := range mr.GetProposedBlocks() {
			proposed = append(proposed, d.blockName(pb))
		}
		sort.Strings(proposed)
		nb := []string{}
		nbRanks := []int{}
		for _, b := range mr.GetNotarizedBlocks() {
			nb = append(nb, d.blockName(b))
			nbRanks = append(nbRanks, b.RoundRank)
		}
		vrfOwn := -1
		if s := mr.VrfShare(); s != nil {
			vrfOwn = s.GetRoundTimeoutCount()
		}
		own := ""
		if o := mr.OwnVerificationTicket(); o != nil {
			if x, ok := t.byHash[o.BlockID]; ok {
				own = x.name
			} else {
				own = "?" + o.BlockID[:8]
			}
		}
		// reference seed for this (round, timeout count, previous seed): from the other miners' shares
		ref := []int{}
		if pr := mc.GetMinerRound(t.base + int64(q) - 1); pr != nil && pr.GetRandomSeed() != 0 {
			ref = t.seedName(d.refSeedAt(q, mr.GetTimeoutCount(), pr.GetRandomSeed()))
		}
		rounds = append(rounds, rec.M{"r": q, "toc": mr.GetTimeoutCount(), "soft": mr.GetSoftTimeoutCount(), "phase": int(mr.GetPhase()),
			"seed": t.seedName(seed), "seed_ref": ref, "ranks": ranks, "shares": shares, "shares_valid": sharesValid, "cache": cache, "vrf_own": vrfOwn,
			"proposed": proposed, "best": d.blockName(mr.Block), "own": own, "nb": nb, "nb_ranks": nbRanks,
			"fin": int(mr.FinalizeState()), "coll": v.Collecting, "rtk": rtk, "to_verify": v.ToVerify})
	}
	blocks := []rec.M{}
	for _, name := range append([]string{}, t.order...) {
		x := t.blocks[name]
		b, err := mc.GetBlock(t.ctx, x.hash)
		if err != nil || b == nil {
			continue
		}
		tks, good := d.ticketNames(b)
		blocks = append(blocks, rec.M{"b": name, "st": int(b.GetBlockState()), "tk": tks, "good": good, "notar": b.IsBlockNotarized(),
			"rank": b.RoundRank, "computed": b.IsStateComputed()})
	}
	// everything the harness knows about the blocks of the trace (what a block carries does not depend on the node)
	univ := []rec.M{}
	for _, name := range t.order {
		univ = append(univ, d.attrs(t.blocks[name]))
	}
	// the chain from the LFB back to the base block (C36: one chain)
	lfbChain := []string{}
	for b := lfb; b != nil && b.Round >= t.base; b = b.PrevBlock {
		lfbChain = append(lfbChain, d.blockName(b))
	}
	return rec.M{"ev": "Obs", "cur": d.rel(mc.GetCurrentRound()), "lfb": d.blockName(lfb), "lfb_r": d.rel(lfb.Round), "lfb_chain": lfbChain,
		"tk": tkr, "rtc": int(mc.GetRoundTimeoutCount()), "rounds": rounds, "blocks": blocks, "univ": univ}
}

// ---------------------------------------------------------------- quiescence

func (d *drv) fingerprint() string {
	p := d.project()
	fr, fb := d.mc.VerifRTFinalizeQueues()
	return fmt.Sprintf("%v|%d|%d", p, fr, fb)
}

// waiting tells whether the node still owes an internal step that the harness can name.
func (d *drv) waiting() string {
	t, mc := d.t, d.mc
	fr, fb := mc.VerifRTFinalizeQueues()
	if fr+fb > 0 {
		return "finalization queues"
	}
	cur := mc.GetCurrentRound()
	for q := int64(1); q <= int64(t.maxRound)+1; q++ {
		mr := mc.GetMinerRound(t.base + q)
		if mr == nil {
			continue
		}
		v := mr.VerifRTView()
		if v.Collecting {
			key := fmt.Sprintf("%d/%d", q, mr.GetRandomSeed())
			seen, ok := t.collSeen[key]
			if !ok {
				seen = time.Now()
				t.collSeen[key] = seen
			}
			if time.Since(seen) < collectSettle {
				return "verification collector timer"
			}
			if v.ToVerify > 0 {
				return "block waiting for the verification collector"
			}
			for _, pb := range mr.GetProposedBlocks() {
				st := pb.GetBlockState()
				if st == block.StateVerificationPending || st == block.StateVerificationAccepted {
					return "block being verified"
				}
			}
		}
		// own proposal due: current round, seed known, this node among the generators, nothing proposed by it yet
		if t.base+q == cur && mr.HasRandomSeed() && mr.GetPhase() == round.Verify && mc.IsRoundGenerator(mr, node.Self.Underlying()) {
			have := false
			for _, pb := range mr.GetProposedBlocks() {
				if pb.MinerID == node.Self.Underlying().GetKey() && pb.GetRoundRandomSeed() == mr.GetRandomSeed() {
					have = true
				}
			}
			if pr := mc.GetMinerRound(t.base + q - 1); !have && pr != nil && pr.GetHeaviestNotarizedBlock() != nil {
				return "own proposal"
			}
		}
		// move to the next round due: round complete, still current, not ahead of the sharders
		if t.base+q == cur && mr.GetPhase() == round.Complete && mr.GetHeaviestNotarizedBlock() != nil {
			tctx, cancel := context.WithTimeout(context.Background(), 5*time.Second)
			tk := mc.GetLatestLFBTicket(tctx)
			cancel()
			lfb := mc.GetLatestFinalizedBlock()
			if tk != nil {
				bound := tk.Round
				if lfb.Round < bound {
					bound = lfb.Round
				}
				if cur+1 <= bound+ahead {
					return "move to the next round"
				}
			}
		}
	}
	for _, name := range t.order {
		if running, _, _ := mc.VerifRTNotarizing(t.blocks[name].hash); running {
			return "previous block notarization check"
		}
	}
	return ""
}

// settle waits until the node's goroutines have come to rest: nothing named is owed and the projection has not
// changed for a while.
func (d *drv) settle() {
	deadline := time.Now().Add(20 * time.Second)
	stableSince := time.Now()
	last := ""
	for {
		w := d.waiting()
		fp := d.fingerprint()
		now := time.Now()
		if fp != last {
			last = fp
			stableSince = now
		}
		if w == "" && now.Sub(stableSince) >= 30*time.Millisecond {
			return
		}
		if w != "" && now.Sub(stableSince) >= 1500*time.Millisecond {
			// owed by the harness' reckoning but not happening: not an error of the node by itself (the model decides)
			if d.debug {
				dbg("settle: gave up waiting for %s", w)
			}
			return
		}
		if now.After(deadline) {
			rec.Fatal("the node did not come to rest within 20 s (%s)", w)
		}
		time.Sleep(2 * time.Millisecond)
	}
}

// emit writes a stimulus event, lets the node come to rest and writes the projection.
func (d *drv) emit(m rec.M, shape string, nontrivial bool) {
	d.rc.Emit(m, shape, nontrivial)
	d.obs()
}

func (d *drv) obs() {
	d.settle()
	p := d.project()
	// what the step did, for the reach statistics of the evidence (never read by the trace specification)
	t := d.t
	shape := "rest"
	cur, lfb := p["cur"].(int), p["lfb"].(string)
	tocs, restarted, seeded, notarized := 0, false, false, false
	for _, r := range p["rounds"].([]rec.M) {
		tocs += r["toc"].(int)
		q := r["r"].(int)
		if len(r["seed"].([]int)) > 0 && !t.seenSeed[fmt.Sprint(q, r["seed"])] {
			t.seenSeed[fmt.Sprint(q, r["seed"])] = true
			seeded = true
		}
		if n := len(r["nb"].([]string)); n > t.seenNb[q] {
			notarized = true
			if n > 1 {
				shape = "second-notarized-block"
			}
		}
		t.seenNb[q] = len(r["nb"].([]string))
	}
	restarted = tocs > t.lastTocs
	switch {
	case lfb != t.lastLfb && t.lastLfb != "":
		shape = "finalized"
	case cur > t.lastCur && t.lastCur > 0:
		shape = "next-round"
	case restarted:
		shape = "restarted"
	case notarized && shape == "rest":
		shape = "notarized"
	case seeded:
		shape = "seed"
	}
	t.lastCur, t.lastLfb, t.lastTocs = cur, lfb, tocs
	d.rc.Emit(p, shape, false)
	if d.debug {
		dbg("obs: %v", p)
	}
}
