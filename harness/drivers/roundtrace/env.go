package roundtrace

import (
	"context"
	"encoding/json"
	"fmt"
	"strconv"
	"time"

	"0chain.net/chaincore/block"
	"0chain.net/chaincore/chain"
	"0chain.net/chaincore/node"
	"0chain.net/chaincore/round"
	tbls "0chain.net/chaincore/threshold/bls"
	"0chain.net/chaincore/transaction"
	"0chain.net/core/common"
	"0chain.net/core/datastore"
	"0chain.net/core/encryption"
	"0chain.net/core/memorystore"
	"0chain.net/miner"

	"github.com/herumi/bls-go-binary/bls"

	"verif/harness/rec"
	"verif/harness/world"
)

type tblsSign = tbls.Sign

func tblsID(id string) tbls.PartyID { return tbls.ComputeIDdkg(id) }

// pending is a message the node has accepted into its message channel and that its message worker has not
// dispatched yet (the harness is that worker).
type pending struct {
	msg  *miner.BlockMessage
	desc rec.M
}

// senderCtx: the context the n2n receive layer gives a handler: the authenticated sender (transport-level
// signature check assumed to have passed) on top of the node's store connection.
func (d *drv) senderCtx(from int) context.Context {
	ctx := node.WithSenderValidateFunc(d.t.ctx, func() error { return nil })
	return node.WithNode(ctx, d.mw.MinerNodes[from])
}

// popMessage waits shortly for the message a receipt handler has pushed (the push is a goroutine of the node).
func (d *drv) popMessage(wait time.Duration) *miner.BlockMessage {
	deadline := time.Now().Add(wait)
	for {
		if m := d.mc.VerifRTPopBlockMessage(); m != nil {
			return m
		}
		if time.Now().After(deadline) {
			return nil
		}
		time.Sleep(200 * time.Microsecond)
	}
}

// recv: one message arrives at the node's receipt handler; if the handler lets it through, the message is
// taken out of the node's message channel and kept as pending until the harness dispatches it.
func (d *drv) recv(desc rec.M, call func() error) bool {
	err := call()
	m := d.popMessage(60 * time.Millisecond)
	desc["ev"] = "Recv"
	desc["queued"] = m != nil
	desc["err"] = err != nil
	if m != nil {
		d.t.pend = append(d.t.pend, &pending{msg: m, desc: desc})
	}
	ev := rec.M{}
	for k, v := range desc {
		ev[k] = v
	}
	d.rc.Emit(ev, fmt.Sprintf("%v/%v", desc["kind"], m != nil), false)
	return m != nil
}

// dispatch: the message worker hands pending message i to its handler; block proposals and notarizations go
// through one more queue of the node (block-verify workers / notarization worker), played here as well.
func (d *drv) dispatch(i int) {
	t, mc := d.t, d.mc
	p := t.pend[i]
	t.pend = append(t.pend[:i], t.pend[i+1:]...)
	ev := rec.M{}
	for k, v := range p.desc {
		ev[k] = v
	}
	ev["ev"] = "Handle"
	delete(ev, "queued")
	delete(ev, "err")
	ctx := t.ctx
	switch p.msg.Type {
	case miner.MessageVRFShare:
		mc.HandleVRFShare(ctx, p.msg)
	case miner.MessageVerificationTicket:
		mc.HandleVerificationTicketMessage(ctx, p.msg)
	case miner.MessageVerify:
		mc.HandleVerifyBlockMessage(ctx, p.msg)
		deadline := time.Now().Add(time.Second)
		var b *block.Block
		for b == nil && time.Now().Before(deadline) {
			b = mc.VerifRTPopVerifyBlock()
		}
		if b == nil {
			rec.Fatal("verify-block queue empty after HandleVerifyBlockMessage")
		}
		// processVerifyBlock starts a goroutine that links the proposal to the local previous block
		// (updatePreviousBlockNotarization -> GetPreviousBlock) and goes on without waiting for it. For a proposal
		// of a later round the harness makes the order of the two deterministic: it keeps that round's mutex
		// for a moment (as another goroutine of the node could), so that the handler waits at its first look at
		// the round (AddToRoundVerification -> IsFinalizing) while the goroutine has linked the previous block.
		if mr := mc.GetMinerRound(b.Round); mr != nil && b.Round > mc.GetCurrentRound() {
			release := mr.Round.VerifRTHoldMutex()
			go func() {
				time.Sleep(25 * time.Millisecond)
				release()
			}()
		}
		cctx, cancel := context.WithTimeout(ctx, 10*time.Second)
		err := mc.VerifProcessVerifyBlock(cctx, b)
		cancel()
		ev["werr"] = err != nil
	case miner.MessageNotarization:
		mc.HandleNotarizationMessage(ctx, p.msg)
		deadline := time.Now().Add(time.Second)
		var n *miner.Notarization
		for n == nil && time.Now().Before(deadline) {
			n = mc.VerifRTPopNotarization()
		}
		ev["werr"] = false
		if n != nil {
			// a block the node does not have is fetched from the other miners with retries for as long as the
			// worker's context lasts (30 s in the node); nobody answers here, so a short context gives the same
			// outcome sooner
			wait := 10 * time.Second
			if b, _ := mc.GetBlock(ctx, n.BlockID); b == nil {
				wait = 700 * time.Millisecond
			}
			cctx, cancel := context.WithTimeout(ctx, wait)
			err := mc.VerifNotarizationProcess(cctx, n)
			cancel()
			ev["werr"] = err != nil
		}
		ev["wqueued"] = n != nil
	default:
		rec.Fatal("unexpected message type %d", p.msg.Type)
	}
	if _, ok := ev["werr"]; !ok {
		ev["werr"] = false
	}
	if _, ok := ev["wqueued"]; !ok {
		ev["wqueued"] = true
	}
	shape := fmt.Sprintf("%v", p.desc["kind"])
	if bu, ok := p.desc["bu"].([]rec.M); ok && len(bu) > 0 {
		switch bu[0]["variant"].(int) {
		case 7:
			shape += "/next-round-forged-prev-tickets"
		case 8:
			shape += "/next-round-node-lags"
		case 9:
			shape += "/bad-signature"
		case 0:
		default:
			shape += "/generator-proposes-again"
		}
	}
	if p.desc["dup"] == true {
		shape += "/again"
	}
	if p.desc["valid"] == false {
		shape += "/invalid"
	}
	d.emit(ev, shape, true)
}

// ---------------------------------------------------------------- messages of the simulated miners

// descBase: every Recv / Handle event carries the same fields.
func descBase(kind string) rec.M {
	return rec.M{"kind": kind, "from": "", "r": 0, "toc": 0, "b": "", "valid": true, "tks": []string{}, "bad": []string{}, "dup": false,
		"prevseed": []int{}, "bu": []rec.M{}}
}

// sendShare: VRF share of miner `from` (0-based) for relative round r and timeout count toc, computed from the
// previous seed prev; kind "ok" | "bad" (altered signature).
func (d *drv) sendShare(from, r, toc int, prev int64, kind string, dup bool) {
	t := d.t
	rn := t.base + int64(r)
	msg := fmt.Sprintf("%v%v%v", rn, toc, strconv.FormatInt(prev, 16))
	sg := d.dkg.dkgs[from].Sign(msg)
	share := sg.GetHexString()
	if kind == "bad" {
		var out, off bls.G1
		must(off.HashAndMapTo([]byte(fmt.Sprintf("bad share %d %d %d", t.id, r, from))))
		bls.G1Add(&out, bls.CastFromSign(sg), &off)
		share = bls.CastToSign(&out).GetHexString()
	}
	desc := descBase("vrf")
	desc["from"], desc["r"], desc["toc"], desc["valid"], desc["dup"] = fmt.Sprintf("m%d", from+1), r, toc, kind == "ok", dup
	desc["prevseed"] = t.seedName(prev)
	call := func() error {
		vrfs := &round.VRFShare{Round: rn, Share: share, RoundTimeoutCount: toc}
		_, err := miner.VRFShareHandler(d.senderCtx(from), vrfs)
		return err
	}
	d.recv(desc, call)
}

// makeBlock: a block for relative round r generated by miner gen (0-based) with the REAL generateBlock under
// the generator's identity, carrying `seed`, on top of prev; variant > 0 puts a distinguishing transaction in.
// Variants 7 (forged previous-block tickets attached), 8 (genuine ones, for a block the node has not seen
// notarized) and 9 (invalid generator signature) are the byzantine / lagging cases.
func (d *drv) makeBlock(gen, r int, seed int64, prev *blk, variant int) *blk {
	t, mw, mc := d.t, d.mw, d.mc
	rn := t.base + int64(r)
	b := block.NewBlock(mc.GetKey(), rn)
	lfmbr := mc.GetLatestFinalizedMagicBlockRound(rn)
	b.LatestFinalizedMagicBlockHash = lfmbr.Hash
	b.LatestFinalizedMagicBlockRound = lfmbr.Round
	b.MinerID = mw.Miners[gen].ID
	b.SetRoundRandomSeed(seed)
	if variant == 7 {
		for j := 1; j < nMiners; j++ {
			b.PrevBlockVerificationTickets = append(b.PrevBlockVerificationTickets, d.ticket(j, prev, false))
		}
	}
	b.SetPreviousBlock(prev.src)
	b.Round = rn
	emd := datastore.GetEntityMetadata("txn")
	mw.Redis.FlushAll()
	// every variant carries its own transaction: two blocks of one generator for the same round, seed and previous
	// block never have the same hash (the hash covers the creation second, not the attached tickets / signature)
	if variant > 0 {
		c := mw.Clients[(variant-1)%len(mw.Clients)]
		nonce := int64(0)
		if s, err := chain.GetStateById(prev.src.ClientState, c.ID); err == nil && s != nil {
			nonce = s.Nonce
		}
		txn := mw.MakeTxn(world.TxnSpec{From: c, To: mw.Clients[(variant)%len(mw.Clients)].ID, Type: transaction.TxnTypeSend,
			Value: uint64(100 + variant), Fee: 3e8, Nonce: nonce + 1, Time: common.Now()})
		pctx := memorystore.WithEntityConnection(common.GetRootContext(), emd)
		if _, err := transaction.PutTransaction(pctx, txn); err != nil {
			rec.Fatal("put transaction: %v", err)
		}
		memorystore.Close(pctx)
	}
	d.setSelf(gen)
	cctx := memorystore.WithEntityConnection(common.GetRootContext(), emd)
	err := mc.GenerateBlock(cctx, b, true, make(chan struct{}, 1))
	memorystore.Close(cctx)
	d.setSelf(0)
	mw.Redis.FlushAll()
	if err != nil {
		rec.Fatal("block generation for m%d round %d: %v", gen+1, r, err)
	}
	if variant == 9 {
		b.Signature = mw.Miners[gen].Sign(encryption.Hash("not this block " + b.Hash))
	}
	if x, ok := t.byHash[b.Hash]; ok {
		return x // the very same block again (same generator, second, content)
	}
	x := d.newBlockName(t, b, r, gen, t.seedName(seed), prev.name, variant, b)
	x.pforged, x.badsig = variant == 7, variant == 9
	return x
}

// wire: the block as it arrives over the network.
func (d *drv) wire(x *blk) *block.Block {
	enc, err := json.Marshal(x.src)
	must(err)
	w := block.NewBlock(d.mc.GetKey(), x.src.Round)
	must(w.Decode(enc))
	must(w.ComputeProperties())
	w.VerificationTickets = nil
	return w
}

// sendBlock: the proposal reaches the node's verify-block receipt handler from its generator.
func (d *drv) sendBlock(x *blk, dup bool) {
	desc := descBase("pb")
	desc["from"], desc["r"], desc["b"], desc["dup"] = fmt.Sprintf("m%d", x.gen+1), x.r, x.name, dup
	desc["bu"] = []rec.M{d.attrs(x)}
	w := d.wire(x)
	x.sent = true
	d.recv(desc, func() error {
		_, err := miner.VerifyBlockHandler(d.senderCtx(x.gen), w)
		return err
	})
}

func (d *drv) ticket(from int, x *blk, valid bool) *block.VerificationTicket {
	k := d.mw.Miners[from]
	h := x.hash
	if !valid {
		h = encryption.Hash("some other block " + x.hash)
	}
	return &block.VerificationTicket{VerifierID: k.ID, Signature: k.Sign(h)}
}

// sendTicket: verification ticket of miner `from` for block x.
func (d *drv) sendTicket(from int, x *blk, valid, dup bool) {
	desc := descBase("tk")
	desc["from"], desc["r"], desc["b"], desc["valid"], desc["dup"] = fmt.Sprintf("m%d", from+1), x.r, x.name, valid, dup
	bvt := &block.BlockVerificationTicket{VerificationTicket: *d.ticket(from, x, valid), Round: d.t.base + int64(x.r), BlockID: x.hash}
	d.recv(desc, func() error {
		_, err := miner.VerificationTicketReceiptHandler(d.senderCtx(from), bvt)
		return err
	})
}

// sendNotarization: a notarization message for block x with tickets of the given miners (invalid ones listed in bad).
func (d *drv) sendNotarization(from int, x *blk, signers []int, bad map[int]bool, dup bool) {
	desc := descBase("nz")
	names := []string{}
	var vts []*block.VerificationTicket
	allValid := true
	badNames := []string{}
	for _, s := range signers {
		names = append(names, fmt.Sprintf("m%d", s+1))
		vts = append(vts, d.ticket(s, x, !bad[s]))
		if bad[s] {
			allValid = false
			badNames = append(badNames, fmt.Sprintf("m%d", s+1))
		}
	}
	desc["from"], desc["r"], desc["b"], desc["valid"], desc["dup"], desc["tks"] = fmt.Sprintf("m%d", from+1), x.r, x.name, allValid, dup, names
	desc["bad"] = badNames
	not := &miner.Notarization{VerificationTickets: vts, BlockID: x.hash, Round: d.t.base + int64(x.r)}
	d.recv(desc, func() error {
		_, err := miner.NotarizationReceiptHandler(d.senderCtx(from), not)
		return err
	})
}

// timeout: the round worker's timer fires for relative round r.
func (d *drv) timeout(r int) {
	ctx, cancel := context.WithTimeout(d.t.ctx, 20*time.Second)
	d.mc.HandleRoundTimeout(ctx, d.t.base+int64(r))
	cancel()
	d.emit(rec.M{"ev": "Timeout", "r": r}, "timeout", true)
}

// lfbTicket: the sharders announce a latest finalized block of relative round r.
func (d *drv) lfbTicket(r int) {
	d.mc.AddReceivedLFBTicket(d.t.ctx, &chain.LFBTicket{Round: d.t.base + int64(r)})
	d.emit(rec.M{"ev": "LFBTicket", "r": r}, "lfbticket", true)
}
