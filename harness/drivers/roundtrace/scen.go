package roundtrace

import (
	"math/rand"
	"os"

	"verif/harness/rec"

	"0chain.net/chaincore/block"
	"0chain.net/chaincore/round"
	"0chain.net/miner"
)

// choice is one weighted alternative of the environment.
type choice struct {
	w  int
	do func()
}

func pick(r *rand.Rand, cs []choice) func() {
	tot := 0
	for _, c := range cs {
		tot += c.w
	}
	if tot == 0 {
		return nil
	}
	n := r.Intn(tot)
	if os.Getenv("VERIF_DEBUG") != "" {
		dbg("pick %d of %d", n, tot)
	}
	for _, c := range cs {
		if n < c.w {
			return c.do
		}
		n -= c.w
	}
	return nil
}

// envNotarize: the simulated miners hold tickets of all three of them for x (their own view of the block).
func (d *drv) envNotarize(x *blk) {
	for j := 1; j < nMiners; j++ {
		x.src.AddVerificationTicket(d.ticket(j, x, true))
	}
}

func (d *drv) nodeRound(r int) *miner.Round { return d.mc.GetMinerRound(d.t.base + int64(r)) }

// prevSeed: the seed of relative round r-1 as the node has it (0 if unknown).
func (d *drv) prevSeed(r int) int64 {
	if pr := d.nodeRound(r - 1); pr != nil {
		return pr.GetRandomSeed()
	}
	return 0
}

// truthSeed: the seed honest miners compute for (r, toc) on the node's previous seed.
func (d *drv) truthSeed(r, toc int) int64 {
	p := d.prevSeed(r)
	if p == 0 {
		return 0
	}
	return d.refSeedAt(r, toc, p)
}

// runTrace: one seeded random history of the environment around the node.
func (d *drv) runTrace(id int, r *rand.Rand) {
	if extra(d.a.Extra, "probe") == "forged" {
		d.probeForged(id, r)
		return
	}
	forged := extra(d.a.Extra, "noforged") == ""
	t := d.startTrace(id, r)
	mc := d.mc
	mode := r.Intn(10) // 0-5 mostly cooperative, 6-7 lossy (timeouts), 8-9 adversarial
	steps := d.a.Steps
	if d.need["progress"] > 0 {
		mode, steps = r.Intn(3), steps+steps/2
	}
	prob := func(p int) bool { return r.Intn(100) < p }
	after := func() {
		// the message worker usually dispatches at once; sometimes a message waits (reordering / lateness)
		for len(t.pend) > 0 && prob(88) {
			d.dispatch(len(t.pend) - 1)
		}
	}
	for step := 0; step < steps; step++ {
		cur := d.rel(mc.GetCurrentRound())
		mr := d.nodeRound(cur)
		if mr == nil {
			break
		}
		if cur > 9 {
			break
		}
		toc := mr.GetTimeoutCount()
		var cs []choice
		add := func(w int, f func()) {
			if w > 0 {
				cs = append(cs, choice{w, f})
			}
		}
		// a kind of situation every run should contain: much more likely until the run has had it
		addK := func(kind string, w int, f func()) {
			if d.need[kind] > 0 {
				w *= 12
			}
			add(w, func() {
				if d.need[kind] > 0 {
					d.need[kind]--
				}
				f()
			})
		}
		if len(t.pend) > 0 {
			add(30, func() { d.dispatch(r.Intn(len(t.pend))) })
		}
		if len(t.hist) > 0 {
			add(4+mode/3, func() { t.hist[r.Intn(len(t.hist))]() })
		}
		// the other block of a generator that proposed twice gets notarized as well (late: the node has left the round)
		if pr := d.nodeRound(cur - 1); pr != nil && cur > 1 {
			nbGen := map[int]bool{}
			inNb := map[string]bool{}
			for _, nb := range pr.GetNotarizedBlocks() {
				if x, ok := t.byHash[nb.Hash]; ok {
					nbGen[x.gen] = true
					inNb[x.name] = true
				}
			}
			for _, pb := range pr.GetProposedBlocks() {
				if x, ok := t.byHash[pb.Hash]; ok && !inNb[x.name] && nbGen[x.gen] {
					add(8+mode, func() { d.sendNotarization(1+r.Intn(nMiners-1), x, []int{1, 2, 3}, nil, false) })
				}
			}
		}
		shares := mr.GetVRFShares()
		ps := d.prevSeed(cur)
		blocked := mr.GetPhase() == round.Complete
		lossy := 0
		if mode >= 6 && mode <= 7 {
			lossy = 25
		}
		switch {
		case blocked:
			lfb := mc.GetLatestFinalizedBlock()
			add(50, func() { d.lfbTicket(d.rel(lfb.Round)) })
			add(20, func() { d.lfbTicket(cur - 1) })
			add(15, func() { d.timeout(cur) })
		case !mr.HasRandomSeed():
			var missing, have []int
			for j := 1; j < nMiners; j++ {
				if _, ok := shares[d.mw.Miners[j].ID]; ok {
					have = append(have, j)
				} else {
					missing = append(missing, j)
				}
			}
			if len(missing) > 0 && ps != 0 {
				j := missing[r.Intn(len(missing))]
				add(60, func() {
					f := func() { d.sendShare(j, cur, toc, ps, "ok", false) }
					f()
					t.hist = append(t.hist, func() { d.sendShare(j, cur, toc, ps, "ok", true) })
				})
				addK("badshare", 5, func() { d.sendShare(j, cur, toc, ps, "bad", false) })
				add(4, func() { d.sendShare(j, cur, toc+1, ps, "ok", false) })
				if toc > 0 {
					add(4, func() { d.sendShare(j, cur, toc-1, ps, "ok", false) })
				}
				add(3, func() { d.sendShare(j, cur, toc, ps+1, "ok", false) }) // a share made on another previous seed
			}
			if len(have) > 0 && ps != 0 {
				j := have[r.Intn(len(have))]
				add(4, func() { d.sendShare(j, cur, toc, ps, "ok", true) })
			}
			if ps != 0 {
				// a share for the next round (the sender is ahead)
				j := 1 + r.Intn(nMiners-1)
				if s := d.truthSeed(cur, toc); s != 0 {
					add(4, func() { d.sendShare(j, cur+1, 0, s, "ok", false) })
				}
				// a proposal arriving before the node has completed its VRF
				if s := d.truthSeed(cur, toc); s != 0 {
					add(5, func() { d.propose(cur, s, 0, false) })
				}
			}
			w := 5 + lossy + mode/2
			if d.need["restart"] > 0 && cur >= 2 {
				w = 150 // the shares of this round do not arrive: timeouts until the round restarts
			}
			add(w, func() {
				before := mr.GetTimeoutCount()
				d.timeout(cur)
				if x := d.nodeRound(cur); x != nil && x.GetTimeoutCount() > before && d.need["restart"] > 0 {
					d.need["restart"]--
				}
			})
		default:
			seed := mr.GetRandomSeed()
			ranks := d.ranksOf(seed)
			var proposed []*blk
			for _, pb := range mr.GetProposedBlocks() {
				if x, ok := t.byHash[pb.Hash]; ok {
					proposed = append(proposed, x)
				} else {
					d.blockName(pb)
					proposed = append(proposed, t.byHash[pb.Hash])
				}
			}
			pbGen := map[int]bool{}
			for _, x := range proposed {
				pbGen[x.gen] = true
			}
			for j := 1; j < nMiners; j++ {
				j := j
				if ranks[j] < 2 && !pbGen[j] {
					add(45, func() { d.proposeBy(j, cur, seed, 0) })
				}
				if ranks[j] < 2 && pbGen[j] {
					add(5+mode/2, func() { d.proposeBy(j, cur, seed, 1+r.Intn(3)) }) // the generator proposes again
				}
				if ranks[j] >= 2 {
					add(2+mode/4, func() { d.proposeBy(j, cur, seed, 0) }) // not a generator of the round
				}
			}
			if s2 := d.truthSeed(cur, toc+1); s2 != 0 {
				add(3, func() { d.propose(cur, s2, 0, false) }) // a proposal made after one more timeout
			}
			if len(proposed) > 0 {
				// the block the simulated miners vote for: the best ranked proposal, sometimes another one
				best := proposed[0]
				for _, x := range proposed {
					if ranks[x.gen] < ranks[best.gen] {
						best = x
					}
				}
				other := proposed[r.Intn(len(proposed))]
				nodeBlock := func(x *blk) *block.Block { b, _ := mc.GetBlock(t.ctx, x.hash); return b }
				voters := func(x *blk) (missing []int) {
					b := nodeBlock(x)
					for j := 1; j < nMiners; j++ {
						got := false
						if b != nil {
							for _, vt := range b.GetVerificationTickets() {
								if vt.VerifierID == d.mw.Miners[j].ID {
									got = true
								}
							}
						}
						if !got {
							missing = append(missing, j)
						}
					}
					return
				}
				if ms := voters(best); len(ms) > 0 {
					j := ms[r.Intn(len(ms))]
					add(60, func() {
						d.sendTicket(j, best, true, false)
						t.hist = append(t.hist, func() { d.sendTicket(j, best, true, true) })
					})
					add(4, func() { d.sendTicket(j, best, false, false) })
				}
				if ms := voters(other); len(ms) > 0 && other != best {
					j := ms[r.Intn(len(ms))]
					add(8+mode, func() { d.sendTicket(j, other, true, false) })
				}
				add(3, func() { d.sendTicket(1+r.Intn(nMiners-1), best, true, true) })
				addK("nz", 6, func() { d.sendNotarization(1+r.Intn(nMiners-1), best, []int{1, 2, 3}, nil, false) })
				add(2, func() { d.sendNotarization(1+r.Intn(nMiners-1), other, []int{1, 2, 3}, nil, false) })
				add(2, func() { d.sendNotarization(1+r.Intn(nMiners-1), best, []int{1, 2}, nil, false) })
				add(2, func() { d.sendNotarization(1+r.Intn(nMiners-1), best, []int{1, 2, 3}, map[int]bool{2: true}, false) })
				// the next round's generator is already proposing on top of a block of this round
				addK("lag", 3+mode/2, func() { d.proposeNext(other, false) })
				if forged {
					addK("forged", 3+mode/2, func() { d.proposeNext(other, true) })
				}
			}
			for j := 1; j < nMiners; j++ {
				j := j
				if ranks[j] < 2 {
					add(1+mode/4, func() { d.proposeBy(j, cur, seed, 9) }) // a proposal whose signature does not verify
				}
			}
			// a ticket for a block the node has not got (yet)
			if len(proposed) == 0 {
				for j := 1; j < nMiners; j++ {
					j := j
					if ranks[j] < 2 {
						add(4, func() {
							x := d.blockBy(j, cur, seed, 0)
							if x != nil {
								d.sendTicket(1+r.Intn(nMiners-1), x, true, false)
							}
						})
					}
				}
			}
			add(4+lossy+mode/2, func() { d.timeout(cur) })
		}
		if d.debug {
			ws := []int{}
			for _, c := range cs {
				ws = append(ws, c.w)
			}
			dbg("step %d cur %d weights %v need %v", step, cur, ws, d.need)
		}
		f := pick(r, cs)
		if f == nil {
			break
		}
		f()
		after()
	}
	for len(t.pend) > 0 {
		d.dispatch(0)
	}
	d.endTrace()
}

// blockBy: the block of generator gen for (round, seed, variant), made once.
func (d *drv) blockBy(gen, r int, seed int64, variant int) *blk {
	t := d.t
	for _, n := range t.order {
		x := t.blocks[n]
		if x.gen == gen && x.r == r && pathKey(x.seed) == pathKey(t.seedName(seed)) && x.variant == variant && x.name != "g" {
			return x
		}
	}
	// the block extends the best notarized block of the previous round that the node has
	pr := d.nodeRound(r - 1)
	if pr == nil {
		return nil
	}
	hnb := pr.GetHeaviestNotarizedBlock()
	if hnb == nil {
		return nil
	}
	d.blockName(hnb)
	prev := t.byHash[hnb.Hash]
	if prev == nil || prev.src == nil || !prev.src.IsStateComputed() {
		return nil
	}
	d.envNotarize(prev)
	return d.makeBlock(gen, r, seed, prev, variant)
}

func (d *drv) proposeBy(gen, r int, seed int64, variant int) {
	x := d.blockBy(gen, r, seed, variant)
	if x == nil {
		return
	}
	t := d.t
	d.sendBlock(x, false)
	t.hist = append(t.hist, func() { d.sendBlock(x, true) })
}

// seedValue: the value of a seed path known to the harness (0 if unknown).
func (t *trace) seedValue(p []int) int64 {
	for v, q := range t.seeds {
		if pathKey(q) == pathKey(p) {
			return v
		}
	}
	return 0
}

// proposeNext: a generator of the NEXT round proposes on top of x, a block of the node's current round that the
// node has not seen notarized: with the simulated miners' genuine tickets for x attached (the node lags behind:
// variant 8) or with forged ones (variant 7).
func (d *drv) proposeNext(x *blk, forged bool) {
	t := d.t
	sv := t.seedValue(x.seed)
	if sv == 0 || x.src == nil || !x.src.IsStateComputed() {
		return
	}
	next := d.refSeedAt(x.r+1, 0, sv)
	ranks := d.ranksOf(next)
	gen := -1
	for j := 1; j < nMiners; j++ {
		if ranks[j] < 2 && (gen < 0 || ranks[j] < ranks[gen]) {
			gen = j
		}
	}
	if gen < 0 {
		return
	}
	variant := 8
	if forged {
		variant = 7
	}
	for _, n := range t.order {
		y := t.blocks[n]
		if y.prev == x.name && y.variant == variant {
			d.sendBlock(y, true)
			return
		}
	}
	if !forged {
		d.envNotarize(x)
	}
	y := d.makeBlock(gen, x.r+1, next, x, variant)
	// the generator is in the next round already: so are its VRF shares (the node creates the round for them)
	if d.nodeRound(x.r+1) == nil {
		d.sendShare(gen, x.r+1, 0, sv, "ok", false)
		for len(t.pend) > 0 {
			d.dispatch(len(t.pend) - 1)
		}
	}
	d.sendBlock(y, false)
	t.hist = append(t.hist, func() { d.sendBlock(y, true) })
}

// propose: a proposal of the best ranked simulated generator for (round, seed).
func (d *drv) propose(r int, seed int64, variant int, dup bool) {
	ranks := d.ranksOf(seed)
	best := -1
	for j := 1; j < nMiners; j++ {
		if ranks[j] < 2 && (best < 0 || ranks[j] < ranks[best]) {
			best = j
		}
	}
	if best < 0 {
		return
	}
	d.proposeBy(best, r, seed, variant)
}

// probeForged (--extra probe=forged): the shortest history that shows what forged previous-block tickets attached
// to a next-round proposal do to the node: round 1 gets its seed, the best ranked simulated generator proposes X,
// the node verifies X and signs it (1 ticket of 3), the next round's generator sends Y on top of X with three
// forged tickets for X attached; then a notarization message for X that carries only forged tickets.
func (d *drv) probeForged(id int, r *rand.Rand) {
	t := d.startTrace(id, r)
	all := func() {
		for len(t.pend) > 0 {
			d.dispatch(0)
		}
	}
	ps := d.prevSeed(1)
	for _, j := range []int{1, 2} {
		d.sendShare(j, 1, 0, ps, "ok", false)
		all()
	}
	mr := d.nodeRound(1)
	if mr == nil || !mr.HasRandomSeed() {
		rec.Fatal("probe: round 1 has no seed")
	}
	seed := mr.GetRandomSeed()
	ranks := d.ranksOf(seed)
	var x *blk
	if ranks[0] < 2 {
		// the node is a generator itself: its own proposal is X
		for _, pb := range mr.GetProposedBlocks() {
			d.blockName(pb)
			x = t.byHash[pb.Hash]
		}
	}
	if x == nil {
		d.propose(1, seed, 0, false)
		all()
		for _, pb := range mr.GetProposedBlocks() {
			x = t.byHash[pb.Hash]
		}
	}
	if x == nil {
		rec.Fatal("probe: no proposal in round 1")
	}
	d.proposeNext(x, true)
	all()
	d.sendNotarization(2, x, []int{1, 2, 3}, map[int]bool{1: true, 2: true, 3: true}, false)
	all()
	d.endTrace()
}
