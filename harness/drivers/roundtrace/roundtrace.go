// Package roundtrace (growth family): the miner's ROUND PROTOCOL as one composed machine, executed on a REAL
// miner chain (harness/minerworld).  The node under test is miner m1 of a 4-miner magic block; the other miners
// are simulated: their VRF shares, block proposals, verification tickets and notarizations are built from the
// deterministic key ring / a real DKG and delivered to the real handlers of the node.
package roundtrace

import (
	"math/rand"
	"strings"

	"0chain.net/chaincore/block"
	"0chain.net/chaincore/round"
	tbls "0chain.net/chaincore/threshold/bls"
	"0chain.net/core/memorystore"

	"github.com/herumi/bls-go-binary/bls"

	vc "verif/harness/common"
	"verif/harness/minerworld"
	"verif/harness/rec"
	"verif/harness/world"
)

func init() { vc.Register("roundtrace", Run) }

const nMiners = 4

type realDKG struct {
	t, n int
	dkgs []*tbls.DKG
}

type drv struct {
	mw  *minerworld.MinerWorld
	rc  *rec.Recorder
	dkg *realDKG
	a   vc.Args
}

func must(err error) {
	if err != nil {
		rec.Fatal("roundtrace: %v", err)
	}
}

func extra(s, key string) string {
	for _, kv := range strings.Split(s, ",") {
		if kv == key {
			return "1"
		}
		if strings.HasPrefix(kv, key+"=") {
			return kv[len(key)+1:]
		}
	}
	return ""
}

// makeDKG: a real DKG among the n miners of the magic block (one bls.DKG object per miner) built with the
// library's SetDKG from deterministic polynomials (same construction as harness/drivers/crypto/vrf.go).
func makeDKG(w *world.World, t, n int) *realDKG {
	r := rand.New(rand.NewSource(20240917))
	detSec := func() bls.SecretKey {
		var b [32]byte
		r.Read(b[:])
		b[31] &= 0x0f
		var sk bls.SecretKey
		must(sk.SetLittleEndian(b[:]))
		return sk
	}
	msk := make([][]bls.SecretKey, n)
	mskHex := make([][]string, n)
	mpks := map[tbls.PartyID][]tbls.PublicKey{}
	pid := make([]tbls.PartyID, n)
	for i := 0; i < n; i++ {
		pid[i] = tbls.ComputeIDdkg(w.Miners[i].ID)
		for k := 0; k < t; k++ {
			msk[i] = append(msk[i], detSec())
			mskHex[i] = append(mskHex[i], msk[i][k].GetHexString())
		}
		mpks[pid[i]] = bls.GetMasterPublicKey(msk[i])
	}
	x := &realDKG{t: t, n: n}
	for j := 0; j < n; j++ {
		shares := map[string]string{}
		for i := 0; i < n; i++ {
			var s bls.SecretKey
			must(s.Set(msk[i], &pid[j]))
			shares[w.Miners[i].ID] = s.GetHexString()
		}
		x.dkgs = append(x.dkgs, tbls.SetDKG(t, n, shares, mskHex[j], mpks, w.Miners[j].ID))
	}
	return x
}

func Run(a vc.Args) {
	mw := minerworld.New(world.Options{Clients: 3, Miners: nMiners, Sharders: 1,
		Overrides: map[string]interface{}{
			"server_chain.block.min_block_size":                1,
			"server_chain.block.generation.timeout":            15,
			"server_chain.block.proposal.max_wait_time":        "1ms",
			"server_chain.block.sharding.min_active_sharders":  0,
			"server_chain.block.sharding.min_active_replicators": 0,
		}})
	defer mw.Close()
	rc := rec.New(a.Out)
	defer rc.Close()
	d := &drv{mw: mw, rc: rc, a: a}
	d.dkg = makeDKG(mw.World, mw.MagicBlock.T, nMiners)
	must(mw.MC.SetDKG(d.dkg.dkgs[0], 0))
	mw.Genesis.SetBlockNotarized()
	round.SetupVRFShareEntity(memorystore.GetStorageProvider())
	block.SetupBVTEntity()
	if extra(a.Extra, "explore") != "" {
		d.explore()
		return
	}
}
