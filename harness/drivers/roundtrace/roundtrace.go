// Package roundtrace (growth family): the miner's ROUND PROTOCOL as one composed machine, executed on a REAL
// miner chain (harness/minerworld).  The node under test is miner m1 of a 4-miner magic block (VRF threshold
// 3 of a real DKG, notarization threshold 3, two generators per round); the other miners are simulated: their
// VRF shares, block proposals (generated with the real generateBlock under their identity and sent over the
// wire), verification tickets and notarizations are built from the deterministic key ring / the real DKG and
// handed to the node's REAL receipt handlers (miner/m_handler.go).  The harness plays the part of the node's
// message / block-verify / notarization workers one step at a time (non-blocking reads of the node's own
// queues, then the real Handle* / processVerifyBlock / notarizationProcess), the clock (HandleRoundTimeout)
// and the sharders (LFB tickets); the real LFB-ticket, restart-event and finalization workers run as they do in
// a node.  After every stimulus the harness waits for the node's goroutines to come to rest and records the
// projection of the node's state (spec/Trace_RoundTrace.tla recomputes it from the model).
package roundtrace

import (
	"context"
	"fmt"
	"math/rand"
	"os"
	"strings"
	"time"

	"0chain.net/chaincore/block"
	"0chain.net/chaincore/chain"
	"0chain.net/chaincore/node"
	"0chain.net/chaincore/round"
	tbls "0chain.net/chaincore/threshold/bls"
	"0chain.net/core/memorystore"
	"0chain.net/core/viper"
	"0chain.net/miner"

	"github.com/herumi/bls-go-binary/bls"

	vc "verif/harness/common"
	"verif/harness/minerworld"
	"verif/harness/rec"
	"verif/harness/world"
)

func init() { vc.Register("roundtrace", Run) }

const (
	nMiners     = 4
	baseStep    = 64 // every trace runs in its own window of rounds: base = baseStep * trace id
	restartMult = 2  // soft timeouts before a round restart (server_chain.round_timeouts.round_restart_mult)
	tocCap      = 3  // server_chain.round_timeouts.timeout_cap
	ahead       = 5  // server_chain.lfb_ticket.ahead
	// server_chain.block.proposal.max_wait_time: how long the verification collector accumulates proposals before
	// it starts verifying. Long enough for the node's own proposal (a few ms) to be among the accumulated ones,
	// so that the order "own block, then timer" does not depend on scheduling; the harness lets the timer fire
	// before it sends anything else (collectSettle).
	collectWait   = "120ms"
	collectSettle = 170 * time.Millisecond
)

type realDKG struct {
	t, n int
	dkgs []*tbls.DKG
}

type drv struct {
	mw    *minerworld.MinerWorld
	mc    *miner.Chain
	rc    *rec.Recorder
	dkg   *realDKG
	a     vc.Args
	debug bool
	bg    context.Context
	t     *trace
	need  map[string]int // situations the run still owes (see scen.go addK)
}

func must(err error) {
	if err != nil {
		rec.Fatal("roundtrace: %v", err)
	}
}

func dbg(format string, a ...interface{}) {
	fmt.Fprintf(os.Stderr, "DBG "+format+"\n", a...)
}

func extra(s, key string) string {
	for _, kv := range strings.Split(s, ",") {
		if kv == key {
			return "1"
		}
		if strings.HasPrefix(kv, key+"=") {
			return kv[len(key)+1:]
		}
	}
	return ""
}

// makeDKG: a real DKG among the n miners of the magic block (one bls.DKG object per miner) built with the
// library's SetDKG from deterministic polynomials (same construction as harness/drivers/crypto/vrf.go).
func makeDKG(w *world.World, t, n int, r *rand.Rand) *realDKG {
	detSec := func() bls.SecretKey {
		var b [32]byte
		r.Read(b[:])
		b[31] &= 0x0f
		var sk bls.SecretKey
		must(sk.SetLittleEndian(b[:]))
		return sk
	}
	msk := make([][]bls.SecretKey, n)
	mskHex := make([][]string, n)
	mpks := map[tbls.PartyID][]tbls.PublicKey{}
	pid := make([]tbls.PartyID, n)
	for i := 0; i < n; i++ {
		pid[i] = tbls.ComputeIDdkg(w.Miners[i].ID)
		for k := 0; k < t; k++ {
			msk[i] = append(msk[i], detSec())
			mskHex[i] = append(mskHex[i], msk[i][k].GetHexString())
		}
		mpks[pid[i]] = bls.GetMasterPublicKey(msk[i])
	}
	x := &realDKG{t: t, n: n}
	for j := 0; j < n; j++ {
		shares := map[string]string{}
		for i := 0; i < n; i++ {
			var s bls.SecretKey
			must(s.Set(msk[i], &pid[j]))
			shares[w.Miners[i].ID] = s.GetHexString()
		}
		x.dkgs = append(x.dkgs, tbls.SetDKG(t, n, shares, mskHex[j], mpks, w.Miners[j].ID))
	}
	return x
}

func (d *drv) setSelf(i int) {
	mw := d.mw
	node.Self.Node = mw.MinerNodes[i]
	must(node.Self.SetSignatureScheme(mw.Miners[i].Scheme))
}

func Run(a vc.Args) {
	mw := minerworld.New(world.Options{Clients: 3, Miners: nMiners, Sharders: 1,
		Overrides: map[string]interface{}{
			"server_chain.block.min_block_size":                  1,
			"server_chain.block.generation.timeout":              15,
			"server_chain.block.proposal.max_wait_time":          collectWait,
			"server_chain.block.sharding.min_active_sharders":    0,
			"server_chain.block.sharding.min_active_replicators": 0,
			"server_chain.round_timeouts.round_restart_mult":     restartMult,
			"server_chain.round_timeouts.timeout_cap":            tocCap,
			"server_chain.lfb_ticket.ahead":                      ahead,
			"server_chain.smart_contract.setting_update_period":  1,
			"server_chain.block.finalization.timeout":            "30s",
		}})
	defer mw.Close()
	viper.Set("server_chain.round_timeouts.timeout_cap", tocCap)
	viper.Set("server_chain.lfb_ticket.ahead", ahead)
	rc := rec.New(a.Out)
	defer rc.Close()
	mc := mw.MC
	d := &drv{mw: mw, mc: mc, rc: rc, a: a, debug: os.Getenv("VERIF_DEBUG") != "", need: map[string]int{}}
	if mc.RoundRestartMult() != restartMult || mc.GetNotarizationThresholdCount(nMiners) != 3 || mw.MagicBlock.T != 3 ||
		mc.GetGeneratorsNumOfRound(1) != 2 {
		rec.Fatal("configuration not applied: restart mult %d, notarization threshold %d, T %d, generators %d",
			mc.RoundRestartMult(), mc.GetNotarizationThresholdCount(nMiners), mw.MagicBlock.T, mc.GetGeneratorsNumOfRound(1))
	}
	mw.Genesis.SetBlockNotarized()
	round.SetupVRFShareEntity(memorystore.GetStorageProvider())
	block.SetupBVTEntity()
	miner.SetNetworkRelayTime(5e6) // 5 ms: FinalizeRound's wait for a missing notarized block is 2 x this
	chain.SetNetworkRelayTime(5e6)
	mc.SetStarted()

	// the node's long-running workers, as SetupWorkers starts them (the round / message / block-verify /
	// notarization workers are played by the harness step by step)
	bg, cancel := context.WithCancel(context.Background())
	defer cancel()
	d.bg = bg
	go mc.StartLFBTicketWorker(bg, mw.Genesis)
	go mc.RestartRoundEventWorker(bg)
	go mc.FinalizeRoundWorker(bg)
	go mc.FinalizedBlockWorker(bg, mc)
	go mc.VerifOfflineBlockFetcher(bg)

	id := 0
	// (1) behaviours of the environment generated by TLC from spec/Gen_RoundTrace.tla
	for _, raw := range vc.Behaviours(a.Behav) {
		id++
		if a.Only != 0 && a.Only != id {
			rc.TraceID = id
			continue
		}
		rc.TraceID = id - 1
		d.replayTrace(id, raw, vc.TraceRand(a.Seed, id))
	}
	// (2) seeded random histories
	for i := 0; i < a.N; i++ {
		id++
		if a.Only != 0 && a.Only != id {
			rc.TraceID = id
			continue
		}
		rc.TraceID = id - 1
		// what this history owes is a function of its position only (a trace re-executed alone is the same trace)
		switch i % 3 {
		case 0:
			d.need = map[string]int{"restart": 1, "badshare": 1, "nz": 1}
		case 1:
			d.need = map[string]int{"progress": 1} // a mostly cooperative environment, long enough to finalize blocks
		default:
			d.need = map[string]int{"forged": 1, "lag": 1, "nz": 1}
		}
		d.runTrace(id, vc.TraceRand(a.Seed, id))
	}
}
