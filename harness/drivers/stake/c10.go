package stake

import (
	"encoding/json"
	"fmt"
	"math/big"
	"math/rand"
	"sort"

	"0chain.net/chaincore/chain"
	cstate "0chain.net/chaincore/chain/state"
	"0chain.net/chaincore/transaction"
	"0chain.net/core/encryption"
	"0chain.net/smartcontract/stakepool"
	"0chain.net/smartcontract/stakepool/spenum"

	"github.com/0chain/common/core/currency"
	"github.com/0chain/common/core/statecache"

	"verif/harness/common"
	"verif/harness/rec"
	"verif/harness/world"
)

// ---------------------------------------------------------------------------------------------
// C10: reward distribution splits the amount exactly.
//
// Every trace is one REAL stakepool.StakePool object (built through the package's own constructor and
// exported fields) inside a REAL state context of the world's chain, on which a sequence of
// DistributeRewards / DistributeRewardsRandN calls is made.  Before / after every call the Reward of
// every delegate pool and of the provider is read back from the object and logged.

type c10Pool struct {
	name        string
	bal, reward uint64
}

type c10Case struct {
	pools    []c10Pool // sorted by name
	spReward uint64
	killed   bool
	minStake uint64
	cnum     int64
	cden     int64
}

type c10Op struct {
	Kind string `json:"kind"` // "all" | "randn"
	V    uint64 `json:"V"`
	N    int    `json:"N"`
	Seed int64  `json:"seed"`
}

func delegID(name string) string { return encryption.Hash("verif-delegate:" + name) }

func (c *c10Case) build() *stakepool.StakePool {
	sp := stakepool.NewStakePool()
	sp.Minter = cstate.MinterStorage
	sp.Settings.DelegateWallet = encryption.Hash("verif-delegate-wallet")
	sp.Settings.MaxNumDelegates = 100
	sp.Settings.MinStake = currency.Coin(c.minStake)
	sp.Settings.ServiceChargeRatio = float64(c.cnum) / float64(c.cden)
	sp.HasBeenKilled = c.killed
	sp.Reward = currency.Coin(c.spReward)
	for _, p := range c.pools {
		id := delegID(p.name)
		sp.Pools[id] = &stakepool.DelegatePool{
			Balance: currency.Coin(p.bal), Reward: currency.Coin(p.reward),
			Status: spenum.Active, DelegateID: id, RoundCreated: 1,
		}
	}
	return sp
}

type c10 struct {
	w  *world.World
	rc *rec.Recorder
}

func runC10(a common.Args) {
	w := world.New(world.Options{Clients: 2})
	defer w.Close()
	rc := rec.New(a.Out)
	defer rc.Close()
	g := &c10{w: w, rc: rc}
	id := 1
	// (0) one scripted trace that surely reaches the input class in which DistributeRewardsRandN selects a
	// subset without stake (N = 0, or only pools with zero balance; DESIGN §7 #15)
	if a.Only == 0 || a.Only == id {
		g.zeroSubset(a, id)
	} else {
		rc.TraceID = id
	}
	// (0') one scripted trace for service charge 1.0 and values above 2^53, where float64(value) may exceed
	// the value itself
	id++
	if a.Only == 0 || a.Only == id {
		g.chargeOver(a, id)
	} else {
		rc.TraceID = id
	}
	// (1) the corner cases enumerated by TLC on StakePool.tla (Gen_StakePool)
	for _, b := range common.Behaviours(a.Behav) {
		id++
		if a.Only != 0 && a.Only != id {
			rc.TraceID = id
			continue
		}
		g.behaviour(a, id, b)
	}
	// (2) seeded random larger cases
	for i := 0; i < a.N; i++ {
		id++
		if a.Only != 0 && a.Only != id {
			rc.TraceID = id
			continue
		}
		g.random(a, id)
	}
}

// balances returns a fresh real state context on a block forked from genesis.
func (g *c10) balances() cstate.StateContextI {
	w := g.w
	w.BeginBlock(w.Genesis)
	txn := &transaction.Transaction{ClientID: w.Owner.ID, ToClientID: world.Contracts["storagesc"], CreationDate: w.Now}
	txn.Hash = encryption.Hash("verif-c10")
	return w.Chain.NewStateContext(w.Cur, chain.CreateTxnMPT(w.CurState, statecache.NewTransactionCache(w.CurCache)), txn, nil)
}

type tlcSP struct {
	Pools    json.RawMessage `json:"pools"`
	Reward   uint64          `json:"reward"`
	Killed   bool            `json:"killed"`
	MinStake uint64          `json:"minStake"`
	Cnum     int64           `json:"cnum"`
	Cden     int64           `json:"cden"`
}

func (g *c10) behaviour(a common.Args, id int, raw json.RawMessage) {
	var b struct {
		SP  tlcSP   `json:"sp"`
		Ops []c10Op `json:"ops"`
	}
	if err := json.Unmarshal(raw, &b); err != nil {
		rec.Fatal("C10 behaviour %d: %v", id, err)
	}
	c := &c10Case{spReward: b.SP.Reward, killed: b.SP.Killed, minStake: b.SP.MinStake, cnum: b.SP.Cnum, cden: b.SP.Cden}
	if len(b.SP.Pools) > 0 && b.SP.Pools[0] == '{' {
		var ps map[string]struct {
			Bal    uint64 `json:"bal"`
			Reward uint64 `json:"reward"`
		}
		if err := json.Unmarshal(b.SP.Pools, &ps); err != nil {
			rec.Fatal("C10 behaviour %d pools: %v", id, err)
		}
		for n, p := range ps {
			c.pools = append(c.pools, c10Pool{n, p.Bal, p.Reward})
		}
	}
	sort.Slice(c.pools, func(i, j int) bool { return c.pools[i].name < c.pools[j].name })
	r := common.TraceRand(a.Seed, id)
	for i := range b.Ops {
		b.Ops[i].Seed = r.Int63()
	}
	g.run(id, "tlc", c, b.Ops)
}

// zeroSubset: the dedicated trace of the stake-less-subset class.
func (g *c10) zeroSubset(a common.Args, id int) {
	r := common.TraceRand(a.Seed, id)
	c := &c10Case{cnum: 1, cden: 3, pools: []c10Pool{{"d1", 0, 0}, {"d2", 0, 0}, {"d3", 5, 0}}}
	ops := []c10Op{{Kind: "randn", V: 3, N: 0, Seed: r.Int63()}}
	for i := 0; i < 6; i++ {
		ops = append(ops, c10Op{Kind: "randn", V: uint64(3 + r.Intn(20)), N: 1 + r.Intn(2), Seed: r.Int63()})
	}
	g.run(id, "zero-subset", c, ops)
}

// chargeOver: service charge ratio 1.0 and values whose float64 image is larger than the value.
func (g *c10) chargeOver(a common.Args, id int) {
	r := common.TraceRand(a.Seed, id)
	c := &c10Case{cnum: 1, cden: 1, pools: []c10Pool{{"d1", 5, 0}, {"d2", 7, 0}}}
	ops := []c10Op{
		{Kind: "all", V: 1<<53 + 3, Seed: r.Int63()},
		{Kind: "randn", V: 1<<53 + 3, N: 2, Seed: r.Int63()},
		{Kind: "all", V: 1<<53 + 1, Seed: r.Int63()},
		{Kind: "all", V: 4e18 - 1, Seed: r.Int63()},
		{Kind: "randn", V: 1<<60 + 129, N: 1, Seed: r.Int63()},
	}
	g.run(id, "charge-over", c, ops)
}

func pick(r *rand.Rand, xs ...uint64) uint64 { return xs[r.Intn(len(xs))] }

func (g *c10) random(a common.Args, id int) {
	r := common.TraceRand(a.Seed, id)
	big := r.Intn(100) < 12
	c := &c10Case{}
	n := []int{0, 1, 1, 2, 2, 3, 3, 4, 5, 6, 8}[r.Intn(11)]
	var total uint64
	for i := 0; i < n; i++ {
		var b uint64
		switch {
		case big && r.Intn(3) == 0:
			b = pick(r, 1e15, 1<<53+1, 1<<62, 1<<63, 1<<64-1, 4e18)
		case r.Intn(4) == 0:
			b = 0
		default:
			b = pick(r, 1, 1, 2, 3, 5, 7, 10, 100, 999, 5000, uint64(r.Intn(5000)))
		}
		rw := pick(r, 0, 0, 0, 1, 7, uint64(r.Intn(1000)))
		if big && r.Intn(6) == 0 {
			// accumulated rewards up to the order of the whole token supply (4e18); values next to 2^64 are
			// not reachable (rewards are paid out of the contract wallet) and are left out on purpose:
			// equallyDistributeRewards' unchecked `Reward++` wraps there.
			rw = pick(r, 4e18, 1<<62, 1e15)
		}
		c.pools = append(c.pools, c10Pool{fmt.Sprintf("d%d", i+1), b, rw})
		total += b // wrap is irrelevant here: only used to pick interesting min stakes
	}
	switch r.Intn(6) {
	case 0:
		c.minStake = total
	case 1:
		c.minStake = total + 1
	case 2:
		c.minStake = pick(r, 1, 100)
	}
	c.killed = r.Intn(10) == 0
	c.spReward = pick(r, 0, 0, 3, uint64(r.Intn(1000)))
	if big && r.Intn(8) == 0 {
		c.spReward = 4e18
	}
	switch r.Intn(9) {
	case 0:
		c.cnum, c.cden = 0, 1
	case 1:
		c.cnum, c.cden = 1, 1
	case 2:
		c.cnum, c.cden = 1, 2
	case 3:
		c.cnum, c.cden = 1, 3
	case 4:
		c.cnum, c.cden = 1, 10
	case 5:
		c.cnum, c.cden = 999, 1000
	case 6:
		c.cnum, c.cden = 7, 1000
	default:
		c.cden = int64(1 + r.Intn(1000))
		c.cnum = int64(r.Intn(int(c.cden) + 1))
	}
	var ops []c10Op
	for i := 0; i < a.Steps; i++ {
		op := c10Op{Kind: "all", Seed: r.Int63()}
		if r.Intn(2) == 0 {
			op.Kind = "randn"
			op.N = r.Intn(n + 2)
		}
		switch {
		case big && r.Intn(2) == 0:
			// up to the whole token supply (4e18 units): a larger reward cannot exist
			op.V = pick(r, 1<<53+3, 1<<53+1, 1<<53+5, 1<<60+1, 4e18, 4e18-1, 1e15, 3e18+7, 1<<40+uint64(r.Intn(1000)))
		default:
			op.V = pick(r, 0, 1, 2, 3, uint64(n), uint64(n)+1, 10, 100, 101, 9999, 30000, uint64(r.Intn(30000)), uint64(r.Intn(50)))
			if n > 0 && r.Intn(8) == 0 {
				op.V = uint64(n) - 1
			}
		}
		ops = append(ops, op)
	}
	g.run(id, "random", c, ops)
}

func bi(v uint64) *big.Int { return new(big.Int).SetUint64(v) }

func clampBig(x *big.Int) int64 {
	if x.IsInt64() {
		return capI(x.Int64())
	}
	if x.Sign() < 0 {
		return -cap29
	}
	return cap29
}

// ceilDiv = ceil(|a| / b), b > 0
func ceilAbsDiv(a, b *big.Int) *big.Int {
	x := new(big.Int).Abs(a)
	q, m := new(big.Int).QuoRem(x, b, new(big.Int))
	if m.Sign() != 0 {
		q.Add(q, big.NewInt(1))
	}
	return q
}

// zeroSubsetClass: the RNG may select a subset of pools that has no stake at all.
func zeroSubsetClass(c *c10Case, op c10Op) bool {
	n := len(c.pools)
	zeros := 0
	for _, p := range c.pools {
		if p.bal == 0 {
			zeros++
		}
	}
	k := op.N
	if k > n {
		k = n
	}
	return op.Kind == "randn" && n > 0 && zeros >= k
}

func (g *c10) run(id int, kind string, c *c10Case, ops []c10Op) {
	balances := g.balances()
	sp := c.build()
	var rw []pair
	for _, p := range c.pools {
		rw = append(rw, pair{p.name, capU(p.reward)})
	}
	g.rc.TraceID = id - 1
	g.rc.Reset(rec.M{"family": "stake", "prop": "C10", "kind": kind, "id": id, "case": fmt.Sprintf("%+v", *c), "ops": ops},
		rec.M{"rewards": orEmpty(rw), "sp_reward": capU(c.spReward)})
	for _, op := range ops {
		g.step(balances, sp, c, op)
	}
	g.w.Cur = nil
}

func (g *c10) step(balances cstate.StateContextI, sp *stakepool.StakePool, c *c10Case, op c10Op) {
	n := len(c.pools)
	pre := make([]uint64, n)
	bal := make([]uint64, n)
	for i, p := range c.pools {
		dp := sp.Pools[delegID(p.name)]
		pre[i], bal[i] = uint64(dp.Reward), uint64(dp.Balance)
	}
	spPre := uint64(sp.Reward)
	killed := sp.HasBeenKilled

	var err error
	panicked := ""
	func() {
		defer func() {
			if r := recover(); r != nil {
				panicked = fmt.Sprint(r)
			}
		}()
		if op.Kind == "all" {
			err = sp.DistributeRewards(currency.Coin(op.V), "verif-provider", spenum.Blobber, spenum.BlockRewardBlobber, balances)
		} else {
			err = sp.DistributeRewardsRandN(currency.Coin(op.V), "verif-provider", spenum.Miner, op.Seed, op.N, spenum.BlockRewardMiner, balances)
		}
	}()

	// ---- read back
	inc := make([]*big.Int, n)
	var incP, preP, postP, balP []pair
	sum := new(big.Int)
	stake := new(big.Int)
	allZero := true
	nCred := 0
	sumDeleg := new(big.Int)
	isBig := op.V > 30000 || c.cden > 1000 || spPre > 1<<28 || c.minStake > 1<<28
	for i, p := range c.pools {
		dp, ok := sp.Pools[delegID(p.name)]
		post := uint64(0)
		if ok {
			post = uint64(dp.Reward)
		}
		inc[i] = new(big.Int).Sub(bi(post), bi(pre[i]))
		sum.Add(sum, inc[i])
		sumDeleg.Add(sumDeleg, inc[i])
		stake.Add(stake, bi(bal[i]))
		if inc[i].Sign() != 0 {
			allZero = false
		}
		if inc[i].Sign() > 0 {
			nCred++
		}
		if bal[i] > 5000 || pre[i] > 1<<28 || !inc[i].IsInt64() || inc[i].Int64() > cap29 || inc[i].Int64() < -cap29 {
			isBig = true
		}
		incP = append(incP, pair{p.name, clampBig(inc[i])})
		preP = append(preP, pair{p.name, capU(pre[i])})
		postP = append(postP, pair{p.name, capU(post)})
		balP = append(balP, pair{p.name, capU(bal[i])})
	}
	cInc := new(big.Int).Sub(bi(uint64(sp.Reward)), bi(spPre))
	sum.Add(sum, cInc)
	if cInc.Sign() != 0 {
		allZero = false
	}
	if !cInc.IsInt64() || cInc.Int64() > cap29 || cInc.Int64() < -cap29 {
		isBig = true
	}
	V := bi(op.V)
	sumDiff := new(big.Int).Sub(sum, V)
	under := stake.Cmp(bi(c.minStake)) < 0

	// service charge deviation in units: ceil(|c*den - V*num| / den); with no pools everything is the provider's
	var chargeDev *big.Int
	if n == 0 {
		chargeDev = new(big.Int).Abs(new(big.Int).Sub(cInc, V))
	} else {
		x := new(big.Int).Sub(new(big.Int).Mul(cInc, big.NewInt(c.cden)), new(big.Int).Mul(V, big.NewInt(c.cnum)))
		chargeDev = ceilAbsDiv(x, big.NewInt(c.cden))
	}
	// proportionality deviation: min over admissible subsets S of max_d ceil(|r_d*St(S) - VL*b_d| / St(S))
	VL := new(big.Int).Sub(V, cInc)
	propDev := big.NewInt(0)
	if VL.Sign() > 0 && n > 0 {
		propDev = nil
		for mask := 1; mask < 1<<n; mask++ {
			cnt := 0
			ok := true
			st := new(big.Int)
			for i := 0; i < n; i++ {
				if mask&(1<<i) != 0 {
					cnt++
					st.Add(st, bi(bal[i]))
				} else if inc[i].Sign() > 0 {
					ok = false
				}
			}
			if !ok || st.Sign() == 0 {
				continue
			}
			if op.Kind == "all" && cnt != n {
				continue
			}
			if op.Kind == "randn" && cnt > op.N {
				continue
			}
			worst := big.NewInt(0)
			for i := 0; i < n; i++ {
				if mask&(1<<i) == 0 {
					continue
				}
				x := new(big.Int).Sub(new(big.Int).Mul(inc[i], st), new(big.Int).Mul(VL, bi(bal[i])))
				d := ceilAbsDiv(x, st)
				if d.Cmp(worst) > 0 {
					worst = d
				}
			}
			if propDev == nil || worst.Cmp(propDev) < 0 {
				propDev = worst
			}
		}
		if propDev == nil {
			propDev = big.NewInt(cap29) // no admissible subset at all
		}
	}
	// class of inputs in which the RNG may select a subset without stake (DESIGN §7 #15)
	zeroSubset := zeroSubsetClass(c, op)

	m := rec.M{
		"ev": "Dist", "kind": op.Kind, "v": capU(op.V), "n": op.N, "killed": killed,
		"min_stake": capU(c.minStake), "cnum": c.cnum, "cden": c.cden,
		"pools": orEmpty(balP), "pre": orEmpty(preP), "inc": orEmpty(incP), "post": orEmpty(postP),
		"sp_pre": capU(spPre), "sp_inc": clampBig(cInc), "sp_post": capU(uint64(sp.Reward)),
		"err": err != nil, "panic": panicked != "", "big": isBig,
		"v_zero": op.V == 0, "under": under, "n_pools": n, "all_zero": allZero,
		"sum_diff": clampBig(sumDiff), "charge_dev": clampBig(chargeDev), "prop_dev": clampBig(propDev),
		"tol_hi": int64(op.V >> 48), "n_credited": nCred,
		"zero_subset": zeroSubset, "no_delegate_credited": sumDeleg.Sign() == 0,
		"charge_over": cInc.Cmp(V) > 0,
	}
	class := "paid"
	switch {
	case panicked != "":
		class = "panic"
	case err != nil:
		class = "err"
	case op.V == 0:
		class = "zero"
	case killed:
		class = "killed"
	case under:
		class = "under"
	case n == 0:
		class = "nopools"
	case sumDiff.Sign() != 0:
		class = "inexact"
	case sumDeleg.Sign() == 0:
		class = "chargeonly"
	}
	if zeroSubset {
		class += "/zs"
	}
	if cInc.Cmp(V) > 0 {
		class += "/co"
	}
	if isBig {
		class += "/big"
	}
	g.rc.Emit(m, op.Kind+"/"+class, !allZero)
}
