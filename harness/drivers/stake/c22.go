package stake

import (
	"context"
	"fmt"
	"math/rand"
	"time"

	"0chain.net/chaincore/transaction"
	"0chain.net/core/encryption"
	"0chain.net/miner"
	"0chain.net/smartcontract/minersc"
	"0chain.net/smartcontract/provider"
	"0chain.net/smartcontract/stakepool/spenum"

	"github.com/0chain/common/core/util"

	"verif/harness/common"
	"verif/harness/rec"
	"verif/harness/world"
)

// ---------------------------------------------------------------------------------------------
// C22: block fees and rewards are split exactly between miner and sharders.
//
// Every trace forks from a base block with 3 miners and 3 sharders registered in the miner contract,
// stakes delegates on them with real lock transactions and then builds REAL blocks: a generator
// (block.MinerID), fee-paying transactions, and payFees transactions by the generator / by a foreign
// caller / with a wrong round / twice.  After each payFees a `Fees` event carries the increment of the
// rewards of EVERY miner and sharder stake pool (provider reward + all delegate rewards, read back from
// the MPT), the fee total of the block and the block reward from the contract's global node.  Blocks are
// finally passed to the real miner.Chain.ValidateTransactions (`ValidateBlock` event).

type feeGen struct {
	w  *world.World
	e  *env
	rc *rec.Recorder
	r  *rand.Rand
	mc *miner.Chain
	// balance of the miner contract's address when the current block was begun (fees collected so far =
	// current balance - blockBal: nothing else pays into the address in a fee block)
	blockBal uint64
}

type nodeView struct {
	total  uint64 // provider reward + all delegate rewards
	stake  uint64
	zeros  int
	pools  int
	killed bool
	min    uint64
	exists bool
}

func (e *env) nodeView(s util.MerklePatriciaTrieI, p *prov) nodeView {
	mn := minersc.NewMinerNode()
	if err := s.GetNodeValue(util.Path(encryption.Hash(provider.GetKey(p.Key.ID))), mn); err != nil {
		return nodeView{}
	}
	v := nodeView{exists: true, total: uint64(mn.StakePool.Reward), killed: mn.SimpleNode.HasBeenKilled || mn.StakePool.HasBeenKilled, min: uint64(mn.StakePool.Settings.MinStake)}
	for _, dp := range mn.StakePool.Pools {
		v.total += uint64(dp.Reward)
		v.stake += uint64(dp.Balance)
		v.pools++
		if dp.Balance == 0 {
			v.zeros++
		}
	}
	return v
}

func (e *env) globalNode(s util.MerklePatriciaTrieI) *minersc.GlobalNode {
	gn := &minersc.GlobalNode{}
	if err := s.GetNodeValue(util.Path(encryption.Hash(minersc.GlobalNodeKey)), gn); err != nil {
		rec.Fatal("global node: %v", err)
	}
	return gn
}

func runC22(a common.Args) {
	e := newEnvN(map[string]interface{}{
		"smart_contracts.minersc.num_sharders_rewarded":          2,
		"smart_contracts.minersc.num_miner_delegates_rewarded":   2,
		"smart_contracts.minersc.num_sharder_delegates_rewarded": 1,
	}, 3, 3)
	defer e.w.Close()
	rc := rec.New(a.Out)
	defer rc.Close()
	miner.SetupMinerChain(e.w.Chain)
	g := &feeGen{w: e.w, e: e, rc: rc, mc: miner.GetMinerChain()}
	id := 0
	for i := 0; i < a.N; i++ {
		id++
		if a.Only != 0 && a.Only != id {
			rc.TraceID = id
			continue
		}
		g.r = common.TraceRand(a.Seed, id)
		g.history(a, id)
	}
}

func (g *feeGen) nodes() (ms, ss []*prov) {
	for _, p := range g.e.provs {
		switch p.Type {
		case spenum.Miner:
			ms = append(ms, p)
		case spenum.Sharder:
			ss = append(ss, p)
		}
	}
	return
}

func (g *feeGen) lock(p *prov, who *world.Key, v uint64) {
	g.w.DoRec(g.rc, world.TxnSpec{From: who, To: world.Contracts["minersc"], Type: transaction.TxnTypeSmartContract, Fn: fnLock["minersc"],
		Input: map[string]interface{}{"provider_id": p.Key.ID, "provider_type": int(p.Type)}, Value: v}, rec.M{"src": "fees"})
}

func (g *feeGen) history(a common.Args, id int) {
	w, e := g.w, g.e
	ms, ss := g.nodes()
	w.BeginBlock(e.base)
	g.rc.TraceID = id - 1
	g.rc.Reset(rec.M{"family": "stake", "prop": "C22", "id": id, "seed": a.Seed, "steps": a.Steps},
		rec.M{"nonces": w.InitNonces(w.CurState)})
	// stakes: normally every miner and sharder gets 1-2 delegates; one trace in four leaves a node without
	// stake (such a node "receives nothing", C10) and one in five kills one
	stakers := []*world.Key{w.Clients[0], w.Clients[1], w.Clients[2]}
	skip := -1
	if g.r.Intn(4) == 0 {
		skip = g.r.Intn(len(ms) + len(ss))
	}
	for i, p := range append(append([]*prov{}, ms...), ss...) {
		if i == skip {
			continue
		}
		for d := 0; d < 1+g.r.Intn(2); d++ {
			g.lock(p, stakers[d], []uint64{100, 101, 250, 1000, 3333, 50000}[g.r.Intn(6)])
		}
	}
	if g.r.Intn(5) == 0 {
		p := append(append([]*prov{}, ms...), ss...)[g.r.Intn(len(ms)+len(ss))]
		w.DoRec(g.rc, world.TxnSpec{From: w.Owner, To: world.Contracts["minersc"], Type: transaction.TxnTypeSmartContract, Fn: killFn[p.Type],
			Input: map[string]interface{}{"provider_id": p.Key.ID}}, rec.M{"src": "fees"})
	}
	w.EndBlock()

	for blk := 0; blk < a.Steps; blk++ {
		b := w.BeginBlock()
		g.blockBal = w.Balance(world.Contracts["minersc"])
		gen := ms[g.r.Intn(len(ms))]
		b.MinerID = gen.Key.ID
		// fee-paying transactions of this block
		nt := g.r.Intn(4)
		for i := 0; i < nt; i++ {
			g.feeTxn(ms)
		}
		// payFees attempts; the block's own one comes last
		paid := 0
		for _, kind := range g.attempts() {
			var who *world.Key
			round := b.Round
			switch kind {
			case "gen":
				who = gen.Key
			case "othergen":
				who = ms[(indexOf(ms, gen)+1)%len(ms)].Key
			case "sharder":
				who = ss[g.r.Intn(len(ss))].Key
			case "client":
				who = w.Clients[0]
			case "owner":
				who = w.Owner
			case "badround":
				who = gen.Key
				round = b.Round + int64([]int{-1, 1, 7}[g.r.Intn(3)])
			}
			if g.payFees(gen, who, kind, round, paid) {
				paid++
			}
		}
		g.validate(paid)
		w.EndBlock()
	}
}

// feeKinds are the classes of transactions that carry a fee into a block: the fee of EVERY transaction of
// the block - whatever its type, whether its contract call succeeded, and whether its function is on the
// chain's fee-exempt list (exemption waives the MINIMUM fee only; a fee that is offered is charged by
// Chain.updateState like any other) - is moved to the miner contract and has to be distributed by payFees.
var feeKinds = []string{"send", "send", "data", "scok", "scfail", "exempt", "exemptdkg"}

// feeTxn executes one fee-carrying transaction of a random kind in the current block and records the
// `FeeTxn` observation (kind, outcome, fee offered, fee that actually arrived at the miner contract).
func (g *feeGen) feeTxn(ms []*prov) {
	w := g.w
	from := w.Clients[g.r.Intn(3)]
	fee := []uint64{0, 1, 2, 3, 7, 10, 99, 100, 1234}[g.r.Intn(9)]
	kind := feeKinds[g.r.Intn(len(feeKinds))]
	sc := func(who *world.Key, scn, fn string, in interface{}, v uint64) world.TxnSpec {
		return world.TxnSpec{From: who, To: world.Contracts[scn], Type: transaction.TxnTypeSmartContract, Fn: fn, Input: in, Value: v, Fee: fee}
	}
	var ts world.TxnSpec
	switch kind {
	case "send":
		ts = world.TxnSpec{From: from, To: w.Clients[3].ID, Type: transaction.TxnTypeSend, Value: uint64(1 + g.r.Intn(5)), Fee: fee}
	case "data":
		ts = world.TxnSpec{From: from, To: w.Clients[3].ID, Type: transaction.TxnTypeData, Raw: []byte("fee-carrying data"), Fee: fee}
	case "scok": // a contract call that succeeds (not exempt)
		ts = sc(from, "faucetsc", "refill", nil, uint64(1+g.r.Intn(5)))
	case "scfail": // a contract call that fails: its state changes are dropped, its fee is charged
		ts = sc(from, "storagesc", "no_such_function", nil, 0)
	case "exempt": // a fee-exempt function (no minimum fee) that nevertheless offers a fee
		ts = sc(from, "faucetsc", "pour", nil, 0)
	case "exemptdkg": // a fee-exempt DKG function sent by a miner, with a fee
		fn := []string{"contributeMpk", "shareSignsOrShares", "wait"}[g.r.Intn(3)]
		ts = sc(ms[g.r.Intn(len(ms))].Key, "minersc", fn, nil, 0)
	}
	exempt := false
	if ts.Type == transaction.TxnTypeSmartContract {
		exempt = w.Chain.ChainConfig.TxnExempt()[ts.Fn]
	}
	wb := w.Balance(world.Contracts["minersc"])
	res := w.DoRec(g.rc, ts, rec.M{"src": "fees"})
	arrived := diffU(w.Balance(world.Contracts["minersc"]), wb)
	if ts.To == world.Contracts["minersc"] && res.Class == "ok" {
		arrived -= capU(ts.Value)
	}
	g.rc.Emit(rec.M{"ev": "FeeTxn", "kind": kind, "class": res.Class, "exempt": exempt, "fee": capU(fee), "arrived": arrived,
		"in_block": res.Class != "rejected"}, kind+"/"+res.Class+"/"+feeShape(fee, exempt), res.Class != "rejected" && fee > 0)
}

func feeShape(fee uint64, exempt bool) string {
	s := "fee=0"
	if fee > 0 {
		s = "fee>0"
	}
	if exempt {
		s += "/exempt"
	}
	return s
}

func (g *feeGen) attempts() []string {
	var out []string
	for i := g.r.Intn(3); i > 0; i-- {
		out = append(out, []string{"othergen", "sharder", "client", "owner", "badround"}[g.r.Intn(5)])
	}
	out = append(out, "gen")
	if g.r.Intn(5) == 0 {
		out = append(out, "gen") // a second payment in the same block
	}
	if g.r.Intn(6) == 0 {
		out = append(out, "othergen")
	}
	return out
}

func (g *feeGen) payFees(gen *prov, who *world.Key, kind string, round int64, paidBefore int) bool {
	w, e := g.w, g.e
	ms, ss := g.nodes()
	b := w.Cur
	var fees uint64
	for _, t := range b.Txns {
		fees += uint64(t.Fee)
	}
	gn := e.globalNode(w.CurState)
	reward := uint64(float64(gn.BlockReward) * gn.RewardRate)
	pre := map[string]nodeView{}
	for _, p := range append(append([]*prov{}, ms...), ss...) {
		pre[p.Name] = e.nodeView(w.CurState, p)
	}
	wb := w.Balance(world.Contracts["minersc"])
	res := w.DoRec(g.rc, world.TxnSpec{From: who, To: world.Contracts["minersc"], Type: transaction.TxnTypeSmartContract, Fn: "payFees",
		Input: map[string]interface{}{"round": round}}, rec.M{"src": "fees"})
	var minc, sinc, payable []pair
	allPayable := true
	liveMiners := 0
	for _, p := range append(append([]*prov{}, ms...), ss...) {
		post := e.nodeView(w.CurState, p)
		v := pre[p.Name]
		d := pair{p.Name, diffU(post.total, v.total)}
		if p.Type == spenum.Miner {
			minc = append(minc, d)
		} else {
			sinc = append(sinc, d)
		}
		// payable: a live node whose every admissible delegate subset has stake (C10: killed / under-staked
		// nodes receive nothing; see also the stake-less-subset finding of C10)
		ok := int64(1)
		if !v.killed && (v.stake < v.min || v.stake == 0 || v.zeros > 0) {
			ok = 0
			allPayable = false
		}
		if v.killed {
			ok = 0
		} else if p.Type == spenum.Miner {
			liveMiners++
		}
		payable = append(payable, pair{p.Name, ok})
	}
	if liveMiners == 0 {
		allPayable = false
	}
	m := rec.M{
		"ev": "Fees", "caller": w.Name(who.ID), "gen": gen.Name, "kind": kind, "is_gen": who.ID == b.MinerID, "round_ok": round == b.Round,
		"ok": res.Class == "ok", "class": res.Class, "fees": capU(fees), "collected": diffU(wb, g.blockBal), "reward": capU(reward),
		"ratio_num": int64(gn.ShareRatio*10000 + 0.5), "ratio_den": 10000, "nsh": gn.NumShardersRewarded,
		"minc": orEmpty(minc), "sinc": orEmpty(sinc), "payable": orEmpty(payable), "all_payable": allPayable,
		"second": paidBefore > 0, "wallet_delta": diffU(w.Balance(world.Contracts["minersc"]), wb), "panic": res.Panic != "",
	}
	shape := kind + "/" + res.Class
	if !allPayable {
		shape += "/unpayable"
	}
	if paidBefore > 0 {
		shape += "/second"
	}
	g.rc.Emit(m, shape, res.Class == "ok")
	return res.Class == "ok"
}

// validate passes the block built so far to the real miner.Chain.ValidateTransactions.
func (g *feeGen) validate(nPay int) {
	w := g.w
	b := w.Cur
	if len(b.Txns) == 0 {
		return
	}
	for _, t := range b.Txns {
		if t.OutputHash == "" {
			t.OutputHash = t.ComputeOutputHash()
		}
	}
	ctx, cancel := context.WithTimeout(context.Background(), 20*time.Second)
	defer cancel()
	var err error
	panicked := false
	func() {
		defer func() {
			if r := recover(); r != nil {
				err = fmt.Errorf("panic: %v", r)
				panicked = true
			}
		}()
		err = g.mc.ValidateTransactions(ctx, b)
	}()
	n := 0
	for _, t := range b.Txns {
		if t.TransactionType == transaction.TxnTypeSmartContract && t.FunctionName == "payFees" {
			n++
		}
	}
	errs := ""
	if err != nil {
		errs = err.Error()
		if len(errs) > 80 {
			errs = errs[:80]
		}
	}
	g.rc.Emit(rec.M{"ev": "ValidateBlock", "n_payfees": n, "n_paid": nPay, "n_txns": len(b.Txns), "valid": err == nil, "err": errs, "panic": panicked},
		fmt.Sprintf("payfees=%d/valid=%v", n, err == nil), true)
}
