package stake

import (
	"fmt"
	"math/rand"

	"0chain.net/chaincore/transaction"
	"0chain.net/smartcontract/minersc"
	"0chain.net/smartcontract/stakepool/spenum"
	"0chain.net/smartcontract/storagesc"
	"0chain.net/smartcontract/zcnsc"

	"github.com/0chain/common/core/currency"
	"github.com/0chain/common/core/util"

	"verif/harness/common"
	"verif/harness/rec"
	"verif/harness/world"
)

// ---------------------------------------------------------------------------------------------
// C11: staking and unstaking return exactly what was locked.
//
// Every trace forks from the base block (8 registered providers on the three contracts) and runs a seeded
// history of REAL lock / unlock / collect transactions through Chain.UpdateState (recorded as Ledger `Txn`
// events by w.DoRec), interleaved with reward payments (the contracts' own load / DistributeRewards / save
// sequence, see the VerifStakeReward hooks) and an occasional kill.  After every step a `Stake` event
// carries the balance delta of the caller and of the contract wallet and ALL delegate pools of ALL
// providers read back from the MPT.

type staker struct {
	w  *world.World
	e  *env
	rc *rec.Recorder
	r  *rand.Rand
}

type allPools struct {
	bal, rew, sp []pair
	kind         map[string]string // provider name -> codec of the node found at its key ("" if none)
	killed       map[string]bool
	offers       map[string]uint64
	strays       int // stake-pool nodes at keys that belong to no provider
}

// project reads all stake pools back from the block state.
func (e *env) project(s util.MerklePatriciaTrieI) allPools {
	ns := e.stakeNodes(s)
	out := allPools{kind: map[string]string{}, killed: map[string]bool{}, offers: map[string]uint64{}}
	used := map[string]bool{}
	for _, p := range e.provs {
		n := findNode(ns, spKey(p))
		if n == nil {
			continue
		}
		used[n.Key] = true
		out.kind[p.Name] = n.Kind
		out.killed[p.Name] = n.SP.HasBeenKilled
		out.offers[p.Name] = n.Offers
		b, r := e.poolPairs(n.SP)
		for i := range b {
			out.bal = append(out.bal, pair{p.Name + "/" + b[i].A, b[i].D})
			out.rew = append(out.rew, pair{p.Name + "/" + r[i].A, r[i].D})
		}
		out.sp = append(out.sp, pair{p.Name, capU(uint64(n.SP.Reward))})
	}
	for _, n := range ns {
		if !used[n.Key] {
			out.strays++
		}
	}
	out.bal, out.rew, out.sp = orEmpty(out.bal), orEmpty(out.rew), orEmpty(out.sp)
	return out
}

// the codec in which each contract itself reads its stake pools
var ownCodec = map[string]string{"minersc": "minersc", "storagesc": "storagesc", "zcnsc": "zcnsc"}

func pairOf(ps []pair, a string) (int64, bool) {
	for _, p := range ps {
		if p.A == a {
			return p.D, true
		}
	}
	return 0, false
}

func runC11(a common.Args) {
	e := newEnv(nil)
	defer e.w.Close()
	rc := rec.New(a.Out)
	defer rc.Close()
	g := &staker{w: e.w, e: e, rc: rc}
	id := 0
	for i := 0; i < a.N; i++ {
		id++
		if a.Only != 0 && a.Only != id {
			rc.TraceID = id
			continue
		}
		g.r = common.TraceRand(a.Seed, id)
		g.history(a, id)
	}
}

func (g *staker) callers() []*world.Key {
	w := g.w
	return []*world.Key{w.Clients[0], w.Clients[1], w.Clients[2], w.ByName["x1"]}
}

func (g *staker) history(a common.Args, id int) {
	w, e := g.w, g.e
	w.BeginBlock(e.base)
	start := e.project(w.CurState)
	g.rc.TraceID = id - 1
	g.rc.Reset(rec.M{"family": "stake", "prop": "C11", "id": id, "seed": a.Seed, "steps": a.Steps},
		rec.M{"nonces": w.InitNonces(w.CurState), "bal": start.bal, "rew": start.rew, "sp": start.sp})
	// a trace concentrates on two or three providers so that histories on one pool get deep
	var focus []*prov
	for _, i := range g.r.Perm(len(e.provs))[:2+g.r.Intn(2)] {
		focus = append(focus, e.provs[i])
	}
	// every fourth trace is a SELF-STAKING history: one or two providers whose own delegate wallet is the
	// caller of half of the steps, so that the wallet holds a delegate pool of its own provider while service
	// charge and pool rewards accrue, and locks / unlocks / collects in every order (the payout of such a
	// caller is pool reward + service charge, two sources that the other histories rarely combine)
	self := id%4 == 0
	if self {
		// the first provider has a fractional service charge (both sources get a share of every reward)
		var frac []*prov
		for _, p := range e.provs {
			if p.Charge > 0 && p.Charge < 1 {
				frac = append(frac, p)
			}
		}
		focus = focus[:1+g.r.Intn(2)]
		focus[0] = frac[g.r.Intn(len(frac))]
		if len(focus) == 2 && focus[1] == focus[0] {
			focus = focus[:1]
		}
		// the wallet (and sometimes a third party) stakes first, then the seeded history runs
		for _, p := range focus {
			g.txn("lock", p, p.Wallet, []uint64{cfgMinStake, 150, 500, 1000, 7777}[g.r.Intn(5)])
			if g.r.Intn(2) == 0 {
				g.txn("lock", p, g.callers()[g.r.Intn(4)], []uint64{cfgMinStake, 500, 7777}[g.r.Intn(3)])
			}
		}
	}
	for i := 0; i < a.Steps; i++ {
		if g.r.Intn(10) == 0 {
			w.EndBlock()
			w.BeginBlock()
		}
		p := focus[g.r.Intn(len(focus))]
		who := g.callers()[g.r.Intn(4)]
		if g.r.Intn(6) == 0 || (self && g.r.Intn(2) == 0) {
			who = p.Wallet // the delegate wallet stakes / collects too (it also gets the service charge)
		}
		x := g.r.Intn(100)
		if self && x < 38 && g.r.Intn(2) == 0 {
			x = 72 + g.r.Intn(24) // fewer locks, more reward payments
		}
		switch {
		case x < 38:
			v := []uint64{0, 1, cfgMinStake - 1, cfgMinStake, cfgMinStake, 150, 500, 500, 1000, 7777, cfgMaxStake / 2, cfgMaxStake - 100, cfgMaxStake, cfgMaxStake + 1}[g.r.Intn(14)]
			g.txn("lock", p, who, v)
		case x < 60:
			g.txn("unlock", p, who, 0)
		case x < 72:
			g.txn("collect", p, who, 0)
		case x < 96:
			g.reward(p, []uint64{1, 2, 3, 7, 10, 99, 100, 1001, 5000}[g.r.Intn(9)])
		default:
			if p.SC == "storagesc" {
				fn := "kill_blobber"
				if p.Type == spenum.Validator {
					fn = "kill_validator"
				}
				g.txnFn("kill", fn, p, w.Owner, 0)
			} else {
				g.reward(p, 50)
			}
		}
	}
	w.EndBlock()
}

func (g *staker) txn(op string, p *prov, who *world.Key, value uint64) {
	fn := map[string]map[string]string{"lock": fnLock, "unlock": fnUnlock, "collect": fnCollect}[op][p.SC]
	g.txnFn(op, fn, p, who, value)
}

func (g *staker) txnFn(op, fn string, p *prov, who *world.Key, value uint64) {
	w, e := g.w, g.e
	pre := e.project(w.CurState)
	cb, wb := w.Balance(who.ID), w.Balance(world.Contracts[p.SC])
	res := w.DoRec(g.rc, world.TxnSpec{From: who, To: world.Contracts[p.SC], Type: transaction.TxnTypeSmartContract, Fn: fn,
		Input: map[string]interface{}{"provider_id": p.Key.ID, "provider_type": int(p.Type)}, Value: value}, rec.M{"src": "stake"})
	post := e.project(w.CurState)
	g.emit(op, p, who, value, res.Class, pre, post, diffU(w.Balance(who.ID), cb), diffU(w.Balance(world.Contracts[p.SC]), wb))
}

// reward pays `value` into the stake pool of p with the contract's own sequence (load, DistributeRewards,
// save) in a real state context that is merged into the block state like a transaction's.
func (g *staker) reward(p *prov, value uint64) {
	w, e := g.w, g.e
	pre := e.project(w.CurState)
	wb := w.Balance(world.Contracts[p.SC])
	sc, commit := e.sctx(w.Owner, world.Contracts[p.SC])
	var err error
	class := "ok"
	func() {
		defer func() {
			if r := recover(); r != nil {
				err = fmt.Errorf("panic: %v", r)
				class = "panic"
			}
		}()
		switch p.SC {
		case "storagesc":
			err = storagesc.VerifStakeReward(p.Type, p.Key.ID, currency.Coin(value), sc)
		case "minersc":
			err = minersc.VerifStakeReward(p.Type, p.Key.ID, currency.Coin(value), sc)
		case "zcnsc":
			err = zcnsc.VerifStakeReward(p.Key.ID, currency.Coin(value), sc)
		}
	}()
	if err == nil {
		commit()
	} else if class == "ok" {
		class = "chargeable"
	}
	post := e.project(w.CurState)
	g.emit("reward", p, w.Owner, value, class, pre, post, 0, diffU(w.Balance(world.Contracts[p.SC]), wb))
}

func (g *staker) emit(op string, p *prov, who *world.Key, value uint64, class string, pre, post allPools, cd, wd int64) {
	key := p.Name + "/" + g.w.Name(who.ID)
	_, had := pairOf(pre.bal, key)
	_, has := pairOf(post.bal, key)
	mismatch := (pre.kind[p.Name] != "" && pre.kind[p.Name] != ownCodec[p.SC]) || (post.kind[p.Name] != "" && post.kind[p.Name] != ownCodec[p.SC])
	nPools := 0
	provKeys := []string{}
	seen := map[string]bool{}
	for _, b := range post.bal {
		if len(b.A) > len(p.Name) && b.A[:len(p.Name)+1] == p.Name+"/" {
			nPools++
			seen[b.A] = true
			provKeys = append(provKeys, b.A)
		}
	}
	for _, b := range pre.bal {
		if len(b.A) > len(p.Name) && b.A[:len(p.Name)+1] == p.Name+"/" && !seen[b.A] {
			provKeys = append(provKeys, b.A)
		}
	}
	m := rec.M{
		"ev": "Stake", "op": op, "sc": p.SC, "prov": p.Name, "ptype": p.Type.String(), "caller": g.w.Name(who.ID), "key": key,
		"is_wallet": who.ID == p.Wallet.ID, "value": capU(value), "ok": class == "ok", "class": class,
		"caller_delta": cd, "wallet_delta": wd,
		"pre_bal": pre.bal, "pre_rew": pre.rew, "sp_pre": pre.sp, "post_bal": post.bal, "post_rew": post.rew, "sp_post": post.sp,
		"min_lock": cfgMinStake, "max_stake": cfgMaxStake, "max_del": p.MaxDel, "n_pools": nPools, "prov_keys": provKeys, "offers": capU(pre.offers[p.Name]),
		"enc_mismatch": mismatch, "strays": post.strays, "panic": class == "panic",
	}
	outcome := class
	if op == "lock" || op == "unlock" {
		outcome = fmt.Sprintf("%s/had=%v", class, had)
	}
	if who.ID == p.Wallet.ID && (op == "unlock" || op == "collect") && class == "ok" {
		// which of the two sources of a delegate wallet's payout were non-empty
		pr, _ := pairOf(pre.rew, key)
		sv, _ := pairOf(pre.sp, p.Name)
		outcome += fmt.Sprintf("/wallet/pool=%v/svc=%v", pr > 0, sv > 0)
	}
	_ = has
	g.rc.Emit(m, op+"/"+p.Type.String()+"/"+outcome, class == "ok")
}
