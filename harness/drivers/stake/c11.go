package stake

import (
	"verif/harness/common"
	"verif/harness/rec"
)

func runC11(a common.Args) { rec.Fatal("C11 not built yet") }
