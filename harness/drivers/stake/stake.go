// Package stake drives the staking family (DESIGN.md §5 Family C) against the real code:
//
//	C10  direct calls of (*stakepool.StakePool).DistributeRewards / DistributeRewardsRandN
//	C11  stake lock / unlock / collect transactions on minersc, storagesc, zcnsc
//	C23  kill_* / shutdown_* transactions with a projection of every stake-pool node
//	C22  minersc payFees inside real blocks (DESIGN.md §5 Family E, MinerFees.tla)
//
// One vdriver family ("stake"); the property id selects the scenario generator.
package stake

import (
	"verif/harness/common"
	"verif/harness/rec"
)

func init() { common.Register("stake", Run) }

// Run is the driver entry point.
func Run(a common.Args) {
	switch a.Prop {
	case "C10":
		runC10(a)
	case "C11":
		runC11(a)
	case "C23":
		runC23(a)
	case "C22":
		runC22(a)
	default:
		rec.Fatal("stake driver: unknown property %q", a.Prop)
	}
}

type pair struct {
	A string `json:"a"`
	D int64  `json:"d"`
}

func orEmpty(p []pair) []pair {
	if p == nil {
		return []pair{}
	}
	return p
}

// cap29 is the largest magnitude logged for TLC (32-bit integers, FAMILY_GUIDE rule 6).
const cap29 = int64(1) << 29

func capU(v uint64) int64 {
	if v > uint64(cap29) {
		return cap29
	}
	return int64(v)
}

func capI(v int64) int64 {
	if v > cap29 {
		return cap29
	}
	if v < -cap29 {
		return -cap29
	}
	return v
}

// diffU = a - b as a clamped signed value.
func diffU(a, b uint64) int64 {
	if a >= b {
		return capU(a - b)
	}
	return -capU(b - a)
}
