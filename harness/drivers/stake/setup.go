package stake

import (
	"fmt"
	"time"

	"0chain.net/chaincore/block"
	"0chain.net/chaincore/chain"
	cstate "0chain.net/chaincore/chain/state"
	"0chain.net/chaincore/transaction"
	"0chain.net/core/config"
	"0chain.net/core/encryption"
	"0chain.net/smartcontract/stakepool/spenum"

	"github.com/0chain/common/core/statecache"

	"verif/harness/rec"
	"verif/harness/world"
)

// prov is one registered provider of the base world.
type prov struct {
	Name   string // abstract name in traces: m1 m2 s1 b1 b2 v1 v2 a1
	Key    *world.Key
	Type   spenum.Provider
	SC     string     // contract name in world.Contracts
	Wallet *world.Key // delegate wallet (differs from the provider id by contract rule)
	Charge float64
	MaxDel int
}

// env = the world plus a deterministic base block in which the providers are registered through the
// contracts' own registration transactions.  Every trace forks from env.base.
type env struct {
	w      *world.World
	base   *block.Block
	provs  []*prov
	byName map[string]*prov
}

var (
	fnLock    = map[string]string{"minersc": "addToDelegatePool", "storagesc": "stake_pool_lock", "zcnsc": "add-to-delegate-pool"}
	fnUnlock  = map[string]string{"minersc": "deleteFromDelegatePool", "storagesc": "stake_pool_unlock", "zcnsc": "delete-from-delegate-pool"}
	fnCollect = map[string]string{"minersc": "collect_reward", "storagesc": "collect_reward", "zcnsc": "collect-rewards"}
)

// small-denomination overrides (never edit the yaml): stake bounds that fit TLC's integers, no lock period
// (StakePoolUnlock compares it with time.Now(), DESIGN §7 #17), full service charge allowed.
func scOverrides() map[string]interface{} {
	return map[string]interface{}{
		"stakepool.min_lock_period":                     time.Duration(0),
		"smart_contracts.minersc.min_stake":             0.00000001,
		"smart_contracts.minersc.max_stake":             0.00001,
		"smart_contracts.minersc.max_charge":            1.0,
		"smart_contracts.storagesc.max_stake":           0.00001,
		"smart_contracts.storagesc.max_charge":          1.0,
		"smart_contracts.zcnsc.min_stake":               0.00000001,
		"smart_contracts.zcnsc.max_stake":               0.00001,
		"smart_contracts.minersc.num_sharders_rewarded": 1,
	}
}

const (
	cfgMinStake = 100    // min_stake = 1e-8 ZCN
	cfgMaxStake = 100000 // max_stake = 1e-5 ZCN
)

func newEnv(extra map[string]interface{}) *env { return newEnvN(extra, 2, 1) }

// newEnvN: the base world with the given numbers of miners and sharders (all registered in the contract).
func newEnvN(extra map[string]interface{}, nMiners, nSharders int) *env {
	ov := scOverrides()
	for k, v := range extra {
		ov[k] = v
	}
	genesis := map[string]uint64{}
	e := &env{byName: map[string]*prov{}}
	mk := func(w *world.World, name string, tp spenum.Provider, sc string, key *world.Key, charge float64, maxDel int) {
		if key == nil {
			key = w.NewKey(name)
			genesis[key.ID] = 1e6
		}
		wal := w.NewKey(name + "w")
		genesis[wal.ID] = 1e6
		p := &prov{Name: name, Key: key, Type: tp, SC: sc, Wallet: wal, Charge: charge, MaxDel: maxDel}
		e.provs = append(e.provs, p)
		e.byName[name] = p
	}
	w := world.New(world.Options{Clients: 4, Miners: nMiners, Sharders: nSharders, SCOverrides: ov, ExtraGenesis: genesis,
		PreGenesis: func(w *world.World) {
			// keys of providers that are not in the magic block, and of all delegate wallets, get genesis tokens
			for _, n := range []string{"b1", "b2"} {
				mk(w, n, spenum.Blobber, "storagesc", nil, map[string]float64{"b1": 0.25, "b2": 0}[n], 2)
			}
			for _, n := range []string{"v1", "v2"} {
				mk(w, n, spenum.Validator, "storagesc", nil, map[string]float64{"v1": 0.5, "v2": 1}[n], 2)
			}
			mk(w, "a1", spenum.Authorizer, "zcnsc", nil, 0.1, 2)
			s := w.NewKey("x1") // a stranger with tokens
			genesis[s.ID] = 1e6
		}})
	e.w = w
	charges := []float64{0.1, 0.5, 0, 0.2, 1}
	for i, k := range w.Miners {
		mk(w, fmt.Sprintf("m%d", i+1), spenum.Miner, "minersc", k, charges[i%5], 2+i%2)
	}
	for i, k := range w.Sharders {
		mk(w, fmt.Sprintf("s%d", i+1), spenum.Sharder, "minersc", k, charges[(i+3)%5], 2)
	}
	e.buildBase()
	return e
}

func (e *env) must(what string, r world.Result) {
	if r.Class != "ok" {
		rec.Fatal("base block: %s: %s %s %s", what, r.Class, r.Err, r.Panic)
	}
}

func spSettings(p *prov) map[string]interface{} {
	return map[string]interface{}{"delegate_wallet": p.Wallet.ID, "num_delegates": p.MaxDel, "service_charge": p.Charge}
}

// buildBase registers every provider with the contract's own transaction, in a fixed order.
func (e *env) buildBase() {
	w := e.w
	w.BeginBlock(w.Genesis)
	for _, p := range e.provs {
		switch p.Type {
		case spenum.Miner, spenum.Sharder:
			fn := "add_miner"
			if p.Type == spenum.Sharder {
				fn = "add_sharder"
			}
			in := map[string]interface{}{
				"simple_miner": map[string]interface{}{"id": p.Key.ID, "n2n_host": p.Name + ".n2n", "host": p.Name + ".host",
					"port": 7100 + int(p.Name[0])%7*10 + int(p.Name[1]-'0'), "public_key": p.Key.Pub, "short_name": p.Name, "build_tag": "verif"},
				"stake_pool": map[string]interface{}{"settings": spSettings(p)},
			}
			e.must(fn+" "+p.Name, w.SC(p.Key, "minersc", fn, in, 0, 0))
		case spenum.Blobber:
			in := map[string]interface{}{
				"id": p.Key.ID, "url": "https://" + p.Name + ".verif:5050", "capacity": int64(100) << 30,
				"terms":               map[string]interface{}{"read_price": 0, "write_price": 1e7},
				"stake_pool_settings": spSettings(p),
			}
			e.must("add_blobber "+p.Name, w.SC(p.Key, "storagesc", "add_blobber", in, 0, 0))
		case spenum.Validator:
			in := map[string]interface{}{"id": p.Key.ID, "url": "https://" + p.Name + ".verif:5061", "stake_pool_settings": spSettings(p)}
			e.must("add_validator "+p.Name, w.SC(p.Key, "storagesc", "add_validator", in, 0, 0))
		case spenum.Authorizer:
			in := map[string]interface{}{"public_key": p.Key.Pub, "url": "https://" + p.Name + ".verif", "stake_pool_settings": spSettings(p)}
			e.must("add-authorizer "+p.Name, w.SC(w.Owner, "zcnsc", "add-authorizer", in, 0, 0))
		}
	}
	e.base = w.EndBlock()
}

// sctx opens a real state context on a transaction-level MPT over the current block state; commit merges
// it into the block state exactly like Chain.updateState does.
func (e *env) sctx(from *world.Key, to string) (cstate.StateContextI, func()) {
	w := e.w
	txn := &transaction.Transaction{ClientID: from.ID, PublicKey: from.Pub, ToClientID: to, CreationDate: w.Now}
	txn.ChainID = config.GetServerChainID()
	txn.Hash = encryption.Hash(fmt.Sprintf("verif-direct:%d:%s", w.Now, util64(w.CurState.GetRoot())))
	tc := statecache.NewTransactionCache(w.CurCache)
	ts := chain.CreateTxnMPT(w.CurState, tc)
	sc := w.Chain.NewStateContext(w.Cur, ts, txn, nil)
	return sc, func() {
		w.DirectWrites = true // the block's state is no longer a function of its transactions: no BlockTwin
		if err := w.CurState.MergeMPTChanges(ts); err != nil {
			rec.Fatal("merge of a direct state change failed: %v", err)
		}
		tc.Commit()
	}
}

func util64(b []byte) string { return fmt.Sprintf("%x", b) }
