package stake

import (
	"verif/harness/common"
	"verif/harness/rec"
)

func runC23(a common.Args) { rec.Fatal("C23 not built yet") }
