package stake

import (
	"fmt"
	"math/rand"

	"0chain.net/chaincore/transaction"
	"0chain.net/smartcontract/minersc"
	"0chain.net/smartcontract/stakepool/spenum"
	"0chain.net/smartcontract/storagesc"

	"github.com/0chain/common/core/currency"
	"github.com/0chain/common/core/util"

	"verif/harness/common"
	"verif/harness/rec"
	"verif/harness/world"
)

// ---------------------------------------------------------------------------------------------
// C23: killing or shutting down a provider disables exactly that provider.
//
// Every trace forks from the base block, stakes a few delegates on two or three providers with real lock
// transactions, and then runs kill_* / shutdown_* transactions by the contract owner, the provider's
// delegate wallet, the provider itself and a stranger (first, repeated and late attempts), interleaved with
// reward payments to the addressed and to other providers, and with real unlock transactions of the
// delegates (a delegate leaves a live or a dead provider; every third trace is an "exodus": the target is
// killed / shut down, ALL its delegates unlock their slashed stakes so that the dead pool has no delegate
// pool left, and rewards are paid afterwards).  Every step is followed by a `Kill` event with
// ALL stake-pool nodes of the state (key set and contents, found by decoding every value node of the MPT)
// and the provider records of all providers, before and after.

type killer struct {
	w  *world.World
	e  *env
	rc *rec.Recorder
	r  *rand.Rand
	// per trace: providers shut down successfully by somebody whose id is not the provider's
	foreignShut map[string]bool
	// per trace: the clients that locked a stake on a provider (by provider name, in lock order)
	staked map[string][]*world.Key
}

type fullProj struct {
	keys                []string
	bal, rew, spr, dead []pair
	recs                []pair
	ownKeys             map[string][]string // node key -> "key/delegate" entries
}

func (e *env) full(s util.MerklePatriciaTrieI) fullProj {
	out := fullProj{ownKeys: map[string][]string{}}
	for _, n := range e.stakeNodes(s) {
		out.keys = append(out.keys, n.Key)
		b, r := e.poolPairs(n.SP)
		for i := range b {
			k := n.Key + "/" + b[i].A
			out.bal = append(out.bal, pair{k, b[i].D})
			out.rew = append(out.rew, pair{k, r[i].D})
			out.ownKeys[n.Key] = append(out.ownKeys[n.Key], k)
		}
		out.spr = append(out.spr, pair{n.Key, capU(uint64(n.SP.Reward))})
		d := int64(0)
		if n.SP.HasBeenKilled {
			d = 1
		}
		out.dead = append(out.dead, pair{n.Key, d})
	}
	for _, p := range e.provs {
		if p.Type == spenum.Authorizer {
			continue
		}
		r := e.provRecord(s, p)
		code := int64(0)
		switch {
		case !r.Exists:
		case r.Killed && r.Shut:
			code = 4
		case r.Shut:
			code = 3
		case r.Killed:
			code = 2
		default:
			code = 1
		}
		out.recs = append(out.recs, pair{p.Name, code})
	}
	if out.keys == nil {
		out.keys = []string{}
	}
	out.bal, out.rew, out.spr, out.dead, out.recs = orEmpty(out.bal), orEmpty(out.rew), orEmpty(out.spr), orEmpty(out.dead), orEmpty(out.recs)
	return out
}

// extendBase puts a second base block for C23 on top of the shared one: the contract owner lowers the
// storage contract's min_stake_per_delegate to 0 with the real update_settings + commit_settings_changes
// transactions, and two more providers (blobber b3, validator v3) register afterwards with the contract's
// own registration transactions.  Their stake pools carry Settings.MinStake = 0 (b1 b2 v1 v2 keep the
// configured 100): such a pool is rewarded even when no delegate pool is left -- everything goes to the
// provider's own reward -- so "staked less than the minimum" no longer stands in for "dead".
func (e *env) extendBase() {
	w := e.w
	w.BeginBlock(e.base)
	e.must("update_settings min_stake_per_delegate", w.SC(w.Owner, "storagesc", "update_settings",
		map[string]interface{}{"fields": map[string]string{"min_stake_per_delegate": "0"}}, 0, 0))
	e.must("commit_settings_changes", w.SC(w.Owner, "storagesc", "commit_settings_changes", map[string]interface{}{"round": w.Cur.Round}, 0, 0))
	x1 := w.ByName["x1"]
	mk := func(name string, tp spenum.Provider, charge float64) {
		p := &prov{Name: name, Key: w.NewKey(name), Type: tp, SC: "storagesc", Wallet: w.NewKey(name + "w"), Charge: charge, MaxDel: 2}
		for _, k := range []*world.Key{p.Key, p.Wallet} {
			e.must("fund "+name, w.Do(world.TxnSpec{From: x1, To: k.ID, Type: transaction.TxnTypeSend, Value: 10000}))
		}
		if tp == spenum.Blobber {
			e.must("add_blobber "+name, w.SC(p.Key, "storagesc", "add_blobber", map[string]interface{}{
				"id": p.Key.ID, "url": "https://" + name + ".verif:5050", "capacity": int64(100) << 30,
				"terms":               map[string]interface{}{"read_price": 0, "write_price": 1e7},
				"stake_pool_settings": spSettings(p)}, 0, 0))
		} else {
			e.must("add_validator "+name, w.SC(p.Key, "storagesc", "add_validator", map[string]interface{}{
				"id": p.Key.ID, "url": "https://" + name + ".verif:5061", "stake_pool_settings": spSettings(p)}, 0, 0))
		}
		e.provs = append(e.provs, p)
		e.byName[name] = p
	}
	mk("b3", spenum.Blobber, 0.25)
	mk("v3", spenum.Validator, 0)
	e.base = w.EndBlock()
	for _, n := range e.stakeNodes(w.CurState) {
		if (n.Key == "blobber:b3" || n.Key == "validator:v3") && n.SP.Settings.MinStake != 0 {
			rec.Fatal("base block: %s registered with min stake %d, expected 0", n.Key, n.SP.Settings.MinStake)
		}
	}
}

func runC23(a common.Args) {
	e := newEnv(nil)
	defer e.w.Close()
	e.extendBase()
	rc := rec.New(a.Out)
	defer rc.Close()
	g := &killer{w: e.w, e: e, rc: rc}
	id := 0
	for i := 0; i < a.N; i++ {
		id++
		if a.Only != 0 && a.Only != id {
			rc.TraceID = id
			continue
		}
		g.r = common.TraceRand(a.Seed, id)
		g.history(a, id)
	}
}

var killFn = map[spenum.Provider]string{spenum.Miner: "kill_miner", spenum.Sharder: "kill_sharder", spenum.Blobber: "kill_blobber", spenum.Validator: "kill_validator"}
var shutFn = map[spenum.Provider]string{spenum.Blobber: "shutdown_blobber", spenum.Validator: "shutdown_validator"}

func (g *killer) killable() []*prov {
	var out []*prov
	for _, p := range g.e.provs {
		if p.Type != spenum.Authorizer { // the bridge contract has no kill / shutdown function
			out = append(out, p)
		}
	}
	return out
}

func (g *killer) history(a common.Args, id int) {
	w, e := g.w, g.e
	g.foreignShut = map[string]bool{}
	g.staked = map[string][]*world.Key{}
	exodus := id%3 == 0
	w.BeginBlock(e.base)
	g.rc.TraceID = id - 1
	g.rc.Reset(rec.M{"family": "stake", "prop": "C23", "id": id, "seed": a.Seed, "steps": a.Steps},
		rec.M{"nonces": w.InitNonces(w.CurState)})
	ps := g.killable()
	// the target (every provider type gets its turn; shutdown exists for blobbers and validators only) and
	// one or two bystanders whose pools must not move
	target := ps[(id+g.r.Intn(2)*3)%len(ps)]
	if exodus && g.r.Intn(2) == 0 {
		target = e.byName[[]string{"b3", "v3"}[g.r.Intn(2)]] // a pool that is rewarded without any delegate
	}
	focus := []*prov{target}
	for _, i := range g.r.Perm(len(ps)) {
		if ps[i] != target && len(focus) < 3 {
			focus = append(focus, ps[i])
		}
	}
	// stakes (real lock transactions); sometimes the target has no delegate at all
	stakers := []*world.Key{w.Clients[0], w.Clients[1], w.Clients[2]}
	pre := e.full(w.CurState)
	for _, p := range focus {
		n := g.r.Intn(3)
		if (p != target || exodus) && n == 0 {
			n = 1
		}
		for i := 0; i < n && i < p.MaxDel; i++ {
			v := []uint64{100, 101, 333, 1000, 1001, 7777, 99999}[g.r.Intn(7)]
			res := w.DoRec(g.rc, world.TxnSpec{From: stakers[i], To: world.Contracts[p.SC], Type: transaction.TxnTypeSmartContract, Fn: fnLock[p.SC],
				Input: map[string]interface{}{"provider_id": p.Key.ID, "provider_type": int(p.Type)}, Value: v}, rec.M{"src": "stake"})
			if res.Class == "ok" {
				g.staked[p.Name] = append(g.staked[p.Name], stakers[i])
			}
		}
		if g.r.Intn(3) == 0 {
			g.pay(p, uint64(10+g.r.Intn(500)))
		}
	}
	g.emit("setup", "", target, w.Owner, "owner", "ok", 0, pre, e.full(w.CurState))

	if exodus {
		g.exodus(target, focus)
		w.EndBlock()
		return
	}
	for i := 0; i < a.Steps; i++ {
		if g.r.Intn(8) == 0 {
			w.EndBlock()
			w.BeginBlock()
		}
		p := target
		if g.r.Intn(5) == 0 {
			p = focus[g.r.Intn(len(focus))]
		}
		role := []string{"owner", "owner", "wallet", "self", "stranger", "otherwallet"}[g.r.Intn(6)]
		var who *world.Key
		switch role {
		case "owner":
			who = w.Owner
		case "wallet":
			who = p.Wallet
		case "self":
			who = p.Key
		case "stranger":
			who = w.ByName["x1"]
		default:
			q := focus[(indexOf(focus, p)+1)%len(focus)]
			who = q.Wallet
		}
		switch x := g.r.Intn(100); {
		case x < 8:
			// a delegate (or somebody who is none) takes his stake out of a live or a dead provider
			d := stakers[g.r.Intn(len(stakers))]
			if ds := g.staked[p.Name]; len(ds) > 0 && g.r.Intn(4) != 0 {
				d = ds[g.r.Intn(len(ds))]
			}
			g.unlock(p, d)
		case x < 35:
			g.txn("kill", killFn[p.Type], p, who, role)
		case x < 70:
			if fn, ok := shutFn[p.Type]; ok {
				g.txn("shutdown", fn, p, who, role)
			} else {
				g.txn("kill", killFn[p.Type], p, who, role)
			}
		default:
			g.reward(p, []uint64{1, 3, 10, 99, 1000}[g.r.Intn(5)])
		}
	}
	w.EndBlock()
}

// exodus: the target is disabled by an authorised caller (sometimes after a failed attempt of somebody
// else), then EVERY delegate unlocks what is left of his stake -- the dead stake pool stays in the state
// without any delegate pool -- and rewards are paid to it (and to a bystander) afterwards, in the same and in
// a later block; late kill / shutdown attempts follow.
func (g *killer) exodus(target *prov, focus []*prov) {
	w := g.w
	if g.r.Intn(3) == 0 {
		g.reward(target, []uint64{3, 10, 99}[g.r.Intn(3)])
	}
	if g.r.Intn(3) == 0 {
		g.txn("kill", killFn[target.Type], target, w.ByName["x1"], "stranger")
	}
	fn, who, role, op := killFn[target.Type], w.Owner, "owner", "kill"
	if sf, ok := shutFn[target.Type]; ok && g.r.Intn(2) == 0 {
		fn, op = sf, "shutdown"
		if g.r.Intn(2) == 0 {
			who, role = target.Wallet, "wallet"
		}
	}
	g.txn(op, fn, target, who, role)
	if g.r.Intn(2) == 0 {
		g.reward(target, []uint64{1, 10, 1000}[g.r.Intn(3)]) // dead, delegates still there
	}
	ds := g.staked[target.Name]
	for _, i := range g.r.Perm(len(ds)) {
		if g.r.Intn(4) == 0 {
			w.EndBlock()
			w.BeginBlock()
		}
		g.unlock(target, ds[i])
	}
	for i := 0; i < 3; i++ {
		if g.r.Intn(3) == 0 {
			w.EndBlock()
			w.BeginBlock()
		}
		p := target
		if i == 1 && len(focus) > 1 {
			p = focus[1] // a live bystander is still paid
		}
		g.reward(p, []uint64{1, 3, 10, 99, 1000}[g.r.Intn(5)])
	}
	if g.r.Intn(2) == 0 {
		g.txn("kill", killFn[target.Type], target, w.Owner, "owner")
	}
	if sf, ok := shutFn[target.Type]; ok && g.r.Intn(2) == 0 {
		g.txn("shutdown", sf, target, target.Wallet, "wallet")
	}
}

// unlock = one real unlock transaction of client d on the stake pool of p
func (g *killer) unlock(p *prov, d *world.Key) {
	w, e := g.w, g.e
	pre := e.full(w.CurState)
	fn := fnUnlock[p.SC]
	res := w.DoRec(g.rc, world.TxnSpec{From: d, To: world.Contracts[p.SC], Type: transaction.TxnTypeSmartContract, Fn: fn,
		Input: map[string]interface{}{"provider_id": p.Key.ID, "provider_type": int(p.Type)}}, rec.M{"src": "stake"})
	post := e.full(w.CurState)
	g.emit("unlock", fn, p, d, "delegate", res.Class, 0, pre, post)
}

func indexOf(ps []*prov, p *prov) int {
	for i := range ps {
		if ps[i] == p {
			return i
		}
	}
	return 0
}

func (g *killer) txn(op, fn string, p *prov, who *world.Key, role string) {
	w, e := g.w, g.e
	pre := e.full(w.CurState)
	res := w.DoRec(g.rc, world.TxnSpec{From: who, To: world.Contracts[p.SC], Type: transaction.TxnTypeSmartContract, Fn: fn,
		Input: map[string]interface{}{"provider_id": p.Key.ID}}, rec.M{"src": "stake"})
	post := e.full(w.CurState)
	g.emit(op, fn, p, who, role, res.Class, 0, pre, post)
}

// pay = one reward payment with the contract's own sequence, merged into the block state
func (g *killer) pay(p *prov, value uint64) (class string) {
	sc, commit := g.e.sctx(g.w.Owner, world.Contracts[p.SC])
	var err error
	class = "ok"
	func() {
		defer func() {
			if r := recover(); r != nil {
				err = fmt.Errorf("panic: %v", r)
				class = "panic"
			}
		}()
		if p.SC == "storagesc" {
			err = storagesc.VerifStakeReward(p.Type, p.Key.ID, currency.Coin(value), sc)
		} else {
			err = minersc.VerifStakeReward(p.Type, p.Key.ID, currency.Coin(value), sc)
		}
	}()
	if err == nil {
		commit()
	} else if class == "ok" {
		class = "chargeable"
	}
	return class
}

func (g *killer) reward(p *prov, value uint64) {
	pre := g.e.full(g.w.CurState)
	class := g.pay(p, value)
	g.emit("reward", "", p, g.w.Owner, "owner", class, value, pre, g.e.full(g.w.CurState))
}

func (g *killer) emit(op, fn string, p *prov, who *world.Key, role, class string, value uint64, pre, post fullProj) {
	nk := spKey(p)
	auth := (op == "kill" && role == "owner") || (op == "shutdown" && (role == "owner" || role == "wallet"))
	// the configured slash fractions: storagesc kill = stakepool.kill_slash (0.5), shutdown = half of it,
	// minersc kill does not slash (kill.go)
	num, den := int64(0), int64(1)
	if p.SC == "storagesc" {
		if op == "kill" {
			num, den = 1, 2
		} else if op == "shutdown" {
			num, den = 1, 4
		}
	}
	own := map[string]bool{}
	var ownKeys []string
	for _, k := range append(append([]string{}, pre.ownKeys[nk]...), post.ownKeys[nk]...) {
		if !own[k] {
			own[k] = true
			ownKeys = append(ownKeys, k)
		}
	}
	if ownKeys == nil {
		ownKeys = []string{}
	}
	after := g.foreignShut[p.Name]
	foreign := op == "shutdown" && class == "ok" && who.ID != p.Key.ID && !after
	recPre, _ := pairOf(pre.recs, p.Name)
	if foreign && recPre == 1 {
		g.foreignShut[p.Name] = true
	} else {
		foreign = false
	}
	m := rec.M{
		"ev": "Kill", "op": op, "fn": fn, "sc": p.SC, "prov": p.Name, "ptype": p.Type.String(), "caller": g.w.Name(who.ID), "role": role,
		"ok": class == "ok", "class": class, "auth": auth, "node_key": nk, "slash_num": num, "slash_den": den, "value": capU(value),
		"keys_pre": pre.keys, "keys_post": post.keys, "bal_pre": pre.bal, "bal_post": post.bal, "rew_pre": pre.rew, "rew_post": post.rew,
		"spr_pre": pre.spr, "spr_post": post.spr, "dead_pre": pre.dead, "dead_post": post.dead, "rec_pre": pre.recs, "rec_post": post.recs,
		"own_keys": ownKeys, "foreign_shutdown": foreign, "after_foreign_shutdown": after, "panic": class == "panic",
	}
	outcome := class
	if op == "kill" || op == "shutdown" {
		outcome = fmt.Sprintf("%s/%s/dead=%v", role, class, recPre != 1)
	}
	if op == "unlock" || op == "reward" {
		// left = delegate pools of the addressed provider's own stake pool after the step
		outcome = fmt.Sprintf("%s/dead=%v/left=%d", class, recPre != 1, len(post.ownKeys[nk]))
	}
	g.rc.Emit(m, op+"/"+p.Type.String()+"/"+outcome, class == "ok" && op != "setup")
}
