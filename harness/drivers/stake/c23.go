package stake

import (
	"fmt"
	"math/rand"

	"0chain.net/chaincore/transaction"
	"0chain.net/smartcontract/minersc"
	"0chain.net/smartcontract/stakepool/spenum"
	"0chain.net/smartcontract/storagesc"

	"github.com/0chain/common/core/currency"
	"github.com/0chain/common/core/util"

	"verif/harness/common"
	"verif/harness/rec"
	"verif/harness/world"
)

// ---------------------------------------------------------------------------------------------
// C23: killing or shutting down a provider disables exactly that provider.
//
// Every trace forks from the base block, stakes a few delegates on two or three providers with real lock
// transactions, and then runs kill_* / shutdown_* transactions by the contract owner, the provider's
// delegate wallet, the provider itself and a stranger (first, repeated and late attempts), interleaved with
// reward payments to the addressed and to other providers.  Every step is followed by a `Kill` event with
// ALL stake-pool nodes of the state (key set and contents, found by decoding every value node of the MPT)
// and the provider records of all providers, before and after.

type killer struct {
	w  *world.World
	e  *env
	rc *rec.Recorder
	r  *rand.Rand
	// per trace: providers shut down successfully by somebody whose id is not the provider's
	foreignShut map[string]bool
}

type fullProj struct {
	keys                []string
	bal, rew, spr, dead []pair
	recs                []pair
	ownKeys             map[string][]string // node key -> "key/delegate" entries
}

func (e *env) full(s util.MerklePatriciaTrieI) fullProj {
	out := fullProj{ownKeys: map[string][]string{}}
	for _, n := range e.stakeNodes(s) {
		out.keys = append(out.keys, n.Key)
		b, r := e.poolPairs(n.SP)
		for i := range b {
			k := n.Key + "/" + b[i].A
			out.bal = append(out.bal, pair{k, b[i].D})
			out.rew = append(out.rew, pair{k, r[i].D})
			out.ownKeys[n.Key] = append(out.ownKeys[n.Key], k)
		}
		out.spr = append(out.spr, pair{n.Key, capU(uint64(n.SP.Reward))})
		d := int64(0)
		if n.SP.HasBeenKilled {
			d = 1
		}
		out.dead = append(out.dead, pair{n.Key, d})
	}
	for _, p := range e.provs {
		if p.Type == spenum.Authorizer {
			continue
		}
		r := e.provRecord(s, p)
		code := int64(0)
		switch {
		case !r.Exists:
		case r.Killed && r.Shut:
			code = 4
		case r.Shut:
			code = 3
		case r.Killed:
			code = 2
		default:
			code = 1
		}
		out.recs = append(out.recs, pair{p.Name, code})
	}
	if out.keys == nil {
		out.keys = []string{}
	}
	out.bal, out.rew, out.spr, out.dead, out.recs = orEmpty(out.bal), orEmpty(out.rew), orEmpty(out.spr), orEmpty(out.dead), orEmpty(out.recs)
	return out
}

func runC23(a common.Args) {
	e := newEnv(nil)
	defer e.w.Close()
	rc := rec.New(a.Out)
	defer rc.Close()
	g := &killer{w: e.w, e: e, rc: rc}
	id := 0
	for i := 0; i < a.N; i++ {
		id++
		if a.Only != 0 && a.Only != id {
			rc.TraceID = id
			continue
		}
		g.r = common.TraceRand(a.Seed, id)
		g.history(a, id)
	}
}

var killFn = map[spenum.Provider]string{spenum.Miner: "kill_miner", spenum.Sharder: "kill_sharder", spenum.Blobber: "kill_blobber", spenum.Validator: "kill_validator"}
var shutFn = map[spenum.Provider]string{spenum.Blobber: "shutdown_blobber", spenum.Validator: "shutdown_validator"}

func (g *killer) killable() []*prov {
	var out []*prov
	for _, p := range g.e.provs {
		if p.Type != spenum.Authorizer { // the bridge contract has no kill / shutdown function
			out = append(out, p)
		}
	}
	return out
}

func (g *killer) history(a common.Args, id int) {
	w, e := g.w, g.e
	g.foreignShut = map[string]bool{}
	w.BeginBlock(e.base)
	g.rc.TraceID = id - 1
	g.rc.Reset(rec.M{"family": "stake", "prop": "C23", "id": id, "seed": a.Seed, "steps": a.Steps},
		rec.M{"nonces": w.InitNonces(w.CurState)})
	ps := g.killable()
	// the target (every provider type gets its turn; shutdown exists for blobbers and validators only) and
	// one or two bystanders whose pools must not move
	target := ps[(id+g.r.Intn(2)*3)%len(ps)]
	focus := []*prov{target}
	for _, i := range g.r.Perm(len(ps)) {
		if ps[i] != target && len(focus) < 3 {
			focus = append(focus, ps[i])
		}
	}
	// stakes (real lock transactions); sometimes the target has no delegate at all
	stakers := []*world.Key{w.Clients[0], w.Clients[1], w.Clients[2]}
	pre := e.full(w.CurState)
	for _, p := range focus {
		n := g.r.Intn(3)
		if p != target && n == 0 {
			n = 1
		}
		for i := 0; i < n && i < p.MaxDel; i++ {
			v := []uint64{100, 101, 333, 1000, 1001, 7777, 99999}[g.r.Intn(7)]
			w.DoRec(g.rc, world.TxnSpec{From: stakers[i], To: world.Contracts[p.SC], Type: transaction.TxnTypeSmartContract, Fn: fnLock[p.SC],
				Input: map[string]interface{}{"provider_id": p.Key.ID, "provider_type": int(p.Type)}, Value: v}, rec.M{"src": "stake"})
		}
		if g.r.Intn(3) == 0 {
			g.pay(p, uint64(10+g.r.Intn(500)))
		}
	}
	g.emit("setup", "", target, w.Owner, "owner", "ok", 0, pre, e.full(w.CurState))

	for i := 0; i < a.Steps; i++ {
		if g.r.Intn(8) == 0 {
			w.EndBlock()
			w.BeginBlock()
		}
		p := target
		if g.r.Intn(5) == 0 {
			p = focus[g.r.Intn(len(focus))]
		}
		role := []string{"owner", "owner", "wallet", "self", "stranger", "otherwallet"}[g.r.Intn(6)]
		var who *world.Key
		switch role {
		case "owner":
			who = w.Owner
		case "wallet":
			who = p.Wallet
		case "self":
			who = p.Key
		case "stranger":
			who = w.ByName["x1"]
		default:
			q := focus[(indexOf(focus, p)+1)%len(focus)]
			who = q.Wallet
		}
		switch x := g.r.Intn(100); {
		case x < 35:
			g.txn("kill", killFn[p.Type], p, who, role)
		case x < 70:
			if fn, ok := shutFn[p.Type]; ok {
				g.txn("shutdown", fn, p, who, role)
			} else {
				g.txn("kill", killFn[p.Type], p, who, role)
			}
		default:
			g.reward(p, []uint64{1, 3, 10, 99, 1000}[g.r.Intn(5)])
		}
	}
	w.EndBlock()
}

func indexOf(ps []*prov, p *prov) int {
	for i := range ps {
		if ps[i] == p {
			return i
		}
	}
	return 0
}

func (g *killer) txn(op, fn string, p *prov, who *world.Key, role string) {
	w, e := g.w, g.e
	pre := e.full(w.CurState)
	res := w.DoRec(g.rc, world.TxnSpec{From: who, To: world.Contracts[p.SC], Type: transaction.TxnTypeSmartContract, Fn: fn,
		Input: map[string]interface{}{"provider_id": p.Key.ID}}, rec.M{"src": "stake"})
	post := e.full(w.CurState)
	g.emit(op, fn, p, who, role, res.Class, 0, pre, post)
}

// pay = one reward payment with the contract's own sequence, merged into the block state
func (g *killer) pay(p *prov, value uint64) (class string) {
	sc, commit := g.e.sctx(g.w.Owner, world.Contracts[p.SC])
	var err error
	class = "ok"
	func() {
		defer func() {
			if r := recover(); r != nil {
				err = fmt.Errorf("panic: %v", r)
				class = "panic"
			}
		}()
		if p.SC == "storagesc" {
			err = storagesc.VerifStakeReward(p.Type, p.Key.ID, currency.Coin(value), sc)
		} else {
			err = minersc.VerifStakeReward(p.Type, p.Key.ID, currency.Coin(value), sc)
		}
	}()
	if err == nil {
		commit()
	} else if class == "ok" {
		class = "chargeable"
	}
	return class
}

func (g *killer) reward(p *prov, value uint64) {
	pre := g.e.full(g.w.CurState)
	class := g.pay(p, value)
	g.emit("reward", "", p, g.w.Owner, "owner", class, value, pre, g.e.full(g.w.CurState))
}

func (g *killer) emit(op, fn string, p *prov, who *world.Key, role, class string, value uint64, pre, post fullProj) {
	nk := spKey(p)
	auth := (op == "kill" && role == "owner") || (op == "shutdown" && (role == "owner" || role == "wallet"))
	// the configured slash fractions: storagesc kill = stakepool.kill_slash (0.5), shutdown = half of it,
	// minersc kill does not slash (kill.go)
	num, den := int64(0), int64(1)
	if p.SC == "storagesc" {
		if op == "kill" {
			num, den = 1, 2
		} else if op == "shutdown" {
			num, den = 1, 4
		}
	}
	own := map[string]bool{}
	var ownKeys []string
	for _, k := range append(append([]string{}, pre.ownKeys[nk]...), post.ownKeys[nk]...) {
		if !own[k] {
			own[k] = true
			ownKeys = append(ownKeys, k)
		}
	}
	if ownKeys == nil {
		ownKeys = []string{}
	}
	after := g.foreignShut[p.Name]
	foreign := op == "shutdown" && class == "ok" && who.ID != p.Key.ID && !after
	recPre, _ := pairOf(pre.recs, p.Name)
	if foreign && recPre == 1 {
		g.foreignShut[p.Name] = true
	} else {
		foreign = false
	}
	m := rec.M{
		"ev": "Kill", "op": op, "fn": fn, "sc": p.SC, "prov": p.Name, "ptype": p.Type.String(), "caller": g.w.Name(who.ID), "role": role,
		"ok": class == "ok", "class": class, "auth": auth, "node_key": nk, "slash_num": num, "slash_den": den, "value": capU(value),
		"keys_pre": pre.keys, "keys_post": post.keys, "bal_pre": pre.bal, "bal_post": post.bal, "rew_pre": pre.rew, "rew_post": post.rew,
		"spr_pre": pre.spr, "spr_post": post.spr, "dead_pre": pre.dead, "dead_post": post.dead, "rec_pre": pre.recs, "rec_post": post.recs,
		"own_keys": ownKeys, "foreign_shutdown": foreign, "after_foreign_shutdown": after, "panic": class == "panic",
	}
	outcome := class
	if op == "kill" || op == "shutdown" {
		outcome = fmt.Sprintf("%s/%s/dead=%v", role, class, recPre != 1)
	}
	g.rc.Emit(m, op+"/"+p.Type.String()+"/"+outcome, class == "ok" && op != "setup")
}
