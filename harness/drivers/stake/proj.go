package stake

import (
	"bytes"
	"context"
	"sort"

	"0chain.net/core/encryption"
	"0chain.net/smartcontract/minersc"
	"0chain.net/smartcontract/provider"
	"0chain.net/smartcontract/stakepool"
	"0chain.net/smartcontract/stakepool/spenum"
	"0chain.net/smartcontract/storagesc"
	"0chain.net/smartcontract/zcnsc"

	"github.com/0chain/common/core/util"

	"verif/harness/rec"
)

// ---------------------------------------------------------------------------------------------
// Projection of the real MPT: EVERY value node of the block state that is a stake pool (in any of the
// encodings the three contracts use), found by decoding the node bytes with the contracts' own codecs and
// requiring a byte-identical re-encoding -- not by looking up the keys a correct implementation would use.

type spNode struct {
	Path   string
	Key    string // "blobber:b1", "provider:m1" ... or "?<path prefix>" when no known (type, id) hashes to it
	Kind   string // codec: "storagesc" | "minersc" | "zcnsc" | "plain"
	SP     *stakepool.StakePool
	Offers uint64
	// for miner / sharder nodes (the stake pool lives inside the provider record)
	NodeID     string
	NodeKilled bool
}

type provRec struct {
	Exists bool
	Killed bool
	Shut   bool
}

var providerTypes = []string{"miner", "sharder", "blobber", "validator", "authorizer"}

// keyNames: MPT path -> readable key, for every (provider type, known id) combination.
func (e *env) keyNames() map[string]string {
	out := map[string]string{}
	for id := range e.w.Keys {
		n := e.w.Name(id)
		for _, t := range providerTypes {
			out[encryption.Hash(t+":stakepool:"+id)] = t + ":" + n
		}
		out[encryption.Hash(provider.GetKey(id))] = "provider:" + n
	}
	return out
}

func reencodes(b []byte, enc func() ([]byte, error)) bool {
	o, err := enc()
	return err == nil && bytes.Equal(o, b)
}

func decodeStakeNode(b []byte) (n spNode, ok bool) {
	defer func() {
		if r := recover(); r != nil {
			ok = false
		}
	}()
	if sp, off, ok := storagesc.VerifStakeDecodePool(b); ok {
		return spNode{Kind: "storagesc", SP: sp, Offers: uint64(off)}, true
	}
	mn := minersc.NewMinerNode()
	if _, err := mn.UnmarshalMsg(b); err == nil && mn.SimpleNode != nil && mn.StakePool != nil && mn.ID != "" &&
		reencodes(b, func() ([]byte, error) { return mn.MarshalMsg(nil) }) {
		return spNode{Kind: "minersc", SP: mn.StakePool, NodeID: mn.ID, NodeKilled: mn.SimpleNode.HasBeenKilled}, true
	}
	zp := zcnsc.NewStakePool()
	if _, err := zp.UnmarshalMsg(b); err == nil && reencodes(b, func() ([]byte, error) { return zp.MarshalMsg(nil) }) {
		return spNode{Kind: "zcnsc", SP: &zp.StakePool}, true
	}
	pp := stakepool.NewStakePool()
	if _, err := pp.UnmarshalMsg(b); err == nil && reencodes(b, func() ([]byte, error) { return pp.MarshalMsg(nil) }) {
		return spNode{Kind: "plain", SP: pp}, true
	}
	return spNode{}, false
}

// stakeNodes walks the whole state.
func (e *env) stakeNodes(s util.MerklePatriciaTrieI) []spNode {
	names := e.keyNames()
	var out []spNode
	err := s.Iterate(context.Background(), func(ctx context.Context, path util.Path, key util.Key, n util.Node) error {
		vn, ok := n.(*util.ValueNode)
		if !ok {
			return nil
		}
		b := vn.GetValueBytes()
		if len(b) == 0 {
			return nil
		}
		sn, ok := decodeStakeNode(b)
		if !ok {
			return nil
		}
		sn.Path = string(path)
		if k, ok := names[sn.Path]; ok {
			sn.Key = k
		} else {
			sn.Key = "?" + sn.Path[:8]
		}
		out = append(out, sn)
		return nil
	}, util.NodeTypeValueNode)
	if err != nil {
		rec.Fatal("stake node walk: %v", err)
	}
	sort.Slice(out, func(i, j int) bool { return out[i].Key < out[j].Key })
	return out
}

// spKey is the key under which a CORRECT implementation keeps the stake pool of p.
func spKey(p *prov) string {
	if p.SC == "minersc" {
		return "provider:" + p.Name
	}
	return p.Type.String() + ":" + p.Name
}

func findNode(ns []spNode, key string) *spNode {
	for i := range ns {
		if ns[i].Key == key {
			return &ns[i]
		}
	}
	return nil
}

// provRecord reads the provider record of p (killed / shut-down flags) from the state.
func (e *env) provRecord(s util.MerklePatriciaTrieI, p *prov) (r provRec) {
	defer func() {
		if x := recover(); x != nil {
			r = provRec{}
		}
	}()
	path := util.Path(encryption.Hash(provider.GetKey(p.Key.ID)))
	switch p.Type {
	case spenum.Miner, spenum.Sharder:
		mn := minersc.NewMinerNode()
		if err := s.GetNodeValue(path, mn); err != nil {
			return provRec{}
		}
		return provRec{Exists: true, Killed: mn.SimpleNode.HasBeenKilled, Shut: mn.SimpleNode.HasBeenShutDown}
	case spenum.Blobber:
		sn := &storagesc.StorageNode{}
		if err := s.GetNodeValue(path, sn); err != nil {
			return provRec{}
		}
		return provRec{Exists: true, Killed: sn.IsKilled(), Shut: sn.IsShutDown()}
	case spenum.Validator:
		vn := &storagesc.ValidationNode{}
		if err := s.GetNodeValue(path, vn); err != nil {
			return provRec{}
		}
		return provRec{Exists: true, Killed: vn.IsKilled(), Shut: vn.IsShutDown()}
	}
	return provRec{}
}

// pools of a stake pool as sorted (delegate name, value) pairs
func (e *env) poolPairs(sp *stakepool.StakePool) (bal, rew []pair) {
	if sp == nil {
		return []pair{}, []pair{}
	}
	ids := make([]string, 0, len(sp.Pools))
	for id := range sp.Pools {
		ids = append(ids, id)
	}
	sort.Slice(ids, func(i, j int) bool { return e.w.Name(ids[i]) < e.w.Name(ids[j]) })
	for _, id := range ids {
		dp := sp.Pools[id]
		bal = append(bal, pair{e.w.Name(id), capU(uint64(dp.Balance))})
		rew = append(rew, pair{e.w.Name(id), capU(uint64(dp.Reward))})
	}
	return orEmpty(bal), orEmpty(rew)
}
