// Package orderbuffer drives the real core/util/orderbuffer.OrderBuffer (property C46):
//
//	(1) EVERY sequence of `depth` operations over the alphabet {Add(r,d) : r in 1..R, d in 1..D} + {First, Pop},
//	    for every capacity in `caps` (the alphabet and capacities of spec/MC_OrderBuffer_*.cfg),
//	(2) seeded random long sequential histories (capacity up to 100 = the value used by the chain),
//	(3) concurrent histories: 4 goroutines, <= 8 calls, call-start / call-end events ordered by a
//	    global atomic ticket, validated for linearizability by spec/Trace_OrderBuffer.tla.
//
// After every sequential call the result and the full contents of the real buffer are logged.
package orderbuffer

import (
	"fmt"
	"runtime"
	"sort"
	"strconv"
	"strings"
	"sync"
	"sync/atomic"

	ob "0chain.net/core/util/orderbuffer"

	"verif/harness/common"
	"verif/harness/rec"
)

func init() { common.Register("orderbuffer", Run) }

// blk stands for *block.Block: the buffer stores a pointer, Add is called as Add(b.Round, b).
type blk struct {
	R int64
	D int
}

type op struct {
	Op string // Add | First | Pop
	R  int64
	D  int
}

type params struct {
	depth, rounds, ids, conc, reps int
	caps                           []int
}

func parseExtra(s string) params {
	p := params{depth: 3, rounds: 3, ids: 2, conc: 100, reps: 400, caps: []int{1, 2, 3}}
	for _, kv := range strings.Split(s, ",") {
		if kv == "" {
			continue
		}
		x := strings.SplitN(kv, "=", 2)
		if len(x) != 2 {
			rec.Fatal("orderbuffer: bad --extra item %q", kv)
		}
		switch x[0] {
		case "caps":
			p.caps = nil
			for _, c := range strings.Split(x[1], "/") {
				n, err := strconv.Atoi(c)
				if err != nil {
					rec.Fatal("orderbuffer: bad caps %q", x[1])
				}
				p.caps = append(p.caps, n)
			}
		default:
			n, err := strconv.Atoi(x[1])
			if err != nil {
				rec.Fatal("orderbuffer: bad --extra item %q", kv)
			}
			switch x[0] {
			case "depth":
				p.depth = n
			case "rounds":
				p.rounds = n
			case "ids":
				p.ids = n
			case "conc":
				p.conc = n
			case "reps":
				p.reps = n
			default:
				rec.Fatal("orderbuffer: unknown --extra key %q", x[0])
			}
		}
	}
	return p
}

// pool hands out one pointer per (round, id) and trace, so that a repeated block is the same pointer.
type pool map[[2]int64]*blk

func (p pool) get(r int64, d int) *blk {
	k := [2]int64{r, int64(d)}
	if b, ok := p[k]; ok {
		return b
	}
	b := &blk{R: r, D: d}
	p[k] = b
	return b
}

func itemM(it ob.Item, ok bool) rec.M {
	if !ok || it.Data == nil {
		return rec.M{"r": int64(0), "d": 0}
	}
	b, isBlk := it.Data.(*blk)
	if !isBlk {
		return rec.M{"r": it.Round, "d": -1}
	}
	// r = the round the BUFFER reports for the item; a block's own round is b.R (they must agree)
	if b.R != it.Round {
		return rec.M{"r": it.Round, "d": -2}
	}
	return rec.M{"r": it.Round, "d": b.D}
}

func contents(b *ob.OrderBuffer) []rec.M {
	out := make([]rec.M, 0, len(b.Buffer))
	for _, it := range b.Buffer {
		out = append(out, itemM(it, true))
	}
	return out
}

// call executes one operation on the real buffer; a panic is reported, not propagated.
func call(b *ob.OrderBuffer, pl pool, o op) (ok bool, it ob.Item, panicked bool) {
	defer func() {
		if r := recover(); r != nil {
			panicked = true
		}
	}()
	switch o.Op {
	case "Add":
		ok = b.Add(o.R, pl.get(o.R, o.D))
	case "First":
		it, ok = b.First()
	case "Pop":
		it, ok = b.Pop()
	}
	return
}

func sameContents(a, b []rec.M) bool {
	if len(a) != len(b) {
		return false
	}
	for i := range a {
		if a[i]["r"] != b[i]["r"] || a[i]["d"] != b[i]["d"] {
			return false
		}
	}
	return true
}

// addShape labels an Add for the coverage counters (labels only; the verdict is TLC's).
func addShape(pre []rec.M, o op, post []rec.M, cap int) string {
	last := -1
	for i, it := range pre {
		if it["r"].(int64) <= o.R {
			last = i
		}
	}
	switch {
	case last >= 0 && pre[last]["r"].(int64) == o.R && pre[last]["d"].(int) == o.D:
		return "repeat"
	case len(pre) >= cap && sameContents(pre, post):
		return "full-newdropped"
	case len(pre) >= cap:
		return "full-evict"
	}
	return "insert"
}

func (o op) String() string {
	if o.Op == "Add" {
		return fmt.Sprintf("Add(%d,%d)", o.R, o.D)
	}
	return o.Op
}

// sequential runs one sequential trace.
func sequential(rc *rec.Recorder, id int, kind string, cap int, ops []op, seed int64) {
	rc.TraceID = id - 1
	strs := make([]string, len(ops))
	for i, o := range ops {
		strs[i] = o.String()
	}
	rc.Reset(rec.M{"family": "orderbuffer", "kind": kind, "id": id, "seed": seed, "cap": cap, "ops": strs},
		rec.M{"mode": "seq", "cap": cap})
	b := ob.New(cap)
	pl := pool{}
	for _, o := range ops {
		pre := contents(b)
		ok, it, pan := call(b, pl, o)
		post := contents(b)
		m := rec.M{"ev": o.Op, "r": o.R, "d": o.D, "ok": ok, "item": itemM(it, ok), "buf": post, "panic": pan}
		shape := ""
		nontrivial := false
		switch o.Op {
		case "Add":
			shape = addShape(pre, o, post, cap)
			nontrivial = !sameContents(pre, post)
		default:
			if ok {
				shape = "ok"
			} else {
				shape = "empty"
			}
			nontrivial = o.Op == "Pop" && ok
		}
		rc.Emit(m, shape, nontrivial)
	}
}

type cev struct {
	t    int64
	call bool
	g    int
	o    op
	ok   bool
	it   rec.M
	pan  bool
}

// concurrent runs one concurrent history: `prefill` sequential adds by goroutine 1, then the 4
// goroutines start together (spin barrier) and execute their calls; every call takes a ticket
// before it starts and after it returns.
func concurrent(rc *rec.Recorder, id int, cap int, prefill []op, per [4][]op, seed int64, rep int) {
	rc.TraceID = id - 1
	sc := rec.M{"family": "orderbuffer", "kind": "conc", "id": id, "seed": seed, "cap": cap, "rep": rep}
	ps := []string{}
	for _, o := range prefill {
		ps = append(ps, o.String())
	}
	sc["prefill"] = ps
	for g := 0; g < 4; g++ {
		s := []string{}
		for _, o := range per[g] {
			s = append(s, o.String())
		}
		sc[fmt.Sprintf("g%d", g+1)] = s
	}
	rc.Reset(sc, rec.M{"mode": "conc", "cap": cap})
	b := ob.New(cap)
	pl := pool{} // filled before the goroutines start, read-only afterwards
	for _, o := range prefill {
		pl.get(o.R, o.D)
	}
	for g := 0; g < 4; g++ {
		for _, o := range per[g] {
			if o.Op == "Add" {
				pl.get(o.R, o.D)
			}
		}
	}
	var ticket int64
	var evs [5][]cev
	do := func(g int, o op, out *[]cev) {
		t0 := atomic.AddInt64(&ticket, 1)
		ok, it, pan := call(b, pl, o)
		t1 := atomic.AddInt64(&ticket, 1)
		*out = append(*out, cev{t: t0, call: true, g: g, o: o}, cev{t: t1, g: g, o: o, ok: ok, it: itemM(it, ok), pan: pan})
	}
	for _, o := range prefill {
		do(1, o, &evs[0])
	}
	var start int32
	var ready int32
	var wg sync.WaitGroup
	for g := 0; g < 4; g++ {
		if len(per[g]) == 0 {
			continue
		}
		wg.Add(1)
		go func(g int) {
			defer wg.Done()
			atomic.AddInt32(&ready, 1)
			for atomic.LoadInt32(&start) == 0 {
			}
			for _, o := range per[g] {
				do(g+1, o, &evs[g+1])
			}
		}(g)
	}
	want := int32(0)
	for g := 0; g < 4; g++ {
		if len(per[g]) > 0 {
			want++
		}
	}
	for atomic.LoadInt32(&ready) < want {
		runtime.Gosched()
	}
	atomic.StoreInt32(&start, 1)
	wg.Wait()
	var all []cev
	for _, e := range evs {
		all = append(all, e...)
	}
	sort.Slice(all, func(i, j int) bool { return all[i].t < all[j].t })
	for _, e := range all {
		if e.call {
			rc.Emit(rec.M{"ev": "Call", "g": e.g, "op": e.o.Op, "r": e.o.R, "d": e.o.D, "t": e.t}, e.o.Op, false)
		} else {
			rc.Emit(rec.M{"ev": "Ret", "g": e.g, "op": e.o.Op, "ok": e.ok, "r": e.it["r"], "d": e.it["d"], "t": e.t, "panic": e.pan}, e.o.Op, e.ok)
		}
	}
	var fin []rec.M
	func() {
		defer func() {
			if r := recover(); r != nil {
				fin = []rec.M{{"r": int64(-1), "d": -1}}
			}
		}()
		fin = contents(b)
	}()
	rc.Emit(rec.M{"ev": "Final", "buf": fin}, "conc", true)
}

// Run is the driver entry point.
func Run(a common.Args) {
	p := parseExtra(a.Extra)
	rc := rec.New(a.Out)
	defer rc.Close()
	rc.MaxSamples = 3
	if runtime.GOMAXPROCS(0) < 4 {
		runtime.GOMAXPROCS(4)
	}

	var alphabet []op
	for r := 1; r <= p.rounds; r++ {
		for d := 1; d <= p.ids; d++ {
			alphabet = append(alphabet, op{"Add", int64(r), d})
		}
	}
	alphabet = append(alphabet, op{Op: "First"}, op{Op: "Pop"})

	id := 0
	// (1) every operation sequence of length depth, for every capacity
	nseq := 1
	for i := 0; i < p.depth; i++ {
		nseq *= len(alphabet)
	}
	for _, cap := range p.caps {
		for n := 0; n < nseq; n++ {
			id++
			if a.Only != 0 && a.Only != id {
				rc.TraceID = id
				continue
			}
			ops := make([]op, p.depth)
			x := n
			for i := p.depth - 1; i >= 0; i-- {
				ops[i] = alphabet[x%len(alphabet)]
				x /= len(alphabet)
			}
			sequential(rc, id, "exhaustive", cap, ops, a.Seed)
		}
	}
	rc.Extra["x_exhaustive_sequences"] = nseq * len(p.caps)

	// (2) seeded random long histories
	for i := 0; i < a.N; i++ {
		id++
		if a.Only != 0 && a.Only != id {
			rc.TraceID = id
			continue
		}
		r := common.TraceRand(a.Seed, id)
		cap := []int{1, 2, 3, 4, 5, 8, 100}[r.Intn(7)]
		nr := 2 + r.Intn(10) // few rounds: many collisions
		nd := 1 + r.Intn(3)
		ops := make([]op, 0, a.Steps)
		var lastAdd *op
		for s := 0; s < a.Steps; s++ {
			switch x := r.Intn(100); {
			case x < 50:
				o := op{"Add", int64(1 + r.Intn(nr)), 1 + r.Intn(nd)}
				ops = append(ops, o)
				lastAdd = &ops[len(ops)-1]
			case x < 62 && lastAdd != nil: // exact repeat of the block added last
				ops = append(ops, *lastAdd)
			case x < 75:
				ops = append(ops, op{Op: "First"})
			default:
				ops = append(ops, op{Op: "Pop"})
			}
		}
		sequential(rc, id, "random", cap, ops, a.Seed)
	}

	// (3) concurrent histories
	for i := 0; i < p.conc; i++ {
		id++
		if a.Only != 0 && a.Only != id {
			rc.TraceID = id
			continue
		}
		r := common.TraceRand(a.Seed, id)
		cap := 1 + r.Intn(4)
		nr := 1 + r.Intn(4)
		rop := func() op {
			switch x := r.Intn(100); {
			case x < 55:
				return op{"Add", int64(1 + r.Intn(nr)), 1 + r.Intn(2)}
			case x < 70:
				return op{Op: "First"}
			}
			return op{Op: "Pop"}
		}
		var prefill []op
		for k := r.Intn(3); k > 0; k-- {
			prefill = append(prefill, op{"Add", int64(1 + r.Intn(nr)), 1 + r.Intn(2)})
		}
		var per [4][]op
		left := 8 - len(prefill)
		for g := 0; g < 4; g++ {
			n := 1 + r.Intn(2)
			if n > left-(3-g) {
				n = left - (3 - g)
			}
			left -= n
			for k := 0; k < n; k++ {
				per[g] = append(per[g], rop())
			}
		}
		reps := 1
		if a.Only != 0 {
			reps = p.reps // schedules are not reproducible: re-execute the scenario many times
		}
		for rep := 0; rep < reps; rep++ {
			concurrent(rc, id, cap, prefill, per, a.Seed, rep)
		}
	}
}
