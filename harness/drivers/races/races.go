// Package races (C44): every scenario enumerated by TLC from spec/RoundLocks.tla (a pair of exported
// operations of round.Round / block.Block on one shared object, or the worker pool of
// miner.Chain.ValidateTransactions) is executed concurrently on REAL objects in a binary built with the
// Go race detector.  The detector is the observer: it ends the process at the first report
// (GORACE halt_on_error), so the scenarios run in child processes (this binary re-executed with
// --extra child=1,pair=<i>,...): a child runs scenario i, i+1, ... and prints "DONE <i>" after each clean
// one; when it dies with the detector's exit code the scenario in progress raced, the report on its
// stderr is summarised and the next child starts after it.  Logged per scenario: race yes/no, the top
// frames of the two conflicting accesses, the model's prediction (information only).
package races

import (
	"bufio"
	"bytes"
	"context"
	"encoding/json"
	"fmt"
	"os"
	"os/exec"
	"regexp"
	"sort"
	"strconv"
	"strings"
	"sync"
	"time"

	"0chain.net/chaincore/block"
	"0chain.net/chaincore/node"
	"0chain.net/chaincore/round"
	"0chain.net/chaincore/transaction"
	"0chain.net/core/common"
	"0chain.net/core/datastore"
	"0chain.net/core/encryption"
	"0chain.net/core/memorystore"

	"github.com/0chain/common/core/logging"
	"github.com/0chain/common/core/statecache"
	"github.com/0chain/common/core/util"
	"github.com/herumi/bls-go-binary/bls"
	"go.uber.org/zap"

	vc "verif/harness/common"
	"verif/harness/minerworld"
	"verif/harness/rec"
	"verif/harness/world"
)

func init() { vc.Register("races", Run) }

const (
	raceExit = 66
	hangExit = 67
)

// one line printed by Gen_RoundLocks: a scenario (race == "") or one location on which the model
// finds the scenario racy
type line struct {
	Sc   []string `json:"sc"`
	Race string   `json:"race"`
	Conf bool     `json:"conf"`
}

type scenario struct {
	Name string
	Ops  []string
	Pred []string // locations the model predicts a race on
	Conf bool     // the operations share a location that one of them writes
}

func load(path string) []scenario {
	m := map[string]*scenario{}
	for _, raw := range vc.Behaviours(path) {
		var l line
		if err := json.Unmarshal(raw, &l); err != nil {
			rec.Fatal("behaviour: %v", err)
		}
		k := strings.Join(l.Sc, " | ")
		s := m[k]
		if s == nil {
			s = &scenario{Name: k, Ops: l.Sc}
			m[k] = s
		}
		if l.Race != "" {
			s.Pred = append(s.Pred, l.Race)
		} else {
			s.Conf = l.Conf
		}
	}
	var out []scenario
	for _, s := range m {
		sort.Strings(s.Pred)
		out = append(out, *s)
	}
	sort.Slice(out, func(i, j int) bool { return out[i].Name < out[j].Name })
	return out
}

func kv(s, key, def string) string {
	for _, p := range strings.Split(s, ",") {
		if strings.HasPrefix(p, key+"=") {
			return p[len(key)+1:]
		}
	}
	return def
}

func Run(a vc.Args) {
	scs := load(a.Behav)
	if len(scs) == 0 {
		rec.Fatal("races: no scenarios (needs --behaviours)")
	}
	iters, _ := strconv.Atoi(kv(a.Extra, "iters", "100"))
	if kv(a.Extra, "child", "") != "" {
		first, _ := strconv.Atoi(kv(a.Extra, "pair", "0"))
		count, _ := strconv.Atoi(kv(a.Extra, "count", "1"))
		child(scs, first, count, iters)
		return
	}
	parent(a, scs, iters)
}

// ------------------------------------------------------------------ parent

type verdict struct {
	race, crash, hang bool
	site, defect      string
	panics            int
	note              string
}

func parent(a vc.Args, scs []scenario, iters int) {
	rc := rec.New(a.Out)
	defer rc.Close()
	res := make([]*verdict, len(scs))
	runFrom := func(first, count int) {
		for first < len(scs) && count > 0 {
			done, v := spawn(a, first, count, iters)
			for i, p := range done {
				res[first+i] = &verdict{panics: p}
			}
			next := first + len(done)
			if v == nil { // the child ended normally
				return
			}
			res[next] = v
			count -= len(done) + 1
			first = next + 1
		}
	}
	if a.Only != 0 {
		runFrom(a.Only-1, 1)
	} else {
		runFrom(0, len(scs))
	}
	agree, disagree, panics := 0, 0, 0
	for i, s := range scs {
		id := i + 1
		if a.Only != 0 && a.Only != id {
			rc.TraceID = id
			continue
		}
		v := res[i]
		if v == nil {
			rec.Fatal("races: scenario %d (%s) has no verdict", id, s.Name)
		}
		rc.TraceID = id - 1
		rc.Reset(rec.M{"family": "races", "id": id, "pair": s.Name, "iters": iters}, nil)
		// the "returned slice is walked after the lock is released" class names ONE getter (GetProposedBlocks, a
		// recorded finding); the same kind of race through any other getter is a different defect
		if v.race && v.defect == sliceDefect && !strings.Contains(s.Name, "GetProposedBlocks") {
			v.defect = "other: " + v.site + " in " + s.Name
		}
		pred := s.Pred
		if pred == nil {
			pred = []string{}
		}
		if (len(pred) > 0) == v.race {
			agree++
		} else {
			disagree++
		}
		panics += v.panics
		rc.Emit(rec.M{"ev": "Pair", "pair": s.Name, "kind": s.Name[:1], "race": v.race, "site": v.site, "defect": v.defect,
			"crash": v.crash, "hang": v.hang, "note": v.note, "iters": iters, "detector": raceEnabled,
			"pred": pred, "pred_race": len(pred) > 0, "panics": v.panics},
			fmt.Sprintf("%s/%v", s.Name, v.race), s.Conf || v.race)
	}
	rc.Extra["x_model_agrees"] = agree
	rc.Extra["x_model_disagrees"] = disagree
	rc.Extra["x_recovered_panics"] = panics
	rc.Extra["x_iterations_per_scenario"] = iters
	rc.Extra["x_race_detector"] = raceEnabled
}

// spawn runs one child from scenario `first`; it returns the panic counts of the scenarios the child
// completed cleanly and, if the child died, the verdict of the scenario that was in progress.
func spawn(a vc.Args, first, count, iters int) ([]int, *verdict) {
	args := []string{"races", "--prop", a.Prop, "--tier", a.Tier, "--seed", fmt.Sprint(a.Seed), "--out", a.Out + "/child",
		"--behaviours", a.Behav, "--extra", fmt.Sprintf("child=1,pair=%d,count=%d,iters=%d", first, count, iters)}
	cmd := exec.Command(os.Args[0], args...)
	cmd.Env = append(os.Environ(), fmt.Sprintf("GORACE=halt_on_error=1 exitcode=%d", raceExit))
	var so, se bytes.Buffer
	cmd.Stdout, cmd.Stderr = &so, &se
	err := cmd.Run()
	var done []int
	sc := bufio.NewScanner(&so)
	for sc.Scan() {
		f := strings.Fields(sc.Text())
		if len(f) == 3 && f[0] == "DONE" {
			p, _ := strconv.Atoi(f[2])
			done = append(done, p)
		}
	}
	if err == nil {
		return done, nil
	}
	code := -1
	if ee, ok := err.(*exec.ExitError); ok {
		code = ee.ExitCode()
	}
	text := se.String()
	switch {
	case code == raceExit && strings.Contains(text, "WARNING: DATA RACE"):
		site := summarise(text)
		return done, &verdict{race: true, site: site, defect: defectOf(site)}
	case code == hangExit:
		return done, &verdict{hang: true, note: "scenario did not finish within the watchdog"}
	default:
		if len(text) > 300 {
			text = text[len(text)-300:]
		}
		return done, &verdict{crash: true, note: fmt.Sprintf("exit %d: %s", code, text)}
	}
}

var accessRe = regexp.MustCompile(`^(Previous )?(atomic )?(read|write|Read|Write) at 0x[0-9a-f]+ by (main goroutine|goroutine \d+):`)

// summarise extracts, for the two conflicting accesses of the first report, the innermost frame that
// belongs to the repository (or, failing that, to this driver).
func summarise(rep string) string {
	lines := strings.Split(rep, "\n")
	var sites []string
	for i := 0; i < len(lines) && len(sites) < 2; i++ {
		if !accessRe.MatchString(strings.TrimSpace(lines[i])) {
			continue
		}
		var own, drv string
		for j := i + 1; j < len(lines); j++ {
			t := strings.TrimSpace(lines[j])
			if t == "" {
				break
			}
			if strings.HasPrefix(lines[j], "      ") { // file:line
				continue
			}
			fn := strings.TrimSuffix(t, "()")
			if own == "" && strings.HasPrefix(fn, "0chain.net/") {
				own = strings.TrimPrefix(fn, "0chain.net/")
			}
			if drv == "" && strings.Contains(fn, "harness/drivers/races.") {
				drv = "caller" // the access was inlined into (or made by) the calling code of the driver
			}
		}
		if own == "" {
			own = drv
		}
		if own == "" {
			own = "?"
		}
		sites = append(sites, own)
	}
	sort.Strings(sites)
	return strings.Join(sites, " | ")
}

const sliceDefect = "a slice returned by a locked getter shares its backing array with the round (walked after the lock is released)"

// defectOf groups the racing frames by the unsynchronised accessor involved (first match wins).
func defectOf(site string) string {
	for _, d := range [][2]string{
		{"ValidateTransactions", "miner.ValidateTransactions: cancel / roundMismatch flags shared by the workers without synchronisation"},
		{"round.(*Round).GetNotarizedBlocks", "round.Round.GetNotarizedBlocks returns the slice without holding the round mutex"},
		{"round.(*Round).Clone", "round.Round.Clone reads atomically-written fields plainly and the timeout counter without its mutex"},
		{"block.(*Block).SetBlockState", "block.Block blockState is read and written without any mutex"},
		{"block.(*Block).GetBlockState", "block.Block blockState is read and written without any mutex"},
		{"block.(*Block).SetVerificationStatus", "block.Block verificationStatus is read and written without any mutex"},
		{"block.(*Block).GetVerificationStatus", "block.Block verificationStatus is read and written without any mutex"},
		{"block.(*Block).GetSummary", "block.Block.GetSummary reads state-hash and previous-block fields outside their mutexes"},
		{"block.(*Block).Clone", "block.Block.Clone reads ticket, status and state fields outside their mutexes"},
		{"block.(*UnverifiedBlockBody).Clone", "block.Block.Clone reads ticket, status and state fields outside their mutexes"},
		{"block.copyVerificationTickets", "block.Block.Clone reads ticket, status and state fields outside their mutexes"},
		{"addProposedBlock", "a slice returned by a locked getter shares its backing array with the round (walked after the lock is released)"},
		{"caller", "a slice returned by a locked getter shares its backing array with the round (walked after the lock is released)"},
	} {
		if strings.Contains(site, d[0]) {
			return d[1]
		}
	}
	return "other: " + site
}

// ------------------------------------------------------------------ child

type env struct {
	r      *round.Round
	b      *block.Block
	blocks []*block.Block // fresh blocks, two per goroutine
	dup    *block.Block   // another object with the hash of a proposed block
	prev   *block.Block
	vts    [][]*block.VerificationTicket
	shares []*round.VRFShare
}

var (
	miners   *node.Pool
	nodes    []*node.Node
	roundOps = map[string]func(e *env, g int){}
	blockOps = map[string]func(e *env, g int){}
	mw       *minerworld.MinerWorld
)

func newKeyNode(name string, idx int) *node.Node {
	h := encryption.RawHash("verif-races:" + name)
	h[31] &= 0x0f
	var sk bls.SecretKey
	if err := sk.SetLittleEndian(h); err != nil {
		panic(err)
	}
	n := node.Provider()
	n.Type = node.NodeTypeMiner
	n.Host, n.N2NHost, n.Port = "localhost", "localhost", 7100+idx
	n.Status = node.NodeStatusActive
	n.SetSignatureSchemeType(encryption.SignatureSchemeBls0chain)
	pub := sk.GetPublicKey().SerializeToHexStr()
	if err := n.SetPublicKey(pub); err != nil {
		panic(err)
	}
	n.SetIndex = idx
	return n
}

func lightSetup() {
	if miners != nil {
		return
	}
	if logging.Logger == nil {
		logging.Logger = zap.NewNop()
		logging.N2n = zap.NewNop()
		logging.MemUsage = zap.NewNop()
	}
	if datastore.GetEntityMetadata("block_summary") == nil {
		block.SetupBlockSummaryEntity(memorystore.GetStorageProvider()) // Block.GetSummary instantiates a summary entity
	}
	miners = node.NewPool(node.NodeTypeMiner)
	for i := 0; i < 4; i++ {
		n := newKeyNode(fmt.Sprintf("m%d", i+1), i)
		if err := miners.AddNode(n); err != nil {
			panic(err)
		}
		nodes = append(nodes, n)
	}
	node.Self.Node = nodes[0]
}

func mkBlock(hash string, rank int) *block.Block {
	b := block.Provider().(*block.Block)
	b.Round = 7
	b.Hash = hash
	b.RoundRank = rank
	b.MinerID = nodes[rank%len(nodes)].GetKey()
	return b
}

func ticket(i int) *block.VerificationTicket {
	return &block.VerificationTicket{VerifierID: fmt.Sprintf("verifier-%d", i), Signature: fmt.Sprintf("sig-%d", i)}
}

func newEnv() *env {
	e := &env{}
	r := round.Provider().(*round.Round)
	r.Number = 7
	// miner ranks computed, random seed still unset (Restart keeps the ranks and clears the seed)
	r.SetRandomSeedForNotarizedBlock(99, 4)
	_ = r.Restart()
	// two proposed blocks (ranks 2, 3), one of them notarized; the blocks handed to the operations
	// have better ranks, so sorting really moves elements
	p2, p3 := mkBlock("p2", 2), mkBlock("p3", 3)
	r.AddProposedBlock(p2)
	r.AddProposedBlock(p3)
	// three notarized blocks: the slice then has spare capacity (len 3, cap 4), so the next AddNotarizedBlock
	// appends and sorts IN PLACE and UpdateNotarizedBlock(dup of p3) assigns in place - writes that a reader
	// of an un-copied GetNotarizedBlocks result would race with
	r.AddNotarizedBlock(p2)
	r.AddNotarizedBlock(p3)
	r.AddNotarizedBlock(mkBlock("p4", 4))
	r.ResetPhase(round.Verify) // AddNotarizedBlock moved the phase to Share: a restart is possible again
	r.AddTimeoutVote(1, nodes[1].GetKey())
	e.r = r
	e.blocks = []*block.Block{mkBlock("g0a", 0), mkBlock("g1a", 1), mkBlock("g0b", 0), mkBlock("g1b", 1)}
	e.dup = mkBlock("p3", 3)
	for g := 0; g < 2; g++ {
		s := &round.VRFShare{Round: 7, Share: fmt.Sprintf("share-%d", g)}
		s.SetParty(nodes[1+g])
		e.shares = append(e.shares, s)
	}
	// the shared block
	b := mkBlock("shared", 1)
	b.VerificationTickets = []*block.VerificationTicket{ticket(1), ticket(2)}
	b.PrevBlockVerificationTickets = []*block.VerificationTicket{ticket(3)}
	b.Txns = []*transaction.Transaction{}
	b.ComputeTxnMap()
	e.b = b
	e.prev = mkBlock("prev", 0)
	e.prev.Round = 6
	e.prev.VerificationTickets = []*block.VerificationTicket{ticket(4)}
	e.vts = [][]*block.VerificationTicket{{ticket(10), ticket(11)}, {ticket(20), ticket(21)}}
	return e
}

func init() {
	R := roundOps
	R["R.GetNotarizedBlocks"] = func(e *env, g int) {
		for _, b := range e.r.GetNotarizedBlocks() {
			_ = b
		}
	}
	R["R.AddNotarizedBlock"] = func(e *env, g int) { e.r.AddNotarizedBlock(e.blocks[g]) }
	R["R.UpdateNotarizedBlock"] = func(e *env, g int) { e.r.UpdateNotarizedBlock(e.dup) }
	R["R.AddProposedBlock"] = func(e *env, g int) { e.r.AddProposedBlock(e.blocks[g]) }
	R["R.GetProposedBlocks+range"] = rangeProposed
	R["R.GetHeaviestNotarizedBlock"] = func(e *env, g int) { _ = e.r.GetHeaviestNotarizedBlock() }
	R["R.GetBestRankedNotarizedBlock"] = func(e *env, g int) { _ = e.r.GetBestRankedNotarizedBlock() }
	R["R.GetBestRankedProposedBlock"] = func(e *env, g int) { _ = e.r.GetBestRankedProposedBlock() }
	R["R.Finalize"] = func(e *env, g int) { e.r.Finalize(e.blocks[2+g]) }
	R["R.GetBlockHash"] = func(e *env, g int) { _ = e.r.GetBlockHash() }
	R["R.SetFinalizing"] = func(e *env, g int) { _ = e.r.SetFinalizing() }
	R["R.SetFinalized"] = func(e *env, g int) { e.r.SetFinalized() }
	R["R.ResetFinalizingState"] = func(e *env, g int) { e.r.ResetFinalizingState() }
	R["R.ResetFinalizingStateIfNotFinalized"] = func(e *env, g int) { e.r.ResetFinalizingStateIfNotFinalized() }
	R["R.IsFinalizing"] = func(e *env, g int) { _ = e.r.IsFinalizing() }
	R["R.IsFinalized"] = func(e *env, g int) { _ = e.r.IsFinalized() }
	R["R.FinalizeState"] = func(e *env, g int) { _ = e.r.FinalizeState() }
	R["R.SetRandomSeed"] = func(e *env, g int) { e.r.SetRandomSeed(int64(1000+g), 4) }
	R["R.SetRandomSeedForNotarizedBlock"] = func(e *env, g int) { e.r.SetRandomSeedForNotarizedBlock(int64(2000+g), 4) }
	R["R.GetRandomSeed"] = func(e *env, g int) { _ = e.r.GetRandomSeed() }
	R["R.HasRandomSeed"] = func(e *env, g int) { _ = e.r.HasRandomSeed() }
	R["R.SetVRFOutput"] = func(e *env, g int) { e.r.SetVRFOutput(fmt.Sprint("out", g)) }
	R["R.GetVRFOutput"] = func(e *env, g int) { _ = e.r.GetVRFOutput() }
	R["R.IsRanksComputed"] = func(e *env, g int) { _ = e.r.IsRanksComputed() }
	R["R.GetMinerRank"] = func(e *env, g int) { _ = e.r.GetMinerRank(nodes[1]) }
	R["R.Restart"] = func(e *env, g int) { _ = e.r.Restart() }
	R["R.AddVRFShare"] = func(e *env, g int) { _ = e.r.AddVRFShare(e.shares[g], 3) }
	R["R.VRFShareExist"] = func(e *env, g int) { _ = e.r.VRFShareExist(e.shares[g]) }
	R["R.GetVRFShares"] = func(e *env, g int) { _ = e.r.GetVRFShares() }
	R["R.GetPhase"] = func(e *env, g int) { _ = e.r.GetPhase() }
	R["R.SetPhase"] = func(e *env, g int) { e.r.SetPhase(round.Notarize) }
	R["R.ResetPhase"] = func(e *env, g int) { e.r.ResetPhase(round.ShareVRF) }
	R["R.IncSoftTimeoutCount"] = func(e *env, g int) { e.r.IncSoftTimeoutCount() }
	R["R.GetSoftTimeoutCount"] = func(e *env, g int) { _ = e.r.GetSoftTimeoutCount() }
	R["R.SetVrfStartTime"] = func(e *env, g int) { e.r.SetVrfStartTime(time.Unix(int64(1000+g), 0)) }
	R["R.GetVrfStartTime"] = func(e *env, g int) { _ = e.r.GetVrfStartTime() }
	R["R.AddTimeoutVote"] = func(e *env, g int) { e.r.AddTimeoutVote(2+g, nodes[2+g].GetKey()) }
	R["R.IncrementTimeoutCount"] = func(e *env, g int) { e.r.IncrementTimeoutCount(77, miners) }
	R["R.SetTimeoutCount"] = func(e *env, g int) { _ = e.r.SetTimeoutCount(3 + g) }
	R["R.GetTimeoutCount"] = func(e *env, g int) { _ = e.r.GetTimeoutCount() }
	R["R.Clone"] = func(e *env, g int) { _ = e.r.Clone() }

	B := blockOps
	B["B.AddVerificationTicket"] = func(e *env, g int) { _ = e.b.AddVerificationTicket(ticket(30 + g)) }
	B["B.MergeVerificationTickets"] = func(e *env, g int) { e.b.MergeVerificationTickets(e.vts[g]) }
	B["B.GetVerificationTickets"] = func(e *env, g int) { _ = e.b.GetVerificationTickets() }
	B["B.VerificationTicketsSize"] = func(e *env, g int) { _ = e.b.VerificationTicketsSize() }
	B["B.UnknownTickets"] = func(e *env, g int) { _ = e.b.UnknownTickets(e.vts[g]) }
	B["B.SetBlockNotarized"] = func(e *env, g int) { e.b.SetBlockNotarized() }
	B["B.IsBlockNotarized"] = func(e *env, g int) { _ = e.b.IsBlockNotarized() }
	B["B.SetBlockFinalised"] = func(e *env, g int) { e.b.SetBlockFinalised() }
	B["B.IsBlockFinalised"] = func(e *env, g int) { _ = e.b.IsBlockFinalised() }
	B["B.SetPreviousBlock"] = func(e *env, g int) { e.b.SetPreviousBlock(e.prev) }
	B["B.GetPrevBlockVerificationTickets"] = func(e *env, g int) { _ = e.b.GetPrevBlockVerificationTickets() }
	B["B.SetPrevBlockVerificationTickets"] = func(e *env, g int) { e.b.SetPrevBlockVerificationTickets(e.vts[g]) }
	B["B.PrevBlockVerificationTicketsSize"] = func(e *env, g int) { _ = e.b.PrevBlockVerificationTicketsSize() }
	B["B.GetStateStatus"] = func(e *env, g int) { _ = e.b.GetStateStatus() }
	B["B.IsStateComputed"] = func(e *env, g int) { _ = e.b.IsStateComputed() }
	B["B.SetStateStatus"] = func(e *env, g int) { e.b.SetStateStatus(block.StateSuccessful) }
	B["B.SetBlockState"] = func(e *env, g int) { e.b.SetBlockState(block.StateVerificationAccepted) }
	B["B.GetBlockState"] = func(e *env, g int) { _ = e.b.GetBlockState() }
	B["B.SetVerificationStatus"] = func(e *env, g int) { e.b.SetVerificationStatus(block.VerificationSuccessful) }
	B["B.GetVerificationStatus"] = func(e *env, g int) { _ = e.b.GetVerificationStatus() }
	B["B.SetClientState"] = func(e *env, g int) {
		e.b.SetClientState(util.NewMerklePatriciaTrie(util.NewMemoryNodeDB(), util.Sequence(7), nil, statecache.NewEmpty()))
	}
	B["B.ComputeTxnMap"] = func(e *env, g int) { e.b.ComputeTxnMap() }
	B["B.HasTransaction"] = func(e *env, g int) { _ = e.b.HasTransaction("x") }
	B["B.AddUniqueBlockExtension"] = func(e *env, g int) { e.b.AddUniqueBlockExtension(e.blocks[g]) }
	B["B.GetUniqueBlockExtensions"] = func(e *env, g int) { _ = e.b.GetUniqueBlockExtensions() }
	B["B.SetRoundRandomSeed"] = func(e *env, g int) { e.b.SetRoundRandomSeed(int64(5 + g)) }
	B["B.GetRoundRandomSeed"] = func(e *env, g int) { _ = e.b.GetRoundRandomSeed() }
	B["B.GetSummary"] = func(e *env, g int) { _ = e.b.GetSummary() }
	B["B.Clone"] = func(e *env, g int) { _ = e.b.Clone() }
	B["X.Round.AddNotarizedBlock(b)"] = func(e *env, g int) { e.r.AddNotarizedBlock(e.b) }
}

//go:noinline
func rangeProposed(e *env, g int) {
	n := 0
	for _, b := range e.r.GetProposedBlocks() {
		if b != nil {
			n++
		}
	}
	_ = n
}

func opOf(name string) func(e *env, g int) {
	if f, ok := roundOps[name]; ok {
		return f
	}
	if f, ok := blockOps[name]; ok {
		return f
	}
	rec.Fatal("races: unknown operation %q", name)
	return nil
}

// runPair executes the two operations concurrently `iters` times on fresh objects.
func runPair(s scenario, iters int) (panics int) {
	lightSetup()
	fa, fb := opOf(s.Ops[0]), opOf(s.Ops[1])
	var mu sync.Mutex
	for it := 0; it < iters; it++ {
		e := newEnv()
		start := make(chan struct{})
		var wg sync.WaitGroup
		for g, f := range []func(*env, int){fa, fb} {
			wg.Add(1)
			go func(g int, f func(*env, int)) {
				defer wg.Done()
				defer func() {
					if r := recover(); r != nil {
						mu.Lock()
						panics++
						mu.Unlock()
					}
				}()
				<-start
				f(e, g)
			}(g, f)
		}
		close(start)
		wg.Wait()
	}
	return
}

func child(scs []scenario, first, count, iters int) {
	for i := first; i < first+count && i < len(scs); i++ {
		s := scs[i]
		done := make(chan int, 1)
		go func() {
			if strings.HasPrefix(s.Name, "V.") {
				done <- runVT(s, iters)
			} else {
				if len(s.Ops) != 2 {
					rec.Fatal("races: scenario %q is not a pair", s.Name)
				}
				done <- runPair(s, iters)
			}
		}()
		select {
		case p := <-done:
			fmt.Printf("DONE %d %d\n", i, p)
		case <-time.After(120 * time.Second):
			fmt.Fprintf(os.Stderr, "HANG in scenario %d %s\n", i, s.Name)
			os.Exit(hangExit)
		}
	}
	os.Stdout.Sync()
	if mw != nil {
		mw.Close()
	}
}

// ------------------------------------------------------------------ scenarios that need a chain

func heavySetup() {
	if mw != nil {
		return
	}
	mw = minerworld.New(world.Options{Clients: 4, Miners: 3, Sharders: 1,
		Overrides: map[string]interface{}{"server_chain.block.validation.batch_size": 2}})
	transaction.SetTxnTimeout(600)
	mw.Genesis.SetBlockNotarized()
}

// vtBlock builds a block of four signed transactions (two validation batches).
func vtBlock(kinds []string) *block.Block {
	w := mw.World
	now := common.Now()
	b := block.NewBlock(mw.MC.GetKey(), 1)
	b.CreationDate = now
	b.Hash = encryption.Hash(fmt.Sprint("vt", now, kinds))
	worker := 0
	for i := 0; i < 4; i++ {
		k := w.Clients[i%len(w.Clients)]
		t := w.MakeTxn(world.TxnSpec{From: k, To: w.Clients[(i+1)%len(w.Clients)].ID, Type: transaction.TxnTypeSend,
			Value: uint64(10 + i), Fee: 1, Nonce: int64(2 + i/len(w.Clients)), Time: now})
		t.OutputHash = t.ComputeOutputHash()
		if i%2 == 0 {
			worker++
		}
		// the invalid transaction of a batch is its second one, so that the worker first reads the flag
		if i%2 == 1 && kinds[worker] == "V.worker(invalid txn)" {
			t.OutputHash = ""
		}
		b.Txns = append(b.Txns, t)
	}
	return b
}

func runVT(s scenario, iters int) (panics int) {
	heavySetup()
	lightSetup()
	mc := mw.MC
	moved := strings.Contains(s.Name, "round moved on")
	for it := 0; it < iters; it++ {
		b := vtBlock(s.Ops)
		if moved {
			mc.SetCurrentRound(b.Round + 1)
		} else {
			mc.SetCurrentRound(b.Round)
		}
		ctx, done := mw.Ctx()
		cctx, cancel := context.WithTimeout(ctx, 20*time.Second)
		func() {
			defer func() {
				if r := recover(); r != nil {
					panics++
				}
			}()
			_ = mc.ValidateTransactions(cctx, b)
		}()
		// let the workers that are still running finish before the next block
		time.Sleep(2 * time.Millisecond)
		cancel()
		done()
	}
	return
}
