//go:build !race

package races

// raceEnabled tells whether this binary was built with the race detector.
const raceEnabled = false
