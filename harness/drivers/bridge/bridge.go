// Package bridge drives the real ZCN bridge contract (burn / mint / add-authorizer / delete-authorizer)
// through the real Chain.UpdateState (C19, C18) and the real event-database path mergeEvents -> tag
// handlers on the in-memory sqlite event DB (C20).  Histories come from TLC (spec/MC_Bridge.tla,
// spec/MC_EventDB.tla behaviours) and from seeded random generation; after every transaction the
// bridge state is read back from the real MPT with zcnsc.VerifBridgeSnapshot.
package bridge

import (
	"encoding/json"
	"fmt"
	"math"
	"math/rand"
	"sort"
	"strings"

	"0chain.net/chaincore/block"
	"0chain.net/chaincore/chain"
	cstate "0chain.net/chaincore/chain/state"
	"0chain.net/chaincore/transaction"
	zcommon "0chain.net/core/common"
	"0chain.net/core/encryption"
	"0chain.net/smartcontract/dbs/event"
	"0chain.net/smartcontract/zcnsc"
	"github.com/0chain/common/core/statecache"

	"verif/harness/common"
	"verif/harness/rec"
	"verif/harness/world"
)

func init() { common.Register("bridge", Run) }

const (
	maxFee    = 31    // zcnsc max_fee in token units (override; sc.yaml's value truncates to 0)
	stakeAmt  = 1000  // stake of each base authorizer
	clientTok = 50000 // genesis tokens of every keyed client (kept small: TLC integers are 32-bit)
)

type pair struct {
	A string `json:"a"`
	D int64  `json:"d"`
}

type drv struct {
	w       *world.World
	rc      *rec.Recorder
	r       *rand.Rand
	a       common.Args
	traceID int
	blkSeq  int
	base    *block.Block
	baseNow zcommon.Timestamp

	auths    []*world.Key // a1..a4 (a1..a3 registered and staked in the base block)
	stranger *world.Key   // u1: a key that never registers
	deleg    *world.Key   // delegate wallet of every authorizer, and the staker
	burners  []*world.Key // c1, c2, p1 (poor)
	accts    []string     // ids whose balance deltas are logged
	eths     map[string]string
	ethNames []string
	minBurn  uint64 // min_burn / min_mint of the base block (the shipped configuration)
	minMint  uint64
	curBurn  uint64 // ... as configured NOW in the block under construction (update-global-config moves them)
	curMint  uint64
	ethSeq   int

	baseEvents []event.Event // events emitted in the base block (add-authorizer ...)
}

func Run(a common.Args) {
	if a.Prop == "C20" {
		runEventDB(a)
		return
	}
	d := newDrv(a)
	defer d.w.Close()
	defer d.rc.Close()
	id := 0
	for _, raw := range common.Behaviours(a.Behav) {
		id++
		if a.Only != 0 && a.Only != id {
			d.rc.TraceID = id
			continue
		}
		var steps []step
		if err := json.Unmarshal(raw, &steps); err != nil {
			rec.Fatal("behaviour %d: %v", id, err)
		}
		d.trace(id, "tlc", steps)
	}
	for i := 0; i < a.N; i++ {
		id++
		if a.Only != 0 && a.Only != id {
			d.rc.TraceID = id
			continue
		}
		d.r = common.TraceRand(a.Seed, id)
		d.trace(id, "random", d.randomSteps(a, i))
	}
}

func newDrv(a common.Args) *drv {
	w := world.New(world.Options{
		Clients: 4, ClientTokens: clientTok, PoorBalances: []uint64{60, 150},
		SCOverrides: map[string]interface{}{"smart_contracts.zcnsc.max_fee": float64(maxFee)},
	})
	d := &drv{w: w, rc: rec.New(a.Out), a: a, eths: map[string]string{}}
	for i := 1; i <= 4; i++ {
		d.auths = append(d.auths, w.NewKey(fmt.Sprintf("a%d", i)))
	}
	d.stranger = w.NewKey("u1")
	d.deleg = w.Clients[3]
	d.burners = []*world.Key{w.Clients[0], w.Clients[1], w.ByName["p1"], w.ByName["p2"]}
	for _, n := range []string{"e1", "e2", "e3"} {
		d.eths[n] = "0x" + encryption.Hash("verif eth " + n)[:40]
		d.ethNames = append(d.ethNames, n)
	}
	d.eths[""] = ""
	d.ethNames = append(d.ethNames, "")
	for _, k := range w.Clients {
		d.accts = append(d.accts, k.ID)
	}
	d.accts = append(d.accts, w.Owner.ID, d.stranger.ID)
	for _, k := range d.auths {
		d.accts = append(d.accts, k.ID)
	}
	for _, n := range []string{"zcnsc", "minersc", "storagesc", "faucetsc"} {
		d.accts = append(d.accts, world.Contracts[n])
	}
	d.buildBase()
	return d
}

// ---------------------------------------------------------------- blocks

// beginBlock opens a block on prev with a hash unique per (seed, trace, sequence): forks of one parent
// must not share a hash (the committed state-cache entries are keyed by it).
func (d *drv) beginBlock(prev *block.Block) {
	w := d.w
	d.blkSeq++
	b := block.NewBlock(w.Chain.GetKey(), prev.Round+1)
	b.MinerID = w.Miners[0].ID
	b.SetPreviousBlock(prev)
	w.Now += 5
	b.CreationDate = w.Now
	b.Hash = encryption.Hash(fmt.Sprintf("bridge-blk:%d:%d:%d:%s:%d", d.a.Seed, d.traceID, d.blkSeq, prev.Hash, b.Round))
	b.SetRoundRandomSeed(int64(b.Round)*7919 + 13 + int64(d.traceID)*31 + int64(d.blkSeq))
	w.Cur = b
	w.CurState = block.CreateStateWithPreviousBlock(prev, w.Chain.GetStateDB(), b.Round)
	w.CurCache = statecache.NewBlockCache(w.Chain.GetStateCache(), statecache.Block{Round: b.Round, Hash: b.Hash, PrevHash: b.PrevHash})
	b.Events = nil
}

func (d *drv) nextBlock() {
	prev := d.w.EndBlock()
	d.beginBlock(prev)
}

func (d *drv) sctx() cstate.StateContextI {
	w := d.w
	t := &transaction.Transaction{}
	t.CreationDate = w.Now
	return w.Chain.NewStateContext(w.Cur, chain.CreateTxnMPT(w.CurState, statecache.NewTransactionCache(w.CurCache)), t, nil)
}

func (d *drv) sc(from *world.Key, fn string, input interface{}, value uint64) world.TxnSpec {
	return world.TxnSpec{From: from, To: world.Contracts["zcnsc"], Type: transaction.TxnTypeSmartContract, Fn: fn, Input: input, Value: value}
}

func (d *drv) must(res world.Result, what string) {
	if res.Class != "ok" {
		rec.Fatal("bridge base block: %s failed: class=%s err=%s panic=%s", what, res.Class, res.Err, res.Panic)
	}
}

func addAuthInput(k, deleg *world.Key, charge float64) map[string]interface{} {
	return map[string]interface{}{
		"public_key": k.Pub, "url": "http://" + k.Name + ".verif",
		"stake_pool_settings": map[string]interface{}{"delegate_wallet": deleg.ID, "num_delegates": 5, "service_charge": charge},
	}
}

func stakeInput(k *world.Key) map[string]interface{} {
	return map[string]interface{}{"provider_type": 5, "provider_id": k.ID}
}

// buildBase: one deterministic block on genesis in which the owner registers a1..a3 with the real
// add-authorizer transaction and the delegate stakes a1 and a2 (a3 stays without stake).
func (d *drv) buildBase() {
	w := d.w
	d.beginBlock(w.Genesis)
	for i, k := range d.auths[:3] {
		d.must(w.Do(d.sc(w.Owner, "add-authorizer", addAuthInput(k, d.deleg, 0.1*float64(i)), 0)), "add-authorizer "+k.Name)
		if i < 2 {
			d.must(w.Do(d.sc(d.deleg, "add-to-delegate-pool", stakeInput(k), stakeAmt)), "stake "+k.Name)
		}
	}
	// the authorizer keys a1, a2 also act as ordinary clients (C20: a burner that has an authorizers row)
	for _, k := range d.auths[:2] {
		d.must(w.Do(world.TxnSpec{From: w.Clients[2], To: k.ID, Type: transaction.TxnTypeSend, Value: 20000}), "fund "+k.Name)
	}
	d.baseEvents = append([]event.Event{}, w.Cur.Events...)
	st := d.snap()
	if st.AuthCount != 3 || st.MaxFee != maxFee {
		rec.Fatal("bridge base block: unexpected state %+v", st)
	}
	d.minBurn, d.minMint = st.MinBurn, st.MinMint
	d.base = w.EndBlock()
	d.baseNow = w.Now
	d.blkSeq = 0
}

// ---------------------------------------------------------------- projection

func (d *drv) authIDs() []string {
	ids := []string{}
	for _, k := range d.auths {
		ids = append(ids, k.ID)
	}
	return append(ids, d.stranger.ID)
}

func (d *drv) snap() *zcnsc.VerifBridgeState {
	eths := []string{}
	for _, n := range d.ethNames {
		eths = append(eths, d.eths[n])
	}
	st, err := zcnsc.VerifBridgeSnapshot(d.sctx(), eths, d.authIDs())
	if err != nil {
		rec.Fatal("bridge snapshot: %v", err)
	}
	return st
}

func (d *drv) balances() map[string]uint64 {
	m := map[string]uint64{}
	for _, id := range d.accts {
		m[id] = d.w.Balance(id)
	}
	return m
}

const capV = int64(1) << 29

func clamp(v int64) int64 {
	if v > capV {
		return capV
	}
	if v < -capV {
		return -capV
	}
	return v
}

func udiff(post, pre uint64) int64 {
	if post >= pre {
		if post-pre > uint64(capV) {
			return capV
		}
		return int64(post - pre)
	}
	if pre-post > uint64(capV) {
		return -capV
	}
	return -int64(pre - post)
}

// state renders the projected bridge state (the abstract state of spec/Bridge.tla).
func (d *drv) state(st *zcnsc.VerifBridgeState) rec.M {
	nonces := []pair{}
	for _, n := range d.ethNames {
		nonces = append(nonces, pair{n, clamp(st.BurnNonce[d.eths[n]])})
	}
	auth, belowMin := []string{}, []string{}
	rewards := []pair{}
	for _, k := range append(append([]*world.Key{}, d.auths...), d.stranger) {
		a := st.Auths[k.ID]
		if a.Registered {
			auth = append(auth, k.Name)
		}
		if a.Registered && a.BelowMin {
			belowMin = append(belowMin, k.Name)
		}
		rewards = append(rewards, pair{k.Name, clamp(int64(a.Reward))})
	}
	minted := []int64{}
	for _, n := range st.MintedNonces {
		minted = append(minted, clamp(n))
	}
	return rec.M{"nonces": nonces, "auth": auth, "below_min": belowMin, "rewards": rewards, "minted": minted,
		"n_auth": st.AuthCount, "pct_milli": int64(st.Percent*1000 + 0.5), "min_burn": clamp(int64(st.MinBurn)),
		"min_mint": clamp(int64(st.MinMint)), "max_fee": clamp(int64(st.MaxFee))}
}

func (d *drv) deltas(pre, post map[string]uint64) []pair {
	out := []pair{}
	for _, id := range d.accts {
		if x := udiff(post[id], pre[id]); x != 0 {
			out = append(out, pair{d.w.Name(id), x})
		}
	}
	sort.Slice(out, func(i, j int) bool { return out[i].A < out[j].A })
	return out
}

// ---------------------------------------------------------------- steps

type step struct {
	Op   string   `json:"op"`   // burn | mint | add | del | cfg | block
	C    string   `json:"c"`    // sender (c1, c2, p1, p2)
	Eth  string   `json:"eth"`  // e1 | e2 | e3 | ""
	V    string   `json:"v"`    // burn value class: zero | below | midlo | min | midhi | above | rich (see burnValue); cfg: the value
	Rcv  string   `json:"rcv"`  // mint: receiving client
	N    int64    `json:"n"`    // mint nonce
	Amt  string   `json:"amt"`  // mint amount class: ok | low | fee
	Sigs []string `json:"sigs"` // v<i> valid by a<i>, f<i> forged for a<i>, u stranger, x empty id
	A    string   `json:"a"`    // add / del: authorizer; cfg: the key (min_burn | min_mint; "" = percent_authorizers)
}

func (d *drv) trace(id int, kind string, steps []step) {
	w := d.w
	d.traceID = id
	d.blkSeq = 0
	if kind == "tlc" {
		d.r = common.TraceRand(d.a.Seed, id)
	}
	w.Now = d.baseNow
	d.w.ColdCache() // see world.ColdCache
	d.beginBlock(d.base)
	d.rc.TraceID = id - 1
	st0 := d.snap()
	d.curBurn, d.curMint = st0.MinBurn, st0.MinMint
	init := d.state(st0)
	init["nonces_ledger"] = w.InitNonces(w.CurState)
	d.rc.Reset(rec.M{"family": "bridge", "kind": kind, "id": id, "seed": d.a.Seed, "steps": steps}, init)
	for _, s := range steps {
		switch s.Op {
		case "burn":
			d.burn(s)
		case "mint":
			d.mint(s)
		case "add", "del":
			d.authOp(s)
		case "cfg":
			d.cfgOp(s)
		case "block":
			d.nextBlock()
		default:
			rec.Fatal("bridge: unknown step %+v", s)
		}
	}
}

func (d *drv) key(name string) *world.Key {
	k, ok := d.w.ByName[name]
	if !ok {
		rec.Fatal("bridge: unknown key %q", name)
	}
	return k
}

func (d *drv) emit(ev string, args rec.M, res world.Result, pre, post map[string]uint64, shape string) {
	d.emitWith(ev, args, res, pre, post, shape, nil)
}

func (d *drv) emitWith(ev string, args rec.M, res world.Result, pre, post map[string]uint64, shape string, derive func(st *zcnsc.VerifBridgeState, m rec.M)) {
	st := d.snap()
	d.curBurn, d.curMint = st.MinBurn, st.MinMint
	m := d.state(st)
	if derive != nil {
		derive(st, m)
	}
	for k, v := range args {
		m[k] = v
	}
	m["ev"] = ev
	m["class"] = res.Class
	m["delta"] = d.deltas(pre, post)
	err := res.Err
	if len(err) > 100 {
		err = err[:100]
	}
	m["err"] = err
	d.rc.Emit(m, shape+"/"+res.Class, res.Class == "ok")
}

// burnClass names where a burn value lies relative to BOTH configured minimums (min_burn decides, min_mint
// must have no say): zero | below (under both) | midlo (min_mint <= v < min_burn) | min (= min_burn) |
// midhi (min_burn < v < min_mint) | above | rich.
func burnClass(v, minBurn, minMint uint64) string {
	switch {
	case v == 0:
		return "zero"
	case v < minBurn && v >= minMint:
		return "midlo"
	case v < minBurn:
		return "below"
	case v == minBurn:
		return "min"
	case v < minMint:
		return "midhi"
	case v >= minBurn+1000:
		return "rich"
	}
	return "above"
}

// between picks a value in [lo, hi]: an end point half of the time.
func (d *drv) between(lo, hi uint64) uint64 {
	switch d.r.Intn(4) {
	case 0:
		return lo
	case 1:
		return hi
	}
	return lo + uint64(d.r.Intn(int(hi-lo+1)))
}

// burnValue turns a value class into a value under the minimums configured now; a class that is empty
// under them (midlo while min_mint >= min_burn ...) falls back to its neighbour.  The class logged is
// always that of the value actually sent.
func (d *drv) burnValue(class string) uint64 {
	mb, mm := d.curBurn, d.curMint
	lower := mb
	if mm < lower {
		lower = mm
	}
	switch class {
	case "zero":
		return 0
	case "midlo":
		if mm < mb {
			return d.between(mm, mb-1)
		}
		return d.burnValue("below")
	case "below":
		if lower <= 1 {
			if mb > 1 {
				return d.between(1, mb-1)
			}
			return 0
		}
		return d.between(1, lower-1)
	case "min":
		return mb
	case "midhi":
		if mb+1 < mm {
			return d.between(mb+1, mm-1)
		}
		return d.burnValue("above")
	case "above":
		lo := mb + 1
		if mm > lo {
			lo = mm
		}
		return lo + uint64(d.r.Intn(40))
	case "rich":
		return mb + 1000 + uint64(d.r.Intn(100000))
	}
	rec.Fatal("bridge: burn value class %q", class)
	return 0
}

func (d *drv) burn(s step) {
	w := d.w
	c := d.key(s.C)
	v := d.burnValue(s.V)
	class := burnClass(v, d.curBurn, d.curMint)
	var input interface{} = map[string]interface{}{"ethereum_address": d.eths[s.Eth]}
	if s.Eth == "" { // "no ethereum address" in every shape the payload decoder can meet
		switch d.r.Intn(4) {
		case 1:
			input = map[string]interface{}{}
		case 2:
			input = map[string]interface{}{"ethereum_adress": d.eths["e1"]}
		case 3:
			input = map[string]interface{}{"ethereum_address": nil}
		}
	}
	pre := d.balances()
	res := w.DoRec(d.rc, d.sc(c, "burn", input, v), nil)
	post := d.balances()
	d.emit("Burn", rec.M{"client": c.Name, "eth": s.Eth, "value": clamp(int64(v)), "vclass": class}, res, pre, post,
		fmt.Sprintf("%s/%v", class, s.Eth != ""))
}

type sigOut struct {
	ID  string `json:"authorizer_id"`
	Sig string `json:"signature"`
}

func toSign(ethTxn string, amount uint64, nonce int64, rcv string) string {
	return encryption.Hash(fmt.Sprintf("%v:%v:%v:%v", ethTxn, amount, nonce, rcv))
}

func (d *drv) mint(s step) {
	w := d.w
	c := d.key(s.C)
	rcv := d.key(s.Rcv)
	var amount uint64
	floor := d.curMint
	if maxFee > floor {
		floor = maxFee
	}
	switch s.Amt {
	case "ok":
		amount = floor + uint64(d.r.Intn(2000))
		if d.r.Intn(4) == 0 {
			amount = floor
		}
	case "low":
		amount = uint64(d.r.Intn(int(floor)))
	default:
		rec.Fatal("bridge: mint amount class %q", s.Amt)
	}
	d.ethSeq++
	ethTxn := "0x" + encryption.Hash(fmt.Sprintf("eth-burn-%d-%d-%d", d.a.Seed, d.traceID, d.ethSeq))
	msg := toSign(ethTxn, amount, s.N, rcv.ID)
	sigs := []sigOut{}
	logged := []pair{}
	malformed := map[string]bool{}
	for _, k := range s.Sigs {
		var signer *world.Key
		idx := 0
		if len(k) == 2 {
			idx = int(k[1] - '1')
			if idx < 0 || idx >= len(d.auths) {
				rec.Fatal("bridge: signature kind %q", k)
			}
			signer = d.auths[idx]
		}
		switch k[0] {
		case 'v':
			sg := signer.Sign(msg)
			switch d.r.Intn(6) {
			case 0: // the same valid signature in another textual form (hex digits in upper case)
				sg = strings.ToUpper(sg)
			case 1: // ... and the authorizer listed twice, once in each form: still ONE authorizer
				sigs = append(sigs, sigOut{signer.ID, strings.ToUpper(sg)})
				logged = append(logged, pair{signer.Name, 1})
			}
			sigs = append(sigs, sigOut{signer.ID, sg})
			logged = append(logged, pair{signer.Name, 1})
		case 'u':
			sigs = append(sigs, sigOut{d.stranger.ID, d.stranger.Sign(msg)})
			logged = append(logged, pair{d.stranger.Name, 1})
		case 'x':
			sigs = append(sigs, sigOut{"", d.auths[0].Sign(msg)})
			logged = append(logged, pair{"", 0})
		case 'g': // not a signature at all
			g := []string{"", "abcd", "zz", signer.Sign(msg)[:20]}[d.r.Intn(4)]
			sigs = append(sigs, sigOut{signer.ID, g})
			logged = append(logged, pair{signer.Name, 0})
			malformed[signer.Name] = true
		case 'f':
			var sg string
			switch d.r.Intn(7) {
			case 0: // signed by another registered authorizer's key
				sg = d.auths[(idx+1)%len(d.auths)].Sign(msg)
			case 1: // signed by the stranger
				sg = d.stranger.Sign(msg)
			case 2: // right key, other amount
				sg = signer.Sign(toSign(ethTxn, amount+1, s.N, rcv.ID))
			case 3: // right key, other nonce
				sg = signer.Sign(toSign(ethTxn, amount, s.N+1, rcv.ID))
			case 4: // right key, other receiver
				o := d.w.Owner.ID
				for _, k := range d.w.Clients {
					if k.ID != rcv.ID {
						o = k.ID
						break
					}
				}
				sg = signer.Sign(toSign(ethTxn, amount, s.N, o))
			case 5: // right key, other burn reference
				sg = signer.Sign(toSign(ethTxn+"00", amount, s.N, rcv.ID))
			default: // right key, hash of something else entirely
				sg = signer.Sign(encryption.Hash("unrelated"))
			}
			sigs = append(sigs, sigOut{signer.ID, sg})
			logged = append(logged, pair{signer.Name, 0})
		default:
			rec.Fatal("bridge: signature kind %q", k)
		}
	}
	// the order of the entries is not part of the abstract payload: permute
	d.r.Shuffle(len(sigs), func(i, j int) { sigs[i], sigs[j] = sigs[j], sigs[i]; logged[i], logged[j] = logged[j], logged[i] })
	input := map[string]interface{}{"ethereum_txn_id": ethTxn, "amount": amount, "nonce": s.N,
		"signatures": sigs, "receiving_client_id": rcv.ID}
	preSt := d.snap()
	pre := d.balances()
	res := w.DoRec(d.rc, d.sc(c, "mint", input, 0), nil)
	post := d.balances()
	// input classes used by known-finding signatures (computed from the state BEFORE the transaction)
	valid, wellFormed := map[string]bool{}, map[string]bool{}
	unstaked := false
	for _, e := range logged {
		k, ok := w.ByName[e.A]
		if !ok || e.A == "" || !preSt.Auths[k.ID].Registered {
			continue
		}
		if e.D == 1 {
			valid[e.A] = true
		}
		if !malformed[e.A] {
			wellFormed[e.A] = true
		}
		if preSt.Auths[k.ID].BelowMin {
			unstaked = true
		}
	}
	thr := int(roundHalfEven(preSt.Percent * float64(preSt.AuthCount)))
	quorum := "none"
	if len(valid) >= thr && len(valid) > 0 {
		quorum = "valid"
	} else if len(wellFormed) >= thr && len(wellFormed) > 0 {
		quorum = "forged"
	}
	d.emitWith("Mint", rec.M{"client": c.Name, "receiver": rcv.Name, "nonce": clamp(s.N), "amount": clamp(int64(amount)), "sigs": logged,
		"quorum": quorum, "auth_understaked": unstaked},
		res, pre, post, fmt.Sprintf("%s/%v/%s", s.Amt, c == rcv, quorum), func(st *zcnsc.VerifBridgeState, m rec.M) {
			var credited uint64
			for id, a := range st.Auths {
				credited += a.Reward - preSt.Auths[id].Reward
			}
			fc := "n/a"
			if res.Class == "ok" {
				fee := int64(amount) - udiff(post[c.ID], pre[c.ID])
				switch {
				case fee == 0:
					fc = "zero"
				case int64(credited) == fee:
					fc = "full"
				case credited == 0:
					fc = "none"
				default:
					fc = "partial"
				}
			}
			m["fee_credit"] = fc
			m["fee_credited"] = fc != "none" && fc != "partial"
		})
}

func roundHalfEven(x float64) float64 { return math.RoundToEven(x) }

func (d *drv) authOp(s step) {
	w := d.w
	k := d.key(s.A)
	pre := d.balances()
	var res world.Result
	if s.Op == "add" {
		// a re-registration needs changed stake-pool settings, hence the random service charge
		res = w.DoRec(d.rc, d.sc(w.Owner, "add-authorizer", addAuthInput(k, d.deleg, 0.05+0.01*float64(d.r.Intn(30))), 0), nil)
	} else {
		res = w.DoRec(d.rc, d.sc(w.Owner, "delete-authorizer", map[string]interface{}{"id": k.ID}, 0), nil)
	}
	post := d.balances()
	d.emit("Auth", rec.M{"op": s.Op, "a": k.Name}, res, pre, post, s.Op)
}

// zcn renders a number of coins as the ZCN amount string update-global-config parses (1 ZCN = 1e10 coins).
func zcn(coins uint64) string { return fmt.Sprintf("%.10f", float64(coins)/1e10) }

// cfgOp changes one setting with the real update-global-config transaction: percent_authorizers (key ""),
// or one of the two minimums min_burn / min_mint, which are equal as shipped - value lo | base | hi relative
// to the shipped minimum, or a number of coins.  (min_stake is raised to one unit with it: the node's
// Validate refuses the 0 of harness/config/sc.yaml.)
func (d *drv) cfgOp(s step) {
	w := d.w
	fields := map[string]string{"min_stake": "0.0000000001"}
	label := s.V
	switch s.A {
	case "":
		fields["percent_authorizers"] = s.V
	case "min_burn", "min_mint":
		var coins uint64
		switch s.V {
		case "lo":
			coins = d.minBurn / 2
		case "base":
			coins = d.minBurn
		case "hi":
			coins = d.minBurn + d.minBurn/2
		default:
			if _, err := fmt.Sscanf(s.V, "%d", &coins); err != nil {
				rec.Fatal("bridge: cfg value %q", s.V)
			}
		}
		fields[s.A] = zcn(coins)
		label = s.A + "=" + s.V
	default:
		rec.Fatal("bridge: cfg key %q", s.A)
	}
	pre := d.balances()
	res := w.DoRec(d.rc, d.sc(w.Owner, "update-global-config", map[string]interface{}{"fields": fields}, 0), nil)
	post := d.balances()
	shape := "cfg"
	if s.A != "" {
		shape = "cfg-" + s.A
	}
	d.emit("Auth", rec.M{"op": "cfg", "a": label}, res, pre, post, shape)
}

// ---------------------------------------------------------------- random histories

func (d *drv) randomSteps(a common.Args, i int) []step {
	r := d.r
	n := a.Steps
	if n <= 0 {
		n = 20
	}
	clients := []string{"c1", "c2", "c3", "p1", "p2"}
	sigKinds := []string{"v1", "v2", "v3", "v4", "f1", "f2", "f3", "f4", "u", "x", "g1", "g2"}
	vals := []string{"zero", "below", "min", "above", "above", "rich", "midlo", "midhi"}
	eths := []string{"e1", "e2", "e3", "e1", "e2", ""}
	maxNonce := int64(3 + r.Intn(12)) // beyond the partition size (5) in most traces
	var out []step
	for len(out) < n {
		switch x := r.Intn(22); {
		case x < 7:
			out = append(out, step{Op: "burn", C: clients[r.Intn(len(clients))], Eth: eths[r.Intn(len(eths))], V: vals[r.Intn(len(vals))]})
		case x < 16:
			c := clients[r.Intn(3)]
			s := step{Op: "mint", C: c, Rcv: c, N: r.Int63n(maxNonce), Amt: "ok"}
			if r.Intn(8) == 0 {
				s.Rcv = clients[r.Intn(3)]
			}
			if r.Intn(10) == 0 {
				s.Amt = "low"
			}
			if r.Intn(3) > 0 { // a clean quorum of registered keys most of the time
				for _, j := range r.Perm(4)[:2+r.Intn(3)] {
					s.Sigs = append(s.Sigs, fmt.Sprintf("v%d", j+1))
				}
			} else {
				for k := r.Intn(6); k > 0; k-- {
					s.Sigs = append(s.Sigs, sigKinds[r.Intn(len(sigKinds))])
				}
			}
			out = append(out, s)
		case x < 17:
			out = append(out, step{Op: "del", A: fmt.Sprintf("a%d", 1+r.Intn(4))})
		case x < 18:
			out = append(out, step{Op: "add", A: fmt.Sprintf("a%d", 1+r.Intn(4))})
		case x < 19:
			out = append(out, step{Op: "cfg", V: []string{"0.34", "0.5", "0.7", "0.9", "1"}[r.Intn(5)]})
		case x < 21: // the owner moves one of the two minimums (they are equal as shipped)
			s := step{Op: "cfg", A: []string{"min_burn", "min_mint"}[r.Intn(2)], V: []string{"lo", "base", "hi"}[r.Intn(3)]}
			if r.Intn(3) == 0 {
				s.V = fmt.Sprint(2 + r.Intn(3*int(d.minBurn)))
			}
			out = append(out, s)
		default:
			out = append(out, step{Op: "block"})
		}
	}
	return out
}
