package bridge

import ("fmt";"os"
 "0chain.net/smartcontract/stakepool"
 "0chain.net/smartcontract/stakepool/spenum"
 "0chain.net/smartcontract/zcnsc"
)

func (d *drv) dbg() {
	for _, k := range d.auths[:3] {
		plain := stakepool.NewStakePool()
		err := d.sctx().GetTrieNode(stakepool.StakePoolKey(spenum.Authorizer, k.ID), plain)
		wr := zcnsc.NewStakePool()
		err2 := d.sctx().GetTrieNode(stakepool.StakePoolKey(spenum.Authorizer, k.ID), wr)
		fmt.Fprintf(os.Stderr, "DBG %s plain: err=%v pools=%d settings=%+v | wrapper: err=%v pools=%d settings=%+v\n", k.Name, err, len(plain.Pools), plain.Settings, err2, len(wr.Pools), wr.Settings)
	}
}
