package bridge

import (
	"verif/harness/common"
	"verif/harness/rec"
)

func runEventDB(a common.Args) { rec.Fatal("not yet") }
