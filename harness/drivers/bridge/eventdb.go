package bridge

// C20: the query (event) database records every finalized bridge and pool event.
//
// For every op list (TLC-enumerated by spec/MC_EventDB.tla, or seeded random) two passes are made:
//   synthetic: the events are built here exactly as burn.go / mint.go emit them;
//   real:      the burns and mints are executed as real transactions in ONE block on the real chain
//              state and the block's own event list (block.Events) is taken.
// An op list may hold "block" markers: the ops then fill several consecutive blocks (real pass: a chain
// of real blocks, each on its predecessor), the burn nonces and the mint nonce run on, and every block
// goes through the event-database path on the SAME database, which keeps the rows of the earlier blocks.
// What is logged for a block is what THAT block added (rows / totals read back after it minus read back
// before it).
// Each event list goes through the REAL event-database path: mergeEvents (via EventDb.MergeEvents) and
// the REAL tag handlers (EventDb.ProcessEvents -> worker -> WorkEvents -> processEvent, the call
// chain.finalizeBlock makes) on the in-memory sqlite event DB; rows are read back with the package's
// query functions (GetBurnTickets, GetAuthorizer, GetUser).  sqlite rejects the Postgres `unnest`
// statements of UpdateBuilder; event.VerifBridgeSqliteShim executes them with the arrays spelled out
// as rows and reports the handlers' array arguments, which are logged as well (arg_burn / arg_mint).

import (
	"context"
	"encoding/json"
	"fmt"
	"sort"
	"strings"
	"time"

	"0chain.net/chaincore/block"
	"0chain.net/chaincore/state"
	"0chain.net/core/config"
	"0chain.net/core/encryption"
	"0chain.net/smartcontract/dbs"
	"0chain.net/smartcontract/dbs/event"
	"0chain.net/smartcontract/stakepool/spenum"
	"github.com/0chain/common/core/currency"

	"verif/harness/common"
	"verif/harness/rec"
	"verif/harness/world"
)

type eop struct {
	Op   string   `json:"op"` // burn | mint | block (the ops that follow go into the next block)
	C    string   `json:"c"`
	Eth  string   `json:"eth"`
	Sigs []string `json:"sigs"` // authorizer names
}

type burnT struct {
	C      string `json:"c"`
	Eth    string `json:"eth"`
	Amount int64  `json:"amount"`
	Nonce  int64  `json:"nonce"`
}

type ticketT struct {
	Eth    string `json:"eth"`
	Amount int64  `json:"amount"`
	Nonce  int64  `json:"nonce"`
}

type mintT struct {
	C       string   `json:"c"`
	Nonce   int64    `json:"nonce"`
	Amount  int64    `json:"amount"`
	Signers []string `json:"signers"`
}

type edrv struct {
	*drv
	edb    *event.EventDb
	stmts  []event.VerifBridgeStmt
	dbErrs []string // statements the database itself refused while a block was stored
	round  int64

	// state of one pass (a sequence of blocks on one database)
	authRows  []string         // authorizers that have a row
	opSeq     int              // ops so far
	synNonce  map[string]int64 // synthetic pass: burn nonce per address
	mintSeq   int64
	prevRows  []ticketT // burn_tickets rows read back after the previous block
	prevBurn  map[string]int64
	prevMint  map[string]int64
	prevBlock *block.Block // real pass: the block before
}

func runEventDB(a common.Args) {
	d := newDrv(a)
	defer d.w.Close()
	defer d.rc.Close()
	edb, err := event.NewInMemoryEventDb(config.DbAccess{}, config.DbSettings{AggregatePeriod: 10, PartitionChangePeriod: 1 << 40,
		PartitionKeepCount: 10, PermanentPartitionChangePeriod: 1 << 40, PermanentPartitionKeepCount: 10, PageLimit: 50})
	if err != nil {
		rec.Fatal("bridge: in-memory event db: %v", err)
	}
	e := &edrv{drv: d, edb: edb, round: 100}
	if err := event.VerifBridgeSqliteShim(edb, func(st event.VerifBridgeStmt) { e.stmts = append(e.stmts, st) }); err != nil {
		rec.Fatal("bridge: sqlite shim: %v", err)
	}
	if err := event.VerifBridgeObserveDBErrors(edb, func(kind, sql, err string) {
		if err == "record not found" || strings.Contains(err, "constraint") {
			return // an answer of the database, not a limit of it
		}
		e.dbErrs = append(e.dbErrs, kind+": "+err)
	}); err != nil {
		rec.Fatal("bridge: db error observer: %v", err)
	}
	time.Sleep(50 * time.Millisecond) // let the db's worker finish its start-up partition statements
	id := 0
	for _, raw := range common.Behaviours(a.Behav) {
		id++
		if a.Only != 0 && a.Only != id {
			d.rc.TraceID = id
			continue
		}
		var ops []eop
		if err := json.Unmarshal(raw, &ops); err != nil {
			rec.Fatal("behaviour %d: %v", id, err)
		}
		d.r = common.TraceRand(a.Seed, id)
		e.trace(id, "tlc", ops)
	}
	for i := 0; i < a.N; i++ {
		id++
		if a.Only != 0 && a.Only != id {
			d.rc.TraceID = id
			continue
		}
		d.r = common.TraceRand(a.Seed, id)
		e.trace(id, "random", e.randomOps())
	}
}

func (e *edrv) randomOps() []eop {
	r := e.r
	clients := []string{"a1", "a2", "c2", "c1"}
	eths := []string{"e1", "e2", "e3"}
	sets := [][]string{{"a1", "a2"}, {"a2", "a3"}, {"a1", "a3"}, {"a1", "a2", "a3"}}
	var ops []eop
	multi := r.Intn(2) == 0 // half of the lists spread over several blocks
	for n := 1 + r.Intn(8); n > 0; n-- {
		if multi && len(ops) > 0 && ops[len(ops)-1].Op != "block" && r.Intn(3) == 0 {
			ops = append(ops, eop{Op: "block"})
		}
		if r.Intn(3) > 0 {
			ops = append(ops, eop{Op: "burn", C: clients[r.Intn(len(clients))], Eth: eths[r.Intn(len(eths))]})
		} else {
			ops = append(ops, eop{Op: "mint", C: clients[r.Intn(len(clients))], Sigs: sets[r.Intn(len(sets))]})
		}
	}
	return ops
}

func splitBlocks(ops []eop) [][]eop {
	var out [][]eop
	var cur []eop
	for _, o := range ops {
		if o.Op == "block" {
			if len(cur) > 0 {
				out = append(out, cur)
			}
			cur = nil
			continue
		}
		cur = append(cur, o)
	}
	if len(cur) > 0 || len(out) == 0 {
		out = append(out, cur)
	}
	return out
}

func (e *edrv) trace(id int, kind string, ops []eop) {
	d := e.drv
	d.traceID = id
	d.blkSeq = 0
	d.w.Now = d.baseNow
	d.rc.TraceID = id - 1
	d.rc.Reset(rec.M{"family": "bridge", "kind": kind, "id": id, "seed": d.a.Seed, "ops": ops}, rec.M{"prop": "C20"})
	blocks := splitBlocks(ops)
	// synthetic blocks
	e.startPass(e.syntheticSetup())
	for k, ops := range blocks {
		evs, burns, mints := e.synthetic(ops)
		e.block("synthetic", k+1, evs, burns, mints)
	}
	// real blocks: the same ops as real transactions, one real block per block of the list
	e.startPass(e.realSetup())
	for k, ops := range blocks {
		evs, burns, mints := e.real(ops)
		e.block("real", k+1, evs, burns, mints)
	}
}

// startPass empties the database and fills the authorizers table: the add-authorizer events through
// the same path.
func (e *edrv) startPass(setup []event.Event) {
	e.clean()
	e.round++
	be, _, err := e.edb.MergeEvents(setup, e.round, fmt.Sprintf("setup-%d", e.round), 0)
	if err == nil {
		_, err = e.edb.WorkEvents(context.Background(), be)
	}
	if err != nil {
		rec.Fatal("bridge C20: setup block: %v", err)
	}
	e.authRows = []string{}
	for _, k := range e.auths {
		if _, err := e.edb.GetAuthorizer(k.ID); err == nil {
			e.authRows = append(e.authRows, k.Name)
		}
	}
	e.opSeq, e.mintSeq, e.synNonce, e.prevBlock = 0, 0, map[string]int64{}, nil
	e.prevRows, e.prevBurn, e.prevMint = e.readRows(), map[string]int64{}, map[string]int64{}
	if len(e.prevRows) != 0 {
		rec.Fatal("bridge C20: burn_tickets not empty at the start of a pass")
	}
}

// ---------------------------------------------------------------- event lists

func (e *edrv) syntheticSetup() []event.Event {
	var out []event.Event
	for _, k := range e.auths[:3] {
		out = append(out, event.Event{Type: event.TypeStats, Tag: event.TagAddAuthorizer, Index: k.ID,
			Data: &event.Authorizer{Provider: event.Provider{ID: k.ID, DelegateWallet: e.deleg.ID, NumDelegates: 5}, URL: "http://" + k.Name + ".verif"}})
	}
	return out
}

func (e *edrv) realSetup() []event.Event {
	var out []event.Event
	for _, ev := range e.baseEvents {
		if ev.Tag == event.TagAddAuthorizer {
			out = append(out, ev)
		}
	}
	return out
}

// synthetic builds the events as Burn (burn.go:100-112) and mint (mint.go:160-170, DistributeRewards) emit them.
func (e *edrv) synthetic(ops []eop) ([]event.Event, []burnT, []mintT) {
	var evs []event.Event
	burns, mints := []burnT{}, []mintT{}
	nonce := e.synNonce
	for _, o := range ops {
		c := e.key(o.C)
		txHash := encryption.Hash(fmt.Sprintf("synthetic-txn-%d-%d-%d", e.a.Seed, e.traceID, e.opSeq))
		e.opSeq++
		switch o.Op {
		case "burn":
			v := e.minBurn + uint64(e.r.Intn(900))
			eth := e.eths[o.Eth]
			nonce[eth]++
			evs = append(evs,
				event.Event{Type: event.TypeStats, Tag: event.TagAuthorizerBurn, Index: c.ID, TxHash: txHash,
					Data: state.Burn{Burner: c.ID, Amount: currency.Coin(v)}},
				event.Event{Type: event.TypeStats, Tag: event.TagAddBurnTicket, Index: eth, TxHash: txHash,
					Data: &event.BurnTicket{EthereumAddress: eth, Hash: txHash, Amount: currency.Coin(v), Nonce: nonce[eth]}})
			burns = append(burns, burnT{c.Name, o.Eth, int64(v), nonce[eth]})
		case "mint":
			e.mintSeq++
			mintSeq := e.mintSeq
			amount := e.minMint + uint64(e.r.Intn(2000))
			fee := uint64(maxFee / len(o.Sigs))
			signers := []string{}
			for _, s := range o.Sigs {
				signers = append(signers, e.key(s).ID)
			}
			payee := e.key(o.Sigs[e.r.Intn(len(o.Sigs))])
			evs = append(evs,
				event.Event{Type: event.TypeStats, Tag: event.TagAddBridgeMint, Index: c.ID, TxHash: txHash,
					Data: &event.BridgeMint{UserID: c.ID, MintNonce: mintSeq, Amount: currency.Coin(amount - fee), Signers: signers}},
				event.Event{Type: event.TypeStats, Tag: event.TagStakePoolReward, Index: spenum.FeeRewardAuthorizer.String() + payee.ID, TxHash: txHash,
					Data: &dbs.StakePoolReward{ProviderID: dbs.ProviderID{ID: payee.ID, Type: spenum.Authorizer}, Reward: currency.Coin(fee),
						RewardType: spenum.FeeRewardAuthorizer, DelegateRewards: map[string]currency.Coin{}, DelegatePenalties: map[string]currency.Coin{},
						DelegateWallet: e.deleg.ID}})
			mints = append(mints, mintT{c.Name, mintSeq, int64(amount - fee), append([]string{}, o.Sigs...)})
		default:
			rec.Fatal("bridge C20: unknown op %+v", o)
		}
	}
	return evs, burns, mints
}

// real executes the ops as real transactions in ONE block (on the base block, or on the block the
// previous call made) and returns the block's own events.
func (e *edrv) real(ops []eop) ([]event.Event, []burnT, []mintT) {
	d := e.drv
	w := d.w
	if e.prevBlock == nil {
		d.w.ColdCache() // see world.ColdCache
		d.beginBlock(d.base)
	} else {
		d.beginBlock(e.prevBlock)
	}
	burns, mints := []burnT{}, []mintT{}
	for _, o := range ops {
		c := d.key(o.C)
		switch o.Op {
		case "burn":
			v := d.minBurn + uint64(d.r.Intn(900))
			res := w.Do(d.sc(c, "burn", map[string]interface{}{"ethereum_address": d.eths[o.Eth]}, v))
			if res.Class != "ok" {
				rec.Fatal("bridge C20: real burn failed: %s %s", res.Class, res.Err)
			}
			burns = append(burns, burnT{c.Name, o.Eth, int64(v), d.snap().BurnNonce[d.eths[o.Eth]]})
		case "mint":
			e.mintSeq++
			mintSeq := e.mintSeq
			amount := d.minMint + uint64(d.r.Intn(2000))
			d.ethSeq++
			ethTxn := "0x" + encryption.Hash(fmt.Sprintf("eth-burn-%d-%d-%d", d.a.Seed, d.traceID, d.ethSeq))
			msg := toSign(ethTxn, amount, mintSeq, c.ID)
			sigs := []sigOut{}
			for _, s := range o.Sigs {
				k := d.key(s)
				sigs = append(sigs, sigOut{k.ID, k.Sign(msg)})
			}
			pre := w.Balance(c.ID)
			res := w.Do(d.sc(c, "mint", map[string]interface{}{"ethereum_txn_id": ethTxn, "amount": amount, "nonce": mintSeq,
				"signatures": sigs, "receiving_client_id": c.ID}, 0))
			if res.Class != "ok" {
				rec.Fatal("bridge C20: real mint failed: %s %s", res.Class, res.Err)
			}
			mints = append(mints, mintT{c.Name, mintSeq, udiff(w.Balance(c.ID), pre), append([]string{}, o.Sigs...)})
		default:
			rec.Fatal("bridge C20: unknown op %+v", o)
		}
	}
	evs := append([]event.Event{}, w.Cur.Events...)
	e.prevBlock = w.EndBlock()
	return evs, burns, mints
}

// ---------------------------------------------------------------- the event-database path

func bridgeTag(t event.EventTag) bool {
	return t == event.TagAddBurnTicket || t == event.TagAuthorizerBurn || t == event.TagAddBridgeMint
}

func (e *edrv) clean() {
	for _, t := range []string{"burn_tickets", "authorizers", "users", "events", "provider_rewards"} {
		if err := e.edb.Store.Get().Exec("DELETE FROM " + t).Error; err != nil {
			rec.Fatal("bridge C20: cleaning table %s: %v", t, err)
		}
	}
}

type projected struct {
	tickets []ticketT
	burns   []pair
	mints   []mintT
	rewards []pair
}

// project decodes the bridge / reward events of a list (emitted: one datum per event; merged: slices).
func (e *edrv) project(evs []event.Event) projected {
	p := projected{tickets: []ticketT{}, burns: []pair{}, mints: []mintT{}, rewards: []pair{}}
	name := e.w.Name
	ethName := func(addr string) string {
		for n, a := range e.eths {
			if a == addr {
				return n
			}
		}
		return "?" + addr
	}
	addTicket := func(t event.BurnTicket) {
		p.tickets = append(p.tickets, ticketT{ethName(t.EthereumAddress), clamp(int64(t.Amount)), clamp(t.Nonce)})
	}
	addBurn := func(b state.Burn) { p.burns = append(p.burns, pair{name(b.Burner), clamp(int64(b.Amount))}) }
	addMint := func(m event.BridgeMint) {
		s := []string{}
		for _, id := range m.Signers {
			s = append(s, name(id))
		}
		p.mints = append(p.mints, mintT{name(m.UserID), clamp(m.MintNonce), clamp(int64(m.Amount)), s})
	}
	addReward := func(r dbs.StakePoolReward) {
		t := int64(r.Reward)
		for _, v := range r.DelegateRewards {
			t += int64(v)
		}
		p.rewards = append(p.rewards, pair{name(r.ID), clamp(t)})
	}
	for _, ev := range evs {
		switch ev.Tag {
		case event.TagAddBurnTicket:
			switch x := ev.Data.(type) {
			case *event.BurnTicket:
				addTicket(*x)
			case event.BurnTicket:
				addTicket(x)
			case []event.BurnTicket:
				for _, t := range x {
					addTicket(t)
				}
			default:
				rec.Fatal("bridge C20: burn ticket event data %T", ev.Data)
			}
		case event.TagAuthorizerBurn:
			switch x := ev.Data.(type) {
			case *state.Burn:
				addBurn(*x)
			case state.Burn:
				addBurn(x)
			case []state.Burn:
				for _, t := range x {
					addBurn(t)
				}
			default:
				rec.Fatal("bridge C20: burn event data %T", ev.Data)
			}
		case event.TagAddBridgeMint:
			switch x := ev.Data.(type) {
			case *event.BridgeMint:
				addMint(*x)
			case event.BridgeMint:
				addMint(x)
			case []event.BridgeMint:
				for _, t := range x {
					addMint(t)
				}
			default:
				rec.Fatal("bridge C20: mint event data %T", ev.Data)
			}
		case event.TagStakePoolReward:
			switch x := ev.Data.(type) {
			case *dbs.StakePoolReward:
				addReward(*x)
			case dbs.StakePoolReward:
				addReward(x)
			case []dbs.StakePoolReward:
				for _, t := range x {
					addReward(t)
				}
			default:
				rec.Fatal("bridge C20: reward event data %T", ev.Data)
			}
		}
	}
	return p
}

func sortTickets(t []ticketT) {
	sort.Slice(t, func(i, j int) bool {
		if t[i].Eth != t[j].Eth {
			return t[i].Eth < t[j].Eth
		}
		return t[i].Nonce < t[j].Nonce
	})
}

// readRows reads the burn_tickets rows of the tracked addresses back with the package's query function.
func (e *edrv) readRows() []ticketT {
	rows := []ticketT{}
	for _, n := range e.ethNames {
		if n == "" {
			continue
		}
		ts, err := e.edb.GetBurnTickets(e.eths[n])
		if err != nil {
			rec.Fatal("bridge C20: GetBurnTickets: %v", err)
		}
		for _, t := range ts {
			rows = append(rows, ticketT{n, clamp(int64(t.Amount)), clamp(t.Nonce)})
		}
	}
	sortTickets(rows)
	return rows
}

// rowsAdded: the rows of `after` that `before` does not hold (as multisets), and whether every row of
// `before` is still there.
func rowsAdded(before, after []ticketT) ([]ticketT, bool) {
	left := map[ticketT]int{}
	for _, t := range before {
		left[t]++
	}
	added := []ticketT{}
	for _, t := range after {
		if left[t] > 0 {
			left[t]--
			continue
		}
		added = append(added, t)
	}
	kept := true
	for _, n := range left {
		kept = kept && n == 0
	}
	return added, kept
}

func (e *edrv) block(mode string, blkNo int, evs []event.Event, burns []burnT, mints []mintT) {
	ctx := context.Background()
	auths := e.authRows
	// merge stage on the whole event list of the block
	e.round++
	hash := encryption.Hash(fmt.Sprintf("c20-block-%d-%d-%s-%d", e.a.Seed, e.traceID, mode, e.round))
	emitted := e.project(evs)
	mergeErr := ""
	merged := projected{tickets: []ticketT{}, burns: []pair{}, mints: []mintT{}, rewards: []pair{}}
	if be, _, err := e.edb.MergeEvents(append([]event.Event{}, evs...), e.round, hash, len(burns)+len(mints)); err != nil {
		mergeErr = err.Error()
	} else {
		merged = e.project(be.Events())
	}
	// store stage: the bridge events through ProcessEvents (what chain.finalizeBlock calls)
	var filtered []event.Event
	for _, ev := range evs {
		if bridgeTag(ev.Tag) {
			filtered = append(filtered, ev)
		}
	}
	e.stmts, e.dbErrs = nil, nil
	workErr := ""
	if len(filtered) > 0 {
		_, n, err := e.edb.ProcessEvents(ctx, filtered, e.round, hash, len(burns)+len(mints),
			func(event.BlockEvents) error { return nil }, event.CommitNow())
		if err != nil {
			workErr = err.Error()
		} else {
			e.edb.AddToEventsCounter(uint64(n))
		}
	}
	// read back with the package's query functions; logged: what this block added
	rowsDB := e.readRows()
	rows, rowsKept := rowsAdded(e.prevRows, rowsDB)
	e.prevRows = rowsDB
	dBurn, dMint := []pair{}, []pair{}
	for _, k := range e.auths {
		if a, err := e.edb.GetAuthorizer(k.ID); err == nil {
			tb, tm := clamp(int64(a.TotalBurn)), clamp(int64(a.TotalMint))
			dBurn = append(dBurn, pair{k.Name, tb - e.prevBurn[k.Name]})
			dMint = append(dMint, pair{k.Name, tm - e.prevMint[k.Name]})
			e.prevBurn[k.Name], e.prevMint[k.Name] = tb, tm
		}
	}
	userNonces := []pair{}
	for _, n := range []string{"a1", "a2", "c1", "c2"} {
		if u, err := e.edb.GetUser(e.key(n).ID); err == nil && u != nil {
			userNonces = append(userNonces, pair{n, clamp(u.MintNonce)})
		}
	}
	// the handlers' array arguments
	argBurn, argMint := []pair{}, []pair{}
	translated := true
	for _, st := range e.stmts {
		if st.Err != "" {
			e.dbErrs = append(e.dbErrs, "stmt: "+st.Err)
			if workErr == "" {
				workErr = "stmt: " + st.Err
			}
		}
		translated = translated && st.Translated
		if len(st.Cols) != 2 || st.Cols[0] != "id" {
			continue
		}
		for _, r := range st.Rows {
			id, _ := r[0].(string)
			amt, _ := r[1].(int64)
			nm := ""
			if id != "" {
				nm = e.w.Name(id)
			}
			switch st.Cols[1] {
			case "total_burn":
				argBurn = append(argBurn, pair{nm, clamp(amt)})
			case "total_mint":
				argMint = append(argMint, pair{nm, clamp(amt)})
			}
		}
	}
	// input classes (known-finding signatures match on these)
	dupEth, dupBurner, dupAuthBurner, dupMinter := false, false, false, false
	seenE, seenB, seenM := map[string]bool{}, map[string]bool{}, map[string]bool{}
	isAuth := map[string]bool{}
	for _, a := range auths {
		isAuth[a] = true
	}
	for _, b := range burns {
		if seenE[b.Eth] {
			dupEth = true
		}
		if seenB[b.C] {
			dupBurner = true
			if isAuth[b.C] {
				dupAuthBurner = true
			}
		}
		seenE[b.Eth], seenB[b.C] = true, true
	}
	for _, m := range mints {
		if seenM[m.C] {
			dupMinter = true
		}
		seenM[m.C] = true
	}
	if len(workErr) > 120 {
		workErr = workErr[:120]
	}
	// a statement the database itself refused is a limit of the sqlite stand-in (harness); a store step that
	// failed without one was refused by the handlers' own logic: the real answer of the code to this block
	dbErr := strings.Join(e.dbErrs, "; ")
	if len(dbErr) > 120 {
		dbErr = dbErr[:120]
	}
	refused := workErr != "" && dbErr == ""
	kb := blkNo
	if kb > 3 {
		kb = 3
	}
	shape := fmt.Sprintf("%s/b%d/m%d/%s/k%d", mode, len(burns), len(mints),
		strings.Join([]string{fmt.Sprint(dupEth), fmt.Sprint(dupBurner), fmt.Sprint(dupMinter)}, ","), kb)
	// one event per aspect (same payload), so that a known-finding signature can name exactly the
	// aspect it is about: BlockMerge, BlockTickets, BlockBurnTotals, BlockMintTotals
	for _, aspect := range []string{"BlockMerge", "BlockTickets", "BlockBurnTotals", "BlockMintTotals"} {
		e.rc.Emit(rec.M{"ev": aspect, "mode": mode, "burns": burns, "mints": mints, "rewards": emitted.rewards,
			"e_tickets": emitted.tickets, "e_burns": emitted.burns, "e_mints": emitted.mints,
			"m_tickets": merged.tickets, "m_burns": merged.burns, "m_mints": merged.mints, "m_rewards": merged.rewards,
			"rows": rows, "d_burn": dBurn, "d_mint": dMint, "auths": auths, "arg_burn": argBurn, "arg_mint": argMint,
			"user_nonces": userNonces, "merge_err": mergeErr, "work_err": workErr, "shim_translated": translated,
			"db_err": dbErr, "refused": refused, "blk": blkNo, "rows_db": rowsDB, "rows_kept": rowsKept,
			"n_burns": len(burns), "n_mints": len(mints), "multi_burn": len(burns) >= 2, "has_mint": len(mints) >= 1,
			"dup_index": dupEth || dupBurner || dupMinter, "dup_eth": dupEth, "dup_burner": dupBurner,
			"dup_auth_burner": dupAuthBurner, "dup_minter": dupMinter},
			shape, len(burns)+len(mints) > 0)
	}
}

var _ = world.Contracts
