package vcclient

import (
	"fmt"
	"os"
	"os/exec"

	"0chain.net/chaincore/block"
	"0chain.net/chaincore/chain"
	"0chain.net/chaincore/httpclientutil"
	"0chain.net/chaincore/transaction"
	"0chain.net/smartcontract/minersc"

	"github.com/0chain/common/core/statecache"

	vc "verif/harness/common"
	"verif/harness/rec"
	"verif/harness/world"
)

func init() { vc.Register("vcclient", Run) }

type drv struct {
	s    *sim
	rc   *rec.Recorder
	base *block.Block
}

func Run(a vc.Args) {
	s := newSim()
	defer s.w.Close()
	rc := rec.New(a.Out)
	defer rc.Close()
	d := &drv{s: s, rc: rc}
	d.buildBase()
	d.smoke()
}

func (d *drv) mustOK(what string, r world.Result) {
	if r.Class != "ok" {
		rec.Fatal("vcclient base block: %s: %s %s %s", what, r.Class, r.Err, r.Panic)
	}
}

// buildBase registers the magic-block miners and sharders with the contract's own transactions.
func (d *drv) buildBase() {
	w := d.s.w
	w.BeginBlock(w.Genesis)
	reg := func(k *world.Key, fn string, port int) {
		in := map[string]interface{}{
			"simple_miner": map[string]interface{}{"id": k.ID, "n2n_host": k.Name + ".n2n.verif", "host": k.Name + ".verif",
				"port": port, "public_key": k.Pub, "short_name": k.Name, "build_tag": "verif"},
			"stake_pool": map[string]interface{}{"settings": map[string]interface{}{
				"delegate_wallet": w.Clients[0].ID, "num_delegates": 5, "service_charge": 0.1}},
		}
		d.mustOK(fn+" "+k.Name, w.SC(k, "minersc", fn, in, 0, 0))
	}
	for i, k := range w.Miners {
		reg(k, "add_miner", minerPort+i)
	}
	for i, k := range w.Sharders {
		reg(k, "add_sharder", shardPort+i)
	}
	d.base = w.EndBlock()
}

func (d *drv) smoke() {
	s := d.s
	w := s.w
	s.startMiners()
	defer s.stopMiners()
	w.BeginBlock(d.base)
	s.onShare = func(from, to *simMiner, status int, body string) {
		fmt.Fprintf(os.Stderr, "  share %s>%s %d %s\n", from.key.Name, to.key.Name, status, clip(body))
	}
	s.onTxn = func(m *simMiner, t *httpclientutil.Transaction, fate string, res *world.Result) {
		r := ""
		if res != nil {
			r = res.Class + " " + clip(res.Err)
		}
		fmt.Fprintf(os.Stderr, "  txn %s %s %s\n", m.key.Name, fate, r)
	}
	for r := 0; r < 14; r++ {
		res := w.SC(w.Miners[0], "minersc", "payFees", map[string]interface{}{"round": w.Cur.Round}, 0, 0)
		b := w.EndBlock()
		for _, sh := range s.sh {
			sh.lfb = b
		}
		snap, _ := d.snapshot(b)
		fmt.Fprintf(os.Stderr, "block %d payfees=%s mb=%v | %v\n", b.Round, res.Class, b.MagicBlock != nil, snap)
		for _, m := range s.ms {
			if err := s.finalize(m, b); err != nil {
				fmt.Fprintf(os.Stderr, "  finalize %s: %v\n", m.key.Name, err)
			}
		}
		w.BeginBlock()
		for _, m := range s.ms {
			s.poll(m)
			if s.debug {
				restore := s.enter(m)
				mb := m.c.GetCurrentMagicBlock()
				for _, n := range mb.Sharders.CopyNodesMap() {
					fmt.Fprintf(os.Stderr, "    %s sees sharder %s status %d url %s; active=%v cr=%d\n", m.key.Name, w.Name(n.ID), n.GetStatus(), n.GetN2NURLBase(), m.c.IsActiveInChain(), m.c.GetCurrentRound())
				}
				restore()
			}
			c := m.mc.VerifVCSnapshot()
			fmt.Fprintf(os.Stderr, "  %s phase=%d dkg=%v sos=%v mpks=%d nvc=%d\n", m.key.Name, c.CurrentPhase, c.DKGSet, s.names(c.SosKeys), len(c.MpkKeys), c.NextViewChange)
		}
		if r == 1 {
			in := map[string]interface{}{"simple_miner": map[string]interface{}{"id": w.Sharders[0].ID, "n2n_host": "s1.n2n.verif",
				"host": "s1.verif", "port": shardPort, "public_key": w.Sharders[0].Pub, "short_name": "s1", "build_tag": "verif"},
				"stake_pool": map[string]interface{}{"settings": map[string]interface{}{"delegate_wallet": w.Clients[0].ID, "num_delegates": 5, "service_charge": 0.1}}}
			fmt.Fprintf(os.Stderr, "  keep: %s\n", w.SC(w.Sharders[0], "minersc", "sharder_keep", in, 0, 0).Class)
		}
	}
	w.EndBlock()
	if os.Getenv("VERIF_LOG") != "" {
		exec.Command("cp", "-r", w.Dir+"/log", "/tmp/vcclient-scratch/log").Run()
	}
	for _, m := range s.ms {
		rs, ds := m.mc.VerifVCRoundDKGs()
		fmt.Fprintf(os.Stderr, "%s dkgs at %v", m.key.Name, rs)
		for _, g := range ds {
			if g != nil {
				fmt.Fprintf(os.Stderr, " [mb=%d T=%d N=%d sr=%d]", g.MagicBlockNumber, g.T, g.N, g.StartingRound)
			}
		}
		fmt.Fprintln(os.Stderr)
	}
}

func clip(s string) string {
	if len(s) > 120 {
		return s[:120]
	}
	return s
}

// snapshot reads the contract's view-change state in block b.
func (d *drv) snapshot(b *block.Block) (string, *minersc.VerifGovPhase) {
	w := d.s.w
	sctx := w.Chain.NewStateContext(b, chain.CreateTxnMPT(b.ClientState, statecache.NewEmpty()), &transaction.Transaction{}, nil)
	g, err := minersc.VerifGovSnapshot(sctx)
	if err != nil {
		rec.Fatal("vcclient: snapshot: %v", err)
	}
	n := d.s.names
	return fmt.Sprintf("phase=%d start=%d restarts=%d dkg=%v T=%d K=%d N=%d mpks=%v gsos=%v keep=%v waited=%v mb=%v@%d vc=%d",
		g.Phase, g.StartRound, g.Restarts, n(g.DKGMiners), g.DKGT, g.DKGK, g.DKGN, n(g.Mpks), n(g.Gsos), n(g.Keep), n(g.Waited), n(g.MBMiners), g.MBStart, g.ViewChange), g
}
