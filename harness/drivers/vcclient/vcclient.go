package vcclient

import (
	"context"
	"encoding/json"
	"fmt"
	"math/rand"
	"os"
	"runtime/pprof"
	"sort"
	"strings"
	"sync"
	"time"

	"0chain.net/chaincore/block"
	"0chain.net/chaincore/chain"
	"0chain.net/chaincore/httpclientutil"
	"0chain.net/chaincore/threshold/bls"
	"0chain.net/chaincore/transaction"
	"0chain.net/miner"
	"0chain.net/smartcontract/minersc"

	"github.com/0chain/common/core/statecache"

	vc "verif/harness/common"
	"verif/harness/rec"
	"verif/harness/world"
)

func init() { vc.Register("vcclient", Run) }

// step of a scenario (scripted, random, or derived from a TLC behaviour of MC_VCClient)
type step struct {
	Op    string   `json:"op"`              // block | poll | include | droptxn | sync | adopt
	M     string   `json:"m,omitempty"`     // miner
	View  string   `json:"view,omitempty"`  // poll: which sharders answer the phase poll: cur | lag | none
	RView string   `json:"rview,omitempty"` // poll: ... and the REST calls of the phase function (default = view)
	Fate  string   `json:"fate,omitempty"`  // poll: fate of the transaction the phase function sends: ok | late | lost
	Drop  []string `json:"drop,omitempty"`  // poll: peers whose share request the network loses
}

type bufEv struct {
	m          rec.M
	shape      string
	nontrivial bool
}

type drv struct {
	s    *sim
	rc   *rec.Recorder
	base *block.Block
	r0   int64
	pl   *polys
	emu  sync.Mutex
	buf  []bufEv
	// per trace
	mbBlock *block.Block // the block that carries the new magic block
	run     *runInfo     // the loop run under way
	late    map[string][]*httpclientutil.Transaction
	lastSC  string
	debug   bool
}

type runInfo struct {
	m         *simMiner
	fate      string
	txkind    string
	execd     bool
	confirmed bool
	nrpc      int
}

func Run(a vc.Args) {
	if pf := os.Getenv("VERIF_VCCLIENT_PROF"); pf != "" {
		f, err := os.Create(pf)
		must(err)
		must(pprof.StartCPUProfile(f))
		defer pprof.StopCPUProfile()
	}
	s := newSim()
	defer s.w.Close()
	rc := rec.New(a.Out)
	defer rc.Close()
	d := &drv{s: s, rc: rc, debug: os.Getenv("VERIF_VCCLIENT_DEBUG") != ""}
	d.buildBase()
	id := 0
	do := func(kind string, steps []step, r *rand.Rand) {
		id++
		if a.Only != 0 && a.Only != id {
			rc.TraceID = id
			return
		}
		rc.TraceID = id - 1
		d.trace(id, a.Seed, kind, steps)
	}
	for i, sc := range scripted() {
		do(fmt.Sprintf("scripted-%d", i+1), sc, nil)
	}
	for _, raw := range vc.Behaviours(a.Behav) {
		var items []genItem
		must(json.Unmarshal(raw, &items))
		do("tlc", fromBehaviour(items), nil)
	}
	n := a.N
	for i := 0; i < n; i++ {
		r := vc.TraceRand(a.Seed, id+1)
		do("random", randomScenario(r, a.Steps), r)
	}
}

func (d *drv) mustOK(what string, r world.Result) {
	if r.Class != "ok" {
		rec.Fatal("vcclient base block: %s: %s %s %s", what, r.Class, r.Err, r.Panic)
	}
}

func minerInput(w *world.World, k *world.Key, port int) map[string]interface{} {
	return map[string]interface{}{
		"simple_miner": map[string]interface{}{"id": k.ID, "n2n_host": k.Name + ".n2n.verif", "host": k.Name + ".verif",
			"port": port, "public_key": k.Pub, "short_name": k.Name, "build_tag": "verif"},
		"stake_pool": map[string]interface{}{"settings": map[string]interface{}{
			"delegate_wallet": w.Clients[0].ID, "num_delegates": 5, "service_charge": 0.1}},
	}
}

// buildBase registers the magic-block miners and sharders with the contract's own transactions.
func (d *drv) buildBase() {
	w := d.s.w
	w.BeginBlock(w.Genesis)
	for i, k := range w.Miners {
		d.mustOK("add_miner "+k.Name, w.SC(k, "minersc", "add_miner", minerInput(w, k, minerPort+i), 0, 0))
	}
	for i, k := range w.Sharders {
		d.mustOK("add_sharder "+k.Name, w.SC(k, "minersc", "add_sharder", minerInput(w, k, shardPort+i), 0, 0))
	}
	w.EndBlock()
	// one more block, so that the contract's phase node exists in the base state (before the first payFees the
	// REST API answers with a made-up start phase node of the sharder's own round)
	w.BeginBlock()
	d.mustOK("payFees", w.SC(w.Miners[0], "minersc", "payFees", map[string]interface{}{"round": w.Cur.Round}, 0, 0))
	d.base = w.EndBlock()
	d.r0 = d.base.Round
}

func (d *drv) rel(round int64) int64 {
	v := round - d.r0
	if v < -1 {
		v = -1
	}
	return v
}

func keyNamesOf(ks []*world.Key) []string {
	out := make([]string, 0, len(ks))
	for _, k := range ks {
		out = append(out, k.Name)
	}
	sort.Strings(out)
	return out
}

func (d *drv) emit(m rec.M, shape string, nontrivial bool) {
	d.emu.Lock()
	d.buf = append(d.buf, bufEv{m, shape, nontrivial})
	d.emu.Unlock()
	if d.debug {
		b, _ := json.Marshal(m)
		fmt.Fprintf(os.Stderr, "%s\n", clip(string(b), 400))
	}
}

// trace runs one scenario.  (The DKGProcess loops also poll the sharders on their own every 5 s of wall time;
// the transport refuses these polls, see apiRT.)
func (d *drv) trace(id int, seed int64, kind string, steps []step) {
	d.buf = nil
	reset := d.runTrace(id, seed, kind, steps)
	d.rc.Reset(reset.m, reset.fields)
	for _, e := range d.buf {
		d.rc.Emit(e.m, e.shape, e.nontrivial)
	}
}

type resetInfo struct{ m, fields rec.M }

func (d *drv) runTrace(id int, seed int64, kind string, steps []step) resetInfo {
	s := d.s
	w := s.w
	d.pl = newPolys()
	d.mbBlock = nil
	d.run = nil
	d.late = map[string][]*httpclientutil.Transaction{}
	s.startMiners()
	defer s.stopMiners()
	w.BeginBlock(d.base)
	for _, sh := range s.sh {
		sh.lfb, sh.down = d.base, false
	}
	s.onShare = d.onShare
	s.onConfirm = d.onConfirm
	sc, _ := d.scState(w.Cur)
	clients := []rec.M{}
	for _, m := range s.ms {
		restore := s.enter(m)
		c := d.client(m)
		c["m"] = m.key.Name
		clients = append(clients, c)
		restore()
	}
	pr := []int64{phaseRounds["start"], phaseRounds["contribute"], phaseRounds["share"], phaseRounds["publish"], phaseRounds["wait"]}
	reset := resetInfo{rec.M{"family": "vcclient", "kind": kind, "id": id, "seed": seed, "steps": steps},
		rec.M{"sc": sc, "clients": clients, "pr": pr, "min_n": 3, "max_n": nMiners, "min_s": 1, "max_s": nSharders,
			"generator": w.Miners[0].Name, "miners": keyNamesOf(w.Miners), "sharders": keyNamesOf(w.Sharders),
			"cur_k": w.MagicBlock.K}}
	for _, st := range steps {
		d.step(st)
	}
	// whoever has not processed the block with the new magic block does so now; then the new keys are used
	if d.mbBlock != nil {
		for _, m := range s.ms {
			if m.lfb != d.mbBlock {
				d.adopt(m)
			}
		}
		d.lookups()
		d.groupSign()
	}
	if w.Cur != nil {
		w.EndBlock()
	}
	d.emit(rec.M{"ev": "End"}, "end", false)
	return reset
}

func (d *drv) miner(name string) *simMiner {
	for _, m := range d.s.ms {
		if m.key.Name == name {
			return m
		}
	}
	rec.Fatal("vcclient: unknown miner %q", name)
	return nil
}

func (d *drv) step(st step) {
	if d.debug {
		t0 := time.Now()
		defer func() { fmt.Fprintf(os.Stderr, "STEP %s %s took %v\n", st.Op, st.M, time.Since(t0)) }()
	}
	switch st.Op {
	case "block":
		d.block()
	case "poll":
		d.poll(st)
	case "include":
		d.includeLate(d.miner(st.M), false)
	case "droptxn":
		d.includeLate(d.miner(st.M), true)
	case "sync":
		d.s.sh[1].lfb = d.s.sh[0].lfb
		sc, _ := d.scState(d.s.sh[1].lfb)
		d.emit(rec.M{"ev": "Sync", "sc": sc}, "sync", false)
	case "adopt":
		if d.mbBlock != nil {
			if m := d.miner(st.M); m.lfb != d.mbBlock {
				d.adopt(m)
			}
		}
	default:
		rec.Fatal("vcclient: unknown step %q", st.Op)
	}
}

// ---- the ledger

// scTxn executes a transaction of the contract in the current block and emits the Txn38 event (the event the
// view-change family of the contract emits, plus the stored contents).
func (d *drv) scTxn(op, by string, size, n int, extra rec.M, exec func() world.Result) world.Result {
	w := d.s.w
	restore := d.s.enterLedger()
	_, pre := d.scState(w.Cur)
	res := exec()
	sc, post := d.scState(w.Cur)
	restore()
	ev := rec.M{"ev": "Txn38", "op": op, "by": by, "arg": "ok", "round": d.rel(w.Cur.Round), "size": size, "n": n, "valid": true,
		"target": by, "member": contains(pre.DKGMiners, d.idOf(by)), "result": res.Class, "err": clip(res.Err+res.Panic, 100),
		"st": sc["st"], "sc": sc, "poly": 0, "sos": []pair{}}
	for k, v := range extra {
		ev[k] = v
	}
	moved := "same"
	switch {
	case post.Phase != pre.Phase || post.PhasePresent != pre.PhasePresent:
		moved = fmt.Sprintf("phase%d->%d", pre.Phase, post.Phase)
	case post.Restarts != pre.Restarts:
		moved = "restart"
	}
	scs := fmt.Sprint(sc)
	changed := scs != d.lastSC
	d.lastSC = scs
	shape := fmt.Sprintf("%s/in%d/%s/%s", op, pre.Phase, res.Class, moved)
	if op != "payfees" {
		shape = fmt.Sprintf("%s/in%d/%s/changed=%v", op, pre.Phase, res.Class, changed)
	}
	d.emit(ev, shape, changed)
	return res
}

func contains(xs []string, x string) bool {
	for _, y := range xs {
		if y == x {
			return true
		}
	}
	return false
}

func (d *drv) idOf(name string) string {
	if k, ok := d.s.w.ByName[name]; ok {
		return k.ID
	}
	return ""
}

// block closes the current block: the sharder's sharder_keep in the contribute phase, the generator's payFees;
// the sharders that keep up get the block, every miner finalizes it (the real ViewChange; the block that carries
// the new magic block is processed in `adopt` steps).
func (d *drv) block() {
	s := d.s
	w := s.w
	if d.mbBlock != nil {
		return // one view change is followed
	}
	_, g := d.scState(w.Cur)
	if g.PhasePresent && g.Phase == 1 && len(g.Keep) == 0 {
		k := w.Sharders[0]
		d.scTxn("keep", k.Name, 0, 0, nil, func() world.Result {
			return w.SC(k, "minersc", "sharder_keep", minerInput(w, k, shardPort), 0, 0)
		})
	}
	gen := w.Miners[0]
	d.scTxn("payfees", gen.Name, 0, 0, nil, func() world.Result {
		return w.SC(gen, "minersc", "payFees", map[string]interface{}{"round": w.Cur.Round}, 0, 0)
	})
	restore := s.enterLedger()
	b := w.EndBlock()
	restore()
	s.sh[0].lfb = b
	if b.MagicBlock != nil {
		d.mbBlock = b
		d.emit(rec.M{"ev": "NewMB", "round": d.rel(b.Round), "mb": d.mbRec(b.MagicBlock)}, "newmb", true)
	} else {
		for _, m := range s.ms {
			if err := s.finalize(m, b); err != nil {
				rec.Fatal("vcclient: ViewChange of %s on block %d: %v", m.key.Name, b.Round, err)
			}
		}
	}
	restore = s.enterLedger()
	w.BeginBlock()
	restore()
}

// ---- the clients

func (d *drv) poll(st step) {
	s := d.s
	m := d.miner(st.M)
	select {
	case <-m.done:
		return // its DKG process is dead: nobody polls
	default:
	}
	if st.View == "" {
		st.View = "cur"
	}
	if st.RView == "" {
		st.RView = st.View
	}
	if st.Fate == "" {
		st.Fate = fateOK
	}
	d.run = &runInfo{m: m, fate: st.Fate, txkind: "none"}
	s.mu.Lock()
	s.fate = st.Fate
	s.drop = map[string]bool{}
	for _, j := range st.Drop {
		s.drop[m.key.Name+">"+j] = true
	}
	s.viewPoll, s.viewRun = st.View, st.RView
	s.mu.Unlock()
	d.emit(rec.M{"ev": "Poll", "m": m.key.Name, "view": st.View, "rview": st.RView}, "poll/"+st.View+"/"+st.RView, false)
	delivered := s.poll(m)
	restore := s.enter(m)
	c := d.client(m)
	restore()
	crashed := false
	select {
	case <-m.done:
		crashed = true
	default:
	}
	ri := d.run
	d.run = nil
	fate := "none"
	if ri.txkind != "none" {
		fate = ri.fate
		if (ri.fate == fateOK || ri.fate == fateBlind) && !ri.execd {
			fate = "rejected"
		}
	}
	shape := fmt.Sprintf("loop/cph%v/%s/%s/rpc%d", c["cph"], ri.txkind, fate, ri.nrpc)
	if crashed {
		shape = "loop/crashed"
	}
	d.emit(rec.M{"ev": "LoopEnd", "m": m.key.Name, "delivered": delivered, "txkind": ri.txkind, "fate": fate,
		"executed": ri.execd, "confirmed": ri.confirmed, "crashed": crashed, "c": c}, shape, delivered)
}

func (m *simMiner) entriesNow() int {
	m.lmu.Lock()
	defer m.lmu.Unlock()
	return m.entries
}

// onShare is called by the transport for every DKG share request (in the sender's loop goroutine).
func (d *drv) onShare(from, to *simMiner, status int, body string, share string) {
	d.pl.learn(from.key.ID, from.mc.VerifVCSnapshot().DKG)
	result := "ok"
	switch {
	case status == 0:
		result = "lost"
	case status != 200:
		result = "refused"
	}
	reason := ""
	for _, k := range []string{"DKG is not set", "don't have enough mpks", "failed to verify DKG share", "share already exists"} {
		if strings.Contains(body, k) {
			reason = k
		}
	}
	// C34: the share the sender derived for the receiver, against the key vector the sender PUBLISHED (the one
	// the contract stores for it); -1 when the contract stores none
	pub := d.publishedVec(from.key.ID)
	validPub := -1
	if pub != nil {
		validPub = 0
		var sk bls.Key
		if err := sk.SetHexString(share); err == nil {
			if pks, err := bls.ConvertStringToMpk(pub); err == nil && bls.ValidateShare(pks, sk, bls.ComputeIDdkg(to.key.ID)) {
				validPub = 1
			}
		}
	}
	if d.run != nil {
		d.run.nrpc++
	}
	d.emit(rec.M{"ev": "ShareRPC", "m": from.key.Name, "j": to.key.Name, "result": result, "reason": reason,
		"poly": d.pl.ofShare(from.key.ID, to.key.ID, share), "valid_pub": validPub},
		"rpc/"+result+"/"+strings.ReplaceAll(reason, " ", "_"), result == "ok")
}

// publishedVec returns the key vector the contract stores for the miner in the ledger's current block.
func (d *drv) publishedVec(id string) []string {
	w := d.s.w
	restore := d.s.enterLedger()
	defer restore()
	sctx := w.Chain.NewStateContext(w.Cur, chain.CreateTxnMPT(w.CurState, statecache.NewEmpty()), &transaction.Transaction{}, nil)
	mpks := block.NewMpks()
	if err := sctx.GetTrieNode(minersc.MinersMPKKey, mpks); err != nil {
		return nil
	}
	if k, ok := mpks.Mpks[id]; ok && k != nil {
		return k.Mpk
	}
	return nil
}

// onConfirm is called (in the loop goroutine) when a miner asks for the confirmation of the transaction it sent.
func (d *drv) onConfirm(m *simMiner, t *httpclientutil.Transaction, fate string) bool {
	d.pl.learn(m.key.ID, m.mc.VerifVCSnapshot().DKG)
	kind := txKind(t)
	if d.run != nil {
		d.run.txkind = kind
	}
	switch fate {
	case fateOK, fateBlind:
		// transactions of one sender are executed in nonce order: the late ones first
		for len(d.late[m.key.ID]) > 0 {
			d.includeLate(m, false)
		}
		res := d.execClient(m, t)
		if d.run != nil {
			d.run.execd = res.Class != "rejected"
			d.run.confirmed = d.run.execd && fate == fateOK
		}
		return res.Class != "rejected" && fate == fateOK
	case fateLate:
		d.late[m.key.ID] = append(d.late[m.key.ID], t)
	}
	return false
}

func txKind(t *httpclientutil.Transaction) string {
	var scd struct {
		Name string `json:"name"`
	}
	_ = json.Unmarshal([]byte(t.TransactionData), &scd)
	switch scd.Name {
	case "contributeMpk":
		return "mpk"
	case "shareSignsOrShares":
		return "sos"
	case "wait":
		return "wait"
	}
	return scd.Name
}

// execClient executes a transaction a client produced and emits its Txn38 event with the abstract payload.
func (d *drv) execClient(m *simMiner, t *httpclientutil.Transaction) world.Result {
	var scd struct {
		Name  string          `json:"name"`
		Input json.RawMessage `json:"input"`
	}
	must(json.Unmarshal([]byte(t.TransactionData), &scd))
	kind := txKind(t)
	extra := rec.M{}
	size, n := 0, 0
	switch kind {
	case "mpk":
		mpk := &block.MPK{}
		must(json.Unmarshal(scd.Input, mpk))
		size = len(mpk.Mpk)
		extra["poly"] = d.pl.ofVec(m.key.ID, mpk.Mpk)
	case "sos":
		sos := block.NewShareOrSigns()
		must(json.Unmarshal(scd.Input, sos))
		n = len(sos.ShareOrSigns)
		x := map[string]int{}
		for to, e := range sos.ShareOrSigns {
			x[to] = d.sosEntry(m.key.ID, to, e)
		}
		extra["sos"] = d.pairs(x)
	}
	return d.scTxn(kind, m.key.Name, size, n, extra, func() world.Result { return d.s.execClientTxn(t) })
}

// includeLate executes (or drops) the oldest unconfirmed transaction of the miner.
func (d *drv) includeLate(m *simMiner, drop bool) {
	q := d.late[m.key.ID]
	if len(q) == 0 {
		return
	}
	d.late[m.key.ID] = q[1:]
	if drop {
		d.emit(rec.M{"ev": "DropTxn", "m": m.key.Name, "kind": txKind(q[0])}, "droptxn/"+txKind(q[0]), false)
		return
	}
	d.execClient(m, q[0])
}

// adopt makes the miner process the block that carries the new magic block.
func (d *drv) adopt(m *simMiner) {
	s := d.s
	err := s.finalize(m, d.mbBlock)
	restore := s.enter(m)
	c := d.client(m)
	restore()
	e := ""
	if err != nil {
		e = clip(err.Error(), 100)
	}
	rd := c["rdkg"].(rec.M)
	d.emit(rec.M{"ev": "Adopt", "m": m.key.Name, "err": e, "c": c}, fmt.Sprintf("adopt/dkg=%v/err=%v", rd["set"], e != ""), true)
}

// lookups: which magic block and which DKG each miner uses for rounds around the switch (C40).
func (d *drv) lookups() {
	s := d.s
	sr := d.mbBlock.MagicBlock.StartingRound
	for _, m := range s.ms {
		restore := s.enter(m)
		mbRounds := []int64{}
		for _, r := range m.c.MagicBlockStorage.GetRounds() {
			mbRounds = append(mbRounds, d.rel(r)+1) // +1: the genesis magic block (round 0) is 0 in the trace
		}
		sort.Slice(mbRounds, func(i, j int) bool { return mbRounds[i] < mbRounds[j] })
		dkgRounds := []int64{}
		rs, _ := m.mc.VerifVCRoundDKGs()
		for _, r := range rs {
			dkgRounds = append(dkgRounds, d.rel(r)+1)
		}
		for _, r := range []int64{sr - 2, sr - 1, sr, sr + 1, sr + chain.ViewChangeOffset - 1, sr + chain.ViewChangeOffset, sr + chain.ViewChangeOffset + 1, sr + 20} {
			gotMB := d.rel(m.mc.GetMagicBlock(r).StartingRound) + 1
			gotDKG := int64(-1)
			if g := m.mc.GetDKG(r); g != nil {
				gotDKG = d.rel(g.StartingRound) + 1
			}
			d.emit(rec.M{"ev": "Lookup", "m": m.key.Name, "r": d.rel(r) + 1, "offset": chain.ViewChangeOffset, "mb_rounds": mbRounds,
				"got_mb": gotMB, "dkg_rounds": dkgRounds, "got_dkg": gotDKG},
				fmt.Sprintf("lookup/%+d/mb%v/dkg%v", r-sr, gotMB > 0, gotDKG > 0), false)
		}
		restore()
	}
}

// groupSign: every miner that installed a DKG for the new magic block signs a message with its key share (the
// real DKG.Sign, as GetBlsShare does); every such miner verifies every share with ITS group-derived public keys
// (the real VerifySignature, as verifyVRFShare does); every T-subset recovers the group signature (the real
// CalBlsGpSign, as ThresholdNumBLSSigReceived does) (C34).
func (d *drv) groupSign() {
	s := d.s
	type signer struct {
		m   *simMiner
		g   *bls.DKG
		sig string
	}
	var sg []signer
	for _, m := range s.ms {
		rs, ds := m.mc.VerifVCRoundDKGs()
		for i, g := range ds {
			if g != nil && rs[i] == d.mbBlock.MagicBlock.StartingRound {
				sg = append(sg, signer{m, g, ""})
			}
		}
	}
	msg := fmt.Sprintf("%d0%x", d.mbBlock.Round+chain.ViewChangeOffset+1, 12345)
	for i := range sg {
		sg[i].sig = sg[i].g.Sign(msg).GetHexString()
	}
	ok := map[string]int{}
	for _, x := range sg {
		good := 1
		for _, v := range sg {
			var sig bls.Sign
			if err := sig.SetHexString(x.sig); err != nil || !v.g.VerifySignature(&sig, msg, bls.ComputeIDdkg(x.m.key.ID)) {
				good = 0
			}
		}
		ok[x.m.key.ID] = good
	}
	// recovered group signatures over all T-subsets of the signers whose shares verify everywhere
	var gs []signer
	for _, x := range sg {
		if ok[x.m.key.ID] == 1 {
			gs = append(gs, x)
		}
	}
	t := d.mbBlock.MagicBlock.T
	recs := map[string]bool{}
	subsets := 0
	if len(gs) >= t && t > 0 {
		idx := make([]int, t)
		var rcs func(start, k int)
		rcs = func(start, k int) {
			if k == t {
				var sigs, ids []string
				for _, i := range idx {
					sigs = append(sigs, gs[i].sig)
					ids = append(ids, miner.ComputeBlsID(gs[i].m.key.ID))
				}
				g, err := gs[idx[0]].g.CalBlsGpSign(sigs, ids)
				subsets++
				if err != nil {
					recs["error:"+err.Error()] = true
				} else {
					recs[g.GetHexString()] = true
				}
				return
			}
			for i := start; i < len(gs); i++ {
				idx[k] = i
				rcs(i+1, k+1)
			}
		}
		rcs(0, 0)
	}
	signers := []pair{}
	for _, x := range sg {
		signers = append(signers, pair{x.m.key.Name, ok[x.m.key.ID]})
	}
	sort.Slice(signers, func(i, j int) bool { return signers[i].A < signers[j].A })
	d.emit(rec.M{"ev": "GroupSign", "signers": signers, "t": t, "subsets": subsets, "distinct": len(recs)},
		fmt.Sprintf("groupsign/n%d/sub%d/distinct%d", len(sg), subsets, len(recs)), true)
}

func clip(s string, n int) string {
	if len(s) > n {
		return s[:n]
	}
	return s
}

var _ = context.Background
