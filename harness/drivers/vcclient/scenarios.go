package vcclient

import "math/rand"

var minerNames = []string{"m1", "m2", "m3", "m4"}

func polls(ms ...string) []step {
	var out []step
	for _, m := range ms {
		out = append(out, step{Op: "poll", M: m})
	}
	return out
}

func cat(xs ...[]step) []step {
	var o []step
	for _, x := range xs {
		o = append(o, x...)
	}
	return o
}

func rep(n int, x []step) []step {
	var o []step
	for i := 0; i < n; i++ {
		o = append(o, x...)
	}
	return o
}

var blk = []step{{Op: "block"}}

// With phase rounds 1/2/2/2/2 and the start phase begun in the base block (relative round 0) the contract's
// phases start at the rounds 1 contribute, 3 share, 5 publish, 7 wait, 9 = view change and start of the next
// cycle (10 contribute, 12, 14, 16, 18) as long as no phase fails.

// scripted scenarios guarantee the reach of every phase, of the adoption and of the fault paths.
func scripted() [][]step {
	all := polls(minerNames...)
	round := cat(blk, all)
	three := polls("m1", "m2", "m3")
	// 1. everybody polls after every block.  The share requests to a peer that has not yet fetched the key
	//    vectors fail and are not repeated: those shares are revealed in the publish phase.
	happy := cat(all, rep(10, round))
	// 2. a cancelled view change leaves a stored DKG summary behind: in the first cycle only m1 gets to the wait
	//    phase (the view change needs K = 3 confirmations and is cancelled); in the second cycle m1 takes part up
	//    to the publish phase but misses the wait phase, the others confirm, the magic block comes into force and
	//    m1 installs the shares of the FIRST cycle's polynomials
	stale := cat(all, rep(6, round), blk, polls("m1"), blk, blk, // rounds 1..6, 7 (wait: only m1), 8, 9: cancelled
		all, rep(6, round), blk, polls("m2", "m3", "m4"), blk, blk) // rounds 10..15, 16 (wait: without m1), 17, 18
	// 3. network and transaction faults: every request to or from m3 is lost (its shares are revealed, and it
	//    learns the others' from the magic block); m2's key vector is confirmed late; m4's shares transaction
	//    is executed but never confirmed
	faults := cat(all,
		blk, []step{{Op: "poll", M: "m1"}, {Op: "poll", M: "m2", Fate: "late"}, {Op: "poll", M: "m3"}, {Op: "poll", M: "m4"}},
		blk, []step{{Op: "include", M: "m2"}}, all, blk,
		[]step{{Op: "poll", M: "m1", Drop: []string{"m3"}}, {Op: "poll", M: "m2", Drop: []string{"m3"}},
			{Op: "poll", M: "m3", Drop: []string{"m1", "m2", "m4"}}, {Op: "poll", M: "m4", Drop: []string{"m3"}}},
		blk, all, blk,
		[]step{{Op: "poll", M: "m1"}, {Op: "poll", M: "m2"}, {Op: "poll", M: "m3"}, {Op: "poll", M: "m4", Fate: "blind"}},
		blk, all, rep(4, round))
	// 4. m4 never shows up: three miners complete the cycle (K = 3)
	slow := cat(three, rep(10, cat(blk, three)), polls("m4"))
	// 5. too few key vectors: the contract restarts the DKG; m3 loses its key vector transaction for good; then a
	//    full cycle.  m2 sleeps through the share phase of the second cycle and is thrown back to `unknown`
	restart := cat(all, blk, []step{{Op: "poll", M: "m1"}, {Op: "poll", M: "m2"}, {Op: "poll", M: "m3", Fate: "lost"}},
		blk, blk, // contribute fails at round 3: restart
		rep(3, round), // 4 contribute .. 6 share
		rep(2, cat(blk, polls("m1", "m3", "m4"))), // share phase without m2
		rep(6, round))
	// 6. a lagging sharder: m2 is served by the sharder that is two blocks behind, m3 finds no sharder at all in
	//    the publish phase and catches up one block later
	lagging := cat(all, rep(2, round), blk, []step{{Op: "poll", M: "m1"}, {Op: "poll", M: "m2", View: "lag"}, {Op: "poll", M: "m3"}, {Op: "poll", M: "m4"}},
		[]step{{Op: "sync"}}, round,
		blk, []step{{Op: "poll", M: "m1"}, {Op: "poll", M: "m2"}, {Op: "poll", M: "m3", RView: "none"}, {Op: "poll", M: "m4", View: "lag"}},
		round, []step{{Op: "sync"}}, rep(5, round))
	// 7. a sharder that is one block behind serves m2 an incomplete list of key vectors in the share phase (m3's
	//    is missing): m2 computes no share for m3 and cannot validate m3's; m3 reveals its share for m2; in the
	//    wait phase m2 meets a revealed share of a miner it has no key vector of
	partial := cat(all, blk, polls("m1", "m2", "m4"), blk, []step{{Op: "sync"}}, polls("m3"), blk,
		[]step{{Op: "poll", M: "m1"}, {Op: "poll", M: "m2", RView: "lag"}, {Op: "poll", M: "m3"}, {Op: "poll", M: "m4"}},
		rep(7, round))
	return [][]step{happy, stale, faults, slow, restart, lagging, partial}
}

// randomScenario: blocks, each followed by polls of a random subset of the miners with occasional faults.
func randomScenario(r *rand.Rand, blocks int) []step {
	var out []step
	lateOf := map[string]int{}
	pFault := []int{0, 5, 12}[r.Intn(3)] // percent
	sleepy := ""
	if r.Intn(3) == 0 {
		sleepy = minerNames[r.Intn(len(minerNames))]
	}
	for i := 0; i < blocks; i++ {
		out = append(out, blk...)
		if r.Intn(100) < pFault {
			out = append(out, step{Op: "sync"})
		}
		order := r.Perm(len(minerNames))
		for _, k := range order {
			m := minerNames[k]
			p := 85
			if m == sleepy {
				p = 35
			}
			if r.Intn(100) >= p {
				continue
			}
			st := step{Op: "poll", M: m}
			if r.Intn(100) < pFault {
				st.View = []string{"lag", "lag", "none"}[r.Intn(3)]
			}
			if r.Intn(100) < pFault {
				st.RView = []string{"lag", "none", "cur"}[r.Intn(3)]
			}
			if r.Intn(100) < pFault {
				st.Fate = []string{"late", "lost", "blind"}[r.Intn(3)]
				if st.Fate == "late" {
					lateOf[m]++
				}
			}
			for _, j := range minerNames {
				if j != m && r.Intn(100) < pFault {
					st.Drop = append(st.Drop, j)
				}
			}
			out = append(out, st)
			if lateOf[m] > 0 && r.Intn(2) == 0 {
				op := "include"
				if r.Intn(4) == 0 {
					op = "droptxn"
				}
				out = append(out, step{Op: op, M: m})
				lateOf[m]--
			}
		}
	}
	// the miners process the block with the new magic block in a random order
	for _, k := range r.Perm(len(minerNames)) {
		out = append(out, step{Op: "adopt", M: minerNames[k]})
	}
	return out
}

// genItem is one logged step of a behaviour generated by TLC from MC_VCClient (Gen_VCClient.cfg).
type genItem struct {
	Op   string `json:"op"` // block | sync | poll | take | lost | include | unconfirmed | droptxn | adopt
	M    string `json:"m"`
	J    string `json:"j"`
	View string `json:"view"`
}

// fromBehaviour folds the logged model steps into driver steps: the steps of one loop iteration (take, lost share
// requests, the execution of the transaction, the failed confirmation) become the attributes of its poll step.
func fromBehaviour(items []genItem) []step {
	var out []step
	cur := -1 // index in out of the poll step under way
	included := false
	for _, it := range items {
		switch it.Op {
		case "poll":
			out = append(out, step{Op: "poll", M: it.M, View: it.View, RView: it.View})
			cur = len(out) - 1
			included = false
		case "take":
			if cur >= 0 && out[cur].M == it.M {
				out[cur].RView = it.View
			}
		case "lost":
			if cur >= 0 && out[cur].M == it.M {
				out[cur].Drop = append(out[cur].Drop, it.J)
			}
		case "include":
			if cur >= 0 && out[cur].M == it.M {
				included = true // the transaction of this iteration (and the older ones of the miner) got into the block
			} else {
				out = append(out, step{Op: "include", M: it.M})
			}
		case "unconfirmed":
			if cur >= 0 && out[cur].M == it.M {
				if included {
					out[cur].Fate = "blind"
				} else {
					out[cur].Fate = "late"
				}
			}
			cur = -1
		case "done":
			cur = -1
		case "block", "sync":
			cur = -1
			out = append(out, step{Op: it.Op})
		case "droptxn", "adopt":
			cur = -1
			out = append(out, step{Op: it.Op, M: it.M})
		}
	}
	return out
}
