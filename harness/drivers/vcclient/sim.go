// Package vcclient drives the REAL miner-side view-change / DKG client (miner/protocol_view_change.go,
// miner/protocol_view_chainge_main.go, miner.Chain.ViewChange, SetDKGSFromStore, chain.GetPhaseFromSharders,
// chain.GetFromSharders, chain.ConfirmTransaction) of several simulated miners in one process against the
// REAL miner contract executed by the world's chain.
//
// One process holds one ledger (world.World: real chain.Chain + real state + real minersc) and, per trace, one
// fresh chain.Chain + miner.Chain per simulated miner, each running the real DKGProcess loop in its own
// goroutine.  The process globals a node has exactly one of (node.Self, chain.GetServerChain, miner.GetMinerChain,
// the dkg-summary / magic-block-data stores) are switched to the miner that runs; the driver serialises the
// miners (exactly one of them runs at any time).  The two HTTP clients of the node (transactions / REST calls:
// chaincore/httpclientutil; node-to-node requests: chaincore/node) get in-process transports:
//   - REST calls to a sharder are answered by the REAL minersc REST handlers over the block that sharder has;
//   - a transaction put to the miners is captured; its confirmation request is the point where the scenario
//     decides whether the transaction gets into the current block (it is then executed by the real
//     Chain.UpdateState) or not;
//   - a DKG share request to a peer is served by the REAL SignShareRequestHandler of the peer (through the real
//     node-to-node server wrapper), after switching the globals to the peer and back.
package vcclient

import (
	"bytes"
	"context"
	"encoding/json"
	"fmt"
	"io"
	"net/http"
	"net/http/httptest"
	"net/url"
	"os"
	"path/filepath"
	"runtime"
	"sort"
	"strconv"
	"strings"
	"sync"
	"time"

	"0chain.net/chaincore/block"
	"0chain.net/chaincore/chain"
	cstate "0chain.net/chaincore/chain/state"
	"0chain.net/chaincore/httpclientutil"
	"0chain.net/chaincore/node"
	"0chain.net/chaincore/threshold/bls"
	"0chain.net/chaincore/transaction"
	"0chain.net/core/common"
	"0chain.net/core/datastore"
	"0chain.net/core/ememorystore"
	"0chain.net/core/viper"
	"0chain.net/miner"
	"0chain.net/smartcontract/minersc"
	"0chain.net/smartcontract/rest"

	"github.com/0chain/common/core/statecache"
	"github.com/linxGnu/grocksdb"

	"verif/harness/rec"
	"verif/harness/world"
)

const (
	nMiners   = 4
	nSharders = 2
	minerPort = 7000 // world: miner i listens on 7000+i, sharder j on 7100+j
	shardPort = 7100
)

var phaseRounds = map[string]int64{"start": 1, "contribute": 2, "share": 2, "publish": 2, "wait": 2}

type simMiner struct {
	s    *sim
	idx  int
	key  *world.Key
	node *node.Node
	c    *chain.Chain
	mc   *miner.Chain
	dir  string
	// loop control
	cancel   context.CancelFunc
	done     chan struct{}
	gid      string // goroutine id of the DKGProcess loop
	entries  int    // number of times the loop entered its select
	lmu      sync.Mutex
	panicked string
	loopCh   chan chain.PhaseEvent // what the loop reads
	realCh   chan chain.PhaseEvent // what sendPhase writes to
	// the block this miner has finalized last
	lfb *block.Block
}

type simSharder struct {
	idx  int
	key  *world.Key
	lfb  *block.Block // the block whose state the sharder serves
	down bool
}

// setView makes the sharders reachable according to the abstract view of a step: "cur" = the up-to-date
// sharder s1 (and s2 if it serves the same block), "lag" = only the lagging sharder s2, "none" = nobody.
func (s *sim) setView(view string) {
	cur, lagging := s.sh[0], s.sh[1]
	switch view {
	case "cur":
		cur.down, lagging.down = false, lagging.lfb != cur.lfb
	case "lag":
		cur.down, lagging.down = true, false
	case "none":
		cur.down, lagging.down = true, true
	default:
		rec.Fatal("vcclient: unknown view %q", view)
	}
}

// fate of the transaction a phase function sends
const (
	fateOK    = "ok"    // included in the current block, confirmed
	fateLate  = "late"  // not confirmed; included in the next block
	fateLost  = "lost"  // never included
	fateBlind = "blind" // included in the current block, but the confirmation fails
)

type sim struct {
	w       *world.World
	ms      []*simMiner
	sh      []*simSharder
	byPort  map[int]*simMiner
	shPort  map[int]*simSharder
	cur     *simMiner // the miner whose globals are installed (nil: the ledger)
	restEP  map[string]func(http.ResponseWriter, *http.Request)
	restCur *simSharder
	dbs     []*grocksdb.TransactionDB

	mu        sync.Mutex
	txns      map[string]*httpclientutil.Transaction // captured puts by hash
	decided   map[string][]byte                      // confirmation answers already given, by hash (nil: not found)
	fate      string                                 // fate of the next transaction
	late      []*httpclientutil.Transaction
	drop      map[string]bool // "from>to" share requests the network loses
	onShare   func(from, to *simMiner, status int, body string, share string)
	onConfirm func(m *simMiner, t *httpclientutil.Transaction, fate string) bool // true: executed, found
	viewPoll  string                                                             // which sharders answer /getPhase
	viewRun   string                                                             // ... and everything else
	debug     bool
	traceCtx  context.Context
	stopAll   context.CancelFunc
}

type loopKeyT struct{}

var loopKey = loopKeyT{}

// loopCtx is the context a DKGProcess loop runs with: it counts the loop's entries into its select statement
// (Go evaluates ctx.Done() of `case <-ctx.Done()` every time the select is entered) and marks the requests
// that originate from the loop.
type loopCtx struct {
	context.Context
	m *simMiner
}

func (l loopCtx) Done() <-chan struct{} {
	var pcs [1]uintptr
	if runtime.Callers(2, pcs[:]) == 1 {
		f, _ := runtime.CallersFrames(pcs[:]).Next()
		if strings.HasSuffix(f.Function, "miner.(*Chain).DKGProcess") {
			l.m.lmu.Lock()
			l.m.entries++
			if l.m.gid == "" {
				l.m.gid = goid()
			}
			l.m.lmu.Unlock()
		}
	}
	return l.Context.Done()
}

func (l loopCtx) Value(key interface{}) interface{} {
	if key == loopKey {
		return l.m
	}
	return l.Context.Value(key)
}

func goid() string {
	var buf [64]byte
	n := runtime.Stack(buf[:], false)
	f := strings.Fields(string(buf[:n]))
	if len(f) >= 2 {
		return f[1]
	}
	return ""
}

var stackBuf []byte // reused by idle (driver goroutine only)

// idle tells whether the miner's DKGProcess loop is blocked in its own select statement with nothing queued.
func (m *simMiner) idle() bool {
	m.lmu.Lock()
	gid := m.gid
	m.lmu.Unlock()
	if gid == "" || len(m.loopCh) > 0 {
		return false
	}
	if stackBuf == nil {
		stackBuf = make([]byte, 256<<10)
	}
	var buf []byte
	for {
		n := runtime.Stack(stackBuf, true)
		if n < len(stackBuf) {
			buf = stackBuf[:n]
			break
		}
		stackBuf = make([]byte, 2*len(stackBuf))
	}
	head := []byte("goroutine " + gid + " [")
	i := bytes.Index(buf, head)
	if i < 0 || (i > 0 && buf[i-1] != '\n') {
		return false
	}
	g := buf[i+len(head):]
	if !bytes.HasPrefix(g, []byte("select")) {
		return false
	}
	nl := bytes.IndexByte(g, '\n')
	return nl >= 0 && bytes.HasPrefix(g[nl+1:], []byte("0chain.net/miner.(*Chain).DKGProcess("))
}

// waitIdle blocks until the loop has consumed and completely processed whatever was sent to it.
func (m *simMiner) waitIdle() {
	deadline := time.Now().Add(20 * time.Second)
	for !m.idle() {
		if time.Now().After(deadline) {
			rec.Fatal("vcclient: DKGProcess loop of %s does not come back to its select", m.key.Name)
		}
		select {
		case <-m.done:
			return // crashed (LoopEnd reports it)
		default:
		}
		time.Sleep(200 * time.Microsecond)
	}
}

func newSim() *sim {
	s := &sim{byPort: map[int]*simMiner{}, shPort: map[int]*simSharder{}, txns: map[string]*httpclientutil.Transaction{}, decided: map[string][]byte{},
		drop: map[string]bool{}, debug: os.Getenv("VERIF_VCCLIENT_DEBUG") != ""}
	sc := map[string]interface{}{
		"smart_contracts.minersc.min_n": 3, "smart_contracts.minersc.max_n": nMiners,
		"smart_contracts.minersc.min_s": 1, "smart_contracts.minersc.max_s": nSharders,
		"smart_contracts.minersc.reward_round_frequency": 100000,
	}
	for p, n := range phaseRounds {
		sc["smart_contracts.minersc."+p+"_rounds"] = n
	}
	s.w = world.New(world.Options{Clients: 2, Miners: nMiners, Sharders: nSharders,
		Overrides: map[string]interface{}{"server_chain.view_change": true, "server_chain.dkg": true,
			"network.user_handlers.rate_limit": 0, "network.n2n_handlers.rate_limit": 0},
		SCOverrides: sc,
		PreGenesis: func(w *world.World) {
			est := ememorystore.GetStorageProvider()
			bls.SetupDKGEntity()
			bls.SetupDKGSummary(est)
			block.SetupMagicBlockData(est)
			miner.SetupMinerChain(w.Chain)
			miner.SetupM2MRequestors()
		}})
	common.ConfigRateLimits()
	// as miner/miner/main does
	if t := int64(viper.GetInt("server_chain.transaction.timeout")); t > 0 {
		transaction.SetTxnTimeout(t)
	} else {
		transaction.SetTxnTimeout(30)
	}
	shareHandler = common.N2NRateLimit(node.ToN2NSendEntityHandler(miner.SignShareRequestHandler))
	// nobody consumes the node-status monitor's channel in the harness
	go func() {
		for range chain.UpdateNodes {
		}
	}()
	httpclientutil.VerifVCSetTransport(apiRT{s})
	node.VerifVCSetTransport(n2nRT{s})
	qc := &queryChainer{s: s}
	s.restEP = map[string]func(http.ResponseWriter, *http.Request){}
	for _, ep := range minersc.GetEndpoints(rest.NewRestHandler(qc)) {
		s.restEP[ep.URI] = ep.Handler
	}
	for i, k := range s.w.Sharders {
		sh := &simSharder{idx: i, key: k}
		s.sh = append(s.sh, sh)
		s.shPort[shardPort+i] = sh
	}
	return s
}

// ---- the globals of "the node that runs now"

func (s *sim) enter(m *simMiner) (restore func()) {
	prev := s.cur
	s.install(m)
	return func() { s.install(prev) }
}

func (s *sim) install(m *simMiner) {
	s.cur = m
	w := s.w
	if m == nil {
		node.Self.Node = w.MinerNodes[0]
		must(node.Self.SetSignatureScheme(w.Miners[0].Scheme))
		chain.SetServerChain(w.Chain)
		return
	}
	node.Self.Node = m.node
	must(node.Self.SetSignatureScheme(m.key.Scheme))
	node.Self.SetNonce(w.StateNonce(m.key.ID))
	chain.SetServerChain(m.c)
	miner.VerifVCSelect(m.mc)
	ememorystore.AddPool("dkgsummarydb", s.dbs[2*m.idx])
	ememorystore.AddPool("magicblockdatadb", s.dbs[2*m.idx+1])
}

func must(err error) {
	if err != nil {
		panic(err)
	}
}

// ---- per-trace miners

// startMiners gives every simulated miner a fresh chain (genesis only) and starts its DKGProcess loop.
func (s *sim) startMiners() {
	w := s.w
	s.traceCtx, s.stopAll = context.WithCancel(context.Background())
	s.ms = nil
	s.byPort = map[int]*simMiner{}
	s.mu.Lock()
	s.txns = map[string]*httpclientutil.Transaction{}
	s.decided = map[string][]byte{}
	s.late = nil
	s.drop = map[string]bool{}
	s.fate = fateOK
	s.viewPoll, s.viewRun = "cur", "cur"
	s.mu.Unlock()
	for i, k := range w.Miners {
		m := &simMiner{s: s, idx: i, key: k, node: w.MinerNodes[i], done: make(chan struct{})}
		if len(s.dbs) < 2*(i+1) {
			m.dir = filepath.Join(w.Dir, "vc-"+k.Name)
			must(os.MkdirAll(m.dir, 0o755))
			d1, err := ememorystore.CreateDB(filepath.Join(m.dir, "dkg"))
			must(err)
			d2, err := ememorystore.CreateDB(filepath.Join(m.dir, "mb"))
			must(err)
			s.dbs = append(s.dbs, d1, d2)
		}
		m.c = chain.NewChainFromConfig()
		m.c.SetupStateCache()
		go m.c.StartLFMBWorker(s.traceCtx)
		m.mc = miner.VerifVCNewChain(m.c)
		s.ms = append(s.ms, m)
		s.byPort[minerPort+i] = m
		restore := s.enter(m)
		s.wipeStores()
		m.c.AddGenesisBlock(w.Genesis)
		m.lfb = w.Genesis
		// a DKG for the genesis magic block (a running miner has one; its keys do not matter here)
		g0 := bls.MakeDKG(w.MagicBlock.T, w.MagicBlock.N, k.ID)
		g0.MagicBlockNumber, g0.StartingRound = w.MagicBlock.MagicBlockNumber, w.MagicBlock.StartingRound
		must(m.mc.SetDKG(g0, g0.StartingRound))
		for _, n := range m.c.GetCurrentMagicBlock().Sharders.CopyNodes() {
			n.SetStatus(node.NodeStatusActive) // the sharders are reachable
		}
		restore()
		ctx, cancel := context.WithCancel(s.traceCtx)
		m.cancel = cancel
		// the loop reads a channel of the harness; sendPhase keeps writing to the chain's own one; the driver
		// moves an event from the one to the other (and so knows that there was one)
		m.loopCh = make(chan chain.PhaseEvent, 1)
		m.realCh = m.c.VerifVCSwapPhaseEvents(m.loopCh)
		go func(m *simMiner) {
			defer close(m.done)
			defer func() {
				// a panic in a phase function ends the node's DKG process (and, unrecovered, the node)
				if r := recover(); r != nil {
					m.lmu.Lock()
					m.panicked = fmt.Sprint(r)
					m.lmu.Unlock()
				}
			}()
			m.mc.DKGProcess(loopCtx{Context: ctx, m: m})
		}(m)
	}
	// the loops fetch the phase once at start (initPhaseTimer): let that pass
	for _, m := range s.ms {
		deadline := time.Now().Add(10 * time.Second)
		for {
			m.lmu.Lock()
			ok := m.gid != ""
			m.lmu.Unlock()
			if ok {
				break
			}
			if time.Now().After(deadline) {
				rec.Fatal("vcclient: loop of %s did not start", m.key.Name)
			}
			time.Sleep(100 * time.Microsecond)
		}
	}
	for _, m := range s.ms {
		m.c.VerifVCSwapPhaseEvents(m.realCh) // the loop has taken its channel
	}
	time.Sleep(2 * time.Millisecond)
	for _, m := range s.ms {
		m.waitIdle()
	}
}

func (s *sim) stopMiners() {
	if s.stopAll == nil {
		return
	}
	s.stopAll()
	for _, m := range s.ms {
		select {
		case <-m.done:
		case <-time.After(10 * time.Second):
			rec.Fatal("vcclient: loop of %s does not stop", m.key.Name)
		}
	}
	s.install(nil)
}

// wipeStores removes the stored DKG summaries and magic block data of the installed miner.
func (s *sim) wipeStores() {
	for id := 1; id <= 6; id++ {
		sum := datastore.GetEntity("dkgsummary").(*bls.DKGSummary)
		sum.ID = strconv.Itoa(id)
		delEntity(sum)
		mbd := datastore.GetEntity("magicblockdata").(*block.MagicBlockData)
		mbd.ID = strconv.Itoa(id)
		delEntity(mbd)
	}
}

func delEntity(e datastore.Entity) {
	emd := e.GetEntityMetadata()
	ctx := ememorystore.WithEntityConnection(context.Background(), emd)
	defer ememorystore.Close(ctx)
	if err := emd.GetStore().Delete(ctx, e); err != nil {
		rec.Fatal("vcclient: wiping store: %v", err)
	}
	must(ememorystore.GetEntityCon(ctx, emd).Commit())
}

// ---- the sharders' REST service (real minersc handlers over the sharder's block)

type queryChainer struct{ s *sim }

func (q *queryChainer) GetQueryStateContext() cstate.TimedQueryStateContextI {
	s := q.s
	b := s.restCur.lfb
	w := s.w
	mpt := chain.CreateTxnMPT(b.ClientState, statecache.NewEmpty())
	sctx := w.Chain.NewStateContext(b, mpt, &transaction.Transaction{}, nil)
	return cstate.NewTimedQueryStateContext(sctx, func() common.Timestamp { return w.Now })
}
func (q *queryChainer) SetQueryStateContext(cstate.TimedQueryStateContextI) {}

func resp(req *http.Request, code int, body []byte) *http.Response {
	return &http.Response{StatusCode: code, Status: strconv.Itoa(code) + " " + http.StatusText(code), Proto: "HTTP/1.1", ProtoMajor: 1, ProtoMinor: 1,
		Header: http.Header{"Content-Type": []string{"application/json"}}, Body: io.NopCloser(bytes.NewReader(body)),
		ContentLength: int64(len(body)), Request: req}
}

func portOf(req *http.Request) int {
	p, _ := strconv.Atoi(req.URL.Port())
	return p
}

// apiRT is the transport of chaincore/httpclientutil.
type apiRT struct{ s *sim }

func (t apiRT) RoundTrip(req *http.Request) (*http.Response, error) {
	s := t.s
	path := req.URL.Path
	port := portOf(req)
	switch {
	case strings.HasSuffix(path, "/v1/transaction/put"):
		body, _ := io.ReadAll(req.Body)
		txn := &httpclientutil.Transaction{}
		if err := json.Unmarshal(body, txn); err != nil {
			return resp(req, 400, []byte(`{}`)), nil
		}
		s.mu.Lock()
		if _, ok := s.txns[txn.Hash]; !ok {
			s.txns[txn.Hash] = txn
		}
		s.mu.Unlock()
		return resp(req, 200, []byte(`{}`)), nil
	case strings.HasSuffix(path, "/v1/transaction/get/confirmation"):
		sh := s.shPort[port]
		s.mu.Lock()
		s.setView(s.viewRun)
		s.mu.Unlock()
		if sh == nil || sh.down {
			return nil, fmt.Errorf("vcclient: sharder unreachable")
		}
		if body, ok := s.confirm(req.URL.Query().Get("hash")); ok {
			return resp(req, 200, body), nil
		}
		return resp(req, 404, []byte(`{"error":"not found"}`)), nil
	case strings.Contains(path, "/v1/screst/"):
		sh := s.shPort[port]
		s.mu.Lock()
		if strings.HasSuffix(path, "/getPhase") {
			s.setView(s.viewPoll)
		} else {
			s.setView(s.viewRun)
		}
		s.mu.Unlock()
		if sh == nil || sh.down {
			return nil, fmt.Errorf("vcclient: sharder unreachable")
		}
		// the loops poll the phase on their own every 5 s of wall time: not part of a scenario
		if _, fromLoop := req.Context().Value(loopKey).(*simMiner); fromLoop && strings.HasSuffix(path, "/getPhase") {
			return nil, fmt.Errorf("vcclient: unsolicited poll")
		}
		h, ok := s.restEP[path]
		if !ok {
			return resp(req, 404, []byte(`{}`)), nil
		}
		s.mu.Lock()
		s.restCur = sh
		rr := httptest.NewRecorder()
		sreq := httptest.NewRequest(req.Method, req.URL.String(), nil)
		restore := s.enterLedger()
		h(rr, sreq)
		restore()
		s.mu.Unlock()
		out := rr.Result()
		out.Request = req
		if s.debug {
			fmt.Fprintf(os.Stderr, "    rest %s by sharder s%d (block %d) -> %d %s\n", path[strings.LastIndex(path, "/"):], sh.idx+1, sh.lfb.Round, out.StatusCode, clip(rr.Body.String(), 160))
		}
		return out, nil
	}
	return resp(req, 404, []byte(`{}`)), nil
}

// enterLedger installs the ledger's globals for the time a transaction or a query is executed.
func (s *sim) enterLedger() func() {
	prev := s.cur
	if prev == nil {
		return func() {}
	}
	s.install(nil)
	return func() { s.install(prev) }
}

// confirm is called when a miner asks a sharder whether its transaction is in a block.
func (s *sim) confirm(hash string) ([]byte, bool) {
	var txn *httpclientutil.Transaction
	for i := 0; i < 2000; i++ { // the puts are sent from goroutines
		s.mu.Lock()
		txn = s.txns[hash]
		s.mu.Unlock()
		if txn != nil {
			break
		}
		time.Sleep(100 * time.Microsecond)
	}
	if txn == nil {
		return nil, false
	}
	s.mu.Lock()
	fate := s.fate
	if old, ok := s.decided[hash]; ok {
		s.mu.Unlock()
		return old, old != nil
	}
	s.decided[hash] = nil
	s.mu.Unlock()
	m := s.cur
	if s.onConfirm != nil && s.onConfirm(m, txn, fate) {
		b, _ := json.Marshal(map[string]interface{}{"txn": txn, "version": "1.0", "hash": txn.Hash})
		s.mu.Lock()
		s.decided[hash] = b
		s.mu.Unlock()
		return b, true
	}
	return nil, false
}

// execClientTxn executes the transaction a client produced in the ledger's current block.  The payload
// (function name and input) is the client's; nonce, time and signature are the ledger's.
func (s *sim) execClientTxn(t *httpclientutil.Transaction) world.Result {
	w := s.w
	restore := s.enterLedger()
	defer restore()
	var scd struct {
		Name  string          `json:"name"`
		Input json.RawMessage `json:"input"`
	}
	must(json.Unmarshal([]byte(t.TransactionData), &scd))
	from := w.Keys[t.ClientID]
	if from == nil {
		rec.Fatal("vcclient: transaction of unknown client %s", t.ClientID)
	}
	return w.Do(world.TxnSpec{From: from, To: t.ToClientID, Type: transaction.TxnTypeSmartContract, Fn: scd.Name, Raw: scd.Input})
}

// n2nRT is the transport of the node-to-node client: the request is served by the receiving miner's real
// handler, with the receiver's globals installed.
type n2nRT struct{ s *sim }

var shareHandler common.ReqRespHandlerf // the real node-to-node server wrapper around the real handler (set in newSim)

func (t n2nRT) RoundTrip(req *http.Request) (*http.Response, error) {
	s := t.s
	if req.URL.Path != "/v1/_m2m/dkg/share" {
		return nil, fmt.Errorf("vcclient: no such peer service %s", req.URL.Path)
	}
	to := s.byPort[portOf(req)]
	from := s.cur
	if to == nil || from == nil {
		return nil, fmt.Errorf("vcclient: unreachable")
	}
	s.mu.Lock()
	lost := s.drop[from.key.Name+">"+to.key.Name]
	s.mu.Unlock()
	select {
	case <-to.done: // a node whose DKG process panicked is down
		lost = true
	default:
	}
	body, _ := io.ReadAll(req.Body)
	share := ""
	if vals, err := url.ParseQuery(string(body)); err == nil {
		share = vals.Get("secret_share")
	}
	if lost {
		if s.onShare != nil {
			s.onShare(from, to, 0, "", share)
		}
		return nil, fmt.Errorf("vcclient: request lost")
	}
	sreq := httptest.NewRequest(req.Method, req.URL.String(), bytes.NewReader(body))
	sreq.Header = req.Header.Clone()
	rr := httptest.NewRecorder()
	restore := s.enter(to)
	shareHandler(rr, sreq)
	restore()
	out := rr.Result()
	out.Request = req
	rb, _ := io.ReadAll(out.Body)
	out.Body = io.NopCloser(bytes.NewReader(rb))
	if s.onShare != nil {
		s.onShare(from, to, out.StatusCode, string(rb), share)
	}
	return out, nil
}

// ---- steps

// poll makes the miner fetch the phase from the sharders (the real GetPhaseFromSharders) and lets its loop
// process the event completely (phase function, share requests, transaction, confirmation).
func (s *sim) poll(m *simMiner) (delivered bool) {
	restore := s.enter(m)
	defer restore()
	m.mc.GetPhaseFromSharders(context.Background())
	select {
	case ev := <-m.realCh:
		delivered = true
		m.lmu.Lock()
		e0 := m.entries
		m.lmu.Unlock()
		m.loopCh <- ev
		// the loop comes back to its select when it is through with the event (cheap test first)
		for deadline := time.Now().Add(20 * time.Second); time.Now().Before(deadline); {
			m.lmu.Lock()
			e := m.entries
			m.lmu.Unlock()
			if e > e0 {
				break
			}
			select {
			case <-m.done:
				return
			default:
			}
			time.Sleep(50 * time.Microsecond)
		}
	default:
	}
	select {
	case <-m.done: // the loop crashed or returned
	default:
		m.waitIdle()
	}
	return
}

// finalize makes the miner finalize block b: the real ViewChange, then the chain's LFB bookkeeping.
func (s *sim) finalize(m *simMiner, b *block.Block) error {
	restore := s.enter(m)
	defer restore()
	nb := b
	if b.MagicBlock != nil {
		nb = b.Clone()
		nb.ClientState = b.ClientState
	}
	err := m.mc.ViewChange(context.Background(), nb)
	m.c.SetLatestOwnFinalizedBlockRound(b.Round)
	m.c.SetLatestFinalizedBlock(nb)
	m.c.SetCurrentRound(b.Round)
	m.lfb = nb
	return err
}

func (s *sim) names(ids []string) []string {
	out := make([]string, 0, len(ids))
	for _, id := range ids {
		out = append(out, s.w.Name(id))
	}
	sort.Strings(out)
	return out
}
