package vcclient

import (
	"context"
	"sort"
	"strconv"

	"0chain.net/chaincore/block"
	"0chain.net/chaincore/chain"
	"0chain.net/chaincore/threshold/bls"
	"0chain.net/chaincore/transaction"
	"0chain.net/miner"
	"0chain.net/smartcontract/minersc"

	"github.com/0chain/common/core/statecache"
	"github.com/0chain/common/core/util"

	"verif/harness/rec"
)

// Projections of the real state to the abstract state of VCClient.tla.
//
// A secret polynomial of miner j is named by the order in which the harness first saw its public key vector in
// j's own viewChangeDKG (1, 2, ...).  A share is named by the polynomial whose key vector it validates against
// (the library's own ValidateShare); 99 = none of the known ones.

const unknownPoly = 99

type polys struct {
	vec map[string][][]string        // miner id -> known key vectors (hex), in order
	pks map[string][][]bls.PublicKey // the same, parsed
}

func newPolys() *polys {
	return &polys{vec: map[string][][]string{}, pks: map[string][][]bls.PublicKey{}}
}

func sameVec(a, b []string) bool {
	if len(a) != len(b) {
		return false
	}
	for i := range a {
		if a[i] != b[i] {
			return false
		}
	}
	return true
}

// learn registers the key vector of a DKG object made by miner id.
func (p *polys) learn(id string, g *bls.DKG) int {
	if g == nil {
		return 0
	}
	var v []string
	for _, pk := range g.GetMPKs() {
		v = append(v, pk.GetHexString())
	}
	for i, k := range p.vec[id] {
		if sameVec(k, v) {
			return i + 1
		}
	}
	p.vec[id] = append(p.vec[id], v)
	p.pks[id] = append(p.pks[id], g.GetMPKs())
	return len(p.vec[id])
}

// ofVec names a published key vector of miner id.
func (p *polys) ofVec(id string, v []string) int {
	if len(v) == 0 {
		return 0
	}
	for i, k := range p.vec[id] {
		if sameVec(k, v) {
			return i + 1
		}
	}
	return unknownPoly
}

// ofShare names the polynomial of miner `from` that the share (hex) for receiver `to` belongs to.
func (p *polys) ofShare(from, to, share string) int {
	if share == "" {
		return 0
	}
	var sk bls.Key
	if err := sk.SetHexString(share); err != nil {
		return unknownPoly
	}
	for i, pks := range p.pks[from] {
		if bls.ValidateShare(pks, sk, bls.ComputeIDdkg(to)) {
			return i + 1
		}
	}
	return unknownPoly
}

type pair struct {
	A string `json:"a"`
	D int    `json:"d"`
}

func (d *drv) pairs(m map[string]int) []pair {
	out := make([]pair, 0, len(m))
	for id, v := range m {
		if v != 0 {
			out = append(out, pair{d.s.w.Name(id), v})
		}
	}
	sort.Slice(out, func(i, j int) bool { return out[i].A < out[j].A })
	return out
}

func (d *drv) sosEntry(from, to string, e *bls.DKGKeyShare) int {
	switch {
	case e == nil:
		return 0
	case e.Sign != "":
		return -1
	case e.Share != "":
		return d.pl.ofShare(from, to, e.Share)
	}
	return 0
}

// flat shares-or-signs: "sender>receiver" -> entry
func (d *drv) gsosPairs(g *block.GroupSharesOrSigns) []pair {
	out := []pair{}
	if g == nil {
		return out
	}
	for from, sos := range g.Shares {
		if sos == nil {
			continue
		}
		for to, e := range sos.ShareOrSigns {
			if v := d.sosEntry(from, to, e); v != 0 {
				out = append(out, pair{d.s.w.Name(from) + ">" + d.s.w.Name(to), v})
			}
		}
	}
	sort.Slice(out, func(i, j int) bool { return out[i].A < out[j].A })
	return out
}

func (d *drv) mpkPairs(m *block.Mpks) []pair {
	x := map[string]int{}
	if m != nil {
		for id, k := range m.Mpks {
			if k != nil {
				x[id] = d.pl.ofVec(id, k.Mpk)
			}
		}
	}
	return d.pairs(x)
}

// scState reads the contract's view-change state in block b (the record S of ViewChange.tla, as the gov family
// projects it, plus what the contract stores: key vectors, shares or signs, magic block).
func (d *drv) scState(b *block.Block) (rec.M, *minersc.VerifGovPhase) {
	w := d.s.w
	restore := d.s.enterLedger()
	defer restore()
	st := b.ClientState
	if b == w.Cur {
		st = w.CurState
	}
	sctx := w.Chain.NewStateContext(b, chain.CreateTxnMPT(st, statecache.NewEmpty()), &transaction.Transaction{}, nil)
	g, err := minersc.VerifGovSnapshot(sctx)
	if err != nil {
		rec.Fatal("vcclient: snapshot: %v", err)
	}
	n := d.s.names
	mbst := int64(-1)
	mbm, mbs := []string{}, []string{}
	if g.MBPresent {
		mbst = d.rel(g.MBStart)
		mbm, mbs = n(g.MBMiners), n(g.MBSharders)
	}
	start := int64(0)
	if g.PhasePresent {
		start = d.rel(g.StartRound)
	}
	prevM, prevS := n(g.PrevMBMiners), n(g.PrevMBSharders)
	if !g.HasPrevMB {
		prevM, prevS = keyNamesOf(w.Miners), keyNamesOf(w.Sharders)
	}
	S := rec.M{"present": g.PhasePresent, "phase": g.Phase, "start": start, "restarts": g.Restarts,
		"dkg": n(g.DKGMiners), "k": g.DKGK, "t": g.DKGT, "mpks": n(g.Mpks), "gsos": n(g.Gsos),
		"keep": n(g.Keep), "waited": n(g.Waited), "mbst": mbst, "mbm": mbm, "mbs": mbs,
		"vc": d.rel(g.ViewChange), "all": n(g.AllMiners), "shs": n(g.AllSharders), "prev_m": prevM, "prev_s": prevS}
	// contents
	mpks := block.NewMpks()
	mpkp := true
	if err := sctx.GetTrieNode(minersc.MinersMPKKey, mpks); err == util.ErrValueNotPresent {
		mpkp = false
	} else if err != nil {
		rec.Fatal("vcclient: mpks: %v", err)
	}
	gsos := block.NewGroupSharesOrSigns()
	if err := sctx.GetTrieNode(minersc.GroupShareOrSignsKey, gsos); err != nil && err != util.ErrValueNotPresent {
		rec.Fatal("vcclient: gsos: %v", err)
	}
	mb := block.NewMagicBlock()
	mbrec := rec.M{"sr": -1, "miners": []string{}, "mpk": []pair{}, "sos": []pair{}}
	switch err := sctx.GetTrieNode(minersc.MagicBlockKey, mb); err {
	case nil:
		mbrec = d.mbRec(mb)
	case util.ErrValueNotPresent:
	default:
		rec.Fatal("vcclient: magic block: %v", err)
	}
	return rec.M{"st": S, "mpkv": d.mpkPairs(mpks), "mpkp": mpkp, "sosv": d.gsosPairs(gsos), "mb": mbrec}, g
}

func (d *drv) mbRec(mb *block.MagicBlock) rec.M {
	miners := []string{}
	if mb.Miners != nil {
		miners = d.s.names(mb.Miners.Keys())
	}
	return rec.M{"sr": d.rel(mb.StartingRound), "miners": miners, "mpk": d.mpkPairs(mb.Mpks), "sos": d.gsosPairs(mb.GetShareOrSigns())}
}

// summaryShares names the secret shares of a DKG summary held by miner self.
func (d *drv) summaryShares(self string, sum *bls.DKGSummary) []pair {
	x := map[string]int{}
	if sum != nil {
		for _, k := range d.s.w.Miners {
			if sh, ok := sum.SecretShares[miner.ComputeBlsID(k.ID)]; ok {
				x[k.ID] = d.pl.ofShare(k.ID, self, sh)
			}
		}
	}
	return d.pairs(x)
}

// client reads the view-change client state of miner m (its globals must be installed).
func (d *drv) client(m *simMiner) rec.M {
	c := m.mc.VerifVCSnapshot()
	self := m.key.ID
	poly := 0
	vsh := []pair{}
	sij := false
	if c.DKG != nil {
		poly = d.pl.learn(self, c.DKG)
		vsh = d.summaryShares(self, c.DKG.GetDKGSummary())
		sij = c.DKG.GetSijLen() >= c.DKG.T
	}
	csos := map[string]int{}
	for _, k := range c.SosSigned {
		csos[k] = -1
	}
	snap := m.mc.VerifVCSos()
	for k, e := range snap {
		if e != nil && e.Sign == "" && e.Share != "" {
			csos[k] = d.pl.ofShare(self, k, e.Share)
		}
	}
	store := rec.M{"set": false, "shares": []pair{}}
	if sum, err := miner.LoadDKGSummary(context.Background(), "2"); err == nil && sum != nil && sum.SecretShares != nil {
		store = rec.M{"set": true, "shares": d.summaryShares(self, sum)}
	}
	rdkg := rec.M{"set": false, "sr": -1, "shares": []pair{}}
	rounds, dkgs := m.mc.VerifVCRoundDKGs()
	for i, g := range dkgs {
		if g != nil && g.MagicBlockNumber == 2 {
			rdkg = rec.M{"set": true, "sr": d.rel(rounds[i]), "shares": d.summaryShares(self, g.GetDKGSummary())}
		}
	}
	return rec.M{"cph": c.CurrentPhase, "vdkg": poly, "vsh": vsh, "sij": sij, "cmpk": d.mpkPairs(c.Mpks),
		"csos": d.pairs(csos), "store": store, "rdkg": rdkg, "nvc": d.rel(c.NextViewChange),
		"cmbsr": d.rel(m.c.GetCurrentMagicBlock().StartingRound)}
}

func itoa(i int) string { return strconv.Itoa(i) }
