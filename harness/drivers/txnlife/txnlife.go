// Package txnlife (growth family): the life of a client transaction on a miner, executed on the REAL code.
//
// One real miner.Chain (miner m1) over an in-process redis (miniredis) transaction pool:
//
//	Submit   the real chain.PutTransaction handler (validation w.r.t. time, hash, signature, nonce window
//	         against the latest finalized state, fee) on a transaction decoded from JSON as the HTTP layer does
//	Inject   transaction.PutTransaction (the pool's own intake, no validation): a transaction that entered the
//	         pool earlier / under another final state
//	Gen      the real GenerateRoundBlock of m1 on a chosen notarized parent (forks), then the produced block is
//	         JSON round-tripped and verified by the real VerifyBlock as miner m2 (same previous state)
//	Forge    a block made by another (byzantine) generator carrying any transaction list (replayed, expired,
//	         future-nonce, altered-after-signing transactions), given to the real VerifyBlock of m1
//	Fin      a block becomes final: SetLatestFinalizedBlock + the real updateFinalizedBlock
//	         (FinalizeBlock -> deleteTxns, transaction.RemoveFromPool)
//	Cleanup  the real transaction.CleanupWorker goroutine, run until it has made one pass
//	Tick     time passes (timed traces only: real seconds)
//
// After every step the real pool (redis collection + entity keys) is read back.
//
// Time. The code reads the wall clock in the handler, in the clean-up worker and for a generated block's time
// (max(now, previous block's time)); everything else compares creation dates with block times. "Fast" traces
// run with an abstract time unit of 1000 s (tolerance = tol units + 500 s): the wall clock stays at 0, ages come
// from creation dates, block time advances through the times of foreign blocks. "Timed" traces run with unit =
// 1 s and tolerance = tol seconds; Tick waits for the next second of the wall clock; a step during which the
// wall clock moved to the next second makes the whole trace start again.
package txnlife

import (
	"context"
	"encoding/json"
	"fmt"
	"math/rand"
	"os"
	"sort"
	"strings"
	"time"

	"0chain.net/chaincore/block"
	"0chain.net/chaincore/chain"
	"0chain.net/chaincore/node"
	"0chain.net/chaincore/transaction"
	"0chain.net/core/common"
	"0chain.net/core/datastore"
	"0chain.net/core/memorystore"

	"github.com/0chain/common/core/currency"
	"github.com/0chain/common/core/util"

	vc "verif/harness/common"
	"verif/harness/minerworld"
	"verif/harness/rec"
	"verif/harness/world"
)

func init() { vc.Register("txnlife", Run) }

// abstract transaction of a scenario
type atx struct {
	ID int    `json:"id"`
	S  string `json:"s"`  // sender c1..c3
	N  int64  `json:"n"`  // abstract nonce (the sender's first transaction has nonce 1)
	CT int    `json:"ct"` // creation time, abstract units relative to trace start
	F  int    `json:"f"`  // fee rank: the pool is iterated by descending fee; unique within a trace
	K  string `json:"k"`  // ok | lowfee | tamper | rehash | badsig
}

type op struct {
	Op string `json:"op"`
	T  *atx   `json:"t,omitempty"`  // Submit / Inject
	P  string `json:"p,omitempty"`  // Gen / Forge: parent block
	B  string `json:"b,omitempty"`  // Fin: block
	BT int    `json:"bt,omitempty"` // Forge: block time (abstract)
	X  []atx  `json:"x,omitempty"`  // Forge: the transactions the block carries
}

const (
	costSend = 10
	costFees = 20
	feeBase  = uint64(3e8)
)

type pend struct {
	m     rec.M
	shape string
	nt    bool
}

type drv struct {
	mw    *minerworld.MinerWorld
	rc    *rec.Recorder
	debug bool
	off   int64 // real nonce of every genesis account
	base  *block.Block
	coll  string // redis collection name of the pool

	// configuration of the run
	tol, futureNonce, maxTx, maxCost int

	// per trace
	timed    bool
	unit     int64            // real seconds per abstract time unit
	slack    int64            // real seconds added to the tolerance (sub-unit drift of the wall clock)
	w0       common.Timestamp // real time of abstract time 0
	blocks   map[string]*block.Block
	parent   map[string]string
	btOf     map[string]int
	stOf     map[string]map[string]int64 // block -> sender -> nonce after the block (from the observed blocks; scenario generation only)
	branch   map[string][]int            // block -> ids of pool transactions on its branch
	nblk     int
	real     map[int]*transaction.Transaction // abstract id -> real transaction
	byHash   map[string]int
	attrs    map[int]atx
	order    []int // ids in order of creation
	lfb      string
	tid      int
	buf      []pend
	straddle bool
	cleaned  bool
	vclock     int // timed traces: the abstract clock the scenario is at (Ticks so far); the wall clock must agree
	forceClean bool
	cleanEvery int // the clean-up worker (more than a second per run) is run only in traces whose id is a multiple of this
}

func extra(s, key, def string) string {
	for _, kv := range strings.Split(s, ",") {
		if strings.HasPrefix(kv, key+"=") {
			return kv[len(key)+1:]
		}
	}
	return def
}

func atoi(s string) int {
	var n int
	fmt.Sscan(s, &n)
	return n
}

func Run(a vc.Args) {
	d := &drv{debug: os.Getenv("VERIF_DEBUG") != ""}
	d.tol = atoi(extra(a.Extra, "tol", "2"))
	d.futureNonce = atoi(extra(a.Extra, "fn", "2"))
	d.maxTx = atoi(extra(a.Extra, "maxtx", "3"))
	timedEvery := atoi(extra(a.Extra, "timed", "0"))         // every k-th random trace is a timed one
	timedBehaviours := atoi(extra(a.Extra, "timedbeh", "1000000")) // how many TLC behaviours that contain Tick are replayed as timed traces (the Ticks of the others are dropped)
	d.cleanEvery = atoi(extra(a.Extra, "cleanevery", "1"))
	// block cost limit: the generator's own payFees + maxTx transfers fit, one more transfer does not
	// (no settings commit, challenge or reward round is reached: payFees is the only built-in transaction)
	d.maxCost = costFees + d.maxTx*costSend + 1
	mw := minerworld.New(world.Options{Clients: 5, Miners: 3, Sharders: 1,
		Overrides: map[string]interface{}{
			"server_chain.block.min_block_size":         1,
			"server_chain.block.max_block_cost":         d.maxCost,
			"server_chain.block.generation.timeout":     15,
			"server_chain.block.proposal.max_wait_time": "20s",
			"server_chain.transaction.transfer_cost":    costSend,
			"server_chain.transaction.future_nonce":     d.futureNonce,
		},
		SCOverrides: map[string]interface{}{
			"smart_contracts.minersc.cost.payfees":        costFees,
			"smart_contracts.storagesc.challenge_enabled": false,
		}})
	defer mw.Close()
	d.mw = mw
	rc := rec.New(a.Out)
	defer rc.Close()
	d.rc = rc
	mw.Genesis.SetBlockNotarized()
	d.off = mw.StateNonce(mw.Clients[0].ID)
	txn := datastore.GetEntityMetadata("txn").Instance().(*transaction.Transaction)
	d.coll = txn.GetCollectionName()
	d.makeBase()

	id := 0
	// fixed scenarios that reach every class of behaviour whatever the seed
	for k, ops := range d.scripted(extra(a.Extra, "scripted", "fast")) {
		id++
		if a.Only != 0 && a.Only != id {
			rc.TraceID = id
			continue
		}
		timed := false
		for _, o := range ops {
			timed = timed || o.Op == "Tick"
		}
		use := ops
		d.forceClean = true
		d.runTrace(id, rec.M{"family": "txnlife", "kind": "scripted", "id": id, "seed": a.Seed, "k": k, "ops": ops}, timed, func() func() (op, bool) {
			i := 0
			return func() (op, bool) {
				if i >= len(use) {
					return op{}, false
				}
				i++
				return use[i-1], true
			}
		})
		d.forceClean = false
	}
	for _, raw := range vc.Behaviours(a.Behav) {
		id++
		var ops []op
		if err := json.Unmarshal(raw, &ops); err != nil {
			rec.Fatal("behaviour %d: %v", id, err)
		}
		// behaviours with Tick run in real seconds; beyond the first `timedbeh` of them the Ticks are dropped
		// (decided before the --only filter so that a trace re-executed alone is the same trace)
		timed := false
		var use []op
		for _, o := range ops {
			if o.Op == "Tick" {
				if timedBehaviours <= 0 {
					continue
				}
				timed = true
			}
			use = append(use, o)
		}
		if timed {
			timedBehaviours--
		}
		if a.Only != 0 && a.Only != id {
			rc.TraceID = id
			continue
		}
		d.runTrace(id, rec.M{"family": "txnlife", "kind": "tlc", "id": id, "seed": a.Seed, "ops": ops}, timed, func() func() (op, bool) {
			i := 0
			return func() (op, bool) {
				if i >= len(use) {
					return op{}, false
				}
				i++
				return use[i-1], true
			}
		})
	}
	for i := 0; i < a.N; i++ {
		id++
		if a.Only != 0 && a.Only != id {
			rc.TraceID = id
			continue
		}
		timed := timedEvery > 0 && i%timedEvery == timedEvery-1
		steps := a.Steps
		if timed && steps > 12 {
			steps = 12
		}
		tid := id
		d.runTrace(id, rec.M{"family": "txnlife", "kind": "random", "id": id, "seed": a.Seed, "steps": steps, "timed": timed}, timed, func() func() (op, bool) {
			r := vc.TraceRand(a.Seed, tid)
			n := 0
			return func() (op, bool) {
				if n >= steps {
					return op{}, false
				}
				n++
				return d.randomOp(r), true
			}
		})
	}
}

// ---------------------------------------------------------------- plumbing

func (d *drv) setSelf(i int) {
	mw := d.mw
	node.Self.Node = mw.MinerNodes[i]
	if err := node.Self.SetSignatureScheme(mw.Miners[i].Scheme); err != nil {
		rec.Fatal("self: %v", err)
	}
}

func (d *drv) sender(name string) *world.Key {
	switch name {
	case "c1":
		return d.mw.Clients[0]
	case "c2":
		return d.mw.Clients[1]
	case "c3":
		return d.mw.Clients[2]
	}
	rec.Fatal("unknown sender %q", name)
	return nil
}

// makeBase builds, once per process, the block every trace starts from (round 1 on genesis, no transactions):
// the initial latest finalized block of every trace.
func (d *drv) makeBase() {
	w := d.mw.World
	w.Now = common.Now() - 5
	b := w.BeginBlock(w.Genesis)
	w.EndBlock()
	w.Head = w.Genesis
	b.StateChangesCount = b.ClientState.GetChangeCount()
	b.SetBlockNotarized()
	d.base = d.mw.MC.AddBlock(b)
}

func (d *drv) now() int { return d.abs(common.Now()) }

// abs maps a real timestamp to abstract time (rounded to the nearest unit)
func (d *drv) abs(t common.Timestamp) int {
	x := int64(t - d.w0)
	if x >= 0 {
		return int((x + d.unit/2) / d.unit)
	}
	return -int((-x + d.unit/2) / d.unit)
}

func (d *drv) realTime(ct int) common.Timestamp {
	return d.w0 + common.Timestamp(int64(ct)*d.unit)
}

func errClass(err error) string {
	if err == nil {
		return ""
	}
	s := err.Error()
	if ce, ok := err.(*common.Error); ok {
		s = ce.Code + ": " + ce.Msg
	}
	for _, p := range []struct{ sub, cls string }{
		{"not within tolerance", "time"},
		{"hash_mismatch", "hash"},
		{"invalid_signature", "signature"},
		{"Invalid Signature", "signature"},
		{"aggregate signature", "signature"},
		{"invalid future transaction", "future"},
		{"invalid transaction nonce", "nonce"},
		{"insufficient transaction fee", "fee"},
		{"insufficient balance", "balance"},
		{"duplicate_transactions", "duplicate"},
		{"txn_validation_failed", "txn_validation"},
		{"state_hash_mismatch", "state"},
		{"state_update_error", "state"},
		{"cost", "cost"},
	} {
		if strings.Contains(s, p.sub) {
			return p.cls
		}
	}
	if len(s) > 60 {
		s = s[:60]
	}
	return "other:" + s
}

// mk builds (once per trace and abstract id) the real signed transaction of an abstract one
func (d *drv) mk(t atx) *transaction.Transaction {
	if rt, ok := d.real[t.ID]; ok {
		return rt
	}
	w := d.mw.World
	k := d.sender(t.S)
	fee := feeBase + uint64(t.F)*1000
	if t.K == "lowfee" {
		fee = uint64(t.F) // far below the minimum fee; still ordered by rank
	}
	ts := world.TxnSpec{From: k, To: w.Clients[3].ID, Type: transaction.TxnTypeSend, Value: uint64(100 + t.ID), Fee: fee,
		Nonce: t.N + d.off, Time: d.realTime(t.CT)}
	rt := w.MakeTxn(ts)
	switch t.K {
	case "tamper":
		// a field covered by the hash is altered after signing (the value)
		rt.Value += currency.Coin(7)
	case "rehash":
		// altered and re-hashed: the hash matches the contents again, the signature does not
		rt.Value += currency.Coin(7)
		rt.Hash = rt.ComputeHash()
	case "badsig":
		rt.Signature = w.Clients[4].Sign(rt.Hash)
	}
	d.real[t.ID] = rt
	d.byHash[rt.Hash] = t.ID
	d.attrs[t.ID] = t
	d.order = append(d.order, t.ID)
	return rt
}

// wireTxn is the transaction as the HTTP layer hands it to the handler: decoded from JSON + ComputeProperties
func (d *drv) wireTxn(rt *transaction.Transaction) (*transaction.Transaction, error) {
	enc, err := json.Marshal(rt)
	if err != nil {
		rec.Fatal("marshal txn: %v", err)
	}
	e := datastore.GetEntityMetadata("txn").Instance().(*transaction.Transaction)
	if err := json.Unmarshal(enc, e); err != nil {
		rec.Fatal("unmarshal txn: %v", err)
	}
	if err := e.ComputeProperties(); err != nil {
		return nil, err
	}
	return e, nil
}

type poolView struct {
	Coll []int // abstract ids in the collection (what the generator iterates), ascending
	Ents []int // abstract ids whose entity key exists
}

func (d *drv) pool() poolView {
	pv := poolView{Coll: []int{}, Ents: []int{}}
	members, err := d.mw.Redis.ZMembers(d.coll)
	if err != nil {
		members = nil // the key does not exist: empty pool
	}
	for _, m := range members {
		if id, ok := d.byHash[m]; ok {
			pv.Coll = append(pv.Coll, id)
		} else {
			pv.Coll = append(pv.Coll, -1) // a member that is no transaction of this trace
		}
	}
	for h, id := range d.byHash {
		if d.mw.Redis.Exists("txn:" + h) {
			pv.Ents = append(pv.Ents, id)
		}
	}
	sort.Ints(pv.Coll)
	sort.Ints(pv.Ents)
	return pv
}

func (d *drv) emit(m rec.M, shape string, nt bool) { d.buf = append(d.buf, pend{m, shape, nt}) }

// ---------------------------------------------------------------- one trace

func (d *drv) resetTrace(id int, timed bool) rec.M {
	mw, mc := d.mw, d.mw.MC
	mw.Redis.FlushAll()
	var old []*block.Block
	for n, b := range d.blocks {
		if n != "b0" {
			old = append(old, b)
		}
	}
	mc.DeleteBlocks(old)
	for r := int64(1); r <= 40; r++ {
		mc.VerifMinerDeleteRound(r)
	}
	d.setSelf(0)
	mc.Chain.SetLatestFinalizedBlock(d.base)
	mc.VerifSetCurrentRound(2)
	mc.SetupStateCache()
	d.blocks = map[string]*block.Block{"b0": d.base}
	d.parent = map[string]string{"b0": ""}
	d.stOf = map[string]map[string]int64{"b0": {}}
	d.branch = map[string][]int{"b0": nil}
	d.nblk = 0
	d.real = map[int]*transaction.Transaction{}
	d.byHash = map[string]int{}
	d.attrs = map[int]atx{}
	d.order = nil
	d.lfb = "b0"
	d.tid = id
	d.buf = nil
	d.straddle = false
	d.cleaned = false
	d.vclock = 0
	d.timed = timed
	margin := 0
	if timed {
		d.unit, d.slack, margin = 1, 0, 1
		d.waitNextSecond()
	} else {
		d.unit, d.slack = 1000, 500
	}
	transaction.SetTxnTimeout(int64(d.tol)*d.unit + d.slack)
	d.w0 = common.Now()
	d.btOf = map[string]int{"b0": d.abs(d.base.CreationDate)}
	return rec.M{"tol": d.tol, "margin": margin, "fn": d.futureNonce, "maxtx": d.maxTx, "timed": timed, "base": "b0", "base_bt": d.btOf["b0"]}
}

func (d *drv) waitNextSecond() {
	target := time.Unix(int64(common.Now())+1, 15e6)
	time.Sleep(time.Until(target))
}

func (d *drv) runTrace(id int, scenario rec.M, timed bool, mkSrc func() func() (op, bool)) {
	for attempt := 1; ; attempt++ {
		fields := d.resetTrace(id, timed)
		src := mkSrc()
		for {
			o, ok := src()
			if !ok || d.straddle {
				break
			}
			d.exec(o)
		}
		if !d.straddle {
			d.rc.TraceID = id - 1
			d.rc.Reset(scenario, fields)
			for _, p := range d.buf {
				d.rc.Emit(p.m, p.shape, p.nt)
			}
			return
		}
		if attempt >= 6 {
			rec.Fatal("trace %d: the wall clock moved during a step in %d attempts (machine too loaded for timed traces)", id, attempt)
		}
	}
}

func (d *drv) exec(o op) {
	if d.timed && d.now() != d.vclock {
		d.straddle = true // the wall clock moved on without a Tick of the scenario (slow machine): start the trace again
		return
	}
	switch o.Op {
	case "Submit":
		d.submit(*o.T)
	case "Inject":
		d.inject(*o.T)
	case "Gen":
		if b := d.blocks[o.P]; b != nil {
			d.gen(o.P)
		} else {
			d.skip(o, "no block "+o.P)
		}
	case "Forge":
		if b := d.blocks[o.P]; b != nil {
			d.forge(o)
		} else {
			d.skip(o, "no block "+o.P)
		}
	case "Fin":
		if b := d.blocks[o.B]; b != nil {
			d.fin(o.B)
		} else {
			d.skip(o, "no block "+o.B)
		}
	case "Cleanup":
		if d.tid%d.cleanEvery == 0 || d.forceClean {
			d.cleanup()
		} else {
			d.skip(o, "no clean-up run in this trace")
		}
	case "Tick":
		if d.timed {
			d.waitNextSecond()
			d.vclock++
			d.emit(rec.M{"ev": "Tick", "now": d.vclock}, "tick", false)
		} else {
			d.skip(o, "fast trace")
		}
	case "Skip":
		d.skip(o, "nothing to do")
	default:
		rec.Fatal("unknown op %q", o.Op)
	}
}

func (d *drv) skip(o op, why string) {
	d.emit(rec.M{"ev": "Skip", "op": o.Op, "why": why}, o.Op, false)
}

func (d *drv) txm(t atx) rec.M {
	return rec.M{"id": t.ID, "s": t.S, "n": t.N, "ct": t.CT, "f": t.F, "k": t.K}
}

// live: the block descends from (or is) the latest finalized block
func (d *drv) live(name string) bool {
	for n := name; n != ""; n = d.parent[n] {
		if n == d.lfb {
			return true
		}
	}
	return false
}

// clocked reads the abstract wall clock around a step; a step during which it moved cannot be attributed to one instant
func (d *drv) clocked(f func()) int {
	before := d.now()
	f()
	if d.timed && d.now() != before {
		d.straddle = true
	}
	return before
}

func (d *drv) submit(t atx) {
	rt := d.mk(t)
	accepted, why := false, ""
	wt, err := d.wireTxn(rt)
	var now int
	if err != nil {
		why = "props"
		now = d.now()
	} else {
		now = d.clocked(func() {
			ctx := memorystore.WithEntityConnection(common.GetRootContext(), datastore.GetEntityMetadata("txn"))
			_, err = chain.PutTransaction(ctx, wt)
			memorystore.Close(ctx)
		})
		accepted, why = err == nil, errClass(err)
	}
	pv := d.pool()
	d.emit(rec.M{"ev": "Submit", "t": d.txm(t), "now": now, "accepted": accepted, "why": why, "lfb": d.lfb,
		"pool": pv.Coll, "ents": pv.Ents}, fmt.Sprintf("%s/%v/%s", t.K, accepted, why), accepted)
}

func (d *drv) inject(t atx) {
	rt := d.mk(t)
	wt, err := d.wireTxn(rt)
	if err != nil {
		rec.Fatal("inject: %v", err)
	}
	ctx := memorystore.WithEntityConnection(common.GetRootContext(), datastore.GetEntityMetadata("txn"))
	if _, err := transaction.PutTransaction(ctx, wt); err != nil {
		rec.Fatal("inject: %v", err)
	}
	memorystore.Close(ctx)
	pv := d.pool()
	d.emit(rec.M{"ev": "Inject", "t": d.txm(t), "now": d.now(), "pool": pv.Coll, "ents": pv.Ents}, t.K, true)
}

// prepareRound makes round r-1 hold exactly `parent` as its notarized block and round r fresh, and puts the node in round r
func (d *drv) prepareRound(parent *block.Block) {
	mc := d.mw.MC
	r := parent.Round + 1
	seed := int64(7000 + 10*d.tid + d.nblk)
	mc.VerifMinerDeleteRound(r - 1)
	mc.VerifMinerDeleteRound(r)
	pr := d.mw.NewRound(r-1, seed)
	parent.SetBlockNotarized()
	pr.AddNotarizedBlock(parent)
	d.mw.NewRound(r, seed+1)
	mc.VerifSetCurrentRound(r)
}

// projectBlock: the block's transactions as [id (0 = not a transaction of the scenario), sender, nonce, creation time, hash prefix]
func (d *drv) projectBlock(b *block.Block) ([]rec.M, []string, int) {
	txns := []rec.M{}
	var shape []string
	cost := 0
	lfb := d.mw.MC.GetLatestFinalizedBlock()
	for _, t := range b.Txns {
		cid := t.ClientID
		if cid == "" {
			cp := t.Clone()
			if err := cp.ComputeClientID(); err != nil {
				rec.Fatal("client id: %v", err)
			}
			cid = cp.ClientID
		}
		if c, err := d.mw.MC.EstimateTransactionCost(context.Background(), lfb, t); err == nil {
			cost += c
		} else {
			cost += 1 << 20
		}
		id, pooltx := d.byHash[t.Hash]
		m := rec.M{"id": 0, "s": d.mw.Name(cid), "n": t.Nonce - d.off, "ct": d.abs(t.CreationDate), "h": t.Hash[:16]}
		if pooltx {
			m["id"] = id
			shape = append(shape, d.attrs[id].K)
		} else {
			shape = append(shape, "builtin")
		}
		txns = append(txns, m)
	}
	return txns, shape, cost
}

// addBlock records a block that joined the tree
func (d *drv) addBlock(b *block.Block, p string, txns []rec.M) string {
	d.nblk++
	name := fmt.Sprintf("b%d", d.nblk)
	d.blocks[name] = b
	d.parent[name] = p
	d.btOf[name] = d.abs(b.CreationDate)
	st := map[string]int64{}
	for s, n := range d.stOf[p] {
		st[s] = n
	}
	br := append([]int{}, d.branch[p]...)
	for _, m := range txns {
		st[m["s"].(string)] = m["n"].(int64)
		if id := m["id"].(int); id != 0 {
			br = append(br, id)
		}
	}
	d.stOf[name] = st
	d.branch[name] = br
	return name
}

func (d *drv) wire(b *block.Block) *block.Block {
	enc, err := json.Marshal(b)
	if err != nil {
		rec.Fatal("marshal: %v", err)
	}
	wire := block.NewBlock(d.mw.MC.GetKey(), b.Round)
	if err := wire.Decode(enc); err != nil {
		rec.Fatal("decode: %v", err)
	}
	if err := wire.ComputeProperties(); err != nil {
		rec.Fatal("props: %v", err)
	}
	return wire
}

func (d *drv) verify(wire *block.Block) error {
	mc := d.mw.MC
	mc.SetupStateCache()
	vctx, vdone := d.mw.Ctx()
	cctx, cancel := context.WithTimeout(vctx, 60*time.Second)
	_, verr := mc.VerifyBlock(cctx, wire)
	cancel()
	vdone()
	return verr
}

func (d *drv) gen(p string) {
	mw, mc := d.mw, d.mw.MC
	parent := d.blocks[p]
	live := d.live(p)
	d.setSelf(0)
	d.prepareRound(parent)
	mr := mc.GetMinerRound(parent.Round + 1)
	mc.SetupStateCache()
	before := d.pool()
	var b *block.Block
	var gerr error
	now := d.clocked(func() {
		gctx, gdone := mw.Ctx()
		b, gerr = mc.GenerateRoundBlock(gctx, mr)
		gdone()
	})
	// the asynchronous deletion of the transactions the generator found invalid (go mc.deleteTxns): let it settle
	time.Sleep(25 * time.Millisecond)
	pv := d.pool()
	for i := 0; i < 50; i++ {
		time.Sleep(8 * time.Millisecond)
		again := d.pool()
		if fmt.Sprint(again) == fmt.Sprint(pv) {
			break
		}
		pv = again
	}
	if gerr != nil || b == nil {
		d.emit(rec.M{"ev": "Gen", "p": p, "b": "", "live": live, "now": now, "bt": 0, "gen_err": "failed:" + errClass(gerr), "txns": []rec.M{},
			"cost": 0, "maxcost": d.maxCost, "accepted": false, "ver_err": "", "roots_equal": false, "pool": pv.Coll, "ents": pv.Ents}, "generr", false)
		return
	}
	txns, shape, cost := d.projectBlock(b)
	name := d.addBlock(b, p, txns)

	// over the wire to m2, which verifies it on the same previous state
	wire := d.wire(b)
	d.setSelf(1)
	verr := d.verify(wire)
	d.setSelf(0)
	verRoot := ""
	if wire.IsStateComputed() && wire.ClientState != nil {
		verRoot = util.ToHex(wire.ClientState.GetRoot())
	}
	// reach markers: the generator deleted pool members / filled the block while more were waiting
	marks := ""
	if len(pv.Coll) < len(before.Coll) {
		marks += "/del"
	}
	if npool := len(txns) - 1; npool >= d.maxTx && len(before.Coll) > npool {
		marks += "/full"
	}
	if d.debug {
		fmt.Fprintf(os.Stderr, "DEBUG %d Gen on %s -> %s bt=%d txns=%v verr=%v pool=%v\n", d.tid, p, name, d.btOf[name], txns, verr, pv.Coll)
	}
	d.emit(rec.M{"ev": "Gen", "p": p, "b": name, "live": live, "now": now, "bt": d.btOf[name], "gen_err": "", "txns": txns,
		"cost": cost, "maxcost": d.maxCost,
		"accepted": verr == nil, "ver_err": errClass(verr), "roots_equal": verRoot == util.ToHex(b.ClientStateHash),
		"pool": pv.Coll, "ents": pv.Ents}, strings.Join(shape, "+")+fmt.Sprintf("/%v", verr == nil)+marks, len(b.Txns) > 1)
}

// forge builds a block of another generator (m3) on parent p that carries the given transactions in the given
// order: each is executed through the real UpdateState; a transaction the state machine rejects (replayed or
// future nonce) is carried all the same, with a made-up output. The block is hashed, signed by m3, sent over
// the wire and verified by m1.
func (d *drv) forge(o op) {
	mw, mc := d.mw, d.mw.MC
	w := mw.World
	parent := d.blocks[o.P]
	live := d.live(o.P)
	d.setSelf(0)
	d.prepareRound(parent)
	mc.SetupStateCache()
	gen := mw.Miners[2]
	w.Now = d.realTime(o.BT) - 5
	b := w.BeginBlock(parent)
	b.MinerID = gen.ID
	xs := []rec.M{}
	var shape []string
	for _, t := range o.X {
		rt := d.mk(t).Clone()
		if err := rt.ComputeProperties(); err != nil {
			rec.Fatal("forge props: %v", err)
		}
		res := w.Exec(rt)
		if res.Class == "ok" || res.Class == "chargeable" {
			b.AddTransaction(rt)
		} else {
			rt.TransactionOutput = "forged"
			rt.OutputHash = rt.ComputeOutputHash()
			rt.Status = transaction.TxnSuccess
			b.Txns = append(b.Txns, rt)
		}
		xs = append(xs, d.txm(t))
		shape = append(shape, t.K)
	}
	w.EndBlock()
	w.Head = w.Genesis
	b.StateChangesCount = b.ClientState.GetChangeCount()
	lfmbr := mc.GetLatestFinalizedMagicBlockRound(b.Round)
	b.LatestFinalizedMagicBlockHash = lfmbr.Hash
	b.LatestFinalizedMagicBlockRound = lfmbr.Round
	b.RunningTxnCount = parent.RunningTxnCount + int64(len(b.Txns))
	b.HashBlock()
	b.Signature = gen.Sign(b.Hash)

	wire := d.wire(b)
	txns, _, _ := d.projectBlock(wire)
	verr := d.verify(wire)
	name := ""
	if verr == nil {
		wire.SetBlockNotarized()
		nb := mc.AddBlock(wire)
		name = d.addBlock(nb, o.P, txns)
	}
	pv := d.pool()
	if d.debug {
		fmt.Fprintf(os.Stderr, "DEBUG %d Forge on %s bt=%d x=%v -> %q verr=%v\n", d.tid, o.P, o.BT, xs, name, verr)
	}
	d.emit(rec.M{"ev": "Forge", "p": o.P, "b": name, "live": live, "now": d.now(), "bt": d.abs(b.CreationDate), "x": xs, "txns": txns,
		"accepted": verr == nil, "ver_err": errClass(verr), "pool": pv.Coll, "ents": pv.Ents},
		strings.Join(shape, "+")+fmt.Sprintf("/%v/%s", verr == nil, errClass(verr)), verr == nil)
}

func (d *drv) fin(bn string) {
	mc := d.mw.MC
	b := d.blocks[bn]
	child := d.parent[bn] == d.lfb
	d.setSelf(0)
	before := d.pool()
	mc.Chain.SetLatestFinalizedBlock(b)
	d.lfb = bn
	ctx, done := d.mw.Ctx()
	err := mc.VerifUpdateFinalizedBlock(ctx, b)
	done()
	time.Sleep(5 * time.Millisecond)
	pv := d.pool()
	own := b.MinerID == d.mw.Miners[0].ID
	d.emit(rec.M{"ev": "Fin", "b": bn, "own": own, "child_of_lfb": child, "now": d.now(), "err": errClass(err), "pool": pv.Coll, "ents": pv.Ents},
		fmt.Sprintf("own=%v/removed=%d", own, len(before.Coll)-len(pv.Coll)), true)
}

// cleanup runs the real CleanupWorker until it has made (at least) one pass: the worker ticks once a second.
func (d *drv) cleanup() {
	before := d.pool()
	// whether the worker is expected to drop something is used only to know how long to wait
	expect := false
	now := common.Now()
	for _, id := range before.Coll {
		if id < 0 || !common.WithinTime(int64(now)+1, int64(d.real[id].CreationDate), transaction.TXN_TIME_TOLERANCE-1) {
			expect = true
		}
	}
	if d.timed {
		d.waitNextSecond() // the pass happens one second after the start: in the second after this one
	}
	ctx, cancel := context.WithCancel(common.GetRootContext())
	doneC := make(chan struct{})
	go func() { transaction.CleanupWorker(ctx); close(doneC) }()
	deadline := time.Now().Add(4 * time.Second)
	if expect {
		for time.Now().Before(deadline) {
			time.Sleep(40 * time.Millisecond)
			if len(d.pool().Coll) != len(before.Coll) {
				break
			}
		}
		time.Sleep(60 * time.Millisecond)
	} else {
		time.Sleep(1200 * time.Millisecond)
	}
	passAt := d.now()
	d.vclock = passAt
	cancel()
	<-doneC
	pv := d.pool()
	d.cleaned = true
	d.emit(rec.M{"ev": "Cleanup", "now": passAt, "pool": pv.Coll, "ents": pv.Ents},
		fmt.Sprintf("removed=%v", len(pv.Coll) != len(before.Coll)), len(pv.Coll) != len(before.Coll))
}

// ---------------------------------------------------------------- fixed scenarios

func tx(id int, s string, n int64, ct, f int, k string) *atx { return &atx{ID: id, S: s, N: n, CT: ct, F: f, K: k} }

func (d *drv) scripted(which string) [][]op {
	if which == "none" {
		return nil
	}
	T := d.tol
	sub := func(t *atx) op { return op{Op: "Submit", T: t} }
	inj := func(t *atx) op { return op{Op: "Inject", T: t} }
	out := [][]op{
		// never after it expired, by the BLOCK's time: a foreign block whose generator's clock runs ahead moves the branch's time
		// forward; the transaction waiting in the pool is stale for the next block although the wall clock has not moved: the
		// generator drops it; one created later is still taken
		{sub(tx(1, "c1", 1, 0, 50, "ok")), {Op: "Forge", P: "b0", BT: T + 1, X: []atx{*tx(2, "c2", 1, T+1, 40, "ok")}}, {Op: "Gen", P: "b1"},
			sub(tx(3, "c1", 1, 1, 30, "ok")), {Op: "Gen", P: "b1"}, {Op: "Gen", P: "b0"}},
		// expiry: a stale and a future-dated transaction are in the pool; the clean-up worker drops them; the rest is generated
		{inj(tx(1, "c1", 1, -T-1, 50, "ok")), sub(tx(2, "c1", 1, 0, 40, "ok")), inj(tx(3, "c2", 1, T+1, 30, "ok")), {Op: "Cleanup"}, {Op: "Gen", P: "b0"}},
		// generation: stale and underpaid members are deleted, a future nonce is parked and promoted, a competing nonce is past,
		// the cost limit stops the block; the node's own final block leaves the competing transaction in the pool
		{inj(tx(8, "c2", 1, -T-1, 80, "ok")), inj(tx(7, "c2", 1, 0, 70, "lowfee")), sub(tx(1, "c1", 2, 0, 60, "ok")), sub(tx(2, "c1", 1, 0, 50, "ok")),
			sub(tx(3, "c1", 1, 0, 40, "ok")), sub(tx(4, "c2", 1, 0, 30, "ok")), sub(tx(5, "c2", 2, 0, 20, "ok")), sub(tx(6, "c2", 2, 0, 10, "ok")),
			{Op: "Gen", P: "b0"}, {Op: "Fin", B: "b1"}, {Op: "Gen", P: "b1"}, {Op: "Fin", B: "b2"}},
		// a foreign block becomes final: its transaction and the competing one leave the pool; replay, gap, expired, altered
		// transactions inside later foreign blocks are refused
		{sub(tx(1, "c1", 1, 0, 50, "ok")), sub(tx(2, "c1", 1, 0, 40, "ok")), sub(tx(3, "c1", 2, 0, 30, "ok")),
			{Op: "Forge", P: "b0", BT: 0, X: []atx{*tx(1, "c1", 1, 0, 50, "ok")}}, {Op: "Fin", B: "b1"}, {Op: "Gen", P: "b1"},
			{Op: "Forge", P: "b2", BT: 0, X: []atx{*tx(1, "c1", 1, 0, 50, "ok")}},
			{Op: "Forge", P: "b2", BT: 0, X: []atx{*tx(4, "c1", 4, 0, 31, "ok")}},
			{Op: "Forge", P: "b2", BT: T + 1, X: []atx{*tx(5, "c1", 3, 0, 32, "ok")}},
			{Op: "Forge", P: "b2", BT: T, X: []atx{*tx(5, "c1", 3, 0, 32, "ok")}},
			{Op: "Forge", P: "b2", BT: 0, X: []atx{*tx(6, "c1", 3, 0, 33, "tamper")}},
			{Op: "Forge", P: "b2", BT: 0, X: []atx{*tx(7, "c1", 3, 0, 34, "badsig")}},
			{Op: "Gen", P: "b3"}},
		// a nonce too far ahead of the state is deleted by the generator; the intake handler refuses it
		{sub(tx(1, "c1", int64(d.futureNonce)+1, 0, 50, "ok")), inj(tx(2, "c1", int64(d.futureNonce)+2, 0, 40, "ok")), {Op: "Gen", P: "b0"},
			inj(tx(3, "c1", 2, 0, 30, "ok")), inj(tx(4, "c1", int64(d.futureNonce)+2, 0, 20, "ok")), {Op: "Gen", P: "b0"}},
	}
	if which == "all" {
		// real seconds: admitted, time passes, the generator finds it stale and deletes it; another one is dropped by the clean-up worker
		out = append(out, []op{sub(tx(1, "c1", 1, 0, 50, "ok")), {Op: "Tick"}, sub(tx(2, "c2", 1, 1, 40, "ok")), {Op: "Tick"}, {Op: "Tick"}, {Op: "Gen", P: "b0"},
			{Op: "Cleanup"}, {Op: "Gen", P: "b1"}})
	}
	return out
}

// ---------------------------------------------------------------- random histories

func pick(r *rand.Rand, weights ...int) int {
	tot := 0
	for _, w := range weights {
		tot += w
	}
	x := r.Intn(tot)
	for i, w := range weights {
		if x < w {
			return i
		}
		x -= w
	}
	return len(weights) - 1
}

func (d *drv) liveBlocks() []string {
	var out []string
	for i := 0; i <= d.nblk; i++ {
		n := fmt.Sprintf("b%d", i)
		if d.blocks[n] != nil && d.live(n) {
			out = append(out, n)
		}
	}
	return out
}

func (d *drv) newTx(r *rand.Rand, on string, forPool bool) atx {
	id := len(d.order) + 1
	s := []string{"c1", "c2"}[r.Intn(2)]
	st := d.stOf[on][s]
	t := atx{ID: id, S: s, K: "ok", F: r.Intn(400)*64 + id%64}
	switch pick(r, 55, 15, 12, 10, 8) {
	case 0:
		t.N = st + 1
	case 1:
		t.N = st + 2
	case 2: // the nonce of some known transaction of the sender (a competing transaction)
		t.N = st + 1
		for _, k := range d.order {
			if d.attrs[k].S == s && r.Intn(2) == 0 {
				t.N = d.attrs[k].N
			}
		}
	case 3:
		t.N = st + 3
	default:
		t.N = st
		if t.N < 1 {
			t.N = 1
		}
	}
	now := d.now()
	if d.timed {
		t.CT = now - pick(r, 80, 20)
	} else {
		switch pick(r, 60, 8, 8, 6, 6, 6, 6) {
		case 0:
			t.CT = now
		case 1:
			t.CT = now - 1
		case 2:
			t.CT = now - d.tol
		case 3:
			t.CT = now - d.tol - 1
		case 4:
			t.CT = now + d.tol
		case 5:
			t.CT = now + d.tol + 1
		default:
			t.CT = now + 1
		}
	}
	if forPool {
		t.K = []string{"ok", "lowfee", "tamper", "badsig", "rehash"}[pick(r, 76, 8, 6, 5, 5)]
	}
	return t
}

func (d *drv) randomOp(r *rand.Rand) op {
	lives := d.liveBlocks()
	tip := lives[len(lives)-1]
	if r.Intn(3) == 0 {
		tip = lives[r.Intn(len(lives))]
	}
	wTick, wClean := 0, 2
	if d.timed {
		wTick = 18
	}
	for _, id := range d.pool().Coll {
		if a := d.now() - d.attrs[id].CT; id > 0 && (a > d.tol || -a > d.tol) {
			wClean = 10
		}
	}
	if d.cleaned || d.tid%d.cleanEvery != 0 {
		wClean = 0
	}
	switch pick(r, 34, 5, 9, 20, 16, 12, wClean, wTick) {
	case 0:
		t := d.newTx(r, tip, true)
		return op{Op: "Submit", T: &t}
	case 1: // the same signed transaction again
		if len(d.order) > 0 {
			t := d.attrs[d.order[r.Intn(len(d.order))]]
			return op{Op: "Submit", T: &t}
		}
		t := d.newTx(r, tip, true)
		return op{Op: "Submit", T: &t}
	case 2:
		t := d.newTx(r, tip, false)
		if r.Intn(5) == 0 {
			t.K = "lowfee"
		}
		if r.Intn(6) == 0 {
			t.N += int64(d.futureNonce) + 1
		}
		if !d.timed && r.Intn(5) == 0 {
			t.CT = d.now() - d.tol - 1 - r.Intn(2)
		}
		return op{Op: "Inject", T: &t}
	case 3:
		return op{Op: "Gen", P: tip}
	case 4:
		return d.randomForge(r, tip)
	case 5:
		var kids []string
		for _, n := range lives {
			if d.parent[n] == d.lfb {
				kids = append(kids, n)
			}
		}
		if len(kids) == 0 {
			return op{Op: "Gen", P: tip}
		}
		return op{Op: "Fin", B: kids[r.Intn(len(kids))]}
	case 6:
		return op{Op: "Cleanup"}
	default:
		return op{Op: "Tick"}
	}
}

// randomForge: a foreign block that is a valid continuation of its parent except for (at most) one defect
func (d *drv) randomForge(r *rand.Rand, p string) op {
	now := d.now()
	bt := d.btOf[p]
	if now > bt {
		bt = now
	}
	st := map[string]int64{}
	for s, n := range d.stOf[p] {
		st[s] = n
	}
	onBranch := map[int]bool{}
	for _, id := range d.branch[p] {
		onBranch[id] = true
	}
	var xs []atx
	used := map[int]bool{}
	fresh := len(d.order) + 1
	// a valid next transaction of some sender: a known one that fits, else a fresh one nobody submitted here
	next := func() atx {
		s := []string{"c1", "c2"}[r.Intn(2)]
		for _, id := range d.order {
			t := d.attrs[id]
			if t.S == s && t.N == st[s]+1 && (t.K == "ok" || t.K == "lowfee") && !used[id] && !onBranch[id] && t.CT-bt <= d.tol && bt-t.CT <= d.tol && r.Intn(3) > 0 {
				return t
			}
		}
		id := fresh
		fresh++
		return atx{ID: id, S: s, N: st[s] + 1, CT: bt - r.Intn(d.tol+1), F: r.Intn(400)*64 + id%64, K: "ok"}
	}
	add := func(t atx) {
		xs = append(xs, t)
		used[t.ID] = true
		if t.N == st[t.S]+1 {
			st[t.S] = t.N
		}
	}
	n := 1 + r.Intn(2)
	for i := 0; i < n; i++ {
		add(next())
	}
	switch pick(r, 28, 14, 10, 8, 12, 5, 10, 7, 10) {
	case 8: // a valid block of a generator whose clock runs ahead: the branch's block time moves forward
		if !d.timed {
			bt += 1 + r.Intn(d.tol+1)
			for i := range xs {
				if _, known := d.attrs[xs[i].ID]; known {
					xs[i].ID = fresh
					xs[i].F = r.Intn(400)*64 + fresh%64
					fresh++
				}
				xs[i].CT = bt - r.Intn(2)
			}
		}
	case 0: // valid
	case 1: // replay: a transaction that is already on the branch
		if len(d.branch[p]) > 0 {
			xs = append(xs, d.attrs[d.branch[p][r.Intn(len(d.branch[p]))]])
		} else {
			xs = append(xs, xs[0]) // twice in the block
		}
	case 2: // expired for the block: block time beyond the tolerance of the first transaction
		bt = xs[0].CT + d.tol + 1
	case 3: // future nonce (a gap)
		t := next()
		t.N++
		if _, known := d.attrs[t.ID]; known {
			t.ID = fresh
			t.F = r.Intn(400)*64 + t.ID%64
			fresh++
		}
		xs = append(xs, t)
	case 4: // altered after signing / wrong key
		t := next()
		if _, known := d.attrs[t.ID]; known {
			t.ID = fresh
			t.F = r.Intn(400)*64 + t.ID%64
			fresh++
		}
		t.K = []string{"tamper", "badsig", "rehash"}[r.Intn(3)]
		xs = append(xs, t)
	case 5: // the same transaction twice
		xs = append(xs, xs[0])
	case 6: // at the edge of the tolerance
		bt = xs[0].CT + d.tol
	default: // below the minimum fee
		t := next()
		if _, known := d.attrs[t.ID]; known {
			t.ID = fresh
			t.F = r.Intn(400)*64 + t.ID%64
			fresh++
		}
		t.K = "lowfee"
		xs = append(xs, t)
	}
	return op{Op: "Forge", P: p, BT: bt, X: xs}
}
