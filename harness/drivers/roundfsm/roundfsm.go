// Package roundfsm drives a REAL round.Round (chaincore/round/entity.go) for C37:
//
//	(i)  every TLC-enumerated operation sequence, each call on its own goroutine under a watchdog
//	     (a call that does not return is logged hang:true), with the projected state
//	     (phase, timeout count, shares, finalizing state) read back through the public getters after
//	     every call;
//	(ii) every TLC-enumerated pair / triple of operations on goroutines, recorded as
//	     call-start / call-end histories (ordered by a global atomic stamp) plus the state observed
//	     after all goroutines returned; each scenario is repeated many times on fresh objects and every
//	     DISTINCT history is logged once.
//
// The trace specification Trace_RoundFSM.tla judges the histories; nothing is decided here.
package roundfsm

import (
	"encoding/json"
	"fmt"
	"os"
	"runtime"
	"sort"
	"strconv"
	"strings"
	"sync"
	"sync/atomic"
	"time"

	"0chain.net/chaincore/block"
	"0chain.net/chaincore/node"
	"0chain.net/chaincore/round"
	"0chain.net/core/viper"

	"verif/harness/common"
	"verif/harness/drivers/consobj"
	"verif/harness/rec"
)

func init() { common.Register("roundfsm", Run) }

// Op is one abstract operation (same record as in RoundSeq.tla).
type Op struct {
	T string `json:"t"`
	V int    `json:"v"`
	M string `json:"m"`
}

// Behaviour is one line printed by Gen_RoundFSM.tla.
type Behaviour struct {
	K     string `json:"k"` // "seq" | "conc"
	Cap   int    `json:"cap"`
	Setup []Op   `json:"setup"`
	Procs [][]Op `json:"procs"`
	Hot   int    `json:"hot"` // 1: both operations write the phase outside one critical section: repeat more often
}

const (
	thr     = 2 // threshold passed to AddVRFShare
	capKey  = "server_chain.round_timeouts.timeout_cap"
	roundNo = 7 // round 0 counts as finalized (isFinalized), so never use 0
)

var (
	watchdog = 2 * time.Second
	miners   *node.Pool
	minerOf  = map[string]*node.Node{}
	nameOf   = map[string]string{}
)

func setup() {
	consobj.Init()
	var keys []consobj.Key
	for _, n := range []string{"m1", "m2", "m3"} {
		keys = append(keys, consobj.NewKey("roundfsm", n))
	}
	var ns []*node.Node
	miners, ns = consobj.NewPool(node.NodeTypeMiner, keys)
	for i, n := range ns {
		minerOf[keys[i].Name] = n
		nameOf[n.GetKey()] = keys[i].Name
	}
	node.Self.Node = minerOf["m1"] // IncrementTimeoutCount skips the vote of node.Self
}

// ------------------------------------------------------------------ the real object

type obj struct {
	r    *round.Round
	sem  chan struct{} // the goroutine driving this object holds a token of this semaphore
	nb   int32 // notarized blocks handed out: every AddNB call adds a NEW block (own hash)
	help *helper
}

func newObj() *obj {
	r := round.Provider().(*round.Round)
	r.Number = roundNo
	return &obj{r: r}
}

// do performs one operation on the real round and returns the result class.
func (o *obj) do(op Op) string {
	r := o.r
	switch op.T {
	case "SetPhase":
		r.SetPhase(round.Phase(op.V))
	case "ResetPhase":
		r.ResetPhase(round.Phase(op.V))
	case "GetPhase":
		return strconv.Itoa(int(r.GetPhase()))
	case "Restart":
		if err := r.Restart(); err != nil {
			return "err"
		}
		return "ok"
	case "AddShare":
		s := &round.VRFShare{Round: roundNo, Share: strconv.Itoa(op.V)}
		s.SetParty(minerOf[op.M])
		return strconv.FormatBool(r.AddVRFShare(s, thr))
	case "AddNB":
		b := block.Provider().(*block.Block)
		b.Round = roundNo
		b.Hash = fmt.Sprintf("nb-%d", atomic.AddInt32(&o.nb, 1))
		b.RoundRank = op.V
		r.AddNotarizedBlock(b)
	case "SetToc":
		return strconv.FormatBool(r.SetTimeoutCount(op.V))
	case "IncToc":
		r.IncrementTimeoutCount(1, miners)
	case "Vote":
		r.AddTimeoutVote(op.V, minerOf[op.M].GetKey())
	case "GetToc":
		return strconv.Itoa(r.GetTimeoutCount())
	case "SetFinalizing":
		return strconv.FormatBool(r.SetFinalizing())
	case "SetFinalized":
		r.SetFinalized()
	case "Finalize":
		b := block.Provider().(*block.Block)
		b.Round = roundNo
		b.Hash = "fin"
		r.Finalize(b)
	case "ResetIfNot":
		r.ResetFinalizingStateIfNotFinalized()
	case "ResetFin":
		r.ResetFinalizingState()
	case "IsFinalized":
		return strconv.FormatBool(r.IsFinalized())
	case "GetShares":
		return strconv.Itoa(len(r.GetVRFShares()))
	default:
		rec.Fatal("roundfsm: unknown operation %q", op.T)
	}
	return "none"
}

// helper is a long-lived goroutine that runs guarded calls (cheaper than one goroutine per call).
type helper struct {
	req chan func()
	ack chan struct{}
}

func newHelper() *helper {
	h := &helper{req: make(chan func()), ack: make(chan struct{})}
	go func() {
		for f := range h.req {
			f()
			h.ack <- struct{}{}
		}
	}()
	return h
}

// seqSlots bounds the number of sequential traces that are RUNNING (not waiting for a watchdog), so
// that a call which can return is never queued behind thousands of runnable goroutines.
var seqSlots = make(chan struct{}, 32)

// guarded runs f on another goroutine; false = it did not return within the watchdog.
// The caller holds a token of o.sem, which is given back while waiting for a slow call.
// A call is declared hung only if it is still outstanding after the watchdog period AND the
// scheduler is responsive at that moment (a 1 ms sleep does not oversleep by more than 50 ms);
// otherwise the wait is extended (up to 6 periods).
func (o *obj) guarded(f func()) bool {
	var done <-chan struct{}
	if o.help != nil {
		o.help.req <- f
		done = o.help.ack
	} else {
		d := make(chan struct{})
		go func() { f(); close(d) }()
		done = d
	}
	q := time.NewTimer(20 * time.Millisecond)
	select {
	case <-done:
		q.Stop()
		return true
	case <-q.C:
	}
	if o.sem != nil {
		<-o.sem
		defer func() { o.sem <- struct{}{} }()
	}
	for attempt := 0; attempt < 6; attempt++ {
		t := time.NewTimer(watchdog)
		select {
		case <-done:
			t.Stop()
			return true
		case <-t.C:
		}
		t0 := time.Now()
		time.Sleep(time.Millisecond)
		if time.Since(t0) < 50*time.Millisecond {
			select {
			case <-done:
				return true
			default:
			}
			break
		}
	}
	if o.help != nil {
		*o.help = *newHelper() // the old goroutine is stuck inside f for ever
	}
	return false
}

type pair struct {
	A string `json:"a"`
	D int    `json:"d"`
}

type proj struct {
	phase, toc, fin int
	shares          []pair
	hang            bool
	hangOp          string
}

// project reads the abstract state back through the public getters, each under the watchdog.
func (o *obj) project(last proj) proj {
	p := proj{shares: []pair{}}
	r := o.r
	p.phase = int(r.GetPhase()) // atomic
	fail := func(op string) proj {
		last.hang, last.hangOp = true, op
		if last.shares == nil {
			last.shares = []pair{}
		}
		return last
	}
	if !o.guarded(func() { p.toc = r.GetTimeoutCount() }) {
		return fail("GetTimeoutCount")
	}
	if !o.guarded(func() { p.fin = int(r.FinalizeState()) }) {
		return fail("FinalizeState")
	}
	var sh map[string]*round.VRFShare
	if !o.guarded(func() { sh = r.GetVRFShares() }) {
		return fail("GetVRFShares")
	}
	for k, s := range sh {
		tag, _ := strconv.Atoi(s.Share)
		n := nameOf[k]
		if n == "" {
			n = "?" + k
		}
		p.shares = append(p.shares, pair{n, tag})
	}
	sort.Slice(p.shares, func(i, j int) bool { return p.shares[i].A < p.shares[j].A })
	return p
}

func (p proj) fields(m rec.M) rec.M {
	m["phase"], m["toc"], m["fin"], m["shares"] = p.phase, p.toc, p.fin, p.shares
	m["proj_hang"], m["proj_op"] = p.hang, p.hangOp
	return m
}

// seqOp performs one call while nothing else runs and returns its event.
func (o *obj) seqOp(op Op, last *proj) (rec.M, bool) {
	res := "none"
	ok := o.guarded(func() { res = o.do(op) })
	e := rec.M{"ev": "Op", "op": op.T, "v": op.V, "m": op.M, "res": res, "hang": !ok}
	if !ok {
		e["res"] = "hang"
		keep := *last
		keep.hang, keep.hangOp = false, ""
		if keep.shares == nil {
			keep.shares = []pair{}
		}
		return keep.fields(e), false
	}
	p := o.project(*last)
	if !p.hang {
		*last = p
	}
	return p.fields(e), !p.hang
}

func tagShares(ops []Op, base int) []Op {
	out := make([]Op, len(ops))
	for i, op := range ops {
		if op.T == "AddShare" {
			op.V = base + i + 1
		}
		out[i] = op
	}
	return out
}

type emitted struct {
	m          rec.M
	shape      string
	nontrivial bool
}

func shapeOf(e rec.M) string {
	s := fmt.Sprintf("%v/%v", e["op"], e["res"])
	if h, _ := e["hang"].(bool); h {
		s += "/hang"
	}
	if h, _ := e["proj_hang"].(bool); h {
		s += "/projhang"
	}
	return s
}

// runSeq executes one sequence on a fresh round; it stops at the first call that does not return.
func runSeq(ops []Op) []emitted {
	seqSlots <- struct{}{}
	defer func() { <-seqSlots }()
	o := newObj()
	o.sem = seqSlots
	last := proj{shares: []pair{}}
	out := []emitted{{rec.M{"ev": "New", "count": 1}, "new", false}}
	for _, op := range tagShares(ops, 0) {
		e, ok := o.seqOp(op, &last)
		out = append(out, emitted{e, shapeOf(e), true})
		if !ok {
			break
		}
	}
	return out
}

// ------------------------------------------------------------------ concurrent histories

var cpuSlots = make(chan struct{}, 4)

// slot records one call of one goroutine: the global stamp taken BEFORE the call, the stamp taken
// AFTER it returned (0 = it has not returned) and the result.  If a.ret < b.call then a really
// returned before b was called, so a history ordered by stamps is a sound call/return history.
type slot struct {
	call, ret int64
	res       string
	_         [24]byte
}

type job struct {
	o    *obj
	ops  [][]Op
	rec  [][]slot
	ctr  int64
	done int32
}

// engine keeps one long-lived goroutine per process of the scenario; a repetition is released by
// bumping gen, so the processes start within a few dozen nanoseconds of each other.
type engine struct {
	n    int
	gen  int64
	quit int32
	cur  atomic.Value // *job
}

func newEngine(n int) *engine {
	e := &engine{n: n}
	for i := 0; i < n; i++ {
		go e.worker(i)
	}
	return e
}

func (e *engine) worker(i int) {
	last := int64(0)
	for spins := 0; ; spins++ {
		g := atomic.LoadInt64(&e.gen)
		if g == last {
			if atomic.LoadInt32(&e.quit) != 0 {
				return
			}
			if spins&255 == 255 {
				runtime.Gosched()
			}
			continue
		}
		last = g
		j := e.cur.Load().(*job)
		for k, op := range j.ops[i] {
			sl := &j.rec[i][k]
			atomic.StoreInt64(&sl.call, atomic.AddInt64(&j.ctr, 1))
			res := j.o.do(op)
			sl.res = res
			atomic.StoreInt64(&sl.ret, atomic.AddInt64(&j.ctr, 1))
		}
		atomic.AddInt32(&j.done, 1)
	}
}

// run releases one repetition and waits for all processes; false = some call did not return.
func (e *engine) run(j *job) bool {
	e.cur.Store(j)
	atomic.AddInt64(&e.gen, 1)
	start := time.Now()
	released := false
	periods := 1
	defer func() {
		if released {
			cpuSlots <- struct{}{}
		}
	}()
	for spins := 1; ; spins++ {
		if atomic.LoadInt32(&j.done) == int32(e.n) {
			return true
		}
		if spins&63 == 0 {
			runtime.Gosched()
		}
		if spins&1023 == 0 {
			el := time.Since(start)
			if el > time.Duration(periods)*watchdog {
				t0 := time.Now()
				time.Sleep(time.Millisecond)
				if time.Since(t0) < 50*time.Millisecond || periods >= 6 {
					return atomic.LoadInt32(&j.done) == int32(e.n)
				}
				periods++ // the scheduler itself is lagging: wait another period
			}
			if el > 20*time.Millisecond {
				if !released {
					released = true
					<-cpuSlots // slow: give the CPU slot back while waiting for the watchdog
				}
				time.Sleep(2 * time.Millisecond)
			}
		}
	}
}

type hev struct {
	stamp int64
	ret   bool
	p     int
	op    Op
	res   string
	hang  bool
}

// history of one repetition in stamp order
func (j *job) history() ([]hev, bool) {
	var h []hev
	hung := false
	for i := range j.rec {
		for k := range j.rec[i] {
			sl := &j.rec[i][k]
			c := atomic.LoadInt64(&sl.call)
			if c == 0 {
				break // never started (an earlier call of this goroutine hangs)
			}
			h = append(h, hev{stamp: c, p: i + 1, op: j.ops[i][k]})
			if r := atomic.LoadInt64(&sl.ret); r != 0 {
				h = append(h, hev{stamp: r, ret: true, p: i + 1, op: j.ops[i][k], res: sl.res})
			} else {
				hung = true
				h = append(h, hev{stamp: 1<<40 + int64(i), ret: true, p: i + 1, op: j.ops[i][k], res: "hang", hang: true})
			}
		}
	}
	sort.Slice(h, func(a, b int) bool { return h[a].stamp < h[b].stamp })
	return h, hung
}

func (e hev) event() emitted {
	if !e.ret {
		return emitted{rec.M{"ev": "Call", "p": e.p, "op": e.op.T, "v": e.op.V, "m": e.op.M}, "Call:" + e.op.T, true}
	}
	return emitted{rec.M{"ev": "Ret", "p": e.p, "op": e.op.T, "res": e.res, "hang": e.hang, "proj_hang": false},
		"Ret:" + e.op.T + "/" + e.res, true}
}

// runConc repeats the scenario on fresh rounds and returns every DISTINCT history once, in order of
// first appearance (New.count = how often it was seen).
func runConc(b Behaviour, reps int) []emitted {
	cpuSlots <- struct{}{}
	defer func() { <-cpuSlots }()
	n := len(b.Procs)
	eng := newEngine(n)
	defer atomic.StoreInt32(&eng.quit, 1)
	help := newHelper()
	defer close(help.req)
	setupOps := tagShares(b.Setup, 0)
	procOps := make([][]Op, n)
	for i := range b.Procs {
		procOps[i] = tagShares(b.Procs[i], 10*(i+1))
	}
	seen := map[string]int{}
	var order []string
	hists := map[string][]emitted{}
	var sb strings.Builder
	for r := 0; r < reps; r++ {
		o := newObj()
		o.sem = cpuSlots
		o.help = help
		last := proj{shares: []pair{}}
		var pre []emitted
		dead := false
		for _, op := range setupOps {
			e, ok := o.seqOp(op, &last)
			pre = append(pre, emitted{e, "setup:" + shapeOf(e), true})
			if !ok {
				dead = true
				break
			}
		}
		var h []hev
		var obs proj
		if !dead {
			j := &job{o: o, ops: procOps, rec: make([][]slot, n)}
			for i := range j.rec {
				j.rec[i] = make([]slot, len(procOps[i]))
			}
			ok := eng.run(j)
			var hung bool
			h, hung = j.history()
			if !ok || hung {
				dead = true
			} else {
				obs = o.project(last)
				if obs.hang {
					dead = true
				}
			}
		}
		// signature of the repetition
		sb.Reset()
		for _, e := range pre {
			fmt.Fprintf(&sb, "%v/%v/%v/%v;", e.m["op"], e.m["res"], e.m["hang"], e.m["proj_hang"])
		}
		for _, e := range h {
			fmt.Fprintf(&sb, "%d%v%s%v;", e.p, e.ret, e.res, e.hang)
		}
		fmt.Fprintf(&sb, "|%d,%d,%d,%v,%v", obs.phase, obs.toc, obs.fin, obs.shares, obs.hang)
		s := sb.String()
		if _, ok := seen[s]; !ok {
			order = append(order, s)
			evs := append([]emitted(nil), pre...)
			for _, e := range h {
				evs = append(evs, e.event())
			}
			if len(h) > 0 && (obs.shares != nil) {
				evs = append(evs, emitted{obs.fields(rec.M{"ev": "Obs", "hang": false}), fmt.Sprintf("Obs/%v", obs.hang), true})
			}
			hists[s] = evs
		}
		seen[s]++
		if dead {
			break // the object is dead; one such history is enough (and costs a watchdog period)
		}
	}
	var out []emitted
	for _, s := range order {
		out = append(out, emitted{rec.M{"ev": "New", "count": seen[s]}, "new", false})
		out = append(out, hists[s]...)
	}
	return out
}

// ------------------------------------------------------------------ entry point

func key(ops []Op) string {
	b, _ := json.Marshal(ops)
	return string(b)
}

// Run replays every behaviour of the behaviours file (trace id = line number).
func Run(a common.Args) {
	setup()
	if ms := os.Getenv("VERIF_WATCHDOG_MS"); ms != "" {
		if v, err := strconv.Atoi(ms); err == nil && v > 0 {
			watchdog = time.Duration(v) * time.Millisecond
		}
	}
	rc := rec.New(a.Out)
	defer rc.Close()
	raw := common.Behaviours(a.Behav)
	if len(raw) == 0 {
		rec.Fatal("roundfsm: no behaviours (this driver only replays TLC-enumerated behaviours)")
	}
	behs := make([]Behaviour, len(raw))
	for i, r := range raw {
		if err := json.Unmarshal(r, &behs[i]); err != nil {
			rec.Fatal("behaviour %d: %v", i+1, err)
		}
	}
	reps := a.N
	hotFactor := a.Steps
	if hotFactor < 1 {
		hotFactor = 1
	}
	if a.Only != 0 {
		reps *= 4 // replay of one concurrent scenario: look harder for the same schedule
	}
	results := make([][]emitted, len(behs))
	skip := make([]bool, len(behs))

	// the timeout cap is a process-global setting (viper): one pass per cap value
	caps := map[int]bool{}
	for _, b := range behs {
		caps[b.Cap] = true
	}
	var capList []int
	for c := range caps {
		capList = append(capList, c)
	}
	sort.Ints(capList)
	hangs := int64(0)
	for _, c := range capList {
		viper.Set(capKey, c)
		// (i) sequences: level by level over the prefix tree, so that a prefix whose last call hangs is
		// executed once (all its extensions are the same trace) and the watchdog waits run in parallel
		type item struct{ idx int }
		hungPrefix := map[string][]emitted{} // prefix (as executed) -> its events
		maxLen := 0
		var seqIdx []int
		for i, b := range behs {
			if b.K == "seq" && b.Cap == c && (a.Only == 0 || a.Only == i+1) {
				seqIdx = append(seqIdx, i)
				if len(b.Setup) > maxLen {
					maxLen = len(b.Setup)
				}
			}
		}
		okPrefix := map[string]bool{"[]": true}
		for k := 1; k <= maxLen; k++ {
			cand := map[string][]Op{}
			full := map[string]int{} // prefix that is a complete behaviour -> index
			for _, i := range seqIdx {
				ops := behs[i].Setup
				if len(ops) < k || !okPrefix[key(ops[:k-1])] {
					continue
				}
				cand[key(ops[:k])] = ops[:k]
				if len(ops) == k {
					if _, dup := full[key(ops)]; !dup {
						full[key(ops)] = i
					}
				}
			}
			var mu sync.Mutex
			var wg sync.WaitGroup
			next := map[string]bool{}
			for ks, ops := range cand {
				wg.Add(1)
				go func(ks string, ops []Op) {
					defer wg.Done()
					evs := runSeq(ops)
					lastEv := evs[len(evs)-1].m
					h1, _ := lastEv["hang"].(bool)
					h2, _ := lastEv["proj_hang"].(bool)
					mu.Lock()
					defer mu.Unlock()
					if h1 || h2 {
						hungPrefix[ks] = evs
						atomic.AddInt64(&hangs, 1)
					} else {
						next[ks] = true
						if i, ok := full[ks]; ok {
							results[i] = evs
						}
					}
				}(ks, ops)
			}
			wg.Wait()
			okPrefix = next
		}
		// a behaviour whose prefix hung is that prefix's trace; emitted under the smallest id only
		owner := map[string]int{}
		for _, i := range seqIdx {
			if results[i] != nil {
				continue
			}
			ops := behs[i].Setup
			for k := 1; k <= len(ops); k++ {
				ks := key(ops[:k])
				if evs, ok := hungPrefix[ks]; ok {
					if _, taken := owner[ks]; taken && a.Only == 0 {
						skip[i] = true
					} else {
						owner[ks] = i
						results[i] = evs
					}
					break
				}
			}
			if results[i] == nil && !skip[i] {
				rec.Fatal("roundfsm: behaviour %d was not executed", i+1)
			}
		}
		// (ii) concurrent scenarios
		var wg sync.WaitGroup
		for i, b := range behs {
			if b.K != "conc" || b.Cap != c || (a.Only != 0 && a.Only != i+1) {
				continue
			}
			wg.Add(1)
			go func(i int, b Behaviour) {
				defer wg.Done()
				n := reps
				if b.Hot != 0 {
					n = reps * hotFactor
				}
				results[i] = runConc(b, n)
			}(i, b)
		}
		wg.Wait()
	}

	skipped := 0
	for i, b := range behs {
		id := i + 1
		if (a.Only != 0 && a.Only != id) || skip[i] {
			rc.TraceID = id
			if skip[i] {
				skipped++
			}
			continue
		}
		rc.TraceID = id - 1
		rc.Reset(rec.M{"family": "roundfsm", "id": id, "behaviour": b, "reps": reps},
			rec.M{"mode": b.K, "cap": b.Cap, "thr": thr})
		for _, e := range results[i] {
			rc.Emit(e.m, e.shape, e.nontrivial)
		}
	}
	rc.Extra["x_duplicate_hung_prefixes_skipped"] = skipped
	rc.Extra["x_hung_prefixes"] = hangs
	rc.Extra["x_watchdog_ms"] = int(watchdog / time.Millisecond)
}
