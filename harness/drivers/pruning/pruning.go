// Package pruning checks C27 on the real chain: histories of inserts / deletes / re-inserts (of the
// same and of other values, in one block and across blocks) are written to real block states the
// way Chain.updateState does (transaction-level MPT from CreateTxnMPT, MergeMPTChanges into the
// block MPT; plus real transactions through Chain.UpdateState), every block is finalized by the
// REAL chain.finalizeBlock (VerifFinalizeBlock: SaveChanges, RecordDeadNodes(GetDeletes(), round),
// ...) on the chain's RocksDB PNodeDB, the store is pruned with the real PNodeDB.PruneBelowVersion
// at versions up to the latest finalized round and with the real pruneClientState, and after every
// prune the complete state of every retained finalized block is iterated against the PERSISTENT
// store only.
//
// Pruning is irreversible and the store is one per process, so the traces of a run form one
// growing chain: each trace continues on the last finalized block and logs rounds relative to it.
package pruning

import (
	"context"
	"fmt"
	"math/rand"
	"path/filepath"
	"time"

	"0chain.net/chaincore/block"
	"0chain.net/chaincore/chain"
	"0chain.net/chaincore/round"
	"0chain.net/chaincore/transaction"
	"0chain.net/core/datastore"
	"0chain.net/core/encryption"

	"github.com/0chain/common/core/statecache"
	"github.com/0chain/common/core/util"

	"verif/harness/common"
	"verif/harness/rec"
	"verif/harness/world"
)

func init() { common.Register("pruning", Run) }

const belowCount = 2

type bsh struct{}

func (bsh) SaveMagicBlock() chain.MagicBlockSaveFunc { return nil }
func (bsh) UpdatePendingBlock(ctx context.Context, b *block.Block, txns []datastore.Entity) {
}
func (bsh) UpdateFinalizedBlock(ctx context.Context, b *block.Block) error { return nil }

type noVC struct{}

func (noVC) ViewChange(ctx context.Context, lfb *block.Block) error { return nil }

type fin struct {
	round int64
	root  util.Key
}

type pair struct {
	R int64 `json:"r"` // round relative to the trace start
	D int64 `json:"d"` // nodes of that block's state missing from the persistent store
}

type drv struct {
	w      *world.World
	c      *chain.Chain
	rc     *rec.Recorder
	r      *rand.Rand
	ctx    context.Context
	finals []fin // every finalized block of this process, oldest first
	base   int64 // round of the head at trace start
	pruned int64 // highest version pruned so far (absolute)
	keys   []util.Path
	saved  map[string]util.Node // every node ever created, by hash (repair after a recorded violation)
}

// Run is the driver entry point.
func Run(a common.Args) {
	w := world.New(world.Options{Clients: 3, Miners: 2, Overrides: map[string]interface{}{
		"server_chain.state.prune_below_count": belowCount,
	}})
	defer w.Close()
	rc := rec.New(a.Out)
	defer rc.Close()
	c := w.Chain
	c.InitializeMinerPool(c.GetCurrentMagicBlock())
	c.SetViewChanger(noVC{}) // finalizeRound's rollback branch calls the view changer
	d := &drv{w: w, c: c, rc: rc, ctx: context.Background()}
	for i := 0; i < 3; i++ {
		d.keys = append(d.keys, util.Path(encryption.Hash(fmt.Sprintf("c27-key-%d", i))))
	}
	d.finals = []fin{{0, w.Genesis.ClientStateHash}}
	d.saved = map[string]util.Node{}
	d.remember(w.Genesis.ClientState)
	// The traces of a run share one store, so a trace is only re-executable together with its
	// predecessors: with --only k the traces before k are executed silently (recorded elsewhere),
	// the traces after k are skipped.
	var silent *rec.Recorder
	if a.Only > 1 {
		silent = rec.New(filepath.Join(a.Out, "prefix"))
		defer silent.Close()
	}
	id := 0
	for i := 0; i < a.N; i++ {
		id++
		if a.Only != 0 && id > a.Only {
			break
		}
		d.r = common.TraceRand(a.Seed, id)
		if a.Only != 0 && id < a.Only {
			d.rc = silent
			d.trace(id, a)
			d.rc = rc
			rc.TraceID = id
			continue
		}
		d.trace(id, a)
	}
}

// remember keeps a copy of every node of the given state (used only to repair the store after a
// violation has been recorded, so that the rest of the run stays meaningful).
func (d *drv) remember(s util.MerklePatriciaTrieI) {
	_ = s.Iterate(context.Background(), func(ctx context.Context, path util.Path, key util.Key, n util.Node) error {
		if n != nil && key != nil {
			d.saved[util.ToHex(key)] = n.CloneNode()
		}
		return nil
	}, util.NodeTypeLeafNode|util.NodeTypeFullNode|util.NodeTypeExtensionNode)
}

// heal puts back the nodes that the retained blocks miss (after the observation was recorded).
func (d *drv) heal(v int64) {
	sdb := d.c.GetStateDB()
	for round := 0; round < 64; round++ {
		var missing []util.Key
		lo := 0
		if len(d.finals) > 12 {
			lo = len(d.finals) - 12
		}
		for _, f := range d.finals[lo:] {
			if f.round < v {
				continue
			}
			m := util.NewMerklePatriciaTrie(sdb, util.Sequence(f.round), f.root, statecache.NewEmpty())
			_ = m.Iterate(context.Background(), func(ctx context.Context, path util.Path, key util.Key, n util.Node) error {
				if n == nil && key != nil {
					missing = append(missing, append(util.Key{}, key...))
				}
				return nil
			}, util.NodeTypeValueNode|util.NodeTypeLeafNode|util.NodeTypeFullNode|util.NodeTypeExtensionNode)
		}
		if len(missing) == 0 {
			return
		}
		put := 0
		for _, k := range missing {
			if n, ok := d.saved[util.ToHex(k)]; ok {
				if err := sdb.PutNode(k, n); err == nil {
					put++
				}
			}
		}
		if put == 0 {
			rec.Fatal("store is missing %d nodes that cannot be restored", len(missing))
		}
	}
}

func value(s string) util.MPTSerializable { return &util.SecureSerializableValue{Buffer: []byte(s)} }

// op applies one write to the block state exactly the way updateState commits a transaction:
// a transaction-level trie on top of the block's, merged with MergeMPTChanges.
func (d *drv) op(kind string, k int, v string) (string, error) {
	bs := d.w.CurState
	ts := chain.CreateTxnMPT(bs, statecache.NewEmpty())
	var err error
	switch kind {
	case "ins":
		_, err = ts.Insert(d.keys[k], value(v))
	case "del":
		_, err = ts.Delete(d.keys[k])
		if err == util.ErrValueNotPresent || err == util.ErrNodeNotFound {
			return "absent", nil
		}
	case "delins": // delete and re-create inside ONE transaction
		if _, err = ts.Delete(d.keys[k]); err != nil && err != util.ErrValueNotPresent && err != util.ErrNodeNotFound {
			return "", err
		}
		_, err = ts.Insert(d.keys[k], value(v))
	}
	if err != nil {
		return "", err
	}
	if err := bs.MergeMPTChanges(ts); err != nil {
		return "", err
	}
	return "ok", nil
}

// missingIn walks the whole state with the given root on the persistent store only.
func (d *drv) missingIn(root util.Key, version int64) (missing, nodes int64) {
	m := util.NewMerklePatriciaTrie(d.c.GetStateDB(), util.Sequence(version), root, statecache.NewEmpty())
	_ = m.Iterate(context.Background(), func(ctx context.Context, path util.Path, key util.Key, n util.Node) error {
		if n == nil {
			missing++
		} else {
			nodes++
		}
		return nil
	}, util.NodeTypeValueNode|util.NodeTypeLeafNode|util.NodeTypeFullNode|util.NodeTypeExtensionNode)
	return
}

func (d *drv) rel(r int64) int64 { return r - d.base }

// check iterates every retained finalized block (round >= v, the last 12 at most).
func (d *drv) check(v int64) (out []pair, total int64) {
	lo := 0
	if len(d.finals) > 12 {
		lo = len(d.finals) - 12
	}
	for _, f := range d.finals[lo:] {
		if f.round < v {
			continue
		}
		m, _ := d.missingIn(f.root, f.round)
		out = append(out, pair{d.rel(f.round), m})
		total += m
	}
	if out == nil {
		out = []pair{}
	}
	return
}

func (d *drv) trace(id int, a common.Args) {
	w := d.w
	head := w.Head
	d.base = head.Round
	d.rc.TraceID = id - 1
	if id%3 == 0 {
		d.forkTrace(id, a)
		return
	}
	d.rc.Reset(rec.M{"family": "pruning", "kind": "chain", "id": id, "seed": a.Seed, "steps": a.Steps}, rec.M{"nonces": w.InitNonces(head.ClientState), "round": 0})
	nblocks := 2 + d.r.Intn(4)
	for bi := 0; bi < nblocks; bi++ {
		b, ops, synced := d.build(w.Head, 0, d.r.Intn(a.Steps+1), true)
		d.finalize(b, ops, synced, true, "")
		d.prune(b, b.Round)
	}
	d.closingPrune()
}

// build makes a block of n writes (sometimes also a real transaction through Chain.UpdateState) on
// top of `on`, generated by miner `miner`; one time in five (maySync) the block is not the executed
// one but a copy synced from its published state changes.
func (d *drv) build(on *block.Block, miner, n int, maySync bool) (*block.Block, []string, bool) {
	w := d.w
	vals := []string{"v1", "v2"}
	b := w.BeginBlock(on)
	b.MinerID = w.Miners[miner].ID
	var ops []string
	for j := 0; j < n; j++ {
		k := d.r.Intn(len(d.keys))
		kind := []string{"ins", "ins", "del", "del", "delins"}[d.r.Intn(5)]
		v := vals[d.r.Intn(len(vals))]
		if d.r.Intn(3) == 0 {
			v = "v1" // bias towards re-creating the identical value
		}
		res, err := d.op(kind, k, v)
		if err != nil {
			rec.Fatal("op %s k%d %s: %v", kind, k, v, err)
		}
		ops = append(ops, fmt.Sprintf("%s:k%d:%s:%s", kind, k, v, res))
	}
	if d.r.Intn(3) == 0 {
		from := w.Clients[d.r.Intn(len(w.Clients))]
		w.DoRec(d.rc, world.TxnSpec{From: from, To: w.Clients[d.r.Intn(len(w.Clients))].ID, Type: transaction.TxnTypeSend,
			Value: uint64(1 + d.r.Intn(9)), Fee: uint64(d.r.Intn(2))}, rec.M{"src": "pruning"})
	}
	w.EndBlock()
	b.SetStateChangesCount(b.ClientState)
	synced := false
	if maySync && b.StateChangesCount > 0 && d.r.Intn(5) == 0 {
		// this node did not execute the block: it receives the block's published state changes
		// (real NewBlockStateChange -> codec -> ApplyBlockStateChange) and finalizes the SYNCED
		// copy, whose dead-node list is the one that came with the change set
		if fb := d.syncedCopy(b); fb != nil {
			b, synced = fb, true
			w.Head = fb
		}
	}
	r := d.c.GetRound(b.Round)
	if r == nil {
		r = d.c.AddRound(round.NewRound(b.Round))
	}
	d.c.AddNotarizedBlockToRound(r, b)
	_, chs, _, _ := b.ClientState.GetChanges()
	for _, ch := range chs {
		d.saved[ch.New.GetHash()] = ch.New.CloneNode()
	}
	return b, ops, synced
}

// finalize runs the real finalizeBlock on b (one time in seven, when mayCrash: SaveChanges only)
// and records the Block event with the walk of the block's own state.
func (d *drv) finalize(b *block.Block, ops []string, synced, mayCrash bool, tag string) {
	c := d.c
	changes, deletes := b.ClientState.GetChangeCount(), len(b.ClientState.GetDeletes())
	mode, ferr := "finalizeBlock", ""
	if synced {
		mode = "finalizeBlock-synced"
	}
	if !synced && mayCrash && d.r.Intn(7) == 0 {
		// crash between SaveChanges and the dead-node record: the changes are persisted, the
		// record never is; the node restarts on this block as its LFB
		mode = "saved-without-record"
		if err := c.SaveChanges(d.ctx, b); err != nil {
			ferr = err.Error()
		}
		c.GetRound(b.Round).Finalize(b)
		c.SetLatestFinalizedBlock(b)
	} else if err := c.VerifFinalizeBlock(d.ctx, b, bsh{}); err != nil {
		ferr = err.Error()
	}
	lfb := c.GetLatestFinalizedBlock()
	d.finals = append(d.finals, fin{b.Round, append(util.Key{}, b.ClientStateHash...)})
	_, total := d.check(b.Round) // the block just finalized must be completely in the store
	d.rc.Emit(rec.M{"ev": "Block", "round": d.rel(b.Round), "n_ops": len(ops), "ops": orEmpty(ops), "changes": changes, "deletes": deletes,
		"mode": mode, "err": ferr, "is_lfb": lfb.Hash == b.Hash, "missing": total, "fork": tag}, mode+"/"+opShape(ops)+tag, true)
	if total > 0 {
		d.heal(b.Round)
	}
}

// prune: sometimes prune at some version up to maxV (<= the latest finalized round), directly or
// with the chain's own choice of the version.
func (d *drv) prune(b *block.Block, maxV int64) {
	c := d.c
	switch x := d.r.Intn(10); {
	case x < 5:
		lo := d.pruned + 1
		if lo < d.base+1 {
			lo = d.base + 1
		}
		if lo > maxV {
			break
		}
		v := lo + int64(d.r.Intn(int(maxV-lo+1)))
		perr := ""
		if err := c.GetStateDB().PruneBelowVersion(d.ctx, v); err != nil {
			perr = err.Error()
		}
		if v > d.pruned {
			d.pruned = v
		}
		d.emitPrune("direct", v, perr)
	case x < 7:
		// the chain's own choice of the version (pruneClientState): everything from
		// lfb.Round - PruneStateBelowCount upwards is at or above whatever it chose
		lfb := c.GetLatestFinalizedBlock()
		c.VerifPruneClientState(d.ctx)
		v := lfb.Round - belowCount
		if v < 0 {
			v = 0
		}
		if v < d.pruned {
			v = d.pruned // an earlier prune went higher: blocks below it are not retained any more
		}
		d.pruned = v
		d.emitPrune("pruneClientState", v, "")
	}
}

// closingPrune closes the trace with a prune at the last finalized round.
func (d *drv) closingPrune() {
	last := d.w.Head.Round
	perr := ""
	if err := d.c.GetStateDB().PruneBelowVersion(d.ctx, last); err != nil {
		perr = err.Error()
	}
	if last > d.pruned {
		d.pruned = last
	}
	d.emitPrune("direct", last, perr)
}

// forkTrace: the node finalizes one or two blocks of a fork A, then the blocks of a competing fork B
// arrive (other generator), both forks have a notarized block in the same round, and the REAL
// finalizeRound rolls the latest finalized block back to the common ancestor ("rolling back
// finalized block").  Fork B wins: its blocks - which replace the abandoned ones at the SAME rounds,
// with other writes, with the same writes or with none at all - are finalized by the real
// finalizeBlock, the chain goes on, and the store is pruned at versions above the replaced rounds.
// The retained blocks are the finalized blocks of the surviving chain.  Until the rollback nothing
// is pruned above the common ancestor (the code prunes PruneStateBelowCount below the LFB; a
// rollback below the pruned version is outside the property: the state it returns to is gone).
func (d *drv) forkTrace(id int, a common.Args) {
	w, c := d.w, d.c
	d.rc.Reset(rec.M{"family": "pruning", "kind": "fork", "id": id, "seed": a.Seed, "steps": a.Steps}, rec.M{"nonces": w.InitNonces(w.Head.ClientState), "round": 0})
	if d.r.Intn(2) == 0 { // the fork does not always start at the trace's first block
		b, ops, synced := d.build(w.Head, 0, d.r.Intn(a.Steps+1), true)
		d.finalize(b, ops, synced, true, "")
		d.prune(b, b.Round)
	}
	anc := w.Head
	ka := 1 + d.r.Intn(2) // finalized blocks of fork A (pruneClientState stays at or below the ancestor)
	var tipA *block.Block
	for i := 0; i <= ka; i++ {
		b, ops, synced := d.build(w.Head, 0, 1+d.r.Intn(a.Steps), i < ka)
		if i == ka {
			tipA = b // notarized, never finalized
			break
		}
		d.finalize(b, ops, synced, false, "/A")
		d.prune(b, anc.Round)
	}
	// fork B: one block per round up to the round of A's tip, by the other generator
	type built struct {
		b      *block.Block
		ops    []string
		synced bool
	}
	var forkB []built
	w.Head = anc
	for q := anc.Round + 1; q <= tipA.Round; q++ {
		n := 0
		if d.r.Intn(2) == 0 {
			n = d.r.Intn(a.Steps + 1)
		}
		b, ops, synced := d.build(w.Head, 1, n, false)
		forkB = append(forkB, built{b, ops, synced})
	}
	plfb := c.GetLatestFinalizedBlock()
	func() {
		ctx, cancel := context.WithTimeout(d.ctx, 20*time.Second)
		defer cancel()
		c.VerifFinalizeRound(ctx, c.GetRound(tipA.Round))
	}()
	lfb := c.GetLatestFinalizedBlock()
	// the abandoned blocks are not part of the finalized chain any more
	keep := d.finals[:0:0]
	for _, f := range d.finals {
		if f.round <= lfb.Round {
			keep = append(keep, f)
		}
	}
	d.finals = keep
	d.rc.Emit(rec.M{"ev": "Rollback", "from": d.rel(plfb.Round), "to": d.rel(lfb.Round), "anc": d.rel(anc.Round),
		"ok": lfb.Hash == anc.Hash && plfb.Hash != anc.Hash}, fmt.Sprintf("rollback/%d", plfb.Round-lfb.Round), true)
	// fork B wins
	for _, x := range forkB {
		w.Head = x.b
		d.finalize(x.b, x.ops, x.synced, false, "/B")
		d.prune(x.b, x.b.Round)
	}
	for i := d.r.Intn(3); i > 0; i-- {
		b, ops, synced := d.build(w.Head, 0, d.r.Intn(a.Steps+1), true)
		d.finalize(b, ops, synced, true, "")
		d.prune(b, b.Round)
	}
	d.closingPrune()
}

// syncedCopy returns a copy of the executed block b whose state was obtained from b's published
// state changes instead of execution (nil if the change set is not accepted).
func (d *drv) syncedCopy(b *block.Block) *block.Block {
	bsc, err := block.NewBlockStateChange(b)
	if err != nil {
		return nil
	}
	recv := block.StateChangeProvider().(*block.StateChange)
	if err := datastore.FromMsgpack(datastore.ToMsgpack(bsc).Bytes(), recv); err != nil {
		return nil
	}
	fb := block.NewBlock(d.c.GetKey(), b.Round)
	fb.Hash, fb.MinerID, fb.CreationDate = b.Hash, b.MinerID, b.CreationDate
	fb.ClientStateHash = append(util.Key{}, b.ClientStateHash...)
	fb.StateChangesCount = b.StateChangesCount
	fb.SetRoundRandomSeed(b.GetRoundRandomSeed())
	fb.SetPreviousBlock(b.PrevBlock)
	if err := d.c.ApplyBlockStateChange(fb, recv); err != nil || !fb.IsStateComputed() {
		return nil
	}
	return fb
}

func (d *drv) emitPrune(via string, v int64, perr string) {
	checked, total := d.check(v)
	// witness that pruning really removes state: nodes of this trace's blocks BELOW the version
	// that are gone now (not constrained by the property)
	var below int64
	for _, f := range d.finals {
		if f.round > d.base && f.round < v {
			m, _ := d.missingIn(f.root, f.round)
			below += m
		}
	}
	shape := via + "/complete"
	if total > 0 {
		shape = via + "/MISSING"
	}
	if below > 0 {
		shape += "/older-state-gone"
	}
	d.rc.Emit(rec.M{"ev": "Prune", "via": via, "v": d.rel(v), "checked": checked, "n_checked": len(checked), "missing": total,
		"below_missing": below, "err": perr}, shape, true)
	if total > 0 {
		d.heal(v)
	}
}

func opShape(ops []string) string {
	ins, del, delins := 0, 0, 0
	for _, o := range ops {
		switch {
		case len(o) > 6 && o[:6] == "delins":
			delins++
		case o[:3] == "ins":
			ins++
		default:
			del++
		}
	}
	return fmt.Sprintf("i%dd%dx%d", min(ins, 2), min(del, 2), min(delins, 2))
}

func min(a, b int) int {
	if a < b {
		return a
	}
	return b
}

func orEmpty(s []string) []string {
	if s == nil {
		return []string{}
	}
	return s
}
