// Package minerworld puts a real miner.Chain on top of the world: memorystore over an in-process
// miniredis (transaction pool), the miner round factory, and miner rounds that can be created and
// driven synchronously by the drivers.
package minerworld

import (
	"context"
	"strconv"

	"0chain.net/chaincore/block"
	"0chain.net/chaincore/chain"
	"0chain.net/chaincore/node"
	"0chain.net/chaincore/round"
	"0chain.net/core/memorystore"
	"0chain.net/miner"

	"github.com/alicebob/miniredis/v2"
	"github.com/gomodule/redigo/redis"

	"verif/harness/rec"
	"verif/harness/world"
)

type MinerWorld struct {
	*world.World
	MC    *miner.Chain
	Redis *miniredis.Miniredis
}

func New(opt world.Options) *MinerWorld {
	mw := &MinerWorld{}
	s, err := miniredis.Run()
	if err != nil {
		rec.Fatal("miniredis: %v", err)
	}
	mw.Redis = s
	port, _ := strconv.Atoi(s.Port())
	memorystore.InitDefaultPool(s.Host(), port)
	for _, n := range []string{"txndb", "clientdb"} {
		memorystore.AddPool(n, &redis.Pool{MaxIdle: 80, MaxActive: 1000, Dial: func() (redis.Conn, error) {
			return redis.Dial("tcp", s.Addr())
		}})
	}
	opt.PreGenesis = func(w *world.World) {
		miner.SetupMinerChain(w.Chain)
		miner.SetupNotarizationEntity()
		// senders/requestors exist (no nil handlers); peers are marked inactive below so nothing is dialled
		miner.SetupM2MSenders()
		miner.SetupM2SSenders()
		miner.SetupM2MRequestors()
		miner.SetupM2SRequestors()
		chain.SetupX2MRequestors()
		chain.SetupX2SRequestors()
		chain.SetupLFBTicketSender()
	}
	opt.PostGenesis = func(w *world.World, gr round.RoundI) {
		mc := miner.GetMinerChain()
		mgr := mc.CreateRound(gr.(*round.Round))
		mc.AddRound(mgr)
	}
	mw.World = world.New(opt)
	mw.MC = miner.GetMinerChain()
	for _, n := range append(append([]*node.Node{}, mw.MinerNodes[1:]...), mw.SharderNodes...) {
		n.SetStatus(node.NodeStatusInactive)
	}
	return mw
}

func (mw *MinerWorld) Close() {
	mw.World.Close()
	mw.Redis.Close()
}

// Ctx returns a context carrying a memorystore connection, as the miner's handlers expect.
func (mw *MinerWorld) Ctx() (context.Context, func()) {
	ctx := memorystore.WithConnection(context.Background())
	return ctx, func() { memorystore.Close(ctx) }
}

// NewRound creates (or returns) the miner round n with the given random seed set.
func (mw *MinerWorld) NewRound(n int64, seed int64) *miner.Round {
	mc := mw.MC
	if mr := mc.GetMinerRound(n); mr != nil {
		return mr
	}
	r := round.NewRound(n)
	mr := mc.CreateRound(r)
	mr = mc.AddRound(mr).(*miner.Round)
	if seed != 0 {
		mc.SetRandomSeed(mr, seed)
	}
	return mr
}

var _ = block.NewBlock
