// Package common holds the driver plumbing shared by every family.
package common

import (
	"encoding/json"
	"flag"
	"math/rand"
	"os"

	"verif/harness/rec"
)

// Args of every driver invocation.
type Args struct {
	Family string
	Prop   string
	Tier   string
	Seed   int64
	Out    string
	N      int    // number of random traces
	Steps  int    // steps per trace
	Only   int    // run only this trace id (replay); 0 = all
	Behav  string // file with TLC-generated behaviours (json lines)
	Extra  string // family-specific
}

func Parse(argv []string) Args {
	var a Args
	fs := flag.NewFlagSet("vdriver", flag.ExitOnError)
	fs.StringVar(&a.Prop, "prop", "", "property id")
	fs.StringVar(&a.Tier, "tier", "quick", "quick|thorough")
	fs.Int64Var(&a.Seed, "seed", 1, "seed")
	fs.StringVar(&a.Out, "out", "", "output dir")
	fs.IntVar(&a.N, "n", 20, "traces")
	fs.IntVar(&a.Steps, "steps", 30, "steps per trace")
	fs.IntVar(&a.Only, "only", 0, "only this trace id")
	fs.StringVar(&a.Behav, "behaviours", "", "TLC behaviours file")
	fs.StringVar(&a.Extra, "extra", "", "family specific")
	a.Family = argv[0]
	fs.Parse(argv[1:])
	if a.Out == "" {
		rec.Fatal("--out required")
	}
	return a
}

var registry = map[string]func(Args){}

// Register is called from each driver package's init().
func Register(family string, f func(Args)) { registry[family] = f }

// Lookup returns the registered driver.
func Lookup(family string) (func(Args), bool) { f, ok := registry[family]; return f, ok }

// TraceRand returns the RNG of one trace: a function of (seed, trace id) only, so that
// a single trace can be re-executed in isolation.
func TraceRand(seed int64, trace int) *rand.Rand {
	return rand.New(rand.NewSource(seed*1000003 + int64(trace)*7919 + 17))
}

// Behaviours reads a json-lines file of TLC-generated behaviours.
func Behaviours(path string) []json.RawMessage {
	if path == "" {
		return nil
	}
	f, err := os.ReadFile(path)
	if err != nil {
		rec.Fatal("behaviours: %v", err)
	}
	var out []json.RawMessage
	dec := json.NewDecoder(bytesReader(f))
	for dec.More() {
		var m json.RawMessage
		if err := dec.Decode(&m); err != nil {
			rec.Fatal("behaviours decode: %v", err)
		}
		out = append(out, m)
	}
	return out
}
