package world

import (
	"context"
	"encoding/json"
	"errors"
	"fmt"
	"net/url"

	cstate "0chain.net/chaincore/chain/state"
	"0chain.net/chaincore/smartcontract"
	"0chain.net/chaincore/state"
	"0chain.net/chaincore/transaction"
	"0chain.net/core/encryption"

	"github.com/0chain/common/core/currency"
	"github.com/0chain/common/core/statecache"
	"github.com/tinylib/msgp/msgp"
)

// The probe contract is the harness' stand-in for "any contract": it does exactly what its payload
// says — writes state nodes (cacheable or not), copies nodes, queues plain and signed transfers in
// the given order, and then succeeds or fails. It is how the nondeterministic contract of
// spec/Ledger.tla (ExecSC_ok / ExecSC_fail with arbitrary queues and partial writes) is bound to the
// real Chain.updateState. It is registered only inside the harness process.

var ProbeAddress = encryption.Hash("verif probe contract")

type ProbeTransfer struct {
	From string `json:"from"`
	To   string `json:"to"`
	Amt  uint64 `json:"amt"`
}

type ProbeWrite struct {
	Key       string `json:"k"`
	Val       int64  `json:"v"`
	Cacheable bool   `json:"c"`
	Delete    bool   `json:"d"`
}

type ProbeCopy struct {
	From string `json:"from"`
	To   string `json:"to"`
}

type ProbeInput struct {
	Writes    []ProbeWrite    `json:"writes"`
	Copies    []ProbeCopy     `json:"copies"` // read From through the state context, write what was read to To
	Transfers []ProbeTransfer `json:"transfers"`
	Signed    []ProbeTransfer `json:"signed"`
	Fail      bool            `json:"fail"`
}

// ProbeVal is a cacheable state value; ProbePlain a non-cacheable one.
type ProbeVal struct{ V int64 }

func (p *ProbeVal) MarshalMsg(b []byte) ([]byte, error) { return msgp.AppendInt64(b, p.V), nil }
func (p *ProbeVal) UnmarshalMsg(b []byte) ([]byte, error) {
	v, o, err := msgp.ReadInt64Bytes(b)
	p.V = v
	return o, err
}
func (p *ProbeVal) Clone() statecache.Value { return &ProbeVal{V: p.V} }
func (p *ProbeVal) CopyFrom(v interface{}) bool {
	if o, ok := v.(*ProbeVal); ok {
		p.V = o.V
		return true
	}
	return false
}

type ProbePlain struct{ V int64 }

func (p *ProbePlain) MarshalMsg(b []byte) ([]byte, error) { return msgp.AppendInt64(b, p.V), nil }
func (p *ProbePlain) UnmarshalMsg(b []byte) ([]byte, error) {
	v, o, err := msgp.ReadInt64Bytes(b)
	p.V = v
	return o, err
}

type probeSC struct{}

func probeKey(k string) string { return ProbeAddress + ":" + k }

func (probeSC) Execute(t *transaction.Transaction, fn string, input []byte, balances cstate.StateContextI) (string, error) {
	if fn != "probe" {
		return "", fmt.Errorf("probe: unknown function %q", fn)
	}
	var in ProbeInput
	if err := json.Unmarshal(input, &in); err != nil {
		return "", fmt.Errorf("probe: bad input: %v", err)
	}
	for _, w := range in.Writes {
		var err error
		switch {
		case w.Delete:
			_, err = balances.DeleteTrieNode(probeKey(w.Key))
		case w.Cacheable:
			_, err = balances.InsertTrieNode(probeKey(w.Key), &ProbeVal{V: w.Val})
		default:
			_, err = balances.InsertTrieNode(probeKey(w.Key), &ProbePlain{V: w.Val})
		}
		if err != nil {
			return "", fmt.Errorf("probe: write %s: %v", w.Key, err)
		}
	}
	out := ""
	for _, c := range in.Copies {
		v := &ProbeVal{}
		if err := balances.GetTrieNode(probeKey(c.From), v); err != nil {
			v.V = -1 // absent
		}
		if _, err := balances.InsertTrieNode(probeKey(c.To), &ProbeVal{V: v.V}); err != nil {
			return "", fmt.Errorf("probe: copy: %v", err)
		}
		out += fmt.Sprintf("%s=%d;", c.From, v.V)
	}
	for _, tr := range in.Transfers {
		if err := balances.AddTransfer(state.NewTransfer(tr.From, tr.To, currency.Coin(tr.Amt))); err != nil {
			return "", fmt.Errorf("probe: add transfer: %v", err)
		}
	}
	for _, tr := range in.Signed {
		balances.AddSignedTransfer(&state.SignedTransfer{Transfer: *state.NewTransfer(tr.From, tr.To, currency.Coin(tr.Amt))})
	}
	if in.Fail {
		return "", errors.New("probe: requested failure")
	}
	return "probe ok " + out, nil
}

func (probeSC) GetHandlerStats(context.Context, url.Values) (interface{}, error) { return nil, nil }
func (probeSC) GetExecutionStats() map[string]interface{}                        { return map[string]interface{}{} }
func (probeSC) GetName() string                                                  { return "probesc" }
func (probeSC) GetAddress() string                                               { return ProbeAddress }
func (probeSC) GetCostTable(cstate.StateContextI) (map[string]int, error) {
	return map[string]int{"probe": 100}, nil
}

func registerProbe() {
	smartcontract.ContractMap[ProbeAddress] = probeSC{}
	Contracts["probesc"] = ProbeAddress
}
