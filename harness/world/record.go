package world

import (
	"os"
	"context"
	"fmt"
	"math/big"
	"sort"
	"time"

	"0chain.net/chaincore/block"
	"github.com/0chain/common/core/statecache"

	"0chain.net/core/config"

	"0chain.net/chaincore/state"
	"0chain.net/chaincore/transaction"
	"0chain.net/core/encryption"
	"0chain.net/smartcontract/dbs/event"
	"0chain.net/smartcontract/minersc"

	"github.com/0chain/common/core/util"
	"verif/harness/rec"
)

// Snap is a full read-back of a block state from the real MPT.
type Snap struct {
	Root   string
	Leaves map[string]Leaf   // client-state leaves by id
	Nodes  map[string]string // every value node: path -> hash(value bytes)
}

func (w *World) Snapshot(s util.MerklePatriciaTrieI) *Snap {
	sn := &Snap{Root: util.ToHex(s.GetRoot()), Leaves: map[string]Leaf{}, Nodes: map[string]string{}}
	err := s.Iterate(context.Background(), func(ctx context.Context, path util.Path, key util.Key, n util.Node) error {
		vn, ok := n.(*util.ValueNode)
		if !ok {
			return nil
		}
		v := vn.GetValueBytes()
		sn.Nodes[string(path)] = encryption.Hash(v)
		if len(path) != 64 || len(v) == 0 {
			return nil
		}
		st := &state.State{}
		if _, err := st.UnmarshalMsg(v); err != nil {
			return nil
		}
		if enc, err := st.MarshalMsg(nil); err != nil || string(enc) != string(v) {
			return nil
		}
		sn.Leaves[string(path)] = Leaf{ID: string(path), Balance: uint64(st.Balance), Nonce: st.Nonce}
		return nil
	}, util.NodeTypeValueNode)
	if err != nil {
		rec.Fatal("snapshot walk failed: %v", err)
	}
	return sn
}

const relCap = int64(1) << 29

// capInt clamps a (possibly huge) unsigned value for TLC's 32-bit integers.
func capU(v uint64) int64 {
	if v > uint64(relCap) {
		return relCap
	}
	return int64(v)
}

type pair struct {
	A string `json:"a"`
	D int64  `json:"d"`
}

func typeName(t int) string {
	switch t {
	case transaction.TxnTypeSend:
		return "send"
	case transaction.TxnTypeData:
		return "data"
	case transaction.TxnTypeSmartContract:
		return "sc"
	}
	return "other"
}

// TxnEvent builds the Ledger-family event of one executed transaction from two snapshots.
func (w *World) TxnEvent(res Result, pre, post *Snap, extra rec.M) (rec.M, string, bool) {
	t := res.Txn
	overflow := false
	var deltas, ndeltas, prebal []pair
	var sumDelta int64
	ids := map[string]bool{}
	for id := range pre.Leaves {
		ids[id] = true
	}
	for id := range post.Leaves {
		ids[id] = true
	}
	sorted := make([]string, 0, len(ids))
	for id := range ids {
		sorted = append(sorted, id)
	}
	sort.Strings(sorted)
	missing := 0
	aboveSupply := false
	preSum, postSum := new(big.Int), new(big.Int)
	for _, lf := range pre.Leaves {
		preSum.Add(preSum, new(big.Int).SetUint64(lf.Balance))
	}
	for _, lf := range post.Leaves {
		postSum.Add(postSum, new(big.Int).SetUint64(lf.Balance))
		if lf.Balance > uint64(config.MaxTokenSupply) {
			aboveSupply = true
		}
	}
	for _, id := range sorted {
		a, inPre := pre.Leaves[id]
		b, inPost := post.Leaves[id]
		if inPre && !inPost {
			missing++
		}
		var d int64
		if b.Balance >= a.Balance {
			if b.Balance-a.Balance > uint64(relCap) {
				overflow = true
				d = relCap
			} else {
				d = int64(b.Balance - a.Balance)
			}
		} else {
			if a.Balance-b.Balance > uint64(relCap) {
				overflow = true
				d = -relCap
			} else {
				d = -int64(a.Balance - b.Balance)
			}
		}
		if d != 0 {
			deltas = append(deltas, pair{w.Name(id), d})
			sumDelta += d
			if d < 0 {
				prebal = append(prebal, pair{w.Name(id), capU(a.Balance)})
			}
		}
		if b.Nonce != a.Nonce {
			ndeltas = append(ndeltas, pair{w.Name(id), b.Nonce - a.Nonce})
		}
	}
	// changed value nodes other than the sender's state leaf and the miner-SC wallet
	changedOther, changedAll := 0, 0
	for p, h := range post.Nodes {
		if pre.Nodes[p] != h {
			changedAll++
			if p != t.ClientID && p != minersc.ADDRESS {
				changedOther++
			}
		}
	}
	for p := range pre.Nodes {
		if _, ok := post.Nodes[p]; !ok {
			changedAll++
			changedOther++
		}
	}
	nErr, nForeign := 0, 0
	for _, e := range res.Events {
		switch {
		case e.Type == event.TypeError:
			nErr++
		case e.Tag == event.TagAddOrOverwriteUser || e.Tag == event.TagUniqueAddress:
		default:
			nForeign++
		}
	}
	if sumDelta > relCap {
		sumDelta = relCap
	} else if sumDelta < -relCap {
		sumDelta = -relCap
	}
	fn := ""
	if t.SmartContractData != nil {
		fn = t.FunctionName
	}
	nonce := t.Nonce
	if nonce > relCap || nonce < -relCap {
		nonce = relCap
	}
	m := rec.M{
		"ev": "Txn", "from": w.Name(t.ClientID), "to": w.Name(t.ToClientID), "type": typeName(t.TransactionType),
		"fn": fn, "value": capU(uint64(t.Value)), "fee": capU(uint64(t.Fee)), "nonce": nonce,
		"class": res.Class, "pre_nonce": pre.Leaves[t.ClientID].Nonce, "post_nonce": post.Leaves[t.ClientID].Nonce,
		"sender_pre_bal": capU(pre.Leaves[t.ClientID].Balance),
		"delta":          orEmpty(deltas), "nonce_delta": orEmpty(ndeltas), "pre_bal": orEmpty(prebal), "sum_delta": sumDelta,
		"overflow": overflow, "sum_equal": preSum.Cmp(postSum) == 0, "above_supply": aboveSupply,
		"sum_is_supply": postSum.Cmp(new(big.Int).SetUint64(uint64(config.MaxTokenSupply))) == 0, "leaves_missing": missing, "changed_other": changedOther, "changed_all": changedAll,
		"n_error_events": nErr, "n_foreign_events": nForeign,
		"signed_ok": []pair{}, "free_tokens": 0, "panic": res.Panic != "",
		"probe": false, "probe_fail": false, "queue": []pair{}, "squeue": []pair{}, "qpre": []pair{},
	}
	for k, v := range extra {
		m[k] = v
	}
	shape := typeName(t.TransactionType) + "/" + fn + "/" + res.Class
	return m, shape, res.Class != "rejected"
}

func orEmpty(p []pair) []pair {
	if p == nil {
		return []pair{}
	}
	return p
}

// ExecRec executes a transaction and records its Ledger event. Snapshots are cached by root.
func (w *World) ExecRec(r *rec.Recorder, t *transaction.Transaction, extra rec.M) Result {
	pre := w.snapCached(w.CurState)
	res := w.Exec(t)
	post := w.snapCached(w.CurState)
	if r != nil {
		w.Rec = r
		if res.Class == "chargeable" {
			w.curChargeable++
		}
		m, shape, nt := w.TxnEvent(res, pre, post, extra)
		r.Emit(m, shape, nt)
	}
	return res
}

func (w *World) DoRec(r *rec.Recorder, ts TxnSpec, extra rec.M) Result {
	return w.ExecRec(r, w.MakeTxn(ts), extra)
}

var lastSnap *Snap

func (w *World) snapCached(s util.MerklePatriciaTrieI) *Snap {
	root := util.ToHex(s.GetRoot())
	if lastSnap != nil && lastSnap.Root == root {
		return lastSnap
	}
	lastSnap = w.Snapshot(s)
	return lastSnap
}

// InitNonces lists (name, nonce) of all leaves: logged by Reset events.
func (w *World) InitNonces(s util.MerklePatriciaTrieI) []pair {
	sn := w.snapCached(s)
	var out []pair
	ids := make([]string, 0, len(sn.Leaves))
	for id := range sn.Leaves {
		ids = append(ids, id)
	}
	sort.Strings(ids)
	for _, id := range ids {
		out = append(out, pair{w.Name(id), sn.Leaves[id].Nonce})
	}
	return out
}

// ---------------------------------------------------------------- twin execution (C02)

// twinBlock re-executes the applied transactions of the block that is being sealed on a fork of the
// same previous block, with every chargeable-failed transaction replaced by a call that can only pay
// its fee (an unknown function of the faucet contract, same sender, nonce and fee). If a failing call
// leaves nothing behind but fee + nonce + error event, both executions are observationally equal:
// same outcome class for every later transaction, same balances and nonces, same contract nodes.
// (Client-state leaves are compared by balance and nonce only: they also store the hash of the last
// transaction that touched them, which legitimately differs for the substituted transactions.)
func (w *World) twinBlock() {
	b := w.Cur
	prev := b.PrevBlock
	if prev == nil || prev.ClientState == nil {
		return
	}
	tw := block.NewBlock(w.Chain.GetKey(), b.Round)
	tw.MinerID = b.MinerID
	tw.SetPreviousBlock(prev)
	tw.Round = b.Round // SetPreviousBlock resets Round to prev.Round+1; drivers may skip rounds
	tw.CreationDate = b.CreationDate
	tw.SetRoundRandomSeed(b.GetRoundRandomSeed())
	tw.Hash = encryption.Hash("twin:" + b.Hash)
	st := block.CreateStateWithPreviousBlock(prev, w.Chain.GetStateDB(), tw.Round)
	bc := statecache.NewBlockCache(w.Chain.GetStateCache(), statecache.Block{Round: tw.Round, Hash: tw.Hash, PrevHash: tw.PrevHash})
	firstDiff, substituted := 0, 0
	classes := true
	for i, t := range b.Txns {
		var c *transaction.Transaction
		if t.Status == transaction.TxnError {
			substituted++
			c = w.MakeTxn(TxnSpec{From: w.Keys[t.ClientID], To: Contracts["faucetsc"], Type: transaction.TxnTypeSmartContract,
				Fn: "verif_twin_no_such_function", Fee: uint64(t.Fee), Nonce: t.Nonce, Time: t.CreationDate})
		} else {
			c = t.Clone()
			c.Status, c.TransactionOutput, c.OutputHash = 0, "", ""
			_ = c.ComputeProperties()
		}
		if w.Keys[t.ClientID] == nil {
			return // sender outside the key ring: cannot build the twin
		}
		ctx, cancel := context.WithTimeout(context.Background(), 30*time.Second)
		_, err := w.Chain.UpdateState(ctx, tw, st, c, bc)
		cancel()
		okA := true // in the real block every listed txn was applied
		okB := err == nil
		sameStatus := okB && ((t.Status == transaction.TxnError) == (c.Status == transaction.TxnError))
		if (okA != okB || !sameStatus) && classes {
			classes = false
			firstDiff = i + 1
			if os.Getenv("VERIF_TWIN_DEBUG") != "" {
				fmt.Fprintf(os.Stderr, "twin diff at %d: fn=%s err=%v status=%d/%d out=%q / %q\n", i, t.FunctionName, err, t.Status, c.Status, t.TransactionOutput, c.TransactionOutput)
			}
		}
	}
	a := w.snapCached(w.CurState)
	bsn := w.Snapshot(st)
	leavesEq, nodesEq := true, true
	for id, la := range a.Leaves {
		lb, ok := bsn.Leaves[id]
		if !ok || la.Balance != lb.Balance || la.Nonce != lb.Nonce {
			leavesEq = false
		}
	}
	if len(a.Leaves) != len(bsn.Leaves) {
		leavesEq = false
	}
	diffNodes := 0
	for p, h := range a.Nodes {
		if _, isLeaf := a.Leaves[p]; isLeaf {
			continue
		}
		if bsn.Nodes[p] != h {
			nodesEq = false
			diffNodes++
		}
	}
	for p := range bsn.Nodes {
		if _, ok := a.Nodes[p]; !ok {
			nodesEq = false
			diffNodes++
		}
	}
	w.Rec.Emit(rec.M{"ev": "BlockTwin", "txns": len(b.Txns), "substituted": substituted, "classes_equal": classes,
		"first_diff": firstDiff, "leaves_equal": leavesEq, "nodes_equal": nodesEq, "diff_nodes": diffNodes},
		fmt.Sprintf("twin/%d/%v", substituted, classes && leavesEq && nodesEq), true)
}
