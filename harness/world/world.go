// Package world bootstraps a REAL 0chain chain (real Chain, real RocksDB-backed state
// store, all contracts, real genesis) in-process and offers a small API to execute
// transactions through the real Chain.UpdateState and to read back the real MPT.
//
// One world per process (the chain, config and node registries are process globals).
package world

import (
	"context"
	"encoding/hex"
	"encoding/json"
	"fmt"
	"os"
	"path/filepath"
	"sort"
	"strings"
	"time"

	"0chain.net/chaincore/block"
	"0chain.net/chaincore/chain"
	"0chain.net/chaincore/client"
	"0chain.net/chaincore/node"
	"0chain.net/chaincore/round"
	"0chain.net/chaincore/smartcontract"
	"0chain.net/chaincore/state"
	"0chain.net/chaincore/transaction"
	"0chain.net/core/common"
	"0chain.net/core/config"
	"0chain.net/core/datastore"
	"0chain.net/core/encryption"
	"0chain.net/core/memorystore"
	"0chain.net/core/viper"
	"0chain.net/smartcontract/dbs/event"
	"0chain.net/smartcontract/faucetsc"
	"0chain.net/smartcontract/minersc"
	"0chain.net/smartcontract/multisigsc"
	"0chain.net/smartcontract/setupsc"
	"0chain.net/smartcontract/storagesc"
	"0chain.net/smartcontract/vestingsc"
	"0chain.net/smartcontract/zcnsc"

	"github.com/0chain/common/core/currency"
	"github.com/0chain/common/core/logging"
	"github.com/0chain/common/core/statecache"
	"github.com/0chain/common/core/util"
	"github.com/herumi/bls-go-binary/bls"
	"go.uber.org/zap"

	"verif/harness/rec"
)

// Key is one identity of the key ring.
type Key struct {
	Name   string // abstract name used in traces (c1, owner, m1 ...)
	ID     string
	Pub    string
	Scheme encryption.SignatureScheme
}

func (k *Key) Sign(hash string) string {
	s, err := k.Scheme.Sign(hash)
	if err != nil {
		panic(err)
	}
	return s
}

// Contract addresses.
var Contracts = map[string]string{
	"minersc":    minersc.ADDRESS,
	"storagesc":  storagesc.ADDRESS,
	"faucetsc":   faucetsc.ADDRESS,
	"vestingsc":  vestingsc.ADDRESS,
	"zcnsc":      zcnsc.ADDRESS,
	"multisigsc": multisigsc.Address,
}

type Options struct {
	Clients      int                    // number of ordinary keyed clients
	Miners       int                    // >= 1
	Sharders     int                    // >= 1
	ClientTokens uint64                 // genesis balance of each client
	PoorBalances []uint64               // additional clients p1.. with these genesis balances
	SCYaml       string                 // path of sc yaml (default: harness/config/sc.yaml)
	ChainYaml    string                 // path of 0chain yaml
	Overrides    map[string]interface{} // viper overrides for 0chain.yaml keys
	SCOverrides  map[string]interface{} // overrides for SmartContractConfig keys
	FeesEnabled  bool
	Quiet        bool
	ExtraGenesis map[string]uint64               // id -> tokens (taken from faucet's share)
	ProbeTokens  uint64                          // genesis balance of the probe contract wallet
	PreGenesis   func(w *World)                  // after the chain object exists, before the magic block / genesis
	PostGenesis  func(w *World, gr round.RoundI) // after genesis was added
}

type World struct {
	Opt                      Options
	Dir                      string
	Chain                    *chain.Chain
	Owner                    *Key
	Clients                  []*Key // rich then poor
	Miners                   []*Key
	Sharders                 []*Key
	MinerNodes, SharderNodes []*node.Node
	Keys                     map[string]*Key // by ID
	ByName                   map[string]*Key
	Genesis                  *block.Block
	MagicBlock               *block.MagicBlock
	Head                     *block.Block // last sealed block
	Cur                      *block.Block // block being built (nil if none)
	CurState                 util.MerklePatriciaTrieI
	CurCache                 *statecache.BlockCache
	Now                      common.Timestamp
	names                    map[string]string // id -> abstract name
	Rec                      *rec.Recorder     // last recorder used by ExecRec (BlockTwin events go there)
	curChargeable            int
	// DirectWrites is set by a driver that changed the current block's state outside a transaction (a direct
	// state-context write); EndBlock then skips the BlockTwin oracle for this block and clears the flag.
	DirectWrites bool
	cancel                   context.CancelFunc
}

// KeySalt varies the deterministic key ring (set from the seed by drivers that want different ids).
var KeySalt = "0"

func harnessDir() string {
	if d := os.Getenv("VERIF_HARNESS_DIR"); d != "" {
		return d
	}
	return "/verif/harness"
}

func newKey(name string) *Key {
	// deterministic key derived from the name (reproducible ids => reproducible traces)
	h := encryption.RawHash("verif-key:" + KeySalt + ":" + name)
	h[31] &= 0x0f
	var sk bls.SecretKey
	if err := sk.SetLittleEndian(h); err != nil {
		panic(err)
	}
	ss := encryption.NewBLS0ChainScheme()
	keys := hex.EncodeToString(sk.GetPublicKey().Serialize()) + "\n" + hex.EncodeToString(sk.GetLittleEndian()) + "\n"
	if err := ss.ReadKeys(strings.NewReader(keys)); err != nil {
		panic(err)
	}
	pub := ss.GetPublicKey()
	pkb, err := hex.DecodeString(pub)
	if err != nil {
		panic(err)
	}
	return &Key{Name: name, ID: encryption.Hash(pkb), Pub: pub, Scheme: ss}
}

// New boots the world. It panics on any bootstrap failure (harness error, exit 2 upstream).
func New(opt Options) *World {
	if opt.Clients == 0 {
		opt.Clients = 6
	}
	if opt.Miners == 0 {
		opt.Miners = 2
	}
	if opt.Sharders == 0 {
		opt.Sharders = 1
	}
	if opt.ClientTokens == 0 {
		opt.ClientTokens = 1e15
	}
	if opt.SCYaml == "" {
		opt.SCYaml = filepath.Join(harnessDir(), "config", "sc.yaml")
	}
	if opt.ChainYaml == "" {
		opt.ChainYaml = filepath.Join(harnessDir(), "config", "0chain.yaml")
	}
	w := &World{Opt: opt, Keys: map[string]*Key{}, ByName: map[string]*Key{}, names: map[string]string{}}
	base := os.Getenv("VERIF_TMP")
	if base == "" {
		base = os.TempDir()
	}
	dir, err := os.MkdirTemp(base, "vworld-")
	if err != nil {
		panic(err)
	}
	w.Dir = dir
	must(os.MkdirAll(filepath.Join(dir, "data", "rocksdb", "state"), 0o755))
	must(os.MkdirAll(filepath.Join(dir, "log"), 0o755))

	w.Owner = newKey("owner")
	w.addKey(w.Owner)

	config.SetupDefaultConfig()
	must(viper.ReadConfigFile(opt.ChainYaml))
	// sc.yaml with the owner id substituted
	raw, err := os.ReadFile(opt.SCYaml)
	must(err)
	scy := strings.ReplaceAll(string(raw), "OWNER_ID", w.Owner.ID)
	scFile := filepath.Join(dir, "sc.yaml")
	must(os.WriteFile(scFile, []byte(scy), 0o644))
	must(config.SmartContractConfig.ReadConfigFile(scFile))
	for _, n := range []string{"faucet", "storage", "zcn", "miner", "multisig", "vesting"} {
		viper.Set("server_chain.smart_contract."+n, true)
	}
	viper.Set("server_chain.owner", w.Owner.ID)
	viper.Set("server_chain.client.signature_scheme", "bls0chain")
	viper.Set("development.state", true)
	for k, v := range opt.Overrides {
		viper.Set(k, v)
	}
	for k, v := range opt.SCOverrides {
		config.SmartContractConfig.Set(k, v)
	}
	config.SetServerChainID("")
	config.Development()
	if opt.Quiet || os.Getenv("VERIF_LOG") == "" {
		logging.Logger = zap.NewNop()
		logging.N2n = zap.NewNop()
		logging.MemUsage = zap.NewNop()
	} else {
		logging.InitLogging("development", dir)
	}
	ctx, cancel := context.WithCancel(context.Background())
	w.cancel = cancel
	common.SetupRootContext(ctx)

	store := memorystore.GetStorageProvider()
	chain.SetupEntity(store, dir)
	round.SetupEntity(store)
	block.SetupEntity(store)
	block.SetupBlockSummaryEntity(store)
	block.SetupStateChange(store)
	client.SetupEntity(store)
	transaction.SetupEntity(store)
	setupsc.SetupSmartContracts()
	registerProbe()

	c := chain.NewChainFromConfig()
	chain.SetServerChain(c)
	c.SetupStateCache()
	go c.StartLFMBWorker(ctx)
	w.Chain = c
	if opt.PreGenesis != nil {
		opt.PreGenesis(w)
	}

	// magic block
	mb := block.NewMagicBlock()
	mb.Miners = node.NewPool(node.NodeTypeMiner)
	mb.Sharders = node.NewPool(node.NodeTypeSharder)
	mb.StartingRound = 0
	mb.MagicBlockNumber = 1
	mkNode := func(k *Key, tp node.NodeType, idx int) *node.Node {
		n := node.Provider()
		n.ID = k.ID
		n.PublicKey = k.Pub
		n.Type = tp
		n.Host = "localhost"
		n.N2NHost = "localhost"
		n.Port = 7000 + idx
		n.SetIndex = idx
		n.Status = node.NodeStatusActive
		n.SetSignatureSchemeType(encryption.SignatureSchemeBls0chain)
		must(n.SetPublicKey(k.Pub))
		node.RegisterNode(n)
		return n
	}
	for i := 0; i < opt.Miners; i++ {
		k := newKey(fmt.Sprintf("m%d", i+1))
		w.addKey(k)
		w.Miners = append(w.Miners, k)
		n := mkNode(k, node.NodeTypeMiner, i)
		must(mb.Miners.AddNode(n))
		w.MinerNodes = append(w.MinerNodes, n)
	}
	for i := 0; i < opt.Sharders; i++ {
		k := newKey(fmt.Sprintf("s%d", i+1))
		w.addKey(k)
		w.Sharders = append(w.Sharders, k)
		n := mkNode(k, node.NodeTypeSharder, 100+i)
		must(mb.Sharders.AddNode(n))
		w.SharderNodes = append(w.SharderNodes, n)
	}
	mb.T = opt.Miners*2/3 + 1
	mb.K = opt.Miners
	mb.N = opt.Miners
	mb.Hash = mb.GetHash()
	node.Self.SetNodeIfPublicKeyIsEqual(w.MinerNodes[0])
	if node.Self.Underlying() == nil || node.Self.Underlying().ID != w.Miners[0].ID {
		sn := node.Self
		sn.Node = w.MinerNodes[0]
	}
	must(node.Self.SetSignatureScheme(w.Miners[0].Scheme))

	// clients
	for i := 0; i < opt.Clients; i++ {
		k := newKey(fmt.Sprintf("c%d", i+1))
		w.addKey(k)
		w.Clients = append(w.Clients, k)
	}
	for i := range opt.PoorBalances {
		k := newKey(fmt.Sprintf("p%d", i+1))
		w.addKey(k)
		w.Clients = append(w.Clients, k)
	}
	for n, a := range Contracts {
		w.names[a] = n
	}

	// genesis distribution: Σ = MaxTokenSupply
	init := state.NewInitStates()
	total := uint64(config.MaxTokenSupply)
	perSC := map[string]uint64{
		minersc.ADDRESS:   total / 10,
		storagesc.ADDRESS: total / 10,
		zcnsc.ADDRESS:     total / 10,
	}
	used := uint64(0)
	for _, v := range perSC {
		used += v
	}
	var fs []state.IDTokens
	fsum := uint64(0)
	add := func(id string, t uint64) {
		fs = append(fs, state.IDTokens{ID: id, Tokens: currency.Coin(t)})
		fsum += t
	}
	add(w.Owner.ID, opt.ClientTokens)
	for i, k := range w.Clients {
		if i < opt.Clients {
			add(k.ID, opt.ClientTokens)
		} else {
			add(k.ID, opt.PoorBalances[i-opt.Clients])
		}
	}
	for _, k := range w.Miners {
		add(k.ID, opt.ClientTokens)
	}
	for _, k := range w.Sharders {
		add(k.ID, opt.ClientTokens)
	}
	if opt.ProbeTokens > 0 {
		add(ProbeAddress, opt.ProbeTokens)
	}
	ids := make([]string, 0, len(opt.ExtraGenesis))
	for id := range opt.ExtraGenesis {
		ids = append(ids, id)
	}
	sort.Strings(ids)
	for _, id := range ids {
		add(id, opt.ExtraGenesis[id])
	}
	for _, a := range []string{minersc.ADDRESS, storagesc.ADDRESS, zcnsc.ADDRESS} {
		init.States = append(init.States, state.InitState{ID: a, Tokens: currency.Coin(perSC[a])})
	}
	init.States = append(init.States, state.InitState{ID: faucetsc.ADDRESS, Tokens: currency.Coin(total - used), State: fs})

	gr, gb := c.GenerateGenesisBlock(encryption.Hash("verif genesis"), mb, init)
	_ = gr
	c.AddGenesisBlock(gb)
	if opt.PostGenesis == nil {
		c.AddRound(gr)
	}
	gb.SetStateStatus(block.StateSuccessful)
	w.Genesis = gb
	w.Head = gb
	w.Now = common.Timestamp(1700000000)
	w.MagicBlock = mb
	if opt.PostGenesis != nil {
		opt.PostGenesis(w, gr)
	}
	rec.ResetHooks = append(rec.ResetHooks, w.ColdCache)
	return w
}

func must(err error) {
	if err != nil {
		panic(err)
	}
}

func (w *World) addKey(k *Key) {
	w.Keys[k.ID] = k
	w.ByName[k.Name] = k
	w.names[k.ID] = k.Name
}

// AddKey registers an externally created identity (e.g. a blobber) under a name.
func (w *World) NewKey(name string) *Key {
	k := newKey(name)
	w.addKey(k)
	return k
}

// Name maps an id to its abstract name ("?<prefix>" if unknown).
func (w *World) Name(id string) string {
	if n, ok := w.names[id]; ok {
		return n
	}
	if len(id) > 8 {
		return "?" + id[:8]
	}
	return "?" + id
}

func (w *World) SetName(id, name string) { w.names[id] = name }

func (w *World) Close() {
	if w.cancel != nil {
		w.cancel()
	}
	time.Sleep(10 * time.Millisecond)
	chain.CloseStateDB()
	os.RemoveAll(w.Dir)
}

// ---------------------------------------------------------------- blocks

// BeginBlock starts a block on top of Head (or of `on` if given: forks / resets).
func (w *World) BeginBlock(on ...*block.Block) *block.Block {
	prev := w.Head
	if len(on) > 0 && on[0] != nil {
		prev = on[0]
	}
	b := block.NewBlock(w.Chain.GetKey(), prev.Round+1)
	b.MinerID = w.Miners[0].ID
	b.SetPreviousBlock(prev)
	w.Now += 5
	b.CreationDate = w.Now
	b.Hash = encryption.Hash(fmt.Sprintf("blk:%s:%d:%d", prev.Hash, b.Round, w.Now))
	b.SetRoundRandomSeed(int64(b.Round)*7919 + 13)
	w.Cur = b
	w.CurState = block.CreateStateWithPreviousBlock(prev, w.Chain.GetStateDB(), b.Round)
	w.CurCache = statecache.NewBlockCache(w.Chain.GetStateCache(), statecache.Block{Round: b.Round, Hash: b.Hash, PrevHash: b.PrevHash})
	b.Events = nil
	return b
}

// ColdCache gives the chain a fresh (empty) state cache, as a node has after a restart. Every trace starts
// with one (world.New registers it in rec.ResetHooks): the harness forks hundreds of histories from one base block, while the
// cache keeps only the last 200 blocks' values per key and, on a miss in a block, falls through to older
// ancestors - after enough sibling forks the base block's entry is evicted and a still older ancestor's value
// would be served to the new fork. That is an artefact of the fan-out (a real fork that old is long finalised
// away), so a history never inherits cache contents from its siblings.
func (w *World) ColdCache() { w.Chain.SetupStateCache() }

// EndBlock seals the current block: sets its state, makes it the head.
func (w *World) EndBlock() *block.Block {
	b := w.Cur
	if w.Rec != nil && w.curChargeable > 0 && !w.DirectWrites && os.Getenv("VERIF_NO_TWIN") == "" {
		w.twinBlock()
	}
	w.curChargeable = 0
	w.DirectWrites = false
	b.ClientState = w.CurState
	b.ClientStateHash = w.CurState.GetRoot()
	b.SetStateStatus(block.StateSuccessful)
	w.CurCache.Commit()
	w.Head = b
	w.Cur = nil
	return b
}

// ---------------------------------------------------------------- transactions

type TxnSpec struct {
	From  *Key
	To    string // client id or contract address
	Type  int
	Fn    string
	Input interface{} // marshalled to JSON unless RawInput != nil
	Raw   []byte
	Value uint64
	Fee   uint64
	Nonce int64 // 0 => state nonce + 1
	Time  common.Timestamp
}

// Result of executing a transaction through Chain.UpdateState
type Result struct {
	Txn    *transaction.Transaction
	Class  string // "ok" | "chargeable" | "rejected"
	Err    string
	Output string
	Events []event.Event
	Panic  string
}

func (w *World) StateNonce(id string) int64 {
	s, err := chain.GetStateById(w.stateForRead(), id)
	if err != nil || s == nil {
		return 0
	}
	return s.Nonce
}

func (w *World) stateForRead() util.MerklePatriciaTrieI {
	if w.Cur != nil {
		return w.CurState
	}
	return w.Head.ClientState
}

func (w *World) Balance(id string) uint64 {
	s, err := chain.GetStateById(w.stateForRead(), id)
	if err != nil || s == nil {
		return 0
	}
	return uint64(s.Balance)
}

func (w *World) MakeTxn(ts TxnSpec) *transaction.Transaction {
	t := &transaction.Transaction{}
	t.Version = "1.0"
	t.ClientID = ts.From.ID
	t.PublicKey = ts.From.Pub
	t.ToClientID = ts.To
	t.ChainID = config.GetServerChainID()
	t.Value = currency.Coin(ts.Value)
	t.Fee = currency.Coin(ts.Fee)
	t.TransactionType = ts.Type
	t.CreationDate = ts.Time
	if t.CreationDate == 0 {
		t.CreationDate = w.Now
	}
	t.Nonce = ts.Nonce
	if t.Nonce == 0 {
		t.Nonce = w.StateNonce(ts.From.ID) + 1
	}
	if ts.Type == transaction.TxnTypeSmartContract {
		var in []byte
		if ts.Raw != nil {
			in = ts.Raw
		} else if ts.Input != nil {
			var err error
			in, err = json.Marshal(ts.Input)
			must(err)
		} else {
			in = []byte("{}")
		}
		scd := transaction.SmartContractData{FunctionName: ts.Fn, InputData: in}
		d, err := json.Marshal(scd)
		must(err)
		t.TransactionData = string(d)
	} else if ts.Raw != nil {
		t.TransactionData = string(ts.Raw)
	}
	t.Hash = t.ComputeHash()
	t.Signature = ts.From.Sign(t.Hash)
	if err := t.ComputeProperties(); err != nil {
		// invalid SC data: keep going, UpdateState will be driven anyway
		t.SmartContractData = &transaction.SmartContractData{FunctionName: ts.Fn}
	}
	return t
}

// Exec runs the transaction through the real Chain.UpdateState on the current block.
func (w *World) Exec(t *transaction.Transaction) (res Result) {
	if w.Cur == nil {
		panic("Exec outside a block")
	}
	res.Txn = t
	defer func() {
		if r := recover(); r != nil {
			res.Panic = fmt.Sprint(r)
			res.Class = "panic"
		}
	}()
	ctx, cancel := context.WithTimeout(context.Background(), 30*time.Second)
	defer cancel()
	evs, err := w.Chain.UpdateState(ctx, w.Cur, w.CurState, t, w.CurCache)
	if err != nil {
		res.Class = "rejected"
		res.Err = err.Error()
		return
	}
	res.Events = evs
	res.Output = t.TransactionOutput
	if t.Status == transaction.TxnError {
		res.Class = "chargeable"
		res.Err = t.TransactionOutput
	} else {
		res.Class = "ok"
	}
	w.Cur.Txns = append(w.Cur.Txns, t)
	w.Cur.Events = append(w.Cur.Events, evs...)
	return
}

// Do = MakeTxn + Exec.
func (w *World) Do(ts TxnSpec) Result { return w.Exec(w.MakeTxn(ts)) }

// SC is a shortcut for a smart-contract call.
func (w *World) SC(from *Key, sc, fn string, input interface{}, value, fee uint64) Result {
	return w.Do(TxnSpec{From: from, To: Contracts[sc], Type: transaction.TxnTypeSmartContract, Fn: fn, Input: input, Value: value, Fee: fee})
}

// ---------------------------------------------------------------- projections

// Leaf is one client-state leaf of the block MPT.
type Leaf struct {
	ID      string
	Balance uint64
	Nonce   int64
}

// Leaves walks ALL value nodes of the given state whose path is a 64-hex client id and that decode as state.State.
func (w *World) Leaves(s util.MerklePatriciaTrieI) []Leaf {
	var out []Leaf
	err := s.Iterate(context.Background(), func(ctx context.Context, path util.Path, key util.Key, n util.Node) error {
		vn, ok := n.(*util.ValueNode)
		if !ok {
			return nil
		}
		if len(path) != 64 {
			return nil
		}
		st := &state.State{}
		v := vn.GetValueBytes()
		if len(v) == 0 {
			return nil
		}
		if _, err := st.UnmarshalMsg(v); err != nil {
			return nil
		}
		// a client-state leaf re-encodes to the same bytes
		if enc, err := st.MarshalMsg(nil); err != nil || string(enc) != string(v) {
			return nil
		}
		out = append(out, Leaf{ID: string(path), Balance: uint64(st.Balance), Nonce: st.Nonce})
		return nil
	}, util.NodeTypeValueNode)
	if err != nil {
		panic(fmt.Sprintf("leaf walk: %v", err))
	}
	return out
}

// NodeMap returns path -> hex(hash of value bytes) for every value node of the state.
func (w *World) NodeMap(s util.MerklePatriciaTrieI) map[string]string {
	out := map[string]string{}
	err := s.Iterate(context.Background(), func(ctx context.Context, path util.Path, key util.Key, n util.Node) error {
		vn, ok := n.(*util.ValueNode)
		if !ok {
			return nil
		}
		out[string(path)] = encryption.Hash(vn.GetValueBytes())
		return nil
	}, util.NodeTypeValueNode)
	if err != nil {
		panic(fmt.Sprintf("node walk: %v", err))
	}
	return out
}

// CostTable returns sc -> function names registered by the contract (from the cost tables).
func (w *World) FunctionNames() map[string][]string {
	b := w.Head
	tbc := statecache.NewTransactionCache(statecache.NewQueryBlockCache(w.Chain.GetStateCache(), b.Hash))
	cs := chain.CreateTxnMPT(b.ClientState, tbc)
	sctx := w.Chain.NewStateContext(b, cs, &transaction.Transaction{}, nil)
	table := smartcontract.GetTransactionCostTable(sctx)
	out := map[string][]string{}
	for sc, t := range table {
		for f := range t {
			out[sc] = append(out[sc], f)
		}
		sort.Strings(out[sc])
	}
	return out
}

var _ = datastore.Key("")
