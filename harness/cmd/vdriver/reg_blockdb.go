//go:build fam_blockdb || fam_all

package main

import _ "verif/harness/drivers/blockdb"
