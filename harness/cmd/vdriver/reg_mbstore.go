//go:build fam_mbstore || fam_all

package main

import _ "verif/harness/drivers/mbstore"
