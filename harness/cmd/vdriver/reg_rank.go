//go:build fam_rank || fam_all

package main

import _ "verif/harness/drivers/rank"
