//go:build fam_ledger || fam_all

package main

import _ "verif/harness/drivers/ledger"
