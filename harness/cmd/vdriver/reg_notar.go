//go:build fam_notar || fam_all

package main

import _ "verif/harness/drivers/notar"
