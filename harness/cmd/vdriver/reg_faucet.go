//go:build fam_faucet || fam_all

package main

import _ "verif/harness/drivers/faucet"
