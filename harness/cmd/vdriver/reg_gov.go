//go:build fam_gov || fam_all

package main

import _ "verif/harness/drivers/gov"
