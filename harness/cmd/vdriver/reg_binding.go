//go:build fam_binding || fam_all

package main

import _ "verif/harness/drivers/binding"
