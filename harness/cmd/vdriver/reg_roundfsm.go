//go:build fam_roundfsm || fam_all

package main

import _ "verif/harness/drivers/roundfsm"
