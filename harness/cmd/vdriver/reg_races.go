//go:build fam_races || fam_all

package main

import _ "verif/harness/drivers/races"
