//go:build fam_crypto || fam_all

package main

import _ "verif/harness/drivers/crypto"
