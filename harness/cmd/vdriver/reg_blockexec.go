//go:build fam_blockexec || fam_all

package main

import _ "verif/harness/drivers/blockexec"
