//go:build fam_vesting || fam_all

package main

import _ "verif/harness/drivers/vesting"
