//go:build fam_orderbuffer || fam_all

package main

import _ "verif/harness/drivers/orderbuffer"
