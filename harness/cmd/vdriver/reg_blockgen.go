//go:build fam_blockgen || fam_all

package main

import _ "verif/harness/drivers/blockgen"
