//go:build fam_multisig || fam_all

package main

import _ "verif/harness/drivers/multisig"
