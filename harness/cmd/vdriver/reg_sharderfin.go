//go:build fam_sharderfin || fam_all

package main

import _ "verif/harness/drivers/sharderfin"
