//go:build fam_activation || fam_all

package main

import _ "verif/harness/drivers/activation"
