//go:build fam_pruning || fam_all

package main

import _ "verif/harness/drivers/pruning"
