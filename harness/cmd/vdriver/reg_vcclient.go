//go:build fam_vcclient || fam_all

package main

import _ "verif/harness/drivers/vcclient"
