//go:build fam_storage || fam_all

package main

import _ "verif/harness/drivers/storage"
