//go:build fam_lfbticket || fam_all

package main

import _ "verif/harness/drivers/lfbticket"
