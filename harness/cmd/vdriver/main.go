// vdriver runs one family's driver against the real code built from /repo's working tree.
package main

import (
	"fmt"
	"os"

	"verif/harness/common"
	"verif/harness/drivers/ledger"
)

var families = map[string]func(common.Args){
	"ledger": ledger.Run,
}

func main() {
	if len(os.Args) < 2 {
		fmt.Fprintln(os.Stderr, "usage: vdriver <family> --out DIR [flags]")
		os.Exit(2)
	}
	f, ok := families[os.Args[1]]
	if !ok {
		fmt.Fprintln(os.Stderr, "unknown family", os.Args[1])
		os.Exit(2)
	}
	defer func() {
		if r := recover(); r != nil {
			fmt.Fprintf(os.Stderr, "HARNESS-ERROR: driver panic: %v\n", r)
			panic(r)
		}
	}()
	f(common.Parse(os.Args[1:]))
}
