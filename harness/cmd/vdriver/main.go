// vdriver runs one family's driver against the real code built from /repo's working tree.
// Families register themselves (common.Register) and are linked in by cmd/vdriver/reg_<family>.go,
// each guarded by the build tag fam_<family> so that one broken family cannot break the others.
package main

import (
	"fmt"
	"os"

	"verif/harness/common"
)

func main() {
	if len(os.Args) < 2 {
		fmt.Fprintln(os.Stderr, "usage: vdriver <family> --out DIR [flags]")
		os.Exit(2)
	}
	f, ok := common.Lookup(os.Args[1])
	if !ok {
		fmt.Fprintln(os.Stderr, "unknown family (not linked in?):", os.Args[1])
		os.Exit(2)
	}
	f(common.Parse(os.Args[1:]))
}
