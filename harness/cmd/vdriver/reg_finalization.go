//go:build fam_finalization || fam_all

package main

import _ "verif/harness/drivers/finalization"
