//go:build fam_bridge || fam_all

package main

import _ "verif/harness/drivers/bridge"
