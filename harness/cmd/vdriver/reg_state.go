//go:build fam_state || fam_all

package main

import _ "verif/harness/drivers/state"
