//go:build fam_stake || fam_all

package main

import _ "verif/harness/drivers/stake"
