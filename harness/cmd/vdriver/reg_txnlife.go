//go:build fam_txnlife || fam_all

package main

import _ "verif/harness/drivers/txnlife"
