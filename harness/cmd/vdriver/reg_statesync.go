//go:build fam_statesync || fam_all

package main

import _ "verif/harness/drivers/statesync"
