//go:build fam_roundtrace || fam_all

package main

import _ "verif/harness/drivers/roundtrace"
