//go:build fam_partitions || fam_all

package main

import _ "verif/harness/drivers/partitions"
