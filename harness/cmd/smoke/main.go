package main

import (
	"fmt"

	"0chain.net/chaincore/transaction"
	"verif/harness/world"
)

func main() {
	w := world.New(world.Options{})
	defer w.Close()
	fmt.Println("functions:", w.FunctionNames())
	w.BeginBlock()
	c1, c2 := w.Clients[0], w.Clients[1]
	sum := func() (s uint64, n int) {
		for _, l := range w.Leaves(w.CurState) {
			s += l.Balance
			n++
		}
		return
	}
	s0, n0 := sum()
	fmt.Println("sum0", s0, n0)
	r := w.Do(world.TxnSpec{From: c1, To: c2.ID, Type: transaction.TxnTypeSend, Value: 100, Fee: 7})
	fmt.Println("send:", r.Class, r.Err, w.Balance(c1.ID), w.Balance(c2.ID))
	r = w.SC(c1, "faucetsc", "pour", nil, 10, 5)
	fmt.Println("pour:", r.Class, r.Err, r.Output, w.Balance(c1.ID))
	r = w.SC(c1, "faucetsc", "nope", nil, 0, 5)
	fmt.Println("nope:", r.Class, r.Err, w.Balance(c1.ID), w.StateNonce(c1.ID))
	s1, n1 := sum()
	fmt.Println("sum1", s1, n1, s1 == s0)
	w.EndBlock()
}
