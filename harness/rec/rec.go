// Package rec records ndjson traces of real executions and the summary the evidence needs.
package rec

import (
	"bufio"
	"encoding/json"
	"fmt"
	"os"
	"path/filepath"
	"sort"
	"strings"
)

// M is one event.
type M map[string]interface{}

type Recorder struct {
	dir           string
	f             *os.File
	w             *bufio.Writer
	Line          int
	TraceID       int
	traces        []M // index: trace id, first line, scenario
	Actions       map[string]int
	classes       map[string]int // distinct (shape,outcome) classes among nontrivial traces
	curShape      []string
	curNontrivial bool
	samples       []interface{}
	curSample     []M
	MaxSamples    int
	Extra         M
}

func New(dir string) *Recorder {
	if err := os.MkdirAll(dir, 0o755); err != nil {
		panic(err)
	}
	f, err := os.Create(filepath.Join(dir, "trace.ndjson"))
	if err != nil {
		panic(err)
	}
	return &Recorder{dir: dir, f: f, w: bufio.NewWriterSize(f, 1<<20), Actions: map[string]int{}, classes: map[string]int{}, MaxSamples: 3, Extra: M{}}
}

func (r *Recorder) write(m M) {
	b, err := json.Marshal(m)
	if err != nil {
		panic(err)
	}
	r.w.Write(b)
	r.w.WriteByte('\n')
	r.Line++
}

// Reset starts a new trace. scenario must be enough to re-run exactly this trace.
// ResetHooks run at the start of every trace (worlds register their per-trace hygiene here, e.g. a cold
// state cache: see world.ColdCache).
var ResetHooks []func()

func (r *Recorder) Reset(scenario M, fields M) {
	for _, h := range ResetHooks {
		h()
	}
	r.closeTrace()
	r.TraceID++
	m := M{"ev": "Reset", "trace": r.TraceID}
	for k, v := range fields {
		m[k] = v
	}
	r.write(m)
	r.traces = append(r.traces, M{"trace": r.TraceID, "line": r.Line, "scenario": scenario})
	r.curShape = nil
	r.curNontrivial = false
	r.curSample = []M{m}
}

// Emit writes one event. shape is the (action,outcome) label used for the distinct-class count;
// nontrivial says whether the step changed state.
func (r *Recorder) Emit(m M, shape string, nontrivial bool) {
	m["trace"] = r.TraceID
	r.write(m)
	if ev, ok := m["ev"].(string); ok {
		r.Actions[ev+":"+shape]++
	}
	r.curShape = append(r.curShape, shape)
	if nontrivial {
		r.curNontrivial = true
	}
	if len(r.curSample) < 12 {
		r.curSample = append(r.curSample, m)
	}
}

func (r *Recorder) closeTrace() {
	if r.TraceID == 0 {
		return
	}
	if r.curNontrivial {
		r.classes[strings.Join(r.curShape, ",")]++
	}
	if len(r.samples) < r.MaxSamples && len(r.curSample) > 1 {
		r.samples = append(r.samples, r.curSample)
	}
}

// Close flushes and writes summary.json.
func (r *Recorder) Close() {
	r.closeTrace()
	r.w.Flush()
	r.f.Close()
	keys := make([]string, 0, len(r.Actions))
	for k := range r.Actions {
		keys = append(keys, k)
	}
	sort.Strings(keys)
	sum := M{
		"traces":              r.TraceID,
		"events":              r.Line,
		"distinct_nontrivial": len(r.classes),
		"action_counts":       r.Actions,
		"samples":             r.samples,
		"trace_index":         r.traces,
	}
	for k, v := range r.Extra {
		sum[k] = v
	}
	b, _ := json.MarshalIndent(sum, "", " ")
	if err := os.WriteFile(filepath.Join(r.dir, "summary.json"), b, 0o644); err != nil {
		panic(err)
	}
}

func Fatal(format string, a ...interface{}) {
	fmt.Fprintf(os.Stderr, "HARNESS-ERROR: "+format+"\n", a...)
	os.Exit(2)
}
