---------------------------- MODULE MC_OrderBuffer ----------------------------
(* Exhaustive exploration of OrderBuffer: the reachable graph is finite for   *)
(* finite Rounds/Ids/Caps (the buffer never exceeds cap), so TLC covers EVERY  *)
(* history of Add/First/Pop over these blocks, not only histories up to a      *)
(* depth.                                                                      *)
EXTENDS OrderBuffer
A_Add == \E x \in Block : Add(x)
A_First == First
A_Pop == Pop
MCNext == A_Add \/ A_First \/ A_Pop
MCSpec == Init /\ [][MCNext]_vars
=============================================================================
