SPECIFICATION MCSpec
CONSTANTS
  Alloc = {"a1"}
  Blob = {"b1","b2"}
  Client = {"c1","c2"}
  M = 4
  Cap = 2
  ChargeCap = 1
  NBlob = 1
  Price = 2
  MaxCtr = 4
  IndLimit = 2
  TotLimit = 3
  Nonce = {1, 2}
  Groups = {"read"}
  SavePoolOnKilledReplace = TRUE
  RefreshZeroesOffers = FALSE
INVARIANTS TypeOK C15_ChargedOnce C09_Covered
PROPERTIES C15_Monotone C15_Accept C09_Backed
CHECK_DEADLOCK FALSE
