---------------------------- MODULE MC_LFBTicket ----------------------------
EXTENDS LFBTicket
A_HandleAccept == /\ inputs < MaxInputs
                  /\ \E t \in Received : HandleAccept(t)
A_HandleReject == /\ inputs < MaxInputs
                  /\ \E t \in Received : HandleReject(t)
A_Kick == /\ inputs < MaxInputs
          /\ \E r \in 1..MaxRound : Kick(r)
A_Broadcast == /\ inputs < MaxInputs
               /\ \E r \in 1..MaxRound : Broadcast(r)
A_WorkerUpdate == /\ recvq # <<>>
                  /\ WorkerUpdate
A_WorkerBroadcast == /\ bcastq # <<>>
                     /\ WorkerBroadcast
MCNext == A_HandleAccept \/ A_HandleReject \/ A_Kick \/ A_Broadcast \/ A_WorkerUpdate \/ A_WorkerBroadcast
MCSpec == Init /\ [][MCNext]_vars
=============================================================================
