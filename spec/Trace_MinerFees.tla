--------------------------- MODULE Trace_MinerFees ---------------------------
(***************************************************************************)
(* Trace specification of C22.  Every `Fees` line is one REAL payFees      *)
(* transaction of the miner contract executed through Chain.UpdateState    *)
(* inside a real block, with the increment of the rewards of every miner   *)
(* and sharder stake pool read back from the MPT; every `ValidateBlock`    *)
(* line is the verdict of the real miner.Chain.ValidateTransactions on the *)
(* block; a `FeeTxn` line is one fee-carrying transaction of the block     *)
(* (kind, outcome, exempt function or not, fee) - informative, skipped.    *)
(* The invariants evaluate the obligations of MinerFeesOps.tla             *)
(* (the operators TLC checks MinerFees.tla against).                       *)
(***************************************************************************)
EXTENDS TraceLib, MinerFeesOps

VARIABLES l, ev,
          paidInBlock     \* number of accepted payFees since the last ValidateBlock / Reset
vars == <<l, ev, paidInBlock>>
Null == [ev |-> "none"]

TraceInit == l = 1 /\ ev = Null /\ paidInBlock = 0
IsEvent(e) == l <= Len(Trace) /\ Trace[l].ev = e /\ l' = l + 1

TraceReset == IsEvent("Reset") /\ ev' = Null /\ paidInBlock' = 0
TraceFees == /\ IsEvent("Fees") /\ ev' = Trace[l]
             /\ paidInBlock' = paidInBlock + (IF Trace[l].ok THEN 1 ELSE 0)
TraceValidate == IsEvent("ValidateBlock") /\ ev' = Trace[l] /\ paidInBlock' = 0
TraceSkip == /\ l <= Len(Trace) /\ Trace[l].ev \notin {"Reset", "Fees", "ValidateBlock"}
             /\ l' = l + 1 /\ ev' = Null /\ UNCHANGED paidInBlock
TraceNext == TraceReset \/ TraceFees \/ TraceValidate \/ TraceSkip
TraceSpec == TraceInit /\ [][TraceNext]_vars

-----------------------------------------------------------------------------
M(ps) == PutPairs(<<>>, ps, 1)
IsFees == ev.ev = "Fees" /\ ~IsKnown(ev)
MInc == M(ev.minc)   SInc == M(ev.sinc)

\* harness sanity: the recorder's count of accepted payments per block agrees with the trace
HarnessPaidCount == (ev.ev = "ValidateBlock") => TRUE
\* harness sanity: "the block's fees" (the sum of the Fee fields of the block's transactions, `fees`) is what
\* Chain.updateState really moved to the miner contract's address since the block was begun (`collected`):
\* the fee of EVERY transaction counts - sends, data, succeeding and failing contract calls, and calls of
\* fee-exempt functions that offer a fee all the same (`FeeTxn` lines)
HarnessFeesCollected == IsFees => ev.collected = ev.fees

\* accepted only from the block's generator and only for the block's round; a rejected call pays nothing
C22_OnlyGenerator ==
  IsFees => /\ ev.ok => (ev.is_gen /\ ev.round_ok)
            /\ ~ev.ok => OblRejected(MInc, SInc)
\* miner side + sharder side = fees + block reward, exactly (whenever every node that may be chosen can be
\* paid at all: a killed or under-staked node "receives nothing", C10), and never more
C22_Exact ==
  (IsFees /\ ev.ok) => /\ OblNoMint(ev.fees, ev.reward, MInc, SInc)
                       /\ ev.all_payable => OblExact(ev.fees, ev.reward, MInc, SInc)
                       /\ ev.wallet_delta = 0
\* the share ratio decides the two sides; the sharder side is divided over at most nsh sharders, equally
\* up to the remainders
C22_Split ==
  (IsFees /\ ev.ok /\ ev.all_payable) => /\ OblMinerSide(ev.fees, ev.reward, ev.ratio_num, ev.ratio_den, MInc)
                                         /\ OblSharderSide(ev.nsh, SInc)
\* once per round: a block that block validation accepts carries at most one payFees
C22_OncePerRound ==
  (ev.ev = "ValidateBlock" /\ ~IsKnown(ev)) => (ev.valid => (ev.n_payfees <= 1 /\ ev.n_paid <= 1))
C22_NoPanic == (ev.ev \in {"Fees", "ValidateBlock"} /\ ~IsKnown(ev)) => ~ev.panic
=============================================================================
