---------------------------- MODULE Trace_Binding ----------------------------
(***************************************************************************)
(* Trace spec for C29 / C30 / C47.  Each `Validate` event is one real      *)
(* object (transaction or block) to which the tamper steps of one TLC      *)
(* behaviour of Binding.tla were applied, with the verdict of the REAL     *)
(* validation path.  The trace action replays the same steps on the        *)
(* abstract object; the invariants compare the real verdict with the       *)
(* spec's.  `Sig` events are entries of SigSchemes' decision table.        *)
(***************************************************************************)
EXTENDS TraceLib

TxMust == {"time", "nonce", "sender", "recipient", "value", "data", "fee", "type"}
BlMust == {"sender", "parent", "round", "seed", "txns", "outputs", "state", "magicblock"}

VARIABLES l, ev, alt, cid, pub, hashed, sigKey, sigHash, sigBroken, dup, ntx, dupAt
vars == <<l, ev, alt, cid, pub, hashed, sigKey, sigHash, sigBroken, dup, ntx, dupAt>>
Null == [ev |-> "none"]

\* Binding!Duplicate(n, i): the step name MC_Binding!DupName gives it, for blocks of up to MaxN transactions
MaxN == 8
DupName(n, i) == "Duplicate:" \o ToString(n) \o ":" \o ToString(i)
DupShapes == {sh \in (1..MaxN) \X (1..MaxN) : sh[2] <= sh[1]}
DupNames == {DupName(sh[1], sh[2]) : sh \in DupShapes}
IsDup(st) == st \in DupNames
ShapeOf(st) == CHOOSE sh \in DupShapes : st = DupName(sh[1], sh[2])
\* Binding!MerkleNeutral: the last transaction of an odd-sized block repeated = what the Merkle padding does anyway
MerkleNeutral(n, i) == i = n /\ n % 2 = 1


Must(kind) == IF kind = "txn" THEN TxMust ELSE BlMust
Altered(a, c) == a \cup (IF c = "victim" THEN {} ELSE {"sender"})

\* apply one tamper step of Binding.tla to the abstract object s
ApplyStep(s, st, kind) ==
  LET must == Must(kind) IN
  CASE st = "SetSender" -> [s EXCEPT !.cid = "attacker", !.pub = IF kind = "txn" THEN s.pub ELSE "attacker"]
    [] st = "SetPub"    -> [s EXCEPT !.pub = "attacker"]
    [] st = "Rehash"    -> [s EXCEPT !.hashed = Altered(s.alt, s.cid) \cap must]
    [] st = "Resign"    -> [s EXCEPT !.sigKey = "attacker", !.sigHash = s.hashed, !.sigBroken = FALSE]
    [] st = "BreakSig"  -> [s EXCEPT !.sigBroken = TRUE]
    [] IsDup(st)        -> LET sh == ShapeOf(st) IN
                           [s EXCEPT !.dup = TRUE, !.ntx = sh[1], !.dupAt = sh[2],
                                     !.alt = IF MerkleNeutral(sh[1], sh[2]) THEN s.alt ELSE s.alt \cup {"txns"}]
    [] OTHER            -> [s EXCEPT !.alt = s.alt \cup {st}]

RECURSIVE ApplyAll(_, _, _, _)
ApplyAll(s, steps, i, kind) == IF i > Len(steps) THEN s ELSE ApplyAll(ApplyStep(s, steps[i], kind), steps, i + 1, kind)

Fresh == [alt |-> {}, cid |-> "victim", pub |-> "victim", hashed |-> {}, sigKey |-> "victim",
          sigHash |-> {}, sigBroken |-> FALSE, dup |-> FALSE, ntx |-> 0, dupAt |-> 0]

TraceInit == /\ l = 1 /\ ev = Null /\ alt = {} /\ cid = "victim" /\ pub = "victim" /\ hashed = {}
             /\ sigKey = "victim" /\ sigHash = {} /\ sigBroken = FALSE /\ dup = FALSE /\ ntx = 0 /\ dupAt = 0

TraceValidate ==
  /\ l <= Len(Trace) /\ Trace[l].ev = "Validate" /\ l' = l + 1
  /\ LET e == Trace[l]
         s == ApplyAll(Fresh, e.steps, 1, e.kind) IN
       /\ ev' = e /\ alt' = s.alt /\ cid' = s.cid /\ pub' = s.pub /\ hashed' = s.hashed
       /\ sigKey' = s.sigKey /\ sigHash' = s.sigHash /\ sigBroken' = s.sigBroken /\ dup' = s.dup
       /\ ntx' = s.ntx /\ dupAt' = s.dupAt

TraceOther ==
  /\ l <= Len(Trace) /\ Trace[l].ev # "Validate" /\ l' = l + 1 /\ ev' = Trace[l]
  /\ UNCHANGED <<alt, cid, pub, hashed, sigKey, sigHash, sigBroken, dup, ntx, dupAt>>

TraceNext == TraceValidate \/ TraceOther
TraceSpec == TraceInit /\ [][TraceNext]_vars

IsV(kind) == ev.ev = "Validate" /\ ev.kind = kind /\ ~IsKnown(ev)
\* the receiver's verdict when the hash covers every must-bind field (Binding!Valid with HashInput = MustBind)
ValidIntended(kind) ==
  /\ hashed = Altered(alt, cid) \cap Must(kind)
  /\ sigHash = hashed /\ ~sigBroken /\ sigKey = pub
  /\ (kind = "txn" => pub = cid)
  /\ ~dup
IsGenuine == alt = {} /\ cid = "victim" /\ pub = "victim" /\ hashed = {} /\ sigKey = "victim" /\ ~sigBroken /\ ~dup

(* C30: whatever the real validation path accepts is valid under the intended binding *)
C30_TxnBinding == IsV("txn") => (ev.accepted => ValidIntended("txn"))
(* C29: same for blocks; and the hash itself changes whenever a must-bind field changes *)
C29_BlockBinding == IsV("block") => (ev.accepted => ValidIntended("block"))
C29_HashSensitive == IsV("block") => ((Altered(alt, cid) \cap BlMust # {}) => ev.hash_changed)
(* C29, first sentence, for repetitions: a block with a transaction repeated has another transaction list, so   *)
(* another hash (its own invariant: the recorded finding about Merkle padding suspends only this one)          *)
C29_RepeatChangesHash ==
  (IsV("block") /\ ~IsKnownFor(ev, "C29_RepeatChangesHash") /\ ev.dup_n > 0) => ev.hash_changed
(* vacuity guards: the genuine object is accepted (otherwise nothing is being tested) *)
HarnessGenuineAccepted == (ev.ev = "Validate" /\ IsGenuine) => ev.accepted
(* the abstract replay and the driver agree on which fields differ *)
HarnessAltAgrees == ev.ev = "Validate" => (Altered(alt, cid) = {ev.alt[i] : i \in 1..Len(ev.alt)})

(* ... and on the shape of a repetition: the block the driver sent carried ntx transactions when it appended *)
(* the dupAt-th one once more (dup_n = dup_i = 0 when the behaviour repeats nothing)                      *)
HarnessDupShape == ev.ev = "Validate" => (ev.dup_n = ntx /\ ev.dup_i = dupAt)

(* C47 *)
C47_VerifyExact ==
  (ev.ev = "Sig" /\ ~IsKnown(ev)) => /\ (ev.verified <=> (ev.sk = ev.vk /\ ev.sh = ev.vh /\ ev.mg = "none"))
                   /\ (ev.id_ok <=> (ev.idkey = ev.idclaim))
                   /\ ev.id_is_hash
                   \* the genuine triple verifies (twice), and then still nothing verifies under a related key
                   \* (one bit of the signer's key flipped) or a related hash (a byte appended / removed)
                   /\ ev.genuine_ok /\ ~ev.related_ok
(* the same for a long-lived client object (SigSchemes.tla ObjectExact): while it holds the earlier key pk it *)
(* verifies exactly pk's signatures, once it has become the vk client (whatever the way) exactly vk's          *)
C47_ObjectExact ==
  (ev.ev = "Sig" /\ ~IsKnown(ev)) => /\ (ev.obj_prev_verified <=> (ev.sk = ev.pk /\ ev.sh = ev.vh /\ ev.mg = "none"))
                   /\ (ev.obj_verified <=> (ev.sk = ev.vk /\ ev.sh = ev.vh /\ ev.mg = "none"))
(* a client id is always the hash of the client's public key: id, key bytes and key field agree          *)
C47_ObjectBound == (ev.ev = "Sig" /\ ~IsKnown(ev)) => ev.obj_bound
=============================================================================
