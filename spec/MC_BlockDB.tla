------------------------------ MODULE MC_BlockDB ------------------------------
(* Exhaustive exploration of BlockDB: every sequence of <= MaxRecs writes over   *)
(* the ordered key set (any order, repeated keys), every crash point inside a    *)
(* write or inside Save, Open, and Read of every key (present, absent below /    *)
(* between / above the stored keys) in every opened state.                       *)
(* Two configurations: *_intended (GetOffset as intended: all of C26 holds) and  *)
(* *_coded (GetOffset as written: written keys read back exactly, crash safety    *)
(* holds, and an absent key is either not-found or the search never returns).    *)
EXTENDS BlockDB
MCSpec == Init /\ [][Next]_vars
(* the prediction for the code as written is not vacuous: some absent lookup hangs, some returns *)
SomeAbsentHangs == \E ks \in SUBSET Keys : ks # {} /\ \E k \in Keys \ ks :
    LET s == SortedKeys(ks) ix == [i \in DOMAIN s |-> [k |-> s[i], pos |-> i]] IN Coded(ix, k, 0, Len(ix) - 1) = -2
ASSUME SearchAsCoded => SomeAbsentHangs
=============================================================================
