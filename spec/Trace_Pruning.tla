---------------------------- MODULE Trace_Pruning ----------------------------
(***************************************************************************)
(* Trace specification for C27.  Lines:                                    *)
(*   Block  a block of writes (and real transactions) was finalized by the *)
(*          REAL chain.finalizeBlock on the chain's RocksDB store (mode     *)
(*          "saved-without-record": only SaveChanges ran, as after a crash  *)
(*          before the dead-node record); `missing` = nodes of its state    *)
(*          not found in the persistent store right afterwards              *)
(*   Prune  the REAL PNodeDB.PruneBelowVersion(v) ("direct") or the REAL    *)
(*          pruneClientState ran; `checked` lists, for finalized blocks,    *)
(*          the relative round r and the number d of nodes of the block's   *)
(*          complete state that a walk over the PERSISTENT store could not  *)
(*          find; v = version below which state may be gone                 *)
(*   Rollback  the REAL finalizeRound moved the latest finalized block back  *)
(*          to the common ancestor of two notarized forks (round `to`); the  *)
(*          finalized blocks above it are abandoned: they are no longer      *)
(*          retained blocks, the blocks of the other fork that are finalized *)
(*          afterwards at the same rounds replace them                       *)
(* Rounds are relative to the trace start.  Txn lines are skipped (they     *)
(* are validated by Trace_Ledger).                                          *)
(***************************************************************************)
EXTENDS TraceLib

VARIABLES l, ev, fins
vars == <<l, ev, fins>>
Null == [ev |-> "none"]

TraceInit == l = 1 /\ ev = Null /\ fins = {}
IsEvent(e) == l <= Len(Trace) /\ Trace[l].ev = e /\ l' = l + 1
TraceReset == IsEvent("Reset") /\ ev' = Null /\ fins' = {}
TraceBlock == IsEvent("Block") /\ ev' = Trace[l] /\ fins' = fins \cup {Trace[l].round}
TracePrune == IsEvent("Prune") /\ ev' = Trace[l] /\ UNCHANGED fins
TraceRollback == /\ IsEvent("Rollback") /\ ev' = Trace[l]
                 /\ fins' = {q \in fins : q <= Trace[l].to}
TraceOther == /\ l <= Len(Trace) /\ Trace[l].ev \notin {"Reset", "Block", "Prune", "Rollback"}
              /\ l' = l + 1 /\ ev' = Null /\ UNCHANGED fins
TraceNext == TraceReset \/ TraceBlock \/ TracePrune \/ TraceRollback \/ TraceOther
TraceSpec == TraceInit /\ [][TraceNext]_vars

IsBlock == ev.ev = "Block"
IsPrune == ev.ev = "Prune"
Checked == {ev.checked[i].r : i \in 1..Len(ev.checked)}

(* harness: finalization and pruning ran without error, and every finalized block of the trace *)
(* at or above the version was walked                                                          *)
(* and a rollback moved the LFB to the fork's common ancestor, below the abandoned blocks      *)
HarnessRan == /\ IsBlock => (ev.err = "" /\ ev.is_lfb)
              /\ ev.ev = "Rollback" => (ev.ok /\ ev.to = ev.anc /\ ev.to < ev.from)
              /\ IsPrune => (ev.err = "" /\ \A q \in fins : q >= ev.v => q \in Checked)

(* C27: after pruning below v the complete state of every retained block at or above v can be *)
(* read from the store; a block that was just finalized is completely in the store            *)
C27_RetainedReadable ==
  /\ (IsPrune /\ ~IsKnown(ev)) => \A i \in 1..Len(ev.checked) : ev.checked[i].r >= ev.v => ev.checked[i].d = 0
  /\ (IsBlock /\ ~IsKnown(ev)) => ev.missing = 0
=============================================================================
