SPECIFICATION Spec
CONSTANTS
  P = 5
  MaxN = 3
  KeyVals = {1, 2}
  MsgVals = {1, 3}
  WrongKeys = {4}
  WrongMsgs = {2}
  Deltas = {1, 2, 3, 4}
  SameModes = {FALSE}
  MaxTouched = 3
  GenMaxMixed = 2
  GenWithRepeat = FALSE
  MaxPasses = 1
  ReKeys = {}
  AsCoded = FALSE
INVARIANTS TypeOK ObjectsCurrent Completeness SoundNonCancelling SingleFaultDetected C32_AggExact
CHECK_DEADLOCK FALSE
