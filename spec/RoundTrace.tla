----------------------------- MODULE RoundTrace -----------------------------
(***************************************************************************)
(* The miner's round protocol as one composed machine (growth family       *)
(* "roundtrace"): ONE node, implementation-shaped (every action is one     *)
(* critical section / handler / worker step of miner/protocol_round.go,    *)
(* miner/protocol_receive.go, miner/protocol_bls.go, miner/m_handler.go,   *)
(* chaincore/chain/protocol_round.go; the step operators live in           *)
(* RoundTraceOps), in a nondeterministic ENVIRONMENT: the other miners     *)
(* (any of them possibly byzantine: shares, proposals - also two by one    *)
(* generator, with another timeout count's seed, from a non-generator,     *)
(* with forged previous-block tickets -, tickets valid or not,             *)
(* notarizations), the network (every message ever sent can be delivered   *)
(* again, late, in any order), the round worker's clock and the sharders'  *)
(* LFB tickets.  Trace_RoundTrace.tla replays the same operators on        *)
(* recorded executions of the real miner.                                  *)
(*                                                                         *)
(* Named deviation of the code as written: MergeUnverified (see            *)
(* RoundTraceOps!PrevLinked).  MC_RoundTrace_*.cfg runs the intended       *)
(* semantics (FALSE); MC_RoundTrace_asfound_demo.cfg (TRUE) lets TLC       *)
(* exhibit the violation of NotarizedHasQuorum that the real node shows.   *)
(***************************************************************************)
EXTENDS RoundTraceOps

CONSTANTS MaxRound,        \* rounds 1..MaxRound
          MaxToc,          \* timeout counts the environment uses in its messages
          MaxBlocks,       \* proposals the environment makes
          ProposalKinds,   \* the kinds of proposal it makes: <<second of the generator, forged previous tickets, valid signature>>
          MaxDeliver,      \* message deliveries that have an effect (every message can be delivered again and again)
          MaxQueue,        \* messages accepted and not yet dispatched (1 = dispatched at once; more = reordering)
          MaxTimeouts,     \* timer expiries
          WithNotarizations, \* the environment also sends notarization messages
          MaxTicket,       \* highest round the sharders announce as finalized (0 = they stay silent)
          EnvOnlyAtRest,   \* TRUE: the environment acts only when every spawned goroutine of the node has run (the
                           \* schedule the trace harness enforces); FALSE: free interleaving of both
          MergeUnverified, \* the code as written: attached previous-block tickets can be merged unverified
          Order            \* a fixed sequence of all miners: the ranking of a seed is a rotation of it

VARIABLES n,      \* the node (RoundTraceOps)
          B,      \* what every block carries
          cnt     \* budget counters of the environment
vars == <<n, B, cnt>>

Peer == Miner \ {Self}
Genesis == "g"

\* ---- facts of the universe
RECURSIVE SumSeq(_)
SumSeq(s) == IF s = <<>> THEN 0 ELSE Head(s) + SumSeq(Tail(s))
RECURSIVE Paths(_)
Paths(k) == IF k = 0 THEN {<<9>>} ELSE {Append(p, t) : p \in Paths(k - 1), t \in 0..TocCap}
Seeds == UNION {Paths(k) : k \in 0..MaxRound}
Pos(m) == CHOOSE i \in 1..Len(Order) : Order[i] = m
RankOf(seed, m) == (Pos(m) - 1 + SumSeq(seed)) % Len(Order)
RK == [s \in Seeds |-> [m \in Miner |-> RankOf(s, m)]]
RECURSIVE Digits(_)
Digits(s) == IF s = <<>> THEN "" ELSE ToString(Head(s)) \o Digits(Tail(s))
OwnName(r, seed, prev) == "o" \o ToString(r) \o "s" \o Digits(seed) \o "on" \o prev
Env0 == [rk |-> RK, own |-> <<>>, mrg |-> {}]

BaseRound == [NewRnd EXCEPT !.seed = <<9>>, !.phase = Share, !.nb = <<Genesis>>, !.best = Genesis, !.fin = 2, !.proposed = {Genesis}]
Node0 == [cur |-> 0, lfb |-> Genesis, lfbr |-> 0, tk |-> 0, rtc |-> 0,
          R |-> (0 :> BaseRound),
          K |-> (Genesis :> [st |-> StNotarized, tk |-> Peer, bad |-> {}, notar |-> TRUE, rank |-> 0, comp |-> TRUE]),
          rfin |-> (0 :> Genesis),
          mq |-> {}, gen |-> {}, mov |-> {}, movw |-> {}, fq |-> <<>>, upn |-> {}, nzp |-> {}]

Init ==
  /\ n = StartNextRound(Node0, Env0, 0)          \* the node starts on its latest finalized block
  /\ B = (Genesis :> [r |-> 0, gen |-> Order[1], seed |-> <<9>>, prev |-> NoBlock, ptk |-> {}, valid |-> TRUE, pvalid |-> TRUE, v |-> 0])
  /\ cnt = [blocks |-> 0, deliver |-> 0, timeouts |-> 0]

-----------------------------------------------------------------------------
(* the environment: the other miners (any of them may be byzantine) and the network.  The messages that can   *)
(* arrive in a state; each can arrive again and again (duplicates), at any later time (late messages).        *)
NearRounds == {r \in 1..MaxRound : r <= n.cur + 1}
\* the previous seed the other miners make their shares of round r on: the node's own, or (for the round after the
\* current one) what the current round's seed is or will be
PrevSeeds(r) == IF PrevSeed(n, r) # NoSeed THEN {PrevSeed(n, r)}
                ELSE IF PrevSeed(n, r - 1) # NoSeed THEN {SeedFor(PrevSeed(n, r - 1), t) : t \in 0..MaxToc} \cap Seeds
                ELSE {}
Liar == CHOOSE m \in Peer : TRUE          \* invalid signatures come from this one (who sends them does not matter)
VrfMsgs ==
  UNION {{[k |-> "vrf", from |-> m, r |-> r, sh |-> [m |-> m, toc |-> toc, prev |-> prev, good |-> good]] :
            m \in Peer, toc \in 0..MaxToc, prev \in PrevSeeds(r), good \in BOOLEAN} : r \in NearRounds}
PbMsgs == {[k |-> "pb", from |-> B[b].gen, r |-> B[b].r, b |-> b] : b \in {x \in DOMAIN B : B[x].gen \in Peer /\ B[x].r > 0}}
TkMsgs == {[k |-> "tk", from |-> m, r |-> B[b].r, b |-> b, valid |-> v] :
             m \in Peer, b \in DOMAIN B \ {Genesis}, v \in BOOLEAN}
NzMsgs == {[k |-> "nz", from |-> Liar, r |-> B[b].r, b |-> b, tks |-> tks, bad |-> bad] :
             b \in DOMAIN B \ {Genesis}, tks \in {Peer, {Liar}}, bad \in {{}, {Liar}}}
Msgs == {m \in VrfMsgs : m.sh.good \/ m.from = Liar} \cup PbMsgs \cup {m \in TkMsgs : m.valid \/ m.from = Liar}
        \cup (IF WithNotarizations THEN NzMsgs ELSE {})

\* a proposal is made: any peer (generator or not), any seed of the round, on any known block of the previous
\* round, a second one by the same generator (v), with forged previous-block tickets, with a bad signature
ProposalSeeds(r) == UNION {{SeedFor(ps, t) : t \in 0..MaxToc} : ps \in PrevSeeds(r)} \cap Seeds
ProposeWith(m, r, p, kind, seed) ==
  /\ cnt.blocks < MaxBlocks
  /\ B[p].r = r - 1
  /\ LET b == "p" \o ToString(cnt.blocks + 1) IN
     B' = B @@ (b :> [r |-> r, gen |-> m, seed |-> seed, prev |-> p, ptk |-> Peer, valid |-> kind[3], pvalid |-> ~kind[2], v |-> kind[1]])
  /\ cnt' = [cnt EXCEPT !.blocks = @ + 1]
  /\ UNCHANGED n
EnvPropose ==
  \E m \in Peer, r \in NearRounds, p \in DOMAIN B, kind \in ProposalKinds :
    \E seed \in ProposalSeeds(r) : ProposeWith(m, r, p, kind, seed)

\* the sharders announce a finalized round
TicketWith(r) ==
  /\ r > n.tk
  /\ n' = [n EXCEPT !.tk = r]
  /\ UNCHANGED <<B, cnt>>
EnvLFBTicket == \E r \in 1..MaxTicket : TicketWith(r)

\* the round worker's timer (miner/worker.go RoundWorker): the current round, or the next one when the current
\* one is being finalized
TimeoutWith(r) ==
  /\ cnt.timeouts < MaxTimeouts
  /\ r > 0
  /\ \/ (r = n.cur /\ n.R[r].fin = 0)
     \/ (r = n.cur + 1 /\ n.R[n.cur].fin # 0)
  /\ n' = HandleRoundTimeout(n, Env0, r)
  /\ cnt' = [cnt EXCEPT !.timeouts = @ + 1]
  /\ UNCHANGED B
EnvTimeout == \E r \in DOMAIN n.R : TimeoutWith(r)

-----------------------------------------------------------------------------
(* a message reaches its receipt handler (miner/m_handler.go)                *)
Filter(m) ==
  CASE m.k = "vrf" -> FilterVRF(n, m.r, m.from)
    [] m.k = "pb" -> FilterPB(n, m.b, B)
    [] m.k = "tk" -> FilterTK(n, m.r, m.b, m.from, B)
    [] m.k = "nz" -> FilterNZ(n, m.r, m.b)
RecvWith(m) ==
  /\ cnt.deliver < MaxDeliver /\ Cardinality(n.mq) < MaxQueue
  /\ LET n1 == IF m.k = "tk" THEN RecvTKEffect(n, m.r, m.b, B) ELSE n IN
     n' = IF Filter(m) THEN [n1 EXCEPT !.mq = @ \cup {m}] ELSE n1
  /\ n' # n                                              \* a delivery without effect is a stuttering step
  /\ cnt' = [cnt EXCEPT !.deliver = @ + 1]
  /\ UNCHANGED B
Recv == \E m \in Msgs : RecvWith(m)

(* the message worker dispatches a message (any order); the two outcomes of the race of processVerifyBlock *)
HandleWith(m, merge) ==
  /\ merge => /\ m.k = "pb"
               /\ (MergeUnverified \/ (Has(n, B[m.b].prev) /\ n.K[B[m.b].prev].notar))
  /\ LET n0 == [n EXCEPT !.mq = @ \ {m}]
         E == [Env0 EXCEPT !.mrg = IF merge THEN {m.b} ELSE {}] IN
     n' = CASE m.k = "vrf" -> HandleVRFShare(n0, E, m.r, m.sh)
            [] m.k = "pb" -> ProcessVerifyBlock(n0, E, m.b, B)
            [] m.k = "tk" -> HandleTicket(n0, E, m.r, m.b, m.from, m.valid, B)
            [] m.k = "nz" -> IF NzQueued(n0, m.b)
                               THEN NotarizationProcess(HandleNotarization(n0, m.b), E, m.r, m.b, m.tks, m.bad, B)
                               ELSE n0
  /\ UNCHANGED <<B, cnt>>
Handle == \E m \in n.mq, merge \in BOOLEAN : HandleWith(m, merge)

-----------------------------------------------------------------------------
(* the node's goroutines, one step each                                      *)
Upn == \E b \in n.upn : n' = UpnStep(n, Env0, b, B) /\ UNCHANGED <<B, cnt>>

Generate ==
  \E r \in n.gen :
    LET pb == IF Ex(n, r - 1) /\ n.R[r - 1].nb # <<>> THEN Head(n.R[r - 1].nb) ELSE NoBlock
        key == <<r, n.R[r].seed, pb>>
        b == OwnName(r, n.R[r].seed, pb)
        B2 == IF pb = NoBlock \/ b \in DOMAIN B THEN B
              ELSE B @@ (b :> [r |-> r, gen |-> Self, seed |-> n.R[r].seed, prev |-> pb, ptk |-> n.K[pb].tk, valid |-> TRUE, pvalid |-> TRUE, v |-> 0])
        E == [Env0 EXCEPT !.own = IF pb = NoBlock THEN <<>> ELSE (key :> b)] IN
    /\ n' = GenStep(n, E, r, B2)
    /\ B' = IF Has(n', b) THEN B2 ELSE B
    /\ UNCHANGED cnt

CollectorRecv ==
  \E r \in DOMAIN n.R : n.R[r].coll /\ n.R[r].chan # <<>> /\ n' = CollRecv(n, Env0, r, B) /\ UNCHANGED <<B, cnt>>
CollectorTimer ==
  \E r \in DOMAIN n.R : n.R[r].coll /\ ~n.R[r].fired /\ n' = CollTimer(n, Env0, r, B) /\ UNCHANGED <<B, cnt>>
MoveBeginStep == \E r \in n.mov : n' = MoveBegin(n, r) /\ UNCHANGED <<B, cnt>>
MoveEndStep == \E r \in MoveReady(n) : n' = MoveEnd(n, Env0, r) /\ UNCHANGED <<B, cnt>>
Finalize == n.fq # <<>> /\ n' = FinStep(n, B) /\ UNCHANGED <<B, cnt>>

Internal == Upn \/ Generate \/ CollectorRecv \/ CollectorTimer \/ MoveBeginStep \/ MoveEndStep \/ Finalize
\* the environment's steps (with the at-rest schedule they wait for the node's goroutines)
EnvTurn == EnvOnlyAtRest => (~Busy(n) /\ n.mq = {})
ProposeStep == EnvTurn /\ EnvPropose
TicketStep == EnvTurn /\ EnvLFBTicket
TimeoutStep == EnvTurn /\ EnvTimeout
RecvStep == EnvTurn /\ Recv
Environment == ProposeStep \/ TicketStep \/ TimeoutStep \/ RecvStep
Next == ProposeStep \/ TicketStep \/ TimeoutStep \/ RecvStep \/ Handle
        \/ Upn \/ Generate \/ CollectorRecv \/ CollectorTimer \/ MoveBeginStep \/ MoveEndStep \/ Finalize
Spec == Init /\ [][Next]_vars
FairSpec == Spec /\ WF_vars(Internal) /\ WF_vars(Handle)

\* rounds beyond the bound are not explored
Bounded == \A r \in DOMAIN n.R : r <= MaxRound + 1

-----------------------------------------------------------------------------
(* design properties                                                         *)
Rounds == DOMAIN n.R \ {0}

TypeOK ==
  /\ n.cur \in 0..(MaxRound + 1) /\ n.lfb \in DOMAIN n.K /\ n.lfbr = B[n.lfb].r
  /\ \A b \in DOMAIN n.K : b \in DOMAIN B /\ n.K[b].bad \subseteq n.K[b].tk /\ n.K[b].tk \subseteq Miner
  /\ \A r \in DOMAIN n.R : /\ n.R[r].phase \in 0..4 /\ n.R[r].fin \in 0..2 /\ n.R[r].toc >= 0
                           /\ SeqSet(n.R[r].nb) \subseteq DOMAIN n.K /\ n.R[r].shares \subseteq Miner
                           /\ n.R[r].proposed \subseteq DOMAIN B

(* C31 on the model: a block is flagged notarized / listed as notarized only with NT valid tickets of distinct miners *)
NotarizedHasQuorum == \A b \in DOMAIN n.K : n.K[b].notar => Cardinality(Good(n, b)) >= NT
ListedIsNotarized == \A r \in DOMAIN n.R : \A b \in SeqSet(n.R[r].nb) : n.K[b].notar /\ B[b].r = r

(* C33 on the model: a seed that did not come with a notarized block is the function of (previous seed, timeout *)
(* count) and needed T shares; never more than T shares, all of them for the round's timeout count              *)
SeedFromShares ==
  \A r \in Rounds : (n.R[r].seed # NoSeed /\ n.R[r].nb = <<>>) =>
     (Cardinality(n.R[r].shares) >= T /\ \E toc \in 0..n.R[r].toc : n.R[r].seed = SeedFor(PrevSeed(n, r), toc))
ShareCap == \A r \in DOMAIN n.R : Cardinality(n.R[r].shares) <= T

(* C35 on the model: at most one notarized block per rank, heaviest first; the proposal the node holds as best *)
OneNotarizedPerRank ==
  \A r \in DOMAIN n.R : LET s == n.R[r].nb IN \A i, j \in 1..Len(s) : i < j => n.K[s[i]].rank < n.K[s[j]].rank

(* C36 on the model: the LFB moves to a descendant, except by the named rollback when a deeper notarized fork exists *)
LFBSingleChain ==
  [][n'.lfb # n.lfb =>
       \/ Descends(Par(n', B'), n'.lfb, n.lfb)
       \/ DeepFork(Par(n, B), Rnd(n, B), Nota(n), n.lfb)]_vars
FinalizedIsNotarized == n.K[n.lfb].notar /\ \A r \in DOMAIN n.rfin : n.rfin[r] # NoBlock => (n.R[r].fin = 2 /\ n.K[n.rfin[r]].notar)
\* a finalized block has Confirm rounds on top of it
FinalizedIsConfirmed == n.lfbr = 0 \/ \E r \in DOMAIN n.R : r - n.lfbr >= Confirm /\ n.R[r].nb # <<>>

(* C37 on the model: phases move forward except by a restart before Share; timeout counts never decrease; *)
(* a finalized round stays finalized                                                                       *)
PhaseForward ==
  [][\A r \in DOMAIN n.R \cap DOMAIN n'.R :
        n'.R[r].phase < n.R[r].phase => (n'.rtc = n.rtc + 1 /\ n.R[r].phase < Share)]_vars   \* restartRound only
TimeoutCountMonotone == [][\A r \in DOMAIN n.R \cap DOMAIN n'.R : n'.R[r].toc >= n.R[r].toc]_vars
FinalizedSticky == [][\A r \in DOMAIN n.R \cap DOMAIN n'.R : n.R[r].fin = 2 => n'.R[r].fin = 2]_vars

(* the round protocol itself *)
CurrentRoundMonotone == [][n'.cur >= n.cur /\ n'.tk >= n.tk]_vars
\* the node is never more than Ahead rounds beyond what the sharders / its own finalization confirm
NeverFarAhead == n.cur <= Min2(n.tk, n.lfbr) + Ahead + 1 \/ n.cur <= 1
\* it signs at most one block per (round, generator rank) at a time and only blocks of generators with the round's seed
OwnTicketSound ==
  \A r \in Rounds : n.R[r].own # NoBlock => (Self \in n.K[n.R[r].own].tk /\ B[n.R[r].own].r = r)
\* it enters a round only over a notarized block of the round before (rounds further back may still lack one:
\* a node that learns a later round's notarization jumps ahead)
MovedOnNotarized == n.cur > 1 => (Ex(n, n.cur - 1) /\ n.R[n.cur - 1].nb # <<>>)

(* reachability probes (NOT properties: each is expected to be violated; used once to see that the bounds of a *)
(* configuration let the interesting situations happen)                                                      *)
ReachFinalized == n.lfb = Genesis
ReachRestartedSeed == \A r \in Rounds : ~(n.R[r].toc > 0 /\ n.R[r].seed # NoSeed)
ReachTwoNotarized == \A r \in Rounds : Len(n.R[r].nb) < 2
ReachBlockedAhead == \A r \in Rounds : ~(r \in n.movw /\ ~NotAhead(n, r) /\ n.mov = {} /\ n.fq = <<>>)

(* liveness under weak fairness of the node's own steps: a notarized current round that is not ahead of the *)
(* sharders is left                                                                                          *)
NotarizedRoundIsLeft ==
  \A r \in 1..MaxRound : (n.cur = r /\ r \in n.mov \cup n.movw /\ NotAhead(n, r)) ~> (n.cur > r \/ ~NotAhead(n, r))
=============================================================================
