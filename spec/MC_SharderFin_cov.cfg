\* Smallest configuration in which every action of the model is taken: run with -coverage 1 (the vacuity guard of the
\* check reads the action counts from this run; the larger configurations run without coverage, which is 20x faster).
SPECIFICATION Spec
CONSTANTS
  Canon <- MCCanon2
  Fork <- MCFork
  Info <- MCInfo
  Genesis = "g"
  Batch = 1
  Confirmations = 1
  CountMerges = TRUE
  MaxFaults = 1
  MaxCnt = 4
  HCAhead = FALSE
  Concurrent = FALSE
  MaxLag = 1
CONSTRAINT StateConstraint
INVARIANTS TypeOK RoundMapCanonical LFBCanonical RestartPossible LFBPersisted OnlyFinalizedStored CountAtLeast CountMultiple
  ServeByRoundSound ConfirmationSound
PROPERTIES RoundMapStable LFBChain FinalizationComplete RepairCompletes RepairKeeps RepairWindow
CHECK_DEADLOCK FALSE
