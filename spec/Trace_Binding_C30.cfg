SPECIFICATION TraceSpec
INVARIANTS HarnessGenuineAccepted HarnessAltAgrees C30_TxnBinding
POSTCONDITION Accepted
CHECK_DEADLOCK FALSE
