SPECIFICATION MSpec
CONSTANTS
  Names = {"a","b","c","d"}
  Stakes = {1,2}
  Limits = {1,2,3,4}
  Pcts = {0,50}
  Ord1 <- O_abcd
  Ord2 <- O_cadb
  HeadBug = TRUE
INVARIANTS M_Exact M_QuotaKept M_StakeOrdered M_TieBySeedOnly M_Relabel
CHECK_DEADLOCK FALSE
