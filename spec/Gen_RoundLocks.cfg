SPECIFICATION Spec
CONSTANTS
  FixedGroups <- NoGroups
  Scenarios <- MCScenarios
INVARIANT GPrint
CHECK_DEADLOCK FALSE
