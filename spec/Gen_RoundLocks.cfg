SPECIFICATION Spec
CONSTANTS
  Fixed = FALSE
  Scenarios <- MCScenarios
INVARIANT GPrint
CHECK_DEADLOCK FALSE
