---------------------------- MODULE StakePoolOps ----------------------------
(***************************************************************************)
(* The constant-level part of the StakePool specification: the shape of a  *)
(* stake-pool node and the OBLIGATIONS the properties put on one call      *)
(* (C10: reward distribution).  StakePool.tla checks the algorithms of the *)
(* code against them with TLC; Trace_StakePool.tla evaluates the SAME      *)
(* operators on every recorded call of the real code.                      *)
(***************************************************************************)
EXTENDS Integers, Sequences, FiniteSets, TLC

CONSTANT PropTol            \* K: proportionality tolerance in units ("a few units")

Abs(x) == IF x < 0 THEN -x ELSE x
Min(a, b) == IF a < b THEN a ELSE b

RECURSIVE SumF(_, _)
SumF(f, S) == IF S = {} THEN 0 ELSE LET x == CHOOSE y \in S : TRUE IN f[x] + SumF(f, S \ {x})

(***************************************************************************)
(* A stake-pool node:                                                      *)
(*   pools : [D -> [bal, reward]] for some D \subseteq Client (keyed by    *)
(*           the staker's id, as in the code),                             *)
(*   reward: the provider's own (service charge) reward,                   *)
(*   killed, minStake, cnum/cden (service charge ratio), wallet (delegate  *)
(*   wallet), maxDel (max number of delegates).                            *)
(***************************************************************************)
Dels(sp) == DOMAIN sp.pools
BalOf(sp) == [d \in Dels(sp) |-> sp.pools[d].bal]
StakeOf(sp, S) == SumF(BalOf(sp), S)
TotalStake(sp) == StakeOf(sp, Dels(sp))
Zero(sp) == [d \in Dels(sp) |-> 0]
Paid(sp) == ~sp.killed /\ TotalStake(sp) >= sp.minStake     \* stakepool.go:409, 569

-----------------------------------------------------------------------------
(* Layer 2: the obligations of C10.  sp = the stake pool before the call,   *)
(* V the paid value, kind \in {"all","randn"}, N the subset size, c the     *)
(* increment of the provider's reward, r[d] the increment of delegate d.    *)

Credited(sp, r) == {d \in Dels(sp) : r[d] > 0}

OblExactSum(sp, V, c, r) ==
  IF V = 0 \/ ~Paid(sp) THEN c = 0 /\ \A d \in Dels(sp) : r[d] = 0        \* dead / under-staked: nothing
  ELSE c + SumF(r, Dels(sp)) = V

OblCharge(sp, V, c) ==
  (V > 0 /\ Paid(sp)) =>
     IF Dels(sp) = {} THEN c = V
     ELSE Abs(c * sp.cden - V * sp.cnum) <= sp.cden                         \* floor(V*charge) +-1, on base V

OblSubset(sp, kind, N, r) ==
  kind = "randn" => Cardinality(Credited(sp, r)) <= N

\* some admissible subset S carries the credits, each within K units of its proportional share of V - c
OblProportional(sp, V, kind, N, c, r) ==
  (V > 0 /\ Paid(sp) /\ Dels(sp) # {} /\ V - c > 0) =>
    \E S \in SUBSET Dels(sp) :
       /\ kind = "all" => S = Dels(sp)
       /\ kind = "randn" => Cardinality(S) <= N
       /\ Credited(sp, r) \subseteq S
       /\ StakeOf(sp, S) > 0
       /\ \A d \in S : Abs(r[d] * StakeOf(sp, S) - (V - c) * sp.pools[d].bal) <= PropTol * StakeOf(sp, S)

OblDistribute(sp, V, kind, N, c, r) ==
  /\ OblExactSum(sp, V, c, r) /\ OblCharge(sp, V, c)
  /\ OblSubset(sp, kind, N, r) /\ OblProportional(sp, V, kind, N, c, r)

=============================================================================
