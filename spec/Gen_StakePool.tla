---------------------------- MODULE Gen_StakePool ----------------------------
(* Behaviour generator for C10: TLC -simulate walks the C10 machine of       *)
(* MC_StakePool (a stake pool from the exhaustive grid, then a few           *)
(* Distribute / DistributeRandN steps) and prints the initial stake pool and *)
(* the operations as JSON.  vdriver builds the same stake pool as a real     *)
(* stakepool.StakePool and makes the same calls (the RNG's choice of the     *)
(* subset is the implementation's).                                          *)
EXTENDS MC_StakePool, Json
VARIABLES sp0, ops, done
GInit == InitC10 /\ sp0 = node[P1] /\ ops = <<>> /\ done = FALSE
G_All == A_Distribute /\ ops' = Append(ops, [kind |-> "all", V |-> last'.V, N |-> 0]) /\ UNCHANGED <<sp0, done>>
G_RandN == A_DistributeRandN /\ ops' = Append(ops, [kind |-> "randn", V |-> last'.V, N |-> last'.N]) /\ UNCHANGED <<sp0, done>>
\* one closing step per walk, so that exactly the walk TLC chose is printed (not all its siblings)
G_Done == steps = MaxSteps /\ ~done /\ done' = TRUE /\ UNCHANGED <<mcvars, sp0, ops>>
GNext == G_All \/ G_RandN \/ G_Done
GSpec == GInit /\ [][GNext]_<<mcvars, sp0, ops, done>>
GPrint == done => PrintT(<<"BEHAVIOUR", ToJson([sp |-> sp0, ops |-> ops])>>)
=============================================================================
