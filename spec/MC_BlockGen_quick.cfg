SPECIFICATION Spec
CONSTANTS
  Sender = {"s1", "s2"}
  MaxNonce = 3
  StateNonce = {0, 1}
  MaxCost = 8
  BuiltIn <- MCBuiltIn
  BiName = "payFees"
  Class = {"ok", "fail", "stale", "sc"}
  MaxPool = 3
  FilterBuiltins = TRUE
VIEW View
INVARIANTS NoDuplicate ConsecutiveNonces CostLimit BuiltinsOnce VerifierAgrees
CHECK_DEADLOCK FALSE
