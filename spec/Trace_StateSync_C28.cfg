SPECIFICATION TraceSpec
INVARIANTS NoPanic HarnessCoherent C28_HonestReproduces C28_MismatchRejected C28_RejectedUntouched C28_AcceptedIsComputed
POSTCONDITION Accepted
CHECK_DEADLOCK FALSE
