---------------------------- MODULE Gen_SharderFin ----------------------------
(* Behaviour generator: TLC -simulate walks SharderFin.tla and prints the list of steps of each walk as JSON;  *)
(* vdriver replays every list on the real sharder code (harness/drivers/sharderfin, the same step vocabulary).  *)
(* The micro-steps of UpdateFinalizedBlock and of healthCheck are taken without interleaving other steps, so    *)
(* that one model walk is one sequence of calls of the real functions:                                           *)
(*   FinalizeTail          -> finround(round of the block + Confirmations)  (the real finalizeRound)             *)
(*   CrashRestart in UFB   -> partial(block, the stores that ran) / ufbdirect(block), then restart               *)
(*   HC_Begin(r)           -> hc(r)                                                                               *)
EXTENDS MC_SharderFin, Json
CONSTANT GenLen
VARIABLES hist, done

GInit == Init /\ hist = <<>> /\ done = FALSE
Idle == ufb = NoUFB /\ hc = NoHC

DoneSeq == SelectSeq(UFBSteps, LAMBDA s : s \in ufb.done)

G_Env ==
  /\ Idle
  /\ \/ Produce /\ hist' = Append(hist, [op |-> "produce", r |-> tip + 1, n |-> Info[Canon[tip + 1]].ntx])
     \/ \E f \in Fork : ProduceFork(f) /\ hist' = Append(hist, [op |-> "produce", r |-> RoundOf(f), n |-> Info[f].ntx, fork |-> TRUE])
     \/ \E b \in Block : Deliver(b) /\ hist' = Append(hist, [op |-> "deliver", b |-> b])
     \/ PeersToggle /\ hist' = Append(hist, [op |-> "peers", up |-> ~up])
     \/ \E k \in 0..MaxLag : PeersLag(k) /\ hist' = Append(hist, [op |-> "peerlag", n |-> k])
     \/ \E b \in Block : LoseFile(b) /\ hist' = Append(hist, [op |-> "losefile", b |-> b])
     \/ CrashRestart /\ hist' = Append(hist, [op |-> "restart"])

\* one read step (the driver picks the handler and the argument from its seed: reads do not change the model)
G_Read ==
  /\ Idle /\ UNCHANGED vars
  /\ Len(hist) > 0 /\ hist[Len(hist)].op # "read"
  /\ hist' = Append(hist, [op |-> "read", kind |-> "any", arg |-> ""])

G_UFB ==
  /\ hc = NoHC
  /\ \/ (\E b \in Block : UFB_Begin(b)) /\ UNCHANGED hist
     \/ (\E s \in {"txns", "summary", "mbmap", "block"} : UFB_Step(s)) /\ UNCHANGED hist
     \/ UFB_Round /\ UNCHANGED hist
     \/ FinalizeTail /\ hist' = Append(hist, [op |-> "finround", r |-> RoundOf(ufb.b) + Confirmations])
     \/ /\ ufb # NoUFB /\ CrashRestart
        /\ hist' = hist \o (IF "round" \in ufb.done THEN <<[op |-> "ufbdirect", b |-> ufb.b]>>
                                                    ELSE <<[op |-> "partial", b |-> ufb.b, steps |-> DoneSeq]>>)
                        \o <<[op |-> "restart"]>>

G_HC ==
  /\ ufb = NoUFB
  /\ \/ \E r \in 0..R : HC_Begin(r) /\ hist' = Append(hist, [op |-> "hc", r |-> r, mode |-> "deep"])
     \/ (HC_Round \/ HC_Summary \/ HC_Block) /\ UNCHANGED hist

\* a single closing step, so that exactly one behaviour is printed per walk
G_End == Len(hist) >= GenLen /\ Idle /\ ~done /\ done' = TRUE /\ UNCHANGED <<vars, hist>>
GNext == ((Len(hist) < GenLen \/ ~Idle) /\ (G_Env \/ G_Read \/ G_UFB \/ G_HC) /\ UNCHANGED done) \/ G_End
GSpec == GInit /\ [][GNext]_<<vars, hist, done>>
GPrint == done => PrintT(<<"BEHAVIOUR", ToJson([r |-> R, k |-> -1, batch |-> Batch, ops |-> hist])>>)
=============================================================================
