---------------------------- MODULE MC_Governance ----------------------------
EXTENDS Governance, Json
(* exhaustive check of Governance.tla and generator of abstract governance histories *)
VARIABLE hist
CONSTANT MaxSteps
A_Update == Len(hist) < MaxSteps /\ \E c \in Callers, ch \in SaneChanges : Update(c, ch) /\ hist' = Append(hist, [op |-> "update", caller |-> c, ch |-> ch])
A_Stage == Len(hist) < MaxSteps /\ \E c \in Callers, ch \in SaneChanges : Stage(c, ch) /\ hist' = Append(hist, [op |-> "update", caller |-> c, ch |-> ch])
A_Commit == Len(hist) < MaxSteps /\ \E c \in Callers : Commit(c) /\ hist' = Append(hist, [op |-> "commit", caller |-> c, ch |-> <<>>])
MInit == Init /\ hist = <<>>
MNext == A_Update \/ A_Stage \/ A_Commit
MSpec == MInit /\ [][MNext]_<<vars, hist>>
MView == <<vars, Len(hist)>>
\* -simulate generator: one line per finished walk (the closing step has a single successor, so that the
\* simulator, which evaluates invariants on all successors, prints the chosen walk only)
G_Done == Len(hist) = MaxSteps /\ hist' = Append(hist, [op |-> "end", caller |-> Owner, ch |-> <<>>]) /\ UNCHANGED vars
GSpec == MInit /\ [][A_Update \/ A_Stage \/ A_Commit \/ G_Done]_<<vars, hist>>
GPrint == Len(hist) = MaxSteps + 1 => PrintT(<<"BEHAVIOUR", ToJson(SubSeq(hist, 1, MaxSteps))>>)
=============================================================================
