SPECIFICATION GSpec
CONSTANTS
  NVersions = 2
  FieldNames = {"a", "b", "c"}
  FieldsOf <- MCFieldsOf2
  MVals = {"zero", "one", "max"}
  DropOnMigrate = {}
  DispatchByTag = TRUE
INVARIANT GPrint
CHECK_DEADLOCK FALSE
