SPECIFICATION TraceSpec
INVARIANTS HarnessTwoOrders C39_Exact C39_PrevQuota C39_StakeOrdered C39_Deterministic C39_HistoryFree C39_TieBySeedOnly C39_RelabelInvariant
POSTCONDITION Accepted
CHECK_DEADLOCK FALSE
