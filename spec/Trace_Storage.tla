---------------------------- MODULE Trace_Storage ----------------------------
(***************************************************************************)
(* Trace specification of the Storage family (C09 C12 C13 C14 C15 C24).    *)
(*                                                                         *)
(* Every "Storage" line of the trace is the projection of the storage      *)
(* contract's own state, read back from the REAL Merkle-Patricia trie      *)
(* (storagesc.VerifStorageSnapshot) right after one transaction went       *)
(* through the REAL Chain.UpdateState, together with the abstract          *)
(* arguments of that transaction.  The trace actions only consume events   *)
(* and keep the previous projection; each property is an invariant named   *)
(* Cxx_... over (previous projection, transaction, new projection) and is  *)
(* the instance, on recorded data, of the like-named property of           *)
(* Storage.tla.  Amounts that come from price x size x time are never      *)
(* recomputed here: only the relations between the places where the same   *)
(* amount is added and removed are checked, so a change of a price formula *)
(* or of float rounding is accepted, a one-sided update is not.            *)
(***************************************************************************)
EXTENDS TraceLib

VARIABLES l,        \* next line
          ev,       \* the Storage event just consumed (Null otherwise)
          prev,     \* the Storage event before it in the same trace (Null at trace start)
          closedB,  \* allocations closed strictly before ev
          closed,   \* allocations closed up to and including ev
          closes,   \* name -> number of successful finalize/cancel transactions
          taint,    \* allocations / blobbers touched by an event that bin/vcheck marked as a LISTED known finding
          granted,  \* free-storage markers <<assigner, nonce>> accepted in this trace up to and including ev
          freshFM,  \* ev's free-storage marker <<assigner, nonce>> had not been accepted before ev in this trace
          redT      \* assigner -> tokens granted under it: the amount recorded at trace start + every grant accepted since

vars == <<l, ev, prev, closedB, closed, closes, taint, granted, freshFM, redT>>
Null == [ev |-> "none"]

TraceInit == l = 1 /\ ev = Null /\ prev = Null /\ closedB = {} /\ closed = {} /\ closes = <<>> /\ taint = {}
             /\ granted = {} /\ freshFM = TRUE /\ redT = <<>>

IsEvent(e) == l <= Len(Trace) /\ Trace[l].ev = e /\ l' = l + 1

-----------------------------------------------------------------------------
(* lookups in a projection *)
Idx(seq, name) == CHOOSE j \in 1..Len(seq) : seq[j].a = name
Has(seq, name) == \E j \in 1..Len(seq) : seq[j].a = name
AllocIn(e, n) == e.allocs[Idx(e.allocs, n)]
HasAlloc(e, n) == Has(e.allocs, n)
OpenIn(e, n) == HasAlloc(e, n) /\ AllocIn(e, n).present
BlobIn(e, n) == e.blobs[Idx(e.blobs, n)]
HasBlob(e, n) == Has(e.blobs, n)
AssignerIn(e, n) == e.assigners[Idx(e.assigners, n)]
HasAssigner(e, n) == Has(e.assigners, n)
BAIn(a, b) == a.bas[Idx(a.bas, b)]
HasBA(a, b) == Has(a.bas, b)
Names(seq) == {seq[j].a : j \in 1..Len(seq)}

RECURSIVE SumIV(_, _)
SumIV(bas, i) == IF i > Len(bas) THEN 0 ELSE bas[i].iv + SumIV(bas, i + 1)

\* sum over the open allocations of e of field f ("size"/"offer") of blobber b's share
BAField(ba, f) == IF f = "size" THEN ba.size ELSE ba.offer
RECURSIVE SumOverAllocs(_, _, _, _)
SumOverAllocs(e, b, f, i) ==
  IF i > Len(e.allocs) THEN 0
  ELSE (IF e.allocs[i].present /\ HasBA(e.allocs[i], b) THEN BAField(BAIn(e.allocs[i], b), f) ELSE 0)
       + SumOverAllocs(e, b, f, i + 1)

RPool(e, c) == PairOf(e.rpools, c, 0)
DBal(e, c) == PairOf(e.dbal, c, 0)
Ctr(e, b, c, al) == IF \E j \in 1..Len(e.rctrs) : e.rctrs[j].b = b /\ e.rctrs[j].c = c /\ e.rctrs[j].al = al
                    THEN (LET j == CHOOSE k \in 1..Len(e.rctrs) : e.rctrs[k].b = b /\ e.rctrs[k].c = c /\ e.rctrs[k].al = al
                          IN e.rctrs[j].d)
                    ELSE 0
SeqSet(s) == {s[j] : j \in 1..Len(s)}

-----------------------------------------------------------------------------
TraceReset ==
  /\ IsEvent("Reset")
  /\ ev' = Null /\ prev' = Null /\ closedB' = {} /\ closed' = {} /\ closes' = <<>> /\ taint' = {}
  /\ granted' = {} /\ freshFM' = TRUE /\ redT' = <<>>

GoneNow(p, e) == IF p = Null THEN {} ELSE {n \in Names(p.allocs) : OpenIn(p, n) /\ ~OpenIn(e, n)}

TraceStorage ==
  /\ IsEvent("Storage")
  /\ LET e == Trace[l] IN
       /\ ev' = e
       /\ prev' = IF ev.ev = "Storage" THEN ev ELSE prev
       /\ closedB' = closed
       /\ closed' = closed \cup GoneNow(IF ev.ev = "Storage" THEN ev ELSE prev, e)
       /\ closes' = IF e.class = "ok" /\ e.fn \in {"finalize_allocation", "cancel_allocation"}
                      THEN Add(closes, e.target, 1) ELSE closes
       \* a listed known finding (known_findings.jsonl, marked by bin/vcheck) leaves the objects it touched in a
       \* state that stays wrong for the rest of the trace: exactly those objects are exempted from the STATE
       \* invariants of the property being checked (the defect is reported as KNOWN-FINDING, never silently)
       /\ taint' = IF IsKnown(e) THEN taint \cup ({e.target, e.tblob} \ {""}) ELSE taint
       \* the trace's own memory of redeemed markers: it does not depend on what the contract still remembers
       \* (an assigner can be re-registered by the owner between two redemptions)
       /\ freshFM' = (<<e.fm_assigner, e.fm_nonce>> \notin granted)
       /\ granted' = IF e.fn = "free_allocation_request" /\ e.class = "ok"
                       THEN granted \cup {<<e.fm_assigner, e.fm_nonce>>} ELSE granted
       /\ redT' = IF e.fn = "init" THEN [n \in Names(e.assigners) |-> AssignerIn(e, n).red]
                  ELSE IF e.fn = "free_allocation_request" /\ e.class = "ok" THEN Add(redT, e.fm_assigner, e.fm_tokens)
                  ELSE redT

\* other families' events (Ledger "Txn" lines) do not touch the tracked state; the last Storage event stays in ev
TraceSkip ==
  /\ l <= Len(Trace) /\ Trace[l].ev \notin {"Reset", "Storage"}
  /\ l' = l + 1
  /\ UNCHANGED <<ev, prev, closedB, closed, closes, taint, granted, freshFM, redT>>

TraceNext == TraceReset \/ TraceStorage \/ TraceSkip
TraceSpec == TraceInit /\ [][TraceNext]_vars

IsSt0 == ev.ev = "Storage"
IsSt == IsSt0 /\ ~IsKnown(ev)                        \* property invariants skip events marked as listed known findings
IsStep == IsSt /\ prev # Null /\ ev.fn # "init"      \* a transaction with a projection before and after
OK == ev.class = "ok"

-----------------------------------------------------------------------------
(* harness limits: not verdicts (exit 2) *)
NoPanic == IsSt0 => ~ev.panic
HarnessRange == IsSt0 => ~ev.harness_big
HarnessExact == IsSt0 => ~ev.harness_inexact

-----------------------------------------------------------------------------
(* C12: an open allocation's challenge pool holds exactly the sum of the   *)
(* per-blobber outstanding challenge values; a closed allocation has none. *)
C12_ChallengePool ==
  IsSt => \A i \in 1..Len(ev.allocs) :
    LET a == ev.allocs[i] IN
      a.a \notin taint =>
      IF a.present
        THEN IF a.ent THEN ~a.cp_present
             ELSE a.cp_present /\ ~a.wrap /\ a.cp = SumIV(a.bas, 1)
        ELSE ~a.cp_present

-----------------------------------------------------------------------------
(* C13: blobber counters = sums over the open allocations it serves; never *)
(* above capacity when an allocation is assigned or grown.                 *)
C13_Allocated ==
  IsSt => \A i \in 1..Len(ev.blobs) :
    LET b == ev.blobs[i] IN (b.present /\ b.a \notin taint) => b.alloc = SumOverAllocs(ev, b.a, "size", 1)
C13_Offers ==
  IsSt => \A i \in 1..Len(ev.blobs) :
    LET b == ev.blobs[i] IN (b.sp_present /\ b.a \notin taint) => b.offers = SumOverAllocs(ev, b.a, "offer", 1)
PrevSize(n, b) == IF prev # Null /\ OpenIn(prev, n) /\ HasBA(AllocIn(prev, n), b) THEN BAIn(AllocIn(prev, n), b).size ELSE 0
C13_Capacity ==
  IsStep => \A i \in 1..Len(ev.allocs) :
    LET a == ev.allocs[i] IN
      a.present => \A j \in 1..Len(a.bas) :
        (a.bas[j].size > PrevSize(a.a, a.bas[j].a)) =>
           (HasBlob(ev, a.bas[j].a) /\ BlobIn(ev, a.bas[j].a).present /\ BlobIn(ev, a.bas[j].a).alloc <= BlobIn(ev, a.bas[j].a).cap)

-----------------------------------------------------------------------------
(* C14: closing.                                                            *)
IsClose == IsStep /\ OK /\ ev.fn \in {"finalize_allocation", "cancel_allocation"}
RECURSIVE Credited(_, _)
Credited(bas, i) ==
  IF i > Len(bas) THEN 0
  ELSE (IF HasBlob(ev, bas[i].a) /\ HasBlob(prev, bas[i].a) THEN BlobIn(ev, bas[i].a).rew - BlobIn(prev, bas[i].a).rew ELSE 0)
       + Credited(bas, i + 1)
C14_Close ==
  IsClose =>
    /\ OpenIn(prev, ev.target)                                    \* it was open
    /\ LET pa == AllocIn(prev, ev.target)
           na == AllocIn(ev, ev.target)
           refund == DBal(ev, pa.owner)
           spent == pa.wp + pa.cp - refund
       IN /\ ~na.present /\ ~na.cp_present                         \* allocation and pool removed
          /\ ev.fn = "finalize_allocation" => /\ ev.now >= pa.exp
                                              /\ (ev.from = pa.owner \/ HasBA(pa, ev.from))
          /\ ev.fn = "cancel_allocation" => /\ ev.now <= pa.exp
                                            /\ ev.from = pa.owner
          /\ refund >= 0 /\ spent >= 0
          \* blobbers get at most the outstanding challenge value + the cancellation charge; an enterprise
          \* allocation has no challenge pool: its blobbers are paid from the write pool, at most its cost
          /\ spent <= (IF pa.ent THEN pa.cost + Len(pa.bas) ELSE SumIV(pa.bas, 1) + pa.ccap)
          /\ Credited(pa.bas, 1) <= spent                         \* nothing credited beyond what the owner paid
\* "refunds every remaining write-pool token to the owner": what is not refunded went to the blobbers - no token
\* of the two pools is left behind at the contract (its own invariant so that the recorded finding about dead
\* providers' shares suspends only this, see TraceLib!IsKnownFor)
C14_RefundExact ==
  (IsClose /\ ~IsKnownFor(ev, "C14_RefundExact") /\ OpenIn(prev, ev.target)) =>
    LET pa == AllocIn(prev, ev.target)
        spent == pa.wp + pa.cp - DBal(ev, pa.owner)
    IN ~pa.ent => Credited(pa.bas, 1) = spent
C14_Once == \A n \in DOMAIN closes : closes[n] <= 1
AllocFns == {"finalize_allocation", "cancel_allocation", "write_pool_lock", "commit_connection", "challenge_response",
             "read_redeem", "update_allocation_request"}
C14_Dead ==
  IsSt => /\ (ev.target \in closedB /\ ev.fn \in AllocFns) => ~OK   \* nothing succeeds on a closed allocation
          /\ \A n \in closedB : ~OpenIn(ev, n)                      \* it never comes back
C14_OnlyClose ==                                                    \* an allocation disappears only by a successful close
  IsStep => \A n \in Names(prev.allocs) : (OpenIn(prev, n) /\ ~OpenIn(ev, n)) => (IsClose /\ ev.target = n)

-----------------------------------------------------------------------------
(* C15: read markers.                                                       *)
IsRead == IsStep /\ ev.fn = "read_redeem"
Abs(x) == IF x < 0 THEN -x ELSE x
C15_Read ==
  IsRead =>
    LET pre == Ctr(prev, ev.rm_blobber, ev.rm_client, ev.rm_alloc)
        post == Ctr(ev, ev.rm_blobber, ev.rm_client, ev.rm_alloc)
        debit == RPool(prev, ev.rm_client) - RPool(ev, ev.rm_client)
    IN IF OK
         THEN /\ ev.rm_sig                                        \* signed by the reading client's key
              /\ ev.rm_ctr >= pre /\ post = ev.rm_ctr
              /\ OpenIn(prev, ev.rm_alloc) /\ HasBA(AllocIn(prev, ev.rm_alloc), ev.rm_blobber)
              /\ LET price == BAIn(AllocIn(prev, ev.rm_alloc), ev.rm_blobber).rprice IN
                   \* price is per GB, one read = 64 KB = GB / 16384: debit = price * newly read size (any rounding)
                   Abs(debit * 16384 - price * (ev.rm_ctr - pre)) < 16384
         ELSE post = pre /\ debit = 0
C15_Monotone ==
  IsStep => \A j \in 1..Len(prev.rctrs) :
     Ctr(ev, prev.rctrs[j].b, prev.rctrs[j].c, prev.rctrs[j].al) >= prev.rctrs[j].d
C15_OnlyReads ==                                                    \* a read pool shrinks only by its owner's reads or unlock
  IsStep => \A j \in 1..Len(prev.rpools) :
     LET c == prev.rpools[j].a IN
       RPool(ev, c) < prev.rpools[j].d =>
          \/ (IsRead /\ OK /\ ev.rm_client = c)
          \/ (ev.fn = "read_pool_unlock" /\ OK /\ ev.from = c)

-----------------------------------------------------------------------------
(* C24: free-storage markers.  The owner may call add_free_storage_assigner   *)
(* again for a registered assigner (other limits, another key): limits and    *)
(* key are read from the projection BEFORE the redemption; "once per nonce"   *)
(* and "total redeemed within the total limit" are about the ASSIGNER, not    *)
(* about one registration of it, so the trace keeps its own record of the     *)
(* redeemed markers and of the granted amount besides the contract's.         *)
IsFree == IsStep /\ ev.fn = "free_allocation_request"
NoDup(s) == Cardinality(SeqSet(s)) = Len(s)
C24_Redeem ==
  IsFree =>
    IF OK
      THEN /\ HasAssigner(prev, ev.fm_assigner) /\ AssignerIn(prev, ev.fm_assigner).present
           /\ LET pa == AssignerIn(prev, ev.fm_assigner)
                  na == AssignerIn(ev, ev.fm_assigner)
              IN /\ ev.from = ev.fm_recipient                      \* only the named recipient
                 /\ ev.fm_sig                                      \* signed by the registered assigner key
                 /\ ev.fm_nonce \notin SeqSet(pa.nonces)           \* once per nonce (the contract's record)
                 /\ freshFM                                        \* once per nonce (this trace's own record)
                 /\ ev.fm_tokens <= pa.ind
                 /\ pa.red + ev.fm_tokens <= pa.tot              \* within the total limit (the contract's record)
                 /\ Get(redT, ev.fm_assigner, 0) <= pa.tot        \* within the total limit (this trace's own count,
                                                                  \*   this grant included)
                 /\ na.red = pa.red + ev.fm_tokens
                 /\ SeqSet(na.nonces) = SeqSet(pa.nonces) \cup {ev.fm_nonce}
           /\ \E i \in 1..Len(ev.allocs) :                          \* the allocation goes to the recipient
                /\ ev.allocs[i].present /\ ~HasAlloc(prev, ev.allocs[i].a)
                /\ ev.allocs[i].owner = ev.fm_recipient
      ELSE ev.assigners = prev.assigners
\* The redeemed amount is within the total limit.  The one way it can be above it is that the owner lowered the
\* limit of an assigner below what it had already redeemed (a re-registration, not a grant): then the amount has
\* not grown in this step - and, by induction over the trace, not since the limit was lowered.
PrevRed(n) == IF prev # Null /\ HasAssigner(prev, n) /\ AssignerIn(prev, n).present THEN AssignerIn(prev, n).red ELSE -1
C24_Limits ==
  IsSt => \A i \in 1..Len(ev.assigners) :
     LET a == ev.assigners[i] IN
       a.present => /\ NoDup(a.nonces)
                    /\ (a.red <= a.tot \/ (IsStep /\ a.red <= PrevRed(a.a)))
C24_OnlyFree ==
  IsStep => (ev.assigners # prev.assigners => (IsFree /\ OK) \/ ev.fn = "add_free_storage_assigner")

-----------------------------------------------------------------------------
(* C09: what the contract records as owed never grows by more than what    *)
(* the transaction moved into its wallet plus newly accrued minted rewards. *)
C09_Backed == IsStep => ev.L - prev.L <= (ev.W - prev.W) + ev.accrued
=============================================================================
