SPECIFICATION TraceSpec
INVARIANTS HarnessStoreRan C20_MergeKeepsAll C20_MergeKeepsAllKnown C20_TicketPerBurn C20_TicketPerBurnKnown C20_BurnTotals C20_BurnTotalsKnown C20_MintTotals C20_MintTotalsKnown
POSTCONDITION Accepted
CHECK_DEADLOCK FALSE
