------------------------------- MODULE Faucet -------------------------------
(***************************************************************************)
(* The faucet contract (smartcontract/faucetsc/sc.go).                     *)
(*                                                                         *)
(* Contract state: the global node (config, used, start of the global      *)
(* window), one user node per client (used, start of the client's window)  *)
(* and the contract wallet.  Every transaction first applies the window    *)
(* resets to the nodes it loaded (getGlobalVariables / getUserVariables);  *)
(* the reset is persisted only if the transaction saves the node.          *)
(*                                                                         *)
(* C17: within one reset window the tokens ACTUALLY TRANSFERRED to a       *)
(* client never exceed periodic_limit, the tokens transferred to all       *)
(* clients never exceed global_limit, and a pour never exceeds the         *)
(* faucet's balance.  The property is stated over observation variables    *)
(* (poured, gpoured) that sum the transfers, not over the contract's own   *)
(* counters.                                                               *)
(*                                                                         *)
(* LimitOnPoured = TRUE  : the design the property asks for: the limits    *)
(*                         are checked against the amount that is poured.  *)
(* LimitOnPoured = FALSE : the code as written (validPourRequest checks    *)
(*                         gn.PourAmount, pour() transfers txn.Value when  *)
(*                         0 < txn.Value < max_pour_amount).               *)
(***************************************************************************)
EXTENDS Integers, FiniteSets, TLC

CONSTANTS Client,         \* clients that send transactions
          Configs,        \* set of valid configurations update-settings may install
          InitCfg,        \* configuration at genesis
          InitBal,        \* faucet wallet at genesis
          Values,         \* requested txn.Value of a pour
          Refills,        \* amounts of a refill
          MaxBal,         \* bound of the wallet in the model
          MaxTime,        \* bound of the clock in the model
          MaxStep,        \* largest clock step
          LimitOnPoured

None == -1                \* "no window yet" (node absent / zero start time)

VARIABLES now,            \* timestamp of the next transaction
          bal,            \* faucet wallet
          cfg,            \* [pour, maxPour, periodic, global, indReset, gReset]
          used, ustart,   \* user nodes
          gused, gstart,  \* global node
          poured, wstart, \* observation: transferred to c in the window identified by its start
          gpoured, gwstart,
          last            \* the last step as an observer saw it

cvars == <<now, bal, cfg, used, ustart, gused, gstart>>
ovars == <<poured, wstart, gpoured, gwstart, last>>
vars == <<cvars, ovars>>

NoPour == [op |-> "none", c |-> "none", amt |-> 0, prebal |-> 0, uearly |-> FALSE, gearly |-> FALSE]

(* faucetsc/models.go validate() *)
ValidCfg(c) == /\ c.pour >= 1 /\ c.pour <= c.maxPour /\ c.maxPour <= c.periodic
               /\ c.periodic <= c.global /\ c.indReset >= 1 /\ c.gReset >= c.indReset

ASSUME \A c \in Configs \cup {InitCfg} : ValidCfg(c)

Init ==
  /\ now = 0 /\ bal = InitBal /\ cfg = InitCfg
  /\ used = [c \in Client |-> 0] /\ ustart = [c \in Client |-> None]
  /\ gused = 0 /\ gstart = None
  /\ poured = [c \in Client |-> 0] /\ wstart = [c \in Client |-> None]
  /\ gpoured = 0 /\ gwstart = None
  /\ last = NoPour

-----------------------------------------------------------------------------
(* getGlobalVariables, sc.go:264-276 *)
GEff == IF gstart = None \/ now - gstart >= cfg.gReset
          THEN [used |-> 0, start |-> now] ELSE [used |-> gused, start |-> gstart]
(* getUserVariables, sc.go:237-254 *)
UEff(c) == IF ustart[c] = None \/ now - ustart[c] >= cfg.indReset \/ now - ustart[c] >= cfg.gReset
             THEN [used |-> 0, start |-> now] ELSE [used |-> used[c], start |-> ustart[c]]

Amount(v)  == IF v > 0 /\ v < cfg.maxPour THEN v ELSE cfg.pour      \* sc.go:166-169
Checked(v) == IF LimitOnPoured THEN Amount(v) ELSE cfg.pour         \* sc.go:83-128

(* the observer: a window is identified by the start stored in the node; a    *)
(* new start before the old window's period elapsed is an early reset.        *)
MinReset == IF cfg.indReset < cfg.gReset THEN cfg.indReset ELSE cfg.gReset
ObsUser(c, nstart, amt) ==
  /\ poured' = [poured EXCEPT ![c] = IF nstart # wstart[c] THEN amt ELSE @ + amt]
  /\ wstart' = [wstart EXCEPT ![c] = nstart]
UEarly(c, nstart) == nstart # wstart[c] /\ wstart[c] # None /\ nstart - wstart[c] < MinReset
ObsGlobal(nstart, amt) ==
  /\ gpoured' = (IF nstart # gwstart THEN amt ELSE gpoured + amt)
  /\ gwstart' = nstart
GEarly(nstart) == nstart # gwstart /\ gwstart # None /\ nstart - gwstart < cfg.gReset

Pour(c, v) ==
  LET g == GEff  u == UEff(c)  amt == Amount(v)  chk == Checked(v)
      ok == chk <= bal /\ u.used + chk <= cfg.periodic /\ g.used + chk <= cfg.global
  IN IF ok /\ amt <= bal
       THEN /\ bal' = bal - amt
            /\ used' = [used EXCEPT ![c] = u.used + amt] /\ ustart' = [ustart EXCEPT ![c] = u.start]
            /\ gused' = g.used + amt /\ gstart' = g.start
            /\ ObsUser(c, u.start, amt) /\ ObsGlobal(g.start, amt)
            /\ last' = [op |-> "pour", c |-> c, amt |-> amt, prebal |-> bal,
                        uearly |-> UEarly(c, u.start), gearly |-> GEarly(g.start)]
            /\ UNCHANGED <<now, cfg>>
       ELSE \* chargeable failure (limits) or, as written, a transfer larger than the wallet
            \* (the whole transaction is rejected by the ledger): nothing is persisted
            /\ last' = NoPour
            /\ UNCHANGED <<cvars, poured, wstart, gpoured, gwstart>>

Refill(v) ==                                   \* sc.go:207-226: saves the global node
  LET g == GEff IN
  /\ bal + v <= MaxBal
  /\ bal' = bal + v /\ gused' = g.used /\ gstart' = g.start
  /\ ObsGlobal(g.start, 0)
  /\ last' = [NoPour EXCEPT !.op = "refill", !.gearly = GEarly(g.start)]
  /\ UNCHANGED <<now, cfg, used, ustart, poured, wstart>>

Update(nc) ==                                  \* sc.go:130-158: owner installs a valid config
  LET g == GEff IN
  /\ nc \in Configs /\ nc # cfg
  /\ cfg' = nc /\ gused' = g.used /\ gstart' = g.start
  /\ ObsGlobal(g.start, 0)
  /\ last' = [NoPour EXCEPT !.op = "update", !.gearly = GEarly(g.start)]
  /\ UNCHANGED <<now, bal, used, ustart, poured, wstart>>

Tick(d) == /\ now + d <= MaxTime /\ now' = now + d /\ last' = NoPour
           /\ UNCHANGED <<bal, cfg, used, ustart, gused, gstart, poured, wstart, gpoured, gwstart>>

Next == \/ \E c \in Client, v \in Values : Pour(c, v)
        \/ \E v \in Refills : Refill(v)
        \/ \E nc \in Configs : Update(nc)
        \/ \E d \in 1..MaxStep : Tick(d)
Spec == Init /\ [][Next]_vars

-----------------------------------------------------------------------------
TypeOK == /\ now \in 0..MaxTime /\ bal \in 0..MaxBal /\ cfg \in Configs \cup {InitCfg}
          /\ \A c \in Client : used[c] >= 0 /\ poured[c] >= 0
          /\ gused >= 0 /\ gpoured >= 0

(* C17 *)
C17_ClientLimit == last.amt > 0 => poured[last.c] <= cfg.periodic
C17_GlobalLimit == last.amt > 0 => gpoured <= cfg.global
C17_Balance     == last.amt > 0 => last.amt <= last.prebal
C17_Window      == ~last.uearly /\ ~last.gearly

(* the contract's counters are the observed sums (holds in both variants)   *)
CountersAreSums == /\ \A c \in Client : ustart[c] = wstart[c] /\ used[c] = poured[c]
                   /\ gstart = gwstart /\ gused = gpoured

(* what the code as written does guarantee: the overshoot is bounded by one  *)
(* pour of at most max(pour, maxPour-1) on top of a total that passed the    *)
(* check for `pour`.                                                         *)
MaxAmt == IF cfg.maxPour - 1 > cfg.pour THEN cfg.maxPour - 1 ELSE cfg.pour
AsWritten_ClientBound == last.amt > 0 => poured[last.c] <= cfg.periodic - cfg.pour + MaxAmt
AsWritten_GlobalBound == last.amt > 0 => gpoured <= cfg.global - cfg.pour + MaxAmt
=============================================================================
