SPECIFICATION TraceSpec
INVARIANTS C35_RankSame C35_RankPermutation C35_OnePerRank C35_HeaviestFirst C35_AddStores C35_UpdateReplaces
POSTCONDITION Accepted
CHECK_DEADLOCK FALSE
