SPECIFICATION Spec
CONSTANTS
  Sender = {"c1"}
  MaxNonce = 2
  Tol = 1
  FutureNonce = 2
  MaxTx = 2
  CleanupMargin = 1
  OwnKeepsPast = TRUE
  Kinds = {"ok"}
  CtOffsets = {0}
  MaxClock = 2
  SignUntil = 0
  MaxTxns = 2
  MaxBlocks = 2
  MaxRecv = 0
  RecvTimes = {0}
  AllowResubmit = TRUE
  Interleave = TRUE
INVARIANTS TypeOK AtMostOncePerBranch NonceOrderPerBranch NeverAfterExpiry OnlyBound GeneratedVerifies GenMaximal GenRefinesBigStep
CHECK_DEADLOCK FALSE
