-------------------------- MODULE Trace_Notarization --------------------------
(* Every `Msg` event is one byzantine message delivered to a REAL miner through *)
(* one of its three real ticket paths, followed by a read-back of the node's    *)
(* view of the block: notarized flag, membership in the round's notarized       *)
(* list, and the number of DISTINCT miners of the round's magic block whose     *)
(* ticket on the block object is a valid signature of the block hash            *)
(* (recomputed by the harness with the real keys).                              *)
EXTENDS TraceLib
VARIABLES l, ev
vars == <<l, ev>>
Null == [ev |-> "none"]
TraceInit == l = 1 /\ ev = Null
TraceStep == l <= Len(Trace) /\ l' = l + 1 /\ ev' = Trace[l]
TraceSpec == TraceInit /\ [][TraceStep]_vars
IsMsg == ev.ev = "Msg" /\ ~IsKnown(ev)
(* C31 (Notarization!NotarizedOnlyWithQuorum on the real node) *)
C31_QuorumOfVerifiedTickets == IsMsg => ((ev.notar \/ ev.in_round) => ev.good >= ev.T)
=============================================================================
