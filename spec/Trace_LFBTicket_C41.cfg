SPECIFICATION TraceSpec
INVARIANTS HarnessWorker C41_Monotone C41_Authentic
POSTCONDITION Accepted
CHECK_DEADLOCK FALSE
