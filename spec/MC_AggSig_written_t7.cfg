SPECIFICATION Spec
CONSTANTS
  P = 7
  MaxN = 3
  KeyVals = {2, 3}
  MsgVals = {1, 5}
  WrongKeys = {6}
  WrongMsgs = {4}
  Deltas = {1, 2, 3, 4, 5, 6}
  SameModes = {FALSE}
  MaxTouched = 3
  GenMaxMixed = 2
  GenWithRepeat = FALSE
  MaxPasses = 1
  ReKeys = {}
  AsCoded = TRUE
INVARIANTS TypeOK ObjectsCurrent Completeness SoundNonCancelling SingleFaultDetected BatchSplitIndependent OnlyGapIsCancelling
CHECK_DEADLOCK FALSE
