SPECIFICATION Spec
CONSTANTS
  Names = {"f1", "f2", "f3"}
  Rounds = {0, 1, 2, 3, 4}
  NoFork = NoFork
  Aliased = FALSE
  Inclusive = FALSE
  MaxOps = 5
INVARIANTS CacheCoherent C43_MissingFork C43_BeforeFork C43_AfterFork
PROPERTIES C43_OnlyOwnerRecords
CHECK_DEADLOCK FALSE
