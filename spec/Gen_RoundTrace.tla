--------------------------- MODULE Gen_RoundTrace ---------------------------
(* Behaviour generator of the growth family "roundtrace": TLC -simulate walks   *)
(* RoundTrace.tla (one node, the byzantine-capable environment, at-rest          *)
(* scheduling) with the REAL node's parameters (4 miners, VRF threshold 3,       *)
(* notarization threshold 3, 2 generators, 2 soft timeouts before a restart,     *)
(* 5 rounds ahead, 3 confirmations) and prints, for every walk that used up its  *)
(* budget, the environment's steps as JSON: proposals made, messages that        *)
(* reached a receipt handler, their dispatch, timeouts, LFB tickets.  vdriver    *)
(* replays each list on the real miner (best effort: who is a generator depends  *)
(* on the real seeds, so a step whose block does not exist in the real run is    *)
(* skipped); the recorded real execution is then validated like any other.       *)
EXTENDS MC_RoundTrace, Json
VARIABLE hist

RECURSIVE SetToSeq(_)
SetToSeq(S) == IF S = {} THEN <<>> ELSE LET x == CHOOSE y \in S : TRUE IN <<x>> \o SetToSeq(S \ {x})

\* every step record has the same fields
St(k) == [k |-> k, from |-> "", r |-> 0, toc |-> 0, prev |-> <<>>, good |-> TRUE, b |-> "", tks |-> <<>>, bad |-> <<>>,
          gen |-> "", seed |-> <<>>, pb |-> "", v |-> 0, forged |-> FALSE, valid |-> TRUE]
OfMsg(k, m) ==
  CASE m.k = "vrf" -> [St(k) EXCEPT !.from = m.from, !.r = m.r, !.toc = m.sh.toc, !.prev = m.sh.prev, !.good = m.sh.good, !.b = "vrf"]
    [] m.k = "pb" -> [St(k) EXCEPT !.from = m.from, !.r = m.r, !.b = m.b, !.gen = B[m.b].gen, !.seed = B[m.b].seed, !.pb = B[m.b].prev,
                                   !.v = B[m.b].v, !.forged = ~B[m.b].pvalid, !.valid = B[m.b].valid, !.tks = <<"pb">>]
    [] m.k = "tk" -> [St(k) EXCEPT !.from = m.from, !.r = m.r, !.b = m.b, !.valid = m.valid, !.gen = B[m.b].gen, !.seed = B[m.b].seed,
                                   !.pb = B[m.b].prev, !.tks = <<"tk">>]
    [] m.k = "nz" -> [St(k) EXCEPT !.from = m.from, !.r = m.r, !.b = m.b, !.tks = <<"nz">> \o SetToSeq(m.tks), !.bad = SetToSeq(m.bad),
                                   !.gen = B[m.b].gen, !.seed = B[m.b].seed, !.pb = B[m.b].prev]

GInit == Init /\ hist = <<>>
GPropose == \E m \in Peer, r \in NearRounds, p \in DOMAIN B, kind \in ProposalKinds : \E seed \in ProposalSeeds(r) :
              /\ EnvTurn /\ ProposeWith(m, r, p, kind, seed)
              /\ hist' = Append(hist, [St("propose") EXCEPT !.b = "p" \o ToString(cnt.blocks + 1), !.gen = m, !.r = r, !.seed = seed,
                                                            !.pb = p, !.v = kind[1], !.forged = kind[2], !.valid = kind[3]])
GTicket == \E r \in 1..MaxTicket : EnvTurn /\ TicketWith(r) /\ hist' = Append(hist, [St("lfbticket") EXCEPT !.r = r])
GTimeout == \E r \in DOMAIN n.R : EnvTurn /\ TimeoutWith(r) /\ hist' = Append(hist, [St("timeout") EXCEPT !.r = r])
GRecv == \E m \in Msgs : EnvTurn /\ RecvWith(m) /\ hist' = Append(hist, OfMsg("recv", m))
GHandle == \E m \in n.mq : HandleWith(m, FALSE) /\ hist' = Append(hist, OfMsg("handle", m))
GOther == (Upn \/ Generate \/ CollectorRecv \/ CollectorTimer \/ MoveBeginStep \/ MoveEndStep \/ Finalize) /\ UNCHANGED hist
\* a walk ends (deadlock) when its delivery budget is used up and the node is at rest
Done == cnt.deliver = MaxDeliver /\ ~Busy(n) /\ n.mq = {}
GNext == ~Done /\ (GPropose \/ GTicket \/ GTimeout \/ GRecv \/ GHandle \/ GOther)
GSpec == GInit /\ [][GNext]_<<vars, hist>>

GPrint == Done => PrintT(<<"BEHAVIOUR", ToJson(hist)>>)
=============================================================================
