------------------------------ MODULE MC_Multisig ------------------------------
(* Exhaustive small-constant instances of Multisig.tla: 3 signers, one          *)
(* stranger, T in 1..3 (one cfg each; T = 1 cannot be registered), two          *)
(* transfers (compatible / incompatible / larger than the balance), every vote  *)
(* sequence over the proposal's lifetime and beyond.                            *)
EXTENDS Multisig
TrA == [to |-> "r1", amt |-> 2]
TrB == [to |-> "r2", amt |-> 2]
TrBig == [to |-> "r1", amt |-> 9]
MCTransfers == {TrA, TrB, TrBig}
\* the trailing conjunct makes TLC report coverage under these names
A_Register == Register /\ TRUE
A_Vote == (\E s \in Signer \cup Stranger, tr \in Transfers, ok, late \in BOOLEAN : Vote(s, tr, ok, late)) /\ TRUE
A_Prune == Prune /\ TRUE
A_Tick == (\E d \in 1..MaxStep : Tick(d)) /\ TRUE
MCNext == A_Register \/ A_Vote \/ A_Prune \/ A_Tick
MCSpec == Init /\ [][MCNext]_vars
=============================================================================
