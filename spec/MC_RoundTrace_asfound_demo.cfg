SPECIFICATION Spec
CONSTANTS
  Miner = {"m1", "m2", "m3"}
  Self = "m1"
  Order <- MCOrder3
  T = 2
  NT = 2
  NGen = 2
  RestartMult = 0
  TocCap = 1
  Ahead = 2
  Confirm = 2
  MaxRound = 2
  MaxToc = 0
  MaxBlocks = 1
  ProposalKinds <- MCKindsQuick
  MaxDeliver = 3
  MaxQueue = 1
  MaxTimeouts = 1
  MaxTicket = 0
  WithNotarizations = FALSE
  MergeUnverified = TRUE
  EnvOnlyAtRest = TRUE
CONSTRAINT Bounded
INVARIANTS
  TypeOK NotarizedHasQuorum ListedIsNotarized SeedFromShares ShareCap OneNotarizedPerRank
  FinalizedIsNotarized FinalizedIsConfirmed NeverFarAhead OwnTicketSound MovedOnNotarized
PROPERTIES
  LFBSingleChain PhaseForward TimeoutCountMonotone FinalizedSticky CurrentRoundMonotone
CHECK_DEADLOCK FALSE
