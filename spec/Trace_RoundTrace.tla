-------------------------- MODULE Trace_RoundTrace --------------------------
(***************************************************************************)
(* Trace specification of the growth family "roundtrace": recorded         *)
(* executions of a REAL miner (miner m1 of four) running the round         *)
(* protocol against three simulated miners, the clock and the sharders     *)
(* (harness/drivers/roundtrace).                                           *)
(*                                                                         *)
(* Events:                                                                 *)
(*   Reset      start of a trace: the node restarts on a finalized base    *)
(*              block (round 0 of the trace)                               *)
(*   Start      mc.StartNextRound on the base round                        *)
(*   Recv       a message reaches a receipt handler (miner/m_handler.go);   *)
(*              `queued` = it got into the node's message channel          *)
(*   Handle     the message worker dispatches it (HandleVRFShare /         *)
(*              processVerifyBlock / handleVerificationTicketMessage /     *)
(*              notarizationProcess)                                       *)
(*   Timeout    the round worker's timer: mc.HandleRoundTimeout            *)
(*   LFBTicket  the sharders' latest finalized round                       *)
(*   Obs        projection of the node's state after it came to rest       *)
(*                                                                         *)
(* Tracked: n = the state the MODEL (RoundTraceOps, the operators explored *)
(* exhaustively by RoundTrace.tla) predicts for the node: every stimulus   *)
(* is applied with the handler's operator and the spawned goroutines are   *)
(* run to rest (Settle).  Harness* invariants compare the prediction with  *)
(* what the real node did (a mismatch means model and code disagree: the   *)
(* machinery must be looked at, never a verdict).  Cxx_* invariants are    *)
(* instances of listed properties, evaluated on the values read back from  *)
(* the real node only.                                                     *)
(***************************************************************************)
EXTENDS TraceLib, RoundTraceOps

VARIABLES l, ev, n, pobs, lobs, stim, flt, rkseen
vars == <<l, ev, n, pobs, lobs, stim, flt, rkseen>>
Null == [ev |-> "none"]

N(x) == IF x = "" THEN NoBlock ELSE x
ToSet(s) == {s[i] : i \in 1..Len(s)}
MinerOf(i) == CHOOSE m \in Miner : m = "m" \o ToString(i)

\* ---- lookahead: the next projection carries the facts of the universe (what blocks carry, rankings)
RECURSIVE NextObsAt(_)
NextObsAt(i) == IF i > Len(Trace) THEN 0 ELSE IF Trace[i].ev = "Obs" THEN i ELSE IF Trace[i].ev = "Reset" THEN 0 ELSE NextObsAt(i + 1)
NoObs == [rounds |-> <<>>, blocks |-> <<>>, univ |-> <<>>]
\* (a message received at the very end of a trace has no projection after it: the last one seen serves)
NextObs(i) == IF NextObsAt(i) # 0 THEN Trace[NextObsAt(i)] ELSE IF lobs.ev = "Obs" THEN lobs ELSE NoObs

RanksFn(rs) == [m \in Miner |-> LET i == CHOOSE k \in 1..Len(rs) : m = "m" \o ToString(k) IN rs[i]]
RkOf(o) == LET S == {i \in 1..Len(o.rounds) : o.rounds[i].seed # <<>> /\ Len(o.rounds[i].ranks) = Cardinality(Miner)} IN
           [s \in {o.rounds[i].seed : i \in S} |-> RanksFn(o.rounds[CHOOSE i \in S : o.rounds[i].seed = s].ranks)]
AttrOf(u) == [r |-> u.r, gen |-> u.gen, seed |-> u.seed, prev |-> N(u.prev), ptk |-> ToSet(u.ptk), valid |-> u.valid, pvalid |-> u.pvalid]
UnivOf(o, base) ==
  LET U == o.univ IN
  [b \in {U[i].b : i \in 1..Len(U)} \cup {"g"} |->
     IF \E i \in 1..Len(U) : U[i].b = b
       THEN LET u == U[CHOOSE i \in 1..Len(U) : U[i].b = b] IN
            AttrOf(u)
       ELSE base]
OwnOf(B) == LET S == {b \in DOMAIN B : B[b].gen = Self /\ B[b].r > 0} IN
            [k \in {<<B[b].r, B[b].seed, B[b].prev>> : b \in S} |-> CHOOSE b \in S : <<B[b].r, B[b].seed, B[b].prev>> = k]

BaseAttr == [r |-> 0, gen |-> "m0", seed |-> <<9>>, prev |-> NoBlock, ptk |-> {}, valid |-> TRUE, pvalid |-> TRUE]
\* a proposal carries its own facts as well (it may be the first mention of the block)
OwnFacts(i) == IF "bu" \in DOMAIN Trace[i] /\ Len(Trace[i].bu) > 0 THEN (Trace[i].bu[1].b :> AttrOf(Trace[i].bu[1])) ELSE <<>>
Univ(i) == UnivOf(NextObs(i), BaseAttr) @@ OwnFacts(i)
\* the race of processVerifyBlock (see RoundTraceOps!PrevLinked) went the merging way if the attached tickets are
\* on the node's previous block afterwards
ObsTk(o, b) == LET S == {k \in 1..Len(o.blocks) : o.blocks[k].b = b} IN
               IF S = {} THEN {} ELSE ToSet(o.blocks[CHOOSE k \in S : TRUE].tk)
\* ... and the round of the previous block does not hold them as collected tickets (which only the verifying
\* path, updatePreviousBlockNotarization, does)
ObsRtk(o, q) == LET S == {k \in 1..Len(o.rounds) : o.rounds[k].r = q} IN
                IF S = {} THEN {} ELSE {<<p.a, "m" \o ToString(p.d)>> : p \in ToSet(o.rounds[CHOOSE k \in S : TRUE].rtk)}
MrgOf(o, B) == {b \in DOMAIN B : /\ B[b].prev # NoBlock /\ B[b].ptk # {}
                                  /\ B[b].ptk \subseteq ObsTk(o, B[b].prev)
                                  /\ ~({<<B[b].prev, m>> : m \in B[b].ptk} \subseteq ObsRtk(o, B[b].r - 1))}
Env(i) == [rk |-> RkOf(NextObs(i)) @@ rkseen, own |-> OwnOf(Univ(i)), mrg |-> MrgOf(NextObs(i), Univ(i))]

\* ---- the node right after mc.SetLatestFinalizedBlock(base block)
BaseRound == [NewRnd EXCEPT !.seed = <<9>>, !.phase = Share, !.nb = <<"g">>, !.best = "g", !.fin = 2, !.proposed = {"g"}]
Node0 == [cur |-> 0, lfb |-> "g", lfbr |-> 0, tk |-> 0, rtc |-> 0,
          R |-> (0 :> BaseRound),
          K |-> ("g" :> [st |-> StNotarized, tk |-> Miner \ {Self}, bad |-> {}, notar |-> TRUE, rank |-> 0, comp |-> TRUE]),
          rfin |-> (0 :> "g"),
          mq |-> {}, gen |-> {}, mov |-> {}, movw |-> {}, fq |-> <<>>, upn |-> {}, nzp |-> {}]

Fuel == 200
Rest(x, i) == Settle(x, Env(i), Univ(i), Fuel)
\* the rank the base block got is a fact of the universe too (the base seed's ranking is never observed)
WithBaseRank(x, i) ==
  LET o == NextObs(i)
      S == {k \in 1..Len(o.blocks) : o.blocks[k].b = "g"} IN
  IF S = {} THEN x ELSE [x EXCEPT !.K["g"].rank = o.blocks[CHOOSE k \in S : TRUE].rank]

TraceInit == l = 1 /\ ev = Null /\ n = Node0 /\ pobs = Null /\ lobs = Null /\ stim = Null /\ flt = TRUE /\ rkseen = <<>>

IsEvent(e) == l <= Len(Trace) /\ Trace[l].ev = e /\ l' = l + 1 /\ ev' = Trace[l]

TraceReset ==
  /\ IsEvent("Reset")
  /\ n' = Node0 /\ pobs' = Null /\ lobs' = Null /\ stim' = Null /\ flt' = TRUE /\ rkseen' = <<>>

TraceStart ==
  /\ IsEvent("Start")
  /\ n' = Rest(StartNextRound(WithBaseRank(n, l), Env(l), 0), l)
  /\ stim' = Trace[l] /\ UNCHANGED <<pobs, lobs, flt, rkseen>>

ShareOf(e) == [m |-> e.from, toc |-> e.toc, prev |-> e.prevseed, good |-> e.valid]

Filter(e, B) ==
  CASE e.kind = "vrf" -> FilterVRF(n, e.r, e.from)
    [] e.kind = "pb" -> FilterPB(n, e.b, B)
    [] e.kind = "tk" -> FilterTK(n, e.r, e.b, e.from, B)
    [] e.kind = "nz" -> FilterNZ(n, e.r, e.b)

TraceRecv ==
  /\ IsEvent("Recv")
  /\ LET e == Trace[l]
         B == Univ(l) IN
     /\ flt' = Filter(e, B)
     /\ n' = IF e.kind = "tk" THEN RecvTKEffect(n, e.r, e.b, B) ELSE n
  /\ UNCHANGED <<pobs, lobs, stim, rkseen>>

Handled(e, i) ==
  LET B == Univ(i)
      E == Env(i) IN
  CASE e.kind = "vrf" -> HandleVRFShare(n, E, e.r, ShareOf(e))
    [] e.kind = "pb" -> ProcessVerifyBlock(n, E, e.b, B)
    [] e.kind = "tk" -> HandleTicket(n, E, e.r, e.b, e.from, e.valid, B)
    [] e.kind = "nz" -> IF NzQueued(n, e.b)
                          THEN NotarizationProcess(HandleNotarization(n, e.b), E, e.r, e.b, ToSet(e.tks), ToSet(e.bad), B)
                          ELSE n

TraceHandle ==
  /\ IsEvent("Handle")
  /\ n' = Rest(Handled(Trace[l], l), l)
  /\ stim' = Trace[l] /\ UNCHANGED <<pobs, lobs, flt, rkseen>>

TraceTimeout ==
  /\ IsEvent("Timeout")
  /\ n' = Rest(HandleRoundTimeout(n, Env(l), Trace[l].r), l)
  /\ stim' = Trace[l] /\ UNCHANGED <<pobs, lobs, flt, rkseen>>

TraceLFBTicket ==
  /\ IsEvent("LFBTicket")
  /\ n' = Rest([n EXCEPT !.tk = Max2(@, Trace[l].r)], l)
  /\ stim' = Trace[l] /\ UNCHANGED <<pobs, lobs, flt, rkseen>>

TraceObs ==
  /\ IsEvent("Obs")
  /\ pobs' = lobs /\ lobs' = Trace[l]
  /\ rkseen' = RkOf(Trace[l]) @@ rkseen
  /\ UNCHANGED <<n, stim, flt>>

TraceNext == TraceReset \/ TraceStart \/ TraceRecv \/ TraceHandle \/ TraceTimeout \/ TraceLFBTicket \/ TraceObs
TraceSpec == TraceInit /\ [][TraceNext]_vars

-----------------------------------------------------------------------------
IsObs == ev.ev = "Obs"
ObsRound(o, q) == LET S == {i \in 1..Len(o.rounds) : o.rounds[i].r = q} IN
                  IF S = {} THEN Null ELSE o.rounds[CHOOSE i \in S : TRUE]
ObsBlock(o, b) == LET S == {i \in 1..Len(o.blocks) : o.blocks[i].b = b} IN
                  IF S = {} THEN Null ELSE o.blocks[CHOOSE i \in S : TRUE]
Rounds(o) == {o.rounds[i].r : i \in 1..Len(o.rounds)}
Blocks(o) == {o.blocks[i].b : i \in 1..Len(o.blocks)}
PairSet(ps) == {<<ps[i].a, ps[i].d>> : i \in 1..Len(ps)}
SeqMap(s, F(_)) == [i \in 1..Len(s) |-> F(s[i])]

(* ---- model / code conformance (harness matters, exit 2, never a verdict) -------------------------------- *)
(* HarnessFilter : a receipt handler of miner/m_handler.go let a message through / dropped it where the     *)
(*                 model's Filter* operator says the opposite (or the node's push into its message channel *)
(*                 took longer than the harness waits)                                                       *)
(* HarnessCur    : chain.GetCurrentRound differs from the model's cur (a move to the next round happened / *)
(*                 did not happen: ProgressOnNotarization, waitNotAhead, StartNextRound)                     *)
(* HarnessLFB    : latest finalized block, its round, the LFB ticket or the chain's round timeout count     *)
(*                 differ (finalization hand-off, restartRound)                                              *)
(* HarnessRounds : a round object differs from the model's (printed: field, model value, code value): VRF   *)
(*                 share handling, seed, phase, timeout counts, proposals, verification collector, own     *)
(*                 ticket, notarized list, finalizing state                                                  *)
(* HarnessBlocks : a block object differs: block state, ticket signers, number of valid tickets, notarized *)
(*                 flag, stored rank, state computed                                                         *)
(* HarnessAtRest : the model still has a goroutine to run after Settle's fuel was used up                   *)
(* Either the model does not describe the code (the usual case while the code changes in a way no listed    *)
(* property cares about) or the harness observed the node before it had come to rest.                       *)
\* the receipt handler let the message through exactly when the model says so
HarnessFilter == ev.ev = "Recv" => flt = ev.queued

D(name, model, obs) == IF model = obs THEN {} ELSE {<<name, "model", model, "code", obs>>}
RoundDiff(o, q) ==
  LET x == ObsRound(o, q)
      R == n.R[q] IN
  D("toc", R.toc, x.toc) \cup D("soft", R.soft, x.soft) \cup D("phase", R.phase, x.phase) \cup D("seed", R.seed, x.seed)
  \cup D("shares", R.shares, ToSet(x.shares))
  \cup D("cache", {<<c.m, c.toc>> : c \in R.cache}, PairSet(x.cache))
  \cup D("vrf_own", R.vrfown, x.vrf_own)
  \cup D("proposed", R.proposed, {N(b) : b \in ToSet(x.proposed)})
  \cup D("best", R.best, N(x.best)) \cup D("own", R.own, N(x.own))
  \cup D("nb", R.nb, x.nb)
  \cup D("fin", R.fin, x.fin) \cup D("coll", R.coll, x.coll)
  \cup D("rtk", R.rtk, {<<p[1], MinerOf(p[2])>> : p \in PairSet(x.rtk)})
BlockDiff(o, b) ==
  LET x == ObsBlock(o, b)
      k == n.K[b] IN
  D("st", k.st, x.st) \cup D("tk", k.tk, ToSet(x.tk)) \cup D("notar", k.notar, x.notar) \cup D("rank", k.rank, x.rank)
  \cup D("good", Cardinality(k.tk \ k.bad), x.good)
  \cup D("computed", k.comp, x.computed)
\* a mismatch is printed (model value, code value) before the invariant fails
Same(what, diff) == diff = {} \/ ~PrintT(<<"MISMATCH", what, diff>>)

HarnessCur == IsObs => Same("cur", D("cur", n.cur, ev.cur))
HarnessLFB == IsObs => Same("lfb", D("lfb", n.lfb, ev.lfb) \cup D("lfb_r", n.lfbr, ev.lfb_r) \cup D("tk", n.tk, ev.tk) \cup D("rtc", n.rtc, ev.rtc))
HarnessRounds == IsObs => /\ Same("rounds", D("rounds", DOMAIN n.R \ {0}, Rounds(ev)))
                          /\ \A q \in Rounds(ev) \cap DOMAIN n.R : Same(<<"round", q>>, RoundDiff(ev, q))
HarnessBlocks == IsObs => /\ Same("blocks", D("blocks", DOMAIN n.K, Blocks(ev)))
                          /\ \A b \in Blocks(ev) \cap DOMAIN n.K : Same(<<"block", b>>, BlockDiff(ev, b))
\* everything spawned has run
HarnessAtRest == IsObs => ~Busy(n)

(* ---- instances of listed properties, on the values read back from the real node ---- *)
Chk == IsObs /\ ~IsKnown(ev)
HavePrev == pobs.ev = "Obs"

(* C31: "A node treats a block as notarized only if it holds at least the threshold number of     *)
(* verification tickets from distinct miners of that round's magic block, each a valid signature  *)
(* on the block hash."  `good` = distinct magic-block miners whose ticket on the node's block     *)
(* object verifies (recomputed by the harness); NT = 3 of 4.                                      *)
C31_NotarizedOnlyWithQuorum ==
  Chk => /\ \A i \in 1..Len(ev.blocks) : ev.blocks[i].notar => ev.blocks[i].good >= 3
         /\ \A i \in 1..Len(ev.rounds) : \A j \in 1..Len(ev.rounds[i].nb) :
               ObsBlock(ev, ev.rounds[i].nb[j]) # Null /\ ObsBlock(ev, ev.rounds[i].nb[j]).good >= 3

(* C33: "For a given round, timeout count and previous seed, any two sets of at least threshold-  *)
(* many verified VRF shares ... yield the same round random seed. Shares that fail verification   *)
(* are never counted, and fewer than threshold shares never produce a seed."  A round without a   *)
(* notarized block can have its seed from its own VRF only; seed_ref = the seed computed by the   *)
(* harness from the other three miners' shares for the round's (number, timeout count, previous   *)
(* seed); shares_valid = stored shares that verify.                                               *)
C33_SeedFromThresholdShares ==
  Chk => \A i \in 1..Len(ev.rounds) : LET x == ev.rounds[i] IN
            (x.seed # <<>> /\ x.nb = <<>>) => (x.seed = x.seed_ref /\ x.shares_valid >= 3)
C33_OnlyVerifiedSharesCounted ==
  Chk => \A i \in 1..Len(ev.rounds) : LET x == ev.rounds[i] IN
            x.seed_ref # <<>> => (x.shares_valid = Len(x.shares) /\ Len(x.shares) <= 3)

(* C35: "All nodes with the same round seed and miner set compute the same ranking, and it is a   *)
(* permutation ... A round keeps at most one notarized block per rank, ordered from heaviest to   *)
(* lightest".  ranks = the node's rank of m1..m4 under the round's seed; nb_ranks = stored rank   *)
(* of the round's notarized blocks in list order.                                                 *)
C35_RankingIsPermutation ==
  Chk => \A i \in 1..Len(ev.rounds) : LET x == ev.rounds[i] IN
            x.seed # <<>> => (Len(x.ranks) = 4 /\ ToSet(x.ranks) = 0..3)
C35_SameSeedSameRanking ==
  Chk => \A i \in 1..Len(ev.rounds) : LET x == ev.rounds[i] IN
            (x.seed # <<>> /\ x.seed \in DOMAIN rkseen) => RanksFn(x.ranks) = rkseen[x.seed]
C35_OneNotarizedPerRankHeaviestFirst ==
  Chk => \A i \in 1..Len(ev.rounds) : LET s == ev.rounds[i].nb_ranks IN
            \A j \in 1..Len(s) : \A k \in 1..Len(s) : j < k => s[j] < s[k]

(* C36: "Each newly finalized block descends from the previous finalized block, so finalized      *)
(* blocks form one chain."  lfb_chain = the real chain of PrevBlock links from the node's LFB     *)
(* back to the base block.  The only other move the specification knows is the named Rollback     *)
(* step of Finalization.tla, possible only when a notarized fork deeper than the LFB exists.      *)
C36_SingleChain ==
  (Chk /\ HavePrev /\ ev.lfb # pobs.lfb) =>
     \/ pobs.lfb \in ToSet(ev.lfb_chain)
     \/ DeepFork(Par(n, UnivOf(ev, BaseAttr)), Rnd(n, UnivOf(ev, BaseAttr)), Nota(n), pobs.lfb)
(* ... and the finalized block is notarized and lies at least Confirm rounds below a notarized one *)
C36_FinalizedIsNotarizedAncestor ==
  (Chk /\ HavePrev /\ ev.lfb # pobs.lfb /\ pobs.lfb \in ToSet(ev.lfb_chain)) =>
     /\ ObsBlock(ev, ev.lfb) # Null /\ ObsBlock(ev, ev.lfb).notar

(* C37: "A round's phase only moves forward except through an explicit reset or a restart before  *)
(* sharing, its timeout count never decreases, and it holds at most threshold-many VRF shares     *)
(* with at most one per miner ... a finalized round never becomes un-finalized".                  *)
C37_PhaseForwardExceptRestart ==
  (Chk /\ HavePrev) => \A q \in Rounds(ev) \cap Rounds(pobs) :
     ObsRound(ev, q).phase < ObsRound(pobs, q).phase => (stim.ev = "Timeout" /\ ObsRound(pobs, q).phase < Share)
C37_TimeoutCountMonotone ==
  (Chk /\ HavePrev) => \A q \in Rounds(ev) \cap Rounds(pobs) : ObsRound(ev, q).toc >= ObsRound(pobs, q).toc
C37_ShareCap ==
  Chk => \A i \in 1..Len(ev.rounds) : LET s == ev.rounds[i].shares IN
            Len(s) <= 3 /\ \A j \in 1..Len(s) : \A k \in 1..Len(s) : j # k => s[j] # s[k]
C37_FinalizedSticky ==
  (Chk /\ HavePrev) => \A q \in Rounds(ev) \cap Rounds(pobs) : ObsRound(pobs, q).fin = 2 => ObsRound(ev, q).fin = 2
=============================================================================
