-------------------------- MODULE MC_MagicBlockStore --------------------------
(* Exhaustive exploration of MagicBlockStore: the reachable graph is finite    *)
(* (stored starts \subseteq Starts), so TLC covers every history of Put / Prune  *)
(* / lookups: every insertion order, every re-put, every prune point, every     *)
(* query round.                                                                *)
EXTENDS MagicBlockStore
MCQueries == 0..(SetMax(Starts) + VCO + 2)
MCSpec == Init /\ [][Next]_vars
=============================================================================
