SPECIFICATION TraceSpec
INVARIANTS HarnessVectorFromModel C08_Lossless C08_Canonical C08_MigrationPreserves
POSTCONDITION Accepted
CHECK_DEADLOCK FALSE
