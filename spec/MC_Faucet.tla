------------------------------ MODULE MC_Faucet ------------------------------
(* Exhaustive small-constant instances of Faucet.tla.  Amounts are in units of *)
(* 100 token-units, time in ticks of 100 s (the scale the driver replays at).  *)
EXTENDS Faucet
\* quick: windows of 1 and 2 ticks
CfgA == [pour |-> 2, maxPour |-> 4, periodic |-> 6, global |-> 9, indReset |-> 1, gReset |-> 2]
CfgB == [pour |-> 1, maxPour |-> 3, periodic |-> 3, global |-> 5, indReset |-> 2, gReset |-> 2]
\* thorough: windows of 2 and 4 / 1 and 3 ticks
CfgC == [pour |-> 2, maxPour |-> 4, periodic |-> 6, global |-> 9, indReset |-> 2, gReset |-> 4]
CfgD == [pour |-> 1, maxPour |-> 3, periodic |-> 3, global |-> 5, indReset |-> 1, gReset |-> 3]
OnlyA == {CfgA}
BothAB == {CfgA, CfgB}
BothCD == {CfgC, CfgD}
\* the trailing conjunct makes TLC report coverage under these names
A_Pour == (\E c \in Client, v \in Values : Pour(c, v)) /\ TRUE
A_Refill == (\E v \in Refills : Refill(v)) /\ TRUE
A_Update == (\E nc \in Configs : Update(nc)) /\ TRUE
A_Tick == (\E d \in 1..MaxStep : Tick(d)) /\ TRUE
Sym == Permutations(Client)
MCNext == A_Pour \/ A_Refill \/ A_Update \/ A_Tick
MCSpec == Init /\ [][MCNext]_vars
=============================================================================
