SPECIFICATION GenSpec
CONSTANTS
  P = 7
  MaxN = 4
  MaxT = 4
  CoefVals = {1}
  MsgVals = {1}
  Kinds = {"ok", "bad", "wrongmsg", "other", "stale"}
  MaxArrivals = 4
  MaxPerParty = 1
  MaxInvalid = 2
INVARIANT GPrint
CHECK_DEADLOCK FALSE
