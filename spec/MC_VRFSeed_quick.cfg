SPECIFICATION Spec
CONSTANTS
  P = 5
  MaxN = 3
  MaxT = 3
  CoefVals = {1, 3}
  MsgVals = {2}
  Kinds = {"ok", "bad", "stale"}
  MaxArrivals = 4
  MaxPerParty = 2
  MaxInvalid = 4
VIEW MCView
INVARIANTS TypeOK C33_Cap C33_OnlyValidStored C33_SeedIffThreshold C33_SeedFunction
CHECK_DEADLOCK FALSE
