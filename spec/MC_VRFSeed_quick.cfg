SPECIFICATION Spec
CONSTANTS
  P = 5
  MaxN = 3
  MaxT = 3
  CoefVals = {0, 1, 2, 3, 4}
  MsgVals = {2}
  Kinds = {"ok", "bad", "other", "stale"}
  MaxArrivals = 3
  MaxPerParty = 2
INVARIANTS TypeOK C33_Cap C33_OnlyValidStored C33_SeedIffThreshold C33_SeedFunction
CHECK_DEADLOCK FALSE
