------------------------------ MODULE SharderFin ------------------------------
(***************************************************************************)
(* The sharder side of finalization and block serving (growth family       *)
(* "sharderfin"; DESIGN 4.2 item 3).  Implementation-shaped model of       *)
(*   sharder/protocol_block.go  UpdateFinalizedBlock (four parallel stores *)
(*                              + StoreRound), storeBlock, the sync*/store**)
(*                              helpers of the health check                *)
(*   sharder/health_check.go    healthCheck(round) in its three stages     *)
(*   sharder/transaction.go     StoreTransactions, GetTransactionConfirmation *)
(*   sharder/chain.go           GetBlockHash, the LFB reload after a restart *)
(*   sharder/handler.go         BlockHandler, MagicBlockHandler             *)
(*   chaincore/chain            finalizeBlockProcess / finalizeBlock as far *)
(*                              as they frame UpdateFinalizedBlock (connect *)
(*                              to the LFB, finalize the round in memory,   *)
(*                              move and persist the LFB)                   *)
(* One sharder (Self) is modelled with its memory and its persistent       *)
(* stores; the miners, the other sharders, the disk and the process        *)
(* (crash / restart) are the environment.                                  *)
(*                                                                         *)
(* Blocks: the miners finalize one canonical block per round (Canon[r]);   *)
(* Fork is a set of notarized sibling blocks that are never extended.      *)
(* Info gives for every block its round, parent, number of transactions,   *)
(* whether it carries a magic block, whether Self is one of its            *)
(* replicators and how many other replicators it has (C42's rank function, *)
(* modelled in Rank.tla, is a parameter here).                             *)
(***************************************************************************)
EXTENDS Integers, Sequences, FiniteSets, TLC, SharderFinDefs

CONSTANTS Canon,          \* sequence: Canon[r] = canonical block of round r, r in 1..Len(Canon)
          Fork,           \* set of fork blocks
          Info,           \* block -> [r, p, ntx, hasmb, resp, others]
          Genesis,        \* the genesis block ("g", round 0)
          Batch,          \* health-check batch size
          Confirmations,  \* finalizeRound finalizes a block only when that many rounds follow it (3 in the code)
          CountMerges,    \* TRUE = as coded: the per-round transaction counter is merged (+) on every store
          MaxFaults,      \* budget of environment faults (crashes, lost files, peers going down)
          MaxCnt,         \* bound on the counter (state constraint of the model checker only)
          MaxLag,         \* the other sharders may be up to MaxLag rounds behind the miners
          HCAhead,        \* FALSE: healthCheck is only called for rounds up to the LFB round (what HealthCheckWorker does:
                          \* setCycleBounds takes the LFB round as the high round); TRUE: for any round
          Concurrent      \* TRUE: the health check worker runs while a block is being finalized (as in the node);
                          \* FALSE: smaller configurations without that interleaving

R       == Len(Canon)
Rounds  == 0..R
CanonF  == [r \in Rounds |-> IF r = 0 THEN Genesis ELSE Canon[r]]
Block   == {Genesis} \cup {Canon[r] : r \in 1..R} \cup Fork
NoBlock == "none"

VARIABLES
  (* environment *)
  tip,      \* the miners produced (and the other sharders finalized) Canon[1..tip]
  forks,    \* fork blocks produced so far
  up,       \* the other sharders answer requests
  lag,      \* ... and have finalized Canon[1..tip-lag]
  faults,   \* faults used
  (* persistent state of Self *)
  st,       \* the stores (SharderFinDefs)
  lfbP,     \* LFB round record persisted by SetLatestFinalizedBlock (state DB)
  (* memory of Self *)
  mem,      \* set of blocks in Chain.blocks
  mround,   \* round -> NoBlock (no round object) | Empty (round object, not finalized) | finalized block
  cur,      \* Chain.CurrentRound
  lfb,      \* Chain.LatestFinalizedBlock
  bcache,   \* sharder.Chain.BlockCache (blocks)
  tcache,   \* sharder.Chain.BlockTxnCache (blocks whose transaction summaries are cached)
  ufb,      \* UpdateFinalizedBlock in progress: [b, done] or NoUFB
  hc        \* healthCheck in progress: [r, stage] or NoHC

vars == <<tip, forks, up, lag, faults, st, lfbP, mem, mround, cur, lfb, bcache, tcache, ufb, hc>>
NoUFB == [b |-> NoBlock, done |-> {}]
NoHC  == [r |-> -1, stage |-> "idle"]

RoundOf(b) == Info[b].r

EmptyStores == [rdb  |-> [r \in Rounds |-> None], sums |-> {}, txb |-> {}, cnt |-> [r \in Rounds |-> 0],
                blks |-> {}, mbm |-> {}]

(* SetupGenesisBlock: StoreRound(genesis round), storeBlock(genesis), magic block map *)
BootStores == RepairStoreBlock([EmptyStores EXCEPT !.rdb[0] = Genesis], Genesis, Info)

Init ==
  /\ tip = 0 /\ forks = {} /\ up = TRUE /\ lag = 0 /\ faults = 0
  /\ st = BootStores /\ lfbP = Genesis
  /\ mem = {Genesis} /\ mround = [r \in Rounds |-> IF r = 0 THEN Genesis ELSE NoBlock]
  /\ cur = 0 /\ lfb = Genesis /\ bcache = {} /\ tcache = {}
  /\ ufb = NoUFB /\ hc = NoHC

-----------------------------------------------------------------------------
(* Environment: miners and the rest of the network                          *)

Produce ==                                  \* the next canonical block is finalized by the miners
  /\ tip < R /\ tip' = tip + 1
  /\ UNCHANGED <<forks, up, lag, faults, st, lfbP, mem, mround, cur, lfb, bcache, tcache, ufb, hc>>

ProduceFork(f) ==                           \* a notarized sibling that is never extended
  /\ f \in Fork \ forks /\ RoundOf(f) <= tip /\ forks' = forks \cup {f}
  /\ UNCHANGED <<tip, up, lag, faults, st, lfbP, mem, mround, cur, lfb, bcache, tcache, ufb, hc>>

(* processBlock -> AddNotarizedBlockToRound: the block is in memory, its round object exists, the current  *)
(* round follows.  A block whose parent is not in memory stays unlinked and cannot be finalized.           *)
Deliver(b) ==
  /\ b \in ({Canon[r] : r \in 1..tip} \cup forks) \ mem
  /\ RoundOf(b) > RoundOf(lfb)
  /\ mem' = mem \cup {b}
  /\ mround' = [mround EXCEPT ![RoundOf(b)] = IF @ = NoBlock THEN Empty ELSE @]
  /\ cur' = Max(cur, RoundOf(b))
  /\ UNCHANGED <<tip, forks, up, lag, faults, st, lfbP, lfb, bcache, tcache, ufb, hc>>

PLfb == Max(0, tip - lag)                   \* what the other sharders have finalized
PeersLag(k) ==
  /\ k \in 0..MaxLag /\ k # lag /\ lag' = k
  /\ UNCHANGED <<tip, forks, up, faults, st, lfbP, mem, mround, cur, lfb, bcache, tcache, ufb, hc>>

PeersToggle ==
  /\ IF up THEN faults < MaxFaults /\ faults' = faults + 1 ELSE faults' = faults
  /\ up' = ~up
  /\ UNCHANGED <<tip, forks, lag, st, lfbP, mem, mround, cur, lfb, bcache, tcache, ufb, hc>>

LoseFile(b) ==                              \* a block file disappears from the block store (between operations)
  /\ b \in st.blks /\ faults < MaxFaults /\ faults' = faults + 1
  /\ ufb = NoUFB /\ hc = NoHC
  /\ st' = [st EXCEPT !.blks = @ \ {b}]
  /\ UNCHANGED <<tip, forks, up, lag, lfbP, mem, mround, cur, lfb, bcache, tcache, ufb, hc>>

(* Crash + restart: memory is lost, the stores stay; LoadLatestBlocksFromStore takes the persisted LFB round *)
(* record, requires the round store to name the same block (loadLFBRoundAndBlocks) and installs it           *)
(* (setupLatestBlocks: Finalize the round, AddLoadedFinalizedBlocks).                                        *)
RestartOK == st.rdb[RoundOf(lfbP)] = lfbP
CrashRestart ==
  /\ faults < MaxFaults /\ faults' = faults + 1
  /\ RestartOK
  /\ mem' = {Genesis, lfbP}
  /\ mround' = [r \in Rounds |-> IF r = 0 THEN Genesis ELSE IF r = RoundOf(lfbP) THEN lfbP ELSE NoBlock]
  /\ cur' = RoundOf(lfbP) /\ lfb' = lfbP
  /\ bcache' = {} /\ tcache' = {} /\ ufb' = NoUFB /\ hc' = NoHC
  /\ UNCHANGED <<tip, forks, up, lag, st, lfbP>>

-----------------------------------------------------------------------------
(* Finalization of one block on the sharder                                  *)

(* finalizeRound / ComputeFinalizedBlock (C36, Finalization.tla) decide WHICH block is next; here: the       *)
(* canonical child of the LFB, once the chain in memory extends it by Confirmations rounds.                   *)
Linked(b) == Info[b].p \in mem
ChainOK(q) == \A x \in (RoundOf(lfb) + 1)..q : Canon[x] \in mem
ChainTop == CHOOSE q \in RoundOf(lfb)..R : ChainOK(q) /\ (q = R \/ Canon[q + 1] \notin mem)
Finalizable(b) ==
  /\ b \in mem /\ b \notin Fork /\ RoundOf(b) = RoundOf(lfb) + 1
  /\ ChainTop - RoundOf(b) >= Confirmations

(* finalizeBlockProcess: the previous round is finalized in memory and names the block's parent ("could not  *)
(* connect to lfb" otherwise); finalizeBlock then calls UpdateFinalizedBlock.                                  *)
UFB_Begin(b) ==
  /\ ufb = NoUFB /\ Finalizable(b)
  /\ Concurrent \/ hc = NoHC
  /\ mround[RoundOf(b) - 1] = Info[b].p
  /\ ufb' = [b |-> b, done |-> {}]
  /\ bcache' = bcache \cup {b}                       \* BlockCache.Add(b.Hash, clone)
  /\ UNCHANGED <<tip, forks, up, lag, faults, st, lfbP, mem, mround, cur, lfb, tcache, hc>>

UFB_Step(s) ==                                      \* the four goroutines, in any order
  /\ ufb # NoUFB /\ s \in {"txns", "summary", "mbmap", "block"} \ ufb.done
  /\ st' = UFBStep(st, ufb.b, Info, CountMerges, s)
  /\ tcache' = IF s = "txns" THEN tcache \cup {ufb.b} ELSE tcache
  /\ ufb' = [ufb EXCEPT !.done = @ \cup {s}]
  /\ UNCHANGED <<tip, forks, up, lag, faults, lfbP, mem, mround, cur, lfb, bcache, hc>>

UFB_Round ==                                        \* after wg.Wait(): StoreRound of the finalized clone
  /\ ufb # NoUFB /\ ufb.done = {"txns", "summary", "mbmap", "block"}
  /\ st' = StoreRound(st, ufb.b, Info)
  /\ ufb' = [ufb EXCEPT !.done = @ \cup {"round"}]
  /\ UNCHANGED <<tip, forks, up, lag, faults, lfbP, mem, mround, cur, lfb, bcache, tcache, hc>>

FinalizeTail ==                                     \* rest of chain.finalizeBlock: fr.Finalize, SetLatestFinalizedBlock
  /\ ufb # NoUFB /\ "round" \in ufb.done
  /\ mround' = [mround EXCEPT ![RoundOf(ufb.b)] = ufb.b]
  /\ lfb' = ufb.b /\ lfbP' = ufb.b
  /\ ufb' = NoUFB
  /\ UNCHANGED <<tip, forks, up, lag, faults, st, mem, cur, bcache, tcache, hc>>

-----------------------------------------------------------------------------
(* Health check: healthCheck(r) in its three stages (each stage commits its own stores)                       *)

HC_Begin(r) ==
  /\ hc = NoHC /\ r \in Rounds
  /\ HCAhead \/ r <= Max(1, RoundOf(lfb))
  /\ Concurrent \/ ufb = NoUFB
  /\ hc' = [r |-> r, stage |-> "round"]
  /\ UNCHANGED <<tip, forks, up, lag, faults, st, lfbP, mem, mround, cur, lfb, bcache, tcache, ufb>>

HC_Round ==
  /\ hc.stage = "round"
  /\ LET a == HCRound(st, hc.r, up, PLfb, CanonF, Batch) IN
       /\ st' = a.st
       /\ hc' = IF a.ok THEN [hc EXCEPT !.stage = "summary"] ELSE NoHC
  /\ UNCHANGED <<tip, forks, up, lag, faults, lfbP, mem, mround, cur, lfb, bcache, tcache, ufb>>

HC_Summary ==
  /\ hc.stage = "summary"
  /\ LET a == HCSummary(st, hc.r, up, PLfb, CanonF, Batch) IN
       /\ st' = a.st
       /\ hc' = IF a.ok THEN [hc EXCEPT !.stage = "block"] ELSE NoHC
  /\ UNCHANGED <<tip, forks, up, lag, faults, lfbP, mem, mround, cur, lfb, bcache, tcache, ufb>>

HC_Block ==
  /\ hc.stage = "block"
  /\ LET a == HCBlock(st, hc.r, up, PLfb, CanonF, Info, CountMerges) IN
       /\ st' = a.st
       /\ tcache' = IF a.trepaired = 1 THEN tcache \cup {st.rdb[hc.r]} ELSE tcache
  /\ hc' = NoHC
  /\ UNCHANGED <<tip, forks, up, lag, faults, lfbP, mem, mround, cur, lfb, bcache, ufb>>

HCNext == (\E r \in Rounds : HC_Begin(r)) \/ HC_Round \/ HC_Summary \/ HC_Block

Next ==
  \/ Produce \/ (\E f \in Fork : ProduceFork(f)) \/ (\E b \in Block : Deliver(b))
  \/ PeersToggle \/ (\E k \in 0..MaxLag : PeersLag(k)) \/ (\E b \in Block : LoseFile(b)) \/ CrashRestart
  \/ (\E b \in Block : UFB_Begin(b)) \/ (\E s \in {"txns", "summary", "mbmap", "block"} : UFB_Step(s))
  \/ UFB_Round \/ FinalizeTail
  \/ HCNext

Spec == Init /\ [][Next]_vars

-----------------------------------------------------------------------------
(* The read side as functions of the state                                                                   *)

(* sharder.Chain.GetBlockHash (chain.go:131) *)
BlockHashOf(r) ==
  IF r > cur THEN None
  ELSE IF mround[r] # NoBlock THEN (IF mround[r] = Empty THEN None ELSE mround[r])
  ELSE IF IsBlockName(st.rdb[r]) THEN st.rdb[r] ELSE None

(* BlockHandler?round=r : refused above the LFB round *)
ServeByRound(r) == IF r > RoundOf(lfb) THEN None ELSE
                   LET h == BlockHashOf(r) IN IF h = None THEN None ELSE IF h \in mem \/ h \in st.blks THEN h ELSE None

(* GetTransactionConfirmation for a transaction of block b (all transactions of a block behave alike): the   *)
(* block it names, or None when no confirmation is served                                                    *)
ConfirmationOf(b) ==
  IF Info[b].ntx = 0 \/ ~(b \in tcache \/ b \in st.txb) THEN None
  ELSE LET h == BlockHashOf(RoundOf(b)) IN
       IF h = None THEN None ELSE IF h \in bcache \/ h \in st.sums THEN h ELSE None

-----------------------------------------------------------------------------
(* Design properties                                                                                         *)

TypeOK ==
  /\ tip \in 0..R /\ forks \subseteq Fork /\ up \in BOOLEAN /\ lag \in 0..MaxLag /\ faults \in 0..MaxFaults
  /\ st.rdb \in [Rounds -> Block \cup {None, Empty}] /\ st.sums \subseteq Block /\ st.txb \subseteq Block
  /\ st.blks \subseteq Block /\ st.mbm \subseteq Block /\ st.cnt \in [Rounds -> Nat]
  /\ lfbP \in Block /\ lfb \in Block /\ mem \subseteq Block /\ cur \in Rounds

(* the round -> block mapping is single valued: a stored round only ever names the canonical block *)
RoundMapCanonical == \A r \in Rounds : IsBlockName(st.rdb[r]) => st.rdb[r] = CanonF[r]

(* ... and never changes once it names a block *)
RoundMapStable == [][\A r \in Rounds : IsBlockName(st.rdb[r]) => st.rdb'[r] = st.rdb[r]]_vars

(* the LFB only moves forward along the canonical chain, one round at a time (C36 on the sharder) *)
LFBChain == [][lfb' # lfb => (CrashRestart \/ (Info[lfb'].p = lfb /\ RoundOf(lfb') = RoundOf(lfb) + 1))]_vars
LFBCanonical == lfb = CanonF[RoundOf(lfb)] /\ lfbP = CanonF[RoundOf(lfbP)]

(* what the node reloads after a crash is in its round store (otherwise it cannot start) *)
RestartPossible == RestartOK
LFBPersisted == lfbP = lfb

(* nothing of a block that was never handed to UpdateFinalizedBlock or to the repair is stored *)
OnlyFinalizedStored ==
  /\ st.sums \cup st.txb \cup st.blks \cup st.mbm \subseteq {CanonF[r] : r \in 0..tip}
  /\ \A f \in Fork : f \notin st.sums \cup st.txb \cup st.blks

(* a completed finalization leaves the round complete in the stores: stored exactly once *)
FinalizationComplete == [][FinalizeTail => CompleteFor(st, ufb.b, Info, FALSE, TRUE)]_vars
FinalizedExactlyOnce(exact) ==
  \A r \in 1..RoundOf(lfbP) :
     LET b == CanonF[r] IN (Info[b].ntx > 0 /\ b \in st.txb) =>
         IF exact THEN st.cnt[r] = Info[b].ntx ELSE (st.cnt[r] >= Info[b].ntx)
CountExact   == FinalizedExactlyOnce(TRUE)     \* holds only with CountMerges = FALSE (see MC_SharderFin_count_demo.cfg)
CountAtLeast == FinalizedExactlyOnce(FALSE)
(* the counter never names transactions that are not there *)
CountMultiple == \A r \in Rounds : st.cnt[r] > 0 => (Info[CanonF[r]].ntx > 0 /\ CanonF[r] \in st.txb)

(* a block is only served for a finalized round, and it is that round's canonical block *)
ServeByRoundSound == \A r \in Rounds : ServeByRound(r) # None => (ServeByRound(r) = CanonF[r] /\ r <= RoundOf(lfb))

(* a confirmation is served only for a transaction of a finalized block and names that block *)
ConfirmationSound ==
  \A b \in Block : ConfirmationOf(b) # None =>
      /\ ConfirmationOf(b) = b
      /\ (st.rdb[RoundOf(b)] = b \/ mround[RoundOf(b)] = b)

(* a successful health check of a round leaves it complete; the health check never rewrites what is there.   *)
(* As coded the magic block map is only repaired when the block itself had to be fetched (storeBlock), so a    *)
(* sharder that is not a replicator of a magic-block-carrying block and has its transaction summaries never    *)
(* gets the map entry from the health check: RepairCompletesMB fails (MC_SharderFin_mbmap_demo.cfg).           *)
RepairCompletesWith(withmb) ==
  [][(HC_Block /\ HCBlock(st, hc.r, up, PLfb, CanonF, Info, CountMerges).ok) => CompleteFor(st', st.rdb[hc.r], Info, FALSE, withmb)]_vars
RepairCompletes   == RepairCompletesWith(FALSE)
RepairCompletesMB == RepairCompletesWith(TRUE)
RepairKeeps ==
  [][HCNext => /\ st.sums \subseteq st'.sums /\ st.txb \subseteq st'.txb /\ st.blks \subseteq st'.blks /\ st.mbm \subseteq st'.mbm
               /\ \A r \in Rounds : st'.cnt[r] >= st.cnt[r]]_vars
(* repairs exactly the missing rounds: rounds outside the requested window are untouched (the window of
   healthCheck(0) is round 1: GetRangeBounds lifts both bounds to 1) *)
RepairWindow ==
  [][HCNext /\ hc # NoHC => \A r \in Rounds : (r > RangeHi(hc.r) \/ r < RangeLo(hc.r, Batch)) =>
        (st'.rdb[r] = st.rdb[r] /\ st'.cnt[r] = st.cnt[r])]_vars

(* liveness: when the faults are over and the peers are up, a fair health check completes every round the    *)
(* other sharders have (weak completeness: the counter may overshoot as coded)                               *)
Quiet == faults = MaxFaults /\ up /\ lag = 0 /\ ufb = NoUFB
AllComplete(exact) == \A r \in 1..tip : CompleteFor(st, CanonF[r], Info, exact, FALSE)
FairSpec == Spec /\ WF_vars(HC_Round) /\ WF_vars(HC_Summary) /\ WF_vars(HC_Block)
                 /\ \A r \in Rounds : SF_vars(HC_Begin(r) /\ ~CompleteFor(st, CanonF[r], Info, FALSE, FALSE))
EventuallyRepaired == []<>(~Quiet \/ tip < R \/ AllComplete(FALSE))
EventuallyExact    == []<>(~Quiet \/ tip < R \/ AllComplete(TRUE))   \* with the intended counter only

StateConstraint == \A r \in Rounds : st.cnt[r] <= MaxCnt
=============================================================================
