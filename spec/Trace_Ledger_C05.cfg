SPECIFICATION TraceSpec
INVARIANTS NoPanic HarnessRange C05_NoOverdraw
POSTCONDITION Accepted
CHECK_DEADLOCK FALSE
