SPECIFICATION TraceSpec
INVARIANTS NoPanic HarnessRange C05_NoOverdraw C05_QueueSemantics
POSTCONDITION Accepted
CHECK_DEADLOCK FALSE
