SPECIFICATION TraceSpec
INVARIANTS NoPanic HarnessRangeExact C05_NoOverdraw C05_QueueSemantics
POSTCONDITION Accepted
CHECK_DEADLOCK FALSE
