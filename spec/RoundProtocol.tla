---------------------------- MODULE RoundProtocol ----------------------------
(***************************************************************************)
(* Protocol-level composition (spec growth, DESIGN 4.2 item 1): miners     *)
(* move through rounds; generators propose blocks on the best notarized    *)
(* block of the previous round they know; miners issue verification        *)
(* tickets; a block with T tickets is notarized; every node finalizes from *)
(* ITS OWN view of the notarized blocks with the code's algorithm          *)
(* (FinalizationDefs!CodeCompute, the one bound to the real                *)
(* ComputeFinalizedBlock by C36).  The component rules are those bound to  *)
(* the code by C31 (only verified tickets of distinct miners count), C35   *)
(* (a common ranking) and C36/C37.                                          *)
(*                                                                         *)
(* Question asked of the model: do two honest nodes ever finalize blocks   *)
(* that are not on one chain?  MultiVote = TRUE is the protocol as coded   *)
(* (a miner issues a ticket for every proposal that is better ranked than  *)
(* what it has signed so far in the round, miner/protocol_round.go), so a  *)
(* round can have several notarized blocks and a node that has seen only   *)
(* one of them can finalize a block that another node never will: that is *)
(* what finalizeRound's rollback branch exists for.  With MultiVote =      *)
(* FALSE and T > 2n/3, f < n/3 at most one block per round is notarized    *)
(* and Agreement holds.                                                     *)
(***************************************************************************)
EXTENDS Integers, FiniteSets, Sequences, TLC, FinalizationDefs

CONSTANTS Miner, Byz, T, MaxRound, MaxBlocksPerRound, MultiVote, Confirm

Honest == Miner \ Byz
Genesis == "g"

VARIABLES blocks,   \* set of proposed blocks (ids), with par, rnd, gen as functions
          par, rnd, gen,
          voted,    \* voted[m]  : blocks m has issued a verification ticket for
          known,    \* known[m]  : blocks m knows to be notarized (its round lists)
          cur,      \* cur[m]    : current round of m
          lfb       \* lfb[m]    : latest finalized block of m

vars == <<blocks, par, rnd, gen, voted, known, cur, lfb>>

\* a fixed common ranking per round (C35): lower number = better rank
Rank(r, m) == LET ms == CHOOSE s \in [1..Cardinality(Miner) -> Miner] : \A i, j \in DOMAIN s : i # j => s[i] # s[j]
                  i == CHOOSE k \in DOMAIN ms : ms[k] = m
              IN ((i + r) % Cardinality(Miner))

Tickets(b) == {m \in Miner : b \in voted[m]}
Notarized(b) == b = Genesis \/ Cardinality(Tickets(b)) >= T

NewId(r, m, p) == ToString(<<r, m, p>>)

Init ==
  /\ blocks = {Genesis} /\ par = [b \in {Genesis} |-> NoBlock] /\ rnd = [b \in {Genesis} |-> 0]
  /\ gen = [b \in {Genesis} |-> "none"]
  /\ voted = [m \in Miner |-> {}] /\ known = [m \in Miner |-> {Genesis}]
  /\ cur = [m \in Miner |-> 1] /\ lfb = [m \in Miner |-> Genesis]

BlocksAt(r) == {b \in blocks : rnd[b] = r}

\* the best (lowest generator rank) notarized block of round r that m knows
BestKnown(m, r) ==
  LET S == {b \in known[m] : rnd[b] = r} IN
  IF S = {} THEN NoBlock
  ELSE IF r = 0 THEN Genesis
  ELSE CHOOSE b \in S : \A c \in S : Rank(r, gen[b]) <= Rank(r, gen[c])

Propose(m) ==
  LET r == cur[m] IN
  /\ r <= MaxRound /\ Cardinality(BlocksAt(r)) < MaxBlocksPerRound
  /\ \E p \in known[m] :
       /\ rnd[p] = r - 1
       /\ (m \in Honest => p = BestKnown(m, r - 1))
       /\ LET b == NewId(r, m, p) IN
            /\ b \notin blocks
            /\ (m \in Honest => ~\E c \in BlocksAt(r) : gen[c] = m)   \* an honest generator proposes once
            /\ blocks' = blocks \cup {b}
            /\ par' = par @@ (b :> p) /\ rnd' = rnd @@ (b :> r) /\ gen' = gen @@ (b :> m)
  /\ UNCHANGED <<voted, known, cur, lfb>>

Vote(m, b) ==
  /\ b \in blocks /\ b # Genesis /\ b \notin voted[m]
  /\ (m \in Honest =>
        /\ rnd[b] = cur[m]
        /\ par[b] \in known[m]                                         \* previous block known to be notarized
        /\ LET mine == {c \in voted[m] : rnd[c] = rnd[b]} IN
             IF MultiVote THEN \A c \in mine : Rank(rnd[b], gen[b]) < Rank(rnd[b], gen[c])
             ELSE mine = {})
  /\ voted' = [voted EXCEPT ![m] = @ \cup {b}]
  /\ UNCHANGED <<blocks, par, rnd, gen, known, cur, lfb>>

\* a notarization (>= T verified tickets of distinct miners, C31) reaches m
Learn(m, b) ==
  /\ b \in blocks /\ b \notin known[m] /\ Notarized(b)
  /\ par[b] \in known[m]
  /\ known' = [known EXCEPT ![m] = @ \cup {b}]
  /\ cur' = [cur EXCEPT ![m] = IF rnd[b] + 1 > @ THEN rnd[b] + 1 ELSE @]
  /\ UNCHANGED <<blocks, par, rnd, gen, voted, lfb>>

\* finalizeRound(r) on m's own view: forward branch only (descend from the old LFB)
Finalize(m, r) ==
  /\ m \in Honest /\ r < cur[m] /\ r >= 1
  /\ LET fb == CodeCompute(par, rnd, known[m], rnd[lfb[m]], r) IN
       /\ fb # NoBlock /\ fb # lfb[m]
       /\ r - rnd[fb] >= Confirm
       /\ Descends(par, fb, lfb[m])
       /\ lfb' = [lfb EXCEPT ![m] = fb]
  /\ UNCHANGED <<blocks, par, rnd, gen, voted, known, cur>>

Next == \/ \E m \in Miner : Propose(m)
        \/ \E m \in Miner, b \in blocks : Vote(m, b) \/ Learn(m, b)
        \/ \E m \in Miner, r \in 1..MaxRound : Finalize(m, r)
Spec == Init /\ [][Next]_vars

-----------------------------------------------------------------------------
OneChain(a, b) == Descends(par, a, b) \/ Descends(par, b, a)
(* no two honest nodes finalize blocks on different branches *)
Agreement == \A m1, m2 \in Honest : OneChain(lfb[m1], lfb[m2])
(* what a node finalizes is notarized, and so are all its ancestors *)
FinalizedIsNotarized == \A m \in Honest : \A a \in AncEq(par, lfb[m]) : Notarized(a)
(* with single voting and T > 2n/3 there is at most one notarized block per round *)
OneNotarizedPerRound == \A r \in 1..MaxRound : Cardinality({b \in BlocksAt(r) : Notarized(b)}) <= 1
(* a node's chain of finalized blocks only grows (forward branch) *)
LFBMonotone == [][\A m \in Honest : Descends(par', lfb'[m], lfb[m])]_vars
=============================================================================
