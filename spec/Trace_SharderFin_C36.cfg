SPECIFICATION TraceSpec
INVARIANTS
  C36_FinalizedDescend C36_RoundSingleValued C36_ServedRoundIsOfRound C36_NoForkStored
  HarnessCalls HarnessRounds HarnessSums HarnessBlocks HarnessTxns HarnessCount HarnessMBMap HarnessLFB HarnessHC
  HarnessConfirmation HarnessReads
POSTCONDITION Accepted
CHECK_DEADLOCK FALSE
