--------------------------- MODULE Trace_LFBTicket ---------------------------
(***************************************************************************)
(* Trace specification for C41.  Lines:                                    *)
(*   Submit     a ticket was posted to the REAL LFBTicketHandler           *)
(*   Broadcast  BroadcastLFBTicket(block of that round)                    *)
(*   Kick       AddReceivedLFBTicket(unsigned ticket)                      *)
(*   Latest     the REAL worker goroutine drained its queues and           *)
(*              GetLatestLFBTicket was read: round (relative to the trace  *)
(*              start), src = own | kick | recv, and for a received ticket *)
(*              who signed it, judged by the driver independently of the   *)
(*              code under test: in_mb_sharders (SharderID is a sharder of *)
(*              the magic block of that round), sig_ok (signature verifies *)
(*              under that node's public key)                              *)
(* Which tickets the handler lets through, how the worker batches them and *)
(* when it adopts one are left free; the two invariants are the property.  *)
(***************************************************************************)
EXTENDS TraceLib

VARIABLES l, ev, last, prev
vars == <<l, ev, last, prev>>
Null == [ev |-> "none"]

TraceInit == l = 1 /\ ev = Null /\ last = 0 /\ prev = 0
IsEvent(e) == l <= Len(Trace) /\ Trace[l].ev = e /\ l' = l + 1

TraceReset == IsEvent("Reset") /\ ev' = Null /\ last' = Trace[l].round /\ prev' = Trace[l].round
TraceLatest == IsEvent("Latest") /\ ev' = Trace[l] /\ prev' = last /\ last' = Trace[l].round
TraceOther == /\ l <= Len(Trace) /\ Trace[l].ev \notin {"Reset", "Latest"}
              /\ l' = l + 1 /\ ev' = Null /\ UNCHANGED <<last, prev>>
TraceNext == TraceReset \/ TraceLatest \/ TraceOther
TraceSpec == TraceInit /\ [][TraceNext]_vars

IsLatest == ev.ev = "Latest"
(* harness: the worker answered and had drained its queues; a received ticket is one the driver sent *)
HarnessWorker == IsLatest => (~ev.stuck /\ ev.src \in {"own", "kick", "recv"} /\ (ev.src = "recv" => ev.tid > 0))

(* C41: the ticket a node reports never has a lower round than one it reported before *)
C41_Monotone == (IsLatest /\ ~IsKnown(ev)) => ev.round >= prev

(* C41: it only adopts received tickets signed by a sharder of the current magic block *)
C41_Authentic == (IsLatest /\ ~IsKnown(ev) /\ ev.src = "recv") => (ev.in_mb_sharders /\ ev.sig_ok)
=============================================================================
