SPECIFICATION MCSpec
CONSTANTS
  Client = {c1}
  Configs <- BothAB
  InitCfg <- CfgA
  InitBal = 5
  Values = {0, 1, 2, 3, 4, 5}
  Refills = {3}
  MaxBal = 8
  MaxTime = 4
  MaxStep = 2
  LimitOnPoured = FALSE
INVARIANTS TypeOK C17_Balance C17_Window CountersAreSums AsWritten_ClientBound AsWritten_GlobalBound
CHECK_DEADLOCK FALSE
