------------------------------- MODULE Ledger -------------------------------
(***************************************************************************)
(* One transaction of 0chain as the step sequence of Chain.updateState     *)
(* (chaincore/chain/state.go:398-632): nonce check, contract execution on  *)
(* a transaction overlay, fee, queued transfers applied in order, signed   *)
(* transfers, nonce increment, commit -- or rejection of the whole         *)
(* transaction at any step.  Properties C01-C05 are stated at the end.     *)
(*                                                                         *)
(* The module has two layers:                                              *)
(*  - the micro-step machine (Init/Next), explored exhaustively by TLC;    *)
(*  - the big-step relation Summary(t, class, pre, post), which is what    *)
(*    one call of UpdateState may do as a whole.  TLC checks that every    *)
(*    Begin..Commit / Begin..Reject run of the micro machine satisfies     *)
(*    Summary (StepRefinesSummary); recorded executions of the real code   *)
(*    are checked against Summary and the properties by Trace_Ledger.      *)
(***************************************************************************)
EXTENDS Integers, Sequences, FiniteSets, TLC

CONSTANTS Client,       \* keyed accounts that can send transactions
          Contract,     \* contract wallets
          MinerSC,      \* the miner contract wallet (receives fees)
          MaxCoin,      \* largest representable balance (models 2^64-1); the *_nearmax configs set it BELOW
                        \* MaxSupply so that credits a destination has no room for (ApplyOne) are reachable
          MaxSupply,    \* config.MaxTokenSupply
          MaxAmt,       \* bound for amounts in the model
          MaxNonce,     \* bound for nonces in the model
          MaxQueue,     \* bound for the number of transfers a contract queues
          InitBal       \* [Acct -> Nat], sums to MaxSupply

Acct == Client \cup Contract \cup {MinerSC}
NoTxn == [from |-> "none"]

VARIABLES bal, nonce, kv,                 \* committed block state
          phase, cur, queue, signed,      \* the transaction in flight
          obal, ononce, okv, oev,         \* its overlay (state context)
          applied, lastev                 \* history

vars == <<bal, nonce, kv, phase, cur, queue, signed, obal, ononce, okv, oev, applied, lastev>>

RECURSIVE SumOver(_, _)
SumOver(f, S) == IF S = {} THEN 0 ELSE LET x == CHOOSE y \in S : TRUE IN f[x] + SumOver(f, S \ {x})
Total(b) == SumOver(b, Acct)

Txn == [from : Client, to : Acct, type : {"send", "sc", "data"},
        value : 0..MaxAmt, fee : 0..MaxAmt, nonce : 1..MaxNonce]

Transfer == [from : Acct, to : Acct, amt : 0..MaxAmt]
\* a signed transfer carries whether the harness-recomputed signature check passes
STransfer == [from : Acct, to : Acct, amt : 0..MaxAmt, sigok : BOOLEAN]

TypeOK ==
  /\ bal \in [Acct -> 0..MaxCoin] /\ nonce \in [Acct -> 0..(MaxNonce+1)]
  /\ obal \in [Acct -> 0..MaxCoin]
  /\ phase \in {"idle", "begun", "executed", "applying", "noncing", "committing", "rejecting"}

Init ==
  /\ bal = InitBal /\ nonce = [a \in Acct |-> 0] /\ kv = [c \in Contract |-> 0]
  /\ phase = "idle" /\ cur = NoTxn /\ queue = <<>> /\ signed = <<>>
  /\ obal = InitBal /\ ononce = [a \in Acct |-> 0] /\ okv = [c \in Contract |-> 0] /\ oev = <<>>
  /\ applied = {} /\ lastev = <<>>

-----------------------------------------------------------------------------
(* state.go:398-441: value bound, overlay creation, validateNonce           *)
Begin(t) ==
  /\ phase = "idle"
  /\ cur' = [t EXCEPT !.type = t.type] @@ [status |-> "none", sts |-> <<>>]
  /\ obal' = bal /\ ononce' = nonce /\ okv' = kv /\ oev' = <<>>
  /\ queue' = <<>> /\ signed' = <<>>
  /\ phase' = IF t.value > MaxSupply \/ t.nonce # nonce[t.from] + 1 THEN "rejecting" ELSE "begun"
  /\ UNCHANGED <<bal, nonce, kv, applied, lastev>>

(* what a contract may queue.  Disciplined = what the contracts of this    *)
(* repository do: debit the sender by at most txn.value, pay out of the    *)
(* called contract's own wallet, and use signed transfers of third parties *)
(* only with a verified signature.  Arbitrary = anything (used to show     *)
(* which properties depend on contract discipline).                        *)
CONSTANT Discipline
ContractMay(tr) ==
  \/ ~Discipline
  \/ tr.from = cur.to
  \/ (tr.from = cur.from /\ tr.amt <= cur.value)
SignedMay(st) == ~Discipline \/ st.sigok

RECURSIVE FromSumSeq(_, _, _)
FromSumSeq(q, a, i) == IF i = 0 THEN 0 ELSE (IF q[i].from = a THEN q[i].amt ELSE 0) + FromSumSeq(q, a, i - 1)
FromSum(q, a) == FromSumSeq(q, a, Len(q))

ExecSend ==                       \* state.go:531-548
  /\ phase = "begun" /\ cur.type = "send"
  /\ IF obal[cur.from] < cur.fee + cur.value
        THEN phase' = "rejecting" /\ UNCHANGED queue
        ELSE phase' = "executed" /\ queue' = <<[from |-> cur.from, to |-> cur.to, amt |-> cur.value]>>
  /\ cur' = [cur EXCEPT !.status = "ok"]
  /\ UNCHANGED <<bal, nonce, kv, signed, obal, ononce, okv, oev, applied, lastev>>

ExecData ==                       \* state.go:530
  /\ phase = "begun" /\ cur.type = "data"
  /\ phase' = "executed" /\ cur' = [cur EXCEPT !.status = "ok"]
  /\ UNCHANGED <<bal, nonce, kv, queue, signed, obal, ononce, okv, oev, applied, lastev>>

ExecSC_ok ==                      \* contract returned nil
  /\ phase = "begun" /\ cur.type = "sc" /\ cur.to \in Contract
  /\ \E n \in 0..MaxQueue, m \in 0..1 :
       \E q \in [1..n -> Transfer], s \in [1..m -> STransfer] :
          /\ \A i \in 1..n : ContractMay(q[i])
          /\ (Discipline => FromSum(q, cur.from) <= cur.value)
          /\ \A i \in 1..m : SignedMay(s[i])
          /\ queue' = q /\ signed' = s
  /\ \E v \in 0..1 : okv' = [okv EXCEPT ![cur.to] = v]
  /\ oev' = <<"sc">>
  /\ phase' = "executed" /\ cur' = [cur EXCEPT !.status = "ok", !.sts = signed']
  /\ UNCHANGED <<bal, nonce, kv, obal, ononce, applied, lastev>>

ExecSC_fail ==                    \* state.go:471-503: chargeable error; overlay dropped and re-created
  /\ phase = "begun" /\ cur.type = "sc"
  /\ obal' = bal /\ ononce' = nonce /\ okv' = kv          \* whatever the contract wrote is gone
  /\ queue' = <<>> /\ signed' = <<>> /\ oev' = <<"error">>
  /\ phase' = "executed" /\ cur' = [cur EXCEPT !.status = "chargeable"]
  /\ UNCHANGED <<bal, nonce, kv, applied, lastev>>

ExecSC_internal ==                \* timeout / node-not-found: whole txn rejected
  /\ phase = "begun" /\ cur.type = "sc"
  /\ phase' = "rejecting"
  /\ UNCHANGED <<bal, nonce, kv, cur, queue, signed, obal, ononce, okv, oev, applied, lastev>>

QueueFee ==                       \* state.go:553-563
  /\ phase = "executed"
  /\ queue' = Append(queue, [from |-> cur.from, to |-> MinerSC, amt |-> cur.fee])
  /\ phase' = "applying"
  /\ UNCHANGED <<bal, nonce, kv, cur, signed, obal, ononce, okv, oev, applied, lastev>>

(* transferAmount, state.go:690-760 *)
ApplyOne(tr) ==
  IF tr.amt = 0 THEN UNCHANGED <<obal, phase>>
  ELSE IF tr.from = tr.to \/ obal[tr.from] < tr.amt \/ obal[tr.to] + tr.amt > MaxCoin
       THEN phase' = "rejecting" /\ UNCHANGED obal
       ELSE /\ obal' = [obal EXCEPT ![tr.from] = @ - tr.amt, ![tr.to] = @ + tr.amt]
            /\ UNCHANGED phase

ApplyTransfer ==
  /\ phase = "applying" /\ queue # <<>>
  /\ ApplyOne(Head(queue)) /\ queue' = Tail(queue)
  /\ UNCHANGED <<bal, nonce, kv, cur, signed, ononce, okv, oev, applied, lastev>>

ApplySigned ==
  /\ phase = "applying" /\ queue = <<>> /\ signed # <<>>
  /\ ApplyOne(Head(signed)) /\ signed' = Tail(signed)
  /\ UNCHANGED <<bal, nonce, kv, cur, queue, ononce, okv, oev, applied, lastev>>

IncNonce ==                       \* state.go:867-893
  /\ phase = "applying" /\ queue = <<>> /\ signed = <<>>
  /\ ononce' = [ononce EXCEPT ![cur.from] = @ + 1]
  /\ phase' = "committing"
  /\ UNCHANGED <<bal, nonce, kv, cur, queue, signed, obal, okv, oev, applied, lastev>>

Commit ==                         \* MergeMPTChanges
  /\ phase = "committing"
  /\ bal' = obal /\ nonce' = ononce /\ kv' = okv
  /\ applied' = applied \cup {<<cur.from, cur.nonce>>}
  /\ lastev' = oev
  /\ phase' = "idle" /\ cur' = NoTxn /\ oev' = <<>>
  /\ UNCHANGED <<queue, signed, obal, ononce, okv>>

Reject ==                         \* any `return nil, err`: the overlay is dropped
  /\ phase = "rejecting"
  /\ phase' = "idle" /\ lastev' = <<>> /\ cur' = NoTxn
  /\ obal' = bal /\ ononce' = nonce /\ okv' = kv /\ oev' = <<>> /\ queue' = <<>> /\ signed' = <<>>
  /\ UNCHANGED <<bal, nonce, kv, applied>>

Next == \/ \E t \in Txn : Begin(t)
        \/ ExecSend \/ ExecData \/ ExecSC_ok \/ ExecSC_fail \/ ExecSC_internal
        \/ QueueFee \/ ApplyTransfer \/ ApplySigned \/ IncNonce \/ Commit \/ Reject

Spec == Init /\ [][Next]_vars

-----------------------------------------------------------------------------
(* Big-step relation: what one UpdateState call may do.                     *)
(* pre/post: [bal, nonce, kv]; class in {"ok","chargeable","rejected"}      *)
Summary(t, class, pre, post) ==
  /\ class = "rejected" => post = pre
  /\ class # "rejected" =>
       /\ t.nonce = pre.nonce[t.from] + 1
       /\ post.nonce = [pre.nonce EXCEPT ![t.from] = @ + 1]
       /\ Total(post.bal) = Total(pre.bal)
  /\ class = "chargeable" =>
       /\ t.type = "sc"
       /\ post.kv = pre.kv
       /\ post.bal = [pre.bal EXCEPT ![t.from] = @ - t.fee, ![MinerSC] = @ + t.fee]

StepRefinesSummary ==
  [][ /\ Commit => Summary(cur, cur.status, [bal |-> bal, nonce |-> nonce, kv |-> kv],
                                             [bal |-> bal', nonce |-> nonce', kv |-> kv'])
      /\ Reject => Summary(cur, "rejected", [bal |-> bal, nonce |-> nonce, kv |-> kv],
                                            [bal |-> bal', nonce |-> nonce', kv |-> kv']) ]_vars

-----------------------------------------------------------------------------
(* C01: total supply conserved (committed state).                           *)
C01_Conservation == Total(bal) = MaxSupply

(* C02: a chargeable failure leaves only fee + nonce + one error event.     *)
C02_FailOnlyFee ==
  [][ (Commit /\ cur.status = "chargeable") =>
        /\ kv' = kv
        /\ \A a \in Acct \ {cur.from, MinerSC} : bal'[a] = bal[a]
        /\ bal'[cur.from] = bal[cur.from] - cur.fee
        /\ bal'[MinerSC] = bal[MinerSC] + cur.fee
        /\ nonce'[cur.from] = nonce[cur.from] + 1
        /\ lastev' = <<"error">> ]_vars

(* C03: strict nonce order, exactly once.                                   *)
C03_NonceStep ==
  [][ \A a \in Acct : \/ nonce'[a] = nonce[a]
                      \/ (Commit /\ a = cur.from /\ nonce'[a] = nonce[a] + 1 /\ cur.nonce = nonce'[a]) ]_vars
C03_OnceOnly == [][ Commit => <<cur.from, cur.nonce>> \notin applied ]_vars

(* C04: debits are authorised: the sender up to value+fee, the called       *)
(* contract's own wallet, and third parties only through signed transfers   *)
(* whose signature verifies, up to the signed amounts.                      *)
RECURSIVE SignedSum(_, _)
SignedSum(sts, a) == IF sts = <<>> THEN 0
                     ELSE (IF Head(sts).from = a /\ Head(sts).sigok THEN Head(sts).amt ELSE 0) + SignedSum(Tail(sts), a)
AllowedDebit(t, a) == (IF a = t.from THEN t.value + t.fee ELSE 0) + SignedSum(t.sts, a)
C04_DebitAuth ==
  [][ Commit => \A a \in Acct : bal'[a] < bal[a] =>
         \/ (a = cur.to /\ cur.type = "sc")
         \/ bal[a] - bal'[a] <= AllowedDebit(cur, a) ]_vars

(* C05: no overdraw, no wrap, all-or-nothing.                               *)
C05_Range == \A a \in Acct : bal[a] >= 0 /\ bal[a] <= MaxCoin /\ obal[a] >= 0 /\ obal[a] <= MaxCoin
C05_AllOrNothing == [][ Reject => bal' = bal /\ nonce' = nonce /\ kv' = kv ]_vars
=============================================================================
