SPECIFICATION TraceSpec
INVARIANTS NoPanic HarnessRange C03_Nonce
PROPERTIES C03_OnceOnly
POSTCONDITION Accepted
CHECK_DEADLOCK FALSE
