----------------------------- MODULE Governance -----------------------------
(***************************************************************************)
(* C48.  Settings of one contract (or the chain's global settings): a map  *)
(* name -> value, an owner, immutable names, and the contract's validity   *)
(* predicate Valid(map).  A governance transaction carries a map of        *)
(* changes name -> input; inputs are arbitrary strings.                    *)
(*                                                                         *)
(*   Update(caller, ch):   all-or-nothing                                  *)
(*      accepted  <=>  caller = Owner                                      *)
(*                 /\ every name of ch is known and mutable                *)
(*                 /\ every input of ch parses                             *)
(*                 /\ Valid(settings (+) ch)                               *)
(*      accepted => settings' = settings (+) ch, otherwise UNCHANGED       *)
(*                                                                         *)
(* Two-phase contracts (storagesc) split it: Stage(caller, ch) by the      *)
(* owner adds parsed changes of known names to `pending`; Commit (a        *)
(* built-in transaction of the block generator, any caller) applies        *)
(* pending iff Valid(settings (+) pending).                                *)
(*                                                                         *)
(* Abstract names: "lo","hi" (Valid requires lo <= hi), "rg" (Valid        *)
(* requires rg in range), "im" (immutable), "unknown" (not a setting).     *)
(* Inputs: a value of Vals, Garbage (does not parse), Oor (parses, out of  *)
(* the range of rg); both encoded as integers outside Vals.                *)
(***************************************************************************)
EXTENDS Integers, FiniteSets, Sequences, TLC

CONSTANTS Vals,        \* parsed values, e.g. 1..3
          Callers, Owner,
          HasImmutable, \* the contract marks some names immutable
          TwoPhase      \* Stage + Commit instead of Update

Names == {"lo", "hi", "rg"} \cup (IF HasImmutable THEN {"im"} ELSE {})
AllNames == Names \cup {"im", "unknown"}
Mutable(n) == n \in {"lo", "hi", "rg"}
Known(n) == n \in Names
Garbage == -1
Oor == 99
Inputs == Vals \cup {Garbage, Oor}
Parses(n, x) == x \in Vals \/ (x = Oor /\ n = "rg")        \* Oor is a well-formed number
RgOK(x) == x \in Vals
Valid(m) == m["lo"] <= m["hi"] /\ RgOK(m["rg"])

(* change maps: partial functions AllNames -> Inputs (only sensible inputs per name) *)
InputsOf(n) == CASE n \in {"lo", "hi"} -> Vals \cup {Garbage}
                 [] n = "rg" -> {CHOOSE v \in Vals : TRUE, Garbage, Oor}
                 [] OTHER -> {CHOOSE v \in Vals : TRUE}
Changes == UNION {[D -> Inputs] : D \in SUBSET AllNames}
SaneChanges == {ch \in Changes : \A n \in DOMAIN ch : ch[n] \in InputsOf(n)}

Apply(m, ch) == [n \in DOMAIN m |-> IF n \in DOMAIN ch THEN ch[n] ELSE m[n]]
WellFormed(ch) == \A n \in DOMAIN ch : Known(n) /\ Mutable(n) /\ Parses(n, ch[n])

VARIABLES settings, pending, last
vars == <<settings, pending, last>>
NoLast == [kind |-> "none"]

Init0 == [n \in Names |-> CHOOSE v \in Vals : \A w \in Vals : v <= w] @@ [hi |-> CHOOSE v \in Vals : \A w \in Vals : v >= w]
Init == settings = Init0 /\ pending = <<>> /\ last = NoLast

Accepts(caller, ch) == caller = Owner /\ WellFormed(ch) /\ Valid(Apply(settings, ch))
Update(caller, ch) ==
  /\ ~TwoPhase
  /\ settings' = IF Accepts(caller, ch) THEN Apply(settings, ch) ELSE settings
  /\ last' = [kind |-> "update", byOwner |-> caller = Owner, wf |-> WellFormed(ch), before |-> settings,
              pbefore |-> pending, target |-> Apply(settings, ch)]
  /\ UNCHANGED pending

PendMerge(p, ch) == [n \in DOMAIN p \cup DOMAIN ch |-> IF n \in DOMAIN ch THEN ch[n] ELSE p[n]]
Stages(caller, ch) == caller = Owner /\ WellFormed(ch)
Stage(caller, ch) ==
  /\ TwoPhase
  /\ pending' = IF Stages(caller, ch) THEN PendMerge(pending, ch) ELSE pending
  /\ last' = [kind |-> "stage", byOwner |-> caller = Owner, wf |-> WellFormed(ch), before |-> settings,
              pbefore |-> pending, target |-> settings]
  /\ UNCHANGED settings
Commit(caller) ==
  /\ TwoPhase
  /\ settings' = IF Valid(Apply(settings, pending)) THEN Apply(settings, pending) ELSE settings
  /\ last' = [kind |-> "commit", byOwner |-> caller = Owner, wf |-> TRUE, before |-> settings,
              pbefore |-> pending, target |-> Apply(settings, pending)]
  /\ UNCHANGED pending

Next == \/ \E c \in Callers, ch \in SaneChanges : Update(c, ch) \/ Stage(c, ch)
        \/ \E c \in Callers : Commit(c)
Spec == Init /\ [][Next]_vars

(* ---- the property (last = what the latest transaction was and what it found) ---- *)
(* a transaction of anybody but the owner changes nothing that is the owner's to decide *)
OwnerOnly == (last.kind \in {"update", "stage"} /\ ~last.byOwner) => (settings = last.before /\ pending = last.pbefore)
(* one bad entry rejects the whole map *)
AllOrNothing == (last.kind \in {"update", "stage"} /\ ~last.wf) => (settings = last.before /\ pending = last.pbefore)
(* never a partial application; a commit applies exactly what the owner staged *)
Atomic == last.kind # "none" => settings \in {last.before, last.target}
(* the settings in force always pass validation; immutable names keep their value *)
AlwaysValid == Valid(settings)
ImmutableKept == \A n \in Names : ~Mutable(n) => settings[n] = Init0[n]
=============================================================================
