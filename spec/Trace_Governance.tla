--------------------------- MODULE Trace_Governance ---------------------------
(***************************************************************************)
(* Trace spec for C48.  Each `Gov` event is one governance transaction     *)
(* executed by the REAL contract (through Chain.UpdateState) with a change *)
(* map instantiated from an abstract map of Governance.tla, together with  *)
(* the settings node read back from the real MPT before and after:         *)
(*   sc      which settings (minersc.settings, minersc.globals, storagesc, *)
(*           faucetsc, vestingsc, zcnsc)                                   *)
(*   op      "update" (one-phase update or two-phase stage) | "commit"     *)
(*   caller  "owner" | another name                                        *)
(*   entries abstract change map: pairs (abstract name, abstract input),   *)
(*           input -1 = does not parse, 99 = parses but out of range       *)
(*   want    readings the tracked settings would have if every parsing     *)
(*           entry of a known, mutable name were applied                   *)
(*   before / after        readings of the tracked settings (lo,hi,rg,im)  *)
(*   pbefore / pafter      staged changes (two-phase), as readings         *)
(*   other   number of OTHER settings whose stored value changed           *)
(*   valid_after   verdict of the contract's own validation on the stored  *)
(*                 settings after the transaction                          *)
(*   frun / ffresh  (chain settings only, else empty) the tracked settings *)
(*           as held by the chain config of a node that has been running   *)
(*           since the start of the trace / of a node that (re)starts on   *)
(*           the state after this transaction, both refreshed by the real  *)
(*           ConfigImpl.Update(fields, version) as at block finalization;  *)
(*   fother  number of other chain config fields in which the two differ   *)
(*   entries input 0 = the value the setting currently has                 *)
(* The spec tracks, per settings node, the last state read; the invariants *)
(* are those of Governance.tla.  Error texts, costs, fees, encodings and   *)
(* whether a well-formed change is accepted are left free.                 *)
(***************************************************************************)
EXTENDS TraceLib

VARIABLES l, ev, cur, was
vars == <<l, ev, cur, was>>
Null == [ev |-> "none"]

Fn(ps) == [n \in {ps[i].a : i \in 1..Len(ps)} |-> PairOf(ps, n, 0)]
ApplyTo(m, ch) == [n \in DOMAIN m |-> IF n \in DOMAIN ch THEN ch[n] ELSE m[n]]
Merge(p, ch) == [n \in DOMAIN p \cup DOMAIN ch |-> IF n \in DOMAIN ch THEN ch[n] ELSE p[n]]

TraceInit == l = 1 /\ ev = Null /\ cur = <<>> /\ was = <<>>
TraceGov ==
  /\ l <= Len(Trace) /\ Trace[l].ev = "Gov" /\ l' = l + 1 /\ ev' = Trace[l]
  /\ was' = cur
  /\ cur' = Put(cur, Trace[l].sc, [s |-> Fn(Trace[l].after), p |-> Fn(Trace[l].pafter)])
TraceReset ==
  /\ l <= Len(Trace) /\ Trace[l].ev = "Reset" /\ l' = l + 1 /\ ev' = Trace[l] /\ cur' = <<>> /\ was' = <<>>
TraceOther ==
  /\ l <= Len(Trace) /\ Trace[l].ev \notin {"Gov", "Reset"} /\ l' = l + 1 /\ ev' = Trace[l] /\ UNCHANGED <<cur, was>>
TraceNext == TraceGov \/ TraceReset \/ TraceOther
TraceSpec == TraceInit /\ [][TraceNext]_vars

IsG == ev.ev = "Gov"
Before == Fn(ev.before)
After == Fn(ev.after)
PBefore == Fn(ev.pbefore)
PAfter == Fn(ev.pafter)
Want == Fn(ev.want)
BadEntry(e) == e.a \in {"im", "unknown"} \/ e.d = -1
IllFormed == \E i \in 1..Len(ev.entries) : BadEntry(ev.entries[i])
Untouched == After = Before /\ PAfter = PBefore /\ ev.other = 0 /\ ~ev.owner_changed

(* only the owner's transactions change settings or staged changes *)
C48_OwnerOnly == (IsG /\ ev.op = "update" /\ ev.caller # "owner") => Untouched
(* an unknown or immutable name or an unparsable value rejects the whole map *)
C48_AllOrNothing == (IsG /\ ev.op = "update" /\ IllFormed) => Untouched
(* never a partial application: the settings are as before, or every change is applied;  *)
(* a commit applies exactly what was staged; nothing else is touched                     *)
C48_Atomic == IsG =>
   /\ ev.other = 0
   /\ IF ev.op = "commit" THEN After \in {Before, ApplyTo(Before, PBefore)} /\ PAfter = PBefore
      ELSE IF ev.twophase THEN After = Before /\ PAfter \in {PBefore, Merge(PBefore, Want)}
      ELSE After \in {Before, ApplyTo(Before, Want)}
(* whatever is put in force passes the contract's own validation *)
C48_ValidAfter == (IsG /\ ~IsKnown(ev) /\ After # Before) => ev.valid_after
(* the settings in force for a block are the same on every node: a node that has followed the   *)
(* chain and a node that starts on the block's state hold the same chain config                *)
C48_SameOnEveryNode == IsG => (Fn(ev.frun) = Fn(ev.ffresh) /\ ev.fother = 0)
(* settings do not change between governance transactions *)
C48_NoSilentChange == (IsG /\ ev.sc \in DOMAIN was) => (Before = was[ev.sc].s /\ PBefore = was[ev.sc].p)
=============================================================================
