------------------------------ MODULE BlockGen ------------------------------
(***************************************************************************)
(* C45: a block built by an honest generator from its transaction pool     *)
(* passes honest verification on the same previous state.                  *)
(*                                                                         *)
(* The generator is miner/protocol_block.go generateBlock as coded:        *)
(*   Iterate   one pool transaction (txnIterHandlerFunc: cost gate, then   *)
(*             txnProcessorHandlerFunc: time tolerance, nonce class        *)
(*             past / future / current, UpdateState, checkForCurrent);     *)
(*             the pool is iterated in descending fee order, so a pool IS  *)
(*             its iteration sequence: position p has the p-th highest fee *)
(*   Current   one promoted future transaction (the loop over currentTxns) *)
(*   BuiltIns  the generator's own transactions, each once, last           *)
(* The verifier is VerifyBlock as coded: ValidateTransactions (time,       *)
(* duplicate built-in FUNCTION NAMES whoever the sender is), the block     *)
(* cost limit, ComputeState (nonce = state + 1 for every transaction, no   *)
(* failing execution) and the comparison of the recomputed root.           *)
(*                                                                         *)
(* Pool transaction = (sender, nonce, class); class                        *)
(*   ok    valid transfer                     sc  valid contract call      *)
(*   fail  execution returns an error (e.g. balance too low)               *)
(*   stale creation time outside the tolerance of the block time           *)
(*   bi    a CLIENT transaction that carries the function name of a        *)
(*         built-in transaction (the intake handler accepts it)            *)
(* past / future / duplicate nonces are not labels: they follow from the   *)
(* nonce and the sender's state nonce at the moment of processing.         *)
(*                                                                         *)
(* FilterBuiltins = TRUE is the code (since the fix "do not pack pool       *)
(* transactions that carry a built-in function name"): such a pool         *)
(* transaction is dropped before the cost gate.  FALSE is the code as      *)
(* found: it was packed like any other, next to the generator's own        *)
(* built-in transaction, and the verifier rejected the block               *)
(* (MC_BlockGen_asfound_demo.cfg exhibits it).                             *)
(***************************************************************************)
EXTENDS Integers, Sequences, FiniteSets, TLC

CONSTANTS Sender, MaxNonce, StateNonce, Class, MaxPool, MaxCost, BuiltIn, FilterBuiltins, BiName

Txn == [s : Sender, n : 1..MaxNonce, c : Class]

CostOf(c) == CASE c = "sc" -> 3 [] c = "bi" -> 2 [] OTHER -> 1
BuiltCost(name) == IF name = "payFees" THEN 2 ELSE 1

VARIABLES st,      \* previous-state nonce of every sender (fixed)
          len,     \* pool size (fixed)
          hist,    \* the pool transactions iterated so far, in iteration order
          nonce,   \* sender -> nonce in the block state being built
          mnonce,  \* the generator's own nonce in the block state
          blk,     \* the block: entries [s, n, c, p, bi]; p = pool position (0 for the generator's own)
          fut,     \* sender -> future transactions, sorted by (nonce, position)
          cur,     \* promoted transactions (currentTxns)
          ci,      \* how many of cur were processed
          cost, phase, verdict
vars == <<st, len, hist, nonce, mnonce, blk, fut, cur, ci, cost, phase, verdict>>

Entry(t, p) == [s |-> t.s, n |-> t.n, c |-> t.c, p |-> p, bi |-> IF t.c = "bi" THEN BiName ELSE ""]

Init == /\ st \in [Sender -> StateNonce] /\ len \in 0..MaxPool /\ hist = <<>>
        /\ nonce = st /\ mnonce = 0 /\ blk = <<>> /\ fut = [s \in Sender |-> <<>>]
        /\ cur = <<>> /\ ci = 0 /\ cost = 0 /\ phase = "iter" /\ verdict = [ok |-> FALSE, why |-> "", root |-> <<>>]

\* the generator adds the cost of its own transactions first
BuiltTotal == LET RECURSIVE Sum(_) Sum(i) == IF i > Len(BuiltIn) THEN 0 ELSE BuiltCost(BuiltIn[i]) + Sum(i + 1) IN Sum(1)

\* sort.SliceStable by (nonce, fee descending); fee descending = pool position ascending
RECURSIVE InsertSorted(_, _)
InsertSorted(f, e) == IF f = <<>> THEN <<e>>
                      ELSE IF e.n < f[1].n \/ (e.n = f[1].n /\ e.p < f[1].p) THEN <<e>> \o f
                      ELSE <<f[1]>> \o InsertSorted(Tail(f), e)

\* sort.SliceStable(currentTxns, by nonce)
RECURSIVE StableByNonce(_, _)
StableByNonce(c, n) == IF n > MaxNonce THEN <<>> ELSE SelectSeq(c, LAMBDA e : e.n = n) \o StableByNonce(c, n + 1)

\* checkForCurrent: walk the sender's futures from the nonce just executed
RECURSIVE Walk(_, _, _, _)
Walk(f, i, cn, prom) ==
  IF i > Len(f) THEN [i |-> i, prom |-> prom]
  ELSE IF f[i].n - cn > 1 THEN [i |-> i, prom |-> prom]
  ELSE IF f[i].n - cn < 1 THEN Walk(f, i + 1, cn, prom)                 \* same nonce again: past
  ELSE Walk(f, i + 1, f[i].n, Append(prom, f[i]))

\* txnProcessorHandlerFunc on entry e; G = [nonce, blk, fut, cur]; result [G, ok]
Proc(e, G) ==
  IF e.c = "stale" THEN [G |-> G, ok |-> FALSE]
  ELSE IF e.n - G.nonce[e.s] > 1 THEN [G |-> [G EXCEPT !.fut[e.s] = InsertSorted(@, e)], ok |-> FALSE]
  ELSE IF e.n - G.nonce[e.s] < 1 THEN [G |-> G, ok |-> FALSE]
  ELSE IF e.c = "fail" THEN [G |-> G, ok |-> FALSE]
  ELSE LET w == Walk(G.fut[e.s], 1, e.n, <<>>) IN
       [G |-> [nonce |-> [G.nonce EXCEPT ![e.s] = e.n],
               blk   |-> Append(G.blk, e),
               fut   |-> [G.fut EXCEPT ![e.s] = SubSeq(@, w.i, Len(@))],
               cur   |-> StableByNonce(G.cur \o w.prom, 1)],
        ok |-> TRUE]

GState == [nonce |-> nonce, blk |-> blk, fut |-> fut, cur |-> cur]
Apply(r, c) == /\ nonce' = r.G.nonce /\ blk' = r.G.blk /\ fut' = r.G.fut /\ cur' = r.G.cur
               /\ cost' = IF r.ok THEN cost + c ELSE cost

Iterate(t) ==
  /\ phase = "iter" /\ Len(hist) < len
  /\ hist' = Append(hist, t)
  /\ LET e == Entry(t, Len(hist) + 1) c == CostOf(t.c) IN
       IF (FilterBuiltins /\ t.c = "bi") \/ BuiltTotal + cost + c >= MaxCost
       THEN UNCHANGED <<nonce, blk, fut, cur, cost>>
       ELSE Apply(Proc(e, GState), c)
  /\ UNCHANGED <<st, len, mnonce, ci, phase, verdict>>

EndIter == /\ phase = "iter" /\ Len(hist) = len /\ phase' = "current"
           /\ UNCHANGED <<st, len, hist, nonce, mnonce, blk, fut, cur, ci, cost, verdict>>

Current ==
  /\ phase = "current"
  /\ IF ci < Len(cur) /\ BuiltTotal + cost < MaxCost
     THEN LET e == cur[ci + 1] c == CostOf(e.c) IN
          IF BuiltTotal + cost + c >= MaxCost
          THEN phase' = "builtin" /\ UNCHANGED <<nonce, blk, fut, cur, cost, ci>>
          ELSE Apply(Proc(e, GState), c) /\ ci' = ci + 1 /\ UNCHANGED phase
     ELSE phase' = "builtin" /\ UNCHANGED <<nonce, blk, fut, cur, cost, ci>>
  /\ UNCHANGED <<st, len, hist, mnonce, verdict>>

BuiltIns ==
  /\ phase = "builtin" /\ phase' = "done"
  /\ blk' = blk \o [i \in 1..Len(BuiltIn) |-> [s |-> "miner", n |-> mnonce + i, c |-> "builtin", p |-> 0, bi |-> BuiltIn[i]]]
  /\ mnonce' = mnonce + Len(BuiltIn)
  /\ UNCHANGED <<st, len, hist, nonce, fut, cur, ci, cost, verdict>>

-----------------------------------------------------------------------------
\* the verifier
EntryCost(e) == IF e.p = 0 THEN BuiltCost(e.bi) ELSE CostOf(e.c)
RECURSIVE SumCost(_, _)
SumCost(b, i) == IF i > Len(b) THEN 0 ELSE EntryCost(b[i]) + SumCost(b, i + 1)

DupBuiltin(b) == \E i, j \in 1..Len(b) : i < j /\ b[i].bi # "" /\ b[i].bi = b[j].bi

\* ComputeState: every transaction needs nonce = state + 1 and must execute; result = the new nonces
RECURSIVE Replay(_, _, _, _)
Replay(b, i, ns, mn) ==
  IF i > Len(b) THEN [ok |-> TRUE, root |-> <<ns, mn>>]
  ELSE LET e == b[i] IN
       IF e.s = "miner" THEN (IF e.n = mn + 1 THEN Replay(b, i + 1, ns, e.n) ELSE [ok |-> FALSE, root |-> <<>>])
       ELSE IF e.n = ns[e.s] + 1 /\ e.c \notin {"fail"} THEN Replay(b, i + 1, [ns EXCEPT ![e.s] = e.n], mn)
       ELSE [ok |-> FALSE, root |-> <<>>]

GenRoot == <<nonce, mnonce>>

Verify ==
  /\ phase = "done" /\ phase' = "verified"
  /\ verdict' = IF \E i \in 1..Len(blk) : blk[i].c = "stale" THEN [ok |-> FALSE, why |-> "txn_validation", root |-> <<>>]
                ELSE IF DupBuiltin(blk) THEN [ok |-> FALSE, why |-> "txn_validation", root |-> <<>>]
                ELSE IF SumCost(blk, 1) > MaxCost THEN [ok |-> FALSE, why |-> "cost", root |-> <<>>]
                ELSE LET r == Replay(blk, 1, st, 0) IN
                     IF ~r.ok THEN [ok |-> FALSE, why |-> "state", root |-> <<>>]
                     ELSE IF r.root # GenRoot THEN [ok |-> FALSE, why |-> "state_mismatch", root |-> r.root]
                     ELSE [ok |-> TRUE, why |-> "", root |-> r.root]
  /\ UNCHANGED <<st, len, hist, nonce, mnonce, blk, fut, cur, ci, cost>>

Next == (\E t \in Txn : Iterate(t)) \/ EndIter \/ Current \/ BuiltIns \/ Verify
Spec == Init /\ [][Next]_vars

-----------------------------------------------------------------------------
Built == phase \in {"done", "verified"}
NoncesOf(s) == LET f == SelectSeq(blk, LAMBDA e : e.s = s) IN [i \in 1..Len(f) |-> f[i].n]
(* C45 *)
NoDuplicate      == Built => \A i, j \in 1..Len(blk) : (i # j /\ blk[i].p # 0) => blk[i].p # blk[j].p
ConsecutiveNonces == Built => /\ \A s \in Sender : \A k \in 1..Len(NoncesOf(s)) : NoncesOf(s)[k] = st[s] + k
                              /\ \A k \in 1..Len(NoncesOf("miner")) : NoncesOf("miner")[k] = k
CostLimit        == Built => SumCost(blk, 1) <= MaxCost
BuiltinsOnce     == Built => ~DupBuiltin(blk)
VerifierAgrees   == phase = "verified" => (verdict.ok /\ verdict.root = GenRoot)
=============================================================================
