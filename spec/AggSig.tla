------------------------------- MODULE AggSig -------------------------------
(***************************************************************************)
(* C32 - batched (aggregate) signature verification vs. individual         *)
(* verification.                                                           *)
(*                                                                         *)
(* core/encryption/bls0chain_aggregate.go, as used by                      *)
(* miner.ValidateTransactions (different message per signer, batches of    *)
(* ValidationBatchSize aggregated concurrently) and chain.VerifyTickets    *)
(* (one message - the block hash - for all signers, one batch):            *)
(*                                                                         *)
(*   Aggregate(i):  b = i / BatchSize                                      *)
(*                  ASigs[b] += sig_i          (first one: := sig_i)       *)
(*                  AGt[b]   *= e(H(m_i), pk_i)                            *)
(*   Verify():      e(Sum_b ASigs[b], g2) = Prod_b AGt[b]                  *)
(*                                                                         *)
(* i.e. ONE pairing equation over the sum of all signatures.  In the toy   *)
(* group (ToyGroup.tla) GT is written additively, e(H(m),pk) = pk*m.       *)
(*                                                                         *)
(* A scenario: n positions, position i claims (key ck[i], message cm[i])   *)
(* and carries the signature made with key sk[i] over message sm[i] plus   *)
(* the additive error dl[i].  Honest: sk = ck, sm = cm, dl = 0.            *)
(*                                                                         *)
(* The property (C32): the aggregate check accepts iff every individual    *)
(* signature is valid; in particular corruptions that cancel each other    *)
(* must be rejected.  The code as written cannot deliver the second half:  *)
(* the cancelling case is the named action VerifyCancelling, whose verdict *)
(* is the coded equation when AsCoded = TRUE and "reject" in the intended  *)
(* design (AsCoded = FALSE).                                               *)
(*                                                                         *)
(* The signer schemes handed to Aggregate are long-lived OBJECTS (the      *)
(* scheme of a client / node, chaincore/client): after a verification the  *)
(* same objects can be re-keyed (SetPublicKey / ReadKeys: ReKey) and       *)
(* aggregated again for the same messages and signatures, up to MaxPasses  *)
(* verifications.  okey[i] is the key the object of position i pairs with; *)
(* the design: it is the key the object was last given (ObjectsCurrent),   *)
(* so every pass decides the scenario whose claims are the keys held then. *)
(***************************************************************************)
EXTENDS ToyGroup, TLC

CONSTANTS P,          \* prime modulus of the toy group
          MaxN,       \* at most this many signatures
          KeyVals,    \* secret-key scalars of claimed signers   (subset of 1..P-1)
          MsgVals,    \* message scalars                          (subset of 1..P-1)
          WrongKeys,  \* keys a forger may sign with instead
          WrongMsgs,  \* messages a forger may sign instead
          Deltas,     \* additive errors                          (subset of 1..P-1)
          SameModes,  \* subset of BOOLEAN; TRUE: all signers sign one message (tickets)
          MaxTouched, \* at most this many positions are corrupted
          AsCoded,    \* TRUE: verdict of the cancelling case = the coded equation
          MaxPasses,  \* the same scheme objects are verified at most this many times
          ReKeys      \* keys an object can be re-keyed with between two verifications

Nil == -1

VARIABLES phase,            \* "signed" -> "agg" -> "done"
          n, same, ck, cm,  \* claims
          sk, sm, dl,       \* what the carried signature really is
          touched,          \* positions already corrupted (each at most once)
          bs,               \* batch size chosen by the verifier
          aSig, aGt,        \* per-batch accumulators (Nil = not yet written)
          done,             \* positions aggregated so far
          verdict,          \* "none" | "accept" | "reject"
          pass,             \* verifications started so far
          okey              \* key held by the scheme object of each position (what PairMessageHash pairs with)

scen == <<n, same, ck, cm, sk, sm, dl>>
vars == <<phase, n, same, ck, cm, sk, sm, dl, touched, bs, aSig, aGt, done, verdict, pass, okey>>

Pos == 1..n

(* --- algebra of one scenario ------------------------------------------ *)
Expected(i) == (ck[i] * cm[i]) % P                 \* exponent of e(H(cm_i), pk_i)
Paired(i) == (okey[i] * cm[i]) % P                 \* what the object of position i contributes: e(H(cm_i), its key)
Carried(i) == (sk[i] * sm[i] + dl[i]) % P          \* the signature travelling at position i
Err(i) == M(Carried(i) - Expected(i), P)
IndValid(i) == Ver(Carried(i), ck[i], cm[i], P)    \* what BLS0ChainScheme.Verify decides for position i
AllValid == \A i \in Pos : IndValid(i)
NetErr == SumOver([i \in Pos |-> Err(i)], Pos, P)
Cancelling == ~AllValid /\ NetErr = 0              \* individually invalid, errors sum to zero

(* --- scenario construction -------------------------------------------- *)
Init ==
  /\ phase = "signed"
  /\ n \in 1..MaxN /\ same \in SameModes
  /\ ck \in [1..n -> KeyVals]
  /\ cm \in [1..n -> MsgVals]
  /\ same => \A i \in 1..n : cm[i] = cm[1]
  /\ sk = ck /\ sm = cm /\ dl = [i \in 1..n |-> 0]
  /\ touched = {} /\ bs = 0 /\ aSig = <<>> /\ aGt = <<>> /\ done = {} /\ verdict = "none"
  /\ pass = 0 /\ okey = ck

Untouched(i) == phase = "signed" /\ i \in Pos /\ i \notin touched /\ Cardinality(touched) < MaxTouched
Keep == UNCHANGED <<phase, n, same, ck, cm, bs, aSig, aGt, done, verdict, pass, okey>>

(* sigma_i + d *)
CorruptDelta(i, d) ==
  /\ Untouched(i) /\ d \in Deltas
  /\ dl' = [dl EXCEPT ![i] = d] /\ touched' = touched \cup {i}
  /\ UNCHANGED <<sk, sm>> /\ Keep
(* signed by another key *)
WrongKey(i, k) ==
  /\ Untouched(i) /\ k \in WrongKeys /\ k # ck[i]
  /\ sk' = [sk EXCEPT ![i] = k] /\ touched' = touched \cup {i}
  /\ UNCHANGED <<sm, dl>> /\ Keep
(* a signature over another message *)
WrongMsg(i, m) ==
  /\ Untouched(i) /\ m \in WrongMsgs /\ m # cm[i]
  /\ sm' = [sm EXCEPT ![i] = m] /\ touched' = touched \cup {i}
  /\ UNCHANGED <<sk, dl>> /\ Keep
(* position i carries the (genuine) signature that belongs to position j: two of these = a swap *)
TakeOther(i, j) ==
  /\ Untouched(i) /\ j \in Pos /\ j # i /\ <<ck[j], cm[j]>> # <<ck[i], cm[i]>>
  /\ sk' = [sk EXCEPT ![i] = ck[j]] /\ sm' = [sm EXCEPT ![i] = cm[j]] /\ touched' = touched \cup {i}
  /\ UNCHANGED dl /\ Keep

(* --- the verifier, as coded -------------------------------------------- *)
NumBatches(total, b) == IF (total \div b) * b < total THEN (total \div b) + 1 ELSE total \div b
BatchOf(i) == ((i - 1) \div bs) + 1                \* idx / BatchSize, idx = i-1

(* a fresh aggregate scheme over the same signer objects: the first verification, or one after re-keying *)
StartVerify(b) ==
  /\ phase \in {"signed", "rekeyed"} /\ b \in 1..MaxN /\ pass < MaxPasses
  /\ phase' = "agg" /\ bs' = b /\ pass' = pass + 1 /\ done' = {} /\ verdict' = "none"
  /\ aSig' = [x \in 1..NumBatches(n, b) |-> Nil] /\ aGt' = [x \in 1..NumBatches(n, b) |-> Nil]
  /\ UNCHANGED <<n, same, ck, cm, sk, sm, dl, touched, okey>>

(* between two verifications the object of position i is given another key (SetPublicKey / ReadKeys): *)
(* from then on the position claims key k; the signature it carries stays what it was                 *)
ReKey(i, k) ==
  /\ phase \in {"done", "rekeyed"} /\ pass < MaxPasses /\ i \in Pos /\ k \in ReKeys /\ k # ck[i]
  /\ ck' = [ck EXCEPT ![i] = k] /\ okey' = [okey EXCEPT ![i] = k]
  /\ phase' = "rekeyed" /\ verdict' = "none"
  /\ UNCHANGED <<n, same, cm, sk, sm, dl, touched, bs, aSig, aGt, done, pass>>

(* one call of Aggregate(ss, idx, sig, hash): inside a batch in index order (the code's loop), *)
(* different batches interleave freely (one goroutine per batch in ValidateTransactions)       *)
Aggregate(i) ==
  /\ phase = "agg" /\ i \in Pos \ done
  /\ \A j \in Pos : (j < i /\ BatchOf(j) = BatchOf(i)) => j \in done
  /\ LET b == BatchOf(i) IN
       /\ aSig' = [aSig EXCEPT ![b] = IF @ = Nil THEN Carried(i) ELSE (@ + Carried(i)) % P]
       /\ aGt' = [aGt EXCEPT ![b] = IF @ = Nil THEN Paired(i) ELSE (@ + Paired(i)) % P]
  /\ done' = done \cup {i}
  /\ UNCHANGED <<phase, n, same, ck, cm, sk, sm, dl, touched, bs, verdict, pass, okey>>

(* Verify(): fold the batches into the first one, one pairing equation *)
AggEq == SumSeq(aSig, 1, P) = SumSeq(aGt, 1, P)
Finish(v) == /\ phase' = "done" /\ verdict' = (IF v THEN "accept" ELSE "reject")
             /\ UNCHANGED <<n, same, ck, cm, sk, sm, dl, touched, bs, aSig, aGt, done, pass, okey>>
VerifyPlain == phase = "agg" /\ done = Pos /\ ~Cancelling /\ Finish(AggEq)
(* the named deviation: individually invalid signatures whose errors cancel *)
VerifyCancelling == phase = "agg" /\ done = Pos /\ Cancelling /\ Finish(IF AsCoded THEN AggEq ELSE FALSE)

Next == \/ \E i \in 1..MaxN : \/ \E d \in Deltas : CorruptDelta(i, d)
                              \/ \E k \in WrongKeys : WrongKey(i, k)
                              \/ \E m \in WrongMsgs : WrongMsg(i, m)
                              \/ \E j \in 1..MaxN : TakeOther(i, j)
                              \/ Aggregate(i)
                              \/ \E k \in ReKeys : ReKey(i, k)
        \/ \E b \in 1..MaxN : StartVerify(b)
        \/ VerifyPlain \/ VerifyCancelling
Spec == Init /\ [][Next]_vars

(* --- properties --------------------------------------------------------- *)
Done == phase = "done"
Accepts == verdict = "accept"

TypeOK == /\ phase \in {"signed", "agg", "done", "rekeyed"} /\ pass \in 0..MaxPasses /\ verdict \in {"none", "accept", "reject"}
          /\ \A i \in Pos : dl[i] \in 0..(P - 1)
          /\ (phase # "signed") => Len(aSig) = NumBatches(n, bs)
(* the object of every position pairs with the key it was last given - in every pass *)
ObjectsCurrent == okey = ck

(* provable for the code as written *)
Completeness == (Done /\ AllValid) => Accepts
SoundNonCancelling == (Done /\ ~AllValid /\ NetErr # 0) => ~Accepts
SingleFaultDetected == (Done /\ Cardinality({i \in Pos : ~IndValid(i)}) = 1) => ~Accepts
BatchSplitIndependent == Done => (Accepts <=> NetErr = 0)      \* no dependence on bs or interleaving
OnlyGapIsCancelling == (Done /\ Accepts /\ ~AllValid) => Cancelling
(* the property itself: holds in the intended design, FAILS for AsCoded = TRUE (prediction for the code) *)
C32_AggExact == Done => (Accepts <=> AllValid)
=============================================================================
