SPECIFICATION GSpec
CONSTANTS
  Sender = {"c1", "c2"}
  MaxNonce = 3
  Tol = 2
  FutureNonce = 2
  MaxTx = 3
  Kinds = {"ok", "lowfee", "tamper"}
  MaxClock = 3
  MaxTxns = 6
  MaxBlocks = 6
  MaxOps = 12
  WGen = 8
  WFin = 10
  WTick = 2
  WOk = 3
INVARIANT GPrint
CHECK_DEADLOCK FALSE
