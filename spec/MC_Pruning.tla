------------------------------ MODULE MC_Pruning ------------------------------
(* Exhaustive: every history of inserts / deletes / re-inserts of the same value over Key x Val, *)
(* in and across blocks, finalized with or without the dead-node record (crash), pruned at every *)
(* version at every point; up to MaxRollbacks times the last finalized blocks are abandoned      *)
(* (rollback to a fork's common ancestor) and replaced by other blocks at the same rounds.        *)
EXTENDS Pruning
A_Insert == /\ nops < MaxOps
            /\ \E k \in Key, v \in Val : Txn(k, v)
A_Delete == /\ nops < MaxOps
            /\ \E k \in Key : Txn(k, 0)
A_Finalize == /\ round <= MaxBlocks
              /\ Finalize(TRUE)
A_FinalizeCrash == /\ round <= MaxBlocks
                   /\ Finalize(FALSE)
A_Prune == /\ pruned < MaxBlocks
           /\ \E v \in 1..MaxBlocks : Prune(v)
A_Rollback == /\ nroll < MaxRollbacks
              /\ \E n \in 1..MaxBlocks : Rollback(n)
MCNext == A_Insert \/ A_Delete \/ A_Finalize \/ A_FinalizeCrash \/ A_Prune \/ A_Rollback
MCSpec == Init /\ [][MCNext]_vars
=============================================================================
