SPECIFICATION TraceSpec
INVARIANTS C33_NeverCountInvalid C33_SeedIffThreshold C33_SameSeed HarnessVrfShape
POSTCONDITION Accepted
CHECK_DEADLOCK FALSE
