SPECIFICATION RTCSpec
CONSTANTS
  Miner = {"m1","m2","m3"}
  Shs = {"s1"}
  K0 = 2
  T0 = 2
  PRs <- PR_ones
  MinN = 2
  CurK = 3
  MaxRound = 7
  MaxCycle = 1
  Flaky = {"m3"}
  LagOn = TRUE
  RestMayFail = FALSE
  StoreByNumber = TRUE
  MaxFaults = 1
INVARIANTS MagicBlockComplete NoCrash KeyShareConsistent
CHECK_DEADLOCK FALSE
